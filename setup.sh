#!/bin/sh
# Offline setup: warm the Go build cache for every harness package (checks rebuild anyway).
cd "$(dirname "$0")" || exit 1
python3 - <<'PY'
import os, subprocess, sys
sys.path.insert(0, "lib")
sys.argv = ["check"]
import importlib.machinery, importlib.util
loader = importlib.machinery.SourceFileLoader("check", "check")
spec = importlib.util.spec_from_loader("check", loader)
chk = importlib.util.module_from_spec(spec); loader.exec_module(chk)
from props import PROPS
gobin, env = chk.go_env()
import json
claimed = {c["property_id"] for c in json.load(open("MANIFEST.json"))["checks"]}
pkgs = sorted({"./" + c["pkg"] for p, c in PROPS.items() if p in claimed})
# warm-up only: every check rebuilds its own test binary, so a package that does not build is that check's
# problem (exit 2 there), not a reason to fail the whole setup
r = subprocess.run([gobin, "version"], cwd=chk.HARNESS, env=env)
for pkg in pkgs:
    w = subprocess.run([gobin, "vet", "-tags", "verif", pkg], cwd=chk.HARNESS, env=env)
    if w.returncode != 0:
        print("setup: warning: %s does not vet cleanly" % pkg)
if os.path.exists("native/build.sh"):
    os.makedirs(".build/setup", exist_ok=True)
    r2 = subprocess.run(["native/build.sh", ".build/setup"], env=env)
    if r2.returncode != 0:
        print("setup: warning: native runner did not build")
sys.exit(0 if r.returncode == 0 else 1)
PY
