#!/bin/sh
# Offline setup: warm the Go build cache for every harness package (checks rebuild anyway).
cd "$(dirname "$0")" || exit 1
python3 - <<'PY'
import os, subprocess, sys
sys.path.insert(0, "lib")
sys.argv = ["check"]
import importlib.machinery, importlib.util
loader = importlib.machinery.SourceFileLoader("check", "check")
spec = importlib.util.spec_from_loader("check", loader)
chk = importlib.util.module_from_spec(spec); loader.exec_module(chk)
from props import PROPS
gobin, env = chk.go_env()
pkgs = sorted({"./" + c["pkg"] for c in PROPS.values()})
r = subprocess.run([gobin, "vet", "-tags", "verif"] + pkgs, cwd=chk.HARNESS, env=env)
if os.path.exists("native/build.sh"):
    os.makedirs(".build/setup", exist_ok=True)
    r2 = subprocess.run(["native/build.sh", ".build/setup"], env=env)
    r = r if r.returncode else r2
sys.exit(0 if r.returncode == 0 else 1)
PY
