package c04

// pkg/pppoe/auth.go: the stand-alone Authenticator (PAP + CHAP) the package
// offers next to the Server.  The Server does not dispatch CHAP at all
// (handleSession has no case for 0xC223), so the CHAP half of the statement
// ("PAP/CHAP exchange accepted, by RADIUS when one is configured") is decided
// here: success may be signalled (Authenticate-Ack / CHAP Success emitted,
// state Success, completion callback with Success) only if the RADIUS server
// sent an authentic Access-Accept while that very packet was handled - or no
// RADIUS client is configured.

import (
	"fmt"
	"strings"
	"testing"
	"testing/synctest"
	"time"

	"github.com/codelaboratoryltd/bng/pkg/pppoe"
	"go.uber.org/zap"
	"pgregory.net/rapid"

	"bngverif/internal/vstat"
)

type authOp struct {
	Kind    string // pap | chap | chap-stale | pap-malformed | chap-malformed | sleep | reauth
	Radius  radOutcome
	Ident   byte
	Variant int
	Sleep   time.Duration
}

func (o authOp) String() string {
	switch o.Kind {
	case "pap", "chap", "chap-stale":
		return fmt.Sprintf("%s(radius=%s)", o.Kind, o.Radius)
	case "sleep":
		return fmt.Sprintf("sleep(%s)", o.Sleep)
	}
	return fmt.Sprintf("%s(v=%d)", o.Kind, o.Variant)
}

type authCase struct {
	Radius radMode
	CHAP   bool
	Ops    []authOp
}

func (c authCase) String() string {
	var parts []string
	for _, o := range c.Ops {
		parts = append(parts, o.String())
	}
	return fmt.Sprintf("radius=%s chap=%v : %s", c.Radius, c.CHAP, strings.Join(parts, " "))
}

type authResult struct {
	sig, msg  string
	trace     []string
	successes int
	failures  int
	limited   bool
}

func runAuthCase(t *testing.T, c authCase, rs *radServer) *authResult {
	res := &authResult{}
	synctest.Test(t, func(t *testing.T) {
		cfg := pppoe.DefaultAuthConfig()
		if c.CHAP {
			cfg.Protocol = protoCHAP
		}
		type sent struct {
			proto uint16
			data  []byte
		}
		var out []sent
		var completions []*pppoe.AuthResult
		a := pppoe.NewAuthenticator(cfg, newRadiusClient(t, c.Radius, rs), func(p uint16, d []byte) {
			out = append(out, sent{p, append([]byte(nil), d...)})
		}, zap.NewNop())
		a.SetOnAuthComplete(func(r *pppoe.AuthResult) { completions = append(completions, r) })
		if err := a.Start(); err != nil {
			res.sig, res.msg = "C04/harness/authenticator-start", err.Error()
			return
		}
		chapID := byte(0)
		scan := func() {
			for _, s := range out {
				if s.proto == protoCHAP && len(s.data) >= 2 && s.data[0] == 1 {
					chapID = s.data[1]
				}
			}
		}
		scan()
		out = nil
		everAccepted := false
		for i, op := range c.Ops {
			if op.Kind == "sleep" {
				time.Sleep(op.Sleep)
				synctest.Wait()
				res.trace = append(res.trace, op.String())
				continue
			}
			rs.outcome.Store(int32(op.Radius))
			before := rs.accepts.Load()
			var proto uint16
			var pkt []byte
			switch op.Kind {
			case "pap":
				proto, pkt = protoPAP, papRequest(op.Ident, "alice", "pw")
			case "chap":
				proto, pkt = protoCHAP, cpPacket(chapResponse, chapID, cat([]byte{16}, make([]byte, 16), []byte("alice")))
			case "chap-stale":
				proto, pkt = protoCHAP, cpPacket(chapResponse, chapID+1+byte(op.Variant), cat([]byte{16}, make([]byte, 16), []byte("alice")))
			case "pap-malformed":
				proto = protoPAP
				pkt = [][]byte{{papReq, 1}, cpPacket(papReq, 1, nil), cpPacket(papReq, 1, []byte{200, 'a'}), cpPacket(papReq, 1, []byte{1, 'a', 50}), cpPacket(papAck, 1, []byte{0})}[op.Variant%5]
			case "chap-malformed":
				proto = protoCHAP
				pkt = [][]byte{{chapResponse, chapID}, cpPacket(chapResponse, chapID, nil), cpPacket(chapResponse, chapID, []byte{200, 1, 2}), cpPacket(chapSuccess, chapID, nil), cpPacket(1, chapID, []byte{4, 1, 2, 3, 4})}[op.Variant%5]
			case "reauth":
				_ = a.SendReauthChallenge()
			}
			nComp := len(completions)
			if pkt != nil {
				func() {
					defer func() {
						if p := recover(); p != nil && res.sig == "" {
							res.sig, res.msg = "C04/authenticator/panic/"+op.Kind, fmt.Sprintf("op %d %s panicked: %v", i, op, p)
						}
					}()
					_ = a.ReceivePacket(proto, pkt)
				}()
			}
			synctest.Wait()
			accepted := c.Radius == radNone || rs.accepts.Load() > before
			var evs []string
			granted := ""
			for _, s := range out {
				if len(s.data) == 0 {
					continue
				}
				evs = append(evs, fmt.Sprintf("%04x/%d", s.proto, s.data[0]))
				if (s.proto == protoPAP && s.data[0] == papAck) || (s.proto == protoCHAP && s.data[0] == chapSuccess) {
					granted = "success-packet"
					res.successes++
				}
				if (s.proto == protoPAP && s.data[0] == 3) || (s.proto == protoCHAP && s.data[0] == 4) {
					res.failures++
					if strings.Contains(string(s.data), "Too many") {
						res.limited = true
					}
				}
			}
			for _, r := range completions[nComp:] {
				if r.Success && granted == "" {
					granted = "callback-success"
				}
			}
			scan()
			out = nil
			res.trace = append(res.trace, fmt.Sprintf("%s -> [%s] state=%s", op, strings.Join(evs, " "), a.GetState()))
			if res.sig != "" {
				return
			}
			isReq := op.Kind == "pap" || op.Kind == "chap" || op.Kind == "chap-stale"
			if granted != "" && (!isReq || !accepted) {
				res.sig = "C04/authenticator/" + granted + "-without-acceptance/" + op.Kind
				res.msg = fmt.Sprintf("op %d %s: authenticator signalled success (%s) but RADIUS (mode %s, scripted %s) sent no Access-Accept for it", i, op, granted, c.Radius, op.Radius)
				return
			}
			if granted != "" {
				everAccepted = true
			}
			if a.GetState() == pppoe.AuthStateSuccess && !everAccepted {
				res.sig = "C04/authenticator/state-success-without-acceptance/" + op.Kind
				res.msg = fmt.Sprintf("op %d %s: state is Success although no exchange was ever accepted", i, op)
				return
			}
		}
	})
	return res
}

func TestPropAuthenticator(t *testing.T) {
	vstat.Checks(1500, 20000)
	rs := scriptedRadius(t)
	rapid.Check(t, func(rt *rapid.T) {
		c := authCase{
			Radius: rapid.SampledFrom([]radMode{radNone, radLive, radLive, radDeadThenLive, radDeadOnly}).Draw(rt, "radius"),
			CHAP:   rapid.Bool().Draw(rt, "chap"),
		}
		n := rapid.IntRange(1, 12).Draw(rt, "n")
		for i := 0; i < n; i++ {
			op := authOp{Kind: rapid.SampledFrom([]string{"pap", "pap", "pap", "chap", "chap", "chap", "chap-stale", "pap-malformed", "chap-malformed", "sleep", "reauth"}).Draw(rt, "kind")}
			op.Radius = genOutcome.Draw(rt, "radius")
			op.Ident = byte(rapid.IntRange(0, 255).Draw(rt, "ident"))
			op.Variant = rapid.IntRange(0, 4).Draw(rt, "variant")
			op.Sleep = rapid.SampledFrom([]time.Duration{time.Second, 61 * time.Second}).Draw(rt, "sleep")
			c.Ops = append(c.Ops, op)
		}
		res := runAuthCase(t, c, rs)
		cls := []string{"authenticator", "authenticator:radius:" + c.Radius.String()}
		if c.CHAP {
			cls = append(cls, "authenticator:chap")
		} else {
			cls = append(cls, "authenticator:pap")
		}
		if res.successes > 0 {
			cls = append(cls, "authenticator:granted")
		}
		if res.failures > 0 {
			cls = append(cls, "authenticator:refused")
		}
		if res.limited {
			cls = append(cls, "authenticator:rate-limited")
		}
		if res.sig != "" {
			if vstat.Fail(rt, res.sig, "%s\n  case: %s\n  trace:\n    %s", res.msg, c, strings.Join(res.trace, "\n    ")) {
				cls = append(cls, "ended-by-known-finding")
			}
		}
		// non-trivial here: an authentication request was refused or errored (the gate had something to refuse)
		vstat.Case(res.failures > 0, vstat.Hash("authenticator", c.String()), func() any {
			return map[string]any{"test": "authenticator", "case": c.String(), "trace": res.trace}
		}, cls...)
	})
}
