package c04

// RADIUS time-outs cannot be produced under virtual time (a goroutine blocked
// in a real socket read freezes the bubble's clock), so this one test runs in
// real time with a 15 ms client time-out and a scripted server that stays
// silent.  The oracle is the same one-directional monitor: nothing is ever
// asserted because something was slow, only because the server granted
// something without an observed acceptance.

import (
	"testing"
	"time"

	"github.com/codelaboratoryltd/bng/pkg/pppoe"
	"pgregory.net/rapid"

	"bngverif/internal/vstat"
)

func TestPropRadiusTimeout(t *testing.T) {
	vstat.Checks(60, 600)
	rs := scriptedRadius(t)
	rapid.Check(t, func(rt *rapid.T) {
		spec, _ := genCase(rt, []radMode{radLive})
		var steps []step
		silent := 0
		for _, st := range spec.Steps {
			if st.Kind == kCleanup { // would sleep for real
				continue
			}
			if st.Kind == kPAP && st.Radius != radAccept {
				if silent >= 3 {
					st.Radius = radReject
				} else {
					st.Radius = radSilent
					silent++
				}
			}
			steps = append(steps, st)
			if len(steps) == 14 {
				break
			}
		}
		spec.Steps = steps
		cl := newRadiusClientT(t, radLive, rs, 15*time.Millisecond, 1)
		res := runStepsOpt(spec, rs, func(s *pppoe.Server) { s.SetRADIUSClient(cl) }, nil, false, false)
		rs.outcome.Store(int32(radReject))
		extra := []string{"real-time"}
		if silent > 0 {
			extra = append(extra, "radius:timed-out-request")
		}
		report(rt, "radius-timeout", spec, res, extra...)
	})
}
