package c04

// Discovery-stage inputs for clause (2) ("frames whose source MAC is not the
// session's owner never change, advance or terminate that session").
//
// A PADI / PADR carries no session id, but it can still REFERENCE or COLLIDE
// with another peer's session through its tags:
//
//   - Host-Uniq (RFC 2516 5.1: "unique within the Host"; rp-pppoe uses its
//     process id) - equal values from different MACs are legal and common;
//   - AC-Cookie - a value the server handed to some peer in a PADO; nothing
//     stops another peer on the segment from sending it;
//   - Service-Name, Relay-Session-Id.
//
// So tags are drawn from a SMALL ALPHABET SHARED BY ALL PEERS, or are taken
// from what the monitor observed on the wire (the tag area of the PADR that
// created a given session, the cookies offered to a given MAC).  Nothing here
// is part of the oracle: the oracle (monitor_test.go) is unchanged in kind -
// every session whose owner is not the sender must be exactly as before, and
// no frame may be emitted on it (a PADS "confirming" it included).

import (
	"bytes"
	"fmt"

	"github.com/codelaboratoryltd/bng/pkg/pppoe"
)

const tagRelaySessionID = 0x0110

// Host-Uniq choices
const (
	huLegacy    = iota // {peer index, step ident}: distinct per peer (the form every older case uses)
	huAbsent           // no Host-Uniq tag
	huEmpty            // tag present, zero length
	huShared1          // 00 00 04 D2  (pid 1234: what two rp-pppoe hosts may both send)
	huShared2          // 00 00 00 01
	huLong             // 300 bytes, the same for every peer
	huOfSession        // the Host-Uniq of the PADR that created session Tags.Ref (unknown session: huShared1)
	nHU
)

// Service-Name choices
const (
	svcAny        = iota // tag present, empty: "any service"
	svcConfigured        // the service the server is configured with
	svcOther             // a service the server does not offer
	svcAbsent            // no Service-Name tag
	nSvc
)

// AC-Cookie choices (PADR)
const (
	ckLegacy = iota // own last cookie, a made-up one if none was offered (or step.Variant%4 == 3)
	ckOwn           // the cookie of the last PADO sent to this MAC (made-up if none)
	ckOther         // the cookie of the last PADO sent to peer Tags.Peer (else the one that peer last used; else made-up)
	ckStale         // an older cookie of this MAC: the first one it was offered if it was offered several, else the one it already used
	ckAbsent        // no AC-Cookie tag
	ckMadeUp        // 16 bytes the server never issued
	ckEmpty         // tag present, zero length
	nCk
)

// Relay-Session-Id choices
const (
	relayAbsent = iota
	relayShared // the same value from whoever sends it
	relayOther
	nRelay
)

type discTags struct {
	HU     int
	Svc    int
	Cookie int
	Relay  int
	Peer   int    // Cookie == ckOther
	Ref    uint16 // HU == huOfSession
}

var (
	huName    = [...]string{"per-peer", "absent", "empty", "pid1234", "0001", "long300", "of-sid"}
	svcName   = [...]string{"any", "internet", "iptv", "absent"}
	ckName    = [...]string{"legacy", "own", "of-peer", "stale", "absent", "made-up", "empty"}
	relayName = [...]string{"", "relay=R1", "relay=R2"}
)

func (d discTags) String() string {
	s := "hu=" + huName[d.HU%nHU]
	if d.HU == huOfSession {
		s += fmt.Sprint(d.Ref)
	}
	if d.Svc != svcAny {
		s += ",svc=" + svcName[d.Svc%nSvc]
	}
	if d.Cookie != ckLegacy {
		s += ",cookie=" + ckName[d.Cookie%nCk]
		if d.Cookie == ckOther {
			s += "-" + peerName[d.Peer%len(peerName)]
		}
	}
	if d.Relay != relayAbsent {
		s += "," + relayName[d.Relay%nRelay]
	}
	return s
}

var (
	huShared1Val = []byte{0x00, 0x00, 0x04, 0xD2}
	huShared2Val = []byte{0x00, 0x00, 0x00, 0x01}
	huLongVal    = bytes.Repeat([]byte{0x5C, 0xA1}, 150)
	madeUpCookie = []byte("verif-no-such-ck")
)

// padrRec: what the monitor saw of the PADR that created a session.
type padrRec struct {
	tags     []byte // the whole tag area
	hostUniq []byte
	hasHU    bool
	cookie   []byte
}

// discEnv is everything observed on the wire that a peer on the segment could re-use.
type discEnv struct {
	offered map[mac][][]byte    // every AC-Cookie the server offered to this MAC, oldest first
	used    map[mac][]byte      // the cookie of the last PADR of this MAC that was answered with PADS
	padr    map[uint16]*padrRec // by session id (kept after the session ended: stale references are inputs too)
}

func newDiscEnv() *discEnv {
	return &discEnv{offered: map[mac][][]byte{}, used: map[mac][]byte{}, padr: map[uint16]*padrRec{}}
}

func (e *discEnv) lastCookie(m mac) []byte {
	if e == nil || len(e.offered[m]) == 0 {
		return nil
	}
	o := e.offered[m]
	return o[len(o)-1]
}

func (e *discEnv) staleCookie(m mac) []byte {
	if o := e.offered[m]; len(o) >= 2 {
		return o[0]
	}
	if c, ok := e.used[m]; ok {
		return c
	}
	return madeUpCookie
}

func (e *discEnv) cookieOfPeer(m mac) []byte {
	if c := e.lastCookie(m); c != nil {
		return c
	}
	if c, ok := e.used[m]; ok {
		return c
	}
	return madeUpCookie
}

// ownsCookie: c was offered to, or used by, MAC m.
func (e *discEnv) ownsCookie(m mac, c []byte) bool {
	if len(c) == 0 {
		return false
	}
	for _, o := range e.offered[m] {
		if bytes.Equal(o, c) {
			return true
		}
	}
	u, ok := e.used[m]
	return ok && bytes.Equal(u, c)
}

// padrTagsOf returns the tag area of the PADR that created session sid; for a
// session the monitor never saw, a plain PADR with the shared Host-Uniq.
func (e *discEnv) padrTagsOf(sid uint16) []byte {
	if r := e.padr[sid]; r != nil {
		return r.tags
	}
	return cat(tag(tagServiceName, nil), tag(tagHostUniq, huShared1Val), tag(tagACCookie, madeUpCookie))
}

func (e *discEnv) hostUniqOf(sid uint16) ([]byte, bool) {
	if r := e.padr[sid]; r != nil {
		return r.hostUniq, r.hasHU
	}
	return huShared1Val, true
}

// hasTag reports whether a tag of type t is present (findTag cannot tell "absent" from "empty").
func hasTag(b []byte, t uint16) bool {
	for len(b) >= 4 {
		typ, l := uint16(b[0])<<8|uint16(b[1]), int(b[2])<<8|int(b[3])
		if 4+l > len(b) {
			return false
		}
		if typ == t {
			return true
		}
		b = b[4+l:]
	}
	return false
}

// buildDiscovery renders a PADI / PADR whose tags come from the shared alphabet.
func (s step) buildDiscovery(env *discEnv) []byte {
	src := peers[s.Src]
	d := s.Tags
	var parts [][]byte
	switch d.Svc % nSvc {
	case svcAny:
		parts = append(parts, tag(tagServiceName, nil))
	case svcConfigured:
		parts = append(parts, tag(tagServiceName, []byte("internet")))
	case svcOther:
		parts = append(parts, tag(tagServiceName, []byte("iptv")))
	}
	switch d.HU % nHU {
	case huLegacy:
		parts = append(parts, tag(tagHostUniq, []byte{byte(s.Src), s.Ident}))
	case huEmpty:
		parts = append(parts, tag(tagHostUniq, nil))
	case huShared1:
		parts = append(parts, tag(tagHostUniq, huShared1Val))
	case huShared2:
		parts = append(parts, tag(tagHostUniq, huShared2Val))
	case huLong:
		parts = append(parts, tag(tagHostUniq, huLongVal))
	case huOfSession:
		if v, has := env.hostUniqOf(d.Ref); has {
			parts = append(parts, tag(tagHostUniq, v))
		}
	}
	switch d.Relay % nRelay {
	case relayShared:
		parts = append(parts, tag(tagRelaySessionID, []byte("R1-verif-relay")))
	case relayOther:
		parts = append(parts, tag(tagRelaySessionID, []byte{0xFF, 0x00, 0x01}))
	}
	if s.Kind == kPADI {
		return pppoeHdr(codePADI, 0, cat(parts...))
	}
	if s.Kind == kPADR {
		switch d.Cookie % nCk {
		case ckLegacy, ckOwn:
			c := env.lastCookie(src)
			if c == nil || (d.Cookie == ckLegacy && s.Variant%4 == 3) {
				c = bytes.Repeat([]byte{s.Ident}, 16)
			}
			parts = append(parts, tag(tagACCookie, c))
		case ckOther:
			parts = append(parts, tag(tagACCookie, env.cookieOfPeer(peers[d.Peer%len(peers)])))
		case ckStale:
			parts = append(parts, tag(tagACCookie, env.staleCookie(src)))
		case ckMadeUp:
			parts = append(parts, tag(tagACCookie, madeUpCookie))
		case ckEmpty:
			parts = append(parts, tag(tagACCookie, nil))
		}
	}
	return pppoeHdr(codePADR, 0, cat(parts...))
}

// floodHU is the Host-Uniq cycle of a PADI flood (huOfSession refers to step.SID).
var floodHU = []int{huShared1, huOfSession, huLegacy, huAbsent, huShared2, huOfSession, huEmpty, huLong}

// frames renders a step into the frames it delivers (one, except for a flood).
func (s step) frames(nak *[4]byte, env *discEnv) (src mac, discovery bool, payloads [][]byte) {
	if s.Kind == kPADIFlood {
		n := s.Variant
		if n < 1 {
			n = 1
		}
		if n > 96 {
			n = 96
		}
		for j := 0; j < n; j++ {
			one := step{Kind: kPADI, Src: s.Src, Ident: byte(j), Tags: discTags{HU: floodHU[j%len(floodHU)], Ref: s.SID, Svc: (j / 8) % 2}}
			payloads = append(payloads, one.buildDiscovery(env))
		}
		return peers[s.Src], true, payloads
	}
	src, discovery, p := s.build(nak, env)
	return src, discovery, [][]byte{p}
}

// discShape: class labels describing the tags of one discovery frame (tag area b).
func discShape(code byte, b []byte) []string {
	var c []string
	hu := findTag(b, tagHostUniq)
	switch {
	case !hasTag(b, tagHostUniq):
		c = append(c, "disc:hostuniq=absent")
	case len(hu) == 0:
		c = append(c, "disc:hostuniq=empty")
	case len(hu) > 255:
		c = append(c, "disc:hostuniq=long")
	case bytes.Equal(hu, huShared1Val) || bytes.Equal(hu, huShared2Val):
		c = append(c, "disc:hostuniq=shared-value")
	}
	if hasTag(b, tagRelaySessionID) {
		c = append(c, "disc:relay-session-id")
	}
	if sn := findTag(b, tagServiceName); hasTag(b, tagServiceName) && len(sn) > 0 && string(sn) != "internet" {
		c = append(c, "disc:service-name=not-offered")
	} else if !hasTag(b, tagServiceName) {
		c = append(c, "disc:service-name=absent")
	}
	if code == codePADR {
		ck := findTag(b, tagACCookie)
		switch {
		case !hasTag(b, tagACCookie):
			c = append(c, "disc:cookie=absent")
		case len(ck) == 0:
			c = append(c, "disc:cookie=empty")
		}
	}
	return c
}

// ---------------------------------------------------------------------------
// monitor side: classification before the frame acts, learning after it

func (m *monitor) sessionIDs() []uint16 {
	ids := make([]uint16, 0, len(m.sess))
	for id := range m.sess {
		ids = append(ids, id)
	}
	for i := 1; i < len(ids); i++ {
		for j := i; j > 0 && ids[j] < ids[j-1]; j-- {
			ids[j], ids[j-1] = ids[j-1], ids[j]
		}
	}
	return ids
}

func stateClass(s pppoe.VerifSession) string {
	switch s.State {
	case pppoe.StateLCPNegotiation:
		return "state=lcp"
	case pppoe.StateAuthentication:
		return "state=auth"
	case pppoe.StateIPCPNegotiation:
		return "state=ipcp"
	case pppoe.StateEstablished:
		return "state=established"
	}
	return "state=other"
}

// discoveryBookkeeping classifies a PADI / PADR by what it collides with (NT
// rule: a discovery frame from a MAC that does not own a live session whose
// Host-Uniq / whole tag area / AC-Cookie is that session's; or the owner
// retransmitting the PADR of its live session).  Returns whether the frame is
// such an owner retransmission.  Classification only - nothing is asserted here.
func (m *monitor) discoveryBookkeeping(st step, src mac, payloads [][]byte, before snaps) (ownRetx bool) {
	if !(st.Kind.isPADI() || st.Kind.isPADR()) {
		return false
	}
	res := m.res
	if st.Kind == kPADIFlood {
		res.classes["disc:padi-flood"] = true
	}
	ids := m.sessionIDs()
	for _, p := range payloads {
		if len(p) < 6 {
			continue
		}
		code, tags := p[1], p[6:]
		for _, c := range discShape(code, tags) {
			res.classes[c] = true
		}
		name := "padi"
		if code == codePADR {
			name = "padr"
		}
		hu := findTag(tags, tagHostUniq)
		ck := findTag(tags, tagACCookie)
		for _, id := range ids {
			ms, rec := m.sess[id], m.env.padr[id]
			b, ok := before.get(id)
			if rec == nil || !ok {
				continue
			}
			sc := stateClass(b)
			if ms.owner != src {
				hit := false
				if len(hu) > 0 && rec.hasHU && bytes.Equal(hu, rec.hostUniq) {
					res.classes["disc:foreign-"+name+"-hostuniq-of-live-session"] = true
					res.classes["disc:foreign-"+name+"-hostuniq-of-live-session:"+sc] = true
					hit = true
				}
				if code == codePADR && bytes.Equal(tags, rec.tags) {
					res.classes["disc:foreign-padr-all-tags-of-live-session"] = true
					res.classes["disc:foreign-padr-all-tags-of-live-session:"+sc] = true
					hit = true
				}
				if code == codePADR && m.env.ownsCookie(ms.owner, ck) {
					res.classes["disc:foreign-padr-cookie-of-session-owner"] = true
					hit = true
				}
				if hit {
					ms.foreignHit = true
					res.nontrivial = true
					res.classes["nt:foreign-discovery-collides-with-live-session"] = true
				}
			} else if code == codePADR && bytes.Equal(tags, rec.tags) {
				ownRetx = true
				res.nontrivial = true
				res.classes["nt:owner-padr-retransmission-on-live-session"] = true
				res.classes["disc:owner-padr-retransmission:"+sc] = true
			}
		}
		if code == codePADR && len(ck) > 0 {
			own, other := m.env.ownsCookie(src, ck), false
			for _, pm := range peers {
				if pm != src && m.env.ownsCookie(pm, ck) {
					other = true
				}
			}
			switch {
			case other && !own:
				res.classes["disc:cookie=of-another-peer"] = true
			case own && !bytes.Equal(ck, m.env.lastCookie(src)):
				res.classes["disc:cookie=stale"] = true
			case !own && !other:
				res.classes["disc:cookie=never-issued"] = true
			}
		}
	}
	return ownRetx
}

// discoveryAfter learns what the frame put on the wire (cookies offered, the
// PADR behind each new session) and classifies how an owner's retransmission was
// answered.  The statement does not decide between "a retransmitted PADR gets a
// new session" (what the code documents: SessionManager.macToSession "a client
// may hold several: PADR retransmission") and "it gets the same session
// confirmed again"; both are accepted, the auth-gate clauses are checked on
// whatever sessions exist afterwards.
func (m *monitor) discoveryAfter(st step, src mac, payloads [][]byte, before, after snaps, ems []emitted, ownRetx bool) {
	for _, e := range ems {
		if e.etherType == etDiscovery && e.code == codePADO {
			if c := findTag(e.tags, tagACCookie); c != nil {
				o := m.env.offered[e.dst]
				if len(o) >= 8 {
					o = append(o[:1], o[2:]...) // keep the oldest (the "stale" one) and the newest
				}
				m.env.offered[e.dst] = append(o, c)
			}
		}
	}
	if !st.Kind.isPADR() || len(payloads) != 1 || len(payloads[0]) < 6 {
		return
	}
	tags := payloads[0][6:]
	for _, a := range after {
		if _, ok := before.get(a.ID); ok {
			continue
		}
		hu := findTag(tags, tagHostUniq)
		ck := findTag(tags, tagACCookie)
		m.env.padr[a.ID] = &padrRec{tags: tags, hostUniq: hu, hasHU: hasTag(tags, tagHostUniq), cookie: ck}
		m.env.used[src] = ck
	}
	if ownRetx {
		outcome := "disc:owner-retx->unanswered"
		for _, e := range ems {
			if e.etherType == etDiscovery && e.code == codePADS && e.dst == src {
				if ms := m.sess[e.sid]; ms != nil && ms.owner == src {
					outcome = "disc:owner-retx->same-session-confirmed-again"
				} else {
					outcome = "disc:owner-retx->new-session"
				}
			}
		}
		m.res.classes[outcome] = true
	}
}
