// Package c04 decides property C04: "no PPPoE session gets IP service without
// successful authentication; frames whose source MAC is not the session's owner
// never change, advance or terminate that session".
//
// Everything here drives the real pppoe.Server through the verif hooks
// (/repo/pkg/pppoe/verif_c04.go): an in-memory raw socket captures every frame
// the server emits, frames are delivered through the discovery / session entry
// points, and a monitor (monitor_test.go) written from the property statement
// watches the emitted frames and the session table after every frame.
package c04

import (
	"encoding/binary"
	"fmt"
	"net"
	"runtime"
	"sync"
	"sync/atomic"
	"testing"
	"time"

	"github.com/codelaboratoryltd/bng/pkg/pppoe"
	bngradius "github.com/codelaboratoryltd/bng/pkg/radius"
	"go.uber.org/zap"
	"layeh.com/radius"

	"bngverif/internal/vstat"
)

func TestMain(m *testing.M) { vstat.Main(m, "C04") }

// ---------------------------------------------------------------------------
// wire constants (RFC 2516 / 1661 / 1334 / 1332), written here independently
// of the package under test

const (
	etDiscovery = 0x8863
	etSession   = 0x8864

	codePADI = 0x09
	codePADO = 0x07
	codePADR = 0x19
	codePADS = 0x65
	codePADT = 0xA7

	tagServiceName = 0x0101
	tagHostUniq    = 0x0103
	tagACCookie    = 0x0104

	protoLCP  = 0xC021
	protoPAP  = 0xC023
	protoCHAP = 0xC223
	protoIPCP = 0x8021
	protoIP   = 0x0021

	cpConfReq = 1
	cpConfAck = 2
	cpConfNak = 3
	cpTermReq = 5
	cpEchoReq = 9

	papReq = 1
	papAck = 2

	chapResponse = 2
	chapSuccess  = 3

	lcpOptMRU   = 1
	lcpOptMagic = 5

	ipcpOptCompression = 2
	ipcpOptAddress     = 3
	ipcpOptDNS1        = 129
	ipcpOptDNS2        = 131
)

type mac [6]byte

func (m mac) hw() net.HardwareAddr { return net.HardwareAddr(append([]byte(nil), m[:]...)) }
func (m mac) String() string       { return net.HardwareAddr(m[:]).String() }

var (
	serverMAC = mac{0x02, 0xAC, 0x00, 0x00, 0x00, 0x01}
	// peers[0..2] open sessions; peers[3] is a MAC that never owns one unless a history says so.
	peers = []mac{
		{0x02, 0x00, 0x00, 0x00, 0x00, 0x0A},
		{0x02, 0x00, 0x00, 0x00, 0x00, 0x0B},
		{0x02, 0x00, 0x00, 0x00, 0x00, 0x0C},
		{0x02, 0x00, 0x00, 0x00, 0x00, 0x0F},
	}
	peerName = []string{"A", "B", "C", "F"}
)

// ---------------------------------------------------------------------------
// frame builders (payload after the Ethernet header; the harness hands source
// MAC and payload to the discovery/session entry points like receiveLoop does)

func pppoeHdr(code byte, sid uint16, payload []byte) []byte {
	b := make([]byte, 6+len(payload))
	b[0] = 0x11
	b[1] = code
	binary.BigEndian.PutUint16(b[2:4], sid)
	binary.BigEndian.PutUint16(b[4:6], uint16(len(payload)))
	copy(b[6:], payload)
	return b
}

func tag(t uint16, v []byte) []byte {
	b := make([]byte, 4+len(v))
	binary.BigEndian.PutUint16(b[0:2], t)
	binary.BigEndian.PutUint16(b[2:4], uint16(len(v)))
	copy(b[4:], v)
	return b
}

func cat(bs ...[]byte) []byte {
	var out []byte
	for _, b := range bs {
		out = append(out, b...)
	}
	return out
}

func pppFrame(sid uint16, proto uint16, body []byte) []byte {
	p := make([]byte, 2+len(body))
	binary.BigEndian.PutUint16(p[0:2], proto)
	copy(p[2:], body)
	return pppoeHdr(0x00, sid, p)
}

func cpPacket(code, id byte, data []byte) []byte {
	b := make([]byte, 4+len(data))
	b[0], b[1] = code, id
	binary.BigEndian.PutUint16(b[2:4], uint16(4+len(data)))
	copy(b[4:], data)
	return b
}

func opt(t byte, d []byte) []byte { return append([]byte{t, byte(2 + len(d))}, d...) }

func u16(v uint16) []byte { b := make([]byte, 2); binary.BigEndian.PutUint16(b, v); return b }
func u32(v uint32) []byte { b := make([]byte, 4); binary.BigEndian.PutUint32(b, v); return b }

func papRequest(id byte, user, pass string) []byte {
	d := cat([]byte{byte(len(user))}, []byte(user), []byte{byte(len(pass))}, []byte(pass))
	return cpPacket(papReq, id, d)
}

// ---------------------------------------------------------------------------
// parsing of emitted frames

type emitted struct {
	dst       mac
	etherType uint16
	code      byte   // PPPoE code
	sid       uint16 // PPPoE session id
	proto     uint16 // PPP protocol (session frames)
	cpCode    byte   // first byte of the PPP payload (LCP/PAP/CHAP/IPCP code)
	cpID      byte
	cpData    []byte
	tags      []byte // discovery frames: the tag area
	ok        bool
}

// findTag returns the value of the first tag of type t in a PPPoE tag area.
func findTag(b []byte, t uint16) []byte {
	for len(b) >= 4 {
		typ, l := binary.BigEndian.Uint16(b[0:2]), int(binary.BigEndian.Uint16(b[2:4]))
		if 4+l > len(b) {
			return nil
		}
		if typ == t {
			return append([]byte(nil), b[4:4+l]...)
		}
		b = b[4+l:]
	}
	return nil
}

func parseEmitted(f pppoe.VerifFrame) emitted {
	var e emitted
	b := f.Frame
	if len(b) < 14+6 {
		return e
	}
	copy(e.dst[:], b[0:6])
	e.etherType = binary.BigEndian.Uint16(b[12:14])
	e.code = b[15]
	e.sid = binary.BigEndian.Uint16(b[16:18])
	l := int(binary.BigEndian.Uint16(b[18:20]))
	p := b[20:]
	if l < len(p) {
		p = p[:l]
	}
	e.ok = true
	if e.etherType == etDiscovery {
		e.tags = p
	}
	if e.etherType == etSession && len(p) >= 2 {
		e.proto = binary.BigEndian.Uint16(p[0:2])
		if len(p) >= 6 {
			e.cpCode, e.cpID = p[2], p[3]
			e.cpData = p[6:]
		}
	}
	return e
}

func (e emitted) String() string {
	if !e.ok {
		return "?"
	}
	if e.etherType == etDiscovery {
		n := map[byte]string{codePADO: "PADO", codePADS: "PADS", codePADT: "PADT"}[e.code]
		if n == "" {
			n = fmt.Sprintf("disc-%02x", e.code)
		}
		return fmt.Sprintf("%s(sid=%d)->%s", n, e.sid, e.dst)
	}
	pn := map[uint16]string{protoLCP: "LCP", protoPAP: "PAP", protoCHAP: "CHAP", protoIPCP: "IPCP", protoIP: "IP"}[e.proto]
	if pn == "" {
		pn = fmt.Sprintf("ppp-%04x", e.proto)
	}
	return fmt.Sprintf("%s/%d(sid=%d,id=%d,%x)->%s", pn, e.cpCode, e.sid, e.cpID, e.cpData, e.dst)
}

// optAddr extracts the value of a 4-byte option from a CP option list.
func optAddr(data []byte, typ byte) ([4]byte, bool) {
	var a [4]byte
	for len(data) >= 2 {
		l := int(data[1])
		if l < 2 || l > len(data) {
			break
		}
		if data[0] == typ && l == 6 {
			copy(a[:], data[2:6])
			return a, true
		}
		data = data[l:]
	}
	return a, false
}

// ---------------------------------------------------------------------------
// scripted RADIUS server: real UDP on loopback, goroutine started outside any
// synctest bubble, always answers immediately (unless outcome == radSilent,
// which only the real-time test uses).

type radOutcome int32

const (
	radAccept    radOutcome = iota // authentic Access-Accept
	radReject                      // authentic Access-Reject
	radChallenge                   // authentic Access-Challenge (client: "not supported" -> error)
	radForged                      // Access-Accept signed with the wrong secret, sent 10x (client gives up with an error)
	radSilent                      // no answer at all (real-time test only)
)

func (o radOutcome) String() string {
	return [...]string{"accept", "reject", "challenge", "forged-accept", "silent"}[o]
}

const radSecret = "verif-c04-secret"

type radServer struct {
	conn     *net.UDPConn
	port     int
	outcome  atomic.Int32
	requests atomic.Int64
	accepts  atomic.Int64 // authentic Access-Accepts sent
}

var (
	radOnce sync.Once
	radInst *radServer
)

// scriptedRadius returns the per-process scripted server (must first be called outside a bubble).
func scriptedRadius(t testing.TB) *radServer {
	radOnce.Do(func() {
		c, err := net.ListenUDP("udp4", &net.UDPAddr{IP: net.IPv4(127, 0, 0, 1)})
		if err != nil {
			t.Fatalf("INCONCLUSIVE: cannot bind scripted RADIUS server: %v", err)
		}
		_ = c.SetReadBuffer(1 << 20)
		s := &radServer{conn: c, port: c.LocalAddr().(*net.UDPAddr).Port}
		radInst = s
		go s.loop()
	})
	if radInst == nil {
		t.Fatalf("INCONCLUSIVE: scripted RADIUS server unavailable")
	}
	return radInst
}

func (s *radServer) loop() {
	buf := make([]byte, 4096)
	for {
		n, from, err := s.conn.ReadFromUDP(buf)
		if err != nil {
			return
		}
		req, err := radius.Parse(buf[:n], []byte(radSecret))
		if err != nil {
			continue // not ours; the client under test never sends garbage
		}
		s.requests.Add(1)
		switch radOutcome(s.outcome.Load()) {
		case radAccept:
			b, _ := req.Response(radius.CodeAccessAccept).Encode()
			s.accepts.Add(1)
			_, _ = s.conn.WriteToUDP(b, from)
		case radReject:
			b, _ := req.Response(radius.CodeAccessReject).Encode()
			_, _ = s.conn.WriteToUDP(b, from)
		case radChallenge:
			b, _ := req.Response(radius.CodeAccessChallenge).Encode()
			_, _ = s.conn.WriteToUDP(b, from)
		case radForged:
			resp := req.Response(radius.CodeAccessAccept)
			resp.Secret = []byte("not-the-secret")
			b, _ := resp.Encode()
			for i := 0; i < 10; i++ { // layeh's client returns an error after 10 bad packets
				_, _ = s.conn.WriteToUDP(b, from)
			}
		case radSilent:
		}
	}
}

// radius client modes (per case)
type radMode int

const (
	radNone         radMode = iota // no RADIUS client configured: the server accepts every PAP request
	radLive                        // one server: the scripted one
	radDeadThenLive                // [closed port, scripted]: first attempt refused, client fails over
	radDeadOnly                    // only a closed port: every request ends in an error
)

func (m radMode) String() string {
	return [...]string{"none", "live", "dead+live", "dead-only"}[m]
}

// deadPort: nothing listens on UDP 127.0.0.1:1 and the kernel never hands it out as an
// ephemeral port; loopback ICMP port-unreachable is not rate limited (probed: 30000/30000).
const deadPort = 1

func newRadiusClient(t testing.TB, mode radMode, rs *radServer) *bngradius.Client {
	return newRadiusClientT(t, mode, rs, 0, 0)
}

func newRadiusClientT(t testing.TB, mode radMode, rs *radServer, timeout time.Duration, retries int) *bngradius.Client {
	var servers []bngradius.ServerConfig
	live := bngradius.ServerConfig{Host: "127.0.0.1", Secret: radSecret}
	if rs != nil {
		live.Port = rs.port
	}
	dead := bngradius.ServerConfig{Host: "127.0.0.1", Port: deadPort, Secret: radSecret}
	switch mode {
	case radNone:
		return nil
	case radLive:
		servers = []bngradius.ServerConfig{live}
	case radDeadThenLive:
		servers = []bngradius.ServerConfig{dead, live}
	case radDeadOnly:
		servers = []bngradius.ServerConfig{dead}
	}
	c, err := bngradius.NewClient(bngradius.ClientConfig{
		Servers: servers, NASID: "verif-c04", Timeout: timeout, Retries: retries,
		RateLimit: bngradius.RateLimitConfig{RequestsPerSecond: 1e9, BurstSize: 1 << 30},
	}, zap.NewNop())
	if err != nil {
		t.Fatalf("INCONCLUSIVE: radius.NewClient: %v", err)
	}
	return c
}

// ---------------------------------------------------------------------------
// sink

type sink struct {
	mu      sync.Mutex
	out     []pppoe.VerifFrame
	nPADS   int // cumulative: PADS frames emitted
	nLCPReq int // cumulative: LCP Configure-Requests emitted
}

func (s *sink) put(f pppoe.VerifFrame) {
	s.mu.Lock()
	s.out = append(s.out, f)
	if b := f.Frame; len(b) >= 24 {
		if f.EtherType == etDiscovery && b[15] == codePADS {
			s.nPADS++
		}
		if f.EtherType == etSession && binary.BigEndian.Uint16(b[20:22]) == protoLCP && b[22] == cpConfReq {
			s.nLCPReq++
		}
	}
	s.mu.Unlock()
}

// settleRealTime waits (outside a bubble) until the goroutine handlePADR starts
// (`go startLCPNegotiation`) has sent its Configure-Request for every PADS so far.
// Bounded; expiry is not an error (nothing asserted depends on that frame).
func (s *sink) settleRealTime() {
	deadline := time.Now().Add(2 * time.Second)
	for {
		s.mu.Lock()
		ok := s.nLCPReq >= s.nPADS
		s.mu.Unlock()
		if ok || time.Now().After(deadline) {
			return
		}
		runtime.Gosched()
	}
}

func (s *sink) drain() []pppoe.VerifFrame {
	s.mu.Lock()
	o := s.out
	s.out = nil
	s.mu.Unlock()
	return o
}
