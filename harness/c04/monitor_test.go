package c04

// The oracle.  Written from the property statement:
//
//   (1) "a session is reported established, is assigned a client address, or has
//       its IP-layer negotiation acknowledged only after that same session's
//       PAP/CHAP exchange was accepted (by RADIUS when one is configured)"
//   (2) "Frames whose source MAC is not the session's owner never change,
//       advance or terminate that session."
//
// authOK(session) is derived ONLY from what an outside observer can see: the
// server emitted a PAP Authenticate-Ack (or CHAP Success) on that session while
// handling a PAP request (CHAP response) whose source MAC is the owner, and -
// when a RADIUS client is configured - the scripted RADIUS server sent an
// authentic Access-Accept during the handling of that very frame.  The owner
// of a session is the source MAC of the PADR the server answered with PADS.
//
// The monitor never reads the implementation's idea of "authenticated" to
// decide authOK; it reads the session table only for the reported side of the
// implications (state, client address, flag) and for clause (2).

import (
	"bytes"
	"context"
	"encoding/binary"
	"fmt"
	"net"
	"strings"
	"testing"
	"testing/synctest"
	"time"

	"github.com/codelaboratoryltd/bng/pkg/pppoe"
)

type frameKind int

const (
	kPADI frameKind = iota
	kPADR
	kPADRNoCookie
	kPADT
	kLCPReq
	kLCPAck
	kLCPNak
	kLCPTerm
	kLCPEcho
	kPAP
	kPAPMalformed
	kCHAPResp
	kIPCPReqZero  // IP-Address 0.0.0.0
	kIPCPReqAddr  // IP-Address: a concrete address (the one the server Nak'ed if UseNak, else step.Addr)
	kIPCPReqDNS   // IP-Address 0.0.0.0 + DNS options
	kIPCPReqPlain // no address option (only IP-Compression-Protocol, or empty)
	kIPCPAck
	kIP
	kCleanup // virtual time passes (step.Sleep), then one cleanup tick; not a frame
	// discovery-stage kinds added for the foreign-MAC clause on DISCOVERY frames (disc_test.go); appended so that
	// the numbering of the kinds above (used by the committed replay files) is unchanged
	kPADRCopy  // PADR from Src carrying exactly the tag area of the PADR that created session SID (Src = owner: a retransmission)
	kPADIFlood // Variant PADIs in a row from Src, Host-Uniq cycling through the shared alphabet and the value of session SID
	nKinds
)

var kindName = [...]string{"padi", "padr", "padr-nocookie", "padt", "lcp-cfg-req", "lcp-cfg-ack", "lcp-cfg-nak",
	"lcp-term-req", "lcp-echo-req", "pap-req", "pap-malformed", "chap-resp", "ipcp-cfg-req", "ipcp-cfg-req",
	"ipcp-cfg-req", "ipcp-cfg-req", "ipcp-cfg-ack", "ip-data", "cleanup", "padr", "padi"}

var kindShort = [...]string{"PADI", "PADR", "PADR-nocookie", "PADT", "LCPreq", "LCPack", "LCPnak", "LCPterm", "LCPecho",
	"PAP", "PAPbad-format", "CHAPresp", "IPCPreq0", "IPCPreqAddr", "IPCPreqDNS", "IPCPreqPlain", "IPCPack", "IP", "cleanup", "PADRcopy", "PADIflood"}

func (k frameKind) isIPCPReq() bool { return k >= kIPCPReqZero && k <= kIPCPReqPlain }
func (k frameKind) isSession() bool { return k >= kLCPReq && k <= kIP }
func (k frameKind) isPADR() bool    { return k == kPADR || k == kPADRNoCookie || k == kPADRCopy }
func (k frameKind) isPADI() bool    { return k == kPADI || k == kPADIFlood }
func (k frameKind) hasSID() bool    { return k.isSession() || k == kPADT } // the frame itself carries a session id

// step is one generated input.
type step struct {
	Kind    frameKind
	Src     int        // index into peers
	SID     uint16     // session id field (session frames, PADT)
	Radius  radOutcome // scripted answer while this frame is handled (kPAP)
	Ident   byte
	MRU     uint16
	Magic   uint32
	Addr    [4]byte
	UseNak  bool // kIPCPReqAddr: ask for the address the server last Nak'ed on this session, if any
	Variant int  // malformation / option variant
	Sleep   time.Duration
	Tags    discTags `json:",omitzero"` // discovery tags (kPADI, kPADR, kPADRNoCookie); the zero value is the per-peer legacy form
}

func (s step) String() string {
	if s.Kind == kCleanup {
		return fmt.Sprintf("cleanup(+%s)", s.Sleep)
	}
	x := fmt.Sprintf("%s:%s", peerName[s.Src], kindShort[s.Kind])
	switch s.Kind {
	case kPADI, kPADR, kPADRNoCookie:
		if s.Tags != (discTags{}) {
			x += fmt.Sprintf("(id=%d,%s)", s.Ident, s.Tags)
		}
	case kPADRCopy:
		x += fmt.Sprintf("(tags-of-sid=%d)", s.SID)
	case kPADIFlood:
		x += fmt.Sprintf("(n=%d,sid=%d)", s.Variant, s.SID)
	}
	if s.Kind.isSession() || s.Kind == kPADT {
		x += fmt.Sprintf("(sid=%d", s.SID)
		switch s.Kind {
		case kPAP:
			x += ",radius=" + s.Radius.String()
		case kLCPReq:
			x += fmt.Sprintf(",mru=%d,magic=%x", s.MRU, s.Magic)
		case kIPCPReqAddr:
			if s.UseNak {
				x += ",addr=nak'ed"
			} else {
				x += fmt.Sprintf(",addr=%v", net.IP(s.Addr[:]))
			}
		case kPAPMalformed, kIPCPReqPlain, kIPCPReqDNS:
			x += fmt.Sprintf(",v=%d", s.Variant)
		}
		x += ")"
	}
	return x
}

// caseSpec is a whole generated case.
type caseSpec struct {
	Radius   radMode
	DNS      bool   // server configured with DNS servers
	Pool     string // client pool CIDR
	AuthType string
	Steps    []step
}

func (c caseSpec) String() string {
	var sb strings.Builder
	fmt.Fprintf(&sb, "radius=%s dns=%v pool=%s auth=%s :", c.Radius, c.DNS, c.Pool, c.AuthType)
	for _, s := range c.Steps {
		sb.WriteString(" " + s.String())
	}
	return sb.String()
}

// build renders a step into (source MAC, discovery?, payload).  nak is the
// address last Nak'ed by the server on s.SID (observed), if any.
func (s step) build(nak *[4]byte, env *discEnv) (src mac, discovery bool, payload []byte) {
	src = peers[s.Src]
	if env == nil {
		env = &discEnv{}
	}
	switch s.Kind {
	case kPADI, kPADR, kPADRNoCookie:
		if s.Tags != (discTags{}) {
			return src, true, s.buildDiscovery(env)
		}
	case kPADRCopy:
		return src, true, pppoeHdr(codePADR, 0, env.padrTagsOf(s.SID))
	}
	cookie := env.lastCookie(src)
	hu := tag(tagHostUniq, []byte{byte(s.Src), s.Ident})
	switch s.Kind {
	case kPADI:
		return src, true, pppoeHdr(codePADI, 0, cat(tag(tagServiceName, nil), hu))
	case kPADR:
		// echo the AC-Cookie of the last PADO this MAC received, if any (Variant 3: a made-up cookie)
		if cookie == nil || s.Variant%4 == 3 {
			cookie = bytes.Repeat([]byte{s.Ident}, 16)
		}
		return src, true, pppoeHdr(codePADR, 0, cat(tag(tagServiceName, nil), hu, tag(tagACCookie, cookie)))
	case kPADRNoCookie:
		return src, true, pppoeHdr(codePADR, 0, cat(tag(tagServiceName, nil), hu))
	case kPADT:
		return src, true, pppoeHdr(codePADT, s.SID, nil)
	case kLCPReq:
		return src, false, pppFrame(s.SID, protoLCP, cpPacket(cpConfReq, s.Ident, cat(opt(lcpOptMRU, u16(s.MRU)), opt(lcpOptMagic, u32(s.Magic)))))
	case kLCPAck:
		// acknowledges the server's request; the server does not compare contents
		return src, false, pppFrame(s.SID, protoLCP, cpPacket(cpConfAck, s.Ident, cat(opt(lcpOptMRU, u16(1492)), opt(3, []byte{0xC0, 0x23}))))
	case kLCPNak:
		return src, false, pppFrame(s.SID, protoLCP, cpPacket(cpConfNak, s.Ident, opt(lcpOptMRU, u16(s.MRU))))
	case kLCPTerm:
		return src, false, pppFrame(s.SID, protoLCP, cpPacket(cpTermReq, s.Ident, nil))
	case kLCPEcho:
		return src, false, pppFrame(s.SID, protoLCP, cpPacket(cpEchoReq, s.Ident, u32(s.Magic)))
	case kPAP:
		return src, false, pppFrame(s.SID, protoPAP, papRequest(s.Ident, "user-"+peerName[s.Src], "pw"))
	case kPAPMalformed:
		var body []byte
		switch s.Variant % 5 {
		case 0: // shorter than a header
			body = []byte{papReq, s.Ident}
		case 1: // header only
			body = cpPacket(papReq, s.Ident, nil)
		case 2: // peer-id length runs past the end
			body = cpPacket(papReq, s.Ident, []byte{200, 'a', 'b'})
		case 3: // password length runs past the end
			body = cpPacket(papReq, s.Ident, []byte{2, 'a', 'b', 50, 'x'})
		case 4: // not a request: an Authenticate-Ack sent by the client
			body = cpPacket(papAck, s.Ident, []byte{0})
		}
		return src, false, pppFrame(s.SID, protoPAP, body)
	case kCHAPResp:
		v := bytes.Repeat([]byte{0x5A}, 16)
		return src, false, pppFrame(s.SID, protoCHAP, cpPacket(chapResponse, s.Ident, cat([]byte{16}, v, []byte("user-"+peerName[s.Src]))))
	case kIPCPReqZero:
		return src, false, pppFrame(s.SID, protoIPCP, cpPacket(cpConfReq, s.Ident, opt(ipcpOptAddress, []byte{0, 0, 0, 0})))
	case kIPCPReqAddr:
		a := s.Addr
		if s.UseNak && nak != nil {
			a = *nak
		}
		return src, false, pppFrame(s.SID, protoIPCP, cpPacket(cpConfReq, s.Ident, opt(ipcpOptAddress, a[:])))
	case kIPCPReqDNS:
		o := cat(opt(ipcpOptAddress, []byte{0, 0, 0, 0}), opt(ipcpOptDNS1, []byte{0, 0, 0, 0}))
		if s.Variant%2 == 1 {
			o = cat(o, opt(ipcpOptDNS2, []byte{0, 0, 0, 0}))
		}
		return src, false, pppFrame(s.SID, protoIPCP, cpPacket(cpConfReq, s.Ident, o))
	case kIPCPReqPlain:
		var o []byte
		if s.Variant%2 == 1 {
			o = opt(ipcpOptCompression, []byte{0x00, 0x2d, 0x0f, 0x01}) // Van Jacobson
		}
		return src, false, pppFrame(s.SID, protoIPCP, cpPacket(cpConfReq, s.Ident, o))
	case kIPCPAck:
		return src, false, pppFrame(s.SID, protoIPCP, cpPacket(cpConfAck, s.Ident, opt(ipcpOptAddress, []byte{10, 0, 0, 1})))
	case kIP:
		ip := make([]byte, 20)
		ip[0] = 0x45
		ip[3] = 20
		ip[8] = 64
		ip[9] = 17
		copy(ip[12:16], s.Addr[:])
		copy(ip[16:20], []byte{8, 8, 8, 8})
		return src, false, pppFrame(s.SID, protoIP, ip)
	}
	return src, false, nil
}

// ---------------------------------------------------------------------------
// monitor

type msess struct {
	owner      mac
	authOK     bool
	ipcpAcked  bool // the server emitted an IPCP Configure-Ack on it
	nak        *[4]byte
	estab      bool
	preAuthIP  bool // an IPCP/IP frame reached it before authOK (NT rule)
	foreignHit bool // a frame from a non-owner MAC was addressed to it (NT rule)
}

type violation struct {
	sig string
	msg string
}

// result is what a run reports back to the generator side (outside the bubble).
type result struct {
	v            *violation
	at           int // index of the violating step
	trace        []string
	classes      map[string]bool
	nontrivial   bool
	maxSessions  int
	established  int // sessions that reached Established with authOK
	papAcks      int
	serverIPCPOK int // IPCP Configure-Acks emitted on authenticated sessions
	panicked     any
}

type monitor struct {
	spec   caseSpec
	srv    *pppoe.Server
	snk    *sink
	rs     *radServer
	sess   map[uint16]*msess
	res    *result
	settl  func()
	last   snaps
	env    *discEnv // what was observed on the wire and can be re-used by any peer (cookies, PADR tag areas)
	lean   bool           // no trace (bulk enumeration); a violating case is re-run with the trace on
	loop   bool           // deliver through the real receiveLoop (in-memory socket) instead of the handler entry points
	rtime  bool           // real time (no synctest bubble): `go startLCPNegotiation` is only waited for with a bound
}

func newServer(spec caseSpec, snk *sink) (*pppoe.Server, error) {
	cfg := pppoe.ServerConfig{
		Interface: "verif0", ACName: "verif-ac", ServiceName: "internet",
		ServerIP: "10.64.0.1", ClientPool: spec.Pool, PoolGateway: "10.64.0.1",
		AuthType: spec.AuthType,
	}
	if spec.DNS {
		cfg.PrimaryDNS, cfg.SecondaryDNS = "10.64.0.53", "10.64.0.54"
	}
	return pppoe.VerifNewServer(cfg, "verif0", serverMAC.hw(), snk.put)
}

// snaps is the session table as reported by the hook (copies, sorted by id; never nil).
type snaps []pppoe.VerifSession

func (s snaps) get(id uint16) (pppoe.VerifSession, bool) {
	for i := range s {
		if s[i].ID == id {
			return s[i], true
		}
	}
	return pppoe.VerifSession{}, false
}

func snapMap(srv *pppoe.Server) snaps {
	s := snaps(srv.VerifSessions())
	if s == nil {
		s = snaps{}
	}
	return s
}

func ipStr(ip net.IP) string {
	if len(ip) == 0 {
		return "-"
	}
	return ip.String()
}

func snapStr(s pppoe.VerifSession) string {
	return fmt.Sprintf("{mac=%s state=%s auth=%v user=%q ip=%s peerMRU=%d peerMagic=%x}", s.ClientMAC, s.State, s.Authenticated, s.Username, ipStr(s.ClientIP), s.PeerMRU, s.PeerMagic)
}

// diffForeign returns what a frame from a non-owner changed in a session ("" = nothing the statement covers).
func diffForeign(b, a pppoe.VerifSession, gone bool) (effect, detail string) {
	if gone {
		return "terminated", "session no longer exists"
	}
	var d []string
	if !bytes.Equal(b.ClientMAC, a.ClientMAC) {
		d = append(d, fmt.Sprintf("owner MAC %s->%s", b.ClientMAC, a.ClientMAC))
	}
	if b.State != a.State {
		d = append(d, fmt.Sprintf("state %s->%s", b.State, a.State))
	}
	if b.Authenticated != a.Authenticated {
		d = append(d, fmt.Sprintf("authenticated %v->%v", b.Authenticated, a.Authenticated))
	}
	if !b.ClientIP.Equal(a.ClientIP) {
		d = append(d, fmt.Sprintf("client IP %s->%s", ipStr(b.ClientIP), ipStr(a.ClientIP)))
	}
	if b.Username != a.Username {
		d = append(d, fmt.Sprintf("username %q->%q", b.Username, a.Username))
	}
	if b.AuthMethod != a.AuthMethod {
		d = append(d, fmt.Sprintf("auth method %q->%q", b.AuthMethod, a.AuthMethod))
	}
	if b.PeerMRU != a.PeerMRU || b.PeerMagic != a.PeerMagic || b.MRU != a.MRU || b.MagicNumber != a.MagicNumber {
		d = append(d, fmt.Sprintf("LCP fields peerMRU %d->%d peerMagic %x->%x", b.PeerMRU, a.PeerMRU, b.PeerMagic, a.PeerMagic))
	}
	if len(d) == 0 {
		return "", ""
	}
	return "changed", strings.Join(d, ", ")
}

func (m *monitor) fail(i int, sig, f string, a ...any) {
	if m.res.v == nil {
		m.res.v = &violation{sig: sig, msg: fmt.Sprintf(f, a...)}
		m.res.at = i
	}
}

// deliver hands one frame to the server; a panic in the handler is reported, not propagated.
func (m *monitor) deliver(src mac, discovery bool, payload []byte) (p any) {
	defer func() { p = recover() }()
	if m.loop {
		et, dst := uint16(etSession), serverMAC
		if discovery {
			et = etDiscovery
			if len(payload) > 1 && payload[1] == codePADI {
				dst = mac{0xff, 0xff, 0xff, 0xff, 0xff, 0xff}
			}
		}
		f := make([]byte, 14+len(payload))
		copy(f[0:6], dst[:])
		copy(f[6:12], src[:])
		binary.BigEndian.PutUint16(f[12:14], et)
		copy(f[14:], payload)
		m.srv.VerifInject(f)
		return nil
	}
	if discovery {
		m.srv.VerifHandleDiscovery(src.hw(), payload)
	} else {
		m.srv.VerifHandleSession(src.hw(), payload)
	}
	return nil
}

// step executes one generated step and checks both clauses.  Returns false when the case must stop.
func (m *monitor) step(i int, st step) bool {
	res := m.res
	kind := kindName[st.Kind]
	before := m.last // nothing but frames and cleanup steps touches the table between steps
	if before == nil {
		before = snapMap(m.srv)
	}
	m.last = nil
	m.snk.drain()

	if st.Kind == kCleanup {
		time.Sleep(st.Sleep)
		m.settl()
		n := m.srv.VerifCleanupExpired(5 * time.Minute)
		res.trace = append(res.trace, fmt.Sprintf("%s -> %d expired", st, n))
		after := snapMap(m.srv)
		for id := range m.sess {
			if _, ok := after.get(id); !ok {
				delete(m.sess, id)
			}
		}
		res.classes["op:cleanup"] = true
		return m.invariants(i, kind, after)
	}

	var nak *[4]byte
	target, addressed := m.sess[st.SID]
	if !st.Kind.hasSID() {
		target, addressed = nil, false
	}
	if addressed {
		nak = target.nak
	}
	src, disc, payloads := st.frames(nak, m.env)

	// NT bookkeeping (before the frame acts)
	if addressed {
		if src != target.owner {
			target.foreignHit = true
			res.nontrivial = true
			res.classes["nt:foreign-frame-on-live-session"] = true
			res.classes["foreign:"+kind] = true
		} else if (st.Kind.isIPCPReq() || st.Kind == kIPCPAck || st.Kind == kIP) && !target.authOK {
			target.preAuthIP = true
			res.nontrivial = true
			res.classes["nt:ipcp-or-ip-before-auth"] = true
		}
	} else if st.Kind.hasSID() {
		res.classes["addr:unknown-session"] = true
	}
	ownRetx := m.discoveryBookkeeping(st, src, payloads, before)

	var acceptsBefore int64
	if m.rs != nil {
		m.rs.outcome.Store(int32(st.Radius))
		acceptsBefore = m.rs.accepts.Load()
	}
	for _, payload := range payloads {
		if p := m.deliver(src, disc, payload); p != nil {
			res.panicked = p
			m.fail(i, "C04/server/panic/"+kind, "handler panicked on %s: %v", st, p)
			return false
		}
	}
	if !m.lean || st.Kind.isPADR() || st.Kind == kPAP {
		m.settl() // lets `go startLCPNegotiation` (PADR) and the RADIUS client's helper goroutine (PAP) finish
	}
	radiusAccepted := m.rs != nil && m.rs.accepts.Load() > acceptsBefore

	after := snapMap(m.srv)
	var ems []emitted
	var emStr []string
	for _, f := range m.snk.drain() {
		e := parseEmitted(f)
		ems = append(ems, e)
		if !m.lean && len(emStr) < 6 {
			emStr = append(emStr, e.String())
		}
	}
	if !m.lean {
		if len(ems) > len(emStr) {
			emStr = append(emStr, fmt.Sprintf("... %d frames in all", len(ems)))
		}
		res.trace = append(res.trace, fmt.Sprintf("%s -> [%s]", st, strings.Join(emStr, " ")))
	}

	// ---- clause (2): every session whose owner is not the sender is untouched - whatever kind of
	// frame this was (session stage, PADT, and equally PADI / PADR, which carry no session id but
	// can reference another peer's session through Host-Uniq / AC-Cookie)
	foreignSig := func(eff string, a pppoe.VerifSession, b pppoe.VerifSession, oka bool) string {
		if m.loop {
			if oka && !bytes.Equal(b.ClientMAC, a.ClientMAC) {
				return "C04/rxloop/owner-mac-rewritten"
			}
			return "C04/rxloop/foreign-mac/" + kind + "/" + eff
		}
		return "C04/foreign-mac/" + kind + "/" + eff
	}
	via := ""
	if m.loop {
		via = "via receiveLoop: "
	}
	for _, id := range m.sessionIDs() {
		ms := m.sess[id]
		if ms.owner == src {
			continue
		}
		b, okb := before.get(id)
		if !okb {
			continue
		}
		a, oka := after.get(id)
		if eff, det := diffForeign(b, a, !oka); eff != "" {
			where := "addressed to it"
			if !addressed || id != st.SID {
				where = "not even addressed to it"
			}
			m.fail(i, foreignSig(eff, a, b, oka), "%sframe %s from %s (owner of session %d is %s; frame %s): %s; before=%s", via, st, src, id, ms.owner, where, det, snapStr(b))
			return false
		}
	}
	// ... and nothing is emitted on it: no PPP frame towards its owner, no PADT, and above all no
	// PADS that "confirms" its session id to whoever sent this frame
	for _, e := range ems {
		if !e.ok || e.sid == 0 {
			continue
		}
		ms := m.sess[e.sid] // sessions created by this very frame are not registered yet
		if ms == nil || ms.owner == src {
			continue
		}
		if m.rtime && e.etherType == etSession && e.proto == protoLCP && e.cpCode == cpConfReq {
			// outside a bubble the first Configure-Request of an EARLIER PADR (sent from its own goroutine) may
			// surface late; it cannot be attributed to this frame, so it is not judged (the bubble runs judge it)
			continue
		}
		b, okb := before.get(e.sid)
		if !okb {
			continue
		}
		eff, what := "emitted-on-session", "the server emitted "+e.String()+" on that session"
		if e.etherType == etDiscovery && e.code == codePADS {
			eff, what = "pads-names-session", fmt.Sprintf("the server answered with %s: a PADS naming that session's id", e)
		}
		m.fail(i, foreignSig(eff, b, b, true), "%sframe %s from %s (owner of session %d is %s): %s; session before=%s", via, st, src, e.sid, ms.owner, what, snapStr(b))
		return false
	}
	m.discoveryAfter(st, src, payloads, before, after, ems, ownRetx)

	// ---- sessions created by this frame: owner = source of the PADR answered with PADS
	for _, a := range after {
		id := a.ID
		if _, ok := before.get(id); ok {
			continue
		}
		if _, ok := m.sess[id]; ok {
			continue
		}
		m.sess[id] = &msess{owner: src}
		if len(m.sess) > res.maxSessions {
			res.maxSessions = len(m.sess)
		}
	}
	// ---- sessions that ended
	for id := range m.sess {
		if _, ok := after.get(id); !ok {
			delete(m.sess, id)
			res.classes["session-terminated"] = true
		}
	}

	// ---- authOK: only from an observed Authenticate-Ack / CHAP Success answering the owner
	for _, e := range ems {
		if e.etherType != etSession {
			continue
		}
		isAck := (e.proto == protoPAP && e.cpCode == papAck) || (e.proto == protoCHAP && e.cpCode == chapSuccess)
		if !isAck {
			continue
		}
		ms := m.sess[e.sid]
		isReq := (st.Kind == kPAP && e.proto == protoPAP) || (st.Kind == kCHAPResp && e.proto == protoCHAP)
		if !isReq || e.sid != st.SID {
			m.fail(i, "C04/auth-gate/auth-ack-unsolicited/"+kind, "server emitted %s while handling %s, which is not an authentication request on that session", e, st)
			return false
		}
		if m.spec.Radius != radNone && !radiusAccepted {
			m.fail(i, "C04/auth-gate/auth-ack-without-radius-accept/"+kind, "server emitted %s for %s although RADIUS is configured and the RADIUS server sent no Access-Accept (scripted: %s, client mode %s)", e, st, st.Radius, m.spec.Radius)
			return false
		}
		if ms != nil && ms.owner == src {
			if !ms.authOK {
				res.papAcks++
			}
			ms.authOK = true
		}
	}

	// ---- clause (1c): IP-layer negotiation acknowledged only on authenticated sessions
	for _, e := range ems {
		if e.etherType == etSession && e.proto == protoIPCP && e.cpCode == cpConfAck {
			ms := m.sess[e.sid]
			if ms == nil || !ms.authOK {
				m.fail(i, "C04/auth-gate/ipcp-acked/"+kind, "server emitted IPCP Configure-Ack %s while handling %s but session %d never completed authentication", e, st, e.sid)
				return false
			}
			ms.ipcpAcked = true
			res.serverIPCPOK++
		}
		if e.etherType == etSession && e.proto == protoIPCP && e.cpCode == cpConfNak {
			if ms := m.sess[e.sid]; ms != nil {
				if a, ok := optAddr(e.cpData, ipcpOptAddress); ok {
					ms.nak = &a
				}
			}
		}
	}

	return m.invariants(i, kind, after)
}

// invariants: clause (1a), (1b) and the reported authenticated flag, for every live session.
func (m *monitor) invariants(i int, kind string, after snaps) bool {
	m.last = after
	for _, a := range after { // sorted by id
		id := a.ID
		ms := m.sess[id]
		ok := ms != nil && ms.authOK
		if a.State == pppoe.StateEstablished {
			if !ok {
				m.fail(i, "C04/auth-gate/established/"+kind, "session %d is reported Established but its authentication exchange was never accepted; %s", id, snapStr(a))
				return false
			}
			if !ms.estab {
				ms.estab = true
				m.res.established++
			}
		}
		if len(a.ClientIP) != 0 && !ok {
			m.fail(i, "C04/auth-gate/client-ip/"+kind, "session %d has client address %s but its authentication exchange was never accepted; %s", id, a.ClientIP, snapStr(a))
			return false
		}
		if a.Authenticated && !ok {
			m.fail(i, "C04/auth-gate/auth-flag/"+kind, "session %d is reported Authenticated but no accepted exchange was observed; %s", id, snapStr(a))
			return false
		}
	}
	return true
}

// runSteps executes a case against a fresh server.  settle must make every
// goroutine the server started come to rest (synctest.Wait inside a bubble).
func runSteps(spec caseSpec, rs *radServer, rc radiusSetter, settle func()) *result {
	return runStepsVia(spec, rs, rc, settle, false)
}

func runStepsVia(spec caseSpec, rs *radServer, rc radiusSetter, settle func(), loop bool) *result {
	return runStepsOpt(spec, rs, rc, settle, loop, false)
}

func runStepsOpt(spec caseSpec, rs *radServer, rc radiusSetter, settle func(), loop, lean bool) *result {
	res := &result{classes: map[string]bool{}, at: -1}
	snk := &sink{}
	realTime := settle == nil
	if realTime {
		settle = snk.settleRealTime
	}
	srv, err := newServer(spec, snk)
	if err != nil {
		res.v = &violation{sig: "C04/harness/constructor", msg: err.Error()}
		return res
	}
	if rc != nil {
		rc(srv)
	}
	m := &monitor{spec: spec, srv: srv, snk: snk, rs: rs, sess: map[uint16]*msess{}, res: res, settl: settle, loop: loop, lean: lean, rtime: realTime, env: newDiscEnv()}
	if spec.Radius == radNone {
		m.rs = nil
	}
	ctx, cancel := context.WithCancel(context.Background())
	defer cancel()
	if loop {
		go srv.VerifReceiveLoop(ctx)
		settle()
	}
	for i, st := range spec.Steps {
		if !m.step(i, st) {
			break
		}
	}
	if loop {
		cancel()
		srv.VerifCloseRx()
	}
	settle()
	return res
}

type radiusSetter func(*pppoe.Server)

// runInBubble runs a case under virtual time.  The RADIUS client is created
// inside the bubble (it owns a rate limiter), the scripted server lives outside.
func runInBubble(t *testing.T, spec caseSpec, rs *radServer) *result {
	return runInBubbleVia(t, spec, rs, false)
}

func runInBubbleVia(t *testing.T, spec caseSpec, rs *radServer, loop bool) *result {
	var res *result
	synctest.Test(t, func(t *testing.T) {
		var rc radiusSetter
		if spec.Radius != radNone {
			cl := newRadiusClient(t, spec.Radius, rs)
			rc = func(s *pppoe.Server) { s.SetRADIUSClient(cl) }
		}
		res = runStepsVia(spec, rs, rc, synctest.Wait, loop)
	})
	return res
}
