package c04

// Bounded-exhaustive enumeration: after the fixed preamble A:PADI A:PADR
// (session 1, owner A) every sequence of length d over a 12-letter frame
// alphabet x {owner A, other MAC B} addressed to session 1 is executed.
//
// A sequence whose prefix fires a LISTED known finding is abandoned at that
// step like any other case; because the outcome of a prefix does not depend on
// what follows, all sequences sharing that prefix are skipped in one jump (they
// are counted in the note "pruned"), so the enumeration stays complete with
// respect to "every sequence was either executed or ends in a listed finding
// at an executed prefix".

import (
	"fmt"
	"runtime"
	"runtime/debug"
	"strings"
	"testing"
	"testing/synctest"

	"github.com/codelaboratoryltd/bng/pkg/pppoe"

	"bngverif/internal/vstat"
)

type letter struct {
	name string
	mk   func(src int) step
}

func alphabet(withRadius bool) []letter {
	l := []letter{
		{"PADT", func(p int) step { return sf(kPADT, p, 1) }},
		{"LCPreq", func(p int) step { return sf(kLCPReq, p, 1) }},
		{"LCPack", func(p int) step { return sf(kLCPAck, p, 1) }},
		{"LCPnak", func(p int) step { return sf(kLCPNak, p, 1) }},
		{"LCPterm", func(p int) step { return sf(kLCPTerm, p, 1) }},
		{"LCPecho", func(p int) step { return sf(kLCPEcho, p, 1) }},
		{"PAPgood", func(p int) step { return pap(p, 1, radAccept) }},
		{"IPCPreq0", func(p int) step { return sf(kIPCPReqZero, p, 1) }},
		{"IPCPreqAddr", func(p int) step { s := sf(kIPCPReqAddr, p, 1); s.UseNak = true; return s }},
		{"IPCPack", func(p int) step { return sf(kIPCPAck, p, 1) }},
		{"IP", func(p int) step { return sf(kIP, p, 1) }},
	}
	if withRadius {
		l = append(l, letter{"PAPbad", func(p int) step { return pap(p, 1, radReject) }})
	} else {
		l = append(l, letter{"PAPmalformed", func(p int) step { return step{Kind: kPAPMalformed, Src: p, SID: 1, Ident: 3, Variant: 3} }})
	}
	return l
}

func pow(b, e int) int {
	r := 1
	for i := 0; i < e; i++ {
		r *= b
	}
	return r
}

func exhaustive(t *testing.T, name string, mode radMode, depth int) {
	rs := scriptedRadius(t)
	// one goroutine does all the work; allocation-heavy: fewer Ps and a lazier GC cut runtime overhead
	defer runtime.GOMAXPROCS(runtime.GOMAXPROCS(2))
	defer debug.SetGCPercent(debug.SetGCPercent(200))
	letters := alphabet(mode != radNone)
	nsym := 2 * len(letters) // symbol = letter*2 + (0 owner, 1 foreign)
	total := pow(nsym, depth)
	shard, shards := vstat.Shard()
	// shard by the first two symbols so that each shard owns contiguous subtrees
	pre := 2
	if depth < 2 {
		pre = depth
	}
	sub := pow(nsym, depth-pre)
	decode := func(i int) []step {
		st := make([]step, 0, depth+2)
		st = append(st, padi(pA), padr(pA))
		for d := depth - 1; d >= 0; d-- {
			sym := (i / pow(nsym, d)) % nsym
			st = append(st, letters[sym/2].mk(sym%2)) // peers: 0 = A (owner), 1 = B
		}
		return st
	}
	var executed, pruned, ntCount int64
	var bad *result
	var badSpec caseSpec
	const chunk = 4096
	i, end := 0, 0
	nextPrefix := 0
	advance := func() bool { // position i at the next index owned by this shard
		for i >= end {
			for nextPrefix < pow(nsym, pre) && nextPrefix%shards != shard {
				nextPrefix++
			}
			if nextPrefix >= pow(nsym, pre) {
				return false
			}
			i, end = nextPrefix*sub, (nextPrefix+1)*sub
			nextPrefix++
		}
		return true
	}
	for bad == nil && advance() {
		synctest.Test(t, func(t *testing.T) {
			var rc radiusSetter
			if mode != radNone {
				cl := newRadiusClient(t, mode, rs)
				rc = func(s *pppoe.Server) { s.SetRADIUSClient(cl) }
			}
			for n := 0; n < chunk && i < end; n++ {
				spec := caseSpec{Radius: mode, Pool: "10.64.0.0/29", AuthType: "pap", Steps: decode(i)}
				res := runStepsOpt(spec, rs, rc, synctest.Wait, false, true)
				executed++
				if res.maxSessions == 0 {
					t.Fatalf("INCONCLUSIVE: the preamble A:PADI A:PADR no longer creates a session; the enumeration would be vacuous")
				}
				if res.nontrivial {
					ntCount++
				}
				skip := 1
				if res.v != nil {
					if !vstat.Known(res.v.sig) {
						bad = runStepsOpt(spec, rs, rc, synctest.Wait, false, false)
						badSpec = spec
						return
					}
					// the verdict depends only on steps[0..at]: skip every sequence sharing that prefix
					k := res.at - 2 // index within the enumerated part
					if k >= 0 {
						w := pow(nsym, depth-1-k)
						skip = w - i%w
						if i+skip > end {
							skip = end - i
						}
					}
				}
				// fingerprints are kept for a 1/64 subsample of the sequences (memory); every sequence is counted
				fp := vstat.Hash(name, i)
				vstat.Case(res.nontrivial && fp%64 == 0, fp, nil, "exhaustive:"+name)
				pruned += int64(skip - 1)
				i += skip
			}
		})
	}
	if bad != nil {
		if bad.v == nil {
			t.Fatalf("INCONCLUSIVE: violation did not reproduce on re-run of %s", badSpec)
		}
		vstat.Fail(t, bad.v.sig, "%s\n  at step %d of case: %s\n  trace:\n    %s", bad.v.msg, bad.at, badSpec, strings.Join(bad.trace, "\n    "))
		return
	}
	vstat.Class("exhaustive:"+name+":nontrivial-all", ntCount)
	vstat.Class("exhaustive:"+name+":pruned-behind-listed-finding", pruned)
	vstat.Note(fmt.Sprintf("exhaustive/%s/shard%dof%d", name, shard, shards), fmt.Sprintf("depth %d over %d letters x {owner,foreign} after A:PADI A:PADR = %d sequences in total; shard %d/%d executed %d, skipped %d behind a prefix that ends in a listed finding; fingerprints kept for 1/64 of the non-trivial ones", depth, len(letters), total, shard, shards, executed, pruned))
	vstat.Exhaustive(true)
}

// TestPropExhaustive: no RADIUS configured; depth 4 (quick) / 6 (thorough).
func TestPropExhaustive(t *testing.T) {
	exhaustive(t, "no-radius", radNone, vstat.Scale(4, 6))
}

// TestPropExhaustiveRadius: RADIUS configured, PAP good = Access-Accept, PAP bad = Access-Reject; depth 3 / 5.
func TestPropExhaustiveRadius(t *testing.T) {
	exhaustive(t, "radius", radLive, vstat.Scale(3, 5))
}
