package c04

// Bounded-exhaustive enumeration: after the fixed preamble A:PADI A:PADR
// (session 1, owner A) every sequence of length d over a 12-letter frame
// alphabet x {owner A, other MAC B} addressed to session 1 is executed.
//
// A sequence whose prefix fires a LISTED known finding is abandoned at that
// step like any other case; because the outcome of a prefix does not depend on
// what follows, all sequences sharing that prefix are skipped in one jump (they
// are counted in the note "pruned"), so the enumeration stays complete with
// respect to "every sequence was either executed or ends in a listed finding
// at an executed prefix".

import (
	"fmt"
	"runtime"
	"runtime/debug"
	"strings"
	"testing"
	"testing/synctest"

	"github.com/codelaboratoryltd/bng/pkg/pppoe"

	"bngverif/internal/vstat"
)

type letter struct {
	name string
	mk   func(src int) step
}

func alphabet(withRadius bool) []letter {
	l := []letter{
		{"PADT", func(p int) step { return sf(kPADT, p, 1) }},
		{"LCPreq", func(p int) step { return sf(kLCPReq, p, 1) }},
		{"LCPack", func(p int) step { return sf(kLCPAck, p, 1) }},
		{"LCPnak", func(p int) step { return sf(kLCPNak, p, 1) }},
		{"LCPterm", func(p int) step { return sf(kLCPTerm, p, 1) }},
		{"LCPecho", func(p int) step { return sf(kLCPEcho, p, 1) }},
		{"PAPgood", func(p int) step { return pap(p, 1, radAccept) }},
		{"IPCPreq0", func(p int) step { return sf(kIPCPReqZero, p, 1) }},
		{"IPCPreqAddr", func(p int) step { s := sf(kIPCPReqAddr, p, 1); s.UseNak = true; return s }},
		{"IPCPack", func(p int) step { return sf(kIPCPAck, p, 1) }},
		{"IP", func(p int) step { return sf(kIP, p, 1) }},
	}
	if withRadius {
		l = append(l, letter{"PAPbad", func(p int) step { return pap(p, 1, radReject) }})
	} else {
		l = append(l, letter{"PAPmalformed", func(p int) step { return step{Kind: kPAPMalformed, Src: p, SID: 1, Ident: 3, Variant: 3} }})
	}
	return l
}

func pow(b, e int) int {
	r := 1
	for i := 0; i < e; i++ {
		r *= b
	}
	return r
}

func exhaustive(t *testing.T, name string, mode radMode, depth int) {
	exhaustiveOver(t, name, mode, depth, alphabet(mode != radNone), []step{padi(pA), padr(pA)}, "A:PADI A:PADR")
}

// discoveryAlphabet: the discovery stage of clause (2).  Session 1 was opened by A with the Host-Uniq value X
// (pid 1234) that B uses as well; the letters are the PADI / PADR forms that reference or collide with a session
// through their tags, the owner's own retransmission, and the four session-stage letters that walk session 1
// through every state (LCP Negotiation -> Authentication -> IPCP Negotiation -> Established) or end it.
func discoveryAlphabet() []letter {
	x := func(k frameKind, ck int) func(p int) step {
		return func(p int) step {
			return step{Kind: k, Src: p, Ident: 7, Tags: discTags{HU: huShared1, Cookie: ck, Peer: 1 - p}}
		}
	}
	return []letter{
		{"PADI(hu=X)", x(kPADI, ckOwn)},
		{"PADR(hu=X,cookie=own)", x(kPADR, ckOwn)},
		{"PADR(hu=X,cookie=of-the-other-peer)", x(kPADR, ckOther)},
		{"PADR(hu=X,cookie=stale)", x(kPADR, ckStale)},
		{"PADR(tags of session 1)", func(p int) step { return step{Kind: kPADRCopy, Src: p, SID: 1} }},
		{"PADR(tags of session 2)", func(p int) step { return step{Kind: kPADRCopy, Src: p, SID: 2} }},
		{"PADR(no Host-Uniq)", func(p int) step {
			return step{Kind: kPADR, Src: p, Ident: 7, Tags: discTags{HU: huAbsent, Cookie: ckOwn}}
		}},
		{"PADT(1)", func(p int) step { return sf(kPADT, p, 1) }},
		{"LCPack(1)", func(p int) step { return sf(kLCPAck, p, 1) }},
		{"PAPgood(1)", func(p int) step { return pap(p, 1, radAccept) }},
		{"IPCPack(1)", func(p int) step { return sf(kIPCPAck, p, 1) }},
	}
}

func exhaustiveOver(t *testing.T, name string, mode radMode, depth int, letters []letter, preamble []step, preambleText string) {
	rs := scriptedRadius(t)
	// one goroutine does all the work; allocation-heavy: fewer Ps and a lazier GC cut runtime overhead
	defer runtime.GOMAXPROCS(runtime.GOMAXPROCS(2))
	defer debug.SetGCPercent(debug.SetGCPercent(200))
	nsym := 2 * len(letters) // symbol = letter*2 + (0 owner, 1 foreign)
	total := pow(nsym, depth)
	shard, shards := vstat.Shard()
	// shard by the first two symbols so that each shard owns contiguous subtrees
	pre := 2
	if depth < 2 {
		pre = depth
	}
	sub := pow(nsym, depth-pre)
	decode := func(i int) []step {
		st := make([]step, 0, depth+len(preamble))
		st = append(st, preamble...)
		for d := depth - 1; d >= 0; d-- {
			sym := (i / pow(nsym, d)) % nsym
			st = append(st, letters[sym/2].mk(sym%2)) // peers: 0 = A (owner), 1 = B
		}
		return st
	}
	var executed, pruned, ntCount int64
	var bad *result
	var badSpec caseSpec
	const chunk = 4096
	i, end := 0, 0
	nextPrefix := 0
	advance := func() bool { // position i at the next index owned by this shard
		for i >= end {
			for nextPrefix < pow(nsym, pre) && nextPrefix%shards != shard {
				nextPrefix++
			}
			if nextPrefix >= pow(nsym, pre) {
				return false
			}
			i, end = nextPrefix*sub, (nextPrefix+1)*sub
			nextPrefix++
		}
		return true
	}
	for bad == nil && advance() {
		synctest.Test(t, func(t *testing.T) {
			var rc radiusSetter
			if mode != radNone {
				cl := newRadiusClient(t, mode, rs)
				rc = func(s *pppoe.Server) { s.SetRADIUSClient(cl) }
			}
			for n := 0; n < chunk && i < end; n++ {
				spec := caseSpec{Radius: mode, Pool: "10.64.0.0/29", AuthType: "pap", Steps: decode(i)}
				res := runStepsOpt(spec, rs, rc, synctest.Wait, false, true)
				executed++
				if res.maxSessions == 0 {
					t.Fatalf("INCONCLUSIVE: the preamble %s no longer creates a session; the enumeration would be vacuous", preambleText)
				}
				if res.nontrivial {
					ntCount++
				}
				skip := 1
				if res.v != nil {
					if !vstat.Known(res.v.sig) {
						bad = runStepsOpt(spec, rs, rc, synctest.Wait, false, false)
						badSpec = spec
						return
					}
					// the verdict depends only on steps[0..at]: skip every sequence sharing that prefix
					k := res.at - len(preamble) // index within the enumerated part
					if k >= 0 {
						w := pow(nsym, depth-1-k)
						skip = w - i%w
						if i+skip > end {
							skip = end - i
						}
					}
				}
				// fingerprints are kept for a 1/64 subsample of the sequences (memory); every sequence is counted
				fp := vstat.Hash(name, i)
				vstat.Case(res.nontrivial && fp%64 == 0, fp, nil, "exhaustive:"+name)
				pruned += int64(skip - 1)
				i += skip
			}
		})
	}
	if bad != nil {
		if bad.v == nil {
			t.Fatalf("INCONCLUSIVE: violation did not reproduce on re-run of %s", badSpec)
		}
		vstat.Fail(t, bad.v.sig, "%s\n  at step %d of case: %s\n  trace:\n    %s", bad.v.msg, bad.at, badSpec, strings.Join(bad.trace, "\n    "))
		return
	}
	vstat.Class("exhaustive:"+name+":nontrivial-all", ntCount)
	vstat.Class("exhaustive:"+name+":pruned-behind-listed-finding", pruned)
	vstat.Note(fmt.Sprintf("exhaustive/%s/shard%dof%d", name, shard, shards), fmt.Sprintf("depth %d over %d letters x {owner,foreign} after %s = %d sequences in total; shard %d/%d executed %d, skipped %d behind a prefix that ends in a listed finding; fingerprints kept for 1/64 of the non-trivial ones", depth, len(letters), preambleText, total, shard, shards, executed, pruned))
	vstat.Exhaustive(true)
}

// TestPropExhaustive: no RADIUS configured; depth 4 (quick) / 6 (thorough).
func TestPropExhaustive(t *testing.T) {
	exhaustive(t, "no-radius", radNone, vstat.Scale(4, 6))
}

// TestPropExhaustiveRadius: RADIUS configured, PAP good = Access-Accept, PAP bad = Access-Reject; depth 3 / 5.
func TestPropExhaustiveRadius(t *testing.T) {
	exhaustive(t, "radius", radLive, vstat.Scale(3, 5))
}

// TestPropExhaustiveDiscovery: clause (2) on the discovery stage, bounded-exhaustively.  After
// A:PADI(hu=X) A:PADR(hu=X) (session 1, owner A) every sequence of length 4 (quick) / 5 (thorough) over
// discoveryAlphabet() x {A, B}.  Depth 4 reaches "A authenticates, IPCP opens, session Established, then B's
// PADR / PADI with A's Host-Uniq, A's cookie or all of A's tags" and every shorter state before the attack;
// also B opening session 2 and A doing the same to it.
func TestPropExhaustiveDiscovery(t *testing.T) {
	x := discTags{HU: huShared1, Cookie: ckOwn}
	pre := []step{{Kind: kPADI, Src: pA, Ident: 7, Tags: x}, {Kind: kPADR, Src: pA, Ident: 7, Tags: x}}
	exhaustiveOver(t, "discovery", radNone, vstat.Scale(4, 5), discoveryAlphabet(), pre, "A:PADI(hu=X) A:PADR(hu=X)")
}
