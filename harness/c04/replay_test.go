package c04

// Minimal regression histories: one per confirmed defect, asserted through the
// same signatures the generated checks use (silent while the finding is listed,
// failing again if a fix is applied and later reverted), plus a few positive
// controls that must stay violation-free.

import (
	"encoding/json"
	"os"
	"path/filepath"
	"sort"
	"strings"
	"testing"

	"bngverif/internal/vstat"
)

const (
	pA = 0
	pB = 1
	pC = 2
)

var pool28 = "10.64.0.0/28"

func padr(p int) step { return step{Kind: kPADR, Src: p, Ident: 7} }
func padi(p int) step { return step{Kind: kPADI, Src: p, Ident: 7} }
func sf(k frameKind, p int, sid uint16) step {
	return step{Kind: k, Src: p, SID: sid, Ident: 3, MRU: 1400, Magic: 0x22222222, Addr: [4]byte{192, 0, 2, 77}}
}
func pap(p int, sid uint16, o radOutcome) step {
	return step{Kind: kPAP, Src: p, SID: sid, Ident: 4, Radius: o}
}

type replayCase struct {
	name   string
	spec   caseSpec
	expect string // signature expected on the unrepaired tree ("" = must be clean)
}

var replayCases = []replayCase{
	{"foreign-padt", caseSpec{Radius: radNone, Pool: pool28, Steps: []step{padi(pA), padr(pA), sf(kPADT, pB, 1)}}, "C04/foreign-mac/padt/terminated"},
	{"foreign-lcp-term", caseSpec{Radius: radNone, Pool: pool28, Steps: []step{padr(pA), sf(kLCPTerm, pB, 1)}}, "C04/foreign-mac/lcp-term-req/terminated"},
	{"foreign-lcp-ack", caseSpec{Radius: radNone, Pool: pool28, Steps: []step{padr(pA), sf(kLCPAck, pB, 1)}}, "C04/foreign-mac/lcp-cfg-ack/changed"},
	{"foreign-lcp-req", caseSpec{Radius: radNone, Pool: pool28, Steps: []step{padr(pA), sf(kLCPReq, pB, 1)}}, "C04/foreign-mac/lcp-cfg-req/changed"},
	{"foreign-pap", caseSpec{Radius: radNone, Pool: pool28, Steps: []step{padr(pA), pap(pB, 1, radAccept)}}, "C04/foreign-mac/pap-req/changed"},
	{"foreign-pap-radius", caseSpec{Radius: radLive, Pool: pool28, Steps: []step{padr(pA), padr(pB), pap(pB, 1, radAccept)}}, "C04/foreign-mac/pap-req/changed"},
	{"foreign-ipcp-ack", caseSpec{Radius: radNone, Pool: pool28, Steps: []step{padr(pA), pap(pA, 1, radAccept), sf(kIPCPAck, pB, 1)}}, "C04/foreign-mac/ipcp-cfg-ack/changed"},
	{"ipcp-ack-before-auth", caseSpec{Radius: radNone, Pool: pool28, Steps: []step{padi(pA), padr(pA), sf(kIPCPAck, pA, 1)}}, "C04/auth-gate/established/ipcp-cfg-ack"},
	{"ipcp-ack-after-radius-reject", caseSpec{Radius: radLive, Pool: pool28, Steps: []step{padr(pA), sf(kLCPReq, pA, 1), sf(kLCPAck, pA, 1), pap(pA, 1, radReject), sf(kIPCPAck, pA, 1)}}, "C04/auth-gate/established/ipcp-cfg-ack"},
	{"ipcp-ack-radius-down", caseSpec{Radius: radDeadOnly, Pool: pool28, Steps: []step{padr(pA), pap(pA, 1, radAccept), sf(kIPCPAck, pA, 1)}}, "C04/auth-gate/established/ipcp-cfg-ack"},
	{"ipcp-req-addr-before-auth", caseSpec{Radius: radNone, Pool: pool28, Steps: []step{padr(pA), sf(kIPCPReqAddr, pA, 1)}}, "C04/auth-gate/ipcp-acked/ipcp-cfg-req"},
	{"ipcp-req-zero-before-auth", caseSpec{Radius: radLive, Pool: pool28, Steps: []step{padr(pA), pap(pA, 1, radReject), sf(kIPCPReqZero, pA, 1)}}, "C04/auth-gate/ipcp-acked/ipcp-cfg-req"},

	// positive controls: orderly dialogues must be clean and must reach the interesting states
	{"ok-full-no-radius", caseSpec{Radius: radNone, DNS: true, Pool: pool28, Steps: []step{padi(pA), padr(pA), sf(kLCPReq, pA, 1), sf(kLCPAck, pA, 1), pap(pA, 1, radAccept),
		sf(kIPCPReqZero, pA, 1), {Kind: kIPCPReqAddr, Src: pA, SID: 1, UseNak: true, Ident: 9}, sf(kIPCPAck, pA, 1), sf(kIPCPReqPlain, pA, 1), sf(kIP, pA, 1), sf(kPADT, pA, 1)}}, ""},
	{"ok-full-radius", caseSpec{Radius: radDeadThenLive, Pool: pool28, Steps: []step{padi(pA), padr(pA), padi(pB), padr(pB), sf(kLCPReq, pA, 1), sf(kLCPAck, pA, 1),
		pap(pA, 1, radForged), pap(pA, 1, radChallenge), pap(pA, 1, radReject), pap(pA, 1, radAccept), sf(kIPCPAck, pA, 1), sf(kIPCPReqPlain, pA, 1),
		pap(pB, 2, radAccept), sf(kIPCPAck, pB, 2), sf(kLCPTerm, pA, 1), sf(kIP, pB, 2)}}, ""},
	{"ok-foreign-inert", caseSpec{Radius: radNone, Pool: pool28, Steps: []step{padr(pA), sf(kLCPEcho, pB, 1), sf(kIP, pB, 1), sf(kLCPNak, pB, 1), sf(kCHAPResp, pB, 1),
		{Kind: kPAPMalformed, Src: pB, SID: 1, Variant: 2}, sf(kPADT, pB, 9)}}, ""},

	// discovery stage (seeded change C04-E and its family).  Clean on a correct tree: the sessions of A stay exactly as
	// they are, B gets sessions of its own.  The signature is what a tree shows that treats a PADR / PADI as a reference
	// to an existing session by Host-Uniq or AC-Cookie without comparing the MAC.
	{"ok-disc-foreign-padr-same-hostuniq", caseSpec{Radius: radNone, Pool: pool28, Steps: []step{xPADI(pA), xPADR(pA), sf(kLCPAck, pA, 1), pap(pA, 1, radAccept), sf(kIPCPAck, pA, 1),
		xPADI(pB), xPADR(pB), sf(kIP, pA, 1)}}, "C04/foreign-mac/padr/changed"},
	{"ok-disc-foreign-padr-same-hostuniq-fresh", caseSpec{Radius: radNone, Pool: pool28, Steps: []step{xPADI(pA), xPADR(pA), xPADR(pB)}}, "C04/foreign-mac/padr/pads-names-session"},
	{"ok-disc-foreign-padr-all-tags", caseSpec{Radius: radLive, Pool: pool28, Steps: []step{xPADI(pA), xPADR(pA), pap(pA, 1, radAccept),
		{Kind: kPADRCopy, Src: pB, SID: 1}, sf(kIPCPAck, pA, 1), {Kind: kPADRCopy, Src: pC, SID: 1}}}, "C04/foreign-mac/padr/changed"},
	{"ok-disc-foreign-padr-cookie-of-owner", caseSpec{Radius: radNone, Pool: pool28, Steps: []step{xPADI(pA), xPADR(pA), sf(kLCPAck, pA, 1),
		{Kind: kPADR, Src: pB, Ident: 9, Tags: discTags{HU: huLegacy, Cookie: ckOther, Peer: pA}}}}, "C04/foreign-mac/padr/changed"},
	{"ok-disc-foreign-padi-same-hostuniq", caseSpec{Radius: radNone, Pool: pool28, Steps: []step{xPADI(pA), xPADR(pA), xPADI(pB),
		{Kind: kPADIFlood, Src: pB, SID: 1, Variant: 40}, xPADR(pB), sf(kLCPAck, pA, 1)}}, "C04/foreign-mac/padi/terminated"},
	{"ok-disc-owner-padr-retransmission", caseSpec{Radius: radNone, Pool: pool28, Steps: []step{xPADI(pA), xPADR(pA), {Kind: kPADRCopy, Src: pA, SID: 1}, pap(pA, 1, radAccept),
		{Kind: kPADRCopy, Src: pA, SID: 1}, sf(kIPCPAck, pA, 1), {Kind: kPADRCopy, Src: pA, SID: 1}, sf(kIPCPAck, pA, 2), sf(kIPCPAck, pA, 4), sf(kIP, pA, 1)}}, ""},
}

// xPADI / xPADR: discovery frames with the Host-Uniq value every peer uses (pid 1234), cookie = the one offered to the sender
func xPADI(p int) step {
	return step{Kind: kPADI, Src: p, Ident: 7, Tags: discTags{HU: huShared1, Cookie: ckOwn}}
}
func xPADR(p int) step {
	return step{Kind: kPADR, Src: p, Ident: 7, Tags: discTags{HU: huShared1, Cookie: ckOwn}}
}

func TestReplayKnown(t *testing.T) {
	rs := scriptedRadius(t)
	for _, rc := range replayCases {
		res := runInBubble(t, rc.spec, rs)
		got := ""
		if res.v != nil {
			got = res.v.sig
		}
		if testing.Verbose() {
			t.Logf("replay %-32s expect %-45q got %q", rc.name, rc.expect, got)
		}
		switch {
		case got == "":
			// clean: fine for controls, and for defect cases it means the defect is repaired
			if rc.expect == "" {
				if rc.name == "ok-full-no-radius" && (res.established != 1 || res.serverIPCPOK == 0) {
					t.Fatalf("INCONCLUSIVE: control %s did not reach Established (%d) / server IPCP ack (%d); trace:\n%s", rc.name, res.established, res.serverIPCPOK, strings.Join(res.trace, "\n"))
				}
				if strings.HasPrefix(rc.name, "ok-disc-") && (res.maxSessions < 2 || rc.name == "ok-disc-foreign-padr-same-hostuniq" && res.established != 1) {
					t.Fatalf("INCONCLUSIVE: control %s: %d sessions at most, %d established: the discovery frames no longer open sessions; trace:\n%s", rc.name, res.maxSessions, res.established, strings.Join(res.trace, "\n"))
				}
				if rc.name == "ok-full-radius" && res.established != 2 {
					t.Fatalf("INCONCLUSIVE: control %s: %d sessions established, want 2; trace:\n%s", rc.name, res.established, strings.Join(res.trace, "\n"))
				}
			}
		default:
			// any violation is reported through its own signature (listed ones stay silent)
			vstat.Fail(t, got, "replay %s: %s\n  case: %s\n  trace:\n    %s", rc.name, res.v.msg, rc.spec, strings.Join(res.trace, "\n    "))
			if rc.expect != got {
				t.Logf("note: replay %s expected %q, got %q", rc.name, rc.expect, got)
			}
		}
		vstat.Case(res.nontrivial, vstat.Hash("replay", rc.name), nil, "replay:"+rc.name)
	}
}

// ---------------------------------------------------------------------------
// file replays: /verif/replays/C04/*.json (or the single file named by
// VERIF_REPLAY_FILE, which is how `./check C04 --replay <file>` hands one over)

type replayFile struct {
	Name    string   `json:"name"`
	ViaLoop bool     `json:"via_receive_loop"`
	Expect  string   `json:"expect_signature_on_unrepaired_tree"`
	Spec    caseSpec `json:"case"`
	Text    string   `json:"readable"`
}

func replayDir() string {
	if d := os.Getenv("VERIF_REPLAYS"); d != "" {
		return d
	}
	return filepath.Join("..", "..", "replays", "C04")
}

func TestReplayFiles(t *testing.T) {
	rs := scriptedRadius(t)
	var files []string
	if f := os.Getenv("VERIF_REPLAY_FILE"); f != "" {
		files = []string{f}
	} else {
		files, _ = filepath.Glob(filepath.Join(replayDir(), "*.json"))
		sort.Strings(files)
	}
	for _, f := range files {
		b, err := os.ReadFile(f)
		if err != nil {
			t.Fatalf("INCONCLUSIVE: %v", err)
		}
		var rf replayFile
		if err := json.Unmarshal(b, &rf); err != nil {
			t.Fatalf("INCONCLUSIVE: %s: %v", f, err)
		}
		for _, st := range rf.Spec.Steps {
			if st.Kind < 0 || st.Kind >= nKinds || st.Src < 0 || st.Src >= len(peers) {
				t.Fatalf("INCONCLUSIVE: %s: step out of range: %+v", f, st)
			}
		}
		res := runInBubbleVia(t, rf.Spec, rs, rf.ViaLoop)
		report(t, "replay-file", rf.Spec, res, "replay-file:"+rf.Name)
	}
}

// TestWriteReplayFiles regenerates replays/C04/*.json from the table above (development aid):
// VERIF_C04_WRITE_REPLAYS=1 go test -tags verif ./c04/ -run TestWriteReplayFiles
func TestWriteReplayFiles(t *testing.T) {
	if os.Getenv("VERIF_C04_WRITE_REPLAYS") == "" {
		t.Skip("development aid")
	}
	all := append([]replayCase{}, replayCases...)
	all = append(all, replayCase{"rxloop-owner-mac-rewritten", caseSpec{Radius: radNone, Pool: pool28, Steps: []step{padi(pA), padr(pA), padi(pB)}}, "C04/rxloop/owner-mac-rewritten"})
	for _, rc := range all {
		rf := replayFile{Name: rc.name, ViaLoop: strings.HasPrefix(rc.name, "rxloop"), Expect: rc.expect, Spec: rc.spec, Text: rc.spec.String()}
		b, _ := json.MarshalIndent(rf, "", " ")
		if err := os.WriteFile(filepath.Join(replayDir(), rc.name+".json"), append(b, '\n'), 0o644); err != nil {
			t.Fatal(err)
		}
	}
}
