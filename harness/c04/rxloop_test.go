package c04

// The production path: frames enter through Server.receiveLoop, which reads
// every frame into ONE reused buffer and hands sub-slices of it to the
// handlers.  Here the real loop runs on the in-memory socket.  Histories are
// restricted to frames that are harmless through the direct entry points
// (discovery from several MACs - including PADI / PADR whose Host-Uniq, cookie or
// whole tag area is another peer's - the owner's own orderly dialogue, echo / IP /
// malformed PAP from other MACs), so what this test adds is exactly the
// loop's own contribution to clause (2).

import (
	"testing"

	"pgregory.net/rapid"

	"bngverif/internal/vstat"
)

func genLoopCase(rt *rapid.T) caseSpec {
	spec := caseSpec{Radius: radNone, Pool: "10.64.0.0/28", AuthType: "pap", DNS: rapid.Bool().Draw(rt, "dns")}
	p := &predictor{spec: &spec}
	for i := range p.needPADI {
		p.needPADI[i] = true
	}
	// While the loop's buffer-aliasing defect is listed, most cases use a single
	// MAC (the defect is then invisible) so that long dialogues through the real
	// loop are still checked; the rest keep exercising it.
	single := vstat.IsListed("C04/rxloop/owner-mac-rewritten") && rapid.IntRange(0, 3).Draw(rt, "multiMAC") > 0
	n := max(rapid.IntRange(2, 16).Draw(rt, "steps"), rapid.IntRange(2, 16).Draw(rt, "steps2"))
	for i := 0; i < n; i++ {
		var st step
		live := p.live()
		w := rapid.IntRange(0, 9).Draw(rt, "action")
		if single {
			w = 0
		}
		switch {
		case w < 6 || len(live) == 0:
			peer := 0
			if !single {
				peer = rapid.IntRange(0, 2).Draw(rt, "peer")
			}
			st = p.progress(rt, peer)
			if st.Kind == kPADT || st.Kind == kLCPTerm {
				st.Kind = kIP
			}
		case w < 8:
			s := rapid.SampledFrom(live).Draw(rt, "victim")
			st = step{Kind: rapid.SampledFrom([]frameKind{kLCPEcho, kIP, kPAPMalformed, kCHAPResp}).Draw(rt, "kind"),
				Src: (s.owner + rapid.IntRange(1, 3).Draw(rt, "other")) % 4, SID: s.id}
			fill(rt, &st)
		case w < 9:
			st = step{Kind: rapid.SampledFrom([]frameKind{kPADI, kPADRNoCookie}).Draw(rt, "kind"), Src: rapid.IntRange(0, 3).Draw(rt, "src")}
			fill(rt, &st)
		default: // discovery-stage frames that collide with a live session through their tags, retransmissions, floods
			st = p.discoveryStep(rt)
			if st.Kind == kPADT {
				st.Kind = kPADI
			}
		}
		if sig := p.predictSig(st); sig != "" {
			continue
		}
		p.apply(st)
		spec.Steps = append(spec.Steps, st)
	}
	return spec
}

// TestPropRxLoop: clause (2) through the real receive loop.
func TestPropRxLoop(t *testing.T) {
	vstat.Checks(400, 6000)
	rs := scriptedRadius(t)
	rapid.Check(t, func(rt *rapid.T) {
		spec := genLoopCase(rt)
		res := runInBubbleVia(t, spec, rs, true)
		report(rt, "rxloop", spec, res, "via:receiveLoop")
	})
}

func TestReplayRxLoop(t *testing.T) {
	rs := scriptedRadius(t)
	spec := caseSpec{Radius: radNone, Pool: pool28, Steps: []step{padi(pA), padr(pA), padi(pB)}}
	res := runInBubbleVia(t, spec, rs, true)
	report(t, "replay-rxloop", spec, res, "replay:rxloop-owner-mac")
}
