package c04

// Random frame histories (rapid).  The whole case is drawn outside the
// synctest bubble.  Because the server hands out session ids 1,2,3,... in PADR
// order and the RADIUS answers are scripted, the generator can PREDICT which
// sessions are alive / authenticated and so build deep, well-formed histories
// (full establishment is common) while still aiming frames at live sessions
// from the wrong MAC or at the wrong time.  The prediction only steers
// generation; the oracle (monitor_test.go) never uses it.

import (
	"fmt"
	"strings"
	"testing"
	"time"

	"pgregory.net/rapid"

	"bngverif/internal/vstat"
)

type psess struct {
	id     uint16
	owner  int
	alive  bool
	authOK bool
	stage  int
}

type predictor struct {
	spec     *caseSpec
	sess     []*psess
	n        uint16
	needPADI [4]bool
}

func (p *predictor) live() []*psess {
	var o []*psess
	for _, s := range p.sess {
		if s.alive {
			o = append(o, s)
		}
	}
	return o
}

func (p *predictor) get(id uint16) *psess {
	for _, s := range p.sess {
		if s.id == id && s.alive {
			return s
		}
	}
	return nil
}

func (p *predictor) accepts(st step) bool {
	switch p.spec.Radius {
	case radNone:
		return true
	case radDeadOnly:
		return false
	}
	return st.Radius == radAccept
}

// predictSig: the violation signature this step would produce on a tree that
// has none of the defects repaired ("" = none).  Used only to steer.
func (p *predictor) predictSig(st step) string {
	if !(st.Kind.isSession() || st.Kind == kPADT) {
		return ""
	}
	s := p.get(st.SID)
	if s == nil {
		return ""
	}
	k := kindName[st.Kind]
	if s.owner != st.Src {
		switch st.Kind {
		case kPADT, kLCPTerm:
			return "C04/foreign-mac/" + k + "/terminated"
		case kLCPAck, kLCPReq, kPAP, kIPCPAck:
			return "C04/foreign-mac/" + k + "/changed"
		}
	}
	if !s.authOK {
		if st.Kind == kIPCPAck {
			return "C04/auth-gate/established/" + k
		}
		if st.Kind.isIPCPReq() && !(st.Kind == kIPCPReqDNS && p.spec.DNS) {
			return "C04/auth-gate/ipcp-acked/" + k
		}
	}
	return ""
}

func (p *predictor) apply(st step) {
	switch st.Kind {
	case kPADI, kPADIFlood:
		p.needPADI[st.Src] = false
	case kPADR, kPADRCopy:
		// every PADR that carries an AC-Cookie tag is answered with a new session (a copied tag area always has one)
		if st.Kind == kPADR && st.Tags.Cookie == ckAbsent {
			break
		}
		p.n++
		p.sess = append(p.sess, &psess{id: p.n, owner: st.Src, alive: true})
	case kCleanup:
		if st.Sleep > 5*time.Minute {
			for _, s := range p.sess {
				s.alive = false
			}
		}
	}
	s := p.get(st.SID)
	if s == nil || !st.Kind.hasSID() || s.owner != st.Src {
		return
	}
	switch st.Kind {
	case kPADT, kLCPTerm:
		s.alive = false
		p.needPADI[st.Src] = true
	case kLCPReq:
		if s.stage == 0 {
			s.stage = 1
		}
	case kLCPAck:
		if s.stage <= 1 {
			s.stage = 2
		}
	case kPAP:
		if p.accepts(st) {
			s.authOK = true
			if s.stage < 3 {
				s.stage = 3
			}
		}
	case kIPCPReqZero, kIPCPReqDNS:
		if s.stage == 3 {
			s.stage = 4
		}
	case kIPCPReqAddr:
		if s.stage == 4 {
			s.stage = 5
		}
	case kIPCPAck:
		if s.stage >= 3 {
			s.stage = 6
		}
	}
}

var (
	genOutcome = rapid.SampledFrom([]radOutcome{radAccept, radAccept, radAccept, radAccept, radAccept, radAccept, radReject, radReject, radChallenge, radForged})
	genMRU     = rapid.SampledFrom([]uint16{1492, 1492, 1400, 1500, 576})
	genMagic   = rapid.SampledFrom([]uint32{0x11111111, 0x22222222, 0xdeadbeef})
	genAddr    = rapid.SampledFrom([][4]byte{{192, 0, 2, 77}, {10, 64, 0, 2}, {10, 64, 0, 9}, {8, 8, 8, 8}})
	sessKinds  = []frameKind{kLCPReq, kLCPAck, kLCPNak, kLCPTerm, kLCPEcho, kPAP, kPAPMalformed, kCHAPResp,
		kIPCPReqZero, kIPCPReqAddr, kIPCPReqDNS, kIPCPReqPlain, kIPCPAck, kIP, kPADT}
	attackKinds  = []frameKind{kPADT, kLCPTerm, kLCPAck, kLCPReq, kLCPNak, kLCPEcho, kPAP, kPAPMalformed, kIPCPAck, kIPCPReqZero, kIPCPReqAddr, kIP, kCHAPResp}
	preAuthKinds = []frameKind{kIPCPReqZero, kIPCPReqAddr, kIPCPReqDNS, kIPCPReqPlain, kIPCPAck, kIP}
)

var (
	// what an ordinary client puts into its PADI / PADR: most hosts use a small process id, so the SAME value from
	// different peers is the common case, not the exception
	genClientHU = rapid.SampledFrom([]int{huShared1, huShared1, huShared1, huShared1, huLegacy, huLegacy, huShared2, huAbsent, huEmpty, huLong})
	genAnyHU    = rapid.SampledFrom([]int{huShared1, huShared1, huShared2, huOfSession, huOfSession, huLegacy, huAbsent, huEmpty, huLong})
	genSvc      = rapid.SampledFrom([]int{svcAny, svcAny, svcAny, svcConfigured, svcConfigured, svcOther, svcAbsent})
	genCookie   = rapid.SampledFrom([]int{ckOwn, ckOwn, ckOwn, ckOther, ckOther, ckStale, ckStale, ckAbsent, ckMadeUp, ckEmpty})
	genRelay    = rapid.SampledFrom([]int{relayAbsent, relayAbsent, relayAbsent, relayAbsent, relayShared, relayShared, relayOther})
)

// anyTags: discovery tags from the whole shared alphabet; sessions referenced are live ones where there are any.
func anyTags(rt *rapid.T, live []*psess) discTags {
	d := discTags{HU: genAnyHU.Draw(rt, "hu"), Svc: genSvc.Draw(rt, "svc"), Cookie: genCookie.Draw(rt, "cookie"),
		Relay: genRelay.Draw(rt, "relay"), Peer: rapid.IntRange(0, 3).Draw(rt, "cookiePeer")}
	if d.HU == huOfSession {
		d.Ref = 1
		if len(live) > 0 {
			d.Ref = rapid.SampledFrom(live).Draw(rt, "huRef").id
		}
	}
	return d
}

// discoveryStep draws one discovery-stage step: aimed at a live session through its tags where there is one
// (from a MAC that does not own it, or the owner's own retransmission), otherwise - and a quarter of the time
// anyway - anything over the shared tag alphabet from anybody.
func (p *predictor) discoveryStep(rt *rapid.T) step {
	live := p.live()
	d := rapid.IntRange(0, 99).Draw(rt, "disc")
	if len(live) == 0 {
		d = 76 + d%24
	}
	var st step
	// the session aimed at: more often than not the one that got furthest (so that Authentication, IPCP
	// Negotiation and Established sessions are hit as often as fresh ones), else any live one
	pick := func(label string) *psess {
		if rapid.IntRange(0, 9).Draw(rt, label+"Far") < 6 {
			best := live[0]
			for _, s := range live {
				if s.stage > best.stage {
					best = s
				}
			}
			return best
		}
		return rapid.SampledFrom(live).Draw(rt, label)
	}
	switch {
	case d < 22: // PADR from another MAC with the Host-Uniq of the victim's session
		v := pick("victim")
		st = step{Kind: kPADR, Src: (v.owner + rapid.IntRange(1, 3).Draw(rt, "other")) % 4,
			Tags: discTags{HU: huOfSession, Ref: v.id, Peer: v.owner, Svc: genSvc.Draw(rt, "svc"),
				Cookie: rapid.SampledFrom([]int{ckOwn, ckOwn, ckOther, ckOther, ckStale, ckMadeUp}).Draw(rt, "cookie")}}
	case d < 36: // PADR from another MAC re-using every tag of the victim's PADR
		v := pick("victim")
		st = step{Kind: kPADRCopy, Src: (v.owner + rapid.IntRange(1, 3).Draw(rt, "other")) % 4, SID: v.id}
	case d < 54: // the owner retransmits the PADR of its session, whatever state that session is in by now
		v := pick("sess")
		st = step{Kind: kPADRCopy, Src: v.owner, SID: v.id}
	case d < 68: // PADI from another MAC with the Host-Uniq of the victim's session
		v := pick("victim")
		st = step{Kind: kPADI, Src: (v.owner + rapid.IntRange(1, 3).Draw(rt, "other")) % 4,
			Tags: discTags{HU: huOfSession, Ref: v.id, Svc: genSvc.Draw(rt, "svc"), Relay: genRelay.Draw(rt, "relay")}}
	case d < 76: // PADI flood
		v := pick("victim")
		st = step{Kind: kPADIFlood, Src: rapid.IntRange(0, 3).Draw(rt, "src"), SID: v.id, Variant: rapid.IntRange(8, 64).Draw(rt, "flood")}
	case d < 80:
		st = step{Kind: kPADIFlood, Src: rapid.IntRange(0, 3).Draw(rt, "src"), SID: 1, Variant: rapid.IntRange(8, 64).Draw(rt, "flood")}
	default: // anything from anybody
		st = step{Kind: rapid.SampledFrom([]frameKind{kPADI, kPADR, kPADR, kPADR, kPADRNoCookie, kPADT}).Draw(rt, "kind"), Src: rapid.IntRange(0, 3).Draw(rt, "src")}
		if st.Kind == kPADT {
			if len(live) > 0 {
				st.SID = rapid.SampledFrom(live).Draw(rt, "sess").id
			}
		} else if rapid.IntRange(0, 4).Draw(rt, "legacyTags") > 0 {
			st.Tags = anyTags(rt, live)
		}
	}
	fill(rt, &st)
	return st
}

func fill(rt *rapid.T, st *step) {
	st.Ident = byte(rapid.IntRange(1, 250).Draw(rt, "ident"))
	switch st.Kind {
	case kLCPReq, kLCPNak, kLCPEcho:
		st.MRU = genMRU.Draw(rt, "mru")
		st.Magic = genMagic.Draw(rt, "magic")
	case kPAP:
		st.Radius = genOutcome.Draw(rt, "radius")
	case kIPCPReqAddr:
		st.UseNak = rapid.Bool().Draw(rt, "useNak")
		st.Addr = genAddr.Draw(rt, "addr")
	case kIP:
		st.Addr = genAddr.Draw(rt, "addr")
	case kPAPMalformed, kIPCPReqDNS, kIPCPReqPlain, kPADR:
		st.Variant = rapid.IntRange(0, 4).Draw(rt, "variant")
	}
}

// progress returns the next step of peer's orderly dialogue.
func (p *predictor) progress(rt *rapid.T, peer int) step {
	var mine *psess
	for _, s := range p.live() {
		if s.owner == peer {
			mine = s
		}
	}
	if mine == nil {
		// an ordinary client: PADI then PADR, Host-Uniq mostly a value other hosts use as well
		st := step{Kind: kPADR, Src: peer}
		if p.needPADI[peer] {
			st.Kind = kPADI
		}
		st.Tags.HU = genClientHU.Draw(rt, "clientHU")
		if st.Tags.HU != huLegacy {
			st.Tags.Svc = rapid.SampledFrom([]int{svcAny, svcAny, svcConfigured}).Draw(rt, "clientSvc")
			st.Tags.Cookie = ckOwn
		}
		fill(rt, &st)
		return st
	}
	st := step{Src: peer, SID: mine.id}
	switch mine.stage {
	case 0:
		// a third of the clients answer the server's Configure-Request before sending their own
		st.Kind = rapid.SampledFrom([]frameKind{kLCPReq, kLCPReq, kLCPAck}).Draw(rt, "lcp0")
	case 1:
		st.Kind = kLCPAck
	case 2:
		st.Kind = kPAP
	case 3:
		st.Kind = rapid.SampledFrom([]frameKind{kIPCPReqZero, kIPCPReqZero, kIPCPReqDNS, kIPCPAck}).Draw(rt, "ipcp0")
	case 4:
		st.Kind = kIPCPReqAddr
	case 5:
		st.Kind = kIPCPAck
	default:
		st.Kind = rapid.SampledFrom([]frameKind{kIP, kIP, kLCPEcho, kIPCPReqPlain, kIPCPReqPlain, kIPCPReqAddr, kPAP, kPADT, kLCPTerm}).Draw(rt, "steady")
	}
	fill(rt, &st)
	if st.Kind == kIPCPReqAddr && mine.stage == 4 {
		st.UseNak = true
	}
	return st
}

func genCase(rt *rapid.T, modes []radMode) (caseSpec, bool) { return genCaseW(rt, modes, false) }

// genCaseW: discHeavy shifts the weight from session-stage frames to discovery-stage ones (TestPropHistoryDiscovery).
func genCaseW(rt *rapid.T, modes []radMode, discHeavy bool) (caseSpec, bool) {
	spec := caseSpec{
		Radius:   rapid.SampledFrom(modes).Draw(rt, "radiusMode"),
		DNS:      rapid.Bool().Draw(rt, "dns"),
		Pool:     rapid.SampledFrom([]string{"10.64.0.0/28", "10.64.0.0/28", "10.64.0.0/28", "10.64.0.0/30"}).Draw(rt, "pool"),
		AuthType: rapid.SampledFrom([]string{"pap", "pap", "", "chap"}).Draw(rt, "authType"),
	}
	allow := rapid.IntRange(0, 3).Draw(rt, "allowFindings") == 0
	p := &predictor{spec: &spec}
	for i := range p.needPADI {
		p.needPADI[i] = true
	}
	// rapid favours small integers: take the larger of two draws so that long histories are common
	n := max(rapid.IntRange(1, 30).Draw(rt, "steps"), rapid.IntRange(1, 30).Draw(rt, "steps2"))
	genPeer := rapid.SampledFrom([]int{0, 0, 0, 1, 1, 2})
	if discHeavy && rapid.Bool().Draw(rt, "scenario") {
		// scenario opening: one client opens a session and walks it to a state drawn uniformly from LCP
		// Negotiation / Authentication / IPCP Negotiation / Established by the shortest dialogue the server
		// accepts; then a discovery-stage step (collision from another MAC, or the owner's retransmission)
		// meets it in exactly that state.  The random history continues from there.
		v := genPeer.Draw(rt, "scenarioPeer")
		open := []step{p.progress(rt, v)}
		p.apply(open[0])
		open = append(open, p.progress(rt, v))
		p.apply(open[1])
		sid := p.n
		for _, k := range []frameKind{kLCPAck, kPAP, kIPCPAck}[:rapid.IntRange(0, 3).Draw(rt, "scenarioState")] {
			st := step{Kind: k, Src: v, SID: sid}
			fill(rt, &st)
			st.Radius = radAccept
			p.apply(st)
			open = append(open, st)
		}
		st := step{Kind: kPADRCopy, Src: v, SID: sid} // the owner's own retransmission ...
		if rapid.IntRange(0, 9).Draw(rt, "scenarioStep") >= 4 {
			st = p.discoveryStep(rt) // ... or any discovery-stage step, mostly aimed at this session
		}
		p.apply(st)
		spec.Steps = append(spec.Steps, append(open, st)...)
	}
	for i := 0; i < n; i++ {
		var st step
		live := p.live()
		w := rapid.IntRange(0, 99).Draw(rt, "action")
		if discHeavy && w >= 46 && w < 78 && w%4 != 0 { // three quarters of the session-stage share goes to discovery
			w = 80
		}
		switch {
		case w < 46 || len(live) == 0 && w < 86:
			st = p.progress(rt, genPeer.Draw(rt, "peer"))
		case w < 60: // any session frame, any source, mostly a live session
			st = step{Kind: rapid.SampledFrom(sessKinds).Draw(rt, "kind"), Src: rapid.IntRange(0, 3).Draw(rt, "src")}
			if len(live) > 0 && rapid.IntRange(0, 4).Draw(rt, "liveSid") > 0 {
				st.SID = rapid.SampledFrom(live).Draw(rt, "sess").id
			} else {
				st.SID = uint16(rapid.SampledFrom([]int{0, 1, 2, 7, 0xffff}).Draw(rt, "sid"))
			}
			fill(rt, &st)
		case w < 72: // a frame for a live session from a MAC that does not own it
			s := rapid.SampledFrom(live).Draw(rt, "victim")
			src := (s.owner + rapid.IntRange(1, 3).Draw(rt, "other")) % 4
			st = step{Kind: rapid.SampledFrom(attackKinds).Draw(rt, "kind"), Src: src, SID: s.id}
			fill(rt, &st)
		case w < 80: // owner sends IP-layer frames on its own session (before or after authentication)
			s := rapid.SampledFrom(live).Draw(rt, "sess")
			st = step{Kind: rapid.SampledFrom(preAuthKinds).Draw(rt, "kind"), Src: s.owner, SID: s.id}
			fill(rt, &st)
		case w < 98: // discovery stage: collisions with live sessions, retransmissions, floods, anything from anybody
			st = p.discoveryStep(rt)
		default:
			st = step{Kind: kCleanup, Sleep: rapid.SampledFrom([]time.Duration{30 * time.Second, 6 * time.Minute}).Draw(rt, "sleep")}
		}
		if sig := p.predictSig(st); sig != "" && !allow && vstat.IsListed(sig) {
			// steer around a listed finding: keep the history going with an orderly step instead
			st = p.progress(rt, genPeer.Draw(rt, "peer2"))
			if sig2 := p.predictSig(st); sig2 != "" && vstat.IsListed(sig2) {
				continue
			}
		}
		p.apply(st)
		spec.Steps = append(spec.Steps, st)
	}
	return spec, allow
}

func lenClass(n int) string {
	switch {
	case n <= 5:
		return "len:1-5"
	case n <= 12:
		return "len:6-12"
	case n <= 20:
		return "len:13-20"
	}
	return "len:21+"
}

// report turns a result into vstat calls; returns the class list it recorded.
func report(t vstat.Fataler, test string, spec caseSpec, res *result, extra ...string) {
	t.Helper()
	cls := append([]string{"radius:" + spec.Radius.String(), lenClass(len(spec.Steps))}, extra...)
	for c := range res.classes {
		cls = append(cls, c)
	}
	if res.established > 0 {
		cls = append(cls, "reached:established-after-auth")
	}
	if res.papAcks > 0 {
		cls = append(cls, "reached:auth-accepted")
	}
	if res.serverIPCPOK > 0 {
		cls = append(cls, "reached:server-ipcp-ack-after-auth")
	}
	if res.maxSessions >= 2 {
		cls = append(cls, "sessions>=2")
	}
	if res.v != nil {
		known := vstat.Fail(t, res.v.sig, "%s\n  at step %d of case: %s\n  trace:\n    %s", res.v.msg, res.at, spec, strings.Join(res.trace, "\n    "))
		if known {
			cls = append(cls, "ended-by-known-finding")
		}
	}
	sortStrings(cls)
	vstat.Case(res.nontrivial, vstat.Hash(test, spec.String()), func() any {
		return map[string]any{"test": test, "case": spec.String(), "trace": res.trace}
	}, cls...)
}

func sortStrings(a []string) {
	for i := 1; i < len(a); i++ {
		for j := i; j > 0 && a[j] < a[j-1]; j-- {
			a[j], a[j-1] = a[j-1], a[j]
		}
	}
}

func propHistory(t *testing.T, name string, modes []radMode) {
	rs := scriptedRadius(t)
	rapid.Check(t, func(rt *rapid.T) {
		spec, allow := genCase(rt, modes)
		res := runInBubble(t, spec, rs)
		extra := []string{}
		if allow {
			extra = append(extra, "gen:findings-allowed")
		} else {
			extra = append(extra, "gen:steered-around-listed")
		}
		report(rt, name, spec, res, extra...)
	})
}

// TestPropHistoryNoRadius: no RADIUS client configured (the server accepts any PAP credentials).
func TestPropHistoryNoRadius(t *testing.T) {
	vstat.Checks(2500, 40000)
	propHistory(t, "no-radius", []radMode{radNone})
}

// TestPropHistoryRadius: RADIUS configured; per-request scripted answers
// accept / reject / challenge / forged accept, client fail-over from a closed port.
func TestPropHistoryRadius(t *testing.T) {
	vstat.Checks(2500, 40000)
	propHistory(t, "radius", []radMode{radLive, radLive, radDeadThenLive})
}

// TestPropHistoryDiscovery: the same histories with the weight on the DISCOVERY stage - PADI / PADR whose tags
// (Host-Uniq, AC-Cookie, Service-Name, Relay-Session-Id) come from an alphabet shared by all peers or are copied
// from another peer's PADR, the owner's own PADR retransmissions in every session state, PADI floods - interleaved
// with the orderly dialogues, so that the auth-gate clauses are decided on whatever session results.
func TestPropHistoryDiscovery(t *testing.T) {
	vstat.Checks(3000, 40000)
	rs := scriptedRadius(t)
	rapid.Check(t, func(rt *rapid.T) {
		spec, allow := genCaseW(rt, []radMode{radNone, radNone, radLive, radDeadThenLive}, true)
		res := runInBubble(t, spec, rs)
		extra := []string{"gen:discovery-heavy"}
		if allow {
			extra = append(extra, "gen:findings-allowed")
		} else {
			extra = append(extra, "gen:steered-around-listed")
		}
		report(rt, "discovery", spec, res, extra...)
	})
}

// TestPropHistoryRadiusDown: the only RADIUS server is unreachable (closed port):
// nothing may ever be authenticated, established, addressed or IPCP-acked.
func TestPropHistoryRadiusDown(t *testing.T) {
	vstat.Checks(600, 8000)
	propHistory(t, "radius-down", []radMode{radDeadOnly})
}

var _ = fmt.Sprintf
