package c04

// Random frame histories (rapid).  The whole case is drawn outside the
// synctest bubble.  Because the server hands out session ids 1,2,3,... in PADR
// order and the RADIUS answers are scripted, the generator can PREDICT which
// sessions are alive / authenticated and so build deep, well-formed histories
// (full establishment is common) while still aiming frames at live sessions
// from the wrong MAC or at the wrong time.  The prediction only steers
// generation; the oracle (monitor_test.go) never uses it.

import (
	"fmt"
	"strings"
	"testing"
	"time"

	"pgregory.net/rapid"

	"bngverif/internal/vstat"
)

type psess struct {
	id     uint16
	owner  int
	alive  bool
	authOK bool
	stage  int
}

type predictor struct {
	spec     *caseSpec
	sess     []*psess
	n        uint16
	needPADI [4]bool
}

func (p *predictor) live() []*psess {
	var o []*psess
	for _, s := range p.sess {
		if s.alive {
			o = append(o, s)
		}
	}
	return o
}

func (p *predictor) get(id uint16) *psess {
	for _, s := range p.sess {
		if s.id == id && s.alive {
			return s
		}
	}
	return nil
}

func (p *predictor) accepts(st step) bool {
	switch p.spec.Radius {
	case radNone:
		return true
	case radDeadOnly:
		return false
	}
	return st.Radius == radAccept
}

// predictSig: the violation signature this step would produce on a tree that
// has none of the defects repaired ("" = none).  Used only to steer.
func (p *predictor) predictSig(st step) string {
	if !(st.Kind.isSession() || st.Kind == kPADT) {
		return ""
	}
	s := p.get(st.SID)
	if s == nil {
		return ""
	}
	k := kindName[st.Kind]
	if s.owner != st.Src {
		switch st.Kind {
		case kPADT, kLCPTerm:
			return "C04/foreign-mac/" + k + "/terminated"
		case kLCPAck, kLCPReq, kPAP, kIPCPAck:
			return "C04/foreign-mac/" + k + "/changed"
		}
	}
	if !s.authOK {
		if st.Kind == kIPCPAck {
			return "C04/auth-gate/established/" + k
		}
		if st.Kind.isIPCPReq() && !(st.Kind == kIPCPReqDNS && p.spec.DNS) {
			return "C04/auth-gate/ipcp-acked/" + k
		}
	}
	return ""
}

func (p *predictor) apply(st step) {
	switch st.Kind {
	case kPADI:
		p.needPADI[st.Src] = false
	case kPADR:
		p.n++
		p.sess = append(p.sess, &psess{id: p.n, owner: st.Src, alive: true})
	case kCleanup:
		if st.Sleep > 5*time.Minute {
			for _, s := range p.sess {
				s.alive = false
			}
		}
	}
	s := p.get(st.SID)
	if s == nil || !(st.Kind.isSession() || st.Kind == kPADT) || s.owner != st.Src {
		return
	}
	switch st.Kind {
	case kPADT, kLCPTerm:
		s.alive = false
		p.needPADI[st.Src] = true
	case kLCPReq:
		if s.stage == 0 {
			s.stage = 1
		}
	case kLCPAck:
		if s.stage == 1 {
			s.stage = 2
		}
	case kPAP:
		if p.accepts(st) {
			s.authOK = true
			if s.stage < 3 {
				s.stage = 3
			}
		}
	case kIPCPReqZero, kIPCPReqDNS:
		if s.stage == 3 {
			s.stage = 4
		}
	case kIPCPReqAddr:
		if s.stage == 4 {
			s.stage = 5
		}
	case kIPCPAck:
		if s.stage >= 3 {
			s.stage = 6
		}
	}
}

var (
	genOutcome = rapid.SampledFrom([]radOutcome{radAccept, radAccept, radAccept, radAccept, radAccept, radAccept, radReject, radReject, radChallenge, radForged})
	genMRU     = rapid.SampledFrom([]uint16{1492, 1492, 1400, 1500, 576})
	genMagic   = rapid.SampledFrom([]uint32{0x11111111, 0x22222222, 0xdeadbeef})
	genAddr    = rapid.SampledFrom([][4]byte{{192, 0, 2, 77}, {10, 64, 0, 2}, {10, 64, 0, 9}, {8, 8, 8, 8}})
	sessKinds  = []frameKind{kLCPReq, kLCPAck, kLCPNak, kLCPTerm, kLCPEcho, kPAP, kPAPMalformed, kCHAPResp,
		kIPCPReqZero, kIPCPReqAddr, kIPCPReqDNS, kIPCPReqPlain, kIPCPAck, kIP, kPADT}
	attackKinds  = []frameKind{kPADT, kLCPTerm, kLCPAck, kLCPReq, kLCPNak, kLCPEcho, kPAP, kPAPMalformed, kIPCPAck, kIPCPReqZero, kIPCPReqAddr, kIP, kCHAPResp}
	preAuthKinds = []frameKind{kIPCPReqZero, kIPCPReqAddr, kIPCPReqDNS, kIPCPReqPlain, kIPCPAck, kIP}
)

func fill(rt *rapid.T, st *step) {
	st.Ident = byte(rapid.IntRange(1, 250).Draw(rt, "ident"))
	switch st.Kind {
	case kLCPReq, kLCPNak, kLCPEcho:
		st.MRU = genMRU.Draw(rt, "mru")
		st.Magic = genMagic.Draw(rt, "magic")
	case kPAP:
		st.Radius = genOutcome.Draw(rt, "radius")
	case kIPCPReqAddr:
		st.UseNak = rapid.Bool().Draw(rt, "useNak")
		st.Addr = genAddr.Draw(rt, "addr")
	case kIP:
		st.Addr = genAddr.Draw(rt, "addr")
	case kPAPMalformed, kIPCPReqDNS, kIPCPReqPlain, kPADR:
		st.Variant = rapid.IntRange(0, 4).Draw(rt, "variant")
	}
}

// progress returns the next step of peer's orderly dialogue.
func (p *predictor) progress(rt *rapid.T, peer int) step {
	var mine *psess
	for _, s := range p.live() {
		if s.owner == peer {
			mine = s
		}
	}
	if mine == nil {
		if p.needPADI[peer] {
			st := step{Kind: kPADI, Src: peer}
			fill(rt, &st)
			return st
		}
		st := step{Kind: kPADR, Src: peer}
		fill(rt, &st)
		return st
	}
	st := step{Src: peer, SID: mine.id}
	switch mine.stage {
	case 0:
		st.Kind = kLCPReq
	case 1:
		st.Kind = kLCPAck
	case 2:
		st.Kind = kPAP
	case 3:
		st.Kind = rapid.SampledFrom([]frameKind{kIPCPReqZero, kIPCPReqZero, kIPCPReqDNS}).Draw(rt, "ipcp0")
	case 4:
		st.Kind = kIPCPReqAddr
	case 5:
		st.Kind = kIPCPAck
	default:
		st.Kind = rapid.SampledFrom([]frameKind{kIP, kIP, kLCPEcho, kIPCPReqPlain, kIPCPReqPlain, kIPCPReqAddr, kPAP, kPADT, kLCPTerm}).Draw(rt, "steady")
	}
	fill(rt, &st)
	if st.Kind == kIPCPReqAddr && mine.stage == 4 {
		st.UseNak = true
	}
	return st
}

func genCase(rt *rapid.T, modes []radMode) (caseSpec, bool) {
	spec := caseSpec{
		Radius:   rapid.SampledFrom(modes).Draw(rt, "radiusMode"),
		DNS:      rapid.Bool().Draw(rt, "dns"),
		Pool:     rapid.SampledFrom([]string{"10.64.0.0/28", "10.64.0.0/28", "10.64.0.0/28", "10.64.0.0/30"}).Draw(rt, "pool"),
		AuthType: rapid.SampledFrom([]string{"pap", "pap", "", "chap"}).Draw(rt, "authType"),
	}
	allow := rapid.IntRange(0, 3).Draw(rt, "allowFindings") == 0
	p := &predictor{spec: &spec}
	for i := range p.needPADI {
		p.needPADI[i] = true
	}
	// rapid favours small integers: take the larger of two draws so that long histories are common
	n := max(rapid.IntRange(1, 30).Draw(rt, "steps"), rapid.IntRange(1, 30).Draw(rt, "steps2"))
	genPeer := rapid.SampledFrom([]int{0, 0, 0, 1, 1, 2})
	for i := 0; i < n; i++ {
		var st step
		live := p.live()
		w := rapid.IntRange(0, 99).Draw(rt, "action")
		switch {
		case w < 50 || len(live) == 0 && w < 90:
			st = p.progress(rt, genPeer.Draw(rt, "peer"))
		case w < 64: // any session frame, any source, mostly a live session
			st = step{Kind: rapid.SampledFrom(sessKinds).Draw(rt, "kind"), Src: rapid.IntRange(0, 3).Draw(rt, "src")}
			if len(live) > 0 && rapid.IntRange(0, 4).Draw(rt, "liveSid") > 0 {
				st.SID = rapid.SampledFrom(live).Draw(rt, "sess").id
			} else {
				st.SID = uint16(rapid.SampledFrom([]int{0, 1, 2, 7, 0xffff}).Draw(rt, "sid"))
			}
			fill(rt, &st)
		case w < 78: // a frame for a live session from a MAC that does not own it
			s := rapid.SampledFrom(live).Draw(rt, "victim")
			src := (s.owner + rapid.IntRange(1, 3).Draw(rt, "other")) % 4
			st = step{Kind: rapid.SampledFrom(attackKinds).Draw(rt, "kind"), Src: src, SID: s.id}
			fill(rt, &st)
		case w < 88: // owner sends IP-layer frames on its own session (before or after authentication)
			s := rapid.SampledFrom(live).Draw(rt, "sess")
			st = step{Kind: rapid.SampledFrom(preAuthKinds).Draw(rt, "kind"), Src: s.owner, SID: s.id}
			fill(rt, &st)
		case w < 98: // discovery from anybody
			st = step{Kind: rapid.SampledFrom([]frameKind{kPADI, kPADR, kPADR, kPADRNoCookie, kPADT}).Draw(rt, "kind"), Src: rapid.IntRange(0, 3).Draw(rt, "src")}
			if st.Kind == kPADT && len(live) > 0 {
				st.SID = rapid.SampledFrom(live).Draw(rt, "sess").id
			}
			fill(rt, &st)
		default:
			st = step{Kind: kCleanup, Sleep: rapid.SampledFrom([]time.Duration{30 * time.Second, 6 * time.Minute}).Draw(rt, "sleep")}
		}
		if sig := p.predictSig(st); sig != "" && !allow && vstat.IsListed(sig) {
			// steer around a listed finding: keep the history going with an orderly step instead
			st = p.progress(rt, genPeer.Draw(rt, "peer2"))
			if sig2 := p.predictSig(st); sig2 != "" && vstat.IsListed(sig2) {
				continue
			}
		}
		p.apply(st)
		spec.Steps = append(spec.Steps, st)
	}
	return spec, allow
}

func lenClass(n int) string {
	switch {
	case n <= 5:
		return "len:1-5"
	case n <= 12:
		return "len:6-12"
	case n <= 20:
		return "len:13-20"
	}
	return "len:21+"
}

// report turns a result into vstat calls; returns the class list it recorded.
func report(t vstat.Fataler, test string, spec caseSpec, res *result, extra ...string) {
	t.Helper()
	cls := append([]string{"radius:" + spec.Radius.String(), lenClass(len(spec.Steps))}, extra...)
	for c := range res.classes {
		cls = append(cls, c)
	}
	if res.established > 0 {
		cls = append(cls, "reached:established-after-auth")
	}
	if res.papAcks > 0 {
		cls = append(cls, "reached:auth-accepted")
	}
	if res.serverIPCPOK > 0 {
		cls = append(cls, "reached:server-ipcp-ack-after-auth")
	}
	if res.maxSessions >= 2 {
		cls = append(cls, "sessions>=2")
	}
	if res.v != nil {
		known := vstat.Fail(t, res.v.sig, "%s\n  at step %d of case: %s\n  trace:\n    %s", res.v.msg, res.at, spec, strings.Join(res.trace, "\n    "))
		if known {
			cls = append(cls, "ended-by-known-finding")
		}
	}
	sortStrings(cls)
	vstat.Case(res.nontrivial, vstat.Hash(test, spec.String()), func() any {
		return map[string]any{"test": test, "case": spec.String(), "trace": res.trace}
	}, cls...)
}

func sortStrings(a []string) {
	for i := 1; i < len(a); i++ {
		for j := i; j > 0 && a[j] < a[j-1]; j-- {
			a[j], a[j-1] = a[j-1], a[j]
		}
	}
}

func propHistory(t *testing.T, name string, modes []radMode) {
	rs := scriptedRadius(t)
	rapid.Check(t, func(rt *rapid.T) {
		spec, allow := genCase(rt, modes)
		res := runInBubble(t, spec, rs)
		extra := []string{}
		if allow {
			extra = append(extra, "gen:findings-allowed")
		} else {
			extra = append(extra, "gen:steered-around-listed")
		}
		report(rt, name, spec, res, extra...)
	})
}

// TestPropHistoryNoRadius: no RADIUS client configured (the server accepts any PAP credentials).
func TestPropHistoryNoRadius(t *testing.T) {
	vstat.Checks(2500, 40000)
	propHistory(t, "no-radius", []radMode{radNone})
}

// TestPropHistoryRadius: RADIUS configured; per-request scripted answers
// accept / reject / challenge / forged accept, client fail-over from a closed port.
func TestPropHistoryRadius(t *testing.T) {
	vstat.Checks(2500, 40000)
	propHistory(t, "radius", []radMode{radLive, radLive, radDeadThenLive})
}

// TestPropHistoryRadiusDown: the only RADIUS server is unreachable (closed port):
// nothing may ever be authenticated, established, addressed or IPCP-acked.
func TestPropHistoryRadiusDown(t *testing.T) {
	vstat.Checks(600, 8000)
	propHistory(t, "radius-down", []radMode{radDeadOnly})
}

var _ = fmt.Sprintf
