package c18

// Bounded-exhaustive sweeps, one test function (= one process, one runner) per mode family.  Every
// combination of the discrete fields
//   {path go|raw} x {binding absent | present x v4-valid x v6-valid} x {mode in force of the family}
//   x {default mode 0..3 + invalid} x {log flag (raw)} x {ethertype IPv4, IPv6, ARP, 802.1Q, 802.1ad, other}
//   x {frame length around every header boundary} x {source/bound relation} x {allowed-range configuration}
// is generated `reps` times with fresh random addresses (PRNG seeded from vstat.Seed).
//
// path "go":  the state is produced by the real manager (NewManager/SetMode/AddBinding/AddBindingV6/
//             AddAllowedRange) in real kernel maps and copied raw into the runner.
// path "raw": the same semantic state is written in the byte layout the C source declares (addresses in
//             network order) straight into the runner, so the C decision logic is exercised independently
//             of the Go encoding.  The "takes effect exactly as written" clause is only asserted on "go".

import (
	"fmt"
	"strings"
	"testing"

	"bngverif/internal/vstat"
)

type family struct {
	name  string
	modes func(p *prng) []uint8 // modes in force enumerated for this family
}

func invalidMode(p *prng) uint8 { return uint8(5 + p.intn(250)) }

var (
	famStrict  = family{"strict", func(*prng) []uint8 { return []uint8{modeStrict} }}
	famLoose   = family{"loose", func(*prng) []uint8 { return []uint8{modeLoose} }}
	famLogOnly = family{"log-only", func(*prng) []uint8 { return []uint8{modeLogOnly} }}
	famOther   = family{"disabled+invalid", func(p *prng) []uint8 { return []uint8{modeDisabled, 4, 255, invalidMode(p)} }}
)

func TestPropStrict(t *testing.T)          { sweep(t, famStrict) }
func TestPropLoose(t *testing.T)           { sweep(t, famLoose) }
func TestPropLogOnly(t *testing.T)         { sweep(t, famLogOnly) }
func TestPropDisabledInvalid(t *testing.T) { sweep(t, famOther) }

func palindrome4(p *prng) []byte {
	a, b := byte(1+p.intn(254)), byte(p.u64())
	return []byte{a, b, b, a}
}

func nonPalindrome4(p *prng) []byte {
	for {
		b := p.bytes(4)
		if b[0] != b[3] || b[1] != b[2] {
			return b
		}
	}
}

func flipBit(b []byte, bit int) []byte {
	c := append([]byte(nil), b...)
	c[bit/8] ^= 0x80 >> uint(bit%8)
	return c
}

func reversed(b []byte) []byte {
	c := make([]byte, len(b))
	for i := range b {
		c[len(b)-1-i] = b[i]
	}
	return c
}

// maskTo clears the host bits (what net.ParseCIDR hands to AddAllowedRange).
func maskTo(ip []byte, plen int) []byte {
	c := append([]byte(nil), ip...)
	for i := plen; i < 32; i++ {
		c[i/8] &^= 0x80 >> uint(i%8)
	}
	return c
}

var (
	lensV4    = []int{13, 14, 15, 33, 34, 35, 54, 60, -1}
	lensV6    = []int{13, 14, 15, 33, 34, 53, 54, 55, 74, -1}
	lensARP   = []int{14, 42, 60}
	lensVLAN  = []int{14, 17, 18, 37, 38, 60}
	lensOther = []int{14, 60}
)

type shape struct {
	et, inner uint16
	lens      []int
	rels      []string
}

// source/bound relations.  The first four are relative to a random bound address; the others put the degenerate
// values of the address type (degen_test.go) into the source, the bound address, or both: "<bound kind>/<source>".
var relsIP = []string{"eq", "rev", "bit", "rnd",
	"rnd/zero", "rnd/ones", "rnd/special",
	"zero/eq", "ones/eq", "special/eq",
	"zero/rnd", "ones/rnd", "special/rnd", "zero/ones", "ones/zero", "zero/bit", "ones/bit", "special/bit", "special/zero", "zero/special", "ones/special", "special/ones"}

var shapes = []shape{
	{etIPv4, 0, lensV4, relsIP},
	{etIPv6, 0, lensV6, relsIP},
	{etARP, 0, lensARP, []string{"rnd"}},
	{etQ, etIPv4, lensVLAN, []string{"eq", "rnd", "rnd/zero"}},
	{etAD, etIPv4, lensVLAN, []string{"eq", "rnd", "zero/eq"}},
	{0, 0, lensOther, []string{"rnd"}}, // random ethertype that is none of the above
}

// range configurations relative to the frame's source (and the bound address)
var (
	rangesFew   = []string{"none", "cover", "host", "all"}
	rangesLoose = []string{"none", "cover", "near", "bound-only", "multi", "host", "all"}
)

type bindShape struct {
	present bool
	v4, v6  bool
}

var bindShapes = []bindShape{{false, false, false}, {true, false, false}, {true, true, false}, {true, false, true}, {true, true, true}}

func sweep(t *testing.T, fam family) {
	e := newEnv(t)
	p := &prng{s: seedFor("sweep:" + fam.name)}
	// (the product grew about fivefold when the degenerate values became dimensions: fewer repetitions per run)
	reps := vstat.Scale(2, 24)
	switch fam.name {
	case "strict":
		reps = vstat.Scale(2, 30)
	case "disabled+invalid":
		reps = vstat.Scale(1, 12)
	}
	kf1, kf2 := vstat.IsListed(sigGoBindOrder), vstat.IsListed(sigGoRangeOrder)
	rangeCfgs := rangesFew
	if fam.name == "loose" {
		rangeCfgs = rangesLoose
	}
	n := 0
	for rep := 0; rep < reps; rep++ {
		for _, path := range []string{"raw", "go"} {
			for _, bs := range bindShapes {
				for _, mode := range fam.modes(p) {
					defaults := []uint8{mode}
					logs := []uint8{1}
					if bs.present {
						// the default mode must not matter when a binding exists
						defaults = []uint8{modeDisabled, modeStrict, modeLoose, modeLogOnly, invalidMode(p), 255}
						if path == "go" {
							defaults = []uint8{mode, uint8(p.intn(4))}
						} else if fam.name == "disabled+invalid" {
							defaults = []uint8{modeStrict, modeLoose, uint8(p.intn(256))}
						}
					}
					if path == "raw" {
						logs = []uint8{0, 1}
					}
					for _, def := range defaults {
						for _, lg := range logs {
							for si := range shapes {
								sh := &shapes[si]
								for _, ln := range sh.lens {
									for _, rel := range sh.rels {
										for _, rc := range rangeCfgs {
											if sh.et != etIPv4 && rc != "none" && rc != "cover" {
												continue
											}
											tc := makeSweepCase(p, path, bs, mode, def, lg, sh, ln, rel, rc, kf1, kf2)
											o := runCase(t, e, tc, true)
											o.class("family:" + fam.name)
											o.class("rel:" + rel)
											o.class("ranges:" + rc)
											o.class(fmt.Sprintf("et:%04x", sh.et))
											for _, c := range degenerateClasses(tc) {
												o.class(c)
											}
											record(tc, o)
											n++
										}
									}
								}
							}
						}
					}
				}
			}
		}
	}
	vstat.Note("sweep:"+fam.name, fmt.Sprintf("%d cases = %d repetitions (fresh random addresses) of the full discrete product", n, reps))
	vstat.Exhaustive(true)
}

func makeSweepCase(p *prng, path string, bs bindShape, mode, def, lg uint8, sh *shape, ln int, rel, rc string, kf1, kf2 bool) *tcase {
	tc := &tcase{Path: path, Gen: "sweep", Macs: []hexb{p.bytes(6), p.bytes(6)}}
	tc.Macs[0][0] &^= 1 // unicast source
	tc.Macs[1][0] &^= 1
	switch p.intn(7) { // degenerate sender MACs (the all-ones one is not a legal source, which does not stop anybody sending it)
	case 0:
		tc.Macs[0] = zeros(6)
	case 1:
		tc.Macs[0] = ones(6)
	case 2:
		tc.Macs[1] = zeros(6) // the other subscriber
	}
	v6fam := sh.et == etIPv6
	boundKind, srcRel := "rnd", rel
	if i := strings.IndexByte(rel, '/'); i >= 0 {
		boundKind, srcRel = rel[:i], rel[i+1:]
	}
	// bound addresses
	steer := path == "go" && kf1 && p.intn(8) != 0 // keep the Go encoding finding out of most go-path cases
	var b4 []byte
	if steer {
		b4 = palindrome4(p)
	} else if p.intn(6) == 0 {
		b4 = palindrome4(p)
	} else {
		b4 = nonPalindrome4(p)
	}
	b6 := p.bytes(16)
	both := p.intn(2) == 0 // the other family's address takes the same degenerate value
	switch boundKind {
	case "zero":
		if !v6fam || both {
			b4 = zeros(4)
		}
		if v6fam || both {
			b6 = zeros(16)
		}
	case "ones":
		if !v6fam || both {
			b4 = ones(4)
		}
		if v6fam || both {
			b6 = ones(16)
		}
	case "special":
		if !v6fam || both {
			b4 = specialOf(4, p)
		}
		if v6fam || both {
			b6 = specialOf(16, p)
		}
	}
	// source address of the frame
	var src []byte
	bound := b4
	if v6fam {
		bound = b6
	}
	switch srcRel {
	case "eq":
		src = append([]byte(nil), bound...)
	case "rev":
		src = reversed(bound)
		if string(src) == string(bound) { // palindrome: rotate instead
			src = append(append([]byte(nil), bound[1:]...), bound[0])
			if string(src) == string(bound) {
				src = flipBit(bound, 7)
			}
		}
	case "bit":
		src = flipBit(bound, p.intn(len(bound)*8))
	case "zero":
		src = zeros(len(bound))
	case "ones":
		src = ones(len(bound))
	case "special":
		src = specialOf(len(bound), p)
		if string(src) == string(bound) {
			src = flipBit(bound, len(bound)*8-1)
		}
	default:
		src = p.bytes(len(bound))
		if string(src) == string(bound) {
			src = flipBit(bound, 0)
		}
	}
	if ln < 0 {
		lo := 34
		if v6fam {
			lo = 54
		}
		ln = lo + p.intn(1515-lo)
	}
	et := sh.et
	if et == 0 {
		for {
			et = uint16(p.u64())
			if et != etIPv4 && et != etIPv6 && et != etARP && et != etQ && et != etAD {
				break
			}
		}
	}
	fr := &frame{Mac: 0, Et: et, Inner: sh.inner, Src: src, Len: ln, Fill: p.u64()}

	// allowed ranges (IPv4), relative to the source / the bound address
	var ranges []rng
	src4 := src
	if len(src4) != 4 {
		src4 = p.bytes(4)
	}
	goSteer := path == "go" && kf2 && p.intn(8) != 0
	mk := func(ip []byte, plen int) rng { return rng{IP: maskTo(ip, plen), Plen: plen} }
	plenRnd := func() int {
		switch p.intn(4) {
		case 0:
			return []int{0, 1, 7, 8, 9, 15, 16, 17, 23, 24, 25, 31, 32}[p.intn(13)]
		}
		return p.intn(33)
	}
	switch rc {
	case "cover":
		pl := plenRnd()
		if goSteer {
			pl = 0 // with host-order keys only /0 (and 0.0.0.0/p) still mean what was written
		}
		ranges = []rng{mk(src4, pl)}
	case "near": // the range that differs from the source in the last prefix bit
		pl := 1 + p.intn(32)
		ranges = []rng{mk(flipBit(src4, pl-1), pl)}
	case "bound-only": // covers the bound address, not the source (if they differ in the prefix)
		pl := 8 + p.intn(25)
		ranges = []rng{mk(b4, pl)}
	case "multi":
		for i := 0; i < 3; i++ {
			ranges = append(ranges, mk(p.bytes(4), 4+p.intn(29)))
		}
		if p.intn(2) == 0 {
			ranges = append(ranges, mk(src4, 9+p.intn(24)))
		}
		if p.intn(2) == 0 {
			pl := 1 + p.intn(32)
			ranges = append(ranges, mk(flipBit(src4, pl-1), pl))
		}
	case "host":
		ranges = []rng{mk(src4, 32)}
		if p.intn(3) == 0 {
			ranges = []rng{mk(flipBit(src4, 31), 32)}
		}
	case "all":
		ranges = []rng{mk(p.bytes(4), 0)}
	}
	if goSteer && rc != "none" && rc != "cover" && rc != "all" {
		// replace by ranges whose host-order encoding is the same bytes: 0.0.0.0/p and palindromic /32
		ranges = []rng{mk([]byte{0, 0, 0, 0}, 1+p.intn(8))}
		if len(src) == 4 && src[0] == src[3] && src[1] == src[2] {
			ranges = append(ranges, mk(src, 32))
		}
	}

	if path == "raw" {
		st := &rawState{DefMode: def, Log: lg, Ranges: ranges}
		if bs.present {
			rb := &rawBind{Mac: 0, Addr4: b4, Addr6: b6, Mode: mode}
			// the address bytes stay in place even when the valid flag is clear (stale content must not count)
			if bs.v4 {
				rb.V4 = 1
			}
			if bs.v6 {
				rb.V6 = 1
			}
			st.Bind = rb
		}
		tc.Raw = st
		tc.Ops = []op{{K: "probe", Frame: fr}}
		return tc
	}
	// go path: the same state through the control plane
	init := uint8(1 + p.intn(3))
	tc.Init = init
	cur := init
	setMode := func(m uint8) {
		if cur != m || p.intn(4) == 0 {
			tc.Ops = append(tc.Ops, op{K: "mode", Mode: m})
			cur = m
		}
	}
	for _, r := range ranges {
		tc.Ops = append(tc.Ops, op{K: "range", IP: r.IP, Plen: r.Plen})
	}
	if bs.present {
		setMode(mode)
		switch {
		case bs.v4 && bs.v6:
			tc.Ops = append(tc.Ops, op{K: "add4", Mac: 0, IP: b4, F16: p.intn(2) == 0}, op{K: "add6", Mac: 0, IP: b6})
		case bs.v4:
			tc.Ops = append(tc.Ops, op{K: "add4", Mac: 0, IP: b4, F16: p.intn(2) == 0})
		case bs.v6:
			tc.Ops = append(tc.Ops, op{K: "add6", Mac: 0, IP: b6})
		default:
			tc.Ops = append(tc.Ops, op{K: "add4nil", Mac: 0})
		}
		// another subscriber's binding must not matter
		if p.intn(3) == 0 {
			tc.Ops = append(tc.Ops, op{K: "add4", Mac: 1, IP: append([]byte(nil), src4...)})
		}
	}
	setMode(def)
	tc.Ops = append(tc.Ops, op{K: "probe", Frame: fr})
	return tc
}
