package c18

// The oracle: the C18 statement as a pure function.  Nothing here is derived from bpf/antispoof.c.
//
//   strict   : frame forwarded  <=>  its IPv4/IPv6 source address equals the address bound to the
//              sender's MAC for that family (no address bound for the family => nothing can equal it => dropped)
//   log-only : always forwarded (every frame, any ethertype, any length)
//   loose    : forwarded <=> the source lies in an allowed range (IPv4: the control plane only has IPv4
//              ranges; IPv6 in loose mode is NOT asserted)
//   disabled : "no validation" (ModeDisabled) => forwarded
//
// Not asserted (the statement is silent): non-IP ethertypes and frames too short to carry the full
// IPv4/IPv6 header under strict/loose (incl. 802.1Q/802.1ad in-line tagged frames: whether in-line tags
// are in scope is not stated), mode bytes outside 0..3, IPv6 under loose.

const (
	modeDisabled = 0
	modeStrict   = 1
	modeLoose    = 2
	modeLogOnly  = 3
)

const (
	etIPv4 = 0x0800
	etIPv6 = 0x86dd
	etARP  = 0x0806
	etQ    = 0x8100
	etAD   = 0x88a8
)

const (
	famNone = 0
	famV4   = 4
	famV6   = 6
)

func modeName(m uint8) string {
	switch m {
	case modeDisabled:
		return "disabled"
	case modeStrict:
		return "strict"
	case modeLoose:
		return "loose"
	case modeLogOnly:
		return "log-only"
	}
	return "invalid"
}

type rng struct {
	IP   hexb `json:"ip"`
	Plen int  `json:"plen"`
}

// prefixMatch: the first plen bits of a and b agree.
func prefixMatch(a, b []byte, plen int) bool {
	for i := 0; i < plen; i++ {
		if (a[i/8]>>(7-uint(i%8)))&1 != (b[i/8]>>(7-uint(i%8)))&1 {
			return false
		}
	}
	return true
}

func inRanges(src []byte, rs []rng) bool {
	for _, r := range rs {
		if prefixMatch(src, r.IP, r.Plen) {
			return true
		}
	}
	return false
}

func rev4(b []byte) []byte { return []byte{b[3], b[2], b[1], b[0]} }

// family of the frame as far as the statement is concerned: the frame carries a complete IPv4/IPv6
// header directly after an untagged Ethernet header.
func frameFamily(f *frame) int {
	switch {
	case f.Et == etIPv4 && f.Len >= 14+20:
		return famV4
	case f.Et == etIPv6 && f.Len >= 14+40:
		return famV6
	}
	return famNone
}

// expect evaluates the statement for one frame.  b4/b6 = address bound to the sender's MAC for the
// family (nil = none).
func expect(mode uint8, f *frame, b4, b6 []byte, ranges []rng) (forward, asserted bool) {
	fam := frameFamily(f)
	switch mode {
	case modeDisabled, modeLogOnly:
		return true, true
	case modeStrict:
		switch fam {
		case famV4:
			return b4 != nil && string(b4) == string(f.Src), true
		case famV6:
			return b6 != nil && string(b6) == string(f.Src), true
		}
	case modeLoose:
		if fam == famV4 {
			return inRanges(f.Src, ranges), true
		}
	}
	return false, false
}
