package c18

// Degenerate values of every generated dimension.
//
// Near-misses of a random bound address (equal / reversed / one bit off / random) never produce the values
// that a program can confuse with "nothing there": the zero value of a field, all-ones, and the special-purpose
// ranges.  Every dimension therefore also takes the degenerate values of its type:
//
//   source and bound address   0.0.0.0, 255.255.255.255, loopback, multicast, link-local, x.y.z.0 / 0.0.0.x;
//                              ::, ff..ff, ::1, ff02::1, fe80::, v4-mapped
//   MAC                        00:00:00:00:00:00, ff:ff:ff:ff:ff:ff
//   mode bytes                 0 and 255 (binding and default)
//   prefix lengths             0 and 32
//   valid flag vs. address     valid = 0 with a non-zero address field (raw layout only: the manager cannot write
//                              it), valid = 1 with an all-zero address field (manager: AddBinding(mac, 0.0.0.0),
//                              AddBindingV6(mac, ::); and raw)
//
// The oracle is unchanged: an address is an address (0.0.0.0 bound => exactly 0.0.0.0 is the subscriber's
// source), and without a valid binding for the family strict mode drops every source, 0.0.0.0 and :: included.
// degenerateClasses labels what a case contains ("degenerate:<which>"), whichever generator produced it.

import (
	"bytes"
	"fmt"

	"pgregory.net/rapid"
)

var (
	zero4 = []byte{0, 0, 0, 0}
	ones4 = []byte{255, 255, 255, 255}
	zero6 = make([]byte, 16)
	ones6 = bytes.Repeat([]byte{255}, 16)
	zeroM = make([]byte, 6)
	onesM = bytes.Repeat([]byte{255}, 6)
)

// special-purpose addresses other than all-zero / all-ones
var special4 = [][]byte{
	{127, 0, 0, 1}, {127, 255, 255, 255}, // loopback
	{224, 0, 0, 1}, {239, 255, 255, 250}, // multicast
	{169, 254, 0, 1},                     // link-local
	{0, 0, 0, 1}, {0, 1, 2, 3},           // 0.0.0.0/8 "this network"
	{10, 0, 0, 0}, {192, 168, 1, 0}, {1, 0, 0, 0}, // zero low bytes
	{255, 255, 255, 254}, {255, 0, 0, 0}, {128, 0, 0, 0}, {240, 0, 0, 1},
}

func v6(prefix []byte, last byte) []byte {
	b := make([]byte, 16)
	copy(b, prefix)
	b[15] = last
	return b
}

var special6 = [][]byte{
	v6(nil, 1),                      // ::1
	v6([]byte{0xff, 0x02}, 1),       // ff02::1
	v6([]byte{0xff, 0x02}, 2),       // ff02::2
	v6([]byte{0xfe, 0x80}, 0),       // fe80::
	v6([]byte{0xfe, 0x80}, 1),       // fe80::1
	append(append(make([]byte, 10), 0xff, 0xff), 0, 0, 0, 0),     // ::ffff:0.0.0.0
	append(append(make([]byte, 10), 0xff, 0xff), 10, 0, 0, 1),    // ::ffff:10.0.0.1
	v6([]byte{0x20, 0x01, 0x0d, 0xb8}, 0),                        // 2001:db8::
	append(make([]byte, 8), 255, 255, 255, 255, 255, 255, 255, 255), // ::ffff:ffff:ffff:ffff (zero upper half)
	append(bytes.Repeat([]byte{255}, 8), make([]byte, 8)...),     // ffff:ffff:ffff:ffff:: (zero lower half)
	v6([]byte{0x80}, 0),                                          // 8000::
}

func zeros(n int) []byte { return make([]byte, n) }
func ones(n int) []byte  { return bytes.Repeat([]byte{255}, n) }

func specialOf(n int, p *prng) []byte {
	if n == 4 {
		return append([]byte(nil), special4[p.intn(len(special4))]...)
	}
	return append([]byte(nil), special6[p.intn(len(special6))]...)
}

func isZero(b []byte) bool { return len(b) > 0 && bytes.Equal(b, zeros(len(b))) }
func isOnes(b []byte) bool { return len(b) > 0 && bytes.Equal(b, ones(len(b))) }

func isSpecial(b []byte) bool {
	tbl := special4
	if len(b) == 16 {
		tbl = special6
	}
	for _, s := range tbl {
		if bytes.Equal(b, s) {
			return true
		}
	}
	return false
}

// addrKind names the degenerate kind of an address ("" = ordinary).
func addrKind(b []byte) string {
	switch {
	case len(b) != 4 && len(b) != 16:
		return ""
	case isZero(b):
		return "zero"
	case isOnes(b):
		return "ones"
	case isSpecial(b):
		return "special"
	}
	return ""
}

// degenerateClasses inspects a finished case (any generator) and labels the degenerate values it contains.
func degenerateClasses(tc *tcase) []string {
	set := map[string]bool{}
	// "degenerate:<group>" plus the detail "degenerate:<group>=<value>"
	add := func(group, f string, a ...any) {
		set["degenerate:"+group] = true
		set["degenerate:"+group+"="+fmt.Sprintf(f, a...)] = true
	}
	fam := func(b []byte) string {
		if len(b) == 16 {
			return "v6"
		}
		return "v4"
	}
	// bound addresses currently in force per MAC (go path: replayed from the ops; raw: the one binding)
	type bnd struct{ v4, v6 []byte }
	cur := map[int]*bnd{}
	get := func(m int) *bnd {
		if cur[m] == nil {
			cur[m] = &bnd{}
		}
		return cur[m]
	}
	modeByte := func(m uint8) {
		if m == 0 || m == 255 {
			add("mode-byte", "%d", m)
		}
	}
	if st := tc.Raw; st != nil {
		modeByte(st.DefMode)
		if b := st.Bind; b != nil {
			modeByte(b.Mode)
			if b.V4 != 0 {
				get(b.Mac).v4 = b.Addr4
				if isZero(b.Addr4) {
					add("valid-flag-vs-address", "valid1-addr-zero-v4")
				}
			} else if !isZero(b.Addr4) {
				add("valid-flag-vs-address", "valid0-addr-nonzero-v4")
			}
			if b.V6 != 0 {
				get(b.Mac).v6 = b.Addr6
				if isZero(b.Addr6) {
					add("valid-flag-vs-address", "valid1-addr-zero-v6")
				}
			} else if !isZero(b.Addr6) {
				add("valid-flag-vs-address", "valid0-addr-nonzero-v6")
			}
			if b.V4 == 0 && b.V6 == 0 && isZero(b.Addr4) && isZero(b.Addr6) && b.Mode == 0 {
				add("valid-flag-vs-address", "binding-value-all-zero")
			}
		}
		for _, r := range st.Ranges {
			if r.Plen == 0 || r.Plen == 32 {
				add("prefix-length", "%d", r.Plen)
			}
			if k := addrKind(r.IP); k != "" && r.Plen > 0 {
				add("range-base", "%s", k)
			}
		}
	}
	for i := range tc.Ops {
		p := &tc.Ops[i]
		switch p.K {
		case "mode":
			modeByte(p.Mode)
		case "add4":
			get(p.Mac).v4 = p.IP
			if isZero(p.IP) {
				add("valid-flag-vs-address", "valid1-addr-zero-v4")
			}
		case "add4nil":
			get(p.Mac).v4 = nil
		case "add6":
			get(p.Mac).v6 = p.IP
			if isZero(p.IP) {
				add("valid-flag-vs-address", "valid1-addr-zero-v6")
			}
		case "del":
			delete(cur, p.Mac)
		case "range":
			if p.Plen == 0 || p.Plen == 32 {
				add("prefix-length", "%d", p.Plen)
			}
			if k := addrKind(p.IP); k != "" && p.Plen > 0 {
				add("range-base", "%s", k)
			}
		case "probe":
			f := p.Frame
			if bytes.Equal(tc.Macs[f.Mac], zeroM) {
				add("mac", "zero")
			}
			if bytes.Equal(tc.Macs[f.Mac], onesM) {
				add("mac", "ones")
			}
			if frameFamily(f) == famNone {
				continue
			}
			if k := addrKind(f.Src); k != "" {
				add("src-address", "%s", k)
				add("src-address", "%s-%s", k, fam(f.Src))
			}
			b := cur[f.Mac]
			var bound []byte
			if b != nil {
				bound = b.v4
				if len(f.Src) == 16 {
					bound = b.v6
				}
			}
			if k := addrKind(bound); k != "" {
				add("bound-address", "%s", k)
				add("bound-address", "%s-%s", k, fam(bound))
			}
			if bound == nil && (isZero(f.Src) || isOnes(f.Src)) {
				add("src-address", "%s-without-valid-binding", addrKind(f.Src))
			}
		}
	}
	out := make([]string, 0, len(set))
	for c := range set {
		out = append(out, c)
	}
	return out
}

// ---- rapid generators for the control-plane histories -------------------------------------------------

func genAddr(rt *rapid.T, label string, n int) []byte {
	switch rapid.IntRange(0, 11).Draw(rt, label+"-kind") {
	case 0:
		return zeros(n)
	case 1:
		return ones(n)
	case 2:
		if n == 4 {
			return append([]byte(nil), rapid.SampledFrom(special4).Draw(rt, label+"-special")...)
		}
		return append([]byte(nil), rapid.SampledFrom(special6).Draw(rt, label+"-special")...)
	}
	return rapid.SliceOfN(rapid.Byte(), n, n).Draw(rt, label)
}
