package c18

// TestPropControlPlane: rapid-generated control-plane histories against the real manager on real kernel
// maps ("bindings added or removed through the control plane take effect exactly as written"): after
// every few calls the kernel maps are copied into the runner and probe frames from bound, re-bound,
// removed and never-bound MACs are judged by the model of case_test.go.

import (
	"testing"

	"pgregory.net/rapid"

	"bngverif/internal/vstat"
)

func genMAC(rt *rapid.T, label string) hexb {
	switch rapid.IntRange(0, 7).Draw(rt, label+"-kind") { // degenerate MACs: all-zero (key 0 of the bindings map) and all-ones
	case 0:
		return zeros(6)
	case 1:
		return ones(6)
	}
	b := rapid.SliceOfN(rapid.Byte(), 6, 6).Draw(rt, label)
	b[0] &^= 1
	return b
}

func genV4(rt *rapid.T, label string, palin bool) []byte {
	if !palin {
		return genAddr(rt, label, 4) // random, or a degenerate value of the type (degen_test.go)
	}
	b := rapid.SliceOfN(rapid.Byte(), 4, 4).Draw(rt, label)
	if palin {
		if b[0] == 0 {
			b[0] = 10
		}
		b[3], b[2] = b[0], b[1]
	}
	return b
}

func TestPropControlPlane(t *testing.T) {
	vstat.Checks(2500, 60000)
	e := newEnv(t)
	kf1, kf2, kf4 := vstat.IsListed(sigGoBindOrder), vstat.IsListed(sigGoRangeOrder), vstat.IsListed(sigAdd4ClearsV6)
	rapid.Check(t, func(rt *rapid.T) {
		tc := &tcase{Path: "go", Gen: "history"}
		nmac := rapid.IntRange(2, 4).Draw(rt, "nmac")
		for i := 0; i < nmac; i++ {
			m := genMAC(rt, "mac")
			for again := true; again; { // distinct MACs (also after shrinking towards all-zero)
				again = false
				for j := range tc.Macs {
					if string(tc.Macs[j]) == string(m) {
						m[5]++
						again = true
					}
				}
			}
			tc.Macs = append(tc.Macs, m)
		}
		tc.Init = uint8(rapid.IntRange(1, 3).Draw(rt, "init"))
		// what the generator remembers (not the oracle): addresses ever bound, per family
		type mem struct {
			v4, v6   []byte
			hasV6    bool
			old4     [][]byte
			old6     [][]byte
			bound    bool
			everUsed bool
		}
		ms := make([]mem, nmac)
		var ranges []rng
		// steering around the listed Go encoding findings (a slice of the cases still exercises them)
		palin := kf1 && rapid.IntRange(0, 7).Draw(rt, "steer-kf1") != 0
		rangeSteer := kf2 && rapid.IntRange(0, 7).Draw(rt, "steer-kf2") != 0
		v6Steer := kf4 && rapid.IntRange(0, 7).Draw(rt, "steer-kf4") != 0
		nops := rapid.IntRange(2, 16).Draw(rt, "nops")
		modesW := []uint8{modeStrict, modeStrict, modeStrict, modeStrict, modeLoose, modeLoose, modeLogOnly, modeDisabled, 255}
		for i := 0; i < nops; i++ {
			k := rapid.SampledFrom([]string{"add4", "add4", "add4", "add6", "add6", "del", "mode", "range", "add4nil"}).Draw(rt, "op")
			mac := rapid.IntRange(0, nmac-1).Draw(rt, "opmac")
			if k == "add4nil" && rapid.IntRange(0, 3).Draw(rt, "nil?") != 0 {
				k = "add4"
			}
			if k == "add4" && v6Steer && ms[mac].hasV6 {
				k = "add6"
			}
			switch k {
			case "mode":
				m := rapid.SampledFrom(modesW).Draw(rt, "mode")
				tc.Ops = append(tc.Ops, op{K: "mode", Mode: m})
			case "add4":
				ip := genV4(rt, "ip4", palin)
				if ms[mac].v4 != nil {
					ms[mac].old4 = append(ms[mac].old4, ms[mac].v4)
				}
				ms[mac].v4, ms[mac].bound = ip, true
				tc.Ops = append(tc.Ops, op{K: "add4", Mac: mac, IP: ip, F16: rapid.Bool().Draw(rt, "f16")})
			case "add4nil":
				if ms[mac].v4 != nil {
					ms[mac].old4 = append(ms[mac].old4, ms[mac].v4)
				}
				ms[mac].v4, ms[mac].bound = nil, true
				tc.Ops = append(tc.Ops, op{K: "add4nil", Mac: mac})
			case "add6":
				ip := genAddr(rt, "ip6", 16)
				if ms[mac].v6 != nil {
					ms[mac].old6 = append(ms[mac].old6, ms[mac].v6)
				}
				ms[mac].v6, ms[mac].hasV6, ms[mac].bound = ip, true, true
				tc.Ops = append(tc.Ops, op{K: "add6", Mac: mac, IP: ip})
			case "del":
				if ms[mac].v4 != nil {
					ms[mac].old4 = append(ms[mac].old4, ms[mac].v4)
				}
				if ms[mac].v6 != nil {
					ms[mac].old6 = append(ms[mac].old6, ms[mac].v6)
				}
				ms[mac].v4, ms[mac].v6, ms[mac].hasV6, ms[mac].bound = nil, nil, false, false
				tc.Ops = append(tc.Ops, op{K: "del", Mac: mac})
			case "range":
				var r rng
				if rangeSteer {
					switch rapid.IntRange(0, 2).Draw(rt, "rkind") {
					case 0:
						r = rng{IP: []byte{0, 0, 0, 0}, Plen: rapid.IntRange(0, 8).Draw(rt, "plen")}
					case 1:
						r = rng{IP: genV4(rt, "rip", true), Plen: 32}
					default:
						r = rng{IP: []byte{0, 0, 0, 0}, Plen: 0}
					}
				} else {
					pl := rapid.OneOf(rapid.IntRange(0, 32), rapid.SampledFrom([]int{0, 32, 32, 31, 1, 8})).Draw(rt, "plen")
					base := genV4(rt, "rip", false)
					if ms[mac].v4 != nil && rapid.Bool().Draw(rt, "around-bound") {
						base = ms[mac].v4
					}
					r = rng{IP: maskTo(base, pl), Plen: pl}
				}
				ranges = append(ranges, r)
				tc.Ops = append(tc.Ops, op{K: "range", IP: r.IP, Plen: r.Plen})
			}
			// probes after the call
			np := rapid.IntRange(0, 3).Draw(rt, "nprobe")
			for j := 0; j < np; j++ {
				pm := mac
				if rapid.IntRange(0, 2).Draw(rt, "othermac") == 0 {
					pm = rapid.IntRange(0, nmac-1).Draw(rt, "pmac")
				}
				v6 := rapid.IntRange(0, 2).Draw(rt, "pfam") == 0
				var src []byte
				cur, olds := ms[pm].v4, ms[pm].old4
				size := 4
				if v6 {
					cur, olds, size = ms[pm].v6, ms[pm].old6, 16
				}
				switch rapid.SampledFrom([]string{"bound", "bound", "old", "other-mac", "bit", "range", "rnd", "zero", "ones", "special"}).Draw(rt, "psrc") {
				case "bound":
					src = cur
				case "old":
					if len(olds) > 0 {
						src = olds[rapid.IntRange(0, len(olds)-1).Draw(rt, "oldi")]
					}
				case "other-mac":
					o := ms[(pm+1)%nmac]
					if v6 {
						src = o.v6
					} else {
						src = o.v4
					}
				case "bit":
					if cur != nil {
						src = flipBit(cur, rapid.IntRange(0, size*8-1).Draw(rt, "bit"))
					}
				case "zero":
					src = zeros(size)
				case "ones":
					src = ones(size)
				case "special":
					if v6 {
						src = rapid.SampledFrom(special6).Draw(rt, "special6")
					} else {
						src = rapid.SampledFrom(special4).Draw(rt, "special4")
					}
				case "range":
					if !v6 && len(ranges) > 0 {
						r := ranges[rapid.IntRange(0, len(ranges)-1).Draw(rt, "ri")]
						src = append([]byte(nil), r.IP...)
						host := rapid.SliceOfN(rapid.Byte(), 4, 4).Draw(rt, "host")
						for b := r.Plen; b < 32; b++ {
							src[b/8] |= host[b/8] & (0x80 >> uint(b%8))
						}
						if r.Plen > 0 && rapid.IntRange(0, 3).Draw(rt, "miss") == 0 {
							src = flipBit(src, r.Plen-1)
						}
					}
				}
				if src == nil {
					src = genAddr(rt, "rndsrc", size)
				}
				et, ln := uint16(etIPv4), rapid.SampledFrom([]int{34, 60, 98, 1514}).Draw(rt, "len")
				if v6 {
					et, ln = etIPv6, rapid.SampledFrom([]int{54, 74, 118, 1514}).Draw(rt, "len6")
				}
				tc.Ops = append(tc.Ops, op{K: "probe", Frame: &frame{Mac: pm, Et: et, Src: append([]byte(nil), src...), Len: ln,
					Fill: rapid.Uint64().Draw(rt, "fill")}})
			}
		}
		// always end with one probe per MAC of its current bound address (if any)
		for pm := range ms {
			if ms[pm].v4 != nil {
				tc.Ops = append(tc.Ops, op{K: "probe", Frame: &frame{Mac: pm, Et: etIPv4, Src: ms[pm].v4, Len: 60, Fill: uint64(pm)}})
			}
			if ms[pm].v6 != nil {
				tc.Ops = append(tc.Ops, op{K: "probe", Frame: &frame{Mac: pm, Et: etIPv6, Src: ms[pm].v6, Len: 74, Fill: uint64(pm)}})
			}
		}
		o := runCase(rt, e, tc, false)
		// shape classes of the history
		seen := map[string]bool{}
		hadDel, hadRebind := false, false
		for _, p := range tc.Ops {
			switch p.K {
			case "del":
				hadDel = true
			case "add4", "add6":
				if seen[p.K+string(rune('0'+p.Mac))] {
					hadRebind = true
				}
				seen[p.K+string(rune('0'+p.Mac))] = true
			}
		}
		if hadDel {
			o.class("history:remove")
		}
		if hadRebind {
			o.class("history:rebind")
		}
		if palin {
			o.class("steer:palindromic-v4")
		}
		for _, c := range degenerateClasses(tc) {
			o.class(c)
		}
		record(tc, o)
	})
}
