package c18

import (
	"encoding/binary"
	"encoding/hex"
	"encoding/json"
	"fmt"
	"net"
	"os"
	"path/filepath"
	"strings"

	"github.com/codelaboratoryltd/bng/pkg/antispoof"

	"bngverif/internal/bpfnative"
	"bngverif/internal/vstat"
)

// hexb is a byte string that is written as hex in replay files.
type hexb []byte

func (h hexb) MarshalJSON() ([]byte, error) { return json.Marshal(hex.EncodeToString(h)) }
func (h *hexb) UnmarshalJSON(b []byte) error {
	var s string
	if err := json.Unmarshal(b, &s); err != nil {
		return err
	}
	v, err := hex.DecodeString(s)
	*h = v
	return err
}

// frame describes one probe frame; buildFrame turns it into bytes.
type frame struct {
	Mac   int    `json:"mac"`             // index into tcase.Macs (source MAC)
	Et    uint16 `json:"et"`              // outer ethertype
	Inner uint16 `json:"inner,omitempty"` // ethertype after the tag for 802.1Q/802.1ad frames
	Src   hexb   `json:"src,omitempty"`   // IP source (4 or 16 bytes) placed in the IP header
	Len   int    `json:"len"`             // frame length (header truncated / payload padded)
	Fill  uint64 `json:"fill"`            // seed of all remaining bytes
}

// op is one control-plane call (go path) or a probe.
type op struct {
	K     string `json:"k"` // mode | add4 | add4nil | add6 | del | range | probe
	Mac   int    `json:"mac,omitempty"`
	Mode  uint8  `json:"mode,omitempty"`
	IP    hexb   `json:"ip,omitempty"`
	Plen  int    `json:"plen,omitempty"`
	F16   bool   `json:"f16,omitempty"` // add4: pass the 16-byte form net.ParseIP returns instead of 4 bytes
	Frame *frame `json:"frame,omitempty"`
}

// rawState is map content written directly in the layout the C program declares (network-order
// addresses), independent of the Go manager's encoding.
type rawState struct {
	DefMode uint8    `json:"def_mode"`
	Log     uint8    `json:"log"`
	Bind    *rawBind `json:"bind,omitempty"`
	Ranges  []rng    `json:"ranges,omitempty"`
}

type rawBind struct {
	Mac   int   `json:"mac"`
	Addr4 hexb  `json:"addr4"`
	Addr6 hexb  `json:"addr6"`
	V4    uint8 `json:"v4valid"`
	V6    uint8 `json:"v6valid"`
	Mode  uint8 `json:"mode"`
}

type tcase struct {
	Path string    `json:"path"` // "go": state written by the real manager into kernel maps; "raw": C layout written by the harness
	Gen  string    `json:"gen"`
	Macs []hexb    `json:"macs"`
	Init uint8     `json:"init,omitempty"` // go: ManagerConfig.DefaultMode
	Raw  *rawState `json:"raw,omitempty"`
	Ops  []op      `json:"ops"`
}

func (tc *tcase) fingerprint() uint64 {
	b, _ := json.Marshal(struct {
		P string
		M []hexb
		I uint8
		R *rawState
		O []op
	}{tc.Path, tc.Macs, tc.Init, tc.Raw, tc.Ops})
	return vstat.Hash(b)
}

func buildFrame(f *frame, macs []hexb) []byte {
	p := prng{s: f.Fill}
	n := f.Len
	if n < 64 {
		n = 64
	}
	b := p.bytes(n + 64)
	b[0] &^= 1 // unicast destination
	copy(b[6:12], macs[f.Mac])
	binary.BigEndian.PutUint16(b[12:], f.Et)
	l3 := 14
	et := f.Et
	if f.Et == etQ || f.Et == etAD {
		binary.BigEndian.PutUint16(b[16:], f.Inner)
		l3, et = 18, f.Inner
	}
	switch {
	case et == etIPv4 && len(f.Src) == 4:
		b[l3] = 0x45
		binary.BigEndian.PutUint16(b[l3+2:], uint16(max(f.Len-l3, 20)))
		b[l3+6] &= 0x40 // no fragment offset
		b[l3+7] = 0
		copy(b[l3+12:], f.Src)
	case et == etIPv6 && len(f.Src) == 16:
		b[l3] = 0x60 | b[l3]&0x0f
		binary.BigEndian.PutUint16(b[l3+4:], uint16(max(f.Len-l3-40, 0)))
		copy(b[l3+8:], f.Src)
	}
	return b[:f.Len]
}

func macKey(mac []byte) []byte {
	var v uint64
	for _, x := range mac {
		v = v<<8 | uint64(x)
	}
	return binary.LittleEndian.AppendUint64(nil, v)
}

func le32(v uint32) []byte { return binary.LittleEndian.AppendUint32(nil, v) }

// loadRaw writes st into the runner maps in the C layout.
func loadRaw(e *env, tc *tcase) {
	st := tc.Raw
	must := func(err error) {
		if err != nil {
			inconclusive("harness state does not fit the C declaration: %v", err)
		}
	}
	must(e.c.ClearMaps())
	must(e.c.LoadMap(mapConfig, le32(0), []byte{st.DefMode, st.Log, 0, 0, 0, 0, 0, 0}))
	if b := st.Bind; b != nil {
		v := make([]byte, 24)
		copy(v[0:4], b.Addr4)
		copy(v[4:20], b.Addr6)
		v[20], v[21], v[22] = b.V4, b.V6, b.Mode
		must(e.c.LoadMap(mapBindings, macKey(tc.Macs[b.Mac]), v))
	}
	for _, r := range st.Ranges {
		must(e.c.LoadMap(mapRanges, append(le32(uint32(r.Plen)), r.IP...), []byte{1}))
	}
}

// ---- model of the control plane, written from the API documentation ---------------------------------
//
// NewManager(DefaultMode d) / SetMode(m): the manager's mode; it is the default for MACs without a
// binding and the mode recorded in a binding when it is written.  AddBinding(mac, v4) "adds or updates
// a subscriber's allowed source address" (IPv4); AddBindingV6 "adds an IPv6 binding for a subscriber"
// and explicitly preserves the existing binding, i.e. the two families are independent parts of one
// binding: neither call removes what the other wrote.  RemoveBinding removes the whole binding.
// AddAllowedRange adds an IPv4 prefix for loose mode (there is no removal).

type mbind struct {
	v4, v6 []byte
	mode   uint8
	v6old  bool // AddBinding was called after the v6 address was bound (and v6 not re-added since)
}

type model struct {
	cur    uint8
	b      map[int]*mbind
	ranges []rng
}

type outcome struct {
	nontrivial bool
	classes    []string
	sigs       []string
	abandoned  bool
}

func (o *outcome) class(c string) {
	for _, x := range o.classes {
		if x == c {
			return
		}
	}
	o.classes = append(o.classes, c)
}

var violSeq int

// report routes a violation through the known-finding registry.  Unlisted ones found by the plain
// enumerations are first saved as a replayable JSON case (rapid properties have their own fail file).
func report(t vstat.Fataler, tc *tcase, save bool, o *outcome, sig, format string, args ...any) bool {
	t.Helper()
	o.sigs = append(o.sigs, sig)
	if save && !vstat.IsListed(sig) {
		if dir := os.Getenv("VERIF_OUT"); dir != "" {
			_ = os.MkdirAll(filepath.Join(dir, "violations"), 0o755)
			b, _ := json.MarshalIndent(map[string]any{"case": tc, "signature": sig, "detail": fmt.Sprintf(format, args...)}, "", " ")
			violSeq++
			name := fmt.Sprintf("TestReplayCases__%s_%03d.json", strings.NewReplacer("/", "_", ":", "_").Replace(sig), violSeq)
			_ = os.WriteFile(filepath.Join(dir, "violations", name), b, 0o644)
		}
	}
	cj, _ := json.Marshal(tc)
	if vstat.Fail(t, sig, format+"\n  case: %s", append(args, string(cj))...) {
		o.abandoned = true
		o.class("kf:" + sig)
		return true
	}
	return false
}

func verdictName(v int32) string {
	switch v {
	case bpfnative.TCActOK:
		return "forwarded"
	case bpfnative.TCActShot:
		return "dropped"
	}
	return fmt.Sprintf("verdict%d", v)
}

func fwdName(f bool) string {
	if f {
		return "forward"
	}
	return "drop"
}

// probe runs one frame and applies the oracle.  modes = candidate modes in force (normally one).
// diag maps a wrong verdict to a more specific signature (or "").
func probe(t vstat.Fataler, e *env, tc *tcase, save bool, o *outcome, f *frame, modes []uint8, b4, b6 []byte, ranges []rng,
	bound bool, diag func(mode uint8, got, want bool) string) bool {
	t.Helper()
	fb := buildFrame(f, tc.Macs)
	opts := bpfnative.DefaultOpts()
	opts.Ifindex = 2
	res, err := e.c.Run(prog, fb, opts)
	if err != nil {
		inconclusive("runner: %v", err)
	}
	if res.Fault.Kind == bpfnative.FaultDied || res.Fault.Kind == bpfnative.FaultTimeout {
		inconclusive("native runner died / timed out on a C18 frame (C07 decides memory safety): %s", res.Fault.Msg)
	}
	if res.Fault.Faulted() {
		return report(t, tc, save, o, fmt.Sprintf("C18/fault/kind%d", res.Fault.Kind), "program faulted: %s", res.Fault.String())
	}
	if res.Verdict != bpfnative.TCActOK && res.Verdict != bpfnative.TCActShot {
		return report(t, tc, save, o, "C18/verdict-undefined", "verdict %d is neither TC_ACT_OK nor TC_ACT_SHOT", res.Verdict)
	}
	if string(res.Out) != string(fb) {
		return report(t, tc, save, o, "C18/frame-modified", "antispoof_ingress modified the frame")
	}
	got := res.Verdict == bpfnative.TCActOK
	fam := frameFamily(f)
	famS := map[int]string{famNone: "nonip", famV4: "v4", famV6: "v6"}[fam]
	// with two candidate readings the verdict must agree with one of them; if the statement is silent
	// under either reading nothing is asserted
	anyAsserted, ok := true, false
	var want bool
	for _, m := range modes {
		w, asserted := expect(m, f, b4, b6, ranges)
		if !asserted {
			anyAsserted = false
			break
		}
		want = w
		if w == got {
			ok = true
		}
	}
	mn := modeName(modes[0])
	o.class("mode:" + mn)
	o.class("fam:" + famS)
	if len(modes) > 1 {
		o.class("mode-reading:either(binding-mode|current-mode)")
	}
	if !anyAsserted {
		o.class("unasserted:" + mn + "/" + etClass(f) + ":" + verdictName(res.Verdict))
		return false
	}
	if len(modes) > 1 {
		o.class("asserted:either-reading/" + mn + "-" + famS)
	} else {
		o.class("asserted:" + mn + "-" + famS + ":" + fwdName(want))
	}
	if bound && (modes[0] == modeStrict || modes[0] == modeLoose) && len(modes) == 1 {
		o.nontrivial = true
		o.class("nt:bound+" + mn)
	}
	if ok {
		return false
	}
	// wrong under every accepted reading.  The signature is derived for the binding's own mode
	// (modes[0]); want is recomputed for it.
	sig := ""
	want, _ = expect(modes[0], f, b4, b6, ranges)
	if diag != nil {
		sig = diag(modes[0], got, want)
	}
	if sig == "" {
		sig = fmt.Sprintf("C18/%s/%s-%s/%s-should-%s", tc.Path, mn, famS, verdictName(res.Verdict), fwdName(want))
	}
	return report(t, tc, save, o, sig, "mode in force %v, bound v4=%x v6=%x, ranges=%v, frame %+v: %s, the statement says %s",
		modes, b4, b6, ranges, *f, verdictName(res.Verdict), fwdName(want))
}

func etClass(f *frame) string {
	switch f.Et {
	case etIPv4:
		return "ipv4-short"
	case etIPv6:
		return "ipv6-or-short"
	case etARP:
		return "arp"
	case etQ, etAD:
		return fmt.Sprintf("tagged(inner %04x)", f.Inner)
	}
	return "other"
}

const (
	sigGoBindOrder  = "C18/go-binding/v4-host-byte-order"
	sigGoRangeOrder = "C18/go-range/v4-host-byte-order"
	sigLooseBound   = "C18/c-loose/v4-binding-shadows-ranges"
	sigAdd4ClearsV6 = "C18/go-binding/add4-clears-v6"
)

// runCase executes a case and returns what was seen.  save: write unlisted violations as JSON replays.
func runCase(t vstat.Fataler, e *env, tc *tcase, save bool) outcome {
	t.Helper()
	var o outcome
	o.class("path:" + tc.Path)
	if tc.Path == "raw" {
		runRaw(t, e, tc, save, &o)
	} else {
		runGo(t, e, tc, save, &o)
	}
	return o
}

func runRaw(t vstat.Fataler, e *env, tc *tcase, save bool, o *outcome) {
	t.Helper()
	loadRaw(e, tc)
	st := tc.Raw
	for i := range tc.Ops {
		p := &tc.Ops[i]
		if p.K != "probe" {
			continue
		}
		f := p.Frame
		mode := st.DefMode
		var b4, b6 []byte
		bound := false
		if st.Bind != nil && st.Bind.Mac == f.Mac {
			bound = true
			mode = st.Bind.Mode
			if st.Bind.V4 != 0 {
				b4 = st.Bind.Addr4
			}
			if st.Bind.V6 != 0 {
				b6 = st.Bind.Addr6
			}
		}
		if bound {
			o.class("binding:present")
		} else {
			o.class("binding:absent")
		}
		diag := func(mode uint8, got, want bool) string {
			if mode == modeLoose && b4 != nil && frameFamily(f) == famV4 && want && !got {
				return sigLooseBound
			}
			return ""
		}
		if probe(t, e, tc, save, o, f, []uint8{mode}, b4, b6, st.Ranges, bound, diag) {
			return
		}
	}
}

func runGo(t vstat.Fataler, e *env, tc *tcase, save bool, o *outcome) {
	t.Helper()
	e.resetKernel()
	mgr, err := e.newManager(tc.Init)
	if err != nil {
		report(t, tc, save, o, "C18/go/api-error/new", "NewManager/config write failed: %v", err)
		return
	}
	md := model{cur: tc.Init, b: map[int]*mbind{}}
	dirty := true
	for i := range tc.Ops {
		p := &tc.Ops[i]
		var err error
		switch p.K {
		case "mode":
			err = mgr.SetMode(antispoof.Mode(p.Mode))
			md.cur = p.Mode
		case "add4", "add4nil":
			var ip net.IP
			if p.K == "add4" {
				ip = net.IP(append([]byte(nil), p.IP...))
				if p.F16 {
					ip = ip.To16()
				}
			}
			err = mgr.AddBinding(net.HardwareAddr(append([]byte(nil), tc.Macs[p.Mac]...)), ip)
			b := md.b[p.Mac]
			if b == nil {
				b = &mbind{}
				md.b[p.Mac] = b
			}
			b.v4 = nil
			if p.K == "add4" {
				b.v4 = p.IP
			}
			b.mode = md.cur
			b.v6old = b.v6 != nil
		case "add6":
			err = mgr.AddBindingV6(net.HardwareAddr(append([]byte(nil), tc.Macs[p.Mac]...)), net.IP(append([]byte(nil), p.IP...)))
			b := md.b[p.Mac]
			if b == nil {
				b = &mbind{}
				md.b[p.Mac] = b
			}
			b.v6 = p.IP
			b.mode = md.cur
			b.v6old = false
		case "del":
			err = mgr.RemoveBinding(net.HardwareAddr(append([]byte(nil), tc.Macs[p.Mac]...)))
			delete(md.b, p.Mac)
		case "range":
			n := &net.IPNet{IP: net.IP(append([]byte(nil), p.IP...)), Mask: net.CIDRMask(p.Plen, 32)}
			err = mgr.AddAllowedRange(n)
			md.ranges = append(md.ranges, rng{IP: p.IP, Plen: p.Plen})
		case "probe":
			if dirty {
				e.syncToRunner()
				dirty = false
			}
			f := p.Frame
			b := md.b[f.Mac]
			modes := []uint8{md.cur}
			var b4, b6 []byte
			if b != nil {
				o.class("binding:present")
				b4, b6 = b.v4, b.v6
				modes = []uint8{b.mode}
				if b.mode != md.cur {
					// the binding was written under another mode than the manager's current one: the
					// statement does not say whether SetMode re-modes existing bindings; either reading is accepted
					modes = append(modes, md.cur)
				}
				if b4 != nil && b6 != nil {
					o.class("binding:v4+v6")
				}
			} else {
				o.class("binding:absent")
			}
			ranges := md.ranges
			diag := func(mode uint8, got, want bool) string {
				switch fam := frameFamily(f); {
				case fam == famV4 && mode == modeStrict && b4 != nil && got == (string(rev4(b4)) == string(f.Src)):
					return sigGoBindOrder
				case fam == famV4 && mode == modeLoose && b4 != nil && want && !got:
					return sigLooseBound
				case fam == famV4 && mode == modeLoose && b4 == nil:
					var rr []rng
					for _, r := range ranges {
						rr = append(rr, rng{IP: rev4(r.IP), Plen: r.Plen})
					}
					if got == inRanges(f.Src, rr) {
						return sigGoRangeOrder
					}
				case fam == famV6 && mode == modeStrict && b != nil && b.v6old && want && !got:
					return sigAdd4ClearsV6
				}
				return ""
			}
			if probe(t, e, tc, save, o, f, modes, b4, b6, ranges, b != nil, diag) {
				return
			}
			continue
		default:
			inconclusive("bad op %q in case", p.K)
		}
		dirty = true
		o.class("op:" + p.K)
		if err != nil {
			report(t, tc, save, o, "C18/go/api-error/"+p.K, "control-plane call %s(%+v) with valid arguments failed: %v", p.K, *p, err)
			return
		}
	}
}
