// Package c18 decides C18 ("a subscriber can only source traffic from its bound address"):
// the natively compiled TC program bpf/antispoof.c:antispoof_ingress runs on generated frames over
// map contents that the real Go manager (pkg/antispoof) wrote into real kernel maps, and its
// verdict is compared with the statement evaluated as a pure function (oracle_test.go).
package c18

import (
	"fmt"
	"hash/fnv"
	"os"
	"testing"

	"github.com/cilium/ebpf"
	"go.uber.org/zap"

	"github.com/codelaboratoryltd/bng/pkg/antispoof"

	"bngverif/internal/bpfnative"
	"bngverif/internal/vstat"
)

func TestMain(m *testing.M) { vstat.Main(m, "C18") }

const prog = "antispoof_ingress"

const (
	mapBindings = "subscriber_bindings"
	mapConfig   = "antispoof_config"
	mapStats    = "antispoof_stats"
	mapRanges   = "allowed_ranges_v4"
)

func inconclusive(format string, args ...any) {
	fmt.Fprintf(os.Stderr, "INCONCLUSIVE: "+format+"\n", args...)
	vstat.Flush()
	os.Exit(3)
}

// env is one native runner plus the four real kernel maps (C-declared geometry) the Go manager writes.
type env struct {
	c              *bpfnative.Client
	kb, kc, ks, kr *ebpf.Map
}

func newEnv(t testing.TB) *env {
	c, err := bpfnative.Start()
	if err != nil {
		inconclusive("cannot start the native runner: %v", err)
	}
	t.Cleanup(func() { c.Close() })
	if _, ok := c.Prog(prog); !ok {
		inconclusive("runner has no program %s", prog)
	}
	e := &env{c: c}
	mk := func(name string, max uint32) *ebpf.Map {
		m, err := c.NewKernelMap(name, max)
		if err != nil {
			inconclusive("cannot create kernel map %s: %v", name, err)
		}
		t.Cleanup(func() { m.Close() })
		return m
	}
	e.kb = mk(mapBindings, 64)
	e.kc = mk(mapConfig, 0)
	e.ks = mk(mapStats, 0)
	e.kr = mk(mapRanges, 0)
	return e
}

func clearKernelMap(m *ebpf.Map) {
	for i := 0; i < 1<<16; i++ {
		k, err := m.NextKeyBytes(nil)
		if err != nil {
			inconclusive("iterate kernel map: %v", err)
		}
		if k == nil {
			return
		}
		if err := m.Delete(k); err != nil {
			inconclusive("delete from kernel map: %v", err)
		}
	}
	inconclusive("kernel map does not drain")
}

// resetKernel empties the kernel maps (array slot zeroed) so that cases share nothing.
func (e *env) resetKernel() {
	clearKernelMap(e.kb)
	clearKernelMap(e.kr)
	if err := e.kc.Put(uint32(0), make([]byte, e.kc.ValueSize())); err != nil {
		inconclusive("zero config slot: %v", err)
	}
}

// newManager builds the real manager the way cmd/bng does (NewManager with a default mode) and gives
// it the kernel maps instead of the ones Start would take from the loaded object, then performs
// Start's configuration write.
func (e *env) newManager(initMode uint8) (*antispoof.Manager, error) {
	m, err := antispoof.NewManager(antispoof.ManagerConfig{Interface: "verif0", DefaultMode: antispoof.Mode(initMode), LogEnabled: true}, zap.NewNop())
	if err != nil {
		return nil, err
	}
	m.VerifSetMaps(e.kb, e.kc, e.ks, e.kr)
	if err := m.VerifStartConfig(); err != nil {
		return nil, err
	}
	return m, nil
}

// syncToRunner copies the kernel maps raw into the runner: the C program sees exactly the bytes the
// kernel holds.
func (e *env) syncToRunner() {
	for _, p := range []struct {
		m *ebpf.Map
		n string
	}{{e.kb, mapBindings}, {e.kc, mapConfig}, {e.kr, mapRanges}} {
		if _, err := e.c.CopyKernelMap(p.m, p.n); err != nil {
			if ge, ok := err.(*bpfnative.GeometryError); ok {
				inconclusive("harness geometry: %v", ge)
			}
			inconclusive("copy kernel map %s: %v", p.n, err)
		}
	}
}

func seedFor(name string) uint64 {
	h := fnv.New64a()
	h.Write([]byte(name))
	return vstat.Seed() ^ h.Sum64()
}

// prng is a splitmix64 stream used by the plain enumerations (seeded from vstat.Seed only).
type prng struct{ s uint64 }

func (p *prng) u64() uint64 {
	p.s += 0x9e3779b97f4a7c15
	z := p.s
	z = (z ^ (z >> 30)) * 0xbf58476d1ce4e5b9
	z = (z ^ (z >> 27)) * 0x94d049bb133111eb
	return z ^ (z >> 31)
}
func (p *prng) intn(n int) int { return int(p.u64() % uint64(n)) }
func (p *prng) bytes(n int) []byte {
	b := make([]byte, n)
	for i := range b {
		b[i] = byte(p.u64())
	}
	return b
}
