package c18

// Minimal reproductions of the listed known findings of C18 plus the JSON replay loader.  Each asserts
// through the same signature as the generated search: silent while the finding is listed, failing
// (VIOLATION sig=...) if it is unlisted / reappears after a fix was reverted.

import (
	"encoding/json"
	"fmt"
	"os"
	"path/filepath"
	"sort"
	"testing"

	"bngverif/internal/vstat"
)

var replayMacs = []hexb{{0xaa, 0xbb, 0xcc, 0xdd, 0xee, 0xff}, {0x02, 0x11, 0x22, 0x33, 0x44, 0x55}}

func v4frame(mac int, src ...byte) *frame {
	return &frame{Mac: mac, Et: etIPv4, Src: src, Len: 60, Fill: 1}
}

func record(tc *tcase, o outcome) {
	vstat.Case(o.nontrivial, tc.fingerprint(), func() any { return tc }, o.classes...)
}

func replayOne(t *testing.T, e *env, tc *tcase, wantSig string) {
	t.Helper()
	o := runCase(t, e, tc, false)
	record(tc, o)
	if wantSig != "" && vstat.IsListed(wantSig) {
		fired := false
		for _, s := range o.sigs {
			fired = fired || s == wantSig
		}
		if !fired {
			vstat.Note("stale:"+tc.Gen, "listed finding "+wantSig+" no longer fires")
		}
	}
}

// KF-C18-1: AddBinding stores the IPv4 address as a host-order integer; the C program compares the map
// bytes with ip->saddr (network order).  Strict mode drops the subscriber's own address ...
func TestReplayGoBindingDropsBoundSource(t *testing.T) {
	e := newEnv(t)
	replayOne(t, e, &tcase{Path: "go", Gen: "replay:kf1-bound-source-dropped", Macs: replayMacs, Init: modeStrict, Ops: []op{
		{K: "add4", Mac: 0, IP: hexb{10, 0, 1, 100}},
		{K: "probe", Frame: v4frame(0, 10, 0, 1, 100)},
	}}, sigGoBindOrder)
}

// ... and forwards the byte-reversed address.
func TestReplayGoBindingForwardsReversedSource(t *testing.T) {
	e := newEnv(t)
	replayOne(t, e, &tcase{Path: "go", Gen: "replay:kf1-reversed-source-forwarded", Macs: replayMacs, Init: modeStrict, Ops: []op{
		{K: "add4", Mac: 0, IP: hexb{10, 0, 1, 100}},
		{K: "probe", Frame: v4frame(0, 100, 1, 0, 10)},
	}}, sigGoBindOrder)
}

// KF-C18-2: AddAllowedRange stores the prefix as a host-order integer; the LPM trie matches the leading
// bits of the bytes.  10.0.0.0/8 admits 0.x.y.z and rejects 10.x.y.z.
func TestReplayGoRangeRejectsMember(t *testing.T) {
	e := newEnv(t)
	replayOne(t, e, &tcase{Path: "go", Gen: "replay:kf2-member-dropped", Macs: replayMacs, Init: modeLoose, Ops: []op{
		{K: "range", IP: hexb{10, 0, 0, 0}, Plen: 8},
		{K: "probe", Frame: v4frame(1, 10, 1, 2, 3)},
	}}, sigGoRangeOrder)
}

func TestReplayGoRangeAdmitsOutsider(t *testing.T) {
	e := newEnv(t)
	replayOne(t, e, &tcase{Path: "go", Gen: "replay:kf2-outsider-forwarded", Macs: replayMacs, Init: modeLoose, Ops: []op{
		{K: "range", IP: hexb{10, 0, 0, 0}, Plen: 8},
		{K: "probe", Frame: v4frame(1, 0, 1, 2, 3)},
	}}, sigGoRangeOrder)
}

// KF-C18-3: loose mode + a binding with a valid IPv4 address never consults the allowed ranges: every
// IPv4 frame of that subscriber is dropped (C layout written directly: independent of the Go encoding).
func TestReplayLooseBoundIgnoresRanges(t *testing.T) {
	e := newEnv(t)
	replayOne(t, e, &tcase{Path: "raw", Gen: "replay:kf3-loose-bound", Macs: replayMacs,
		Raw: &rawState{DefMode: modeLoose, Log: 1,
			Bind:   &rawBind{Mac: 0, Addr4: hexb{10, 0, 1, 100}, Addr6: make(hexb, 16), V4: 1, Mode: modeLoose},
			Ranges: []rng{{IP: hexb{10, 0, 0, 0}, Plen: 8}}},
		Ops: []op{{K: "probe", Frame: v4frame(0, 10, 0, 1, 100)}}}, sigLooseBound)
}

// KF-C18-4: AddBinding after AddBindingV6 writes a fresh struct: the IPv6 binding is gone and the
// subscriber's bound IPv6 source is dropped in strict mode.
func TestReplayAddBindingClearsV6(t *testing.T) {
	e := newEnv(t)
	v6 := hexb{0x20, 0x01, 0x0d, 0xb8, 0, 0, 0, 0, 0, 0, 0, 0, 0, 0, 0, 1}
	replayOne(t, e, &tcase{Path: "go", Gen: "replay:kf4-add4-clears-v6", Macs: replayMacs, Init: modeStrict, Ops: []op{
		{K: "add6", Mac: 0, IP: v6},
		{K: "probe", Frame: &frame{Mac: 0, Et: etIPv6, Src: v6, Len: 74, Fill: 2}},
		{K: "add4", Mac: 0, IP: hexb{10, 1, 1, 10}},
		{K: "probe", Frame: &frame{Mac: 0, Et: etIPv6, Src: v6, Len: 74, Fill: 2}},
	}}, sigAdd4ClearsV6)
}

// TestReplayCases runs every JSON case of replays/C18 (or the one given by ./check --replay).
func TestReplayCases(t *testing.T) {
	var files []string
	if f := os.Getenv("VERIF_REPLAY_FILE"); f != "" {
		files = []string{f}
	} else {
		files, _ = filepath.Glob(filepath.Join(os.Getenv("VERIF_REPLAYS"), "*.json"))
		sort.Strings(files)
	}
	if len(files) == 0 {
		return
	}
	e := newEnv(t)
	for _, f := range files {
		b, err := os.ReadFile(f)
		if err != nil {
			t.Fatalf("read %s: %v", f, err)
		}
		var doc struct {
			Case      tcase  `json:"case"`
			Signature string `json:"signature"`
		}
		if err := json.Unmarshal(b, &doc); err != nil {
			t.Fatalf("parse %s: %v", f, err)
		}
		doc.Case.Gen = "replay:" + filepath.Base(f)
		replayOne(t, e, &doc.Case, doc.Signature)
	}
}

// TestReplayDegenerate: fixed regression cases around the degenerate values of the address type (the zero value
// of a map field is also a legal source address).  No finding is listed for them: the oracle must simply hold.
func TestReplayDegenerate(t *testing.T) {
	e := newEnv(t)
	z6, o6 := hexb(zeros(16)), hexb(ones(16))
	b6 := hexb{0x20, 0x01, 0x0d, 0xb8, 0, 0, 0, 0, 0, 0, 0, 0, 0, 0, 0, 1}
	v4probes := []op{
		{K: "probe", Frame: v4frame(0, 0, 0, 0, 0)},
		{K: "probe", Frame: v4frame(0, 255, 255, 255, 255)},
		{K: "probe", Frame: v4frame(0, 10, 0, 1, 100)},
		{K: "probe", Frame: v4frame(1, 0, 0, 0, 0)}, // a MAC without any binding
	}
	v6probes := []op{
		{K: "probe", Frame: &frame{Mac: 0, Et: etIPv6, Src: z6, Len: 74, Fill: 2}},
		{K: "probe", Frame: &frame{Mac: 0, Et: etIPv6, Src: o6, Len: 74, Fill: 2}},
		{K: "probe", Frame: &frame{Mac: 0, Et: etIPv6, Src: b6, Len: 74, Fill: 2}},
		{K: "probe", Frame: &frame{Mac: 1, Et: etIPv6, Src: z6, Len: 74, Fill: 2}},
	}
	probes := append(append([]op{}, v4probes...), v6probes...)
	with := func(ops ...op) []op { return append(ops, probes...) }
	macSets := [][]hexb{replayMacs, {hexb(zeros(6)), replayMacs[1]}, {hexb(ones(6)), hexb(zeros(6))}}
	for mi, macs := range macSets {
		cases := []*tcase{
			// control plane: IPv6-only subscriber, binding cleared, address 0.0.0.0 / :: really bound
			{Path: "go", Init: modeStrict, Ops: with(op{K: "add6", Mac: 0, IP: b6})},
			{Path: "go", Init: modeStrict, Ops: with(op{K: "add4", Mac: 0, IP: hexb{10, 0, 1, 100}}, op{K: "add4nil", Mac: 0})},
			{Path: "go", Init: modeStrict, Ops: with(op{K: "add4", Mac: 0, IP: hexb{10, 0, 1, 100}}, op{K: "add6", Mac: 0, IP: b6}, op{K: "del", Mac: 0})},
			{Path: "go", Init: modeStrict, Ops: with(op{K: "add4", Mac: 0, IP: hexb{0, 0, 0, 0}})},
			{Path: "go", Init: modeStrict, Ops: with(op{K: "add4", Mac: 0, IP: hexb{255, 255, 255, 255}, F16: true}, op{K: "add6", Mac: 0, IP: z6})},
			{Path: "go", Init: modeStrict, Ops: with(op{K: "add6", Mac: 0, IP: o6})},
			{Path: "go", Init: modeStrict, Ops: with()}, // nothing bound at all, strict default
			{Path: "go", Init: modeLoose, Ops: with(op{K: "add4", Mac: 0, IP: hexb{0, 0, 0, 0}})},
			{Path: "go", Init: modeLoose, Ops: with(op{K: "range", IP: hexb{0, 0, 0, 0}, Plen: 32}, op{K: "range", IP: hexb{255, 255, 255, 255}, Plen: 32})},
			// C layout: valid flag clear over a non-zero address field, valid flag set over an all-zero one
			{Path: "raw", Raw: &rawState{DefMode: modeDisabled, Log: 1, Bind: &rawBind{Mac: 0, Addr4: hexb{10, 0, 1, 100}, Addr6: b6, V4: 0, V6: 0, Mode: modeStrict}}, Ops: probes},
			{Path: "raw", Raw: &rawState{DefMode: modeDisabled, Log: 0, Bind: &rawBind{Mac: 0, Addr4: hexb{0, 0, 0, 0}, Addr6: z6, V4: 1, V6: 1, Mode: modeStrict}}, Ops: probes},
			{Path: "raw", Raw: &rawState{DefMode: modeStrict, Log: 1, Bind: &rawBind{Mac: 0, Addr4: hexb{0, 0, 0, 0}, Addr6: z6, V4: 0, V6: 0, Mode: modeStrict}}, Ops: probes},
			{Path: "raw", Raw: &rawState{DefMode: modeStrict, Log: 1, Bind: &rawBind{Mac: 0, Addr4: hexb{255, 255, 255, 255}, Addr6: o6, V4: 1, V6: 1, Mode: modeStrict}}, Ops: probes},
			{Path: "raw", Raw: &rawState{DefMode: modeStrict, Log: 1}, Ops: probes},
		}
		for ci, tc := range cases {
			tc.Macs = macs
			tc.Gen = fmt.Sprintf("replay:degenerate-%d-%d", mi, ci)
			o := runCase(t, e, tc, false)
			for _, c := range degenerateClasses(tc) {
				o.class(c)
			}
			record(tc, o)
		}
	}
}
