package c02

import (
	"bytes"
	"encoding/hex"
	"fmt"
	"net"
	"os"
	"sort"
	"strings"
	"testing"
	"testing/synctest"
	"time"

	"github.com/codelaboratoryltd/bng/pkg/dhcp"
	"github.com/codelaboratoryltd/bng/pkg/ebpf"
	"github.com/insomniacslk/dhcp/dhcpv4"
	"go.uber.org/zap"
	"pgregory.net/rapid"

	"bngverif/internal/vstat"
)

// ---------------------------------------------------------------------------
// signatures (protocol / kind / op shape)

const (
	// an ACK names a value that is bound (unexpired) to a different client
	sigV4AckForeign = "C02/v4/ack-foreign-address/" // + unsolicited-REQUEST | REQUEST-while-bound | after-OFFER
	// an ACK names a value that is under an outstanding OFFER to a different client
	sigV4AckForeignOffer = "C02/v4/ack-foreign-offer/" // + unsolicited-REQUEST | after-OFFER/holder-reoffered-expired-lease | after-OFFER/holder-fresh-offer
	// an OFFER/ACK names gateway / network / broadcast / reserved address (inside the CIDR, not servable)
	sigV4Unusable = "C02/v4/unusable-address/" // + OFFER | ACK/unsolicited-REQUEST | ACK/after-OFFER
	// an OFFER/ACK names an address outside the pool's network
	sigV4Outside = "C02/v4/outside-pool/" // + OFFER | ACK/...
	// a declined address appears again in an OFFER/ACK
	sigV4Declined = "C02/v4/declined-offered-again/" // + after-ACK | after-OFFER-only, + /to-the-decliner | /to-another-client
	// the lease table holds two unexpired entries with one address
	sigV4TableDup = "C02/v4/lease-table-duplicate/" // + same-circuit | distinct-clients
	// a client renewing its own unexpired binding is not answered with the same value
	sigV4Renew = "C02/v4/renew-not-same/" // + nak | no-reply | other-value
	// a value that must be available again is not obtained by the drain probe
	sigV4NotAvail = "C02/v4/not-available-again/" // + released | expired | abandoned-offer
	// an ACK hands a value to a second client after the server ACKed that value to a client it had never
	// allocated it to (the binding exists only in the lease table, the pool still considers the value free)
	sigV4Unrecorded = "C02/v4/double-handout/after-unrecorded-binding"
	// a violation on a value that was handed to a sender the server identified through its circuit-id
	// only, or whose holder changed circuit-id (the circuit-id secondary index is then stale)
	sigV4Circuit = "C02/v4/double-handout/after-circuit-id-rebinding"
	// a violation on a value after it was ACKed to the replacement CPE of the line that holds it
	// (the old MAC's lease entry and pool allocation stay behind)
	sigV4Swap  = "C02/v4/double-handout/after-cpe-swap"
	sigV4Panic = "C02/v4/handler-panic"
)

// the signatures caused by "a REQUEST from a client without a lease is only checked with pool.Contains"
var v4UnsolicitedFamily = []string{
	sigV4AckForeign + "unsolicited-REQUEST",
	sigV4AckForeignOffer + "unsolicited-REQUEST",
	sigV4Unusable + "ACK/unsolicited-REQUEST",
	sigV4Unrecorded,
}

var v4CircuitFamily = []string{sigV4TableDup + "same-circuit", sigV4Circuit, sigV4Swap}

func anyListed(sigs ...string) bool {
	for _, s := range sigs {
		if vstat.IsListed(s) {
			return true
		}
	}
	return false
}

// ---------------------------------------------------------------------------
// pool geometry

type v4cfg struct {
	Bits     int     `json:"bits"`
	Base     [4]byte `json:"base"`
	GwMode   int     `json:"gw"` // 0 first host, 1 last host, 2 host GwIdx, 3 outside the network
	GwIdx    int     `json:"gwidx,omitempty"`
	ResStart int     `json:"rs,omitempty"`
	ResEnd   int     `json:"re,omitempty"`
	LeaseSec int     `json:"lease"`
	K        int     `json:"k"`
	// Access is each client's attachment: direct | relay (giaddr, no option 82) | relay82 | relay82long (over-long circuit-id).
	// Empty = all direct.
	Access []string `json:"access,omitempty"`
}

func (c v4cfg) access(i int) string {
	if i < len(c.Access) && c.Access[i] != "" {
		return c.Access[i]
	}
	return "direct"
}

type v4geom struct {
	cfg       v4cfg
	network   *net.IPNet
	netIP     net.IP
	bcast     net.IP
	gateway   net.IP
	serverIP  net.IP
	usable    []string
	usableSet map[string]bool
	reserved  []string
	lease     time.Duration
}

func ip4add(base net.IP, i int) net.IP {
	b := base.To4()
	v := uint32(b[0])<<24 | uint32(b[1])<<16 | uint32(b[2])<<8 | uint32(b[3])
	v += uint32(i)
	return net.IPv4(byte(v>>24), byte(v>>16), byte(v>>8), byte(v)).To4()
}

func newV4Geom(c v4cfg) *v4geom {
	g := &v4geom{cfg: c, usableSet: map[string]bool{}, lease: time.Duration(c.LeaseSec) * time.Second}
	mask := net.CIDRMask(c.Bits, 32)
	g.netIP = net.IPv4(c.Base[0], c.Base[1], c.Base[2], c.Base[3]).To4().Mask(mask)
	g.network = &net.IPNet{IP: g.netIP, Mask: mask}
	n := 1 << (32 - c.Bits)
	hosts := n - 2
	g.bcast = ip4add(g.netIP, n-1)
	switch c.GwMode {
	case 0:
		g.gateway = ip4add(g.netIP, 1)
	case 1:
		g.gateway = ip4add(g.netIP, hosts)
	case 2:
		g.gateway = ip4add(g.netIP, 1+c.GwIdx%hosts)
	default:
		g.gateway = net.IPv4(10, 254, 254, 1).To4()
	}
	g.serverIP = g.gateway
	// the serving pool per the configuration's own words: hosts 1..n-2 minus the
	// first ResStart, the last ResEnd ("reserved IPs to exclude from allocation") and the gateway
	for i := 1; i <= hosts; i++ {
		ip := ip4add(g.netIP, i)
		if i <= c.ResStart || i > hosts-c.ResEnd {
			g.reserved = append(g.reserved, ip.String())
			continue
		}
		if ip.Equal(g.gateway) {
			continue
		}
		g.usable = append(g.usable, ip.String())
		g.usableSet[ip.String()] = true
	}
	return g
}

func (g *v4geom) poolConfig() dhcp.PoolConfig {
	return dhcp.PoolConfig{
		ID: 1, Name: "default", Network: g.network.String(), Gateway: g.gateway.String(),
		DNSServers: []string{"9.9.9.9"}, LeaseTime: g.lease, ClientClass: dhcp.ClientClassResidential,
		ReservedStart: g.cfg.ResStart, ReservedEnd: g.cfg.ResEnd,
	}
}

// classify says why an address may not be handed out ("" = fine).
func (g *v4geom) unusableKind(ip net.IP) string {
	s := ip.String()
	switch {
	case !g.network.Contains(ip):
		return "outside-pool"
	case ip.Equal(g.netIP):
		return "network"
	case ip.Equal(g.bcast):
		return "broadcast"
	case ip.Equal(g.gateway):
		return "gateway"
	case !g.usableSet[s]:
		return "reserved"
	}
	return ""
}

func genV4Cfg(kMin int) *rapid.Generator[v4cfg] {
	return rapid.Custom(func(t *rapid.T) v4cfg {
		c := v4cfg{}
		c.Bits = rapid.SampledFrom([]int{29, 29, 29, 29, 28, 28, 28, 27, 27, 26, 25, 24}).Draw(t, "bits")
		c.Base = [4]byte{10, byte(rapid.IntRange(0, 3).Draw(t, "b1")), byte(rapid.IntRange(0, 255).Draw(t, "b2")), byte(rapid.IntRange(0, 255).Draw(t, "b3"))}
		hosts := (1 << (32 - c.Bits)) - 2
		c.GwMode = rapid.SampledFrom([]int{0, 0, 0, 0, 1, 2, 2, 3}).Draw(t, "gwMode")
		if c.GwMode == 2 {
			c.GwIdx = rapid.IntRange(0, hosts-1).Draw(t, "gwIdx")
		}
		if rapid.IntRange(0, 2).Draw(t, "hasReserved") == 0 {
			maxRes := hosts - 3
			if maxRes > 12 {
				maxRes = 12
			}
			c.ResStart = rapid.IntRange(0, maxRes).Draw(t, "resStart")
			c.ResEnd = rapid.IntRange(0, maxRes-c.ResStart).Draw(t, "resEnd")
		}
		c.LeaseSec = rapid.OneOf(rapid.SampledFrom([]int{60, 60, 61, 120, 600, 3600}), rapid.IntRange(60, 3600)).Draw(t, "lease")
		c.K = rapid.SampledFrom([]int{1, 2, 2, 2, 3, 3, 3, 3, 4, 4, 4}).Draw(t, "k")
		if c.K < kMin {
			c.K = kMin
		}
		for i := 0; i < c.K; i++ {
			c.Access = append(c.Access, rapid.SampledFrom([]string{"direct", "direct", "relay82", "relay82", "relay82", "relay", "relay82long"}).Draw(t, "access"))
		}
		return c
	})
}

// ---------------------------------------------------------------------------
// clients and ops

func v4mac(i int, alt bool) net.HardwareAddr {
	a := byte(0)
	if alt {
		a = 1
	}
	return net.HardwareAddr{0x02, 0, 0, 0, a, byte(i + 1)}
}

func v4cid(i int) []byte { return []byte(fmt.Sprintf("olt1/1/1/%d:100", i+1)) }

func v4longCid(i int) []byte {
	return append(bytes.Repeat([]byte{'L'}, 199), byte('0'+i))
}

var relayAddr = net.IPv4(10, 255, 0, 1).To4()

type v4op struct {
	Kind  string `json:"k"`              // discover request dora release decline inform advance cleanup
	C     int    `json:"c"`              // client index
	Alt   bool   `json:"alt,omitempty"`  // replacement CPE: new MAC, same circuit
	Tr    string `json:"tr,omitempty"`   // own (the client's access path) unicast (straight to the server, no relay) | explicit: direct relay relay82 relay82other relay82long direct82
	Other int    `json:"oth,omitempty"`  // offset selecting the other client (relay82other)
	Tgt   string `json:"tgt,omitempty"`  // offer mine foreign random gateway network broadcast outside reserved
	Shape string `json:"sh,omitempty"`   // selecting initreboot renewing
	Aux   int    `json:"aux,omitempty"`  // index for random choices made at execution time
	Delta string `json:"d,omitempty"`    // 1s half full

	inDora bool // second half of a dora macro (never converted back)
}

func (o v4op) String() string {
	switch o.Kind {
	case "advance":
		return "advance(" + o.Delta + ")"
	case "cleanup":
		return "cleanupTick"
	}
	s := fmt.Sprintf("%s c%d", o.Kind, o.C)
	if o.Alt {
		s += "'"
	}
	if o.Tr != "" && o.Tr != "direct" && o.Tr != "own" {
		s += " via " + o.Tr
		if o.Tr == "relay82other" {
			s += fmt.Sprintf("(+%d)", o.Other)
		}
	}
	if o.Kind == "request" || o.Kind == "decline" {
		s += " tgt=" + o.Tgt
		if o.Tgt == "random" || o.Tgt == "foreign" {
			s += fmt.Sprintf("#%d", o.Aux)
		}
	}
	if o.Kind == "request" {
		s += " " + o.Shape
	}
	return s
}

func genV4Op(k int) *rapid.Generator[v4op] {
	kinds := []string{
		"discover", "discover", "discover", "discover",
		"dora", "dora", "dora",
		"request", "request", "request", "request", "request", "request", "request",
		"release", "release",
		"decline",
		"inform",
		"advance", "advance", "advance", "advance",
		"cleanup", "cleanup",
	}
	trs := []string{"own", "own", "own", "own", "own", "own", "own", "own", "own", "unicast", "unicast", "relay82other", "relay82long", "direct82", "relay82", "direct"}
	tgts := []string{"offer", "offer", "offer", "offer", "mine", "mine", "mine", "foreign", "foreign", "foreign", "random", "random", "gateway", "network", "broadcast", "outside", "reserved"}
	return rapid.Custom(func(t *rapid.T) v4op {
		o := v4op{Kind: rapid.SampledFrom(kinds).Draw(t, "kind")}
		switch o.Kind {
		case "advance":
			o.Delta = rapid.SampledFrom([]string{"1s", "half", "half", "full", "full"}).Draw(t, "delta")
			return o
		case "cleanup":
			return o
		}
		o.C = rapid.IntRange(0, k-1).Draw(t, "client")
		o.Tr = rapid.SampledFrom(trs).Draw(t, "transport")
		if o.Tr == "relay82other" {
			o.Other = rapid.IntRange(1, 3).Draw(t, "other")
		}
		o.Alt = rapid.IntRange(0, 11).Draw(t, "alt") == 0
		switch o.Kind {
		case "request":
			o.Tgt = rapid.SampledFrom(tgts).Draw(t, "target")
			o.Shape = rapid.SampledFrom([]string{"selecting", "selecting", "initreboot", "renewing", "renewing"}).Draw(t, "shape")
			o.Aux = rapid.IntRange(0, 15).Draw(t, "aux")
		case "decline":
			o.Tgt = rapid.SampledFrom([]string{"mine", "mine", "mine", "offer", "foreign", "random"}).Draw(t, "target")
			o.Aux = rapid.IntRange(0, 15).Draw(t, "aux")
		}
		return o
	})
}

// ---------------------------------------------------------------------------
// capture connection

type capConn struct {
	out [][]byte
	dst []net.Addr
}

func (c *capConn) WriteTo(b []byte, a net.Addr) (int, error) {
	c.out = append(c.out, append([]byte(nil), b...))
	c.dst = append(c.dst, a)
	return len(b), nil
}
func (c *capConn) ReadFrom([]byte) (int, net.Addr, error) { return 0, nil, net.ErrClosed }
func (c *capConn) Close() error                           { return nil }
func (c *capConn) LocalAddr() net.Addr                    { return &net.UDPAddr{IP: net.IPv4zero, Port: 67} }
func (c *capConn) SetDeadline(time.Time) error            { return nil }
func (c *capConn) SetReadDeadline(time.Time) error        { return nil }
func (c *capConn) SetWriteDeadline(time.Time) error       { return nil }

// ---------------------------------------------------------------------------
// monitor (built from what the clients see)
//
// Identity.  A client is a subscriber line.  Line i has a primary device
// (MAC i), a replacement CPE (MAC i', "CPE swap": new MAC, same circuit) and,
// if it is attached through a relay, its circuit-id.  Both devices are the
// same client — the server's own documented notion (circuit-id secondary
// index).  A message whose option 82 does not belong to the sender's own line
// (another line's circuit-id, option 82 without a relay, a circuit-id that is
// not the line's) has no well-defined client: every value such a message can
// touch is marked ambiguous and the monitor makes no claim about it for the
// rest of the case, except the identity-free clause (2) on the lease table.

type v4id struct {
	mac    string
	cid    string // hex circuit-id if the message carries one
	label  string // "c0", "c1'", "f17" …
	client int    // generator client index, 50+i for the replacement CPE of line i, 100+n for drain clients
	line   int    // subscriber line (client index; 100+n for drain clients)
	ambig  bool   // option 82 does not belong to the sender's own line
	relay  bool   // giaddr set
	other  int    // line whose circuit-id the message borrows (-1 if none)
}

type v4val struct {
	kind    string // bound offered released cancelled declined forgotten
	line    int
	lastMAC string
	label   string
	at      time.Time
	expiry  time.Time
	unsol   bool   // the binding was created by a REQUEST for a value the server had not offered to that client
	cleaned bool   // a cleanup tick ran after the binding expired
	how     string // for declined: after-ACK | after-OFFER-only
	reoffer bool   // for offered: the value is the same client's expired (not yet cleaned up) binding, offered again
	cid     string // circuit-id the server has on record for the binding (last one an ACKed message carried)
	tickAt  time.Time // last cleanup tick that ran while this (expired) binding / re-offer was the value's state
}

func (v *v4val) same(s v4id) bool { return v.line == s.line }

type v4offer struct {
	val    string
	at     time.Time
	expiry time.Time // an OFFER is outstanding for one lease time
	cid    string    // circuit-id the DISCOVER carried
	line   int
}

// offeredTo: is val under an outstanding OFFER to s (same MAC, same path as the DISCOVER)?
func (m *v4mon) offeredTo(s v4id, val string, now time.Time) bool {
	o := m.offers[s.mac]
	return o != nil && o.val == val && now.Before(o.expiry) && o.cid == s.cid
}

type v4mon struct {
	g        *v4geom
	vals     map[string]*v4val
	offers   map[string]*v4offer // by MAC
	declBy   map[string]bool     // MACs that declined a value of their own
	declAny  map[string]bool     // values named in any DECLINE (no availability demand on them)
	unrec    map[string]bool     // values that were ACKed to a client the server had not offered them to
	ambig    map[string]bool     // values touched by a message without a well-defined client (sticky)
	swapped  map[string]bool     // values ACKed to the other device of the line that held them (attribution only)
	touched  map[string]map[int]bool
	classes  map[string]bool
	nt       bool
	viol     []violation
	obtained map[string]bool // values ACKed during the drain probe
	draining bool
}

func newV4Mon(g *v4geom) *v4mon {
	return &v4mon{g: g, vals: map[string]*v4val{}, offers: map[string]*v4offer{}, declBy: map[string]bool{}, declAny: map[string]bool{}, unrec: map[string]bool{}, ambig: map[string]bool{}, swapped: map[string]bool{},
		touched: map[string]map[int]bool{}, classes: map[string]bool{}, obtained: map[string]bool{}}
}

func (m *v4mon) fail(sig, f string, a ...any) {
	m.viol = append(m.viol, violation{Sig: sig, Msg: fmt.Sprintf(f, a...)})
}

func (m *v4mon) touch(val string, s v4id) {
	if m.draining {
		return // the probe's own fresh clients do not make a case non-trivial
	}
	t := m.touched[val]
	if t == nil {
		t = map[int]bool{}
		m.touched[val] = t
	}
	t[s.line] = true
	if len(t) >= 2 {
		m.nt = true
		m.classes["nt:two-clients-one-value"] = true
	}
}

// reuseClass records hand-outs of a value another client gave up.
func (m *v4mon) reuseClass(val string, s v4id, now time.Time) {
	st := m.vals[val]
	if st == nil || st.same(s) || m.draining {
		return
	}
	switch {
	case st.kind == "released":
		m.classes["nt:reuse-after-release"] = true
		m.nt = true
	case st.kind == "bound" && now.After(st.expiry):
		m.classes["nt:reuse-after-expiry"] = true
		m.nt = true
	case st.kind == "offered" && now.After(st.expiry), st.kind == "cancelled":
		m.classes["reuse-after-abandoned-offer"] = true
	}
}

func (m *v4mon) boundTo(mac string, now time.Time) (string, *v4val) {
	for _, k := range sortedKeys(m.vals) {
		st := m.vals[k]
		if st.kind == "bound" && st.lastMAC == mac && now.Before(st.expiry) && !m.ambig[k] {
			return k, st
		}
	}
	return "", nil
}

// boundToLine: the unexpired binding of a subscriber line (held by either of its devices).
func (m *v4mon) boundToLine(line int, now time.Time) string {
	for _, k := range sortedKeys(m.vals) {
		st := m.vals[k]
		if st.kind == "bound" && st.line == line && now.Before(st.expiry) && !m.ambig[k] {
			return k
		}
	}
	return ""
}

func (m *v4mon) cancelOffer(mac string, except string) {
	o := m.offers[mac]
	if o == nil {
		return
	}
	if o.val != except {
		if st := m.vals[o.val]; st != nil && st.kind == "offered" && st.lastMAC == mac {
			st.kind = "cancelled"
		}
	}
	delete(m.offers, mac)
}

// markAmbiguous: an ambiguous message is about to be sent / was answered.  Everything it can
// reach in the server is taken out of the oracle: what the sender's line holds or is offered,
// what the line whose circuit-id it borrows holds or is offered, and the values named.
func (m *v4mon) markAmbiguous(s v4id, vals ...string) {
	for _, k := range sortedKeys(m.vals) {
		st := m.vals[k]
		if (st.kind == "bound" || st.kind == "offered") && (st.line == s.line || (s.other >= 0 && st.line == s.other)) {
			m.ambig[k] = true
		}
	}
	for _, v := range vals {
		if v != "" {
			m.ambig[v] = true
		}
	}
	m.classes["ambiguous-identity"] = true
}

func (m *v4mon) usableCheck(ip net.IP, what string) bool {
	k := m.g.unusableKind(ip)
	if k == "" {
		return true
	}
	if k == "outside-pool" {
		m.fail(sigV4Outside+what, "%s names %s which is outside the serving network %s", what, ip, m.g.network)
	} else {
		m.fail(sigV4Unusable+what, "%s names %s which is the pool's %s address (network %s gateway %s reserved %v)", what, ip, k, m.g.network, m.g.gateway, m.g.reserved)
	}
	return false
}

func declTo(st *v4val, s v4id) string {
	if st.same(s) {
		return "/to-the-decliner"
	}
	return "/to-another-client"
}

func (m *v4mon) onOffer(s v4id, ip net.IP, lease time.Duration, now time.Time) {
	val := ip.String()
	if !m.usableCheck(ip, "OFFER") {
		return
	}
	if s.ambig || m.ambig[val] {
		if s.ambig {
			m.markAmbiguous(s, val)
		}
		m.cancelOffer(s.mac, "")
		// remembered only so that the generator can ask for it; no claim is attached to an ambiguous value
		m.offers[s.mac] = &v4offer{val: val, at: now, expiry: now.Add(lease), cid: s.cid, line: s.line}
		return
	}
	if st := m.vals[val]; st != nil && st.kind == "declined" {
		m.fail(sigV4Declined+st.how+declTo(st, s), "OFFER to %s names %s which was declined (%s) by %s", s.label, val, st.how, st.label)
		return
	}
	m.touch(val, s)
	m.reuseClass(val, s, now)
	if o := m.offers[s.mac]; o != nil && o.val != val {
		m.cancelOffer(s.mac, val)
	}
	m.offers[s.mac] = &v4offer{val: val, at: now, expiry: now.Add(lease), cid: s.cid, line: s.line}
	st := m.vals[val]
	if st != nil && st.kind == "bound" && now.Before(st.expiry) {
		return // an unexpired binding dominates; an ACK to a different client would be the violation
	}
	if st != nil && st.kind == "offered" && now.Before(st.expiry) && !st.same(s) {
		return // outstanding offer to somebody else stays the reference
	}
	if st != nil && st.kind == "forgotten" && st.same(s) {
		return // nothing is asserted about this value of the client's
	}
	nv := &v4val{kind: "offered", line: s.line, lastMAC: s.mac, label: s.label, at: now, expiry: now.Add(lease)}
	nv.reoffer = st != nil && st.same(s) && (st.kind == "bound" || st.kind == "forgotten" || (st.kind == "offered" && st.reoffer))
	m.vals[val] = nv
}

func (m *v4mon) onAck(s v4id, ip net.IP, lease time.Duration, now time.Time) {
	val := ip.String()
	offered := m.offeredTo(s, val, now)
	shape := "unsolicited-REQUEST" // from a client that holds nothing
	if mine, _ := m.boundTo(s.mac, now); mine != "" && mine != val {
		shape = "REQUEST-while-bound" // from a client that holds a different, unexpired address
	}
	if offered {
		shape = "after-OFFER"
	}
	if !m.usableCheck(ip, "ACK/"+shape) {
		return
	}
	if s.ambig {
		m.markAmbiguous(s, val)
		delete(m.offers, s.mac)
		return
	}
	if m.ambig[val] {
		m.cancelOffer(s.mac, "")
		return
	}
	st := m.vals[val]
	if st != nil && st.kind == "declined" {
		m.fail(sigV4Declined+st.how+declTo(st, s), "ACK to %s names %s which was declined (%s) by %s", s.label, val, st.how, st.label)
		return
	}
	if st != nil && st.kind == "bound" && now.Before(st.expiry) && !st.same(s) {
		sig := sigV4AckForeign + shape
		if offered && m.unrec[val] {
			sig = sigV4Unrecorded
		} else if m.swapped[val] {
			sig = sigV4Swap
		}
		m.fail(sig, "ACK to %s names %s which is bound to %s until %s (now %s)", s.label, val, st.label, st.expiry.Format("15:04:05"), now.Format("15:04:05"))
		return
	}
	if st != nil && st.kind == "offered" && now.Before(st.expiry) && !st.same(s) {
		sig := sigV4AckForeignOffer + shape
		if offered {
			if st.reoffer {
				sig += "/holder-reoffered-expired-lease"
			} else {
				sig += "/holder-fresh-offer"
			}
			if m.unrec[val] {
				sig = sigV4Unrecorded
			}
		}
		if m.swapped[val] && sig != sigV4Unrecorded {
			sig = sigV4Swap
		}
		m.fail(sig, "ACK to %s names %s which is under an outstanding OFFER to %s (offered %s, now %s)", s.label, val, st.label, st.at.Format("15:04:05"), now.Format("15:04:05"))
		return
	}
	m.touch(val, s)
	m.reuseClass(val, s, now)
	// the device switched to val: a previous binding under this MAC is no longer asserted
	for _, k := range sortedKeys(m.vals) {
		o := m.vals[k]
		if k != val && o.kind == "bound" && o.lastMAC == s.mac {
			o.kind = "forgotten"
		}
	}
	m.cancelOffer(s.mac, val)
	nv := &v4val{kind: "bound", line: s.line, lastMAC: s.mac, label: s.label, at: now, expiry: now.Add(lease), unsol: !offered, cid: s.cid}
	if st != nil && st.kind == "bound" && st.same(s) && !st.cleaned && nv.cid == "" {
		nv.cid = st.cid // the server keeps the circuit-id of the lease when a renewal carries none
	}
	// Attribution of later violations to the listed "unrecorded binding" defect: was this ACK given
	// without the pool recording the value for this device?
	if o := m.offers[s.mac]; offered && o != nil && st != nil && !st.tickAt.IsZero() && !o.at.After(st.tickAt) {
		nv.unsol = true // the OFFER re-used an expired lease's address and a cleanup tick has freed it since
	}
	if st != nil && st.kind == "bound" && !st.cleaned {
		switch {
		case st.lastMAC == s.mac:
			nv.unsol = st.unsol // a renewal by the holder keeps the origin of the binding
		case st.same(s) && s.relay && s.cid != "" && st.cid == s.cid:
			nv.unsol = st.unsol // replacement CPE found through the circuit-id index: the renewal path
		}
	}
	if st != nil && st.kind == "bound" && st.same(s) && st.lastMAC != s.mac {
		m.classes["cpe-swap-acked"] = true
		if vstat.IsListed(sigV4Swap) {
			m.swapped[val] = true // attribution only
		}
	}
	if nv.unsol && vstat.IsListed(sigV4Unrecorded) {
		m.unrec[val] = true // attribution only: re-labels later violations on val to the listed signature
	}
	m.vals[val] = nv
	if m.draining {
		m.obtained[val] = true
	}
}

func (m *v4mon) onRelease(s v4id, now time.Time) {
	if s.ambig {
		m.markAmbiguous(s)
		delete(m.offers, s.mac)
		return
	}
	for _, k := range sortedKeys(m.vals) {
		st := m.vals[k]
		if st.kind != "bound" {
			continue
		}
		if st.lastMAC == s.mac {
			if now.Before(st.expiry) {
				st.kind = "released"
				st.at = now
			} else {
				st.cleaned = true
			}
		} else if st.same(s) {
			st.kind = "forgotten" // released by the line's other device: nothing is asserted about it any more
		}
	}
	// the client released: its own offer is not outstanding any more. An offer made to the line's other device
	// (another MAC) is neither outstanding nor demanded back at once: like that device's bindings above, nothing is
	// asserted about it any more (the statement does not say that one device's RELEASE ends another device's offer).
	for _, mac := range sortedKeys(m.offers) {
		o := m.offers[mac]
		if o.line != s.line {
			continue
		}
		if mac == s.mac {
			m.cancelOffer(mac, "")
			continue
		}
		if st := m.vals[o.val]; st != nil && st.kind == "offered" && st.lastMAC == mac {
			st.kind = "forgotten"
		}
		delete(m.offers, mac)
	}
}

func (m *v4mon) onDecline(s v4id, ip net.IP, now time.Time) {
	val := ""
	if ip != nil {
		val = ip.String()
	}
	m.declAny[val] = true
	if s.ambig {
		m.markAmbiguous(s, val)
		delete(m.offers, s.mac)
		return
	}
	for _, k := range sortedKeys(m.vals) {
		st := m.vals[k]
		if st.kind == "bound" && st.lastMAC == s.mac && k != val {
			st.kind = "forgotten" // the device declined something else: its own binding is in an undefined state
		}
	}
	st := m.vals[val]
	switch {
	case m.ambig[val]:
	case st != nil && st.kind == "bound" && st.lastMAC == s.mac && now.Before(st.expiry):
		st.kind, st.how, st.label = "declined", "after-ACK", s.label
		m.declBy[s.mac] = true
		m.classes["decline-after-ack"] = true
	case st != nil && st.kind == "offered" && st.lastMAC == s.mac && now.Before(st.expiry) && m.offers[s.mac] != nil && m.offers[s.mac].val == val:
		st.kind, st.how, st.label = "declined", "after-OFFER-only", s.label
		m.declBy[s.mac] = true
		m.classes["decline-after-offer"] = true
	case st != nil && st.kind == "bound" && st.same(s):
		st.kind = "forgotten" // declined by the line's other device
	}
	if o := m.offers[s.mac]; o != nil {
		if o.val == val {
			delete(m.offers, s.mac)
		}
		// a DECLINE naming some other value says nothing about the client's outstanding offer: it stays outstanding
		// (and has to come back after one lease time like any abandoned offer)
	}
}

func (m *v4mon) onCleanup(now time.Time) {
	for _, st := range m.vals {
		if st.kind == "bound" && now.After(st.expiry) {
			st.cleaned = true
			st.tickAt = now
		}
		if st.kind == "offered" && st.reoffer {
			st.tickAt = now
		}
	}
}

// checkTable: clause (2) on the server's own lease table (identity-free).
func (m *v4mon) checkTable(ls []dhcp.VerifLease, now time.Time) {
	if os.Getenv("C02_EXPLORE") == "notable" {
		return
	}
	by := map[string][]dhcp.VerifLease{}
	for _, l := range ls {
		if l.Lease.ExpiresAt.After(now) && l.Lease.IP != nil {
			by[l.Lease.IP.String()] = append(by[l.Lease.IP.String()], l)
		}
	}
	for _, ip := range sortedKeys(by) {
		es := by[ip]
		if len(es) < 2 {
			continue
		}
		kind := "distinct-clients"
		if len(es[0].Lease.CircuitID) > 0 && bytes.Equal(es[0].Lease.CircuitID, es[1].Lease.CircuitID) {
			kind = "same-circuit"
		}
		sig := sigV4TableDup + kind
		if m.unrec[ip] {
			sig = sigV4Unrecorded
		} else if m.ambig[ip] {
			sig = sigV4Circuit
		} else if m.swapped[ip] && kind != "same-circuit" {
			sig = sigV4Swap
		}
		m.fail(sig, "lease table holds %d unexpired entries for %s: %s (circuit %q, until %s) and %s (circuit %q, until %s)", len(es), ip,
			es[0].Key, es[0].Lease.CircuitID, es[0].Lease.ExpiresAt.Format("15:04:05"), es[1].Key, es[1].Lease.CircuitID, es[1].Lease.ExpiresAt.Format("15:04:05"))
		return
	}
}

// ---------------------------------------------------------------------------
// executor

type v4run struct {
	g       *v4geom
	srv     *dhcp.Server
	pool    *dhcp.Pool
	conn    *capConn
	mon     *v4mon
	log     []string
	xid     uint32
	allowKF bool
	msgs    int

	preTarget net.IP // target of an ambiguous message, resolved before its values were taken out of the oracle

	// attribution: the REQUEST being delivered meets the trigger condition of a listed defect
	trigUnrecorded bool // new session at the server, address in the network, not allocated to this MAC in the pool
	trigSwap       bool // matched through the circuit-id index to a lease held under another MAC
}

func newV4Run(g *v4geom, allowKF bool) (*v4run, error) {
	logger := zap.NewNop()
	// as the repository's unit tests do: a Loader that never loaded (its maps are nil, map calls return errors)
	loader, err := ebpf.NewLoader("lo", logger)
	if err != nil {
		return nil, err
	}
	pm := dhcp.NewPoolManager(loader, logger)
	pool, err := dhcp.NewPool(g.poolConfig())
	if err != nil {
		return nil, err
	}
	if err := pm.AddPool(pool); err != nil {
		return nil, err
	}
	srv, err := dhcp.NewServer(dhcp.ServerConfig{Interface: "lo", ServerIP: g.serverIP}, loader, pm, logger)
	if err != nil {
		return nil, err
	}
	return &v4run{g: g, srv: srv, pool: pool, conn: &capConn{}, mon: newV4Mon(g), allowKF: allowKF}, nil
}

func (x *v4run) logf(f string, a ...any) { x.log = append(x.log, fmt.Sprintf(f, a...)) }

// anomalous: the message does not arrive over the client's own access path with its own MAC
// (replacement CPE, another port's circuit-id, a changed circuit-id, option 82 without a relay).
func (x *v4run) anomalous(o v4op) bool {
	if o.Alt {
		return true
	}
	switch o.Tr {
	case "", "own", "unicast":
		return false
	case "direct":
		return false // a relayed client talking directly is just an un-relayed unicast
	}
	return o.Tr != x.g.cfg.access(o.C%x.g.cfg.K)
}

func (x *v4run) ident(o v4op) (v4id, []byte, bool) {
	k := x.g.cfg.K
	c := o.C % k
	id := v4id{mac: v4mac(c, o.Alt).String(), client: c, line: c, other: -1, label: fmt.Sprintf("c%d", c)}
	if o.Alt {
		id.label += "'"
		id.client = 50 + c // the replacement CPE of line c
	}
	var cid []byte
	relayed := false
	tr := o.Tr
	if tr == "" {
		tr = "direct"
	}
	if tr == "unicast" {
		// only messages a client really unicasts bypass the relay: renewals, RELEASE, DECLINE, INFORM
		if (o.Kind == "request" && o.Shape == "renewing") || o.Kind == "release" || o.Kind == "inform" {
			tr = "direct"
		} else {
			tr = "own"
		}
	}
	if tr == "own" {
		tr = x.g.cfg.access(c)
	}
	switch tr {
	case "relay":
		relayed = true
	case "relay82":
		relayed, cid = true, v4cid(c)
	case "relay82other":
		relayed, cid = true, v4cid((c+o.Other)%k)
		id.other = (c + o.Other) % k
		if (c+o.Other)%k == c {
			cid = []byte("olt9/9/9/9:999") // a port nobody else is attached to
			id.other = -1
		}
	case "relay82long":
		relayed, cid = true, v4longCid(c)
	case "direct82":
		cid = v4cid(c)
	}
	if cid != nil {
		id.cid = hex.EncodeToString(cid)
		// option 82 that is not the circuit-id of the sender's own line: no well-defined client
		var own []byte
		switch x.g.cfg.access(c) {
		case "relay82":
			own = v4cid(c)
		case "relay82long":
			own = v4longCid(c)
		}
		id.ambig = own == nil || !bytes.Equal(own, cid)
	}
	id.relay = relayed
	return id, cid, relayed
}

func (x *v4run) packet(mt dhcpv4.MessageType, mac net.HardwareAddr, cid []byte, relayed bool, mods ...dhcpv4.Modifier) (*dhcpv4.DHCPv4, error) {
	x.xid++
	xid := dhcpv4.TransactionID{byte(x.xid >> 24), byte(x.xid >> 16), byte(x.xid >> 8), byte(x.xid)}
	all := []dhcpv4.Modifier{dhcpv4.WithHwAddr(mac), dhcpv4.WithMessageType(mt), dhcpv4.WithTransactionID(xid)}
	if relayed {
		all = append(all, dhcpv4.WithGatewayIP(relayAddr))
	}
	if cid != nil {
		all = append(all, dhcpv4.WithOption(dhcpv4.OptRelayAgentInfo(dhcpv4.OptGeneric(dhcpv4.AgentCircuitIDSubOption, cid))))
	}
	all = append(all, mods...)
	p, err := dhcpv4.New(all...)
	if err != nil {
		return nil, err
	}
	// what server4 does with a datagram: parse the wire form
	return dhcpv4.FromBytes(p.ToBytes())
}

type v4reply struct {
	typ   dhcpv4.MessageType
	yi    net.IP
	lease time.Duration
}

// deliver sends one packet to the real handler and returns the replies written to the connection.
func (x *v4run) deliver(p *dhcpv4.DHCPv4) (rs []v4reply, panicked any) {
	x.conn.out, x.conn.dst = nil, nil
	x.msgs++
	func() {
		defer func() { panicked = recover() }()
		x.srv.VerifHandle(x.conn, &net.UDPAddr{IP: net.IPv4bcast, Port: 68}, p)
	}()
	for _, b := range x.conn.out {
		r, err := dhcpv4.FromBytes(b)
		if err != nil {
			continue
		}
		rs = append(rs, v4reply{typ: r.MessageType(), yi: r.YourIPAddr.To4(), lease: r.IPAddressLeaseTime(0)})
	}
	return rs, panicked
}

func (x *v4run) foreignValues(s v4id, now time.Time) []string {
	var out []string
	for _, k := range sortedKeys(x.mon.vals) {
		st := x.mon.vals[k]
		if (st.kind == "bound" || st.kind == "offered") && now.Before(st.expiry) && !st.same(s) && !x.mon.ambig[k] {
			out = append(out, k)
		}
	}
	return out
}

func (x *v4run) resolve(o v4op, s v4id, now time.Time) net.IP {
	if x.preTarget != nil {
		return x.preTarget
	}
	random := func() net.IP {
		n := 1 << (32 - x.g.cfg.Bits)
		return ip4add(x.g.netIP, 1+o.Aux%(n-2))
	}
	mine, _ := x.mon.boundTo(s.mac, now)
	switch o.Tgt {
	case "offer":
		if of := x.mon.offers[s.mac]; of != nil {
			return net.ParseIP(of.val).To4()
		}
		if mine != "" {
			return net.ParseIP(mine).To4()
		}
		return random()
	case "mine":
		if mine != "" {
			return net.ParseIP(mine).To4()
		}
		// a replacement CPE asks for the address its line holds
		if v := x.mon.boundToLine(s.line, now); v != "" {
			return net.ParseIP(v).To4()
		}
		// … or the address the line held until it ran out (INIT-REBOOT with a remembered address)
		for _, k := range sortedKeys(x.mon.vals) {
			if st := x.mon.vals[k]; st.kind == "bound" && st.line == s.line && !x.mon.ambig[k] {
				return net.ParseIP(k).To4()
			}
		}
		if of := x.mon.offers[s.mac]; of != nil {
			return net.ParseIP(of.val).To4()
		}
		return random()
	case "foreign":
		if fv := x.foreignValues(s, now); len(fv) > 0 {
			return net.ParseIP(fv[o.Aux%len(fv)]).To4()
		}
		return random()
	case "gateway":
		return x.g.gateway
	case "network":
		return x.g.netIP
	case "broadcast":
		return x.g.bcast
	case "outside":
		return ip4add(x.g.bcast, 1+o.Aux)
	case "reserved":
		if len(x.g.reserved) > 0 {
			return net.ParseIP(x.g.reserved[o.Aux%len(x.g.reserved)]).To4()
		}
		return x.g.gateway
	}
	return random()
}

// serverSeesNewSession: would the server treat a REQUEST from s as a client without a lease?
// (generator-side steering only; never used by the oracle)
func (x *v4run) serverSeesNewSession(s v4id, relayed bool) bool {
	for _, l := range x.srv.VerifLeases() {
		if l.Key == s.mac {
			return false
		}
	}
	if relayed && s.cid != "" {
		for _, l := range x.srv.VerifLeasesByCircuitID() {
			if l.Key == s.cid {
				return false
			}
		}
	}
	return true
}

// step executes one op; returns false when the case must stop (violation recorded).
func (x *v4run) step(o v4op) bool {
	now := time.Now()
	switch o.Kind {
	case "advance":
		d := time.Second
		switch o.Delta {
		case "half":
			d = x.g.lease / 2
		case "full":
			d = x.g.lease + time.Second
		}
		for _, k := range sortedKeys(x.mon.vals) {
			st := x.mon.vals[k]
			if st.kind == "bound" && now.Before(st.expiry) && now.Add(d).After(st.expiry) {
				x.mon.nt = true
				x.mon.classes["nt:expiry-crossed"] = true
			}
		}
		time.Sleep(d)
		synctest.Wait()
		x.logf("advance %s -> %s", d, time.Now().Format("15:04:05"))
		return true
	case "cleanup":
		x.srv.VerifCleanupExpired()
		x.logf("cleanupTick")
		x.mon.onCleanup(now)
		x.mon.checkTable(x.srv.VerifLeases(), now)
		return len(x.mon.viol) == 0
	case "dora":
		d := o
		d.Kind = "discover"
		if !x.step(d) {
			return false
		}
		r := o
		r.Kind, r.Tgt, r.Shape, r.inDora = "request", "offer", "selecting", true
		return x.step(r)
	}
	s, cid, relayed := x.ident(o)
	mac, _ := net.ParseMAC(s.mac)
	tr := "direct"
	switch {
	case relayed && cid != nil:
		tr = "relay82"
	case relayed:
		tr = "relay"
	case cid != nil:
		tr = "direct82"
	}
	if x.anomalous(o) {
		if !x.allowKF && anyListed(v4CircuitFamily...) {
			x.logf("%s %s skipped (circuit-id anomaly; steering around listed findings)", s.label, o.Kind)
			x.mon.classes["steered:circuit-anomaly"] = true
			return true
		}
		x.mon.classes["circuit-anomaly"] = true
		tr += "!"
	}
	x.mon.classes["tr:"+tr] = true
	if o.Alt {
		x.mon.classes["alt-mac"] = true
	}
	x.preTarget = nil
	if s.ambig {
		if o.Kind == "request" || o.Kind == "decline" {
			x.preTarget = x.resolve(o, s, now)
		}
		x.mon.markAmbiguous(s)
	}
	if !x.allowKF && (o.Kind == "discover") && anyListed(sigV4AckForeignOffer+"after-OFFER/holder-reoffered-expired-lease") && x.hasExpiredLease(s) {
		// the listed defect: a DISCOVER that re-offers an expired, not yet cleaned-up lease is undone by the next cleanup tick
		x.srv.VerifCleanupExpired()
		x.mon.onCleanup(now)
		x.logf("cleanupTick (inserted: steering around a listed finding)")
		x.mon.classes["steered:cleanup-before-discover"] = true
	}
	steerDecl := !x.allowKF && anyListed(sigV4Declined+"after-ACK/to-the-decliner", sigV4Declined+"after-OFFER-only/to-the-decliner")
	switch o.Kind {
	case "discover":
		if steerDecl && (x.mon.declBy[s.mac] || x.declinedCircuit(s, relayed)) {
			x.logf("%s DISCOVER skipped (steering around a listed finding)", s.label)
			return true
		}
		p, err := x.packet(dhcpv4.MessageTypeDiscover, mac, cid, relayed)
		if err != nil {
			x.mon.fail("C02/harness/build", "%v", err)
			return false
		}
		rs, pan := x.deliver(p)
		if pan != nil {
			x.mon.fail(sigV4Panic, "DISCOVER from %s panicked: %v", s.label, pan)
			return false
		}
		x.logf("%s DISCOVER[%s] -> %s", s.label, tr, fmtReplies(rs))
		if len(rs) == 0 {
			x.mon.classes["discover-unanswered"] = true
		}
		for _, r := range rs {
			if r.typ == dhcpv4.MessageTypeOffer {
				x.mon.onOffer(s, r.yi, r.lease, now)
			}
		}
	case "request":
		if !x.allowKF && !o.inDora && (o.Tgt == "offer" || o.Tgt == "mine") && anyListed(v4UnsolicitedFamily...) {
			if mine, _ := x.mon.boundTo(s.mac, now); mine == "" && (x.mon.offers[s.mac] == nil || !now.Before(x.mon.offers[s.mac].expiry)) {
				// nothing to ask for: a REQUEST out of the blue would only hit the listed defect; do the exchange properly
				x.mon.classes["steered:request->dora"] = true
				d := o
				d.Kind = "dora"
				return x.step(d)
			}
		}
		tv := x.resolve(o, s, now)
		val := tv.String()
		// (implementation state, used for steering around listed defects and for attributing
		// violations to them — never for deciding whether something is a violation)
		newSess := x.serverSeesNewSession(s, relayed)
		offeredMe := x.pool.VerifState().Allocated[s.mac] == val
		x.trigUnrecorded = newSess && !offeredMe && x.g.network.Contains(tv) && vstat.IsListed(sigV4Unrecorded)
		x.trigSwap = !newSess && x.isCpeSwap(s, relayed) && vstat.IsListed(sigV4Swap)
		if !x.allowKF {
			if newSess && !offeredMe && x.g.network.Contains(tv) && anyListed(v4UnsolicitedFamily...) {
				// the listed defect: such a REQUEST is ACKed without any ownership check.  Ask from outside instead.
				tv = ip4add(x.g.bcast, 1+o.Aux)
				val = tv.String()
				x.mon.classes["steered:unsolicited"] = true
			}
			if steerDecl && (x.mon.declBy[s.mac] || x.declinedCircuit(s, relayed)) {
				x.logf("%s REQUEST skipped (steering around a listed finding)", s.label)
				return true
			}
			if anyListed(sigV4TableDup+"same-circuit") && !newSess && x.isCpeSwap(s, relayed) {
				x.logf("%s REQUEST skipped (CPE swap; steering around a listed finding)", s.label)
				x.mon.classes["steered:cpe-swap"] = true
				return true
			}
		}
		st := x.mon.vals[val]
		if s.ambig {
			x.mon.markAmbiguous(s, val)
		}
		expectSame := st != nil && st.kind == "bound" && now.Before(st.expiry) && st.lastMAC == s.mac && !s.ambig && !x.mon.ambig[val]
		if st != nil && (st.kind == "bound" || st.kind == "offered") && now.Before(st.expiry) && !st.same(s) && !s.ambig && !x.mon.ambig[val] {
			x.mon.classes["nt:request-foreign"] = true
			x.mon.nt = true
			x.mon.touch(val, s)
		}
		var mods []dhcpv4.Modifier
		switch o.Shape {
		case "initreboot":
			mods = append(mods, dhcpv4.WithOption(dhcpv4.OptRequestedIPAddress(tv)))
		case "renewing":
			mods = append(mods, dhcpv4.WithClientIP(tv))
		default:
			mods = append(mods, dhcpv4.WithOption(dhcpv4.OptRequestedIPAddress(tv)), dhcpv4.WithOption(dhcpv4.OptServerIdentifier(x.g.serverIP)))
		}
		x.mon.classes["shape:"+o.Shape] = true
		p, err := x.packet(dhcpv4.MessageTypeRequest, mac, cid, relayed, mods...)
		if err != nil {
			x.mon.fail("C02/harness/build", "%v", err)
			return false
		}
		rs, pan := x.deliver(p)
		if pan != nil {
			x.mon.fail(sigV4Panic, "REQUEST(%s) from %s panicked: %v", val, s.label, pan)
			return false
		}
		x.logf("%s REQUEST(%s %s)[%s] -> %s", s.label, val, o.Shape, tr, fmtReplies(rs))
		acked := false
		for _, r := range rs {
			switch r.typ {
			case dhcpv4.MessageTypeAck:
				if r.yi == nil || r.yi.IsUnspecified() {
					continue
				}
				acked = true
				if expectSame && !r.yi.Equal(tv) {
					x.mon.fail(sigV4Renew+"other-value", "%s renewed its unexpired binding %s and was ACKed %s", s.label, val, r.yi)
					return false
				}
				if x.trigUnrecorded {
					x.mon.unrec[r.yi.String()] = true
				}
				if x.trigSwap {
					x.mon.swapped[r.yi.String()] = true
				}
				x.mon.onAck(s, r.yi, r.lease, now)
				x.mon.classes["acked"] = true
			case dhcpv4.MessageTypeNak:
				x.mon.classes["nak"] = true
				if expectSame {
					x.mon.fail(sigV4Renew+"nak", "%s renewed its unexpired binding %s (until %s, now %s) and was NAKed", s.label, val, st.expiry.Format("15:04:05"), now.Format("15:04:05"))
					return false
				}
			}
		}
		if expectSame {
			x.mon.classes["renew-own"] = true
			if !acked && len(x.mon.viol) == 0 {
				x.mon.fail(sigV4Renew+"no-reply", "%s renewed its unexpired binding %s and got no ACK (%s)", s.label, val, fmtReplies(rs))
				return false
			}
		}
	case "release":
		ci := net.IPv4zero
		if v, _ := x.mon.boundTo(s.mac, now); v != "" {
			ci = net.ParseIP(v).To4()
		} else if of := x.mon.offers[s.mac]; of != nil {
			ci = net.ParseIP(of.val).To4()
		}
		p, err := x.packet(dhcpv4.MessageTypeRelease, mac, cid, relayed, dhcpv4.WithClientIP(ci), dhcpv4.WithOption(dhcpv4.OptServerIdentifier(x.g.serverIP)))
		if err != nil {
			x.mon.fail("C02/harness/build", "%v", err)
			return false
		}
		_, pan := x.deliver(p)
		if pan != nil {
			x.mon.fail(sigV4Panic, "RELEASE from %s panicked: %v", s.label, pan)
			return false
		}
		x.logf("%s RELEASE(%s)[%s]", s.label, ci, tr)
		x.mon.onRelease(s, now)
		x.mon.classes["release"] = true
	case "decline":
		tv := x.resolve(o, s, now)
		p, err := x.packet(dhcpv4.MessageTypeDecline, mac, cid, relayed, dhcpv4.WithOption(dhcpv4.OptRequestedIPAddress(tv)), dhcpv4.WithOption(dhcpv4.OptServerIdentifier(x.g.serverIP)))
		if err != nil {
			x.mon.fail("C02/harness/build", "%v", err)
			return false
		}
		_, pan := x.deliver(p)
		if pan != nil {
			x.mon.fail(sigV4Panic, "DECLINE(%s) from %s panicked: %v", tv, s.label, pan)
			return false
		}
		x.logf("%s DECLINE(%s)[%s]", s.label, tv, tr)
		x.mon.onDecline(s, tv, now)
	case "inform":
		ci := net.IPv4zero
		if v, _ := x.mon.boundTo(s.mac, now); v != "" {
			ci = net.ParseIP(v).To4()
		}
		p, err := x.packet(dhcpv4.MessageTypeInform, mac, cid, relayed, dhcpv4.WithClientIP(ci))
		if err != nil {
			x.mon.fail("C02/harness/build", "%v", err)
			return false
		}
		rs, pan := x.deliver(p)
		if pan != nil {
			x.mon.fail(sigV4Panic, "INFORM from %s panicked: %v", s.label, pan)
			return false
		}
		x.logf("%s INFORM(%s)[%s] -> %s", s.label, ci, tr, fmtReplies(rs))
		for _, r := range rs {
			// an ACK to INFORM must not assign anything
			if r.typ == dhcpv4.MessageTypeAck && r.yi != nil && !r.yi.IsUnspecified() {
				x.mon.onAck(s, r.yi, r.lease, now)
			}
		}
		x.mon.classes["inform"] = true
	}
	if len(x.mon.viol) > 0 {
		return false
	}
	x.mon.checkTable(x.srv.VerifLeases(), now)
	return len(x.mon.viol) == 0
}

// hasExpiredLease: steering helper — the server still holds an expired lease for s.
func (x *v4run) hasExpiredLease(s v4id) bool {
	now := time.Now()
	for _, l := range x.srv.VerifLeases() {
		if l.Key == s.mac && !l.Lease.ExpiresAt.After(now) {
			return true
		}
	}
	return false
}

// declinedCircuit: steering helper — the circuit of s is indexed to a lease whose address was declined.
func (x *v4run) declinedCircuit(s v4id, relayed bool) bool {
	if !relayed || s.cid == "" {
		return false
	}
	for _, l := range x.srv.VerifLeasesByCircuitID() {
		if l.Key == s.cid {
			if st := x.mon.vals[l.Lease.IP.String()]; st != nil && st.kind == "declined" {
				return true
			}
		}
	}
	return false
}

// isCpeSwap: steering helper — s would be matched to a lease held under a different MAC through its circuit-id.
func (x *v4run) isCpeSwap(s v4id, relayed bool) bool {
	if !relayed || s.cid == "" {
		return false
	}
	for _, l := range x.srv.VerifLeases() {
		if l.Key == s.mac {
			return false
		}
	}
	for _, l := range x.srv.VerifLeasesByCircuitID() {
		if l.Key == s.cid && l.Lease.MAC.String() != s.mac {
			return true
		}
	}
	return false
}

func fmtReplies(rs []v4reply) string {
	if len(rs) == 0 {
		return "(no reply)"
	}
	var p []string
	for _, r := range rs {
		switch r.typ {
		case dhcpv4.MessageTypeOffer, dhcpv4.MessageTypeAck:
			p = append(p, fmt.Sprintf("%s %s lease=%s", r.typ, r.yi, r.lease))
		default:
			p = append(p, r.typ.String())
		}
	}
	return strings.Join(p, ", ")
}

// drain: clause (6).  Fresh clients take whatever the server still hands out;
// every value that must be available again has to show up.
func (x *v4run) drain() {
	now := time.Now()
	x.srv.VerifCleanupExpired()
	x.mon.onCleanup(now)
	x.logf("-- drain probe at %s (after a cleanup tick)", now.Format("15:04:05"))
	x.mon.draining = true
	if !x.drainRound(0, now) {
		return
	}
	x.demand(now, false)
	if len(x.mon.viol) > 0 || x.g.cfg.Bits < 27 {
		return
	}
	// second probe: after one more lease time and a cleanup tick nothing is bound or offered any more,
	// so every value that was ever handed out (and not declined) must be obtainable again
	time.Sleep(x.g.lease + 61*time.Second)
	synctest.Wait()
	now = time.Now()
	x.srv.VerifCleanupExpired()
	x.mon.onCleanup(now)
	x.logf("-- second drain probe at %s (one lease time + 61 s later, after a cleanup tick)", now.Format("15:04:05"))
	x.mon.obtained = map[string]bool{}
	if !x.drainRound(1000, now) {
		return
	}
	x.demand(now, true)
}

// drainRound lets fresh clients (numbered from base) take addresses until a DISCOVER stays unanswered.
func (x *v4run) drainRound(base int, now time.Time) bool {
	limit := len(x.g.usable) + 3
	for i := base; i < base+limit; i++ {
		mac := net.HardwareAddr{0x02, 0, 0, 0xff, byte(i >> 8), byte(i)}
		s := v4id{mac: mac.String(), client: 100 + i, line: 100 + i, other: -1, label: fmt.Sprintf("f%d", i)}
		p, err := x.packet(dhcpv4.MessageTypeDiscover, mac, nil, false)
		if err != nil {
			x.mon.fail("C02/harness/build", "%v", err)
			return false
		}
		rs, pan := x.deliver(p)
		if pan != nil {
			x.mon.fail(sigV4Panic, "drain DISCOVER panicked: %v", pan)
			return false
		}
		var offer net.IP
		for _, r := range rs {
			if r.typ == dhcpv4.MessageTypeOffer {
				x.mon.onOffer(s, r.yi, r.lease, now)
				offer = r.yi
			}
		}
		if len(x.mon.viol) > 0 {
			x.logf("%s DISCOVER -> %s", s.label, fmtReplies(rs))
			return false
		}
		if offer == nil {
			x.logf("%s DISCOVER -> %s: pool exhausted after %d fresh clients", s.label, fmtReplies(rs), i-base)
			break
		}
		q, err := x.packet(dhcpv4.MessageTypeRequest, mac, nil, false, dhcpv4.WithOption(dhcpv4.OptRequestedIPAddress(offer)), dhcpv4.WithOption(dhcpv4.OptServerIdentifier(x.g.serverIP)))
		if err != nil {
			x.mon.fail("C02/harness/build", "%v", err)
			return false
		}
		rs2, pan := x.deliver(q)
		if pan != nil {
			x.mon.fail(sigV4Panic, "drain REQUEST panicked: %v", pan)
			return false
		}
		for _, r := range rs2 {
			if r.typ == dhcpv4.MessageTypeAck && r.yi != nil && !r.yi.IsUnspecified() {
				x.mon.onAck(s, r.yi, r.lease, now)
			}
		}
		if len(x.mon.viol) > 0 {
			x.logf("%s DORA %s -> %s", s.label, offer, fmtReplies(rs2))
			return false
		}
	}
	// entries do not leave the table during the probe: one look at the end sees every duplicate
	x.mon.checkTable(x.srv.VerifLeases(), now)
	if len(x.mon.viol) > 0 {
		return false
	}
	x.logf("drain obtained %d values", len(x.mon.obtained))
	return true
}

// demand: which values had to be obtained by the probe that just exhausted the pool?
func (x *v4run) demand(now time.Time, second bool) {
	for _, v := range x.g.usable {
		if x.mon.obtained[v] || x.mon.declAny[v] || x.mon.ambig[v] {
			continue
		}
		st := x.mon.vals[v]
		reason := ""
		switch {
		case st == nil: // never handed out: the statement demands nothing
		case st.kind == "declined", st.kind == "forgotten":
		case st.kind == "bound":
			if now.After(st.expiry) {
				reason = "expired"
			}
		case st.kind == "offered":
			if now.After(st.expiry) {
				reason = "abandoned-offer"
			}
		case st.kind == "cancelled":
			// the offer became moot (the client released it, or the server itself offered / bound the client
			// something else). The statement names released and expired bindings, not offers: what is demanded is
			// that such a value is back no later than an abandoned offer would be, i.e. at the second probe (one
			// lease time + 61 s after the history), not at once.
			if second {
				reason = "cancelled-offer"
			}
		case st.kind == "released":
			reason = "released"
		}
		if reason == "" {
			continue
		}
		who, when := "nobody", ""
		if st != nil {
			who, when = st.label, st.at.Format("15:04:05")
		}
		which := "the"
		if second {
			which = "the second set of"
		}
		x.mon.fail(sigV4NotAvail+reason, "%s (%s; last held/offered by %s at %s) is not handed out to any of %s fresh clients that exhausted the pool at %s; pool state %+v",
			v, reason, who, when, which, now.Format("15:04:05"), x.pool.VerifState())
	}
}

type v4result struct {
	deadAt  int // index of the op at which the case was abandoned (-1: ran to the end)
	viol    []violation
	log     []string
	classes []string
	nt      bool
	msgs    int
}

// execV4 runs one history inside a synctest bubble and returns the verdict as a value.
func execV4(t *testing.T, cfg v4cfg, ops []v4op, allowKF bool) v4result {
	var res v4result
	synctest.Test(t, func(t *testing.T) {
		res = execV4InBubble(cfg, ops, allowKF)
	})
	return res
}

func execV4InBubble(cfg v4cfg, ops []v4op, allowKF bool) v4result {
	g := newV4Geom(cfg)
	x, err := newV4Run(g, allowKF)
	if err != nil {
		return v4result{viol: []violation{{Sig: "C02/harness/setup", Msg: err.Error()}}}
	}
	x.logf("pool %s gateway %s reservedStart=%d reservedEnd=%d lease=%s clients=%d usable=%d", g.network, g.gateway, cfg.ResStart, cfg.ResEnd, g.lease, cfg.K, len(g.usable))
	ok := true
	deadAt := -1
	for i, o := range ops {
		if !x.step(o) {
			ok = false
			deadAt = i
			break
		}
	}
	if ok {
		x.drain()
	}
	m := x.mon
	m.classes[fmt.Sprintf("pool:/%d", cfg.Bits)] = true
	if cfg.ResStart+cfg.ResEnd > 0 {
		m.classes["pool:reserved"] = true
	}
	if allowKF {
		m.classes["kf-exercise"] = true
	}
	switch {
	case x.msgs >= 40:
		m.classes["msgs:40+"] = true
	case x.msgs >= 15:
		m.classes["msgs:15-39"] = true
	default:
		m.classes["msgs:<15"] = true
	}
	cls := sortedKeys(m.classes)
	for i := range cls {
		cls[i] = "v4:" + cls[i]
	}
	return v4result{deadAt: deadAt, viol: m.viol, log: x.log, classes: cls, nt: m.nt, msgs: x.msgs}
}

// ---------------------------------------------------------------------------
// properties

func finishV4(t vstat.Fataler, kind string, cfg v4cfg, ops []v4op, res v4result) {
	t.Helper()
	if len(res.viol) > 0 && strings.HasPrefix(res.viol[0].Sig, "C02/harness/") {
		t.Fatalf("harness error: %s", res.viol[0].Msg)
	}
	kf := report(t, res.viol, func() string { return joinLines(res.log) })
	cls := append(append([]string{"proto:v4", kind}, res.classes...), kf...)
	vstat.Case(res.nt, vstat.Hash("v4", jsonOf(cfg), jsonOf(ops)), func() any {
		strs := make([]string, len(ops))
		for i, o := range ops {
			strs[i] = o.String()
		}
		return map[string]any{"proto": "v4", "cfg": cfg, "ops": strs}
	}, cls...)
}

// TestPropV4Random: random DHCPv4 histories from k<=4 clients over generated pools.
func TestPropV4Random(t *testing.T) {
	vstat.Checks(2000, 40000)
	rapid.Check(t, func(rt *rapid.T) {
		cfg := genV4Cfg(1).Draw(rt, "cfg")
		ops := rapid.SliceOfN(genV4Op(cfg.K), 1, 25).Draw(rt, "ops")
		allowKF := rapid.IntRange(0, 9).Draw(rt, "exerciseKF") == 0
		res := execV4(t, cfg, ops, allowKF)
		finishV4(rt, "gen:random", cfg, ops, res)
	})
}

// TestPropV4Contention: tiny pools, k>=2, biased to two clients touching one value around release/expiry.
func TestPropV4Contention(t *testing.T) {
	vstat.Checks(2000, 40000)
	rapid.Check(t, func(rt *rapid.T) {
		cfg := genV4Cfg(2).Draw(rt, "cfg")
		cfg.Bits = rapid.SampledFrom([]int{29, 29, 29, 28}).Draw(rt, "tinyBits")
		hosts := (1 << (32 - cfg.Bits)) - 2
		if cfg.ResStart+cfg.ResEnd > hosts-3 {
			cfg.ResStart, cfg.ResEnd = 0, 0
		}
		if cfg.GwMode == 2 {
			cfg.GwIdx %= hosts
		}
		cfg.LeaseSec = rapid.SampledFrom([]int{60, 120, 600}).Draw(rt, "lease")
		// every client binds first, then the random tail
		var ops []v4op
		for c := 0; c < cfg.K; c++ {
			ops = append(ops, v4op{Kind: "dora", C: c, Tr: "own"})
		}
		tail := rapid.SliceOfN(genV4Op(cfg.K), 3, 22).Draw(rt, "ops")
		ops = append(ops, tail...)
		allowKF := rapid.IntRange(0, 9).Draw(rt, "exerciseKF") == 0
		res := execV4(t, cfg, ops, allowKF)
		finishV4(rt, "gen:contention", cfg, ops, res)
	})
}

// ---------------------------------------------------------------------------
// bounded-exhaustive sequences (thorough tier): depth 6, reduced alphabet, k = 2, 3

func v4Alphabet(k int) []v4op {
	var a []v4op
	for c := 0; c < k; c++ {
		a = append(a,
			v4op{Kind: "discover", C: c, Tr: "direct"},
			v4op{Kind: "request", C: c, Tr: "direct", Tgt: "offer", Shape: "selecting", inDora: true},
			v4op{Kind: "release", C: c, Tr: "direct"},
		)
		if k == 2 {
			a = append(a,
				v4op{Kind: "request", C: c, Tr: "direct", Tgt: "foreign", Shape: "initreboot", inDora: true},
				v4op{Kind: "decline", C: c, Tr: "direct", Tgt: "mine"})
		}
	}
	if k != 2 {
		a = append(a, v4op{Kind: "request", C: k - 1, Tr: "direct", Tgt: "foreign", Shape: "initreboot", inDora: true})
	}
	a = append(a, v4op{Kind: "advance", Delta: "full"})
	if k == 2 {
		a = append(a, v4op{Kind: "cleanup"})
	}
	return a
}

func TestPropV4Exhaustive(t *testing.T) {
	if !vstat.Thorough() {
		// quick tier: the same enumerator at depth 3 so that the code path stays exercised
		runV4Exhaustive(t, 2, vstat.Scale(3, 3))
		return
	}
	runV4Exhaustive(t, 2, 6)
	runV4Exhaustive(t, 3, 6)
}

func runV4Exhaustive(t *testing.T, k, depth int) {
	alpha := v4Alphabet(k)
	cfg := v4cfg{Bits: 29, Base: [4]byte{10, 0, 0, 0}, GwMode: 0, LeaseSec: 60, K: k}
	shard, shards := vstat.Shard()
	n := len(alpha)
	total := 1
	for i := 0; i < depth; i++ {
		total *= n
	}
	pow := make([]int, depth+1) // pow[j] = n^j
	pow[0] = 1
	for j := 1; j <= depth; j++ {
		pow[j] = pow[j-1] * n
	}
	idx := make([]int, depth)
	done, pruned := 0, 0
	const batch = 2000
	for start := shard * batch; start < total; start += shards * batch {
		end := start + batch
		if end > total {
			end = total
		}
		type one struct {
			ops []v4op
			res v4result
		}
		var results []one
		// one bubble per batch: virtual time simply keeps running across the servers of a batch
		synctest.Test(t, func(t *testing.T) {
			for s := start; s < end; {
				v := s
				for i := depth - 1; i >= 0; i-- {
					idx[i] = v % n
					v /= n
				}
				ops := make([]v4op, depth)
				for i, j := range idx {
					ops[i] = alpha[j]
				}
				res := execV4InBubble(cfg, ops, true)
				results = append(results, one{ops, res})
				next := s + 1
				if res.deadAt >= 0 && res.deadAt < depth-1 {
					// a listed finding stopped the case at op deadAt: every sequence with the same prefix behaves identically
					next = (s/pow[depth-1-res.deadAt] + 1) * pow[depth-1-res.deadAt]
					if next > end {
						next = end
					}
					pruned += next - s - 1
				}
				s = next
			}
		})
		for _, r := range results {
			finishV4(t, fmt.Sprintf("gen:exhaustive-k%d-d%d", k, depth), cfg, r.ops, r.res)
			done++
		}
	}
	vstat.Note(fmt.Sprintf("v4-exhaustive-k%d-depth%d", k, depth), map[string]any{"alphabet": len(alpha), "sequences_total": total, "executed_this_shard": done,
		"pruned_this_shard_same_prefix_as_a_known_finding": pruned, "shards": shards})
	vstat.Exhaustive(true)
}

// ---------------------------------------------------------------------------
// replays: minimal reproductions of the listed findings (assert through the same signatures)

type v4scenario struct {
	name string
	sig  string
	cfg  v4cfg
	ops  []v4op
}

var v4base = v4cfg{Bits: 29, Base: [4]byte{10, 0, 0, 0}, GwMode: 0, LeaseSec: 600, K: 3}
var v4relayed = v4cfg{Bits: 29, Base: [4]byte{10, 0, 0, 0}, GwMode: 0, LeaseSec: 600, K: 3, Access: []string{"relay82", "relay82", "relay82"}}

func v4Scenarios() []v4scenario {
	d := func(c int) v4op { return v4op{Kind: "dora", C: c, Tr: "direct"} }
	return []v4scenario{
		{"ack-foreign-address", sigV4AckForeign + "unsolicited-REQUEST", v4base, []v4op{
			d(0), {Kind: "request", C: 1, Tr: "direct", Tgt: "foreign", Shape: "initreboot"}}},
		{"ack-foreign-offer", sigV4AckForeignOffer + "unsolicited-REQUEST", v4base, []v4op{
			{Kind: "discover", C: 0, Tr: "direct"}, {Kind: "request", C: 1, Tr: "direct", Tgt: "foreign", Shape: "selecting"}}},
		{"ack-gateway", sigV4Unusable + "ACK/unsolicited-REQUEST", v4base, []v4op{
			{Kind: "request", C: 0, Tr: "direct", Tgt: "gateway", Shape: "initreboot"}}},
		{"ack-network", sigV4Unusable + "ACK/unsolicited-REQUEST", v4base, []v4op{
			{Kind: "request", C: 0, Tr: "direct", Tgt: "network", Shape: "renewing"}}},
		{"ack-broadcast", sigV4Unusable + "ACK/unsolicited-REQUEST", v4base, []v4op{
			{Kind: "request", C: 0, Tr: "direct", Tgt: "broadcast", Shape: "selecting"}}},
		{"unrecorded-binding-then-offered", sigV4Unrecorded, v4base, []v4op{
			// c0 INIT-REBOOTs into the first free address (ACKed, but the pool does not record it); c1 is then offered and ACKed the same address
			{Kind: "request", C: 0, Tr: "direct", Tgt: "random", Aux: 1, Shape: "initreboot"}, d(1)}},
		{"decline-then-discover", sigV4Declined + "after-ACK/to-the-decliner", v4base, []v4op{
			d(0), {Kind: "decline", C: 0, Tr: "direct", Tgt: "mine"}, {Kind: "discover", C: 0, Tr: "direct"}}},
		{"decline-offer-then-discover", sigV4Declined + "after-OFFER-only/to-the-decliner", v4base, []v4op{
			{Kind: "discover", C: 0, Tr: "direct"}, {Kind: "decline", C: 0, Tr: "direct", Tgt: "offer"}, {Kind: "discover", C: 0, Tr: "direct"}}},
		{"abandoned-offer", sigV4NotAvail + "abandoned-offer", v4base, []v4op{
			{Kind: "discover", C: 0, Tr: "direct"}, {Kind: "advance", Delta: "full"}, {Kind: "cleanup"}}},
		{"reoffer-then-cleanup", sigV4AckForeignOffer + "after-OFFER/holder-reoffered-expired-lease", v4base, []v4op{
			// c0's lease has expired but the cleanup tick has not run; c0 DISCOVERs and is offered X again; the tick then frees X
			d(0), {Kind: "advance", Delta: "full"}, {Kind: "discover", C: 0, Tr: "direct"}, {Kind: "cleanup"}}},
		{"cpe-swap-duplicate", sigV4TableDup + "same-circuit", v4relayed, []v4op{
			{Kind: "dora", C: 0, Tr: "relay82"}, {Kind: "request", C: 0, Alt: true, Tr: "relay82", Tgt: "mine", Shape: "selecting"}}},
		{"moved-port-stale-index", sigV4Circuit, v4relayed, []v4op{
			// c0 moves to another port (renews with a new circuit-id); the index keeps the old circuit-id -> c0's lease;
			// a different device on the old port is then offered and ACKed c0's address
			{Kind: "dora", C: 0, Tr: "relay82"}, {Kind: "request", C: 0, Tr: "relay82other", Other: 2, Tgt: "mine", Shape: "renewing"},
			{Kind: "dora", C: 0, Alt: true, Tr: "relay82"}}},
		{"cpe-swap-after-expiry", sigV4Swap, v4relayed, []v4op{
			// the swap happens when the old CPE's lease has just run out (no duplicate in the table at any time):
			// the old MAC's DISCOVER / the cleanup tick then free the address under the new CPE
			{Kind: "dora", C: 0, Tr: "own"}, {Kind: "advance", Delta: "full"}, {Kind: "request", C: 0, Alt: true, Tr: "own", Tgt: "mine", Shape: "selecting"},
			{Kind: "discover", C: 0, Tr: "own"}}},
		{"cpe-swap-consequence", sigV4TableDup + "same-circuit", v4relayed, []v4op{
			// the old CPE's stale entry expires first: cleanup frees the address the new CPE still holds, and a fresh client is given it
			{Kind: "dora", C: 0, Tr: "relay82"}, {Kind: "advance", Delta: "half"}, {Kind: "request", C: 0, Alt: true, Tr: "relay82", Tgt: "mine", Shape: "selecting"},
			{Kind: "advance", Delta: "half"}, {Kind: "advance", Delta: "1s"}, {Kind: "cleanup"}}},
	}
}

// TestReplayV4Findings re-runs the minimal history of every listed DHCPv4 finding.
// While a finding is listed its signature must still fire (silently); once it is
// fixed and removed from the list the same history must pass.
func TestReplayV4Findings(t *testing.T) {
	for _, sc := range v4Scenarios() {
		res := execV4(t, sc.cfg, sc.ops, true)
		if os.Getenv("C02_EXPLORE") != "" {
			t.Logf("scenario %s (want %s): %v\n%s", sc.name, sc.sig, res.viol, joinLines(res.log))
			continue
		}
		hit := false
		for _, v := range res.viol {
			if v.Sig == sc.sig {
				hit = true
			}
		}
		if vstat.IsListed(sc.sig) && !hit {
			t.Errorf("STALE known finding: scenario %s no longer produces %s (got %v)\n%s", sc.name, sc.sig, res.viol, joinLines(res.log))
			continue
		}
		kf := report(t, res.viol, func() string { return joinLines(res.log) })
		vstat.Case(res.nt, vstat.Hash("v4-replay", sc.name), nil, append([]string{"proto:v4", "gen:replay"}, kf...)...)
	}
}

var _ = sort.Strings
