package c02

// C02 — DHCP servers never bind one address or prefix to two clients.
//
// Generated DHCPv4 / DHCPv6 message histories from a handful of clients,
// interleaved with virtual-time advances (testing/synctest) and cleanup ticks,
// are delivered to the real packet handlers through the `verif` hooks.  A
// monitor built only from the replies the clients see (plus a cross-check of
// the lease-table snapshot) decides the clauses of the statement.
//
// v4_test.go  DHCPv4 generator, executor, monitor, replays
// v6_test.go  DHCPv6 generator, executor, monitor, replays

import (
	"encoding/json"
	"fmt"
	"os"
	"runtime"
	"runtime/debug"
	"sort"
	"strings"
	"testing"

	"bngverif/internal/vstat"
)

func TestMain(m *testing.M) {
	// every process drives one single-threaded history at a time; a small heap with 16 Ps only buys GC and futex churn
	runtime.GOMAXPROCS(2)
	debug.SetGCPercent(800)
	vstat.Main(m, "C02")
}

// violation is a verdict produced inside a synctest bubble and reported outside it.
type violation struct {
	Sig string
	Msg string
}

// report hands the violations of one executed case to vstat: unlisted ones
// first (fatal), then the listed known findings (counted).  It returns the
// class labels "kf:<sig>" for the listed ones.
func report(t vstat.Fataler, vs []violation, history func() string) []string {
	t.Helper()
	var cls []string
	for _, v := range vs {
		if !vstat.IsListed(v.Sig) {
			vstat.Fail(t, v.Sig, "%s\nhistory:\n%s", v.Msg, history())
			return cls // not reached: Fail is fatal for unlisted signatures
		}
	}
	seen := map[string]bool{}
	for _, v := range vs {
		if seen[v.Sig] {
			continue
		}
		seen[v.Sig] = true
		vstat.Fail(t, v.Sig, "%s", v.Msg) // listed: counts the hit, returns true
		cls = append(cls, "kf:"+v.Sig)
	}
	return cls
}

func jsonOf(v any) string {
	b, _ := json.Marshal(v)
	return string(b)
}

func sortedKeys[V any](m map[string]V) []string {
	ks := make([]string, 0, len(m))
	for k := range m {
		ks = append(ks, k)
	}
	sort.Strings(ks)
	return ks
}

func replaying() bool { return os.Getenv("VERIF_REPLAYING") != "" }

func joinLines(ls []string) string { return strings.Join(ls, "\n") }

func sprintf(f string, a ...any) string { return fmt.Sprintf(f, a...) }
