package c02

import (
	"bytes"
	"encoding/hex"
	"fmt"
	"net"
	"os"
	"strings"
	"sync"
	"syscall"
	"testing"
	"testing/synctest"
	"time"

	"github.com/codelaboratoryltd/bng/pkg/dhcpv6"
	"go.uber.org/zap"
	"pgregory.net/rapid"

	"bngverif/internal/vstat"
)

// ---------------------------------------------------------------------------
// signatures

const (
	// a Reply names a value that is bound (unexpired) to a different client
	sigV6AckForeign = "C02/v6/reply-foreign-binding/" // + SOLICIT-rapid | REQUEST | RENEW | REBIND
	// a Reply names a value that is under an outstanding Advertise to a different client
	sigV6AckForeignOffer = "C02/v6/reply-foreign-advertise/"
	// an Advertise/Reply names a value outside the pool, the subnet-router (network) address, or a misaligned / wrong-length prefix
	sigV6Unusable = "C02/v6/unusable-value/" // + Advertise | Reply
	// a declined address appears again
	sigV6Declined = "C02/v6/declined-offered-again/" // + Advertise | Reply
	// the lease table holds one value under two client DUIDs
	sigV6TableDup = "C02/v6/lease-table-duplicate/" // + address | prefix
	// RENEW/REBIND of an own unexpired binding is not answered with the same value
	sigV6Renew = "C02/v6/renew-not-same/" // + no-reply | no-binding | other-value
	// a value that must be available again is not obtained by the drain probe
	sigV6NotAvail = "C02/v6/not-available-again/" // + released | expired | abandoned-advertise | lost-after-advertise
	sigV6Panic    = "C02/v6/handler-panic"
)

// ---------------------------------------------------------------------------
// transport: the server writes replies to a concrete *net.UDPConn; a loopback
// socket pair is created once per process (outside any bubble).  Replies go to
// <addr.IP>:546, so every process binds its own 127.x.y.z:546.

type v6net struct {
	srv    *net.UDPConn
	cli    *net.UDPConn
	cliRaw syscall.RawConn
	addr   *net.UDPAddr // what the handler is told the client's address is
	seq    uint32
}

var (
	v6netOnce sync.Once
	v6netVal  *v6net
	v6netErr  error
)

func getV6Net() (*v6net, error) {
	v6netOnce.Do(func() {
		n := &v6net{}
		pid := os.Getpid()
		for i := 0; i < 200; i++ {
			ip := net.IPv4(127, byte(1+(pid>>8)%250), byte(pid), byte(1+i%250))
			c, err := net.ListenUDP("udp4", &net.UDPAddr{IP: ip, Port: dhcpv6.DHCPv6ClientPort})
			if err != nil {
				v6netErr = err
				continue
			}
			n.cli, n.addr, v6netErr = c, &net.UDPAddr{IP: ip, Port: dhcpv6.DHCPv6ClientPort}, nil
			break
		}
		if n.cli == nil {
			return
		}
		s, err := net.ListenUDP("udp4", &net.UDPAddr{IP: net.IPv4(127, 0, 0, 1), Port: 0})
		if err != nil {
			v6netErr = err
			return
		}
		n.srv = s
		n.cliRaw, v6netErr = n.cli.SyscallConn()
		v6netVal = n
	})
	if v6netVal == nil && v6netErr == nil {
		v6netErr = fmt.Errorf("no loopback address available for port 546")
	}
	return v6netVal, v6netErr
}

// recvNonblock reads one datagram without parking the goroutine (a goroutine
// parked in network I/O is not durably blocked for synctest).
func (n *v6net) recvNonblock(buf []byte) (int, error) {
	var got int
	var rerr error
	err := n.cliRaw.Read(func(fd uintptr) bool {
		got, _, rerr = syscall.Recvfrom(int(fd), buf, syscall.MSG_DONTWAIT)
		return true
	})
	if err != nil {
		return 0, err
	}
	return got, rerr
}

// collect returns every datagram the server sent since the last call.  A
// sentinel is written through the same server socket after the handler
// returned; everything in front of it in the receive queue is a reply.
func (n *v6net) collect() ([][]byte, error) {
	n.seq++
	sentinel := []byte{0xfe, 'C', '0', '2', byte(n.seq >> 24), byte(n.seq >> 16), byte(n.seq >> 8), byte(n.seq)}
	if _, err := n.srv.WriteToUDP(sentinel, n.addr); err != nil {
		return nil, err
	}
	var out [][]byte
	buf := make([]byte, 4096)
	spins := 0
	for {
		k, err := n.recvNonblock(buf)
		if err == syscall.EAGAIN || err == syscall.EWOULDBLOCK {
			// loopback delivery happens inside sendto(); this is only reached under unusual softirq deferral
			spins++
			if spins > 20000 {
				return nil, fmt.Errorf("sentinel datagram never arrived")
			}
			ts := syscall.Timespec{Nsec: 50_000}
			_ = syscall.Nanosleep(&ts, nil)
			continue
		}
		if err != nil {
			return nil, err
		}
		if k == len(sentinel) && bytes.Equal(buf[:k], sentinel) {
			return out, nil
		}
		if k >= 1 && buf[0] == 0xfe {
			continue // stale sentinel
		}
		out = append(out, append([]byte(nil), buf[:k]...))
	}
}

// ---------------------------------------------------------------------------
// configuration

type v6cfg struct {
	HasNA   bool   `json:"na"`
	NABits  int    `json:"nabits,omitempty"` // 120..127
	HasPD   bool   `json:"pd"`
	PDBase  int    `json:"pdbase,omitempty"` // pool prefix length
	PDIdx   int    `json:"pdidx,omitempty"`  // delegation length = PDBase + PDIdx (2^PDIdx prefixes)
	Pref    uint32 `json:"pref"`
	Valid   uint32 `json:"valid"`
	K       int    `json:"k"`
	NetByte byte   `json:"nb"`
}

type v6geom struct {
	cfg      v6cfg
	naNet    *net.IPNet
	pdNet    *net.IPNet
	delegLen int
	usable   map[string]bool // "A:<addr>" / "P:<prefix>/<len>"
	order    []string
	valid    time.Duration
}

func newV6Geom(c v6cfg) *v6geom {
	g := &v6geom{cfg: c, usable: map[string]bool{}, valid: time.Duration(c.Valid) * time.Second}
	if c.HasNA {
		_, g.naNet, _ = net.ParseCIDR(fmt.Sprintf("2001:db8:%x::/%d", 0x100+int(c.NetByte), c.NABits))
		ip := append(net.IP(nil), g.naNet.IP.To16()...)
		for i := 0; i < 1000; i++ {
			for j := 15; j >= 0; j-- {
				ip[j]++
				if ip[j] != 0 {
					break
				}
			}
			if !g.naNet.Contains(ip) {
				break
			}
			k := "A:" + ip.String()
			g.usable[k] = true
			g.order = append(g.order, k)
		}
	}
	if c.HasPD {
		_, g.pdNet, _ = net.ParseCIDR(fmt.Sprintf("2001:db8:%x00::/%d", 0x10+int(c.NetByte)%0x80, c.PDBase))
		g.delegLen = c.PDBase + c.PDIdx
		n := 1 << c.PDIdx
		for i := 0; i < n; i++ {
			ip := append(net.IP(nil), g.pdNet.IP.To16()...)
			// place i in bits [PDBase, delegLen)
			for b := 0; b < c.PDIdx; b++ {
				if i&(1<<b) != 0 {
					pos := g.delegLen - 1 - b
					ip[pos/8] |= 1 << (7 - uint(pos%8))
				}
			}
			k := fmt.Sprintf("P:%s/%d", ip, g.delegLen)
			g.usable[k] = true
			g.order = append(g.order, k)
		}
	}
	return g
}

func (g *v6geom) serverConfig() dhcpv6.ServerConfig {
	sc := dhcpv6.ServerConfig{Interface: "lo", PreferredLifetime: g.cfg.Pref, ValidLifetime: g.cfg.Valid, DNSServers: []string{"2001:4860:4860::8888"}}
	if g.cfg.HasNA {
		sc.AddressPool = g.naNet.String()
	}
	if g.cfg.HasPD {
		sc.PrefixPool = g.pdNet.String()
		sc.DelegationLength = uint8(g.delegLen)
	}
	return sc
}

func (g *v6geom) checkAddr(ip net.IP) string {
	switch {
	case g.naNet == nil:
		return "the server has no address pool"
	case !g.naNet.Contains(ip):
		return "outside the address pool " + g.naNet.String()
	case ip.Equal(g.naNet.IP):
		return "the pool's network (subnet-router anycast) address"
	}
	return ""
}

func (g *v6geom) checkPrefix(ip net.IP, plen int) string {
	switch {
	case g.pdNet == nil:
		return "the server has no prefix pool"
	case plen != g.delegLen:
		return fmt.Sprintf("prefix length /%d, the pool delegates /%d", plen, g.delegLen)
	case !g.pdNet.Contains(ip):
		return "outside the prefix pool " + g.pdNet.String()
	case !ip.Mask(net.CIDRMask(plen, 128)).Equal(ip):
		return "not aligned to its own length"
	}
	return ""
}

func genV6Cfg() *rapid.Generator[v6cfg] {
	return rapid.Custom(func(t *rapid.T) v6cfg {
		c := v6cfg{}
		switch rapid.SampledFrom([]string{"both", "both", "na", "pd"}).Draw(t, "pools") {
		case "both":
			c.HasNA, c.HasPD = true, true
		case "na":
			c.HasNA = true
		default:
			c.HasPD = true
		}
		c.NABits = rapid.SampledFrom([]int{126, 126, 126, 125, 125, 124, 127, 122, 120}).Draw(t, "naBits")
		c.PDBase = rapid.SampledFrom([]int{48, 52, 56, 60, 61}).Draw(t, "pdBase")
		c.PDIdx = rapid.SampledFrom([]int{1, 1, 2, 2, 2, 3, 3, 4}).Draw(t, "pdIdx")
		c.Valid = uint32(rapid.OneOf(rapid.SampledFrom([]int{120, 300, 7200}), rapid.IntRange(60, 7200)).Draw(t, "valid"))
		c.Pref = c.Valid * uint32(rapid.IntRange(1, 4).Draw(t, "prefQuarter")) / 4
		c.K = rapid.SampledFrom([]int{1, 2, 2, 3, 3, 3, 4, 4}).Draw(t, "k")
		c.NetByte = byte(rapid.IntRange(0, 255).Draw(t, "netByte"))
		return c
	})
}

// ---------------------------------------------------------------------------
// ops

type v6op struct {
	Kind  string `json:"k"` // solicit request renew rebind confirm release decline advance
	C     int    `json:"c"`
	Cid   string `json:"cid,omitempty"` // "" normal | empty | missing
	Rapid bool   `json:"rc,omitempty"`
	NA    bool   `json:"na,omitempty"`
	PD    bool   `json:"pd,omitempty"`
	IAID  uint32 `json:"iaid,omitempty"`
	Two   bool   `json:"two,omitempty"` // a second IA of each requested type with IAID+1
	Sid   string `json:"sid,omitempty"` // "" right | wrong | missing
	Tgt   string `json:"tgt,omitempty"` // confirm: own foreign offlink
	Delta string `json:"d,omitempty"`   // 1s pref half valid
	Part  bool   `json:"part,omitempty"` // release/decline name only the address (not the prefix)
}

func (o v6op) String() string {
	if o.Kind == "advance" {
		return "advance(" + o.Delta + ")"
	}
	s := fmt.Sprintf("%s c%d", o.Kind, o.C)
	if o.Cid != "" {
		s += " cid=" + o.Cid
	}
	if o.Rapid {
		s += " rapid"
	}
	if o.NA {
		s += " NA"
	}
	if o.PD {
		s += " PD"
	}
	if o.Two {
		s += " x2"
	}
	if o.Sid != "" {
		s += " sid=" + o.Sid
	}
	if o.Tgt != "" {
		s += " tgt=" + o.Tgt
	}
	if o.Part {
		s += " part"
	}
	return fmt.Sprintf("%s iaid=%d", s, o.IAID)
}

func genV6Op(k int) *rapid.Generator[v6op] {
	kinds := []string{
		"solicit", "solicit", "solicit", "solicit", "solicit",
		"request", "request", "request", "request",
		"renew", "renew", "rebind",
		"confirm",
		"release", "release",
		"decline",
		"advance", "advance", "advance", "advance",
	}
	return rapid.Custom(func(t *rapid.T) v6op {
		o := v6op{Kind: rapid.SampledFrom(kinds).Draw(t, "kind")}
		if o.Kind == "advance" {
			o.Delta = rapid.SampledFrom([]string{"1s", "pref", "half", "valid", "valid"}).Draw(t, "delta")
			return o
		}
		o.C = rapid.IntRange(0, k-1).Draw(t, "client")
		o.Cid = rapid.SampledFrom([]string{"", "", "", "", "", "", "", "", "", "", "empty", "missing"}).Draw(t, "cid")
		o.IAID = uint32(rapid.SampledFrom([]int{1, 1, 1, 2}).Draw(t, "iaid"))
		switch rapid.IntRange(0, 5).Draw(t, "ias") {
		case 0:
			o.NA = true
		case 1:
			o.PD = true
		default:
			o.NA, o.PD = true, true
		}
		o.Two = rapid.IntRange(0, 9).Draw(t, "two") == 0
		switch o.Kind {
		case "solicit":
			o.Rapid = rapid.IntRange(0, 2).Draw(t, "rapid") == 0
		case "request", "renew":
			o.Sid = rapid.SampledFrom([]string{"", "", "", "", "", "", "wrong", "missing"}).Draw(t, "sid")
		case "confirm":
			o.Tgt = rapid.SampledFrom([]string{"own", "foreign", "offlink"}).Draw(t, "tgt")
		case "release", "decline":
			o.Part = rapid.IntRange(0, 5).Draw(t, "part") == 0
		}
		return o
	})
}

func v6duid(i int) []byte { return []byte{0, 3, 0, 1, 0x02, 0, 0, 0, 0, byte(i + 1)} }

// ---------------------------------------------------------------------------
// monitor

type v6val struct {
	kind   string // bound offered released cancelled declined forgotten
	owner  string // DUID bytes
	label  string
	at     time.Time
	expiry time.Time
	// readv: while bound, the value was advertised again to its holder (a SOLICIT from a client the monitor still
	// counts as bound) AND at that moment the server's lease table had no lease of that client naming the value (it
	// releases everything on any RELEASE). Then the Advertise is a fresh pool allocation without a lease: what keeps
	// the value out of circulation afterwards is the abandoned Advertise (KF-C02-14), not the expiry of the old
	// binding. The lease-table evidence only CLASSIFIES a verdict the replies already gave: a re-Advertise of a
	// binding the server still holds allocates nothing, so a value that is not available again after that binding's
	// lifetime reports as .../expired (never listed) - before, any such value was swallowed by the listed signature.
	readv bool
	// unnamedDecl: the client this address was advertised to (and never bound to) later sent a DECLINE, answered
	// Success, that did not name it. Nothing was declined, so the address has to stay in circulation; the server
	// quarantines whatever its pool holds for the DUID (KF-C02-16). Classification evidence only.
	unnamedDecl bool
}

type v6mon struct {
	g        *v6geom
	vals     map[string]*v6val
	offers   map[string]map[string]time.Time // duid -> value -> expiry of the advertise
	declAny  map[string]bool
	touched  map[string]map[string]bool
	classes  map[string]bool
	nt       bool
	viol     []violation
	obtained map[string]bool
	draining bool
}

func newV6Mon(g *v6geom) *v6mon {
	return &v6mon{g: g, vals: map[string]*v6val{}, offers: map[string]map[string]time.Time{}, declAny: map[string]bool{},
		touched: map[string]map[string]bool{}, classes: map[string]bool{}, obtained: map[string]bool{}}
}

func (m *v6mon) fail(sig, f string, a ...any) {
	m.viol = append(m.viol, violation{Sig: sig, Msg: fmt.Sprintf(f, a...)})
}

func (m *v6mon) touch(val, duid string, now time.Time) {
	if m.draining {
		return // the probe's own fresh clients do not make a case non-trivial
	}
	t := m.touched[val]
	if t == nil {
		t = map[string]bool{}
		m.touched[val] = t
	}
	t[duid] = true
	if len(t) >= 2 {
		m.nt = true
		m.classes["nt:two-clients-one-value"] = true
	}
	if st := m.vals[val]; st != nil && st.owner != duid {
		switch {
		case st.kind == "released":
			m.classes["nt:reuse-after-release"] = true
		case st.kind == "bound" && now.After(st.expiry):
			m.classes["nt:reuse-after-expiry"] = true
		}
	}
}

type v6item struct {
	key   string // A:… / P:…
	valid time.Duration
	bad   string // why the value may not be handed out ("" = fine)
}

func (m *v6mon) cancelOffers(duid string, keep map[string]bool) {
	for v := range m.offers[duid] {
		if keep[v] {
			continue
		}
		if st := m.vals[v]; st != nil && st.kind == "offered" && st.owner == duid {
			st.kind = "cancelled"
		}
		delete(m.offers[duid], v)
	}
}

// leased (may be nil = unknown, treated as "no lease") reports whether the server's lease table holds a lease of this
// client naming the value; classification evidence for v6val.readv only.
func (m *v6mon) onAdvertise(duid, label string, items []v6item, now time.Time, leased func(key string) bool) {
	keep := map[string]bool{}
	for _, it := range items {
		if it.bad != "" {
			m.fail(sigV6Unusable+"Advertise", "Advertise to %s names %s: %s", label, it.key, it.bad)
			return
		}
		if st := m.vals[it.key]; st != nil && st.kind == "declined" {
			m.fail(sigV6Declined+"Advertise", "Advertise to %s names %s which was declined by %s", label, it.key, st.label)
			return
		}
		m.touch(it.key, duid, now)
		keep[it.key] = true
	}
	m.cancelOffers(duid, keep)
	if m.offers[duid] == nil {
		m.offers[duid] = map[string]time.Time{}
	}
	for _, it := range items {
		m.offers[duid][it.key] = now.Add(it.valid)
		st := m.vals[it.key]
		if st != nil && st.kind == "bound" && !now.After(st.expiry) {
			if st.owner == duid && (leased == nil || !leased(it.key)) {
				st.readv = true
			}
			continue
		}
		if st != nil && st.kind == "offered" && !now.After(st.expiry) && st.owner != duid {
			continue
		}
		m.vals[it.key] = &v6val{kind: "offered", owner: duid, label: label, at: now, expiry: now.Add(it.valid)}
	}
}

func (m *v6mon) onReply(duid, label, reqKind string, items []v6item, now time.Time) {
	keep := map[string]bool{}
	for _, it := range items {
		if it.bad != "" {
			m.fail(sigV6Unusable+"Reply", "Reply(%s) to %s names %s: %s", reqKind, label, it.key, it.bad)
			return
		}
		st := m.vals[it.key]
		if st != nil && st.kind == "declined" {
			m.fail(sigV6Declined+"Reply", "Reply(%s) to %s names %s which was declined by %s", reqKind, label, it.key, st.label)
			return
		}
		if st != nil && st.kind == "bound" && now.Before(st.expiry) && st.owner != duid {
			m.fail(sigV6AckForeign+reqKind, "Reply(%s) to %s names %s which is bound to %s until %s (now %s)", reqKind, label, it.key, st.label, st.expiry.Format("15:04:05"), now.Format("15:04:05"))
			return
		}
		if st != nil && st.kind == "offered" && now.Before(st.expiry) && st.owner != duid {
			m.fail(sigV6AckForeignOffer+reqKind, "Reply(%s) to %s names %s which is under an outstanding Advertise to %s (since %s, now %s)", reqKind, label, it.key, st.label, st.at.Format("15:04:05"), now.Format("15:04:05"))
			return
		}
		m.touch(it.key, duid, now)
		keep[it.key] = true
	}
	for _, it := range items {
		// the client now holds it.key in an IA of that kind; another value of the same kind it held before is no longer asserted
		for _, k := range sortedKeys(m.vals) {
			o := m.vals[k]
			if k != it.key && k[0] == it.key[0] && o.kind == "bound" && o.owner == duid && !keep[k] {
				o.kind = "forgotten"
			}
		}
		m.vals[it.key] = &v6val{kind: "bound", owner: duid, label: label, at: now, expiry: now.Add(it.valid)}
		if m.draining {
			m.obtained[it.key] = true
		}
	}
	m.cancelOffers(duid, keep)
}

// onGiveUp handles RELEASE (decline=false) and DECLINE (decline=true) naming the given values.
func (m *v6mon) onGiveUp(duid, label string, named []string, decline bool, now time.Time) {
	isNamed := map[string]bool{}
	for _, v := range named {
		isNamed[v] = true
		if decline {
			m.declAny[v] = true
		}
	}
	for _, k := range sortedKeys(m.vals) {
		st := m.vals[k]
		if st.owner != duid {
			continue
		}
		switch st.kind {
		case "bound":
			if !isNamed[k] {
				st.kind = "forgotten" // the server is free to keep or drop what the message did not name
				continue
			}
			if now.After(st.expiry) {
				// (at the very instant the lifetime ends the binding still counts as held, as in onAdvertise: the server
				// processes a RELEASE of a lease record whatever its age, so the value is given up either way)
				continue
			}
			if decline && k[0] == 'A' {
				st.kind, st.label = "declined", label
				m.classes["decline-bound"] = true
			} else {
				st.kind, st.at = "released", now
				m.classes["release-bound"] = true
			}
		case "offered":
			if isNamed[k] && decline && k[0] == 'A' && now.Before(st.expiry) {
				st.kind, st.label = "declined", label
			} else {
				st.kind = "cancelled"
				st.unnamedDecl = st.unnamedDecl || (decline && k[0] == 'A')
			}
		case "cancelled":
			if decline && k[0] == 'A' && !isNamed[k] {
				st.unnamedDecl = true
			}
		}
	}
	delete(m.offers, duid)
}

func (m *v6mon) checkTable(ls []dhcpv6.VerifLease) {
	seen := map[string]string{}
	for _, l := range ls {
		var keys []string
		if l.Lease.Address != nil {
			keys = append(keys, "A:"+l.Lease.Address.String())
		}
		if l.Lease.Prefix != nil {
			ones, _ := l.Lease.Prefix.Mask.Size()
			keys = append(keys, fmt.Sprintf("P:%s/%d", l.Lease.Prefix.IP, ones))
		}
		for _, k := range keys {
			if o, dup := seen[k]; dup && o != l.Key {
				kind := "address"
				if k[0] == 'P' {
					kind = "prefix"
				}
				m.fail(sigV6TableDup+kind, "lease table holds %s under two client DUIDs %x and %x", k, o, l.Key)
				return
			}
			seen[k] = l.Key
		}
	}
}

// ---------------------------------------------------------------------------
// executor

type v6run struct {
	g       *v6geom
	srv     *dhcpv6.Server
	net     *v6net
	mon     *v6mon
	log     []string
	xid     uint32
	sid     []byte
	allowKF bool
	msgs    int
}

func newV6Run(g *v6geom, n *v6net, allowKF bool) (*v6run, error) {
	srv, err := dhcpv6.NewServer(g.serverConfig(), zap.NewNop())
	if err != nil {
		return nil, err
	}
	srv.VerifSetConn(n.srv)
	return &v6run{g: g, srv: srv, net: n, mon: newV6Mon(g), sid: srv.VerifServerDUID(), allowKF: allowKF}, nil
}

func (x *v6run) logf(f string, a ...any) { x.log = append(x.log, fmt.Sprintf(f, a...)) }

type v6reply struct {
	typ    uint8
	status int // top-level status code, -1 if absent
	items  []v6item
	iaStat []string
}

func (x *v6run) parseReply(b []byte) (*v6reply, error) {
	msg, err := dhcpv6.ParseMessage(b)
	if err != nil {
		return nil, err
	}
	r := &v6reply{typ: msg.Type, status: -1}
	if so := msg.GetOption(dhcpv6.OptStatusCode); so != nil && len(so.Data) >= 2 {
		r.status = int(so.Data[0])<<8 | int(so.Data[1])
	}
	for _, o := range msg.GetAllOptions(dhcpv6.OptIANA) {
		ia, err := dhcpv6.ParseIANA(o.Data)
		if err != nil {
			return nil, fmt.Errorf("unparsable IA_NA in reply: %v", err)
		}
		for _, io := range ia.Options {
			switch io.Code {
			case dhcpv6.OptIAAddr:
				a, err := dhcpv6.ParseIAAddress(io.Data)
				if err != nil {
					return nil, fmt.Errorf("unparsable IAADDR in reply: %v", err)
				}
				ip := append(net.IP(nil), a.Address...)
				r.items = append(r.items, v6item{key: "A:" + ip.String(), valid: time.Duration(a.ValidLifetime) * time.Second, bad: x.g.checkAddr(ip)})
			case dhcpv6.OptStatusCode:
				if len(io.Data) >= 2 {
					r.iaStat = append(r.iaStat, fmt.Sprintf("NA:%d", int(io.Data[0])<<8|int(io.Data[1])))
				}
			}
		}
	}
	for _, o := range msg.GetAllOptions(dhcpv6.OptIAPD) {
		ia, err := dhcpv6.ParseIAPD(o.Data)
		if err != nil {
			return nil, fmt.Errorf("unparsable IA_PD in reply: %v", err)
		}
		for _, io := range ia.Options {
			switch io.Code {
			case dhcpv6.OptIAPrefix:
				p, err := dhcpv6.ParseIAPrefix(io.Data)
				if err != nil {
					return nil, fmt.Errorf("unparsable IAPREFIX in reply: %v", err)
				}
				ip := append(net.IP(nil), p.Prefix...)
				r.items = append(r.items, v6item{key: fmt.Sprintf("P:%s/%d", ip, p.PrefixLength), valid: time.Duration(p.ValidLifetime) * time.Second, bad: x.g.checkPrefix(ip, int(p.PrefixLength))})
			case dhcpv6.OptStatusCode:
				if len(io.Data) >= 2 {
					r.iaStat = append(r.iaStat, fmt.Sprintf("PD:%d", int(io.Data[0])<<8|int(io.Data[1])))
				}
			}
		}
	}
	return r, nil
}

func (r *v6reply) String() string {
	name := map[uint8]string{dhcpv6.MsgTypeAdvertise: "Advertise", dhcpv6.MsgTypeReply: "Reply"}[r.typ]
	if name == "" {
		name = fmt.Sprintf("type%d", r.typ)
	}
	var vs []string
	for _, it := range r.items {
		vs = append(vs, it.key)
	}
	s := name
	if r.status >= 0 {
		s += fmt.Sprintf("(status %d)", r.status)
	}
	if len(vs) > 0 {
		s += " " + strings.Join(vs, " ")
	}
	if len(r.iaStat) > 0 {
		s += " [" + strings.Join(r.iaStat, " ") + "]"
	}
	return s
}

// deliver sends one message through the wire form and returns the parsed replies.
func (x *v6run) deliver(msg *dhcpv6.Message) (rs []*v6reply, panicked any, err error) {
	x.msgs++
	wire := msg.Serialize()
	func() {
		defer func() { panicked = recover() }()
		err = x.srv.VerifHandleBytes(wire, x.net.addr)
	}()
	if panicked != nil || err != nil {
		// still drain the socket
		_, _ = x.net.collect()
		return nil, panicked, err
	}
	raw, cerr := x.net.collect()
	if cerr != nil {
		return nil, nil, cerr
	}
	for _, b := range raw {
		r, perr := x.parseReply(b)
		if perr != nil {
			return nil, nil, perr
		}
		rs = append(rs, r)
	}
	return rs, nil, nil
}

func fmtV6Replies(rs []*v6reply) string {
	if len(rs) == 0 {
		return "(no reply)"
	}
	var p []string
	for _, r := range rs {
		p = append(p, r.String())
	}
	return strings.Join(p, ", ")
}

func (x *v6run) held(duid string, kind byte, now time.Time) string {
	for _, k := range sortedKeys(x.mon.vals) {
		st := x.mon.vals[k]
		if k[0] == kind && st.kind == "bound" && st.owner == duid && now.Before(st.expiry) {
			return k
		}
	}
	return ""
}

func (x *v6run) offered(duid string, kind byte) string {
	for _, k := range sortedKeys(x.mon.offers[duid]) {
		if k[0] == kind {
			return k
		}
	}
	return ""
}

func iaNA(iaid uint32, key string) dhcpv6.Option {
	ia := &dhcpv6.IANA{IAID: iaid}
	if key != "" {
		ia.Options = append(ia.Options, dhcpv6.MakeIAAddressOption(&dhcpv6.IAAddress{Address: net.ParseIP(key[2:]), PreferredLifetime: 0, ValidLifetime: 0}))
	}
	return dhcpv6.MakeIANAOption(ia)
}

func iaPD(iaid uint32, key string) dhcpv6.Option {
	ia := &dhcpv6.IAPD{IAID: iaid}
	if key != "" {
		ip, n, _ := net.ParseCIDR(key[2:])
		ones, _ := n.Mask.Size()
		ia.Options = append(ia.Options, dhcpv6.MakeIAPrefixOption(&dhcpv6.IAPrefix{PrefixLength: uint8(ones), Prefix: ip}))
	}
	return dhcpv6.MakeIAPDOption(ia)
}

func (x *v6run) message(typ uint8, o v6op, duid []byte, naKey, pdKey string) *dhcpv6.Message {
	x.xid++
	m := &dhcpv6.Message{Type: typ, TransactionID: [3]byte{byte(x.xid >> 16), byte(x.xid >> 8), byte(x.xid)}}
	switch o.Cid {
	case "missing":
	case "empty":
		m.Options = append(m.Options, dhcpv6.MakeClientIDOption(nil))
	default:
		m.Options = append(m.Options, dhcpv6.MakeClientIDOption(duid))
	}
	needSid := typ == dhcpv6.MsgTypeRequest || typ == dhcpv6.MsgTypeRenew || typ == dhcpv6.MsgTypeRelease || typ == dhcpv6.MsgTypeDecline
	if needSid {
		switch o.Sid {
		case "missing":
		case "wrong":
			m.Options = append(m.Options, dhcpv6.Option{Code: dhcpv6.OptServerID, Data: []byte{0, 3, 0, 1, 0xde, 0xad, 0xbe, 0xef, 0, 1}})
		default:
			m.Options = append(m.Options, dhcpv6.Option{Code: dhcpv6.OptServerID, Data: x.sid})
		}
	}
	if o.Rapid && typ == dhcpv6.MsgTypeSolicit {
		m.Options = append(m.Options, dhcpv6.Option{Code: dhcpv6.OptRapidCommit})
	}
	if o.NA {
		m.Options = append(m.Options, iaNA(o.IAID, naKey))
		if o.Two {
			m.Options = append(m.Options, iaNA(o.IAID+1, ""))
		}
	}
	if o.PD {
		m.Options = append(m.Options, iaPD(o.IAID, pdKey))
		if o.Two {
			m.Options = append(m.Options, iaPD(o.IAID+1, ""))
		}
	}
	m.Options = append(m.Options, dhcpv6.Option{Code: dhcpv6.OptElapsedTime, Data: []byte{0, 0}})
	return m
}

func (x *v6run) step(o v6op) bool {
	now := time.Now()
	if o.Kind == "advance" {
		d := time.Second
		switch o.Delta {
		case "pref":
			d = time.Duration(x.g.cfg.Pref)*time.Second + time.Second
		case "half":
			d = x.g.valid / 2
		case "valid":
			d = x.g.valid + time.Second
		}
		for _, k := range sortedKeys(x.mon.vals) {
			st := x.mon.vals[k]
			if st.kind == "bound" && now.Before(st.expiry) && now.Add(d).After(st.expiry) {
				x.mon.nt = true
				x.mon.classes["nt:expiry-crossed"] = true
			}
		}
		time.Sleep(d)
		synctest.Wait()
		x.logf("advance %s -> %s", d, time.Now().Format("15:04:05"))
		return true
	}
	c := o.C % x.g.cfg.K
	duidB := v6duid(c)
	label := fmt.Sprintf("c%d", c)
	duid := string(duidB)
	switch o.Cid {
	case "empty":
		duid, label = "", label+"(empty-id)"
	case "missing":
		label += "(no-id)"
	}
	if o.Cid != "" {
		x.mon.classes["cid:"+o.Cid] = true
	}
	if !x.g.cfg.HasNA {
		o.NA = false
		o.PD = true
	}
	if !x.g.cfg.HasPD {
		o.PD = false
		o.NA = true
	}
	if !x.allowKF && o.Kind == "decline" && anyListed(sigV6Declined+"Advertise", sigV6Declined+"Reply") {
		x.logf("%s DECLINE skipped (steering around a listed finding)", label)
		x.mon.classes["steered:decline"] = true
		return true
	}
	heldNA, heldPD := x.held(duid, 'A', now), x.held(duid, 'P', now)
	var typ uint8
	naKey, pdKey := "", ""
	switch o.Kind {
	case "solicit":
		typ = dhcpv6.MsgTypeSolicit
		if o.Rapid {
			x.mon.classes["rapid-commit"] = true
		}
	case "request":
		typ = dhcpv6.MsgTypeRequest
		naKey, pdKey = x.offered(duid, 'A'), x.offered(duid, 'P')
	case "renew":
		typ = dhcpv6.MsgTypeRenew
		naKey, pdKey = heldNA, heldPD
	case "rebind":
		typ = dhcpv6.MsgTypeRebind
		naKey, pdKey = heldNA, heldPD
	case "confirm":
		typ = dhcpv6.MsgTypeConfirm
		o.NA, o.PD = true, false
		switch o.Tgt {
		case "foreign":
			for _, k := range sortedKeys(x.mon.vals) {
				if st := x.mon.vals[k]; k[0] == 'A' && st.kind == "bound" && st.owner != duid {
					naKey = k
				}
			}
		case "offlink":
			naKey = "A:2001:db8:ffff::1"
		default:
			naKey = heldNA
		}
		if naKey == "" {
			naKey = "A:2001:db8:ffff::2"
		}
	case "release":
		typ = dhcpv6.MsgTypeRelease
		naKey, pdKey = heldNA, heldPD
		if naKey == "" {
			naKey = x.offered(duid, 'A')
		}
		if pdKey == "" {
			pdKey = x.offered(duid, 'P')
		}
	case "decline":
		typ = dhcpv6.MsgTypeDecline
		naKey = heldNA
		if naKey == "" {
			naKey = x.offered(duid, 'A')
		}
		o.PD = false
		o.NA = true
	}
	if (o.Kind == "release") && o.Part {
		o.PD, pdKey = false, ""
		o.NA = true
	}
	if o.NA && !o.PD {
		x.mon.classes["ia:na-only"] = true
	} else if o.PD && !o.NA {
		x.mon.classes["ia:pd-only"] = true
	} else {
		x.mon.classes["ia:na+pd"] = true
	}
	msg := x.message(typ, o, duidB, naKey, pdKey)
	rs, pan, err := x.deliver(msg)
	if pan != nil {
		x.mon.fail(sigV6Panic, "%s from %s panicked: %v", o.Kind, label, pan)
		return false
	}
	if err != nil {
		x.mon.fail("C02/harness/transport", "%v", err)
		return false
	}
	x.logf("%s %s -> %s", label, strings.ToUpper(o.String()), fmtV6Replies(rs))
	x.mon.classes["op:"+o.Kind] = true
	if o.Cid == "missing" {
		// no identity: whatever the server does must not name a value
		for _, r := range rs {
			if len(r.items) > 0 {
				x.mon.onReply("\x00anonymous", label, o.Kind, r.items, now)
			}
		}
		return x.after()
	}
	switch o.Kind {
	case "solicit":
		for _, r := range rs {
			if r.typ == dhcpv6.MsgTypeAdvertise {
				x.mon.onAdvertise(duid, label, r.items, now, x.leasedBy(duid))
			} else if r.typ == dhcpv6.MsgTypeReply {
				x.mon.onReply(duid, label, "SOLICIT-rapid", r.items, now)
			}
		}
		if len(rs) > 0 && len(rs[0].items) == 0 {
			x.mon.classes["exhausted"] = true
		}
	case "request", "renew", "rebind":
		kindName := strings.ToUpper(o.Kind)
		// clause (4): renewing an own unexpired binding
		demand := (o.Kind == "renew" && o.Sid == "") || o.Kind == "rebind"
		var want []string
		if demand {
			if o.NA && heldNA != "" {
				want = append(want, heldNA)
			}
			if o.PD && heldPD != "" {
				want = append(want, heldPD)
			}
		}
		got := map[string]bool{}
		for _, r := range rs {
			if r.typ == dhcpv6.MsgTypeReply {
				for _, it := range r.items {
					got[it.key] = true
				}
			}
		}
		if len(want) > 0 {
			x.mon.classes["renew-own"] = true
			for _, w := range want {
				if got[w] {
					continue
				}
				sub := "other-value"
				if len(rs) == 0 {
					sub = "no-reply"
				} else if rs[0].status == dhcpv6.StatusNoBinding {
					sub = "no-binding"
				}
				x.mon.fail(sigV6Renew+sub, "%s %s of its unexpired binding %s answered with %s", label, kindName, w, fmtV6Replies(rs))
				return false
			}
		}
		for _, r := range rs {
			if r.typ == dhcpv6.MsgTypeReply {
				x.mon.onReply(duid, label, kindName, r.items, now)
			}
		}
	case "release", "decline":
		var named []string
		if o.NA && naKey != "" {
			named = append(named, naKey)
		}
		if o.PD && pdKey != "" {
			named = append(named, pdKey)
		}
		ok := false
		for _, r := range rs {
			if r.typ == dhcpv6.MsgTypeReply && (r.status == dhcpv6.StatusSuccess || r.status == -1) {
				ok = true
			}
			if len(r.items) > 0 {
				x.mon.onReply(duid, label, strings.ToUpper(o.Kind), r.items, now)
			}
		}
		if ok || o.Sid == "" {
			x.mon.onGiveUp(duid, label, named, o.Kind == "decline", now)
		}
	case "confirm":
		for _, r := range rs {
			// a Reply to CONFIRM only says whether the addresses are on-link; it must not carry a binding
			if len(r.items) > 0 {
				x.mon.onReply(duid, label, "CONFIRM", r.items, now)
			}
		}
	}
	return x.after()
}

// leasedBy returns a predicate over value keys: does the server's lease table hold a lease of duid naming the value?
func (x *v6run) leasedBy(duid string) func(string) bool {
	keys := map[string]bool{}
	for _, l := range x.srv.VerifLeases() {
		if l.Key != duid {
			continue
		}
		if l.Lease.Address != nil {
			keys["A:"+l.Lease.Address.String()] = true
		}
		if l.Lease.Prefix != nil {
			ones, _ := l.Lease.Prefix.Mask.Size()
			keys[fmt.Sprintf("P:%s/%d", l.Lease.Prefix.IP, ones)] = true
		}
	}
	return func(k string) bool { return keys[k] }
}

// heldForAdvertisedClient: classification evidence for KF-C02-14 (never decides whether something is a violation):
// held = the server's pool holds value v for the client duid; leased = the lease table has a lease of that client naming it.
func (x *v6run) heldForAdvertisedClient(v, duid string) (held, leased bool) {
	p := x.srv.VerifPools()
	switch v[0] {
	case 'A':
		held = "A:"+p.AddrAllocated[duid] == v
	case 'P':
		held = "P:"+p.PrefixAllocated[duid] == v
	}
	return held, x.leasedBy(duid)(v)
}

func (x *v6run) after() bool {
	if len(x.mon.viol) > 0 {
		return false
	}
	x.mon.checkTable(x.srv.VerifLeases())
	return len(x.mon.viol) == 0
}

func (x *v6run) drain() {
	now := time.Now()
	x.logf("-- drain probe at %s", now.Format("15:04:05"))
	x.mon.draining = true
	if !x.drainRound(0, now) {
		return
	}
	// a binding's lifetime as the client sees it may end before the server's record of it does (one
	// timestamp per client): only what was given up explicitly has to be available right now
	x.demand(now, false)
	if len(x.mon.viol) > 0 {
		return
	}
	// second probe: after one more valid lifetime nothing is bound or advertised any more,
	// so every value that was ever handed out (and not declined) must be obtainable again
	time.Sleep(x.g.valid + 61*time.Second)
	synctest.Wait()
	now = time.Now()
	x.logf("-- second drain probe at %s (one valid lifetime + 61 s later)", now.Format("15:04:05"))
	x.mon.obtained = map[string]bool{}
	if !x.drainRound(1000, now) {
		return
	}
	x.demand(now, true)
}

func (x *v6run) drainRound(base int, now time.Time) bool {
	limit := len(x.g.order) + 3
	for i := base; i < base+limit; i++ {
		duidB := []byte{0, 3, 0, 1, 0x02, 0xff, 0, 0, byte(i >> 8), byte(i)}
		label := fmt.Sprintf("f%d", i)
		o := v6op{Kind: "solicit", Rapid: true, NA: x.g.cfg.HasNA, PD: x.g.cfg.HasPD, IAID: 1}
		msg := x.message(dhcpv6.MsgTypeSolicit, o, duidB, "", "")
		rs, pan, err := x.deliver(msg)
		if pan != nil {
			x.mon.fail(sigV6Panic, "drain SOLICIT panicked: %v", pan)
			return false
		}
		if err != nil {
			x.mon.fail("C02/harness/transport", "%v", err)
			return false
		}
		n := 0
		for _, r := range rs {
			if r.typ == dhcpv6.MsgTypeReply {
				n += len(r.items)
				x.mon.onReply(string(duidB), label, "SOLICIT-rapid", r.items, now)
			}
		}
		if len(x.mon.viol) > 0 {
			x.logf("%s SOLICIT rapid -> %s", label, fmtV6Replies(rs))
			return false
		}
		if n == 0 {
			x.logf("%s SOLICIT rapid -> %s: pools exhausted after %d fresh clients", label, fmtV6Replies(rs), i-base)
			break
		}
	}
	x.mon.checkTable(x.srv.VerifLeases())
	if len(x.mon.viol) > 0 {
		return false
	}
	x.logf("drain obtained %d values", len(x.mon.obtained))
	return true
}

func (x *v6run) demand(now time.Time, second bool) {
	for _, v := range x.g.order {
		if x.mon.obtained[v] || x.mon.declAny[v] {
			continue
		}
		st := x.mon.vals[v]
		reason := ""
		switch {
		case st == nil:
		case st.kind == "bound":
			if second && now.After(st.expiry) {
				reason = "expired"
				if st.readv {
					reason = "abandoned-advertise"
				}
			}
		case st.kind == "offered":
			if second && now.After(st.expiry) {
				reason = "abandoned-advertise"
			}
		case st.kind == "cancelled":
			reason = "abandoned-advertise"
		case st.kind == "released":
			reason = "released"
		}
		if reason == "abandoned-advertise" {
			// KF-C02-14 is "the Advertise's pool allocation for that client is never given back": the pool must still
			// hold the value for the client it was advertised to, and that client must have no lease naming it.
			switch held, leased := x.heldForAdvertisedClient(v, st.owner); {
			case held && !leased:
			case held && leased:
				// the server still has a lease of that client naming the value (one timestamp per client: renewing the
				// address keeps the prefix alive and vice versa), so the Advertise repeated a binding and allocated
				// nothing: like any binding it has to be back after one more valid lifetime, not before
				reason = ""
				if second {
					reason = "expired"
				}
			default:
				// out of circulation in any other way: lost by another cause (never listed)
				reason = "lost-after-advertise"
				if st.unnamedDecl {
					reason = "advertised-then-quarantined-by-decline-not-naming-it"
				}
			}
		}
		if reason == "" {
			continue
		}
		which := "the"
		if second {
			which = "the second set of"
		}
		x.mon.fail(sigV6NotAvail+reason, "%s (%s; last held/advertised by %s at %s, lifetime ended %s) is not handed out to any of %s fresh clients that exhausted the pools at %s; pools %s",
			v, reason, st.label, st.at.Format("15:04:05"), st.expiry.Format("15:04:05"), which, now.Format("15:04:05"), fmtV6Pools(x.srv.VerifPools()))
	}
}

func fmtV6Pools(p dhcpv6.VerifPoolState) string {
	var b []string
	for _, d := range sortedKeys(p.AddrAllocated) {
		b = append(b, fmt.Sprintf("addr %s->duid %x", p.AddrAllocated[d], d))
	}
	b = append(b, fmt.Sprintf("addr available %v", p.AddrAvailable))
	for _, d := range sortedKeys(p.PrefixAllocated) {
		b = append(b, fmt.Sprintf("prefix %s->duid %x", p.PrefixAllocated[d], d))
	}
	b = append(b, fmt.Sprintf("prefix available %v", p.PrefixAvailable))
	return strings.Join(b, "; ")
}

type v6result struct {
	deadAt  int
	viol    []violation
	log     []string
	classes []string
	nt      bool
}

func execV6(t *testing.T, n *v6net, cfg v6cfg, ops []v6op, allowKF bool) v6result {
	var res v6result
	synctest.Test(t, func(t *testing.T) {
		res = execV6InBubble(n, cfg, ops, allowKF)
	})
	return res
}

func execV6InBubble(n *v6net, cfg v6cfg, ops []v6op, allowKF bool) v6result {
	g := newV6Geom(cfg)
	x, err := newV6Run(g, n, allowKF)
	if err != nil {
		return v6result{viol: []violation{{Sig: "C02/harness/setup", Msg: err.Error()}}}
	}
	x.logf("address pool %v, prefix pool %v delegating /%d, preferred=%ds valid=%ds, clients=%d, values=%d", g.naNet, g.pdNet, g.delegLen, cfg.Pref, cfg.Valid, cfg.K, len(g.order))
	ok := true
	deadAt := -1
	for i, o := range ops {
		if !x.step(o) {
			ok = false
			deadAt = i
			break
		}
	}
	if ok {
		x.drain()
	}
	m := x.mon
	switch {
	case cfg.HasNA && cfg.HasPD:
		m.classes["pools:na+pd"] = true
	case cfg.HasNA:
		m.classes["pools:na"] = true
	default:
		m.classes["pools:pd"] = true
	}
	if allowKF {
		m.classes["kf-exercise"] = true
	}
	cls := sortedKeys(m.classes)
	for i := range cls {
		cls[i] = "v6:" + cls[i]
	}
	return v6result{deadAt: deadAt, viol: m.viol, log: x.log, classes: cls, nt: m.nt}
}

func finishV6(t vstat.Fataler, kind string, cfg v6cfg, ops []v6op, res v6result) {
	t.Helper()
	if len(res.viol) > 0 && strings.HasPrefix(res.viol[0].Sig, "C02/harness/") {
		t.Fatalf("INCONCLUSIVE harness error: %s\n%s", res.viol[0].Msg, joinLines(res.log))
	}
	kf := report(t, res.viol, func() string { return joinLines(res.log) })
	cls := append(append([]string{"proto:v6", kind}, res.classes...), kf...)
	vstat.Case(res.nt, vstat.Hash("v6", jsonOf(cfg), jsonOf(ops)), func() any {
		strs := make([]string, len(ops))
		for i, o := range ops {
			strs[i] = o.String()
		}
		return map[string]any{"proto": "v6", "cfg": cfg, "ops": strs}
	}, cls...)
}

// TestPropV6Random: random DHCPv6 histories from k<=4 DUIDs over small address / prefix pools.
func TestPropV6Random(t *testing.T) {
	n, err := getV6Net()
	if err != nil {
		t.Fatalf("INCONCLUSIVE cannot create the loopback socket pair: %v", err)
	}
	vstat.Checks(2000, 50000)
	rapid.Check(t, func(rt *rapid.T) {
		cfg := genV6Cfg().Draw(rt, "cfg")
		ops := rapid.SliceOfN(genV6Op(cfg.K), 1, 25).Draw(rt, "ops")
		allowKF := rapid.IntRange(0, 9).Draw(rt, "exerciseKF") == 0
		res := execV6(t, n, cfg, ops, allowKF)
		finishV6(rt, "gen:random", cfg, ops, res)
	})
}

// TestPropV6Contention: pools of 1-3 addresses / 2 prefixes, k>=2, everybody binds first:
// exhaustion, release and reuse by another client dominate.
func TestPropV6Contention(t *testing.T) {
	n, err := getV6Net()
	if err != nil {
		t.Fatalf("INCONCLUSIVE cannot create the loopback socket pair: %v", err)
	}
	vstat.Checks(2000, 50000)
	rapid.Check(t, func(rt *rapid.T) {
		cfg := genV6Cfg().Draw(rt, "cfg")
		cfg.NABits = rapid.SampledFrom([]int{127, 126, 126}).Draw(rt, "tinyNA")
		cfg.PDIdx = rapid.SampledFrom([]int{1, 1, 2}).Draw(rt, "tinyPD")
		if cfg.K < 2 {
			cfg.K = 2
		}
		cfg.Valid = uint32(rapid.SampledFrom([]int{120, 600}).Draw(rt, "valid"))
		cfg.Pref = cfg.Valid / 2
		var ops []v6op
		for c := 0; c < cfg.K; c++ {
			ops = append(ops, v6op{Kind: "solicit", C: c, NA: true, PD: true, IAID: 1, Rapid: rapid.Bool().Draw(rt, "rapid0")})
			if !ops[len(ops)-1].Rapid {
				ops = append(ops, v6op{Kind: "request", C: c, NA: true, PD: true, IAID: 1})
			}
		}
		tail := rapid.SliceOfN(genV6Op(cfg.K), 3, 22).Draw(rt, "ops")
		ops = append(ops, tail...)
		allowKF := rapid.IntRange(0, 9).Draw(rt, "exerciseKF") == 0
		res := execV6(t, n, cfg, ops, allowKF)
		finishV6(rt, "gen:contention", cfg, ops, res)
	})
}

// ---------------------------------------------------------------------------
// bounded-exhaustive sequences

func v6Alphabet(k int) []v6op {
	var a []v6op
	for c := 0; c < k; c++ {
		a = append(a,
			v6op{Kind: "solicit", C: c, NA: true, PD: true, IAID: 1, Rapid: true},
			v6op{Kind: "release", C: c, NA: true, PD: true, IAID: 1},
		)
		if k == 2 {
			a = append(a, v6op{Kind: "request", C: c, NA: true, PD: true, IAID: 1}, v6op{Kind: "decline", C: c, NA: true, IAID: 1})
		}
	}
	if k == 2 {
		a = append(a, v6op{Kind: "solicit", C: 0, NA: true, PD: true, IAID: 1})
	} else {
		a = append(a, v6op{Kind: "request", C: 0, NA: true, PD: true, IAID: 1})
	}
	a = append(a, v6op{Kind: "renew", C: 0, NA: true, PD: true, IAID: 1}, v6op{Kind: "advance", Delta: "valid"})
	return a
}

func TestPropV6Exhaustive(t *testing.T) {
	n, err := getV6Net()
	if err != nil {
		t.Fatalf("INCONCLUSIVE cannot create the loopback socket pair: %v", err)
	}
	if !vstat.Thorough() {
		runV6Exhaustive(t, n, 2, 3)
		return
	}
	runV6Exhaustive(t, n, 2, 6)
	runV6Exhaustive(t, n, 3, 6)
}

func runV6Exhaustive(t *testing.T, nw *v6net, k, depth int) {
	alpha := v6Alphabet(k)
	cfg := v6cfg{HasNA: true, NABits: 126, HasPD: true, PDBase: 60, PDIdx: 1, Pref: 60, Valid: 120, K: k}
	shard, shards := vstat.Shard()
	n := len(alpha)
	total := 1
	for i := 0; i < depth; i++ {
		total *= n
	}
	pow := make([]int, depth+1)
	pow[0] = 1
	for j := 1; j <= depth; j++ {
		pow[j] = pow[j-1] * n
	}
	idx := make([]int, depth)
	done, pruned := 0, 0
	const batch = 2000
	for start := shard * batch; start < total; start += shards * batch {
		end := start + batch
		if end > total {
			end = total
		}
		type one struct {
			ops []v6op
			res v6result
		}
		var results []one
		synctest.Test(t, func(t *testing.T) {
			for s := start; s < end; {
				v := s
				for i := depth - 1; i >= 0; i-- {
					idx[i] = v % n
					v /= n
				}
				ops := make([]v6op, depth)
				for i, j := range idx {
					ops[i] = alpha[j]
				}
				res := execV6InBubble(nw, cfg, ops, true)
				results = append(results, one{ops, res})
				next := s + 1
				if res.deadAt >= 0 && res.deadAt < depth-1 {
					next = (s/pow[depth-1-res.deadAt] + 1) * pow[depth-1-res.deadAt]
					if next > end {
						next = end
					}
					pruned += next - s - 1
				}
				s = next
			}
		})
		for _, r := range results {
			finishV6(t, fmt.Sprintf("gen:exhaustive-k%d-d%d", k, depth), cfg, r.ops, r.res)
			done++
		}
	}
	vstat.Note(fmt.Sprintf("v6-exhaustive-k%d-depth%d", k, depth), map[string]any{"alphabet": len(alpha), "sequences_total": total, "executed_this_shard": done,
		"pruned_this_shard_same_prefix_as_a_known_finding": pruned, "shards": shards})
	vstat.Exhaustive(true)
}

// ---------------------------------------------------------------------------
// replays

type v6scenario struct {
	name string
	sig  string
	cfg  v6cfg
	ops  []v6op
}

var v6base = v6cfg{HasNA: true, NABits: 126, HasPD: true, PDBase: 60, PDIdx: 1, Pref: 60, Valid: 120, K: 3}

func v6Scenarios() []v6scenario {
	both := func(kind string, c int) v6op { return v6op{Kind: kind, C: c, NA: true, PD: true, IAID: 1} }
	rapidSol := func(c int) v6op { o := both("solicit", c); o.Rapid = true; return o }
	return []v6scenario{
		{"no-expiry", sigV6NotAvail + "expired", v6base, []v6op{rapidSol(0), {Kind: "advance", Delta: "valid"}}},
		{"decline-is-release", sigV6Declined + "Reply", v6base, []v6op{rapidSol(0), {Kind: "decline", C: 0, NA: true, IAID: 1}}},
		{"decline-is-release-advertise", sigV6Declined + "Advertise", v6cfg{HasNA: true, NABits: 127, Pref: 60, Valid: 120, K: 3}, []v6op{
			{Kind: "solicit", C: 0, NA: true, IAID: 1, Rapid: true}, {Kind: "decline", C: 0, NA: true, IAID: 1}, {Kind: "solicit", C: 1, NA: true, IAID: 1}}},
		{"advertise-never-requested", sigV6NotAvail + "abandoned-advertise", v6base, []v6op{both("solicit", 0), {Kind: "advance", Delta: "valid"}}},
		{"advertise-then-release", sigV6NotAvail + "abandoned-advertise", v6base, []v6op{both("solicit", 0), both("release", 0)}},
		// KF-C02-16: the RENEW (answered NoBinding) makes the client forget the Advertise; its DECLINE then carries an
		// IA_NA without an address, and the server quarantines the advertised address all the same
		{"decline-not-naming-the-advertised-address", sigV6NotAvail + "advertised-then-quarantined-by-decline-not-naming-it", v6base, []v6op{
			{Kind: "solicit", C: 0, NA: true, IAID: 1}, {Kind: "renew", C: 0, NA: true, IAID: 1}, {Kind: "decline", C: 0, NA: true, IAID: 1}}},
	}
}

func TestReplayV6Findings(t *testing.T) {
	n, err := getV6Net()
	if err != nil {
		t.Fatalf("INCONCLUSIVE cannot create the loopback socket pair: %v", err)
	}
	for _, sc := range v6Scenarios() {
		res := execV6(t, n, sc.cfg, sc.ops, true)
		if os.Getenv("C02_EXPLORE") != "" {
			t.Logf("scenario %s (want %s): %v\n%s", sc.name, sc.sig, res.viol, joinLines(res.log))
			continue
		}
		hit := false
		for _, v := range res.viol {
			if v.Sig == sc.sig {
				hit = true
			}
		}
		if vstat.IsListed(sc.sig) && !hit {
			t.Errorf("STALE known finding: scenario %s no longer produces %s (got %v)\n%s", sc.name, sc.sig, res.viol, joinLines(res.log))
			continue
		}
		kf := report(t, res.viol, func() string { return joinLines(res.log) })
		vstat.Case(res.nt, vstat.Hash("v6-replay", sc.name), nil, append([]string{"proto:v6", "gen:replay"}, kf...)...)
	}
}

var _ = hex.EncodeToString
