package c15

// Generators: secrets, authentic base requests, and one mutation per class.

import (
	"crypto/md5"
	"fmt"
	"strings"

	"pgregory.net/rapid"
)

func genBytes(t *rapid.T, lo, hi int, label string) []byte {
	return rapid.SliceOfN(rapid.Byte(), lo, hi).Draw(t, label)
}

// genSecret: "all secrets" — printable, binary (NUL and high octets included), one octet, long.
func genSecret(t *rapid.T) []byte {
	switch rapid.IntRange(0, 5).Draw(t, "secretKind") {
	case 0:
		return []byte(rapid.StringOfN(rapid.RuneFrom([]rune("abcXYZ019-_!$ ")), 1, 24, -1).Draw(t, "secret"))
	case 1:
		return genBytes(t, 1, 1, "secret1")
	case 2:
		return genBytes(t, 65, 200, "secretLong")
	case 3:
		return []byte(rapid.SampledFrom([]string{"testing123", "secret", "s", "\x00", "\x00\x00", "a\x00b", "\xff\xfe", "пароль"}).Draw(t, "secretFixed"))
	default:
		return genBytes(t, 1, 48, "secretBin")
	}
}

var attrTypes = []byte{1, 4, 8, 11, 18, 25, 26, 27, 28, 30, 31, 32, 44, 55, 61, 80, 87, 101}

// sessions is the small session alphabet used with the CoAProcessor wiring.
var sessionAlphabet = []string{"sess-1", "sess-2", "sess-3", "ghost-1", "ghost-2"}

type base struct {
	code, id byte
	attrs    []byte // strictly well-formed TLVs
	pkt      []byte // signed packet
}

// genAttrs draws 0..max strictly well-formed attributes.
func genAttrs(t *rapid.T, minN, maxN int, withSession bool) []byte {
	var out []byte
	n := rapid.IntRange(minN, maxN).Draw(t, "nAttrs")
	if withSession && rapid.IntRange(0, 2).Draw(t, "longIds") == 0 {
		out = genLongIdentifiers(t)
	} else if withSession {
		id := rapid.SampledFrom(sessionAlphabet).Draw(t, "session")
		out = append(out, 44, byte(2+len(id)))
		out = append(out, id...)
		if rapid.Bool().Draw(t, "withFilter") {
			f := rapid.SampledFrom([]string{"gold", "silver", "bronze-10M"}).Draw(t, "filter")
			out = append(out, 11, byte(2+len(f)))
			out = append(out, f...)
		}
	}
	for i := 0; i < n; i++ {
		var typ byte
		if rapid.IntRange(0, 3).Draw(t, "knownType") > 0 {
			typ = rapid.SampledFrom(attrTypes).Draw(t, "attrType")
		} else {
			typ = rapid.Byte().Draw(t, "attrTypeAny")
		}
		if withSession && (typ == 44 || typ == 8 || typ == 31) {
			typ = 25 // keep the session key of the processor cases unique
		}
		var v []byte
		switch rapid.IntRange(0, 9).Draw(t, "valKind") {
		case 0, 1, 2:
			v = genBytes(t, 4, 4, "val4")
		case 3:
			v = genBytes(t, 1, 253, "valAny")
		default:
			v = genBytes(t, 1, 20, "valShort")
		}
		out = append(out, typ, byte(2+len(v)))
		out = append(out, v...)
	}
	return out
}

func genBase(t *rapid.T, secret []byte, minAttrs int, withSession bool) base {
	b := base{}
	b.code = rapid.SampledFrom([]byte{codeCoARequest, codeDisconnectRequest}).Draw(t, "code")
	b.id = rapid.Byte().Draw(t, "id")
	b.attrs = genAttrs(t, minAttrs, 5, withSession)
	if rapid.IntRange(0, 24).Draw(t, "big") == 0 {
		// fill up towards the RADIUS maximum with full-size attributes
		target := rapid.IntRange(3000, radiusMaxLen-hdrLen).Draw(t, "bigTarget")
		for len(b.attrs)+3 <= target {
			l := target - len(b.attrs)
			if l > 255 {
				l = 255
			}
			if rem := target - len(b.attrs) - l; rem > 0 && rem < 3 {
				l -= 3
			}
			a := make([]byte, l)
			a[0], a[1] = 25, byte(l)
			for i := 2; i < l; i++ {
				a[i] = byte(i * 7)
			}
			b.attrs = append(b.attrs, a...)
		}
	}
	b.pkt = sign(b.code, b.id, b.attrs, secret)
	return b
}

func genResult(t *rapid.T) result {
	r := result{ok: rapid.Bool().Draw(t, "handlerOK")}
	switch rapid.IntRange(0, 3).Draw(t, "causeKind") {
	case 0:
	case 1:
		r.cause = rapid.SampledFrom([]uint32{201, 402, 403, 404, 405, 406, 501, 503, 504, 506, 508}).Draw(t, "cause")
	default:
		r.cause = rapid.Uint32().Draw(t, "causeAny")
	}
	// Reply-Message text the handler hands back: handlers are free to return any string (the repository's
	// CoAProcessor echoes the request's identifiers in its NAK text, which exceeds the 253 octets one
	// attribute can carry); boundary lengths around the attribute limit and well beyond it.
	switch rapid.IntRange(0, 3).Draw(t, "msgKind") {
	case 0:
	case 1:
		r.msg = string(genBytes(t, 1, 200, "msg"))
	default:
		n := rapid.SampledFrom(replyMessageLens).Draw(t, "msgLen")
		r.msg = string(genBytes(t, n, n, "msgN"))
	}
	return r
}

var replyMessageLens = []int{0, 1, 252, 253, 254, 255, 300, 600, 4000}

// msgShape buckets a Reply-Message length for class labels and violation signatures.
func msgShape(n int) string {
	switch {
	case n == 0:
		return "no-reply-message"
	case n <= 253:
		return "reply-message<=253"
	}
	return "reply-message>253"
}

// callClasses: the handler-outcome dimension of an acted-on request (from what the handler actually returned).
func callClasses(cs []call) []string {
	var out []string
	for _, c := range cs {
		h := "handler:nak"
		if c.ok {
			h = "handler:ack"
		}
		ec := "error-cause:absent"
		if c.cause != 0 {
			ec = "error-cause:present"
		}
		out = append(out, h, ec, "handler:"+msgShape(c.msgLen), h+"/"+msgShape(c.msgLen))
		for _, n := range replyMessageLens {
			if c.msgLen == n {
				out = append(out, fmt.Sprintf("msglen:%d", n))
			}
		}
	}
	return out
}

// longKnownSession is a session id of the maximum attribute size that exists in the processor's table.
var longKnownSession = "sess-long-" + strings.Repeat("k", 243)

// genLongIdentifiers: Acct-Session-Id / Calling-Station-Id / User-Name of up to 253 octets each, for a
// known or an unknown session (what a RADIUS server may legally send; RFC 2866 5.5 puts no bound on
// Acct-Session-Id below the attribute size).
func genLongIdentifiers(t *rapid.T) []byte {
	var out []byte
	add := func(typ byte, v string) {
		out = append(out, typ, byte(2+len(v)))
		out = append(out, v...)
	}
	printable := func(label string) string {
		n := rapid.SampledFrom([]int{1, 17, 64, 120, 200, 252, 253}).Draw(t, label+"Len")
		b := make([]byte, n)
		c := rapid.SampledFrom([]byte("xyzXYZ019-:")).Draw(t, label+"Ch")
		for i := range b {
			b[i] = c
		}
		return string(b)
	}
	switch rapid.IntRange(0, 3).Draw(t, "longSession") {
	case 0:
		add(44, longKnownSession)
	case 1:
		add(44, rapid.SampledFrom(sessionAlphabet).Draw(t, "session"))
	default:
		id := printable("sid") // an id no session has
		if len(id) > 6 {
			id = "ghost-" + id[6:]
		}
		add(44, id)
	}
	if rapid.IntRange(0, 3).Draw(t, "withCSID") > 0 {
		add(31, printable("csid"))
	}
	if rapid.IntRange(0, 3).Draw(t, "withUser") > 0 {
		add(1, printable("user"))
	}
	if rapid.Bool().Draw(t, "withFilter") {
		add(11, rapid.SampledFrom([]string{"gold", "silver", "bronze-10M"}).Draw(t, "filter"))
	}
	return out
}

// attrOffsets returns the start offsets (relative to the packet) of the TLVs of a well-formed packet.
func attrOffsets(p []byte) []int {
	var offs []int
	for off := hdrLen; off+2 <= len(p); off += int(p[off+1]) {
		offs = append(offs, off)
		if p[off+1] < 2 {
			break
		}
	}
	return offs
}

func setLen(p []byte, l int) { p[2], p[3] = byte(l>>8), byte(l) }

// intent bits: which verdicts the harness expects the oracle to return for a mutation (self-check of the oracle).
const (
	iDrop = 1 << mustDrop
	iAct  = 1 << mustAct
	iEith = 1 << either
	iAny  = iDrop | iAct | iEith
)

type mutant struct {
	d      []byte
	class  string
	intent int
}

func flipBit(p []byte, bit int) { p[bit/8] ^= 0x80 >> (bit % 8) }

func md5cat(parts ...[]byte) []byte {
	h := md5.New()
	for _, p := range parts {
		h.Write(p)
	}
	return h.Sum(nil)
}

// mutate derives one datagram of the given class from an authentic base request.
func mutate(t *rapid.T, b base, secret []byte, class string) mutant {
	p := append([]byte(nil), b.pkt...)
	n := len(p)
	m := mutant{class: class, intent: iDrop}
	resigned := false
	switch class {
	case "valid":
		m.intent = iAct
	case "bitflip:code":
		flipBit(p, rapid.IntRange(0, 7).Draw(t, "bit"))
	case "bitflip:id":
		flipBit(p, 8+rapid.IntRange(0, 7).Draw(t, "bit"))
	case "bitflip:length":
		flipBit(p, 16+rapid.IntRange(0, 15).Draw(t, "bit"))
	case "bitflip:auth":
		flipBit(p, 32+rapid.IntRange(0, 127).Draw(t, "bit"))
	case "bitflip:attrs":
		flipBit(p, hdrLen*8+rapid.IntRange(0, (n-hdrLen)*8-1).Draw(t, "bit"))
	case "byteset:header", "byteset:auth", "byteset:attrs":
		lo, hi := 0, 3
		if class == "byteset:auth" {
			lo, hi = 4, 19
		} else if class == "byteset:attrs" {
			lo, hi = hdrLen, n-1
		}
		i := rapid.IntRange(lo, hi).Draw(t, "pos")
		p[i] ^= byte(rapid.IntRange(1, 255).Draw(t, "xor"))
	case "auth:prefix-only":
		// the first k octets of the authenticator are right, at least one later octet is wrong
		k := rapid.IntRange(1, 15).Draw(t, "k")
		i := rapid.IntRange(k, 15).Draw(t, "pos")
		p[4+i] ^= byte(rapid.IntRange(1, 255).Draw(t, "xor"))
		if rapid.Bool().Draw(t, "scrambleRest") {
			for j := i + 1; j < 16; j++ {
				p[4+j] ^= byte(j*29 + 1)
			}
		}
	case "auth:suffix-only":
		k := rapid.IntRange(1, 15).Draw(t, "k")
		i := rapid.IntRange(0, 15-k).Draw(t, "pos")
		p[4+i] ^= byte(rapid.IntRange(1, 255).Draw(t, "xor"))
	case "len:-k", "len:-k/resigned", "len:-k/signed-over-n":
		// only meaningful when n > 20
		k := rapid.IntRange(1, n-hdrLen).Draw(t, "k")
		setLen(p, n-k)
		switch class {
		case "len:-k/resigned":
			resign(p, n-k, secret)
			m.intent = iEith
		case "len:-k/signed-over-n":
			// signed over the whole datagram although Length covers less: the RADIUS packet
			// (the first Length octets) does not verify
			resign(p, n, secret)
		}
	case "len:+k", "len:+k/resigned", "len:>n", "len:>n/resigned":
		var l int
		if class[:6] == "len:+k" {
			l = n + rapid.IntRange(1, 64).Draw(t, "k")
		} else {
			l = rapid.IntRange(n+1, 65535).Draw(t, "l")
		}
		setLen(p, l)
		if class == "len:+k/resigned" || class == "len:>n/resigned" {
			// the signer hashes the octets it has; Length claims more
			a := requestAuthenticator(p, secret)
			copy(p[4:hdrLen], a[:])
		}
	case "len:<20", "len:<20/resigned":
		l := rapid.IntRange(0, 19).Draw(t, "l")
		setLen(p, l)
		if class == "len:<20/resigned" {
			// sign what a naive signer would: header + zero authenticator + secret (no attributes within Length)
			a := md5cat(p[:4], make([]byte, 16), secret)
			copy(p[4:hdrLen], a)
		}
		if rapid.Bool().Draw(t, "bare") {
			p = p[:hdrLen] // the minimal form: 20 octets, Length below 20
		}
	case "truncate":
		p = p[:rapid.IntRange(0, n-1).Draw(t, "cut")]
	case "truncate/len-updated":
		c := rapid.IntRange(hdrLen, n-1).Draw(t, "cut")
		p = p[:c]
		setLen(p, c)
	case "truncate/resigned":
		c := rapid.IntRange(hdrLen, n-1).Draw(t, "cut")
		p = p[:c]
		setLen(p, c)
		resign(p, c, secret)
		m.intent = iAct | iEith
	case "short":
		p = genBytes(t, 0, 19, "short")
		if len(p) >= 4 && rapid.Bool().Draw(t, "plausibleHdr") {
			copy(p, b.pkt[:4])
		}
	case "append":
		p = append(p, genBytes(t, 1, 40, "tail")...)
		m.intent = iEith
	case "append/len-updated":
		p = append(p, genBytes(t, 1, 40, "tail")...)
		setLen(p, len(p))
	case "append/resigned":
		p = append(p, genBytes(t, 1, 40, "tail")...)
		setLen(p, len(p))
		resign(p, len(p), secret)
		m.intent = iAct | iEith
	case "oversize":
		// more than 4096 octets on the wire
		extra := rapid.IntRange(radiusMaxLen+1-n, radiusMaxLen+600-n).Draw(t, "extra")
		if extra < 1 {
			extra = 1
		}
		tail := make([]byte, extra)
		for i := 0; i+3 <= len(tail); i += 3 {
			tail[i], tail[i+1], tail[i+2] = 25, 3, byte(i)
		}
		p = append(p, tail...)
		m.intent = iAny
		switch rapid.IntRange(0, 2).Draw(t, "oversizeKind") {
		case 0: // Length still the original: everything beyond is padding
		case 1: // Length = whole datagram, signed over all of it
			setLen(p, len(p))
			resign(p, len(p), secret)
		default: // Length = whole datagram, not re-signed
			setLen(p, len(p))
			m.intent = iDrop
		}
	case "tlv:len0", "tlv:len1", "tlv:len2", "tlv:overrun", "tlv:lenany",
		"tlv:len0/resigned", "tlv:len1/resigned", "tlv:len2/resigned", "tlv:overrun/resigned", "tlv:lenany/resigned":
		offs := attrOffsets(p)
		o := offs[rapid.IntRange(0, len(offs)-1).Draw(t, "attr")]
		kind := class[4:]
		if len(kind) > 9 && kind[len(kind)-9:] == "/resigned" {
			kind = kind[:len(kind)-9]
			resigned = true
		}
		old := p[o+1]
		switch kind {
		case "len0":
			p[o+1] = 0
		case "len1":
			p[o+1] = 1
		case "len2":
			p[o+1] = 2
		case "overrun":
			rest := n - o
			if rest >= 255 {
				// cannot overrun the region from here: use the last attribute instead
				o = offs[len(offs)-1]
				old = p[o+1]
				rest = n - o
			}
			if rest >= 255 {
				p[o+1] = 0
			} else {
				p[o+1] = byte(rapid.IntRange(rest+1, 255).Draw(t, "alen"))
			}
		default:
			p[o+1] = byte(rapid.IntRange(0, 255).Draw(t, "alen"))
		}
		if p[o+1] == old {
			p[o+1] ^= 1
		}
		if resigned {
			resign(p, n, secret)
			m.intent = iAct | iEith
		}
	case "wrong-secret:random", "wrong-secret:prefix", "wrong-secret:extended", "wrong-secret:bitflip", "wrong-secret:empty":
		var other []byte
		switch class[13:] {
		case "random":
			other = genBytes(t, 1, 32, "otherSecret")
			if string(other) == string(secret) {
				other = append(other, 'x')
			}
		case "prefix":
			other = append([]byte(nil), secret[:rapid.IntRange(0, len(secret)-1).Draw(t, "plen")]...)
		case "extended":
			other = append(append([]byte(nil), secret...), genBytes(t, 1, 4, "ext")...)
		case "bitflip":
			other = append([]byte(nil), secret...)
			flipBit(other, rapid.IntRange(0, len(other)*8-1).Draw(t, "bit"))
		case "empty":
		}
		resign(p, n, other)
	case "other-code":
		var c byte
		if rapid.Bool().Draw(t, "knownCode") {
			c = rapid.SampledFrom([]byte{1, 2, 3, 4, 5, 11, 12, 13, 41, 42, 44, 45, 0, 255, 39, 46}).Draw(t, "code2")
		} else {
			c = rapid.Byte().Draw(t, "code2any")
		}
		if c == codeCoARequest || c == codeDisconnectRequest {
			c = 4
		}
		p[0] = c
		resign(p, n, secret)
	case "near-sig:no-secret":
		copy(p[4:hdrLen], md5cat(p[:4], make([]byte, 16), p[hdrLen:]))
	case "near-sig:secret-first":
		copy(p[4:hdrLen], md5cat(secret, p[:4], make([]byte, 16), p[hdrLen:]))
	case "near-sig:no-zero-pad":
		copy(p[4:hdrLen], md5cat(p[:4], p[hdrLen:], secret))
	case "near-sig:attrs-only":
		copy(p[4:hdrLen], md5cat(p[hdrLen:], secret))
	case "near-sig:zero-auth":
		copy(p[4:hdrLen], make([]byte, 16))
	case "near-sig:random-auth":
		copy(p[4:hdrLen], genBytes(t, 16, 16, "auth"))
	case "near-sig:response-style":
		// authenticator computed the way a Response Authenticator is (over a request authenticator), not over zeros
		ra := genBytes(t, 16, 16, "reqauth")
		copy(p[4:hdrLen], md5cat(p[:4], ra, p[hdrLen:], secret))
	case "near-sig:secret-as-auth":
		a := make([]byte, 16)
		copy(a, secret)
		copy(p[4:hdrLen], a)
	case "random":
		p = genBytes(t, 0, 300, "random")
		m.intent = iAny
	case "random:header":
		body := genBytes(t, 0, 120, "body")
		p = make([]byte, hdrLen+len(body))
		p[0] = rapid.SampledFrom([]byte{codeCoARequest, codeDisconnectRequest}).Draw(t, "code")
		p[1] = rapid.Byte().Draw(t, "id")
		setLen(p, len(p))
		copy(p[4:hdrLen], genBytes(t, 16, 16, "auth"))
		copy(p[hdrLen:], body)
		m.intent = iAny
	default:
		panic("unknown mutation class " + class)
	}
	if class != "valid" && string(p) == string(b.pkt) {
		// a forged authenticator that coincides with the true one (e.g. secret-first with no attributes)
		m.class, m.intent = "valid", iAct
	}
	m.d = p
	return m
}

// classesNeed reports whether class needs a base with at least one attribute.
func needsAttrs(class string) bool {
	switch class {
	case "bitflip:attrs", "byteset:attrs", "len:-k", "len:-k/resigned", "len:-k/signed-over-n", "truncate/len-updated", "truncate/resigned", "near-sig:secret-first", "near-sig:no-zero-pad", "near-sig:attrs-only":
		return true
	}
	return len(class) > 4 && class[:4] == "tlv:"
}

func describe(secret, d []byte, class string) string {
	return fmt.Sprintf("class=%s secret=%s datagram(%d)=%s", class, hx(secret), len(d), hx(d))
}
