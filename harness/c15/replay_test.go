package c15

// Plain regression cases (no rapid): committed JSON cases in replays/C15/*.json, the write-ahead log of a
// process that died (./check C15 --replay <file>), and the minimal reproducers of listed findings.

import (
	"encoding/hex"
	"encoding/json"
	"os"
	"path/filepath"
	"sort"
	"testing"

	"bngverif/internal/vstat"
)

type replayCase struct {
	Name     string `json:"name"`
	Secret   string `json:"secret"`   // hex
	Datagram string `json:"datagram"` // hex
}

func runReplayCase(t *testing.T, rc replayCase) {
	t.Helper()
	secret, err1 := hex.DecodeString(rc.Secret)
	d, err2 := hex.DecodeString(rc.Datagram)
	if err1 != nil || err2 != nil || len(secret) == 0 {
		t.Fatalf("bad replay case %q", rc.Name)
	}
	for _, mode := range []handlerMode{modeScripted, modeProcessor, modeNone} {
		for _, ok := range []bool{true, false} {
			fx := newFixture(secret, mode, true)
			obs := fx.exchange(d, result{ok: ok, cause: 503, msg: "replay"})
			dead, a, acted := judge(t, fx, d, "replay:"+rc.Name, obs)
			record(fx, mutant{d: d, class: "replay"}, a, acted, dead)
			fx.close()
		}
	}
}

func loadCase(t *testing.T, path string) replayCase {
	b, err := os.ReadFile(path)
	if err != nil {
		t.Fatalf("read %s: %v", path, err)
	}
	var rc replayCase
	if err := json.Unmarshal(b, &rc); err != nil {
		t.Fatalf("parse %s: %v", path, err)
	}
	if rc.Name == "" {
		rc.Name = filepath.Base(path)
	}
	return rc
}

// TestReplayFile replays the file given with ./check C15 --replay <file.json> (e.g. a write-ahead log).
func TestReplayFile(t *testing.T) {
	p := os.Getenv("VERIF_REPLAY_FILE")
	if p == "" {
		t.Skip("no VERIF_REPLAY_FILE")
	}
	runReplayCase(t, loadCase(t, p))
}

// TestReplayCommitted replays every committed case of replays/C15/.
func TestReplayCommitted(t *testing.T) {
	if os.Getenv("VERIF_REPLAY_FILE") != "" {
		t.Skip("single-file replay requested")
	}
	dir := os.Getenv("VERIF_REPLAYS")
	if dir == "" {
		dir = filepath.Join("..", "..", "replays", "C15")
	}
	files, _ := filepath.Glob(filepath.Join(dir, "*.json"))
	sort.Strings(files)
	for _, f := range files {
		runReplayCase(t, loadCase(t, f))
	}
}

// TestReplayKnownLengthBelow20 is the minimal reproducer of KF-C15-1: twenty octets, Length field 0,
// no knowledge of the secret needed.  The statement demands a silent drop; the receive loop panics.
func TestReplayKnownLengthBelow20(t *testing.T) {
	if os.Getenv("VERIF_REPLAY_FILE") != "" {
		t.Skip("single-file replay requested")
	}
	for _, l := range []int{0, 1, 19} {
		d := make([]byte, 20)
		d[0] = codeDisconnectRequest
		d[3] = byte(l)
		runReplayCase(t, replayCase{Name: "length-field-below-20", Secret: hex.EncodeToString([]byte("testing123")), Datagram: hex.EncodeToString(d)})
	}
	_ = vstat.Tier
}
