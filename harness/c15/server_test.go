package c15

// Fixture: a real radius.CoAServer on 127.0.0.1:0, counting handlers, one client socket.
//
// Every test datagram D is followed by a fresh authentic sentinel request S from the same socket.
// The listener handles datagrams one at a time and loopback UDP keeps the order between one pair of
// sockets, so once S's answer has been read, every handler call and every datagram D caused has been
// observed.  No timeout is used as a correctness signal: the read deadline only turns a hang into
// INCONCLUSIVE (exit 3).

import (
	"bytes"
	"context"
	"encoding/json"
	"errors"
	"fmt"
	"net"
	"os"
	"path/filepath"
	"strings"
	"sync"
	"time"

	"github.com/codelaboratoryltd/bng/pkg/radius"
	"go.uber.org/zap"

	"bngverif/internal/vstat"
)

const hangDeadline = 60 * time.Second

type call struct {
	kind      byte // request code the invoked handler belongs to (43 CoA handler, 40 Disconnect handler)
	sessionID string
	ok        bool   // result the handler returned
	msgLen    int    // length of the Reply-Message text the handler returned
	cause     uint32 // Error-Cause the handler returned (0 = none)
}

type result struct {
	ok    bool
	cause uint32
	msg   string
}

// handlerMode selects what is installed behind the listener.
type handlerMode int

const (
	modeScripted  handlerMode = iota // counting handlers returning a scripted result
	modeProcessor                    // the repository's CoAProcessor (coa_handler.go) over a session table, wrapped only to record
	modeNone                         // no handlers installed (listener defaults)
)

type fixture struct {
	secret    []byte
	mode      handlerMode
	recovered bool // loop runs under the recover hook (true) or through the real Start (false)

	srv    *radius.CoAServer
	cancel context.CancelFunc
	done   <-chan any
	cli    *net.UDPConn

	mu       sync.Mutex
	calls    []call
	sToken   string
	dResult  result
	sResult  result
	changes  []string // session ids on which a session-changing callback fired (processor mode)
	sessions map[string]bool
	panicked any
	seq      int
	lastS    []byte // the previous sentinel (the datagram the listener handled last)
}

func inconclusive(format string, a ...any) {
	fmt.Fprintf(os.Stderr, "INCONCLUSIVE: "+format+"\n", a...)
	vstat.Flush()
	os.Exit(3)
}

func newFixture(secret []byte, mode handlerMode, recovered bool) *fixture {
	fx := &fixture{secret: append([]byte(nil), secret...), mode: mode, recovered: recovered, sessions: map[string]bool{}}
	fx.start()
	return fx
}

func (fx *fixture) scriptFor(session string) result {
	if session == fx.sToken {
		return fx.sResult
	}
	return fx.dResult
}

func (fx *fixture) start() {
	srv, err := radius.NewCoAServer(radius.CoAServerConfig{Address: "127.0.0.1:0", Secret: string(fx.secret)}, zap.NewNop())
	if err != nil {
		inconclusive("NewCoAServer: %v", err)
	}
	switch fx.mode {
	case modeScripted:
		srv.SetCoAHandler(func(_ context.Context, req *radius.CoARequest) *radius.CoAResponse {
			fx.mu.Lock()
			defer fx.mu.Unlock()
			r := fx.scriptFor(req.SessionID)
			fx.calls = append(fx.calls, call{codeCoARequest, req.SessionID, r.ok, len(r.msg), r.cause})
			return &radius.CoAResponse{Success: r.ok, ErrorCause: r.cause, Message: r.msg}
		})
		srv.SetDisconnectHandler(func(_ context.Context, req *radius.DisconnectRequest) *radius.DisconnectResponse {
			fx.mu.Lock()
			defer fx.mu.Unlock()
			r := fx.scriptFor(req.SessionID)
			fx.calls = append(fx.calls, call{codeDisconnectRequest, req.SessionID, r.ok, len(r.msg), r.cause})
			return &radius.DisconnectResponse{Success: r.ok, ErrorCause: r.cause, Message: r.msg}
		})
	case modeProcessor:
		p := radius.NewCoAProcessor(zap.NewNop())
		p.SetSessionLookup(func(id string) (*radius.SessionInfo, bool) {
			fx.mu.Lock()
			defer fx.mu.Unlock()
			if fx.sessions[id] {
				return &radius.SessionInfo{SessionID: id}, true
			}
			return nil, false
		})
		p.SetSessionTerminator(func(_ context.Context, id string, _ uint32) error {
			fx.mu.Lock()
			defer fx.mu.Unlock()
			fx.changes = append(fx.changes, id)
			delete(fx.sessions, id)
			return nil
		})
		p.SetSessionPolicyUpdater(func(_ context.Context, id string, _ *radius.PolicyUpdate) error {
			fx.mu.Lock()
			defer fx.mu.Unlock()
			fx.changes = append(fx.changes, id)
			return nil
		})
		srv.SetCoAHandler(func(ctx context.Context, req *radius.CoARequest) *radius.CoAResponse {
			r := p.HandleCoA(ctx, req)
			fx.mu.Lock()
			fx.calls = append(fx.calls, call{codeCoARequest, req.SessionID, r.Success, len(r.Message), r.ErrorCause})
			fx.mu.Unlock()
			return r
		})
		srv.SetDisconnectHandler(func(ctx context.Context, req *radius.DisconnectRequest) *radius.DisconnectResponse {
			r := p.HandleDisconnect(ctx, req)
			fx.mu.Lock()
			fx.calls = append(fx.calls, call{codeDisconnectRequest, req.SessionID, r.Success, len(r.Message), r.ErrorCause})
			fx.mu.Unlock()
			return r
		})
	case modeNone:
	}
	ctx, cancel := context.WithCancel(context.Background())
	if fx.recovered {
		done, err := srv.VerifC15StartRecovered(ctx)
		if err != nil {
			inconclusive("start listener: %v", err)
		}
		fx.done = done
	} else {
		if err := srv.Start(ctx); err != nil {
			inconclusive("start listener: %v", err)
		}
		fx.done = nil
	}
	cli, err := net.DialUDP("udp", nil, srv.VerifC15LocalAddr())
	if err != nil {
		inconclusive("dial listener: %v", err)
	}
	fx.srv, fx.cancel, fx.cli = srv, cancel, cli
	fx.panicked = nil
	if fx.done != nil {
		done := fx.done
		go func() {
			// a panic of the receive loop: remember it and wake the client read up at once
			if p, ok := <-done; ok && p != nil {
				fx.mu.Lock()
				fx.panicked = p
				fx.mu.Unlock()
				_ = cli.SetReadDeadline(time.Unix(1, 0))
			}
		}()
	}
}

// close stops the listener and waits until its goroutine is gone (recovered mode).
func (fx *fixture) close() {
	_ = fx.srv.Stop()
	fx.cancel()
	_ = fx.cli.Close()
	if fx.done != nil {
		t := time.NewTimer(hangDeadline)
		defer t.Stop()
		for {
			select {
			case _, ok := <-fx.done:
				if !ok {
					return
				}
			case <-t.C:
				inconclusive("listener goroutine did not stop")
			}
		}
	}
}

func (fx *fixture) restart() {
	fx.close()
	fx.mu.Lock()
	fx.calls = nil
	fx.mu.Unlock()
	fx.start()
}

// observation is everything datagram D caused.
type observation struct {
	calls     []call   // handler invocations caused by D
	responses [][]byte // datagrams sent back because of D
	changes   int      // session-changing callbacks caused by D (processor mode)
	panicked  any      // the receive loop panicked while D (or its sentinel) was being handled
	sCalls    []call   // what the sentinel caused (it is an authentic request: checked as well)
	sResp     []byte
	sReq      []byte
	eager     bool // returned at the first datagram that came back for must-drop input, before the sentinel's answer
}

// wal writes the datagram about to be delivered (only needed when the loop is NOT recovered): if the
// process dies, the driver finds the culprit in $VERIF_OUT/violations/.
var walFile *os.File

func walPath() string {
	return filepath.Join(os.Getenv("VERIF_OUT"), "violations", "TestReplayFile__wal-last.json")
}

func (fx *fixture) wal(d []byte) {
	if os.Getenv("VERIF_OUT") == "" || fx.recovered {
		return
	}
	if walFile == nil {
		_ = os.MkdirAll(filepath.Dir(walPath()), 0o755)
		f, err := os.OpenFile(walPath(), os.O_CREATE|os.O_RDWR|os.O_TRUNC, 0o644)
		if err != nil {
			inconclusive("write-ahead log: %v", err)
		}
		walFile = f
	}
	b, _ := json.Marshal(replayCase{Name: "write-ahead log: last datagram delivered before the process died",
		Secret: hx(fx.secret), Datagram: hx(d)})
	_ = walFile.Truncate(0)
	if _, err := walFile.WriteAt(b, 0); err != nil {
		inconclusive("write-ahead log: %v", err)
	}
}

func walClear() {
	if walFile != nil {
		_ = walFile.Close()
		walFile = nil
		_ = os.Remove(walPath())
		_ = os.Remove(filepath.Dir(walPath()))
	}
}

// exchange delivers D followed by a fresh sentinel S and returns what D caused.
func (fx *fixture) exchange(d []byte, dres result) observation {
	return fx.exchangeMany([][]byte{d}, dres)
}

// exchangeMany delivers the datagrams ds (a battery makes sense only if each of them must be dropped)
// followed by ONE fresh sentinel.  If every datagram of ds must be dropped, the first datagram that comes
// back and is not the sentinel's answer already decides the case (eager return: no need for the fence,
// so a listener that accepts forgeries but rejects authentic requests cannot hang the check).
func (fx *fixture) exchangeMany(ds [][]byte, dres result) observation {
	d := bytes.Join(ds, nil)
	allDrop := true
	for _, x := range ds {
		if analyse(x, fx.secret).verdict != mustDrop {
			allDrop = false
		}
	}
	fx.seq++
	// sentinel: fresh token (never a substring of D), identifier different from D's
	var token string
	for {
		token = fmt.Sprintf("\x00sentinel-%d-%x", fx.seq, len(d))
		if !bytes.Contains(d, []byte(token)) {
			break
		}
		fx.seq++
	}
	sid := byte(fx.seq*37 + 11)
	for clash := true; clash; {
		clash = false
		for _, x := range ds {
			if len(x) > 1 && sid == x[1] {
				sid += 101
				clash = true
			}
		}
	}
	scode := byte(codeCoARequest)
	if fx.seq&1 == 0 {
		scode = codeDisconnectRequest
	}
	sres := result{ok: fx.seq&2 == 0, cause: uint32(fx.seq&4) * 100, msg: ""}
	if fx.seq&8 != 0 {
		sres.msg = "sentinel"
	}
	// the handler outcome is a dimension of every case: the sentinel's Reply-Message length walks through
	// the boundary lengths (a function of the case only: sequence number, datagram size, identifier)
	if k := (fx.seq*31 + len(d)*17 + int(sid)) % (2 * len(replyMessageLens)); k < len(replyMessageLens) {
		sres.msg = strings.Repeat("s", replyMessageLens[k])
	}
	sattrs := append([]byte{44, byte(2 + len(token))}, token...)
	s := sign(scode, sid, sattrs, fx.secret)

	fx.mu.Lock()
	fx.calls = nil
	fx.sToken, fx.dResult, fx.sResult = token, dres, sres
	if fx.mode == modeProcessor {
		fx.sessions[token] = sres.ok // the sentinel's session exists iff it is meant to succeed
	}
	fx.changes = nil
	fx.mu.Unlock()

	_ = fx.cli.SetReadDeadline(time.Now().Add(hangDeadline))
	for _, x := range ds {
		fx.wal(x)
		if _, err := fx.cli.Write(x); err != nil {
			inconclusive("send D (%d octets): %v", len(x), err)
		}
	}
	if _, err := fx.cli.Write(s); err != nil {
		inconclusive("send S: %v", err)
	}

	obs := observation{sReq: s}
	fx.lastS = s
	buf := make([]byte, 65536)
	for {
		n, err := fx.cli.Read(buf)
		if err != nil {
			fx.mu.Lock()
			p := fx.panicked
			fx.mu.Unlock()
			if p != nil {
				obs.panicked = p
				break
			}
			var ne net.Error
			if errors.As(err, &ne) && ne.Timeout() {
				inconclusive("no answer to the sentinel within %v (%d datagram(s), first=%s secret=%s)", hangDeadline, len(ds), hx(ds[0]), hx(fx.secret))
			}
			inconclusive("client read: %v", err)
		}
		r := append([]byte(nil), buf[:n]...)
		if fx.answersSentinel(r, s) {
			obs.sResp = r
			break
		}
		obs.responses = append(obs.responses, r)
		if allDrop {
			obs.eager = true
			break
		}
	}
	fx.mu.Lock()
	for _, c := range fx.calls {
		if c.sessionID == token {
			obs.sCalls = append(obs.sCalls, c)
		} else {
			obs.calls = append(obs.calls, c)
		}
	}
	for _, id := range fx.changes {
		if id != token {
			obs.changes++
		}
	}
	fx.mu.Unlock()
	return obs
}

// answersSentinel recognises the sentinel's answer permissively (either its authenticator verifies
// against S, or its header is that of an answer to S), so that a listener that answers S wrongly
// is reported as a violation by the strict check afterwards instead of hanging the exchange.
func (fx *fixture) answersSentinel(r, s []byte) bool {
	if len(r) < hdrLen {
		return false
	}
	want := responseAuthenticator(r, s[4:hdrLen], fx.secret)
	if string(want[:]) == string(r[4:hdrLen]) {
		return true
	}
	return r[1] == s[1] && (r[0] == ackNak(s[0], true) || r[0] == ackNak(s[0], false))
}
