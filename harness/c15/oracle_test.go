package c15

// Independent verifier for C15, written from RFC 5176 §2.3 / RFC 2866 §3 (the
// Request Authenticator of CoA-/Disconnect-Requests is computed like the one of
// Accounting-Request) and RFC 2865 §3 (packet format, Length, padding), NOT
// from pkg/radius/coa.go.
//
//   Request Authenticator  = MD5(Code + Identifier + Length + 16 zero octets + request attributes + shared secret)
//   Response Authenticator = MD5(Code + Identifier + Length + Request Authenticator + response attributes + shared secret)

import (
	"crypto/md5"
	"encoding/hex"
	"fmt"
	"testing"

	"bngverif/internal/vstat"
)

func TestMain(m *testing.M) { vstat.Main(m, "C15") }

const (
	codeDisconnectRequest = 40
	codeDisconnectACK     = 41
	codeDisconnectNAK     = 42
	codeCoARequest        = 43
	codeCoAACK            = 44
	codeCoANAK            = 45

	hdrLen       = 20
	radiusMaxLen = 4096 // RFC 2865 §3: maximum packet length
)

// verdict is what the property statement demands for one datagram.
type verdict int

const (
	mustDrop verdict = iota // no handler invocation, no datagram back
	mustAct                 // exactly one handler invocation and exactly one correct ACK/NAK
	either                  // the statement does not settle it; both behaviours accepted (but never half of one)
)

func (v verdict) String() string { return [...]string{"must-drop", "must-act", "either"}[v] }

// shape is the coarse structural description of a datagram; it is part of violation signatures.
type analysis struct {
	verdict verdict
	shape   string
	n, l    int
}

func be16(b []byte) int { return int(b[0])<<8 | int(b[1]) }

// requestAuthenticator computes the RFC 5176 Request Authenticator of the RADIUS packet pkt
// (exactly Length octets) under secret.
func requestAuthenticator(pkt []byte, secret []byte) [16]byte {
	buf := make([]byte, 0, len(pkt)+len(secret))
	buf = append(buf, pkt[:4]...)
	buf = append(buf, make([]byte, 16)...)
	buf = append(buf, pkt[hdrLen:]...)
	buf = append(buf, secret...)
	return md5.Sum(buf)
}

// responseAuthenticator computes the Response Authenticator of resp given the request's authenticator.
func responseAuthenticator(resp []byte, reqAuth []byte, secret []byte) [16]byte {
	buf := make([]byte, 0, len(resp)+len(secret))
	buf = append(buf, resp[:4]...)
	buf = append(buf, reqAuth...)
	buf = append(buf, resp[hdrLen:]...)
	buf = append(buf, secret...)
	return md5.Sum(buf)
}

// tlvState: 0 = strictly well-formed (every attribute has Length >= 3 and the attributes tile the region exactly),
// 1 = parseable only leniently (an attribute with Length 2 = empty value), 2 = malformed.
func tlvState(attrs []byte) int {
	st := 0
	for off := 0; off < len(attrs); {
		if off+2 > len(attrs) {
			return 2 // a lone trailing octet
		}
		al := int(attrs[off+1])
		if al < 2 || off+al > len(attrs) {
			return 2
		}
		if al == 2 {
			st = 1
		}
		off += al
	}
	return st
}

// analyse decides, from the statement alone, what must happen to datagram d on a listener keyed with secret.
func analyse(d []byte, secret []byte) analysis {
	n := len(d)
	a := analysis{n: n, l: -1}
	if n < hdrLen {
		a.verdict, a.shape = mustDrop, "short-datagram"
		return a
	}
	l := be16(d[2:4])
	a.l = l
	if l < hdrLen {
		a.verdict, a.shape = mustDrop, "length-field-below-20"
		return a
	}
	if l > n {
		a.verdict, a.shape = mustDrop, "length-field-beyond-datagram"
		return a
	}
	want := requestAuthenticator(d[:l], secret)
	if string(want[:]) != string(d[4:hdrLen]) {
		a.verdict, a.shape = mustDrop, "bad-authenticator"
		return a
	}
	code := d[0]
	if code != codeCoARequest && code != codeDisconnectRequest {
		a.verdict, a.shape = mustDrop, "authentic-other-code"
		return a
	}
	// authentic CoA-/Disconnect-Request from here on
	switch tlvState(d[hdrLen:l]) {
	case 2:
		// "complete RADIUS packet": an authentic packet whose attribute region does not parse may
		// defensibly be dropped (the implementation does) or acted on; the statement does not say.
		a.verdict, a.shape = either, "authentic-malformed-attributes"
		return a
	case 1:
		a.verdict, a.shape = either, "authentic-empty-attribute"
		return a
	}
	if l > radiusMaxLen {
		a.verdict, a.shape = either, "authentic-oversize"
		return a
	}
	if l < n {
		// octets beyond Length are padding (RFC 2865 §3: ignored on reception); a listener that
		// insisted on n == Length would also be defensible under "complete RADIUS packet".
		a.verdict, a.shape = either, "authentic-with-padding"
		return a
	}
	a.verdict, a.shape = mustAct, "authentic"
	return a
}

// ackNak returns the response code the statement demands for request code rc and handler result ok.
func ackNak(rc byte, ok bool) byte {
	switch {
	case rc == codeCoARequest && ok:
		return codeCoAACK
	case rc == codeCoARequest:
		return codeCoANAK
	case ok:
		return codeDisconnectACK
	default:
		return codeDisconnectNAK
	}
}

// checkResponse verifies one response datagram against the request it claims to answer.
// It returns "" or (kind, detail).
func checkResponse(resp, req, secret []byte, handlerOK *bool) (string, string) {
	if len(resp) < hdrLen {
		return "short", fmt.Sprintf("response of %d octets", len(resp))
	}
	if resp[1] != req[1] {
		return "wrong-identifier", fmt.Sprintf("response identifier %d, request identifier %d", resp[1], req[1])
	}
	if handlerOK != nil {
		if w := ackNak(req[0], *handlerOK); resp[0] != w {
			return "wrong-code", fmt.Sprintf("response code %d, want %d (request code %d, handler success=%v)", resp[0], w, req[0], *handlerOK)
		}
	} else if resp[0] != ackNak(req[0], true) && resp[0] != ackNak(req[0], false) {
		return "wrong-code", fmt.Sprintf("response code %d is neither ACK nor NAK of request code %d", resp[0], req[0])
	}
	if be16(resp[2:4]) != len(resp) {
		return "bad-length", fmt.Sprintf("response length field %d, datagram size %d", be16(resp[2:4]), len(resp))
	}
	want := responseAuthenticator(resp, req[4:hdrLen], secret)
	if string(want[:]) != string(resp[4:hdrLen]) {
		return "bad-authenticator", fmt.Sprintf("response authenticator %x does not verify against the request (want %x)", resp[4:hdrLen], want)
	}
	return "", ""
}

// sign builds a correctly signed request from header fields and an attribute region.
func sign(code, id byte, attrs []byte, secret []byte) []byte {
	p := make([]byte, hdrLen+len(attrs))
	p[0], p[1] = code, id
	p[2], p[3] = byte(len(p)>>8), byte(len(p))
	copy(p[hdrLen:], attrs)
	resign(p, len(p), secret)
	return p
}

// resign recomputes the authenticator of p over its first l octets (header as it stands).
func resign(p []byte, l int, secret []byte) {
	a := requestAuthenticator(p[:l], secret)
	copy(p[4:hdrLen], a[:])
}

func hx(b []byte) string { return hex.EncodeToString(b) }
