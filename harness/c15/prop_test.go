package c15

import (
	"fmt"
	"strings"
	"testing"

	"pgregory.net/rapid"

	"bngverif/internal/vstat"
)

const sigBase = "C15/coa-server/"

func crashSig(shape string) string { return sigBase + "crash/" + shape }

// judge compares what datagram d caused with what the statement demands.
// dead=true: a listed known finding fired (or the loop is gone): the caller must restart or abandon.
func judge(t vstat.Fataler, fx *fixture, d []byte, class string, obs observation) (dead bool, a analysis, acted bool) {
	t.Helper()
	a = analyse(d, fx.secret)
	desc := func() string {
		return fmt.Sprintf("%s; oracle: %s (%s, n=%d length=%d); observed: handler calls=%v responses=%d session-changes=%d",
			describe(fx.secret, d, class), a.verdict, a.shape, a.n, a.l, obs.calls, len(obs.responses), obs.changes)
	}
	if obs.panicked != nil {
		vstat.Fail(t, crashSig(a.shape), "the receive loop panicked (%v) — in production this kills the gateway process; %s", obs.panicked, desc())
		return true, a, false
	}
	nCalls, nResp := len(obs.calls), len(obs.responses)
	acted = nCalls > 0 || nResp > 0 || obs.changes > 0
	if a.verdict == mustDrop {
		if nCalls > 0 || obs.changes > 0 {
			return vstat.Fail(t, sigBase+"handler-invoked-unauthentic/"+a.shape, "a session-changing handler ran for a datagram that is not an authentic complete request; %s", desc()), a, acted
		}
		if nResp > 0 {
			return vstat.Fail(t, sigBase+"response-to-unauthentic/"+a.shape, "a datagram (%s) was sent back for a datagram that is not an authentic complete request; %s", hx(obs.responses[0]), desc()), a, acted
		}
	}
	if a.verdict == mustAct && !acted {
		return vstat.Fail(t, sigBase+"dropped-authentic", "an authentic complete request was dropped; %s", desc()), a, acted
	}
	if acted {
		wantCalls := 1
		if fx.mode == modeNone {
			wantCalls = 0
		}
		if nCalls != wantCalls || nResp != 1 {
			return vstat.Fail(t, sigBase+"handler-response-mismatch", "acting on a request means exactly one handler invocation and exactly one ACK/NAK; %s", desc()), a, acted
		}
		var hok *bool
		if nCalls == 1 {
			if obs.calls[0].kind != d[0] {
				return vstat.Fail(t, sigBase+"wrong-handler", "request code %d reached the handler for code %d; %s", d[0], obs.calls[0].kind, desc()), a, acted
			}
			hok = &obs.calls[0].ok
		}
		if kind, detail := checkResponse(obs.responses[0], d, fx.secret, hok); kind != "" {
			return vstat.Fail(t, sigBase+"response/"+kind+handlerShape(obs.calls), "%s; response=%s; %s", detail, hx(obs.responses[0]), desc()), a, acted
		}
		if fx.mode == modeProcessor && hok != nil && *hok && obs.changes == 0 {
			// processor wiring sanity: an ACK means the session layer was told (not part of the statement; harness self-check)
			t.Fatalf("HARNESS: processor returned success without a session change; %s", desc())
		}
	}
	// the sentinel is itself an authentic complete request
	s := obs.sReq
	sdesc := func() string {
		return fmt.Sprintf("sentinel=%s secret=%s after %s; sentinel handler calls=%v response=%s", hx(s), hx(fx.secret), describe(fx.secret, d, class), obs.sCalls, hx(obs.sResp))
	}
	wantCalls := 1
	if fx.mode == modeNone {
		wantCalls = 0
	}
	if len(obs.sCalls) != wantCalls || obs.sResp == nil {
		return vstat.Fail(t, sigBase+"handler-response-mismatch", "authentic sentinel: %s", sdesc()), a, acted
	}
	var hok *bool
	if wantCalls == 1 {
		if obs.sCalls[0].kind != s[0] {
			return vstat.Fail(t, sigBase+"wrong-handler", "authentic sentinel: %s", sdesc()), a, acted
		}
		hok = &obs.sCalls[0].ok
	}
	if kind, detail := checkResponse(obs.sResp, s, fx.secret, hok); kind != "" {
		return vstat.Fail(t, sigBase+"response/"+kind+handlerShape(obs.sCalls), "authentic sentinel: %s; %s", detail, sdesc()), a, acted
	}
	return false, a, acted
}

// handlerShape is the handler-outcome part of a response signature: "" for the ordinary shape (a
// Reply-Message one attribute can carry, or none), "/reply-message>253" when the handler returned more text.
func handlerShape(cs []call) string {
	if len(cs) == 1 && cs[0].msgLen > 253 {
		return "/" + msgShape(cs[0].msgLen)
	}
	return ""
}

// respClasses: evidence only (the statement does not speak about response attributes): is the attribute
// region of the response a well-formed TLV sequence, is the response within the RADIUS maximum.
func respClasses(obs observation) []string {
	out := callClasses(append(append([]call(nil), obs.calls...), obs.sCalls...))
	for _, r := range append(append([][]byte(nil), obs.responses...), obs.sResp) {
		if len(r) >= hdrLen {
			if tlvState(r[hdrLen:]) == 2 {
				out = append(out, "response:malformed-tlv")
			}
			if len(r) > radiusMaxLen {
				out = append(out, "response:oversize")
			}
		}
	}
	return out
}

func record(fx *fixture, m mutant, a analysis, acted, dead bool, extra ...string) {
	cls := []string{"class:" + m.class, "group:" + groupOf(m.class), "verdict:" + a.verdict.String(), "shape:" + a.shape}
	switch {
	case dead:
		cls = append(cls, "outcome:known-finding")
	case acted:
		cls = append(cls, "outcome:acted")
	default:
		cls = append(cls, "outcome:dropped")
	}
	if a.verdict == either {
		if acted {
			cls = append(cls, "either:"+a.shape+":acted")
		} else {
			cls = append(cls, "either:"+a.shape+":dropped")
		}
	}
	cls = append(cls, extra...)
	nt := m.class != "valid"
	secret, d, class := fx.secret, m.d, m.class
	vstat.Case(nt, vstat.Hash(secret, d), func() any {
		dd := d
		if len(dd) > 96 {
			dd = dd[:96]
		}
		return map[string]any{"class": class, "secret": hx(secret), "n": len(d), "datagram_prefix": hx(dd), "verdict": a.verdict.String(), "shape": a.shape, "acted": acted}
	}, cls...)
}

// groupOf maps a mutation class to the mutation group named in the non-trivial rule.
func groupOf(class string) string {
	switch class {
	case "valid":
		return "control"
	case "bitflip:code", "bitflip:id", "byteset:header":
		return "header"
	case "bitflip:auth", "byteset:auth", "auth:prefix-only", "auth:suffix-only":
		return "authenticator"
	case "bitflip:length":
		return "length-field"
	case "bitflip:attrs", "byteset:attrs":
		return "attributes"
	case "short", "short:stale-prefix":
		return "truncation"
	case "oversize":
		return "appended"
	case "other-code":
		return "other-code"
	}
	for _, g := range [][2]string{{"len:", "length-field"}, {"truncate", "truncation"}, {"append", "appended"}, {"tlv:", "attributes"},
		{"wrong-secret:", "other-secret"}, {"near-sig:", "near-signature"}, {"random", "random"}, {"replay", "replay"}} {
		if strings.HasPrefix(class, g[0]) {
			return g[1]
		}
	}
	return "other"
}

// intentCheck is a self-check of the oracle: the verdict must be one the mutation class can produce.
func intentCheck(t vstat.Fataler, fx *fixture, m mutant, a analysis) {
	if m.intent&(1<<a.verdict) == 0 {
		t.Fatalf("HARNESS: oracle verdict %s (%s) is impossible for mutation class %s; %s", a.verdict, a.shape, m.class, describe(fx.secret, m.d, m.class))
	}
}

// runClasses is the common rapid property: one secret, one authentic base request, one mutation class,
// 1..4 datagrams of that class.
func runClasses(t *testing.T, classes []string, mode handlerMode, recovered bool) {
	rapid.Check(t, func(rt *rapid.T) {
		secret := genSecret(rt)
		class := rapid.SampledFrom(classes).Draw(rt, "class")
		minAttrs := 0
		if needsAttrs(class) {
			minAttrs = 1
		}
		md := mode
		if mode == modeScripted && rapid.IntRange(0, 9).Draw(rt, "noHandlers") == 0 {
			md = modeNone
		}
		fx := newFixture(secret, md, recovered)
		defer fx.close()
		if md == modeProcessor {
			for _, s := range sessionAlphabet[:3] {
				fx.sessions[s] = true
			}
			fx.sessions[longKnownSession] = true
		}
		b := genBase(rt, secret, minAttrs, md == modeProcessor)
		k := rapid.IntRange(1, 4).Draw(rt, "mutants")
		for i := 0; i < k; i++ {
			var m mutant
			switch class {
			case "truncate:after-valid", "short:stale-prefix":
				// sequence-dependent shapes: the listener's receive buffer still holds an earlier, longer datagram
				obs := fx.exchange(b.pkt, genResult(rt))
				dead, a, acted := judge(rt, fx, b.pkt, "valid", obs)
				record(fx, mutant{d: b.pkt, class: "valid"}, a, acted, dead, respClasses(obs)...)
				if dead {
					return
				}
				if class == "truncate:after-valid" {
					m = mutate(rt, b, secret, "truncate")
				} else {
					// the first 0..19 octets of the datagram the listener handled last (the previous sentinel)
					m = mutant{d: append([]byte(nil), fx.lastS[:rapid.IntRange(0, 19).Draw(rt, "cut")]...), intent: iDrop}
				}
				m.class = class
			default:
				m = mutate(rt, b, secret, class)
			}
			res := genResult(rt)
			a0 := analyse(m.d, secret)
			if !recovered && a0.shape == "length-field-below-20" && vstat.IsListed(crashSig(a0.shape)) {
				// listed remote crash: delivering it through the real Start would kill this process
				vstat.Class("skipped:listed-crash-shape", 1)
				continue
			}
			obs := fx.exchange(m.d, res)
			dead, a, acted := judge(rt, fx, m.d, m.class, obs)
			intentCheck(rt, fx, m, a)
			record(fx, m, a, acted, dead, respClasses(obs)...)
			if dead {
				return
			}
		}
	})
}

var headerAuthClasses = []string{
	"valid", "bitflip:code", "bitflip:id", "bitflip:length", "bitflip:auth", "bitflip:attrs",
	"byteset:header", "byteset:auth", "byteset:attrs", "auth:prefix-only", "auth:prefix-only", "auth:suffix-only",
}

var lengthClasses = []string{
	"len:-k", "len:-k/resigned", "len:-k/signed-over-n", "len:+k", "len:+k/resigned", "len:>n", "len:>n/resigned", "len:<20", "len:<20/resigned",
	"truncate", "truncate:after-valid", "truncate/len-updated", "truncate/resigned", "short", "short:stale-prefix",
	"append", "append/len-updated", "append/resigned", "oversize", "append", "append/len-updated", "append/resigned", "oversize",
}

var attrClasses = []string{
	"tlv:len0", "tlv:len1", "tlv:len2", "tlv:overrun", "tlv:lenany",
	"tlv:len0/resigned", "tlv:len1/resigned", "tlv:len2/resigned", "tlv:overrun/resigned", "tlv:lenany/resigned",
	"bitflip:attrs", "byteset:attrs", "valid",
}

var forgeryClasses = []string{
	"wrong-secret:random", "wrong-secret:prefix", "wrong-secret:extended", "wrong-secret:bitflip", "wrong-secret:empty",
	"other-code", "other-code", "other-code", "other-code", "other-code",
	"near-sig:no-secret", "near-sig:secret-first", "near-sig:no-zero-pad", "near-sig:attrs-only", "near-sig:zero-auth",
	"near-sig:random-auth", "near-sig:response-style", "near-sig:secret-as-auth",
	"random", "random:header", "random", "random:header", "random", "random", "random:header",
}

func allClasses() []string {
	var all []string
	for _, l := range [][]string{headerAuthClasses, lengthClasses, attrClasses, forgeryClasses} {
		all = append(all, l...)
	}
	return all
}

// TestPropHeaderAuthMutations: single bit / byte changes of code, identifier, length, authenticator, attributes;
// authenticators that are right only in a prefix or suffix.
func TestPropHeaderAuthMutations(t *testing.T) {
	vstat.Checks(2000, 100000)
	runClasses(t, headerAuthClasses, modeScripted, true)
}

// TestPropLengthTruncation: length-field tampering (with and without re-signing), truncation, appended octets, > 4096 octets.
func TestPropLengthTruncation(t *testing.T) {
	vstat.Checks(2500, 100000)
	runClasses(t, lengthClasses, modeScripted, true)
}

// TestPropAttributeCorruption: TLV length corruption, unsigned (forgery) and re-signed (authentic but malformed).
func TestPropAttributeCorruption(t *testing.T) {
	vstat.Checks(2000, 100000)
	runClasses(t, attrClasses, modeScripted, true)
}

// TestPropForgeries: other secrets, other codes with a valid signature, near-miss signature constructions, random octets.
func TestPropForgeries(t *testing.T) {
	vstat.Checks(3000, 100000)
	runClasses(t, forgeryClasses, modeScripted, true)
}

// TestPropProcessorWiring: the repository's CoAProcessor (coa_handler.go) behind the listener, a session table behind it;
// "acted" additionally means a terminate/policy callback may fire — never for a datagram that must be dropped.
func TestPropProcessorWiring(t *testing.T) {
	vstat.Checks(1500, 50000)
	runClasses(t, allClasses(), modeProcessor, true)
}

// TestPropRealStart: the same datagrams through the unmodified Start() (no recover hook); every datagram is
// write-ahead logged so that a process death is attributable.
func TestPropRealStart(t *testing.T) {
	vstat.Checks(1500, 50000)
	runClasses(t, allClasses(), modeScripted, false)
	walClear()
}

// TestPropExhaustiveSmallPackets: for generated small authentic requests, EVERY truncation, EVERY single-bit flip,
// EVERY single-octet complement, and every length-field value in [0, n+24] plus boundary values (unsigned and re-signed).
func TestPropExhaustiveSmallPackets(t *testing.T) {
	vstat.Checks(20, 1000)
	rapid.Check(t, func(rt *rapid.T) {
		secret := genSecret(rt)
		code := rapid.SampledFrom([]byte{codeCoARequest, codeDisconnectRequest}).Draw(rt, "code")
		id := rapid.Byte().Draw(rt, "id")
		var attrs []byte
		for i, na := 0, rapid.IntRange(0, 3).Draw(rt, "nAttrs"); i < na; i++ {
			v := genBytes(rt, 1, 12, "val")
			attrs = append(attrs, rapid.SampledFrom(attrTypes).Draw(rt, "type"), byte(2+len(v)))
			attrs = append(attrs, v...)
		}
		res := genResult(rt)
		b := base{code: code, id: id, attrs: attrs, pkt: sign(code, id, attrs, secret)}
		n := len(b.pkt)
		fx := newFixture(secret, modeScripted, true)
		defer func() { fx.close() }()

		run := func(class string, d []byte, intent int) {
			m := mutant{d: d, class: class, intent: intent}
			obs := fx.exchange(d, res)
			dead, a, acted := judge(rt, fx, d, class, obs)
			intentCheck(rt, fx, m, a)
			record(fx, m, a, acted, dead, "exhaustive")
			if dead {
				fx.restart() // listed finding (the loop is gone): fresh listener, keep enumerating
			}
		}
		cp := func() []byte { return append([]byte(nil), b.pkt...) }

		run("valid", cp(), iAct)
		for c := 0; c < n; c++ {
			run("truncate", cp()[:c], iDrop)
			if c >= hdrLen {
				d := cp()[:c]
				setLen(d, c)
				resign(d, c, secret)
				run("truncate/resigned", d, iAct|iEith)
			}
		}
		for bit := 0; bit < n*8; bit++ {
			d := cp()
			flipBit(d, bit)
			cl := "bitflip:attrs"
			switch {
			case bit < 8:
				cl = "bitflip:code"
			case bit < 16:
				cl = "bitflip:id"
			case bit < 32:
				cl = "bitflip:length"
			case bit < 160:
				cl = "bitflip:auth"
			}
			run(cl, d, iDrop)
		}
		for i := 0; i < n; i++ {
			d := cp()
			d[i] ^= 0xff
			cl := "byteset:attrs"
			if i < 4 {
				cl = "byteset:header"
			} else if i < hdrLen {
				cl = "byteset:auth"
			}
			run(cl, d, iDrop)
		}
		lens := []int{}
		for l := 0; l <= n+24; l++ {
			lens = append(lens, l)
		}
		lens = append(lens, 255, 256, 257, n<<8&0xffff, 4095, 4096, 4097, 32767, 32768, 65535)
		for _, l := range lens {
			if l == n {
				continue
			}
			d := cp()
			setLen(d, l)
			cl := "len:-k"
			switch {
			case l < hdrLen:
				cl = "len:<20"
			case l > n+24:
				cl = "len:>n"
			case l > n:
				cl = "len:+k"
			}
			run(cl, d, iDrop)
			// re-signed by somebody who knows the secret
			d = cp()
			setLen(d, l)
			switch {
			case l < hdrLen:
				copy(d[4:hdrLen], md5cat(d[:4], make([]byte, 16), secret))
				run(cl+"/resigned", d, iDrop)
			case l > n:
				resign(d, n, secret)
				run(cl+"/resigned", d, iDrop)
			default:
				resign(d, l, secret)
				run(cl+"/resigned", d, iEith)
				d = cp()
				setLen(d, l)
				resign(d, n, secret)
				run(cl+"/signed-over-n", d, iDrop)
			}
		}
	})
}

var batteryClasses = []string{
	"near-sig:no-secret", "near-sig:secret-first", "near-sig:no-zero-pad", "near-sig:attrs-only", "near-sig:zero-auth",
	"near-sig:random-auth", "near-sig:response-style", "near-sig:secret-as-auth",
	"wrong-secret:random", "wrong-secret:prefix", "wrong-secret:extended", "wrong-secret:bitflip", "wrong-secret:empty",
	"other-code", "auth:prefix-only", "auth:suffix-only", "bitflip:auth", "bitflip:code", "bitflip:id", "bitflip:length", "bitflip:attrs",
	"byteset:header", "byteset:auth", "byteset:attrs", "len:+k", "len:+k/resigned", "len:-k", "len:-k/signed-over-n",
	"tlv:len0", "tlv:overrun", "truncate", "truncate/len-updated", "append/len-updated",
	"other-code", "other-code", "append/len-updated", "oversize", "random", "random:header", "random", "short",
}

// TestPropForgeryBattery: per case one secret and one small authentic request; ONE datagram of every forgery
// class is sent back to back, then a single sentinel.  Every datagram of the battery must be dropped, so the
// first datagram that comes back (or handler call) decides the case at once — this property cannot be hung
// by a listener that accepts forgeries while rejecting authentic requests.
func TestPropForgeryBattery(t *testing.T) {
	vstat.Checks(600, 40000)
	rapid.Check(t, func(rt *rapid.T) {
		secret := genSecret(rt)
		md := rapid.SampledFrom([]handlerMode{modeScripted, modeScripted, modeProcessor, modeNone}).Draw(rt, "mode")
		fx := newFixture(secret, md, true)
		defer fx.close()
		if md == modeProcessor {
			for _, s := range sessionAlphabet[:3] {
				fx.sessions[s] = true
			}
			fx.sessions[longKnownSession] = true
		}
		code := rapid.SampledFrom([]byte{codeCoARequest, codeDisconnectRequest}).Draw(rt, "code")
		id := rapid.Byte().Draw(rt, "id")
		attrs := genAttrs(rt, 1, 4, md == modeProcessor)
		b := base{code: code, id: id, attrs: attrs, pkt: sign(code, id, attrs, secret)}
		var ms []mutant
		var as []analysis
		var ds [][]byte
		for _, cl := range batteryClasses {
			m := mutate(rt, b, secret, cl)
			a := analyse(m.d, secret)
			if a.verdict != mustDrop || a.shape == "length-field-below-20" {
				continue // not a forgery after all (collision with the valid packet), or the listed crash shape (covered elsewhere)
			}
			intentCheck(rt, fx, m, a)
			ms, as, ds = append(ms, m), append(as, a), append(ds, m.d)
		}
		obs := fx.exchangeMany(ds, genResult(rt))
		if obs.panicked != nil || len(obs.calls) > 0 || len(obs.responses) > 0 || obs.changes > 0 {
			// attribute: the response verifies against exactly the request that caused it
			culprit := 0
			for i, d := range ds {
				if len(obs.responses) > 0 && len(d) >= hdrLen && len(obs.responses[0]) >= hdrLen {
					w := responseAuthenticator(obs.responses[0], d[4:hdrLen], secret)
					if string(w[:]) == string(obs.responses[0][4:hdrLen]) && obs.responses[0][1] == d[1] {
						culprit = i
						break
					}
				}
			}
			single := observation{calls: obs.calls, responses: obs.responses, changes: obs.changes, panicked: obs.panicked, sReq: obs.sReq, eager: true}
			if dead, _, _ := judge(rt, fx, ds[culprit], ms[culprit].class+" (battery of "+fmt.Sprint(len(ds))+")", single); dead {
				return
			}
			rt.Fatalf("HARNESS: battery observation not judged: %+v", obs)
		}
		// nothing happened for the whole battery; the sentinel (authentic) is judged as usual
		dead, _, _ := judge(rt, fx, ds[0], ms[0].class, obs)
		for i := range ms {
			record(fx, ms[i], as[i], false, dead, "battery")
		}
	})
}
