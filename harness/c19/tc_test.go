package c19

import (
	"fmt"
	"testing"

	"pgregory.net/rapid"

	"github.com/codelaboratoryltd/bng/pkg/qos"
	"github.com/codelaboratoryltd/bng/pkg/radius"

	"bngverif/internal/bpfnative"
	"bngverif/internal/vstat"
)

// subscriber is one control-plane policy as a real caller hands it to the manager.
type subscriber struct {
	IP       [4]byte
	Down, Up uint64 // bits/s
	Burst    uint32 // 0 = manager default
	Prio     uint8
	ViaName  bool // installed through SetSubscriberPolicy (named radius.QoSPolicy) rather than SetSubscriberQoS
	// steer: when the known key-encoding finding is listed, the bucket the manager wrote (found under
	// another key) is moved to the address the datapath looks up, so that the rest is explored.
	steered  [2]bool
	wroteKey [2][]byte
	// obj is the *qos.SubscriberQoS the harness (as the caller) handed to SetSubscriberQoS last and still
	// owns: real callers keep such objects, edit the plan in them and submit them again.  Down/Up/Burst/Prio
	// above are the SNAPSHOT of the last successful Set call - the contract the datapath must enforce.
	obj        *qos.SubscriberQoS
	lastByName bool // the last successful Set went through SetSubscriberPolicy
	// named delivery: planName "" = a name unique to the numbers (defined on the spot); otherwise a name
	// from a small pool shared by the subscribers, (re)defined as planDefine says before the Set call
	planName      string
	planDefine    int
	lastRedefined bool // the last by-name Set resolved a name whose definition had changed since it was last used
}

func (s *subscriber) rate(dir int) uint64 {
	if dir == dirEgress {
		return s.Down
	}
	return s.Up
}

func (s *subscriber) String() string {
	return fmt.Sprintf("%d.%d.%d.%d down=%d up=%d burst=%d prio=%d byName=%v", s.IP[0], s.IP[1], s.IP[2], s.IP[3], s.Down, s.Up, s.Burst, s.Prio, s.ViaName)
}

func genSubscriber(rt *rapid.T, label string) *subscriber {
	s := &subscriber{IP: genIP(rt, label+".ip")}
	s.Down = genRate(rt, label+".down")
	s.Up = genRate(rt, label+".up")
	switch rapid.IntRange(0, 11).Draw(rt, label+".zero") {
	case 0:
		s.Down = 0
	case 1:
		s.Up = 0
	case 2:
		s.Down, s.Up = 0, 0
	}
	if !chance(rt, label+".defBurst", 1, 4) {
		s.Burst = genBurst(rt, s.Down, label+".burst")
	}
	s.Prio = uint8(rapid.IntRange(0, 7).Draw(rt, label+".prio"))
	s.ViaName = chance(rt, label+".byName", 1, 3)
	return s
}

// install hands the policy to the manager exactly as pkg/dhcp does (SetSubscriberPolicy with a
// named policy) or as an API caller does (SetSubscriberQoS with a freshly built object, which the
// caller keeps in s.obj).
func (p *plane) install(s *subscriber) error {
	if s.ViaName {
		return p.submit(s, submitByName)
	}
	return p.submit(s, submitFresh)
}

const (
	submitFresh      = iota // SetSubscriberQoS(new object carrying the snapshot values)
	submitSameObject        // SetSubscriberQoS(s.obj) after the snapshot values were written INTO s.obj in place
	submitByName            // SetSubscriberPolicy(ip, named radius.QoSPolicy with the snapshot values)
)

const (
	defineNone         = iota // use the name as currently defined
	defineAdd                 // AddPolicy(name, numbers) first (replaces)
	defineRemoveAdd           // RemovePolicy(name), AddPolicy(name, numbers) first
	defineBulkDefaults        // LoadDefaultPolicies() first
)

type planNumbers struct {
	Down, Up uint64
	Burst    uint32
	Prio     uint8
}

// submit performs one Set call for the values in s.Down/Up/Burst/Prio.
func (p *plane) submit(s *subscriber, how int) error {
	switch how {
	case submitByName:
		name, define := s.planName, s.planDefine
		if name == "" {
			name, define = fmt.Sprintf("verif-%d-%d-%d-%d", s.Down, s.Up, s.Burst, s.Prio), defineAdd
		}
		pol := &radius.QoSPolicy{Name: name, DownloadBPS: s.Down, UploadBPS: s.Up, BurstSize: s.Burst, Priority: s.Prio}
		switch define {
		case defineRemoveAdd:
			p.pm.RemovePolicy(name)
			fallthrough
		case defineAdd: // AddPolicy REPLACES an existing definition of the name
			if err := p.pm.AddPolicy(pol); err != nil {
				return err
			}
			p.defs[name] = planNumbers{s.Down, s.Up, s.Burst, s.Prio}
		case defineBulkDefaults: // a reload of the shipped policies overwrites custom definitions of their names
			p.pm.LoadDefaultPolicies()
			for _, d := range radius.DefaultPolicies() {
				p.defs[d.Name] = planNumbers{d.DownloadBPS, d.UploadBPS, d.BurstSize, d.Priority}
			}
		}
		cur, ok := p.defs[name]
		if !ok {
			return fmt.Errorf("harness: policy %q is not defined", name)
		}
		// the contract is the definition current at the time of this SetSubscriberPolicy call
		s.Down, s.Up, s.Burst, s.Prio = cur.Down, cur.Up, cur.Burst, cur.Prio
		s.planDefine = defineNone
		prev, used := p.usedDef[name]
		s.lastRedefined = used && prev != cur
		p.usedDef[name] = cur
		s.lastByName = true
		return p.mgr.SetSubscriberPolicy(ipOf(s.IP), name)
	case submitSameObject:
		if s.obj == nil {
			s.obj = &qos.SubscriberQoS{IP: ipOf(s.IP), PolicyName: "verif"}
		}
		s.obj.DownloadBPS, s.obj.UploadBPS, s.obj.BurstBytes, s.obj.Priority = s.Down, s.Up, s.Burst, s.Prio
	default:
		s.obj = &qos.SubscriberQoS{IP: ipOf(s.IP), DownloadBPS: s.Down, UploadBPS: s.Up, BurstBytes: s.Burst, Priority: s.Prio, PolicyName: "verif"}
	}
	s.lastByName, s.lastRedefined = false, false
	return p.mgr.SetSubscriberQoS(s.obj)
}

// kernelKeys lists the raw keys currently in the kernel map of dir.
func (p *plane) kernelKeys(dir int) map[string]bool {
	m := p.egress
	if dir == dirIngress {
		m = p.ingress
	}
	out := map[string]bool{}
	var cur []byte
	for i := 0; i < 1024; i++ {
		var next []byte
		var err error
		if cur == nil {
			next, err = m.NextKeyBytes(nil)
		} else {
			next, err = m.NextKeyBytes(cur)
		}
		if err != nil {
			inconclusive("iterate kernel map: %v", err)
		}
		if next == nil {
			break
		}
		out[string(next)] = true
		cur = next
	}
	return out
}

// locate finds, after a sync, the bucket of s for dir the way the datapath does.  If it is not at
// the packet's address: violation sigKeyNotFound; when that is a listed finding and steer is on, the
// entry the manager wrote for s (s.wroteKey, observed as the key that appeared in the kernel map during
// the Set call) is moved to the datapath key in the runner's copy.
func (p *plane) locate(t fataler, s *subscriber, dir int, steer bool, event string) (b bucket, found, abandon bool) {
	if b, ok := p.lookup(dir, s.IP); ok {
		return b, true, false
	}
	wrote := s.wroteKey[dir]
	listed := failSig(t, missingSig(event), "Set(%s) [%s] succeeded but %s holds no bucket under the address bytes % x the %s program looks up (the manager wrote key % x)",
		s, event, dirMap(dir), datapathKey(s.IP), dirProg(dir), wrote)
	if !listed || !steer || wrote == nil {
		return bucket{}, false, true
	}
	raw, err := p.c.LookupValue(dirMap(dir), wrote)
	if err != nil || len(raw) != bucketSz {
		return bucket{}, false, true
	}
	if err := p.c.DeleteKey(dirMap(dir), wrote); err != nil {
		inconclusive("DeleteKey: %v", err)
	}
	if err := p.c.LoadMap(dirMap(dir), datapathKey(s.IP), raw); err != nil {
		inconclusive("LoadMap: %v", err)
	}
	s.steered[dir] = true
	return parseBucket(raw), true, false
}

// Control-plane events a bucket is checked after (last signature component).
const (
	evFirstSet    = "first-set"
	evFreshUpdate = "fresh-update"       // new object / named policy with new numbers for an address that has a policy
	evInPlace     = "in-place-update"    // the object handed over before, edited by the caller and submitted again
	evIdentical   = "identical-resubmit" // the same numbers again (same object, new object, or the same named policy)
	evAfterRemove = "set-after-remove"
	evAfterStart  = "after-restart"    // data plane restarted (new, empty maps), policies re-applied by the caller
	evRedefined   = "policy-redefined" // SetSubscriberPolicy with a name whose definition changed since it was last used
	evBystander   = "bystander"        // another subscriber's call / a caller-side edit that was not submitted
)

// missingSig: a successful Set left no bucket at the packet address.  The first Set keeps the plain
// signature (fixed finding KF-C19-1 and its replay); later events are distinguished.
func missingSig(event string) string {
	if event == evFirstSet || event == "" {
		return sigKeyNotFound
	}
	return sigKeyNotFound + "/" + event
}

// contract derives what the statement promises for (s, dir) from the policy handed to the control
// plane in the LAST successful Set call (snapshot in s) and checks the stored bucket against it ("the
// policy set through the control plane is the one enforced"): the same rate, the same priority, and -
// when the policy configures a burst - the same burst.  burst is the contract the traffic oracle uses
// for clause 1 and the slack of clause 2; bkt is the size of the bucket enforcing it.
// The initial fill is not compared (its unit is the datapath's business); an over-full start shows as
// over-admission in traffic.  Signature: C19/manager/bucket-fields/<field>/<direction>/<event>.
func contract(t fataler, s *subscriber, dir int, b bucket, event string) (rate uint64, burst, bkt uint32, abandon bool) {
	sfx := "/" + dirName(dir) + "/" + event
	rate = s.rate(dir)
	if b.Rate != rate {
		return 0, 0, 0, failSig(t, sigFields+"/rate"+sfx, "[%s] %s bucket of %s has rate %d, the policy set last says %d", event, dirName(dir), s, b.Rate, rate)
	}
	burst, bkt = s.Burst, b.Burst
	switch {
	case burst == 0:
		// no burst configured: the contract is the default the manager chose (documented: one second
		// of traffic, at least 64 KB); nothing to compare against except that it can hold a packet
		burst = b.Burst
		if rate != 0 && burst < maxPkt {
			return 0, 0, 0, failSig(t, sigFields+"/default-burst"+sfx, "[%s] %s default burst %d cannot hold a maximum-size packet (%s)", event, dirName(dir), burst, s)
		}
	case b.Burst > burst && dir == dirIngress && event == evFirstSet:
		// (fixed finding KF-C19-2 keeps its signature)
		if rate != 0 {
			if !failSig(t, sigIngressBurst, "policy %s configures burst %d but the ingress bucket enforces burst %d: upload may exceed %d bytes + rate*window", s, s.Burst, b.Burst, s.Burst) {
				return
			}
			burst = b.Burst // listed: continue against the burst actually stored
		}
	case b.Burst != burst:
		return 0, 0, 0, failSig(t, sigFields+"/burst"+sfx, "[%s] %s bucket of %s has burst %d, the policy set last says %d", event, dirName(dir), s, b.Burst, burst)
	}
	if b.Prio != s.Prio {
		return 0, 0, 0, failSig(t, sigFields+"/priority"+sfx, "[%s] %s bucket of %s has priority %d, the policy set last says %d", event, dirName(dir), s, b.Prio, s.Prio)
	}
	return rate, burst, bkt, false
}

// flow is the traffic of one subscriber in one direction inside a TC-layer case.
type flow struct {
	sub   *subscriber
	dir   int
	rate  uint64
	burst uint32 // contract
	bkt   uint32 // size of the enforcing bucket (<= burst)
	ev    []event
}

// other draws the far-end address of a flow.  It can never coincide with a subscriber address nor with
// a byte-reversed one: genIP yields neither a first octet 9 nor a first octet above 223.
func other(rt *rapid.T, label string) [4]byte {
	return [4]byte{9, byte(rapid.IntRange(0, 255).Draw(rt, label+".1")), byte(rapid.IntRange(0, 255).Draw(rt, label+".2")), 250}
}

// setup installs subs, syncs, locates and validates every bucket.  Returns the flows (2 per subscriber).
func (p *plane) setup(t fataler, subs []*subscriber, steer bool) (flows []*flow, abandon bool) {
	p.resetManager() // no control-plane state (tracked subscribers, named policies) is shared between cases
	p.wipe()
	if err := p.c.ClearMaps(); err != nil {
		inconclusive("ClearMaps: %v", err)
	}
	for _, s := range subs {
		before := [2]map[string]bool{p.kernelKeys(0), p.kernelKeys(1)}
		if err := p.install(s); err != nil {
			t.Fatalf("harness: manager rejected a valid policy %s: %v", s, err)
		}
		for dir := 0; dir < 2; dir++ {
			for k := range p.kernelKeys(dir) {
				if !before[dir][k] {
					s.wroteKey[dir] = []byte(k)
				}
			}
		}
	}
	p.sync()
	for _, s := range subs {
		for dir := 0; dir < 2; dir++ {
			b, found, ab := p.locate(t, s, dir, steer, evFirstSet)
			if ab || !found {
				return nil, true
			}
			rate, burst, bkt, ab := contract(t, s, dir, b, evFirstSet)
			if ab {
				return nil, true
			}
			flows = append(flows, &flow{sub: s, dir: dir, rate: rate, burst: burst, bkt: bkt})
		}
	}
	return flows, false
}

// distinctSubs draws 1..n subscribers whose addresses (and byte-reversed addresses) are pairwise distinct.
func distinctSubs(rt *rapid.T, n int) []*subscriber {
	var subs []*subscriber
	seen := map[[4]byte]bool{}
	for i := 0; i < n; i++ {
		s := genSubscriber(rt, fmt.Sprintf("sub%d", i))
		rev := [4]byte{s.IP[3], s.IP[2], s.IP[1], s.IP[0]}
		if seen[s.IP] || seen[rev] {
			s.IP[1] ^= byte(0x10 << uint(i))
			s.IP[2] ^= byte(0x01 << uint(i))
			rev = [4]byte{s.IP[3], s.IP[2], s.IP[1], s.IP[0]}
			if seen[s.IP] || seen[rev] {
				continue
			}
		}
		seen[s.IP], seen[rev] = true, true
		subs = append(subs, s)
	}
	return subs
}

// TestPropTCSequence - layer (b): the full TC programs on frames to/from the subscriber's address,
// buckets written by the Go manager into real kernel maps.  One subscriber carries a generated arrival
// sequence in one direction; the others (and the opposite direction) carry cross traffic that must not
// disturb it (per-subscriber, per-direction buckets).
func TestPropTCSequence(t *testing.T) {
	c := startRunner(t)
	p := newPlane(t, c)
	vstat.Checks(1500, 40000)
	rapid.Check(t, func(rt *rapid.T) {
		seq := genSeq(rt, 34, true)
		subs := distinctSubs(rt, rapid.IntRange(1, 3).Draw(rt, "nsubs"))
		dir := rapid.IntRange(0, 1).Draw(rt, "dir")
		main := subs[0]
		// the main subscriber's contract in the tested direction is the sequence's
		if dir == dirEgress {
			main.Down, main.Burst = seq.Rate, seq.Burst
		} else {
			main.Up = seq.Rate
			// ingress has no burst field of its own in SubscriberQoS/QoSPolicy; the shared one applies
			main.Burst = seq.Burst
		}
		if chance(rt, "defaultBurst", 1, 5) {
			main.Burst = 0
		}
		flows, abandon := p.setup(rt, subs, true)
		if abandon {
			return
		}
		var mf *flow
		for _, f := range flows {
			if f.sub == main && f.dir == dir {
				mf = f
			}
		}
		// the sequence was generated for (seq.Rate, seq.Burst); if the enforced contract differs
		// (default burst, listed ingress-burst finding) the arrivals stay valid, only saturation may not hold
		seq.Burst = mf.bkt
		oth := other(rt, "peer")
		cross := rapid.IntRange(0, 3).Draw(rt, "cross")
		pl := newPlayer(seq)
		for {
			clock, size, ok := pl.next()
			if !ok {
				break
			}
			// cross traffic at the same instant: other flows, and an address without any policy
			if cross > 0 && len(flows) > 1 && pl.k%cross == 0 {
				f := flows[rapid.IntRange(0, len(flows)-1).Draw(rt, "crossFlow")]
				if f != mf {
					fr, o := frameFor(f.dir, f.sub.IP, oth, uint32(rapid.IntRange(34, 3000).Draw(rt, "crossSize")))
					adm, _, ab := runFrame(rt, c, dirProg(f.dir), fr, o, clock)
					if ab {
						return
					}
					f.ev = append(f.ev, event{T: clock, Size: maxU32(uint32(len(fr)), o.SkbLen), Adm: adm})
				}
			}
			if cross > 1 && pl.k%7 == 3 {
				fr, o := frameFor(dir, oth, oth, size)
				adm, _, ab := runFrame(rt, c, dirProg(dir), fr, o, clock)
				if ab {
					return
				}
				if !adm {
					if failSig(rt, sigOther+"/"+dirName(dir), "frame between addresses without policy dropped (%d bytes)", size) {
						return
					}
				}
			}
			fr, o := frameFor(dir, main.IP, oth, size)
			adm, res, ab := runFrame(rt, c, dirProg(dir), fr, o, clock)
			if ab {
				return
			}
			if adm && dir == dirEgress && res.Priority != uint32(main.Prio) {
				if failSig(rt, sigPriority, "admitted egress frame carries skb->priority %d, policy priority is %d", res.Priority, main.Prio) {
					return
				}
			}
			pl.done(adm)
		}
		mf.ev = pl.ev
		var cls []string
		for _, f := range flows {
			f := f
			ctx := func() string {
				return fmt.Sprintf("%s of %s, contract rate=%d burst=%d, t0=%d, %d subscribers, arrivals %v", dirName(f.dir), f.sub, f.rate, f.burst, seq.T0, len(subs), sampleEvents(f.ev, 40))
			}
			ab, c := verdictCheck2(rt, f.ev, f.rate, f.burst, f.bkt, sigEnforcedOver+"/"+dirName(f.dir), sigEnforcedRate0+"/"+dirName(f.dir), ctx)
			if ab {
				return
			}
			if f == mf {
				cls = append(cls, c...)
			}
		}
		cls = append(cls, seq.Class...)
		cls = append(cls, "layer:tc", "dir:"+dirName(dir), fmt.Sprintf("subs:%d", len(subs)))
		if main.steered[dir] {
			cls = append(cls, "steered-key")
		} else {
			cls = append(cls, "manager-key-found")
		}
		if main.ViaName {
			cls = append(cls, "via:SetSubscriberPolicy")
		} else {
			cls = append(cls, "via:SetSubscriberQoS")
		}
		if main.Burst == 0 {
			cls = append(cls, "burst:default")
		}
		nt := nonTrivial(mf.ev)
		if nt {
			cls = append(cls, "nt:drop-then-admit", "nt:tc:"+dirName(dir))
		}
		vstat.Case(nt, vstat.Hash("tc", dir, main.String(), seq.T0, len(subs), cross, fmt.Sprint(mf.ev)),
			func() any {
				return map[string]any{"layer": "tc", "dir": dirName(dir), "policy": main.String(), "contract_rate": mf.rate, "contract_burst": mf.burst,
					"t0": seq.T0, "mode": seq.Mode, "arrivals": sampleEvents(mf.ev, 24)}
			}, dedup(cls)...)
	})
}

func maxU32(a, b uint32) uint32 {
	if a > b {
		return a
	}
	return b
}

var _ = bpfnative.EndFlush
