package c19

import (
	"fmt"
	"math/bits"

	"pgregory.net/rapid"
)

// seqSpec is one generated arrival sequence for one bucket (rate, burst) - the part of a case that
// is independent of the layer it is executed on.
type seqSpec struct {
	Rate  uint64 // bits/s as configured
	Burst uint32
	T0    uint64
	Mode  string // generic | greedy | saturating
	// per arrival: Size; gap to the previous arrival either absolute (Gap, ns) or, in saturating
	// mode, Frac/65536 of the largest gap the saturation precondition allows after the previous packet.
	Size  []uint32
	Gap   []uint64
	Frac  []uint32
	Retry bool // a dropped packet is offered again (same size) at the next arrival
	Class []string
}

// mulLE reports a*b <= c*d in 128-bit arithmetic.
func mulLE(a, b, c, d uint64) bool {
	h1, l1 := bits.Mul64(a, b)
	h2, l2 := bits.Mul64(c, d)
	return h1 < h2 || (h1 == h2 && l1 <= l2)
}

// satPair is the saturation precondition between an arrival of size s and the next one gap ns later
// (see saturating() in oracle_test.go): s <= burst and r*gap <= min(s, burst-s) bytes.
func satPair(s uint32, gap uint64, rate uint64, burst uint32) bool {
	if s > burst {
		return false
	}
	m := uint64(s)
	if uint64(burst-s) < m {
		m = uint64(burst - s)
	}
	return mulLE(rate/8, gap, m, 1_000_000_000)
}

// maxSatGap is the largest gap (ns) satPair allows after a packet of size s.
func maxSatGap(s uint32, rate uint64, burst uint32) uint64 {
	if s > burst || rate/8 == 0 {
		return 0
	}
	m := uint64(s)
	if uint64(burst-s) < m {
		m = uint64(burst - s)
	}
	return m * 1_000_000_000 / (rate / 8) // m <= 65535 in every caller, no overflow
}

// satRuns splits ev into the maximal runs of consecutive arrivals that satisfy satPair.
func satRuns(ev []event, rate uint64, burst uint32) [][2]int {
	var out [][2]int
	a := 0
	for k := 0; k+1 <= len(ev); k++ {
		last := k+1 == len(ev)
		if last || !satPair(ev[k].Size, ev[k+1].T-ev[k].T, rate, burst) {
			if k > a {
				out = append(out, [2]int{a, k + 1})
			}
			a = k + 1
		}
	}
	return out
}

// alignedRuns finds the maximal trains of >= 3 arrivals of one size s at one gap g > 0 that keep a
// packet "always waiting" although s may be as large as the bucket - the case satPair cannot admit,
// because after a drop of a bucket-sized packet any further waiting might overflow the bucket:
//
//	rate % 8 == 0,  e = r*g/1e9 a whole number of bytes >= 1,  e | s,  e | bucket,  s <= bucket.
//
// For such a train an exact bucket, whatever its level at the start, loses fewer than e tokens in
// total: the first time it reaches the cap it is cut to `bucket` (a multiple of e, loss < e); from then
// on every level is a multiple of e, after a drop it is <= s-e and after an admission <= bucket-s, so the
// next e tokens always fit (e <= s <= bucket).  Hence admitted >= r*W - bucket - e >= r*W - burst - 65535
// in every window of the train: clause 2 is a demand any correct limiter meets.
func alignedRuns(ev []event, rate uint64, bucket uint32) [][2]int {
	if rate == 0 || rate%8 != 0 {
		return nil
	}
	r := rate / 8
	var out [][2]int
	for a := 0; a+2 < len(ev); {
		sz, g := ev[a].Size, ev[a+1].T-ev[a].T
		b := a + 1
		for b < len(ev) && ev[b].Size == sz && ev[b].T-ev[b-1].T == g {
			b++
		}
		// ev[a:b] is a maximal constant train (b-a >= 1)
		if b-a >= 3 && g > 0 && sz <= bucket {
			hi, lo := bits.Mul64(r, g)
			if hi < 1_000_000_000 {
				e, rem := bits.Div64(hi, lo, 1_000_000_000)
				if rem == 0 && e >= 1 && uint64(sz)%e == 0 && uint64(bucket)%e == 0 {
					out = append(out, [2]int{a, b})
				}
			}
		}
		if b-a >= 2 {
			a = b - 1 // the next train may start with this train's last arrival
		} else {
			a = b
		}
	}
	return out
}

// genSeq draws a whole arrival sequence together with its contract.  minSize is 1 for the helper
// layer and 34 for frames (Ethernet+IPv4 header).  zeroOK allows the rate-0 class.
func genSeq(rt *rapid.T, minSize uint32, zeroOK bool) *seqSpec {
	s := &seqSpec{}
	mode := rapid.IntRange(0, 9).Draw(rt, "mode")
	rate := genRate(rt, "rate")
	if zeroOK && chance(rt, "rate0", 1, 40) {
		rate, mode = 0, 0
	}
	r := rate / 8
	n := int(rapid.Uint64Range(1, 300).Draw(rt, "n.u"))
	if chance(rt, "n.short", 1, 3) {
		n = int(logUniform(rt, 1, 300, "n.log"))
	}
	// packet-size palette of the case
	sizeKind := rapid.IntRange(0, 5).Draw(rt, "sizeKind")
	fixed := uint32(logUniform(rt, uint64(minSize), maxPkt, "fixedSize"))
	if chance(rt, "fixedBig", 1, 3) {
		fixed = pick[uint32](rt, "fixed.pal", 1500, 1514, 9000, 32768, 65535)
	}
	drawSize := func(cap uint32) uint32 {
		var v uint32
		switch sizeKind {
		case 0, 1:
			v = fixed
		case 2:
			v = pick[uint32](rt, "sz.pal", 64, 128, 576, 1500, 1514, 9000, 65535, fixed)
		case 3:
			v = uint32(rapid.Uint64Range(uint64(minSize), maxPkt).Draw(rt, "sz.u"))
		default:
			v = uint32(logUniform(rt, uint64(minSize), maxPkt, "sz.log"))
		}
		if v < minSize {
			v = minSize
		}
		if cap >= minSize && v > cap {
			v = minSize + (v-minSize)%(cap-minSize+1)
		}
		return v
	}
	// burst: the whole domain, the manager's default, and bursts worth a few packets of this case
	// (otherwise most sequences never empty the bucket)
	var burst uint32
	if chance(rt, "burstRel", 2, 3) {
		b := uint64(fixed) * rapid.Uint64Range(1, 24).Draw(rt, "burst.k") / rapid.Uint64Range(1, 2).Draw(rt, "burst.d")
		if b < 1 {
			b = 1
		}
		burst = uint32(b)
	} else {
		burst = genBurst(rt, rate, "burst")
	}
	switch {
	case mode <= 4: // generic: gaps from 0 ns to 10 days, mixed per case so that drops AND later admissions are common
		s.Mode = "generic"
		s.Retry = chance(rt, "retry", 1, 3)
		// characteristic time of the case: what one typical packet costs at the contracted rate
		tau := uint64(1000)
		if r > 0 {
			tau = uint64(fixed) * 1_000_000_000 / r
		}
		w := [4]int{rapid.IntRange(0, 4).Draw(rt, "w0"), rapid.IntRange(0, 4).Draw(rt, "wG"), rapid.IntRange(1, 6).Draw(rt, "wTau"), rapid.IntRange(0, 2).Draw(rt, "wLong")}
		tot := w[0] + w[1] + w[2] + w[3]
		for i := 0; i < n; i++ {
			s.Size = append(s.Size, drawSize(0))
			k := rapid.IntRange(0, tot-1).Draw(rt, "gapKind")
			var g uint64
			switch {
			case k < w[0]:
				g = 0
			case k < w[0]+w[1]:
				g = logUniform(rt, 0, 10_000, "gap.us")
			case k < w[0]+w[1]+w[2]:
				lo, hi := tau/32, tau*8+1
				if hi > tenDays {
					hi = tenDays
				}
				g = logUniform(rt, lo, hi, "gap.tau")
			default:
				g = logUniform(rt, 0, tenDays, "gap.long")
			}
			s.Gap = append(s.Gap, g)
		}
	case mode <= 6: // greedy: next packet as soon as the previous was handled, drops retried
		s.Mode = "greedy"
		s.Retry = true
		for i := 0; i < n; i++ {
			s.Size = append(s.Size, drawSize(0))
			s.Gap = append(s.Gap, logUniform(rt, 0, 10_000, "gap.greedy"))
		}
	default: // saturating: every gap within what the precondition of the starvation clause allows
		s.Mode = "saturating"
		s.Retry = true
		// burst = largest packet + headroom, so that min(s, burst-s) - the tokens a gap may earn - is
		// sizeable and 300 arrivals can earn more than burst + 65535 (clause 2 then demands something)
		smax := pick[uint32](rt, "smax", 1500, 9000, 32768, 65535, 65535, fixed)
		if smax < minSize+1 {
			smax = minSize + 1
		}
		burst = smax + uint32(rapid.Uint64Range(uint64(smax), 4*uint64(smax)).Draw(rt, "sat.head"))
		switch rapid.IntRange(0, 7).Draw(rt, "sat.burstKind") {
		case 0:
			burst = smax + 1 // tight: a gap may earn a single byte
		case 1:
			burst = smax + uint32(rapid.Uint64Range(1, uint64(smax)).Draw(rt, "sat.head.small"))
		}
		if fixed > smax || chance(rt, "sat.fixedBig", 2, 3) {
			fixed = smax - uint32(rapid.Uint64Range(0, uint64(smax-minSize)/2).Draw(rt, "sat.fixed"))
		}
		if chance(rt, "sat.long", 3, 4) {
			n = rapid.IntRange(150, 300).Draw(rt, "sat.n")
		}
		fk := rapid.IntRange(0, 3).Draw(rt, "fracKind")
		for i := 0; i < n; i++ {
			sz := drawSize(smax)
			if sz < smax/2 && i%4 != 0 { // mostly large packets: the tokens a gap may earn are min(s, burst-s)
				sz = smax - sz
			}
			s.Size = append(s.Size, sz)
			var f uint32
			switch fk {
			case 0:
				f = 65536 // exactly at the contracted rate
			case 1, 2:
				f = pick[uint32](rt, "frac.pal", 65536, 65536, 65535, 49152, 32768, 16384, 1, 0)
			default: // rapid's integer draws lean towards small values: mirror half of them
				f = uint32(rapid.IntRange(0, 65536).Draw(rt, "frac"))
				if i%2 == 0 {
					f = 65536 - f
				}
			}
			s.Frac = append(s.Frac, f)
		}
	}
	s.Rate, s.Burst = rate, burst
	s.Gap0()
	// initial clock: anywhere in 2^64 ns such that the sequence does not wrap (bpf_ktime_get_ns is monotonic)
	span := uint64(len(s.Size)+1) * tenDays
	var tc string
	s.T0, tc = genT0(rt, span, "t0")
	s.Class = append(s.Class, "mode:"+s.Mode, tc)
	if rate == 0 {
		s.Class = append(s.Class, "rate0")
	}
	return s
}

// Gap0: the first arrival has no predecessor; its gap is relative to T0.
func (s *seqSpec) Gap0() {
	if len(s.Gap) > 0 {
		s.Gap[0] %= 1_000_000_000
	}
}

// player walks a seqSpec: next() yields the arrival to offer, done(adm) records the verdict.
type player struct {
	s    *seqSpec
	i    int // index into s.Size of the packet at the head of the queue
	k    int // arrivals so far
	t    uint64
	last uint32
	ev   []event
}

func newPlayer(s *seqSpec) *player { return &player{s: s, t: s.T0} }

// next returns the arrival time and size of the next offer, or ok=false at the end.
func (p *player) next() (t uint64, size uint32, ok bool) {
	if p.i >= len(p.s.Size) || p.k >= len(p.s.Size) {
		return 0, 0, false
	}
	size = p.s.Size[p.i]
	var gap uint64
	if p.s.Frac != nil {
		if p.k > 0 {
			mg := maxSatGap(p.last, p.s.Rate, p.s.Burst)
			if mg > tenDays {
				mg = tenDays
			}
			hi, lo := bits.Mul64(mg, uint64(p.s.Frac[p.k]))
			gap, _ = bits.Div64(hi, lo, 65536)
		}
	} else {
		gap = p.s.Gap[p.k]
	}
	p.t += gap
	return p.t, size, true
}

func (p *player) done(adm bool) {
	size := p.s.Size[p.i]
	p.ev = append(p.ev, event{T: p.t, Size: size, Adm: adm})
	p.last = size
	p.k++
	if adm || !p.s.Retry {
		p.i++
	}
}

func (s *seqSpec) String() string {
	return fmt.Sprintf("rate=%d burst=%d t0=%d mode=%s retry=%v n=%d", s.Rate, s.Burst, s.T0, s.Mode, s.Retry, len(s.Size))
}

// sample renders the executed arrivals for evidence / failure messages.
func sampleEvents(ev []event, max int) []string {
	var out []string
	for k, e := range ev {
		if k >= max {
			out = append(out, fmt.Sprintf("... %d more", len(ev)-max))
			break
		}
		gap := uint64(0)
		if k > 0 {
			gap = e.T - ev[k-1].T
		}
		v := "drop"
		if e.Adm {
			v = "pass"
		}
		out = append(out, fmt.Sprintf("+%dns %dB %s", gap, e.Size, v))
	}
	return out
}

func mul64(a, b uint64) (hi, lo uint64) { return bits.Mul64(a, b) }

// div128 returns floor((hi:lo)/d), saturating at 2^64-1.
func div128(hi, lo, d uint64) uint64 {
	if d == 0 || hi >= d {
		return ^uint64(0)
	}
	q, _ := bits.Div64(hi, lo, d)
	return q
}
