package c19

import (
	"fmt"
	"testing"

	"github.com/cilium/ebpf"
	"pgregory.net/rapid"

	"bngverif/internal/vstat"
)

// writeBack stores the runner's bucket state (what the datapath has done to the shared maps so far)
// into the kernel maps, so that a following control-plane call sees and preserves it exactly as it
// would on a live system where both sides share one map.  Steered buckets go back under the key the
// manager uses for them.
func (p *plane) writeBack(subs []*subscriber) {
	for dir := 0; dir < 2; dir++ {
		m := p.egress
		if dir == dirIngress {
			m = p.ingress
		}
		for _, e := range p.entries(dir) {
			key := e.Key
			for _, s := range subs {
				if s.steered[dir] && string(key) == string(datapathKey(s.IP)) {
					key = s.wroteKey[dir]
				}
			}
			if err := m.Update(key, e.Value, ebpf.UpdateAny); err != nil {
				inconclusive("kernel map update: %v", err)
			}
		}
	}
}

// resync copies the kernel maps into the runner and re-applies the steering moves.
func (p *plane) resync(subs []*subscriber) {
	p.sync()
	for _, s := range subs {
		for dir := 0; dir < 2; dir++ {
			if !s.steered[dir] {
				continue
			}
			raw, err := p.c.LookupValue(dirMap(dir), s.wroteKey[dir])
			if err != nil || len(raw) != bucketSz {
				continue // removed
			}
			_ = p.c.DeleteKey(dirMap(dir), s.wroteKey[dir])
			if err := p.c.LoadMap(dirMap(dir), datapathKey(s.IP), raw); err != nil {
				inconclusive("LoadMap: %v", err)
			}
		}
	}
}

// TestPropPolicy - clause 4: the policy set through the control plane is the one enforced.
// Histories of control-plane calls (Set / update / Remove / re-Set, through SetSubscriberQoS or
// SetSubscriberPolicy) interleaved with bursts of frames at generated instants, for 1..3 subscribers.
// Decides: after Set the datapath finds a bucket under the subscriber's address with exactly the
// policy's rate/burst/priority; traffic obeys that contract (clauses 1-3 with the *configured*
// numbers) from the instant of the call; after Remove nothing is limited and no bucket is left; other
// subscribers' buckets are not disturbed by a call for one of them.
func TestPropPolicy(t *testing.T) {
	c := startRunner(t)
	p := newPlane(t, c)
	vstat.Checks(1200, 30000)
	rapid.Check(t, func(rt *rapid.T) {
		subs := distinctSubs(rt, rapid.IntRange(1, 3).Draw(rt, "nsubs"))
		flows, abandon := p.setup(rt, subs, true)
		if abandon {
			return
		}
		removed := map[*subscriber]bool{}
		clock, tc := genT0(rt, 40*tenDays, "t0")
		oth := other(rt, "peer")
		cls := []string{tc, fmt.Sprintf("subs:%d", len(subs))}
		var hist []string
		nt := false
		check := func(f *flow) bool {
			ctx := func() string {
				return fmt.Sprintf("%s of %s, contract rate=%d burst=%d, history %v, arrivals %v", dirName(f.dir), f.sub, f.rate, f.burst, hist, sampleEvents(f.ev, 40))
			}
			ab, _ := verdictCheck2(rt, f.ev, f.rate, f.burst, f.bkt, sigEnforcedOver+"/"+dirName(f.dir), sigEnforcedRate0+"/"+dirName(f.dir), ctx)
			if nonTrivial(f.ev) {
				nt = true
			}
			return ab
		}
		flowOf := func(s *subscriber, dir int) *flow {
			for _, f := range flows {
				if f.sub == s && f.dir == dir {
					return f
				}
			}
			return nil
		}
		// reinstall: (re-)Set s, then relocate and re-derive its two flows
		reinstall := func(s *subscriber) bool {
			p.writeBack(subs)
			if err := p.install(s); err != nil {
				rt.Fatalf("harness: manager rejected a valid policy %s: %v", s, err)
			}
			p.resync(subs)
			for dir := 0; dir < 2; dir++ {
				if old := flowOf(s, dir); old != nil {
					if check(old) {
						return true
					}
					for i, f := range flows {
						if f == old {
							flows = append(flows[:i], flows[i+1:]...)
							break
						}
					}
				}
				b, found, ab := p.locate(rt, s, dir, true)
				if ab || !found {
					return true
				}
				rate, burst, bkt, ab := contract(rt, s, dir, b)
				if ab {
					return true
				}
				flows = append(flows, &flow{sub: s, dir: dir, rate: rate, burst: burst, bkt: bkt})
			}
			removed[s] = false
			return false
		}
		nops := rapid.IntRange(2, 14).Draw(rt, "nops")
		var lastSub *subscriber
		lastDir := -1
		var lastSize uint32
		flowOfLast := func() *flow {
			if lastSub == nil || removed[lastSub] {
				return nil
			}
			return flowOf(lastSub, lastDir)
		}
		for op := 0; op < nops; op++ {
			s := subs[rapid.IntRange(0, len(subs)-1).Draw(rt, "sub")]
			switch k := rapid.IntRange(0, 9).Draw(rt, "op"); {
			case k <= 4: // a burst of frames at one instant (or with small gaps) to/from s
				dir := rapid.IntRange(0, 1).Draw(rt, "dir")
				// half of the bursts continue the flow of the previous burst (drain, wait, send again)
				if lastSub != nil && chance(rt, "sameFlow", 1, 2) {
					s, dir = lastSub, lastDir
				}
				lastSub, lastDir = s, dir
				size := uint32(logUniform(rt, 34, maxPkt, "size"))
				if f := flowOf(s, dir); f != nil && !removed[s] && f.rate != 0 && chance(rt, "sizeFit", 2, 3) {
					// a size that empties the bucket within ~20 packets
					size = uint32(min64(maxPkt, uint64(f.burst)/uint64(rapid.IntRange(1, 20).Draw(rt, "div"))+34))
				}
				n := rapid.IntRange(1, 40).Draw(rt, "burstLen")
				gap := uint64(0)
				if chance(rt, "spaced", 1, 3) {
					gap = logUniform(rt, 0, 50_000_000, "burstGap")
				}
				hist = append(hist, fmt.Sprintf("send(%d.%d.%d.%d,%s,%dx%dB,+%dns)", s.IP[0], s.IP[1], s.IP[2], s.IP[3], dirName(dir), n, size, gap))
				lastSize = size
				fr, o := frameFor(dir, s.IP, oth, size)
				for i := 0; i < n; i++ {
					clock += gap
					adm, res, ab := runFrame(rt, c, dirProg(dir), fr, o, clock)
					if ab {
						return
					}
					if removed[s] {
						if !adm {
							if failSig(rt, sigEnforcedRemove+"/"+dirName(dir), "frame of %s dropped after RemoveSubscriberQoS; history %v", s, hist) {
								return
							}
						}
						continue
					}
					f := flowOf(s, dir)
					if adm && dir == dirEgress && f.rate != 0 && res.Priority != uint32(s.Prio) {
						if failSig(rt, sigPriority, "admitted egress frame carries skb->priority %d, policy priority is %d", res.Priority, s.Prio) {
							return
						}
					}
					f.ev = append(f.ev, event{T: clock, Size: size, Adm: adm})
				}
			case k <= 6: // time passes
				g := logUniform(rt, 0, tenDays, "idle")
				// half of the idle periods are on the scale of what a few packets of the previous burst cost at
				// that flow's contracted rate (so that a drained bucket admits again, but not everything)
				if f := flowOfLast(); f != nil && f.rate >= 8 && lastSize > 0 && chance(rt, "idleTau", 1, 2) {
					tau := div128ns(uint64(lastSize), f.rate/8)
					g = logUniform(rt, tau/4, min64(tenDays, tau*64+1), "idle.tau")
				}
				clock += g
				hist = append(hist, fmt.Sprintf("idle(%dns)", g))
			case k == 7: // policy update (CoA / re-authentication): new numbers for the same address
				ns := genSubscriber(rt, fmt.Sprintf("upd%d", op))
				s.Down, s.Up, s.Burst, s.Prio, s.ViaName = ns.Down, ns.Up, ns.Burst, ns.Prio, ns.ViaName
				hist = append(hist, "set("+s.String()+")")
				cls = append(cls, "op:update")
				if reinstall(s) {
					return
				}
			case k == 8: // remove
				if removed[s] {
					continue
				}
				p.writeBack(subs)
				if err := p.mgr.RemoveSubscriberQoS(ipOf(s.IP)); err != nil {
					rt.Fatalf("harness: RemoveSubscriberQoS(%v): %v", ipOf(s.IP), err)
				}
				p.resync(subs)
				hist = append(hist, fmt.Sprintf("remove(%d.%d.%d.%d)", s.IP[0], s.IP[1], s.IP[2], s.IP[3]))
				cls = append(cls, "op:remove")
				for dir := 0; dir < 2; dir++ {
					if f := flowOf(s, dir); f != nil {
						if check(f) {
							return
						}
						f.ev = nil
					}
					if p.kernelKeys(dir)[string(s.wroteKey[dir])] {
						if failSig(rt, sigRemove+"/"+dirName(dir), "RemoveSubscriberQoS(%s) left the %s bucket in the map; history %v", s, dirName(dir), hist) {
							return
						}
					}
					if _, still := p.lookup(dir, s.IP); still {
						if failSig(rt, sigRemove+"/"+dirName(dir), "RemoveSubscriberQoS(%s): the datapath still finds a %s bucket; history %v", s, dirName(dir), hist) {
							return
						}
					}
				}
				removed[s] = true
			default: // Set again with the same numbers (new session on the same address): bucket refilled, contract restarts
				hist = append(hist, "set("+s.String()+")")
				cls = append(cls, "op:reset")
				if reinstall(s) {
					return
				}
			}
		}
		for _, f := range flows {
			if !removed[f.sub] && check(f) {
				return
			}
		}
		steered := false
		for _, s := range subs {
			steered = steered || s.steered[0] || s.steered[1]
		}
		if steered {
			cls = append(cls, "steered-key")
		} else {
			cls = append(cls, "manager-key-found")
		}
		cls = append(cls, "layer:policy")
		if nt {
			cls = append(cls, "nt:drop-then-admit", "nt:policy")
		}
		vstat.Case(nt, vstat.Hash("policy", fmt.Sprint(hist), clock),
			func() any { return map[string]any{"layer": "policy", "history": hist} }, dedup(cls)...)
	})
}

// div128ns returns the time (ns) r bytes/s need to earn size bytes, saturating.
func div128ns(size, r uint64) uint64 {
	hi, lo := mul64(size, 1_000_000_000)
	return div128(hi, lo, r)
}
