package c19

import (
	"fmt"
	"testing"

	"github.com/cilium/ebpf"
	"pgregory.net/rapid"

	"bngverif/internal/vstat"
)

// writeBack stores the runner's bucket state (what the datapath has done to the shared maps so far)
// into the kernel maps, so that a following control-plane call sees and preserves it exactly as it
// would on a live system where both sides share one map.  Steered buckets go back under the key the
// manager uses for them.
func (p *plane) writeBack(subs []*subscriber) {
	for dir := 0; dir < 2; dir++ {
		m := p.egress
		if dir == dirIngress {
			m = p.ingress
		}
		for _, e := range p.entries(dir) {
			key := e.Key
			for _, s := range subs {
				if s.steered[dir] && string(key) == string(datapathKey(s.IP)) {
					key = s.wroteKey[dir]
				}
			}
			if err := m.Update(key, e.Value, ebpf.UpdateAny); err != nil {
				inconclusive("kernel map update: %v", err)
			}
		}
	}
}

// resync copies the kernel maps into the runner and re-applies the steering moves.
func (p *plane) resync(subs []*subscriber) {
	p.sync()
	for _, s := range subs {
		for dir := 0; dir < 2; dir++ {
			if !s.steered[dir] {
				continue
			}
			raw, err := p.c.LookupValue(dirMap(dir), s.wroteKey[dir])
			if err != nil || len(raw) != bucketSz {
				continue // removed
			}
			_ = p.c.DeleteKey(dirMap(dir), s.wroteKey[dir])
			if err := p.c.LoadMap(dirMap(dir), datapathKey(s.IP), raw); err != nil {
				inconclusive("LoadMap: %v", err)
			}
		}
	}
}

// names shared by the subscribers of a case; "guest" is also one of the shipped default policies
var planPool = []string{"verif-plan-a", "verif-plan-b", "guest"}

// mutateInPlace edits the plan the way a caller does before re-submitting the object it kept: the new
// numbers go into the snapshot fields of s (submit copies them into the SAME object).  Returns the kind.
func mutateInPlace(rt *rapid.T, s *subscriber, label string) string {
	scale := func(v uint64, up bool) uint64 {
		k := uint64(rapid.IntRange(2, 100).Draw(rt, label+".k"))
		if up {
			v *= k
			if v > maxRate {
				v = maxRate
			}
		} else {
			v /= k
			if v < minRate {
				v = minRate
			}
		}
		return v
	}
	for try := 0; ; try++ {
		old := [4]uint64{s.Down, s.Up, uint64(s.Burst), uint64(s.Prio)}
		kind := pick(rt, label+".kind", "upgrade", "downgrade", "burst-only", "priority-only", "to-rate-0", "from-rate-0", "all-new")
		if try > 3 {
			kind = "all-new"
		}
		switch kind {
		case "upgrade", "downgrade":
			up := kind == "upgrade"
			if s.Down != 0 {
				s.Down = scale(s.Down, up)
			}
			if s.Up != 0 {
				s.Up = scale(s.Up, up)
			}
		case "burst-only":
			s.Burst = genBurst(rt, s.Down, label+".burst")
		case "priority-only":
			s.Prio = uint8((int(s.Prio) + rapid.IntRange(1, 7).Draw(rt, label+".dprio")) % 8)
		case "to-rate-0":
			switch rapid.IntRange(0, 2).Draw(rt, label+".which") {
			case 0:
				s.Down = 0
			case 1:
				s.Up = 0
			default:
				s.Down, s.Up = 0, 0
			}
		case "from-rate-0":
			if s.Down == 0 {
				s.Down = genRate(rt, label+".down")
			}
			if s.Up == 0 {
				s.Up = genRate(rt, label+".up")
			}
		default:
			ns := genSubscriber(rt, label+".new")
			s.Down, s.Up, s.Burst, s.Prio = ns.Down, ns.Up, ns.Burst, ns.Prio
		}
		if old != [4]uint64{s.Down, s.Up, uint64(s.Burst), uint64(s.Prio)} {
			return kind
		}
	}
}

// TestPropPolicy - clause 4: the policy set through the control plane is the one enforced.
// Histories of control-plane calls for 1..3 subscribers interleaved with bursts of frames and idle
// periods.  The harness plays a real caller: it KEEPS the *SubscriberQoS objects it hands to
// SetSubscriberQoS, edits the plan in the same object and submits it again (upgrade, downgrade, burst
// only, priority only, to / from rate 0), re-submits an unchanged object, builds new objects, goes
// through SetSubscriberPolicy with named policies, removes and re-adds, edits an object WITHOUT
// submitting it, and restarts the data plane (Stop/Start: new, empty maps, manager object kept)
// followed by re-application of every subscriber's policy.
// Decides after EVERY control-plane call: (i) read-back of the kernel maps - for every subscriber the
// bucket under the address bytes the TC program looks up carries exactly the rate / burst / priority of
// the LAST successful Set call for that address (absent after Remove), also for the subscribers the
// call was not about; (ii) a probe burst in both directions, and all other traffic of the history, obeys
// that contract (clauses 1-3) from the instant of the call; nothing is limited after Remove.
func TestPropPolicy(t *testing.T) {
	c := startRunner(t)
	p := newPlane(t, c)
	vstat.Checks(1200, 30000)
	rapid.Check(t, func(rt *rapid.T) {
		subs := distinctSubs(rt, rapid.IntRange(1, 3).Draw(rt, "nsubs"))
		for i, s := range subs {
			if s.ViaName && chance(rt, fmt.Sprintf("pool%d", i), 2, 3) {
				// named plans come from the shared pool: a later subscriber's definition of the same name
				// replaces the earlier one (the earlier subscriber keeps what was current at its own Set)
				s.planName, s.planDefine = pick(rt, fmt.Sprintf("pool%d.name", i), planPool[:2]...), defineAdd
			}
		}
		flows, abandon := p.setup(rt, subs, true)
		if abandon {
			return
		}
		removed := map[*subscriber]bool{}
		clock, tc := genT0(rt, 60*tenDays, "t0")
		oth := other(rt, "peer")
		cls := []string{tc, fmt.Sprintf("subs:%d", len(subs))}
		var hist []string
		nt := false
		ipStr := func(s *subscriber) string { return fmt.Sprintf("%d.%d.%d.%d", s.IP[0], s.IP[1], s.IP[2], s.IP[3]) }
		check := func(f *flow) bool {
			ctx := func() string {
				return fmt.Sprintf("%s of %s, contract rate=%d burst=%d, history %v, arrivals %v", dirName(f.dir), f.sub, f.rate, f.burst, hist, sampleEvents(f.ev, 40))
			}
			ab, _ := verdictCheck2(rt, f.ev, f.rate, f.burst, f.bkt, sigEnforcedOver+"/"+dirName(f.dir), sigEnforcedRate0+"/"+dirName(f.dir), ctx)
			if nonTrivial(f.ev) {
				nt = true
			}
			return ab
		}
		flowOf := func(s *subscriber, dir int) *flow {
			for _, f := range flows {
				if f.sub == s && f.dir == dir {
					return f
				}
			}
			return nil
		}
		dropFlow := func(old *flow) {
			for i, f := range flows {
				if f == old {
					flows = append(flows[:i], flows[i+1:]...)
					return
				}
			}
		}
		// send offers n frames of one size to/from s; verdicts go to the flow (or must all pass after Remove)
		send := func(s *subscriber, dir int, size uint32, n int, gap uint64) bool {
			fr, o := frameFor(dir, s.IP, oth, size)
			for i := 0; i < n; i++ {
				clock += gap
				adm, res, ab := runFrame(rt, c, dirProg(dir), fr, o, clock)
				if ab {
					return true
				}
				if removed[s] {
					if !adm {
						if failSig(rt, sigEnforcedRemove+"/"+dirName(dir), "frame of %s dropped after RemoveSubscriberQoS; history %v", s, hist) {
							return true
						}
					}
					continue
				}
				f := flowOf(s, dir)
				if adm && dir == dirEgress && f.rate != 0 && res.Priority != uint32(s.Prio) {
					if failSig(rt, sigPriority, "admitted egress frame carries skb->priority %d, policy priority is %d; history %v", res.Priority, s.Prio, hist) {
						return true
					}
				}
				f.ev = append(f.ev, event{T: clock, Size: size, Adm: adm})
			}
			return false
		}
		// probe: right after a control-plane call, a burst at one instant in both directions that is worth
		// more than the contracted burst where 40 frames can be (so a stale, larger bucket over-admits)
		probe := func(s *subscriber) bool {
			for dir := 0; dir < 2; dir++ {
				size := uint32(1500)
				if f := flowOf(s, dir); f != nil && !removed[s] && f.rate != 0 {
					size = uint32(min64(maxPkt, uint64(f.burst)/uint64(rapid.IntRange(2, 30).Draw(rt, "probe.div"))+34))
				}
				n := rapid.IntRange(3, 40).Draw(rt, "probe.n")
				hist = append(hist, fmt.Sprintf("probe(%s,%s,%dx%dB)", ipStr(s), dirName(dir), n, size))
				if send(s, dir, size, n, 0) {
					return true
				}
			}
			return false
		}
		// readback: (i) above, on the kernel maps themselves
		readback := func(called *subscriber, event string) bool {
			for _, s := range subs {
				ev := evBystander
				if s == called || event == evAfterStart { // a restart concerns every subscriber
					ev = event
				}
				for dir := 0; dir < 2; dir++ {
					b, ok := p.kernelBucket(dir, s.IP)
					if removed[s] {
						if ok {
							if failSig(rt, sigRemove+"/"+dirName(dir), "[%s] %s was removed but the %s map holds a bucket %v at its address; history %v", ev, s, dirName(dir), b, hist) {
								return true
							}
						}
						continue
					}
					if !ok {
						if failSig(rt, missingSig(ev), "[%s] the last Set(%s) succeeded but %s holds no bucket under the address bytes % x; history %v", ev, s, dirMap(dir), datapathKey(s.IP), hist) {
							return true
						}
						continue
					}
					if _, _, _, ab := contract(rt, s, dir, b, ev); ab {
						return true
					}
				}
			}
			return false
		}
		lastEvent := ""
		// apply: one Set call for the snapshot values of s; closes the old flows, opens the new contract
		apply := func(s *subscriber, how int, event string, wb bool) bool {
			if wb {
				p.writeBack(subs)
			}
			if err := p.submit(s, how); err != nil {
				rt.Fatalf("harness: manager rejected a valid policy %s: %v", s, err)
			}
			if s.lastRedefined {
				event = evRedefined
				cls = append(cls, "op:policy-redefined")
				hist = append(hist, fmt.Sprintf("(policy %q redefined since last use; now %s)", s.planName, s))
			}
			lastEvent = event
			p.resync(subs)
			wasRemoved := removed[s]
			removed[s] = false
			for dir := 0; dir < 2; dir++ {
				if old := flowOf(s, dir); old != nil {
					if !wasRemoved && check(old) {
						return true
					}
					dropFlow(old)
				}
				b, found, ab := p.locate(rt, s, dir, true, event)
				if ab || !found {
					return true
				}
				rate, burst, bkt, ab := contract(rt, s, dir, b, event)
				if ab {
					return true
				}
				flows = append(flows, &flow{sub: s, dir: dir, rate: rate, burst: burst, bkt: bkt})
			}
			return false
		}
		// setOp draws how the caller delivers a (new or unchanged) plan for s and performs the call
		setOp := func(s *subscriber, label string) bool {
			how := pick(rt, label+".how", "in-place", "in-place", "identical", "fresh-new", "fresh-identical", "by-name-new", "by-name-identical",
				"by-name-redefine", "by-name-redefine", "by-name-redefine", "by-name-current", "by-name-current", "by-name-bulk-defaults")
			event, via := evFreshUpdate, submitFresh
			switch how {
			case "in-place":
				kind := mutateInPlace(rt, s, label+".mut")
				event, via = evInPlace, submitSameObject
				how += ":" + kind
				cls = append(cls, "op:in-place-update", "in-place:"+kind)
			case "identical":
				event, via = evIdentical, submitSameObject
				if s.obj == nil || s.lastByName {
					via = submitByName // the plan was delivered by name: the caller re-applies the same named policy
				}
				cls = append(cls, "op:identical-resubmit")
			case "fresh-new", "by-name-new":
				ns := genSubscriber(rt, label+".new")
				s.Down, s.Up, s.Burst, s.Prio = ns.Down, ns.Up, ns.Burst, ns.Prio
				if how == "by-name-new" {
					via, s.planName = submitByName, ""
				}
				cls = append(cls, "op:update")
			case "by-name-redefine": // a name from the shared pool gets new numbers (AddPolicy replaces, or Remove + Add), then is applied
				name := pick(rt, label+".name", planPool...)
				var usedNames []string
				for _, n := range planPool {
					if _, ok := p.usedDef[n]; ok {
						usedNames = append(usedNames, n)
					}
				}
				if len(usedNames) > 0 && chance(rt, label+".used", 3, 4) {
					name = pick(rt, label+".usedName", usedNames...) // a name some subscriber already resolved
				}
				kind := "first-definition"
				if cur, ok := p.defs[name]; ok {
					s.Down, s.Up, s.Burst, s.Prio = cur.Down, cur.Up, cur.Burst, cur.Prio
					kind = mutateInPlace(rt, s, label+".redef")
				} else {
					ns := genSubscriber(rt, label+".new")
					s.Down, s.Up, s.Burst, s.Prio = ns.Down, ns.Up, ns.Burst, ns.Prio
				}
				s.planName, s.planDefine, via = name, defineAdd, submitByName
				if chance(rt, label+".removeAdd", 1, 3) {
					s.planDefine = defineRemoveAdd
					kind += ",remove+add"
				}
				how += ":" + name + ":" + kind
				cls = append(cls, "op:update")
			case "by-name-current": // a pool name as it is defined now (possibly redefined by another subscriber's event)
				var names []string
				for _, n := range planPool {
					if _, ok := p.defs[n]; ok {
						names = append(names, n)
					}
				}
				s.planName, s.planDefine, via = pick(rt, label+".name", names...), defineNone, submitByName
				how += ":" + s.planName
				cls = append(cls, "op:update")
			case "by-name-bulk-defaults": // the shipped policies are reloaded over custom definitions, then one of them is applied
				s.planName, s.planDefine, via = "guest", defineBulkDefaults, submitByName
				cls = append(cls, "op:update", "op:bulk-defaults")
			case "fresh-identical":
				event = evIdentical
				cls = append(cls, "op:identical-resubmit")
			case "by-name-identical":
				event, via = evIdentical, submitByName
				cls = append(cls, "op:identical-resubmit")
			}
			if removed[s] {
				event = evAfterRemove
				cls = append(cls, "op:set-after-remove")
			}
			hist = append(hist, fmt.Sprintf("set[%s](%s)", how, s))
			if apply(s, via, event, true) {
				return true
			}
			if readback(s, lastEvent) {
				return true
			}
			return probe(s)
		}
		nops := rapid.IntRange(2, 14).Draw(rt, "nops")
		var lastSub *subscriber
		lastDir := -1
		var lastSize uint32
		flowOfLast := func() *flow {
			if lastSub == nil || removed[lastSub] {
				return nil
			}
			return flowOf(lastSub, lastDir)
		}
		for op := 0; op < nops; op++ {
			s := subs[rapid.IntRange(0, len(subs)-1).Draw(rt, "sub")]
			switch k := rapid.IntRange(0, 13).Draw(rt, "op"); {
			case k <= 4: // a burst of frames at one instant (or with small gaps) to/from s
				dir := rapid.IntRange(0, 1).Draw(rt, "dir")
				// half of the bursts continue the flow of the previous burst (drain, wait, send again)
				if lastSub != nil && chance(rt, "sameFlow", 1, 2) {
					s, dir = lastSub, lastDir
				}
				lastSub, lastDir = s, dir
				size := uint32(logUniform(rt, 34, maxPkt, "size"))
				if f := flowOf(s, dir); f != nil && !removed[s] && f.rate != 0 && chance(rt, "sizeFit", 2, 3) {
					// a size that empties the bucket within ~20 packets
					size = uint32(min64(maxPkt, uint64(f.burst)/uint64(rapid.IntRange(1, 20).Draw(rt, "div"))+34))
				}
				n := rapid.IntRange(1, 40).Draw(rt, "burstLen")
				gap := uint64(0)
				if chance(rt, "spaced", 1, 3) {
					gap = logUniform(rt, 0, 50_000_000, "burstGap")
				}
				hist = append(hist, fmt.Sprintf("send(%s,%s,%dx%dB,+%dns)", ipStr(s), dirName(dir), n, size, gap))
				lastSize = size
				if send(s, dir, size, n, gap) {
					return
				}
			case k <= 6: // time passes
				g := logUniform(rt, 0, tenDays, "idle")
				// half of the idle periods are on the scale of what a few packets of the previous burst cost at
				// that flow's contracted rate (so that a drained bucket admits again, but not everything)
				if f := flowOfLast(); f != nil && f.rate >= 8 && lastSize > 0 && chance(rt, "idleTau", 1, 2) {
					tau := div128ns(uint64(lastSize), f.rate/8)
					g = logUniform(rt, tau/4, min64(tenDays, tau*64+1), "idle.tau")
				}
				clock += g
				hist = append(hist, fmt.Sprintf("idle(%dns)", g))
			case k <= 9 || k == 12: // a Set call: update in place / identical re-submission / new object / named policy
				if setOp(s, fmt.Sprintf("set%d", op)) {
					return
				}
			case k == 10: // remove
				if removed[s] {
					continue
				}
				p.writeBack(subs)
				if err := p.mgr.RemoveSubscriberQoS(ipOf(s.IP)); err != nil {
					rt.Fatalf("harness: RemoveSubscriberQoS(%v): %v", ipOf(s.IP), err)
				}
				p.resync(subs)
				hist = append(hist, fmt.Sprintf("remove(%s)", ipStr(s)))
				cls = append(cls, "op:remove")
				for dir := 0; dir < 2; dir++ {
					if f := flowOf(s, dir); f != nil {
						if check(f) {
							return
						}
						f.ev = nil
					}
					if p.kernelKeys(dir)[string(s.wroteKey[dir])] {
						if failSig(rt, sigRemove+"/"+dirName(dir), "RemoveSubscriberQoS(%s) left the %s bucket in the map; history %v", s, dirName(dir), hist) {
							return
						}
					}
					if _, still := p.lookup(dir, s.IP); still {
						if failSig(rt, sigRemove+"/"+dirName(dir), "RemoveSubscriberQoS(%s): the datapath still finds a %s bucket; history %v", s, dirName(dir), hist) {
							return
						}
					}
				}
				removed[s] = true
				if readback(s, "remove") || probe(s) {
					return
				}
			case k == 11: // the caller edits the object it kept but does not submit it: nothing may change
				if s.obj == nil {
					continue
				}
				s.obj.DownloadBPS = genRate(rt, "edit.down")
				s.obj.UploadBPS = genRate(rt, "edit.up")
				s.obj.BurstBytes = genBurst(rt, s.obj.DownloadBPS, "edit.burst")
				s.obj.Priority = uint8(rapid.IntRange(0, 7).Draw(rt, "edit.prio"))
				hist = append(hist, fmt.Sprintf("edit-without-set(%s)", ipStr(s)))
				cls = append(cls, "op:edit-without-set")
				if readback(nil, evBystander) {
					return
				}
				if !removed[s] && probe(s) {
					return
				}
			default: // data plane restart (Stop/Start): new empty maps; the caller re-applies every subscriber's policy
				for _, f := range flows {
					if !removed[f.sub] && check(f) {
						return
					}
				}
				flows = nil
				p.restartDataPlane()
				for _, x := range subs {
					x.steered = [2]bool{}
				}
				hist = append(hist, "restart")
				cls = append(cls, "op:restart")
				for i, x := range subs {
					if removed[x] {
						continue
					}
					via := submitSameObject
					switch {
					case x.obj == nil || x.lastByName:
						via = submitByName
					case chance(rt, fmt.Sprintf("restart.fresh%d", i), 1, 3):
						via = submitFresh
					}
					hist = append(hist, fmt.Sprintf("reapply(%s)", x))
					if apply(x, via, evAfterStart, false) {
						return
					}
				}
				if readback(nil, evAfterStart) {
					return
				}
				for _, x := range subs {
					if !removed[x] && probe(x) {
						return
					}
				}
			}
		}
		for _, f := range flows {
			if !removed[f.sub] && check(f) {
				return
			}
		}
		steered := false
		for _, s := range subs {
			steered = steered || s.steered[0] || s.steered[1]
		}
		if steered {
			cls = append(cls, "steered-key")
		} else {
			cls = append(cls, "manager-key-found")
		}
		cls = append(cls, "layer:policy")
		if nt {
			cls = append(cls, "nt:drop-then-admit", "nt:policy")
		}
		vstat.Case(nt, vstat.Hash("policy", fmt.Sprint(hist), clock),
			func() any { return map[string]any{"layer": "policy", "history": hist} }, dedup(cls)...)
	})
}

// div128ns returns the time (ns) r bytes/s need to earn size bytes, saturating.
func div128ns(size, r uint64) uint64 {
	hi, lo := mul64(size, 1_000_000_000)
	return div128(hi, lo, r)
}
