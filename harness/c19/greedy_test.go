package c19

import (
	"fmt"
	"testing"

	"pgregory.net/rapid"

	"bngverif/internal/bpfnative"
	"bngverif/internal/vstat"
)

// block is a train of `N` arrivals of one size at a constant gap (executed with the runner's
// auto-stepping clock and pipelined RUNs, ~100k arrivals/s).
type block struct {
	Size uint32
	Gap  uint64 // ns between consecutive arrivals (and after the last one)
	N    int
}

// divisors of 1e9 that are <= 10 us: gaps (ns) for which suitable rates earn whole bytes
var div1e9 = []uint64{1, 2, 4, 5, 8, 10, 16, 20, 25, 32, 40, 50, 64, 80, 100, 125, 128, 160, 200, 250, 256, 320, 400, 500, 512, 625, 640, 800,
	1000, 1250, 1280, 1600, 2000, 2500, 2560, 3125, 3200, 4000, 5000, 6250, 6400, 8000, 10000}

// runBlocks executes the trains against prog for subscriber ip starting at clock t0 and returns the arrivals.
func runBlocks(t fataler, c *bpfnative.Client, dir int, ip, oth [4]byte, t0 uint64, blocks []block) (ev []event, abandon bool) {
	clock := t0
	const chunk = 16384
	for _, b := range blocks {
		fr := buildFrame(dir, ip, oth, 64, int(b.Size)-14)
		o := bpfnative.DefaultOpts()
		if b.Size < 64 {
			fr = buildFrame(dir, ip, oth, int(b.Size), int(b.Size)-14)
		} else {
			o.SkbLen = b.Size
		}
		req := bpfnative.RunReq{Prog: dirProg(dir), Frame: fr, Opts: o}
		for done := 0; done < b.N; {
			n := b.N - done
			if n > chunk {
				n = chunk
			}
			if err := c.SetClockStep(clock, b.Gap); err != nil {
				inconclusive("SetClockStep: %v", err)
			}
			reqs := make([]bpfnative.RunReq, n)
			for i := range reqs {
				reqs[i] = req
			}
			res, err := c.RunBatch(reqs)
			if err != nil {
				inconclusive("RunBatch: %v", err)
			}
			for i, r := range res {
				adm, _, ab := verdictOf(t, dirProg(dir), r)
				if ab {
					return ev, true
				}
				ev = append(ev, event{T: clock + uint64(i)*b.Gap, Size: b.Size, Adm: adm})
			}
			clock += uint64(n) * b.Gap
			done += n
		}
	}
	return ev, false
}

// TestPropGreedy - clause 2 where it bites: a subscriber that always has a packet waiting, arrivals
// 0..10 us apart (dropped packets retried), for as long as it takes to earn more than
// burst + 65535 bytes at the contracted rate (tens to hundreds of thousands of arrivals).
// Policy installed through the manager; full TC programs; clause 1 is checked on the same arrivals.
func TestPropGreedy(t *testing.T) {
	c := startRunner(t)
	p := newPlane(t, c)
	vstat.Checks(30, 300)
	budget := vstat.Scale(140_000, 500_000)
	rapid.Check(t, func(rt *rapid.T) {
		dir := dirEgress
		if chance(rt, "ingress", 1, 4) {
			dir = dirIngress
		}
		// steer: while the truncation finding is listed most cases use rates/gaps that earn whole bytes per gap
		integral := chance(rt, "integral", 1, 2)
		if vstat.IsListed(sigStarvedFrac) {
			integral = !chance(rt, "fractional", 1, 3)
		}
		var r uint64 // bytes/s
		var G uint64 = 1
		var fixedGap uint64 // fractional classes that aim at a given earning per gap use one gap for all trains
		kind := "refill:integral"
		if integral {
			G = pick(rt, "G", div1e9...)
			base := 1_000_000_000 / G
			r = base * logUniform(rt, 1, (maxRate/8)/base, "r.k")
		} else {
			switch rapid.IntRange(0, 3).Draw(rt, "r.kind") {
			case 0, 1: // every gap earns between half a byte and one byte
				kind = "refill:sub-byte"
				fixedGap = logUniform(rt, 1, 10_000, "gap.fixed")
				r = uint64(rapid.IntRange(500, 999).Draw(rt, "x.milli")) * 1_000_000 / fixedGap
			case 2: // every gap earns between one and two bytes
				kind = "refill:1-2-bytes"
				fixedGap = logUniform(rt, 1, 10_000, "gap.fixed")
				r = uint64(rapid.IntRange(1050, 1950).Draw(rt, "x.milli")) * 1_000_000 / fixedGap
			default:
				kind = "refill:fractional-any"
				r = logUniform(rt, minRate/8, maxRate/8, "r")
			}
			if r < minRate/8 {
				r = minRate / 8
			}
		}
		rate := r*8 + uint64(rapid.IntRange(0, 7).Draw(rt, "rate.rem"))
		if integral {
			rate = r * 8
		}
		sub := &subscriber{IP: genIP(rt, "ip"), Prio: uint8(rapid.IntRange(0, 7).Draw(rt, "prio")), ViaName: chance(rt, "byName", 1, 3)}
		sub.Down, sub.Up = rate, rate
		sub.Burst = uint32(logUniform(rt, 70, 150_000, "burst"))
		if chance(rt, "burst.small", 1, 2) {
			sub.Burst = uint32(logUniform(rt, 70, 6000, "burst.s"))
		}
		flows, abandon := p.setup(rt, []*subscriber{sub}, true)
		if abandon {
			return
		}
		f := flows[dir]
		B := f.bkt
		// trains
		var blocks []block
		nb := rapid.IntRange(1, 3).Draw(rt, "nblocks")
		type plan struct {
			size uint32
			gap  uint64
		}
		var plans []plan
		for i := 0; i < nb; i++ {
			smax := uint64(B) - 1
			if smax > maxPkt {
				smax = maxPkt
			}
			size := uint32(logUniform(rt, 34, smax, "size"))
			if chance(rt, "size.big", 1, 2) {
				size = uint32(rapid.Uint64Range(smax/2+17, smax).Draw(rt, "size.b"))
			}
			gmax := maxSatGap(size, rate, B)
			if gmax > 10_000 {
				gmax = 10_000
			}
			var gap uint64
			switch rapid.IntRange(0, 4).Draw(rt, "gap.kind") {
			case 0, 1:
				gap = gmax
			case 2:
				if i > 0 || nb > 1 {
					gap = 0 // back-to-back train (drains the bucket)
				} else {
					gap = gmax
				}
			default:
				gap = logUniform(rt, 1, maxU64(gmax, 1), "gap")
				if gap > gmax {
					gap = gmax
				}
			}
			if integral {
				gap -= gap % G // may become 0: a back-to-back train
			}
			if fixedGap > 0 && gap > 0 && fixedGap <= gmax {
				gap = fixedGap
			}
			plans = append(plans, plan{size, gap})
		}
		// arrivals per train: back-to-back trains just long enough to drain the burst twice over; the rest
		// share the earning target A = k*(burst+65535) bytes, scaled down to the arrival budget
		k16 := uint64(rapid.IntRange(18, 64).Draw(rt, "target.k16")) // k = 1.125 .. 4
		target := (uint64(B) + maxPkt) * k16 / 16
		left := budget
		nEarning := 0
		for _, pl := range plans {
			if pl.gap > 0 {
				nEarning++
			}
		}
		for _, pl := range plans {
			var n int
			if pl.gap == 0 {
				n = int(2*uint64(B)/uint64(pl.size)) + 3
				if n > 4000 {
					n = 4000
				}
			} else {
				// bytes earned per arrival = r*gap/1e9
				share := target / uint64(nEarning) // nEarning > 0 here
				hi, lo := mul64(share, 1_000_000_000)
				q := div128(hi, lo, r*pl.gap)
				if q > uint64(budget) {
					q = uint64(budget)
				}
				n = int(q) + 2
			}
			blocks = append(blocks, block{Size: pl.size, Gap: pl.gap, N: n})
		}
		total := 0
		for _, b := range blocks {
			total += b.N
		}
		if total > left {
			for i := range blocks {
				blocks[i].N = int(uint64(blocks[i].N)*uint64(left)/uint64(total)) + 1
			}
		}
		// optional prologue: drain, then idle for up to 10 days (elapsed*rate overflows 64 bits for long
		// idles at high rates), then the greedy trains
		t0, tc := genT0(rt, 2*tenDays, "t0")
		cls := []string{tc, "dir:" + dirName(dir)}
		if chance(rt, "prologue", 1, 3) {
			idle := logUniform(rt, 1_000_000, tenDays, "idle")
			pro := []block{{Size: blocks[0].Size, Gap: 0, N: int(uint64(B)/uint64(blocks[0].Size)) + 2}, {Size: blocks[0].Size, Gap: idle, N: 1}}
			if pro[0].N > 4000 {
				pro[0].N = 4000
			}
			blocks = append(pro, blocks...)
			cls = append(cls, "prologue:drain-idle")
			if hi, _ := mul64(idle, r); hi != 0 {
				cls = append(cls, "prologue:idle-overflows-u64")
			}
		}
		ev, abandon := runBlocks(rt, c, dir, sub.IP, other(rt, "peer"), t0, blocks)
		if abandon {
			return
		}
		ctx := func() string {
			return fmt.Sprintf("%s of %s, contract rate=%d burst=%d, t0=%d, trains (size,gap ns,count) %v, first arrivals %v", dirName(dir), sub, f.rate, f.burst, t0, blocks, sampleEvents(ev, 12))
		}
		abandon, c2 := verdictCheck2(rt, ev, f.rate, f.burst, f.bkt, sigEnforcedOver+"/"+dirName(dir), sigEnforcedRate0+"/"+dirName(dir), ctx)
		if abandon {
			return
		}
		cls = append(cls, c2...)
		cls = append(cls, kind, "layer:greedy")
		if sub.steered[dir] {
			cls = append(cls, "steered-key")
		} else {
			cls = append(cls, "manager-key-found")
		}
		nt := nonTrivial(ev)
		if nt {
			cls = append(cls, "nt:drop-then-admit", "nt:greedy")
		}
		a, d := countAdm(ev)
		vstat.Class("greedy-arrivals", int64(len(ev)))
		vstat.Case(nt, vstat.Hash("greedy", dir, sub.String(), t0, fmt.Sprint(blocks)),
			func() any {
				return map[string]any{"layer": "tc-greedy", "dir": dirName(dir), "policy": sub.String(), "contract_burst": f.burst, "t0": t0,
					"trains_size_gapns_count": fmt.Sprint(blocks), "admitted": a, "dropped": d}
			}, dedup(cls)...)
	})
}

func maxU64(a, b uint64) uint64 {
	if a > b {
		return a
	}
	return b
}
