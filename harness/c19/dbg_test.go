package c19

import (
	"fmt"
	"testing"

	"pgregory.net/rapid"
)

func TestDbgSat(t *testing.T) {
	n := 0
	rapid.Check(t, func(rt *rapid.T) {
		s := genSeq(rt, 1, true)
		if s.Mode != "saturating" || n > 25 {
			return
		}
		n++
		p := newPlayer(s)
		for {
			_, _, ok := p.next()
			if !ok {
				break
			}
			p.done(true)
		}
		W := p.ev[len(p.ev)-1].T - p.ev[0].T
		fmt.Printf("rate=%d burst=%d n=%d size0=%d,%d earn=%.0f need=%d frac=%v\n", s.Rate, s.Burst, len(s.Size), s.Size[0], s.Size[len(s.Size)/2], float64(W)*float64(s.Rate/8)/1e9, s.Burst+65535, s.Frac[:min(len(s.Frac),6)])
	})
}
