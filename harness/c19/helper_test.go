package c19

import (
	"fmt"
	"testing"

	"pgregory.net/rapid"

	"bngverif/internal/bpfnative"
	"bngverif/internal/vstat"
)

// callBucket runs token_bucket_check(tb, size) natively at kernel clock t and returns the verdict and
// the updated bucket.  The bucket lies flush against a guard page (alternating sides).
func callBucket(t fataler, c *bpfnative.Client, tb bucket, size uint32, clock uint64, k int) (adm bool, out bucket, abandon bool) {
	if err := c.SetClock(clock); err != nil {
		inconclusive("SetClock: %v", err)
	}
	pl := bpfnative.EndFlush
	if k%2 == 1 {
		pl = bpfnative.StartFlush
	}
	res, err := c.Call(helperTB, [4]uint64{uint64(size)}, tb.bytes(), nil, pl)
	if err != nil {
		inconclusive("Call %s: %v", helperTB, err)
	}
	if res.Fault.Kind == bpfnative.FaultDied {
		inconclusive("runner died: %s", res.Fault.Msg)
	}
	if res.Fault.Faulted() {
		return false, tb, failSig(t, sigFault+"/token_bucket_check", "token_bucket_check(%v, %d) at clock %d faulted: %v", tb, size, clock, res.Fault)
	}
	if len(res.Buf) != bucketSz {
		inconclusive("CALL returned %d bucket bytes", len(res.Buf))
	}
	out = parseBucket(res.Buf)
	if res.Ret > 1 {
		return false, out, failSig(t, sigState+"/return-value", "token_bucket_check returned %d", res.Ret)
	}
	if out.Rate != tb.Rate || out.Burst != tb.Burst || out.Prio != tb.Prio {
		return false, out, failSig(t, sigState+"/contract-overwritten", "token_bucket_check changed the contract: %v -> %v", tb, out)
	}
	return res.Ret == 1, out, false
}

// TestPropHelperSequence - layer (a): the pure helper on generated bucket state, clock and arrivals.
// Decides clause 1 (never more than burst + rate*window), clause 2 on every saturating run, and the
// rate-0 clause, for sizes 1..65535 and the whole rate/burst/clock domain.
func TestPropHelperSequence(t *testing.T) {
	c := startRunner(t)
	unit := detectTokenUnit(t, c)
	vstat.Checks(2500, 60000)
	rapid.Check(t, func(rt *rapid.T) {
		s := genSeq(rt, 1, true)
		rate, burst := s.Rate, s.Burst
		// initial bucket: as the manager writes it (full, last_update 0) or mid-life (any fill level,
		// refreshed at some earlier instant of the monotonic clock)
		tb := bucket{Tokens: uint64(burst) * unit, LastUpdate: 0, Rate: rate, Burst: burst, Prio: uint8(rapid.IntRange(0, 7).Draw(rt, "prio"))}
		state := "init:fresh"
		if chance(rt, "midlife", 1, 2) {
			state = "init:midlife"
			tb.Tokens = rapid.Uint64Range(0, uint64(burst)*unit).Draw(rt, "tokens0")
			tb.LastUpdate = s.T0 - logUniform(rt, 0, s.T0, "age0")
		}
		tb0 := tb
		p := newPlayer(s)
		for {
			clock, size, ok := p.next()
			if !ok {
				break
			}
			adm, nb, abandon := callBucket(rt, c, tb, size, clock, p.k)
			if abandon {
				return
			}
			tb = nb
			p.done(adm)
		}
		ctx := func() string {
			return fmt.Sprintf("helper layer, %s, initial bucket %v, arrivals %v", s, tb0, sampleEvents(p.ev, 40))
		}
		abandon, cls := verdictCheck(rt, p.ev, rate, burst, sigOverAdmit+"/helper", sigRate0+"/helper", ctx)
		if abandon {
			return
		}
		cls = append(cls, s.Class...)
		cls = append(cls, state, "layer:helper")
		nt := nonTrivial(p.ev)
		if nt {
			cls = append(cls, "nt:drop-then-admit", "nt:helper")
		}
		if a, d := countAdm(p.ev); d == 0 {
			cls = append(cls, "all-admitted")
		} else if a == 0 {
			cls = append(cls, "none-admitted")
		}
		vstat.Case(nt, vstat.Hash("helper", rate, burst, s.T0, tb0.Tokens, tb0.LastUpdate, fmt.Sprint(p.ev)),
			func() any {
				return map[string]any{"layer": "helper", "rate_bps": rate, "burst": burst, "t0": s.T0, "mode": s.Mode, "bucket0": tb0.String(), "arrivals": sampleEvents(p.ev, 24)}
			}, dedup(cls)...)
	})
}

func dedup(in []string) []string {
	seen := map[string]bool{}
	var out []string
	for _, s := range in {
		if !seen[s] {
			seen[s] = true
			out = append(out, s)
		}
	}
	return out
}
