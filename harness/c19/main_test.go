// Package c19 decides property C19: the per-subscriber token-bucket rate limiter of
// bpf/qos_ratelimit.c (executed natively) admits no more than burst + rate*window, does not starve a
// subscriber that always has a packet waiting, treats rate 0 as unlimited, and enforces exactly the
// policy pkg/qos.Manager wrote into the (real kernel) maps.
package c19

import (
	"encoding/binary"
	"fmt"
	"math/bits"
	"net"
	"os"
	"testing"

	"github.com/cilium/ebpf"
	"go.uber.org/zap"
	"pgregory.net/rapid"

	"github.com/codelaboratoryltd/bng/pkg/qos"
	"github.com/codelaboratoryltd/bng/pkg/radius"

	"bngverif/internal/bpfnative"
	"bngverif/internal/vstat"
)

func TestMain(m *testing.M) { vstat.Main(m, "C19") }

const (
	progEgress  = "qos_egress_prog"
	progIngress = "qos_ingress_prog"
	mapEgress   = "qos_egress"
	mapIngress  = "qos_ingress"
	mapStats    = "qos_stats_map"
	helperTB    = "qos_ratelimit.token_bucket_check"

	tcOK   = 0
	tcShot = 2

	maxPkt   = 65535
	minRate  = 1_000           // 1 kbit/s
	maxRate  = 100_000_000_000 // 100 Gbit/s
	tenDays  = 10 * 24 * 3600 * 1_000_000_000
	bucketSz = 32
)

// signatures
const (
	sigOverAdmit      = "C19/token_bucket/over-admit"                // + /helper | /egress | /ingress
	sigStarvedFrac    = "C19/token_bucket/starved/fractional-refill" // gaps earn a non-integral number of bytes and the shortfall is < 1 byte per arrival
	sigStarvedInt     = "C19/token_bucket/starved/integral-refill"   // every gap earns a whole number of bytes
	sigStarvedBeyond  = "C19/token_bucket/starved/beyond-truncation" // fractional gaps, but the shortfall exceeds one byte per arrival
	sigRate0          = "C19/token_bucket/rate0-dropped"             // + layer
	sigState          = "C19/token_bucket/state"                     // + /<what>
	sigKeyNotFound    = "C19/manager/bucket-not-at-packet-address"   // Set succeeded, datapath lookup of the subscriber's address misses
	sigIngressBurst   = "C19/manager/ingress-burst-not-from-policy"  // stored ingress burst != configured burst
	sigFields         = "C19/manager/bucket-fields"                  // + /<field>
	sigRemove         = "C19/manager/remove-leaves-bucket"           // + dir
	sigEnforcedOver   = "C19/enforced/over-admit"                    // + dir : traffic exceeds the configured contract
	sigEnforcedRate0  = "C19/enforced/rate0-dropped"                 // + dir
	sigEnforcedRemove = "C19/enforced/limited-after-remove"          // + dir
	sigOther          = "C19/enforced/other-address-limited"         // frame of an address without policy dropped
	sigPriority       = "C19/enforced/priority-not-applied"          // admitted egress frame does not carry the policy priority
	sigFault          = "C19/fault"                                  // + prog
)

func inconclusive(format string, args ...any) {
	fmt.Fprintf(os.Stderr, "INCONCLUSIVE: "+format+"\n", args...)
	vstat.Flush()
	os.Exit(3)
}

func startRunner(t testing.TB) *bpfnative.Client {
	c, err := bpfnative.Start()
	if err != nil {
		inconclusive("cannot start the native runner: %v", err)
	}
	t.Cleanup(func() { c.Close() })
	for _, m := range []string{mapEgress, mapIngress} {
		mi, ok := c.Map(m)
		if !ok || mi.KeySize != 4 || mi.ValueSize != bucketSz {
			inconclusive("map %s: unexpected geometry %+v (harness assumes key 4 / value %d)", m, mi, bucketSz)
		}
	}
	return c
}

// bucket mirrors struct token_bucket of bpf/qos_ratelimit.c (layout cross-checked against the
// runner's declared value size in startRunner; field offsets are the natural LP64 ones).
type bucket struct {
	Tokens, LastUpdate, Rate uint64
	Burst                    uint32
	Prio                     uint8
}

func (b bucket) bytes() []byte {
	o := make([]byte, bucketSz)
	binary.LittleEndian.PutUint64(o[0:], b.Tokens)
	binary.LittleEndian.PutUint64(o[8:], b.LastUpdate)
	binary.LittleEndian.PutUint64(o[16:], b.Rate)
	binary.LittleEndian.PutUint32(o[24:], b.Burst)
	o[28] = b.Prio
	return o
}

func parseBucket(p []byte) bucket {
	return bucket{
		Tokens:     binary.LittleEndian.Uint64(p[0:]),
		LastUpdate: binary.LittleEndian.Uint64(p[8:]),
		Rate:       binary.LittleEndian.Uint64(p[16:]),
		Burst:      binary.LittleEndian.Uint32(p[24:]),
		Prio:       p[28],
	}
}

func (b bucket) String() string {
	return fmt.Sprintf("{tokens=%d last=%d rate=%d burst=%d prio=%d}", b.Tokens, b.LastUpdate, b.Rate, b.Burst, b.Prio)
}

// ---------------------------------------------------------------------------------------------
// generators

// logUniform draws from [lo, hi] with the bit length uniform (so every magnitude is equally likely).
func logUniform(rt *rapid.T, lo, hi uint64, label string) uint64 {
	if lo > hi {
		lo = hi
	}
	if lo == 0 {
		if hi == 0 || rapid.IntRange(0, 15).Draw(rt, label+".zero") == 0 {
			return 0
		}
		lo = 1
	}
	b := rapid.IntRange(bits.Len64(lo), bits.Len64(hi)).Draw(rt, label+".bits")
	l, h := uint64(1)<<(b-1), uint64(1)<<(b-1)<<1-1
	if b == 64 {
		h = ^uint64(0)
	}
	if l < lo {
		l = lo
	}
	if h > hi {
		h = hi
	}
	return rapid.Uint64Range(l, h).Draw(rt, label)
}

func pick[T any](rt *rapid.T, label string, xs ...T) T {
	return xs[rapid.IntRange(0, len(xs)-1).Draw(rt, label)]
}

func chance(rt *rapid.T, label string, num, den int) bool {
	return rapid.IntRange(1, den).Draw(rt, label) <= num
}

// genRate: 1 kbit/s .. 100 Gbit/s log-uniform, with round commercial rates mixed in.
func genRate(rt *rapid.T, label string) uint64 {
	switch rapid.IntRange(0, 9).Draw(rt, label+".kind") {
	case 0:
		return pick[uint64](rt, label+".round", 1_000, 64_000, 1_000_000, 10_000_000, 50_000_000, 100_000_000,
			500_000_000, 1_000_000_000, 10_000_000_000, 40_000_000_000, 100_000_000_000)
	case 1: // multiples of 8 (no sub-byte remainder)
		return logUniform(rt, minRate/8, maxRate/8, label+".r8") * 8
	default:
		return logUniform(rt, minRate, maxRate, label)
	}
}

// managerDefaultBurst is the documented default of SetSubscriberQoS ("1 second of traffic,
// minimum 64KB", capped at 10 MB) for rates whose bytes/s fit 32 bits.
func managerDefaultBurst(rate uint64) uint32 {
	b := rate / 8
	if b < 65536 {
		b = 65536
	}
	if b > 10*1024*1024 {
		b = 10 * 1024 * 1024
	}
	return uint32(b)
}

// genBurst: 1 .. 2^32-1 log-uniform, the manager's default for the rate, and tiny bursts.
func genBurst(rt *rapid.T, rate uint64, label string) uint32 {
	switch rapid.IntRange(0, 9).Draw(rt, label+".kind") {
	case 0, 1:
		return managerDefaultBurst(rate)
	case 2:
		return uint32(rapid.Uint64Range(1, 3000).Draw(rt, label+".tiny"))
	case 3:
		return pick[uint32](rt, label+".edge", 1, 2, 1500, 65535, 65536, 1<<31, 1<<32-1)
	case 4, 5, 6:
		return uint32(logUniform(rt, 1500, 4_000_000, label+".mid"))
	default:
		return uint32(logUniform(rt, 1, 1<<32-1, label))
	}
}

// genT0 draws the initial kernel clock so that t0 + span does not wrap.
func genT0(rt *rapid.T, span uint64, label string) (uint64, string) {
	max := ^uint64(0) - span
	switch rapid.IntRange(0, 6).Draw(rt, label+".kind") {
	case 0:
		return 0, "t0:zero"
	case 1:
		return rapid.Uint64Range(0, min64(max, 1_000_000_000)).Draw(rt, label+".small"), "t0:boot"
	case 2:
		return max - rapid.Uint64Range(0, min64(max, 1_000_000)).Draw(rt, label+".top"), "t0:top"
	case 3:
		mid := uint64(1) << 63
		if mid > max {
			mid = max
		}
		return mid - rapid.Uint64Range(0, min64(mid, 5_000_000_000)).Draw(rt, label+".mid"), "t0:2^63"
	default:
		return logUniform(rt, 0, max, label), "t0:log"
	}
}

func min64(a, b uint64) uint64 {
	if a < b {
		return a
	}
	return b
}

// ---------------------------------------------------------------------------------------------
// frames

const (
	dirEgress  = 0 // BNG -> subscriber, keyed by destination address
	dirIngress = 1 // subscriber -> BNG, keyed by source address
)

func dirName(d int) string {
	if d == dirEgress {
		return "egress"
	}
	return "ingress"
}

func dirProg(d int) string {
	if d == dirEgress {
		return progEgress
	}
	return progIngress
}

func dirMap(d int) string {
	if d == dirEgress {
		return mapEgress
	}
	return mapIngress
}

// buildFrame: Ethernet + IPv4 (IHL 5) + zero payload, n >= 34 bytes, to (egress) or from (ingress) sub.
func buildFrame(dir int, sub, other [4]byte, n int, totLen int) []byte {
	if n < 34 {
		n = 34
	}
	f := make([]byte, n)
	copy(f[0:], []byte{0x02, 0xaa, 0, 0, 0, 1})
	copy(f[6:], []byte{0x02, 0xbb, 0, 0, 0, 2})
	f[12], f[13] = 0x08, 0x00
	ip := f[14:]
	ip[0] = 0x45
	if totLen > 65535 {
		totLen = 65535
	}
	binary.BigEndian.PutUint16(ip[2:], uint16(totLen))
	ip[8] = 64
	ip[9] = 17
	if dir == dirEgress {
		copy(ip[12:], other[:])
		copy(ip[16:], sub[:])
	} else {
		copy(ip[12:], sub[:])
		copy(ip[16:], other[:])
	}
	var sum uint32
	for i := 0; i < 20; i += 2 {
		sum += uint32(binary.BigEndian.Uint16(ip[i:]))
	}
	for sum>>16 != 0 {
		sum = sum&0xffff + sum>>16
	}
	binary.BigEndian.PutUint16(ip[10:], ^uint16(sum))
	return f
}

// pktOpts: packets up to linMax bytes are real frames; larger ones are a short linear part with
// skb->len overridden (what a GSO/GRO super-packet looks like to a TC program).
const linMax = 1600

func frameFor(dir int, sub, other [4]byte, size uint32) ([]byte, bpfnative.RunOpts) {
	o := bpfnative.DefaultOpts()
	if size <= linMax {
		return buildFrame(dir, sub, other, int(size), int(size)-14), o
	}
	o.SkbLen = size
	return buildFrame(dir, sub, other, 128, int(size)-14), o
}

// ---------------------------------------------------------------------------------------------
// control plane fixture: a real qos.Manager writing into real kernel maps with the C geometry

type plane struct {
	c       *bpfnative.Client
	mgr     *qos.Manager
	pm      *radius.PolicyManager
	egress  *ebpf.Map
	ingress *ebpf.Map
	stats   *ebpf.Map
	// the harness's own record of the named policies: current definition per name, and the definition a
	// name had when it was last resolved by a SetSubscriberPolicy call
	defs    map[string]planNumbers
	usedDef map[string]planNumbers
}

func newPlane(t testing.TB, c *bpfnative.Client) *plane {
	p := &plane{c: c}
	var err error
	if p.egress, err = c.NewKernelMap(mapEgress, 64); err != nil {
		inconclusive("cannot create kernel map %s: %v", mapEgress, err)
	}
	if p.ingress, err = c.NewKernelMap(mapIngress, 64); err != nil {
		inconclusive("cannot create kernel map %s: %v", mapIngress, err)
	}
	stats, err := c.NewKernelMap(mapStats, 0)
	if err != nil {
		inconclusive("cannot create kernel map %s: %v", mapStats, err)
	}
	t.Cleanup(func() { p.egress.Close(); p.ingress.Close(); stats.Close() })
	p.stats = stats
	p.resetManager()
	return p
}

// resetManager replaces the control plane by a new qos.Manager (and policy manager) attached to the
// current maps.
func (p *plane) resetManager() {
	p.pm = radius.NewPolicyManager()
	p.pm.LoadDefaultPolicies()
	p.defs, p.usedDef = map[string]planNumbers{}, map[string]planNumbers{}
	for _, d := range radius.DefaultPolicies() {
		p.defs[d.Name] = planNumbers{d.DownloadBPS, d.UploadBPS, d.BurstSize, d.Priority}
	}
	mgr, err := qos.NewManager(qos.ManagerConfig{Interface: "verif0"}, p.pm, zap.NewNop())
	if err != nil {
		inconclusive("qos.NewManager: %v", err)
	}
	p.mgr = mgr
	p.mgr.VerifSetMaps(p.egress, p.ingress, p.stats)
}

// restartDataPlane models Manager.Stop followed by Manager.Start: Start loads a new collection, i.e.
// new, EMPTY qos_egress / qos_ingress maps, while the manager object (and whatever it tracks) lives on.
// The runner's copies are emptied as well.
func (p *plane) restartDataPlane() {
	oldE, oldI := p.egress, p.ingress
	var err error
	if p.egress, err = p.c.NewKernelMap(mapEgress, 64); err != nil {
		inconclusive("cannot create kernel map %s: %v", mapEgress, err)
	}
	if p.ingress, err = p.c.NewKernelMap(mapIngress, 64); err != nil {
		inconclusive("cannot create kernel map %s: %v", mapIngress, err)
	}
	p.mgr.VerifSetMaps(p.egress, p.ingress, p.stats)
	oldE.Close()
	oldI.Close()
	if err := p.c.ClearMaps(mapEgress, mapIngress); err != nil {
		inconclusive("ClearMaps: %v", err)
	}
}

// kernelBucket reads the bucket the TC program of dir would look up for ip straight from the kernel map.
func (p *plane) kernelBucket(dir int, ip [4]byte) (bucket, bool) {
	m := p.egress
	if dir == dirIngress {
		m = p.ingress
	}
	v, err := m.LookupBytes(datapathKey(ip))
	if err != nil {
		inconclusive("kernel map lookup: %v", err)
	}
	if v == nil {
		return bucket{}, false
	}
	if len(v) != bucketSz {
		inconclusive("kernel map value of %d bytes", len(v))
	}
	return parseBucket(v), true
}

// tokenUnit is the number of units of the bucket's `tokens` field per byte (1 when tokens are bytes).
// The statement does not fix the unit; it is only needed to GENERATE initial bucket states on the
// helper layer ("full as the manager writes it", "any fill level 0..burst").  It is read off a bucket the
// real manager writes ("Start with full bucket": tokens = burst * unit).  A wrong guess cannot cause a
// false alarm: token_bucket_check caps the fill level at the burst before it decides.
func detectTokenUnit(t testing.TB, c *bpfnative.Client) uint64 {
	p := newPlane(t, c)
	p.wipe()
	const burst = 1000
	if err := p.mgr.SetSubscriberQoS(&qos.SubscriberQoS{IP: net.IPv4(1, 2, 2, 1), DownloadBPS: 8000, UploadBPS: 8000, BurstBytes: burst}); err != nil {
		inconclusive("SetSubscriberQoS for token-unit detection: %v", err)
	}
	unit := uint64(1)
	if k, err := p.egress.NextKeyBytes(nil); err == nil && k != nil {
		if v, err := p.egress.LookupBytes(k); err == nil && len(v) == bucketSz {
			if b := parseBucket(v); b.Burst == burst && b.Tokens >= burst && b.Tokens%burst == 0 {
				unit = b.Tokens / burst
			}
		}
	}
	p.wipe()
	vstat.Note("token_unit_per_byte", unit)
	return unit
}

// wipe empties the kernel maps (between cases) through raw iteration.
func (p *plane) wipe() {
	for _, m := range []*ebpf.Map{p.egress, p.ingress} {
		for {
			k, err := m.NextKeyBytes(nil)
			if err != nil || k == nil {
				break
			}
			if err := m.Delete(k); err != nil {
				break
			}
		}
	}
}

// sync copies both kernel maps raw into the runner.
func (p *plane) sync() {
	if _, err := p.c.CopyKernelMap(p.egress, mapEgress); err != nil {
		inconclusive("copy %s: %v", mapEgress, err)
	}
	if _, err := p.c.CopyKernelMap(p.ingress, mapIngress); err != nil {
		inconclusive("copy %s: %v", mapIngress, err)
	}
}

// datapathKey is the key the C programs compute: the 4 address bytes as they stand in the IP header
// (`__u32 dst_ip = ip->daddr` is a plain 4-byte load, the map compares raw key bytes).
func datapathKey(ip [4]byte) []byte { return []byte{ip[0], ip[1], ip[2], ip[3]} }

// lookup returns the bucket the datapath would find for ip in the runner's copy of the map.
func (p *plane) lookup(dir int, ip [4]byte) (bucket, bool) {
	v, err := p.c.LookupValue(dirMap(dir), datapathKey(ip))
	if err != nil || len(v) != bucketSz {
		return bucket{}, false
	}
	return parseBucket(v), true
}

// anyEntry returns all raw entries of the runner's copy (to locate a mis-keyed bucket).
func (p *plane) entries(dir int) []bpfnative.Entry {
	es, err := p.c.DumpMap(dirMap(dir))
	if err != nil {
		inconclusive("dump %s: %v", dirMap(dir), err)
	}
	return es
}

func ipOf(a [4]byte) net.IP { return net.IPv4(a[0], a[1], a[2], a[3]) }

func palindromic(a [4]byte) bool { return a[0] == a[3] && a[1] == a[2] }

// genIP draws a subscriber address; about a third are byte-palindromes (a.b.b.a), for which a
// byte-order mistake in the key is invisible, so that the enforcement path is exercised either way.
func genIP(rt *rapid.T, label string) [4]byte {
	var a [4]byte
	a[0] = byte(pick(rt, label+".a", 10, 100, 172, 192, rapid.IntRange(1, 223).Draw(rt, label+".a0")))
	if a[0] == 9 { // reserved for the far end of the flows (see other())
		a[0] = 11
	}
	a[1] = byte(rapid.IntRange(0, 255).Draw(rt, label+".b"))
	if chance(rt, label+".pal", 1, 3) {
		a[2], a[3] = a[1], a[0]
		return a
	}
	a[2] = byte(rapid.IntRange(0, 255).Draw(rt, label+".c"))
	a[3] = byte(rapid.IntRange(1, 254).Draw(rt, label+".d"))
	return a
}

// run executes one frame at clock t and returns whether it was admitted.
func runFrame(t vstat.Fataler, c *bpfnative.Client, prog string, fr []byte, o bpfnative.RunOpts, clock uint64) (adm bool, res bpfnative.Result, abandon bool) {
	if err := c.SetClock(clock); err != nil {
		inconclusive("SetClock: %v", err)
	}
	res, err := c.Run(prog, fr, o)
	if err != nil {
		inconclusive("Run %s: %v", prog, err)
	}
	return verdictOf(t, prog, res)
}

func verdictOf(t vstat.Fataler, prog string, res bpfnative.Result) (adm bool, r bpfnative.Result, abandon bool) {
	if res.Fault.Kind == bpfnative.FaultDied {
		inconclusive("runner died: %s", res.Fault.Msg)
	}
	if res.Fault.Faulted() {
		return false, res, vstat.Fail(t, sigFault+"/"+prog, "%s faulted: %v", prog, res.Fault)
	}
	switch res.Verdict {
	case tcOK:
		return true, res, false
	case tcShot:
		return false, res, false
	}
	return false, res, vstat.Fail(t, sigState+"/verdict/"+prog, "%s returned undefined verdict %d", prog, res.Verdict)
}
