package c19

// Minimal reproductions of the listed known findings of C19.  Each asserts through the same
// signature as the generated search: silent while the finding is listed (the hit is counted), failing
// with VIOLATION sig=... if it is unlisted, and - once the defect is repaired - going on to check that
// the repaired behaviour is the contracted one.  A listed finding that no longer fires is noted as stale.

import (
	"fmt"
	"testing"

	"bngverif/internal/vstat"
)

var replayPeer = [4]byte{9, 9, 9, 250}

func replayRecord(name string, nt bool, sample any, cls ...string) {
	vstat.Case(nt, vstat.Hash("replay", name), func() any { return sample }, append([]string{"replay"}, cls...)...)
}

func stale(t *testing.T, name, sig string, fired bool) {
	if vstat.IsListed(sig) && !fired {
		vstat.Note("stale:"+name, "listed finding "+sig+" no longer fires")
		t.Logf("note: listed finding %s no longer fires", sig)
	}
}

// KF-C19-1: SetSubscriberQoS(10.0.0.1, 1 Mbit/s, burst 3000) succeeds, but the bucket is stored under the
// byte-reversed address: 20 frames of 1500 bytes to 10.0.0.1 at one instant are all forwarded instead of 2.
func TestReplayManagerKey(t *testing.T) {
	c := startRunner(t)
	p := newPlane(t, c)
	sub := &subscriber{IP: [4]byte{10, 0, 0, 1}, Down: 1_000_000, Up: 1_000_000, Burst: 3000, Prio: 3}
	p.wipe()
	_ = c.ClearMaps()
	if err := p.install(sub); err != nil {
		t.Fatalf("harness: SetSubscriberQoS: %v", err)
	}
	p.sync()
	fired := false
	var ev []event
	for dir := 0; dir < 2; dir++ {
		if _, ok := p.lookup(dir, sub.IP); !ok {
			fired = true
			var keys []string
			for _, e := range p.entries(dir) {
				keys = append(keys, fmt.Sprintf("% x", e.Key))
			}
			// show the consequence, then report through the search's signature
			fr, o := frameFor(dir, sub.IP, replayPeer, 1500)
			adm := 0
			for i := 0; i < 20; i++ {
				a, _, ab := runFrame(t, c, dirProg(dir), fr, o, 1_000_000)
				if ab {
					return
				}
				if a {
					adm++
				}
			}
			if failSig(t, sigKeyNotFound, "Set(%s) succeeded but %s holds no bucket under the address bytes % x the %s program looks up (keys present: %v); %d of 20 frames of 1500 bytes offered at one instant were forwarded, the policy (burst 3000) allows 2",
				sub, dirMap(dir), datapathKey(sub.IP), dirProg(dir), keys, adm) {
				stale(t, "TestReplayManagerKey", sigKeyNotFound, fired)
				replayRecord("manager-key", false, map[string]any{"policy": sub.String(), "keys": keys, "admitted_of_20": adm}, "replay:manager-key")
				return
			}
		}
	}
	// repaired tree: the policy must now be enforced on both directions
	for dir := 0; dir < 2; dir++ {
		fr, o := frameFor(dir, sub.IP, replayPeer, 1500)
		ev = ev[:0]
		for i := 0; i < 20; i++ {
			a, _, ab := runFrame(t, c, dirProg(dir), fr, o, 1_000_000)
			if ab {
				return
			}
			ev = append(ev, event{T: 1_000_000, Size: 1500, Adm: a})
		}
		if dir == dirEgress { // (the ingress burst is the subject of KF-C19-2)
			if ab, _ := verdictCheck(t, ev, sub.Down, sub.Burst, sigEnforcedOver+"/"+dirName(dir), sigEnforcedRate0+"/"+dirName(dir), func() string { return sub.String() }); ab {
				return
			}
		}
	}
	stale(t, "TestReplayManagerKey", sigKeyNotFound, fired)
	replayRecord("manager-key", true, map[string]any{"policy": sub.String(), "arrivals": sampleEvents(ev, 20)}, "replay:manager-key")
}

// KF-C19-2: the shipped policy "business-100mbps" {100 Mbit/s both ways, burst 2 MB} installed through
// SetSubscriberPolicy (what pkg/dhcp does): the ingress bucket is created with burst 10 MiB (derived from the
// upload rate, the policy's BurstSize ignored): 60 GRO frames of 65535 bytes (3.9 MB) from the subscriber
// pass at one instant where the configured burst allows 2 MB.
func TestReplayIngressBurst(t *testing.T) {
	c := startRunner(t)
	p := newPlane(t, c)
	pol := p.pm.GetPolicy("business-100mbps")
	if pol == nil || pol.BurstSize == 0 {
		t.Skip("default policy business-100mbps not present")
	}
	// 1.2.2.1 is a byte-palindrome: the bucket is found whatever byte order the key uses (independent of KF-C19-1)
	sub := &subscriber{IP: [4]byte{1, 2, 2, 1}, Down: pol.DownloadBPS, Up: pol.UploadBPS, Burst: pol.BurstSize, Prio: pol.Priority, ViaName: true}
	p.wipe()
	_ = c.ClearMaps()
	if err := p.mgr.SetSubscriberPolicy(ipOf(sub.IP), pol.Name); err != nil {
		t.Fatalf("harness: SetSubscriberPolicy: %v", err)
	}
	p.sync()
	b, ok := p.lookup(dirIngress, sub.IP)
	if !ok {
		t.Fatalf("harness: no ingress bucket for the palindromic address %v", sub.IP)
	}
	const at = 5_000_000_000
	fr, o := frameFor(dirIngress, sub.IP, replayPeer, maxPkt)
	var ev []event
	for i := 0; i < 60; i++ {
		a, _, ab := runFrame(t, c, progIngress, fr, o, at)
		if ab {
			return
		}
		ev = append(ev, event{T: at, Size: maxPkt, Adm: a})
	}
	adm, _ := countAdm(ev)
	sample := map[string]any{"policy": pol.Name, "configured_burst": sub.Burst, "stored_ingress_burst": b.Burst, "admitted_of_60x65535B": adm}
	fired := false
	if w := upperBound(ev, sub.Up, sub.Burst); w != nil {
		fired = true
		if failSig(t, sigIngressBurst, "policy %s (%s) configures burst %d but the ingress bucket enforces burst %d: %d frames of 65535 bytes from the subscriber forwarded at one instant (%s)",
			pol.Name, sub, sub.Burst, b.Burst, adm, w.Detail) {
			replayRecord("ingress-burst", nonTrivial(ev), sample, "replay:ingress-burst")
			return
		}
	}
	stale(t, "TestReplayIngressBurst", sigIngressBurst, fired)
	if b.Burst > sub.Burst {
		if failSig(t, sigIngressBurst, "policy %s configures burst %d but the ingress bucket enforces burst %d", sub, sub.Burst, b.Burst) {
			return
		}
	}
	replayRecord("ingress-burst", nonTrivial(ev), sample, "replay:ingress-burst")
}

// KF-C19-3: bucket {1 Mbit/s = 125000 B/s, burst 3000} written in the C layout (independent of the Go
// manager); the subscriber offers a 64-byte frame every 5 us (a 100 Mbit/s sender; each gap is worth 0.625
// bytes, truncated to 0 while last_update still advances): after the initial burst nothing is ever
// admitted again - 0 bytes in 0.75 s where the contract owes 93750 - 3000 - 65535 bytes.
func TestReplayStarvedSubByteRefill(t *testing.T) {
	c := startRunner(t)
	_ = c.ClearMaps()
	ip := [4]byte{10, 0, 0, 1}
	const rate, burst = 1_000_000, 3000
	// an empty bucket last refreshed one second before the train: the program itself fills it to the burst
	// on the first packet (no assumption about the unit of `tokens`)
	tb := bucket{Tokens: 0, LastUpdate: 0, Rate: rate, Burst: burst, Prio: 0}
	if err := c.LoadMap(mapEgress, datapathKey(ip), tb.bytes()); err != nil {
		inconclusive("LoadMap: %v", err)
	}
	ev, ab := runBlocks(t, c, dirEgress, ip, replayPeer, 1_000_000_000, []block{{Size: 64, Gap: 5000, N: 150_000}})
	if ab {
		return
	}
	adm, drop := countAdm(ev)
	// the whole train is one saturating run: 5000 ns earn 0.625 bytes <= min(64, 3000-64)
	fired := saturating(ev, rate, burst) && lowerBound(ev, rate, burst) != nil
	abandon, _ := verdictCheck(t, ev, rate, burst, sigOverAdmit+"/egress", sigRate0+"/egress", func() string {
		return fmt.Sprintf("egress bucket %v, 150000 frames of 64 bytes 5000 ns apart: %d admitted, %d dropped, first arrivals %v", tb, adm, drop, sampleEvents(ev, 50)[44:])
	})
	stale(t, "TestReplayStarvedSubByteRefill", sigStarvedFrac, fired)
	_ = abandon
	replayRecord("starved-sub-byte", nonTrivial(ev), map[string]any{"bucket": tb.String(), "train": "150000 x 64B every 5000ns", "admitted": adm, "dropped": drop}, "replay:starved-sub-byte")
}
