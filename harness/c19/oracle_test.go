package c19

import (
	"fmt"
	"math/big"

	"bngverif/internal/vstat"
)

type fataler = vstat.Fataler

func failSig(t fataler, sig, format string, args ...any) bool {
	t.Helper()
	return vstat.Fail(t, sig, format, args...)
}

// event is one packet offered to the limiter: kernel clock at arrival, size (skb->len) and verdict.
type event struct {
	T    uint64
	Size uint32
	Adm  bool
}

type window struct {
	I, J   int // event indices (inclusive)
	Bytes  *big.Int
	Detail string
	// clause 2 only: the shortfall is below one byte per arrival of the window, i.e. small enough to be
	// the sum of the sub-byte remainders a limiter discards when it truncates the tokens earned per packet
	WithinTruncation bool
}

var (
	big8e9 = big.NewInt(8_000_000_000)
	big1e9 = big.NewInt(1_000_000_000)
)

// upperBound decides clause 1 of the statement for one subscriber and one direction:
//
//	for every pair of admitted packets i <= j:  sum of admitted sizes in [t_i, t_j]  <=  burst + (rate/8) * (t_j - t_i)
//
// (closed window: the packet that opens the window counts - a window of length 0 around one packet
// may hold at most `burst` bytes).  rate is in bits/s and is used exactly (rate/8 as a rational, not
// floored), times are ns; everything is scaled by 8e9 so the comparison is between integers:
//
//	8e9 * S(i..j)  <=  8e9 * burst + rate * (t_j - t_i)
//
// The maximum over i of the left side minus the rate term obeys the Lindley recursion
// F_j = 8e9*size_j + max(0, F_{j-1} - rate*(t_j - t_{j-1})), so all O(n^2) windows are decided in O(n).
// bruteUpper below is the literal double loop; the two are cross-checked on every short sequence.
func upperBound(ev []event, rate uint64, burst uint32) *window {
	limit := new(big.Int).Mul(big.NewInt(int64(burst)), big8e9)
	F := new(big.Int)
	tmp := new(big.Int)
	r := new(big.Int).SetUint64(rate)
	start, prev := -1, -1
	for k, e := range ev {
		if !e.Adm {
			continue
		}
		if prev >= 0 {
			tmp.SetUint64(e.T - ev[prev].T)
			tmp.Mul(tmp, r)
			F.Sub(F, tmp)
			if F.Sign() <= 0 {
				F.SetInt64(0)
				start = k
			}
		} else {
			start = k
		}
		tmp.SetUint64(uint64(e.Size))
		tmp.Mul(tmp, big8e9)
		F.Add(F, tmp)
		prev = k
		if F.Cmp(limit) > 0 {
			sum := new(big.Int)
			for x := start; x <= k; x++ {
				if ev[x].Adm {
					sum.Add(sum, big.NewInt(int64(ev[x].Size)))
				}
			}
			dt := e.T - ev[start].T
			allow := new(big.Rat).SetFrac(new(big.Int).Mul(r, new(big.Int).SetUint64(dt)), big8e9)
			allow.Add(allow, new(big.Rat).SetInt64(int64(burst)))
			return &window{I: start, J: k, Bytes: sum,
				Detail: fmt.Sprintf("admitted %s bytes in [t_%d, t_%d] (%d ns) but burst %d + rate %d bit/s * window = %s bytes",
					sum, start, k, dt, burst, rate, allow.FloatString(3))}
		}
	}
	return nil
}

// bruteUpper is the statement's clause 1 written literally with rationals.
func bruteUpper(ev []event, rate uint64, burst uint32) *window {
	ratePerNs := new(big.Rat).SetFrac(new(big.Int).SetUint64(rate), big8e9)
	for i := range ev {
		if !ev[i].Adm {
			continue
		}
		sum := new(big.Int)
		for j := i; j < len(ev); j++ {
			if !ev[j].Adm {
				continue
			}
			sum.Add(sum, big.NewInt(int64(ev[j].Size)))
			allow := new(big.Rat).Mul(ratePerNs, new(big.Rat).SetInt(new(big.Int).SetUint64(ev[j].T-ev[i].T)))
			allow.Add(allow, new(big.Rat).SetInt64(int64(burst)))
			if new(big.Rat).SetInt(sum).Cmp(allow) > 0 {
				return &window{I: i, J: j, Bytes: sum}
			}
		}
	}
	return nil
}

// lowerBound decides clause 2 on a run of events during which the subscriber always has a packet
// waiting (the caller guarantees the saturation precondition, see saturating()):
//
//	for every pair of events i <= j:  admitted bytes in [t_i, t_j]  >=  r * (t_j - t_i) - burst - 65535
//
// with r = floor(rate/8) bytes/s, the resolution the program states ("rate_bps / 8 = bytes per
// second"); flooring only weakens the demand, it is the declared tolerance.  Window endpoints are
// arrival instants (of admitted or dropped packets alike: the subscriber is waiting at both); closed
// windows are used, which again only weakens the demand relative to "any window".  Scaled by 1e9:
//
//	1e9 * A(i..j) - r * (t_j - t_i)  >=  -1e9 * (burst + 65535)
//
// and the minimum over i obeys H_j = 1e9*a_j + min(0, H_{j-1} - r*(t_j - t_{j-1})).
func lowerBound(ev []event, rate uint64, burst uint32) *window {
	r := new(big.Int).SetUint64(rate / 8)
	floor := new(big.Int).Mul(big.NewInt(int64(burst)+maxPkt), big1e9)
	floor.Neg(floor)
	H := new(big.Int)
	tmp := new(big.Int)
	start := 0
	for k, e := range ev {
		if k > 0 {
			tmp.SetUint64(e.T - ev[k-1].T)
			tmp.Mul(tmp, r)
			H.Sub(H, tmp)
			if H.Sign() >= 0 {
				H.SetInt64(0)
				start = k
			}
		}
		if e.Adm {
			tmp.SetUint64(uint64(e.Size))
			tmp.Mul(tmp, big1e9)
			H.Add(H, tmp)
		}
		if H.Cmp(floor) < 0 {
			sum := new(big.Int)
			for x := start; x <= k; x++ {
				if ev[x].Adm {
					sum.Add(sum, big.NewInt(int64(ev[x].Size)))
				}
			}
			dt := e.T - ev[start].T
			due := new(big.Rat).SetFrac(new(big.Int).Mul(r, new(big.Int).SetUint64(dt)), big1e9)
			// would the demand be met had every one of the k-start gaps earned one byte more?
			// 1e9*(A + (k-start)) - r*dt >= -1e9*(burst+65535)   <=>   H + 1e9*(k-start) >= floor
			withTrunc := new(big.Int).Mul(big.NewInt(int64(k-start)), big1e9)
			withTrunc.Add(withTrunc, H)
			return &window{I: start, J: k, Bytes: sum, WithinTruncation: withTrunc.Cmp(floor) >= 0,
				Detail: fmt.Sprintf("admitted %s bytes in [t_%d, t_%d] (%d ns, %d arrivals) but r=%d B/s * window = %s bytes, minus burst %d minus 65535 = %s",
					sum, start, k, dt, k-start+1, rate/8, due.FloatString(1), burst,
					new(big.Rat).Sub(due, new(big.Rat).SetInt64(int64(burst)+maxPkt)).FloatString(1))}
		}
	}
	return nil
}

// bruteLower is clause 2 written literally.
func bruteLower(ev []event, rate uint64, burst uint32) *window {
	rPerNs := new(big.Rat).SetFrac(new(big.Int).SetUint64(rate/8), big1e9)
	slack := new(big.Rat).SetInt64(int64(burst) + maxPkt)
	for i := range ev {
		sum := new(big.Int)
		for j := i; j < len(ev); j++ {
			if ev[j].Adm {
				sum.Add(sum, big.NewInt(int64(ev[j].Size)))
			}
			due := new(big.Rat).Mul(rPerNs, new(big.Rat).SetInt(new(big.Int).SetUint64(ev[j].T-ev[i].T)))
			due.Sub(due, slack)
			if new(big.Rat).SetInt(sum).Cmp(due) < 0 {
				return &window{I: i, J: j, Bytes: sum}
			}
		}
	}
	return nil
}

// saturating reports whether the arrival pattern keeps "a packet always waiting" in the only sense
// a drop-policer with discrete arrivals can be asked about: after an arrival of size s the next
// arrival comes no later than the time the contract needs to earn min(s, burst-s) bytes,
//
//	r * gap  <=  min(s, burst - s)          (so in particular s < burst)
//
// Under this condition an exact real-valued token bucket never loses a token at the cap (after an
// admission it holds <= burst-s and earns <= s; after a drop it holds < s and earns <= burst-s), hence
// admits >= r*W - burst in every window: clause 2 is then a demand any correct limiter meets with
// 65535 bytes to spare, and a subscriber offering less than this is not "always waiting".
func saturating(ev []event, rate uint64, burst uint32) bool {
	r := new(big.Int).SetUint64(rate / 8)
	tmp := new(big.Int)
	lim := new(big.Int)
	for k := 0; k+1 < len(ev); k++ {
		s := uint64(ev[k].Size)
		if s >= uint64(burst) {
			return false
		}
		m := s
		if uint64(burst)-s < m {
			m = uint64(burst) - s
		}
		tmp.SetUint64(ev[k+1].T - ev[k].T)
		tmp.Mul(tmp, r)
		lim.SetUint64(m)
		lim.Mul(lim, big1e9)
		if tmp.Cmp(lim) > 0 {
			return false
		}
	}
	return len(ev) > 0 && uint64(ev[len(ev)-1].Size) < uint64(burst)
}

// integralRefill reports whether every gap earns a whole number of bytes at r = floor(rate/8)
// (then a limiter that truncates the tokens earned per packet loses nothing).
func integralRefill(ev []event, rate uint64) bool {
	r := new(big.Int).SetUint64(rate / 8)
	tmp := new(big.Int)
	for k := 1; k < len(ev); k++ {
		tmp.SetUint64(ev[k].T - ev[k-1].T)
		tmp.Mul(tmp, r)
		if tmp.Mod(tmp, big1e9).Sign() != 0 {
			return false
		}
	}
	return true
}

// nonTrivial is the NT rule of DESIGN C19: at least one packet dropped and one admitted after a drop.
func nonTrivial(ev []event) bool {
	dropped := false
	for _, e := range ev {
		if !e.Adm {
			dropped = true
		} else if dropped {
			return true
		}
	}
	return false
}

func countAdm(ev []event) (adm, drop int) {
	for _, e := range ev {
		if e.Adm {
			adm++
		} else {
			drop++
		}
	}
	return
}

// verdictCheck applies every clause of the statement that concerns one bucket to the executed
// arrivals ev (one subscriber, one direction) under the contract (rate bit/s, burst bytes).
// overSig / zeroSig are the signatures for clause 1 and the rate-0 clause on this layer.
// It returns abandon=true when a listed known finding was hit, and the classes the case exhibited.
func verdictCheck(t fataler, ev []event, rate uint64, burst uint32, overSig, zeroSig string, ctx func() string) (abandon bool, cls []string) {
	return verdictCheck2(t, ev, rate, burst, burst, overSig, zeroSig, ctx)
}

// verdictCheck2: burst is the contract (clause 1, and the slack of clause 2); bucket <= burst is the
// size of the bucket actually enforcing it, which the saturation precondition of clause 2 must use (a
// smaller bucket than contracted keeps clause 1 and is only "always busy" for arrivals that do not let
// it overflow).
func verdictCheck2(t fataler, ev []event, rate uint64, burst, bucket uint32, overSig, zeroSig string, ctx func() string) (abandon bool, cls []string) {
	if rate == 0 {
		for k, e := range ev {
			if !e.Adm {
				return failSig(t, zeroSig, "rate 0 means unlimited, but arrival %d (%d bytes) was dropped; %s", k, e.Size, ctx()), cls
			}
		}
		return false, cls
	}
	w := upperBound(ev, rate, burst)
	if len(ev) <= 48 {
		if b := bruteUpper(ev, rate, burst); (b == nil) != (w == nil) {
			panic(fmt.Sprintf("harness self-check: Lindley and literal clause-1 oracles disagree (%v vs %v) on %v", w, b, ev))
		}
	}
	if w != nil {
		return failSig(t, overSig, "%s; %s", w.Detail, ctx()), cls
	}
	r := rate / 8
	type lbRun struct {
		r       [2]int
		aligned bool
	}
	var runs []lbRun
	for _, x := range satRuns(ev, rate, bucket) {
		runs = append(runs, lbRun{x, false})
	}
	for _, x := range alignedRuns(ev, rate, bucket) {
		runs = append(runs, lbRun{x, true})
	}
	for _, lr := range runs {
		run := lr.r
		sub := ev[run[0]:run[1]]
		if lr.aligned {
			cls = append(cls, "lb:aligned-train")
			if sub[0].Size == bucket {
				cls = append(cls, "lb:aligned-train:size==burst")
			}
		} else {
			cls = append(cls, "lb:run")
		}
		// is the demand of clause 2 positive somewhere in this run?  r*W > burst + 65535
		if !mulLE(r, sub[len(sub)-1].T-sub[0].T, uint64(burst)+maxPkt, 1_000_000_000) {
			cls = append(cls, "lb:live")
			if lr.aligned {
				cls = append(cls, "lb:aligned-live")
			}
		}
		lw := lowerBound(sub, rate, burst)
		if len(sub) <= 48 {
			if b := bruteLower(sub, rate, burst); (b == nil) != (lw == nil) {
				panic(fmt.Sprintf("harness self-check: Lindley and literal clause-2 oracles disagree on %v", sub))
			}
		}
		if lw != nil {
			// signature: the known truncation defect can only explain a shortfall of less than one byte per
			// arrival on arrival patterns whose gaps earn fractions of a byte; anything else is a different defect
			sig := sigStarvedBeyond
			switch {
			case integralRefill(sub, rate):
				sig = sigStarvedInt
			case lw.WithinTruncation:
				sig = sigStarvedFrac
			}
			return failSig(t, sig, "subscriber with a packet always waiting (arrivals %d..%d) starved: %s; %s", run[0], run[1]-1, lw.Detail, ctx()), cls
		}
	}
	return false, cls
}
