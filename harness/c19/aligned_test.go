package c19

import (
	"fmt"
	"testing"

	"pgregory.net/rapid"

	"bngverif/internal/vstat"
)

// gaps (ns) that divide one second: a rate of e*(1e9/G) bytes/s earns exactly e bytes per gap
var alignedGaps = []uint64{100, 125, 200, 250, 500, 1000, 1250, 2000, 2500, 4000, 5000, 8000, 10_000, 20_000, 50_000, 100_000, 1_000_000}

// TestPropAlignedTrain - clause 2 at the edge of its domain: packets as large as the bucket (the
// statement's implicit precondition is "packet <= burst", and burst = one MTU-sized packet is a
// plausible configuration).  A subscriber offers one packet size s over and over at a constant gap that
// earns e bytes, e | s, burst = m*s with m = 1 in half of the cases (see alignedRuns for why any correct
// limiter then loses fewer than e tokens in total).  Policy installed through the manager (egress,
// which honours the configured burst); an optional prologue of other packets leaves the bucket at an
// arbitrary, unaligned level first.
func TestPropAlignedTrain(t *testing.T) {
	c := startRunner(t)
	p := newPlane(t, c)
	vstat.Checks(80, 1200)
	budget := uint64(vstat.Scale(120_000, 400_000))
	rapid.Check(t, func(rt *rapid.T) {
		G := pick(rt, "G", alignedGaps...)
		perSec := 1_000_000_000 / G
		// e bytes per gap; r = e*perSec must lie in 125 B/s .. 12.5e9 B/s
		eMin, eMax := uint64(1), uint64(maxPkt)
		if perSec < minRate/8 {
			eMin = (minRate/8 + perSec - 1) / perSec
		}
		if hi := (maxRate / 8) / perSec; hi < eMax {
			eMax = hi
		}
		e := logUniform(rt, eMin, eMax, "e")
		if chance(rt, "e.round", 1, 3) {
			e = pick[uint64](rt, "e.pal", 1, 2, 4, 5, 10, 20, 25, 50, 100, 125, 250, 500, 750, 1500)
			if e < eMin {
				e = eMin
			}
			if e > eMax {
				e = eMax
			}
		}
		// s = e*k in 34..65535
		kMin, kMax := (34+e-1)/e, maxPkt/e
		k := logUniform(rt, kMin, kMax, "k")
		if chance(rt, "k.one", 1, 4) {
			k = kMin
		}
		size := uint32(e * k)
		m := uint64(1)
		if !chance(rt, "full-size", 1, 2) {
			m = uint64(rapid.IntRange(2, 8).Draw(rt, "m"))
		}
		burst := uint32(uint64(size) * m)
		r := e * perSec
		rate := r * 8
		sub := &subscriber{IP: genIP(rt, "ip"), Down: rate, Up: rate, Burst: burst, Prio: uint8(rapid.IntRange(0, 7).Draw(rt, "prio")), ViaName: chance(rt, "byName", 1, 3)}
		flows, abandon := p.setup(rt, []*subscriber{sub}, true)
		if abandon {
			return
		}
		f := flows[dirEgress]
		// enough arrivals to earn k16/16 * (burst + 65535) bytes, within the budget
		k16 := uint64(rapid.IntRange(18, 48).Draw(rt, "target.k16"))
		n := (uint64(burst)+maxPkt)*k16/16/e + 2*m + 3
		if n > budget {
			n = budget
		}
		t0, tc := genT0(rt, 2*tenDays, "t0")
		cls := []string{tc, "layer:aligned"}
		var blocks []block
		if chance(rt, "prologue", 1, 2) {
			ps := uint32(logUniform(rt, 34, min64(uint64(burst), maxPkt), "pro.size"))
			blocks = append(blocks, block{Size: ps, Gap: rapid.Uint64Range(0, G).Draw(rt, "pro.gap"), N: rapid.IntRange(1, 6).Draw(rt, "pro.n")})
			cls = append(cls, "prologue:unaligned-level")
		}
		blocks = append(blocks, block{Size: size, Gap: G, N: int(n)})
		ev, abandon := runBlocks(rt, c, dirEgress, sub.IP, other(rt, "peer"), t0, blocks)
		if abandon {
			return
		}
		ctx := func() string {
			return fmt.Sprintf("egress of %s, contract rate=%d burst=%d, %d bytes earned per gap, t0=%d, trains (size,gap ns,count) %v, first arrivals %v", sub, f.rate, f.burst, e, t0, blocks, sampleEvents(ev, 16))
		}
		abandon, c2 := verdictCheck2(rt, ev, f.rate, f.burst, f.bkt, sigEnforcedOver+"/egress", sigEnforcedRate0+"/egress", ctx)
		if abandon {
			return
		}
		cls = append(cls, c2...)
		nt := nonTrivial(ev)
		if nt {
			cls = append(cls, "nt:drop-then-admit", "nt:aligned")
		}
		a, d := countAdm(ev)
		vstat.Class("aligned-arrivals", int64(len(ev)))
		vstat.Case(nt, vstat.Hash("aligned", sub.String(), t0, fmt.Sprint(blocks)),
			func() any {
				return map[string]any{"layer": "tc-aligned-train", "policy": sub.String(), "bytes_per_gap": e, "t0": t0,
					"trains_size_gapns_count": fmt.Sprint(blocks), "admitted": a, "dropped": d}
			}, dedup(cls)...)
	})
}
