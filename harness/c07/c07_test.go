package c07

import (
	"encoding/binary"
	"encoding/json"
	"hash/fnv"
	"os"
	"path/filepath"
	"sort"
	"testing"

	"pgregory.net/rapid"

	"bngverif/internal/bpfnative"
	"bngverif/internal/vstat"
)

func TestMain(m *testing.M) { vstat.Main(m, "C07") }

func seedFor(name string) uint64 {
	h := fnv.New64a()
	h.Write([]byte(name))
	return vstat.Seed() ^ h.Sum64()
}

// factsFromBytes reads, from arbitrary bytes, the addresses a program would key its maps with, so that
// map state generated for random frames can still hit (act path reachable for random content too).
func factsFromBytes(b []byte) *built {
	f := &built{b: b, kind: "ipv4"}
	get := func(off, n int, dst []byte) {
		if off+n <= len(b) {
			copy(dst, b[off:off+n])
		}
	}
	get(6, 6, f.srcMAC[:])
	get(26, 4, f.saddr[:])
	get(30, 4, f.daddr[:])
	if len(b) > 23 {
		f.proto = b[23]
	}
	if len(b) > 14 {
		l4 := 14 + int(b[14]&0x0f)*4
		if f.proto == protoICMP {
			get(l4+4, 2, f.sport[:])
		} else {
			get(l4, 2, f.sport[:])
			get(l4+2, 2, f.dport[:])
		}
		// BOOTP chaddr for a 20-byte IP header
		get(14+20+8+28, 6, f.chaddr[:])
	}
	if et, ok := be16(b, 12); ok && (et == etQ || et == etAD) {
		if tci, ok := be16(b, 14); ok {
			f.vlans = append(f.vlans, tci&0x0fff)
		}
	}
	return f
}

// randomFrame: n random bytes; with fix the ethertype (and sometimes the IP version/IHL/protocol
// bytes) is patched so that the frame gets past the first parser stage.
func randomFrame(s src, pd *progDef, n int, fix bool) []byte {
	b := fill(s, n, "rnd")
	if !fix {
		return b
	}
	if n >= 14 {
		binary.BigEndian.PutUint16(b[12:], pick(s, "et", pd.looks...))
	}
	et, _ := be16(b, 12)
	l3 := 14
	if (et == etQ || et == etAD) && n >= 18 {
		binary.BigEndian.PutUint16(b[16:], pick[uint16](s, "innerEt", etIPv4, etIPv4, etQ))
		l3 = 18
		if in, _ := be16(b, 16); in == etQ && n >= 22 {
			binary.BigEndian.PutUint16(b[20:], etIPv4)
			l3 = 22
		}
	}
	if n > l3 && chance(s, "fixip", 3, 4) {
		b[l3] = 0x40 | byte(pick(s, "ihl", 5, 5, 5, 0, 1, 4, 6, 15, s.intn(16, "ihlr")))
		if n > l3+9 {
			b[l3+9] = pick[byte](s, "proto", protoUDP, protoUDP, protoTCP, protoICMP)
		}
		if pd.want.wantDHCP && chance(s, "fixdhcp", 2, 3) {
			l4 := l3 + int(b[l3]&0x0f)*4
			if n > l4+4 && n > l3+9 {
				b[l3+9] = protoUDP
				binary.BigEndian.PutUint16(b[l4+2:], 67)
			}
			p := l4 + 8
			if n > p+240 && chance(s, "fixbootp", 2, 3) {
				b[p] = 1
				binary.BigEndian.PutUint32(b[p+236:], 0x63825363)
				if n > p+243 {
					b[p+240], b[p+241], b[p+242] = 53, 1, pick[byte](s, "mt", 1, 3)
				}
			}
		}
		if pd.name == "nat44_egress" || pd.name == "nat44_hairpin_xdp" {
			if n > l3+15 {
				b[l3+12] = 10 // private source
			}
		}
	}
	return b
}

func famIndex(pd *progDef, fam string) int {
	for i, f := range pd.want.families {
		if f == fam {
			return i
		}
	}
	return 0
}

// shapesFor enumerates the forced draws of the shape sweep for one program.
func shapesFor(pd *progDef) []map[string]int {
	// indices into the pick lists of genFrame / the state generators
	ihlIdx := map[int]int{5: 0, 6: 6, 7: 7, 8: 8, 12: 9, 15: 10}
	protoIdx := map[int]int{protoUDP: 0, protoTCP: 2, protoICMP: 4, 47: 5}
	vlanIdx := []int{0, 3, 5, 7}
	base := func(fam string) map[string]int {
		return map[string]int{"family": famIndex(pd, fam), "overlap": 7, "paylen": 5, "emptystate": 3,
			"saddrrange": 0, "badipcsum": 7, "nvlan": 0}
	}
	var out []map[string]int
	add := func(m map[string]int, kv ...any) {
		c := map[string]int{}
		for k, v := range m {
			c[k] = v
		}
		for i := 0; i+1 < len(kv); i += 2 {
			c[kv[i].(string)] = kv[i+1].(int)
		}
		out = append(out, c)
	}
	switch pd.name {
	case "dhcp_fastpath_prog":
		b := base("ipv4")
		for k, v := range map[string]int{"dhcpudp": 0, "isdhcp": 0, "msgtype": 0, "bootreply": 15, "badmagic": 15, "dport68": 11,
			"noend": 9, "cutopts": 2, "dhcpstate": 1, "keyby": 0, "chaddrdiff": 5, "tailroom0": 7, "ihl": 0, "optarea": 7} {
			b[k] = v
		}
		for l := 0; l <= 12; l++ {
			add(b, "optlayout", layoutIndex(l), "nvlan", vlanIdx[l%4])
		}
		add(b, "optlayout", 0, "ihl", ihlIdx[6], "optarea", 8)
		add(b, "optlayout", 0, "ihl", ihlIdx[15], "nvlan", vlanIdx[2])
		add(b, "optlayout", layoutIndex(5), "keyby", 4, "optarea", 7)
		add(b, "optlayout", 0, "keyby", 3, "nvlan", vlanIdx[2])
		for k := 0; k < 5; k++ {
			add(b, "overlap", 0, "overlapihl", k, "optlayout", layoutIndex(12*(k%2)))
		}
		add(base("ipv6"))
		add(base("arp"))
	case "antispoof_ingress":
		for _, fam := range []string{"ipv4", "ipv6", "arp", "other"} {
			for _, mode := range []int{1, 3} { // binding mode strict / loose
				add(base(fam), "asstate", 2, "mode", mode, "proto", 0, "ihl", 0)
			}
		}
		add(base("ipv4"), "asstate", 1, "defmode", 2, "proto", 0, "ihl", 0)
		add(base("ipv4"), "asstate", 2, "nvlan", vlanIdx[1])
	case "qos_egress_prog", "qos_ingress_prog":
		for _, pr := range []int{protoUDP, protoTCP, protoICMP} {
			add(base("ipv4"), "qosstate", 1, "proto", protoIdx[pr], "ihl", 0)
		}
		add(base("ipv4"), "qosstate", 1, "proto", 0, "ihl", ihlIdx[8])
		add(base("ipv6"), "qosstate", 1)
	case "nat44_egress":
		for _, pr := range []int{protoUDP, protoTCP, protoICMP, 47} {
			for _, ihl := range []int{5, 8} {
				for _, stc := range []int{1, 4, 6} { // block, block+session, block+eim
					add(base("ipv4"), "natstate", stc, "proto", protoIdx[pr], "ihl", ihlIdx[ihl], "natcfg", 0)
				}
			}
		}
		add(base("ipv6"), "natstate", 1)
	case "nat44_ingress":
		for _, pr := range []int{protoUDP, protoTCP, protoICMP, 47} {
			for _, ihl := range []int{5, 8} {
				for _, stc := range []int{1, 4} { // reverse+session, reverse-only
					add(base("ipv4"), "natstate", stc, "proto", protoIdx[pr], "ihl", ihlIdx[ihl])
				}
			}
		}
		add(base("ipv6"), "natstate", 1)
	case "nat44_hairpin_xdp":
		add(base("ipv4"), "hpstate", 2, "proto", 0, "ihl", 0, "hairpinon", 0)
		add(base("ipv4"), "hpstate", 2, "proto", 2, "ihl", ihlIdx[6], "hairpinon", 0)
		add(base("ipv4"), "hpstate", 1, "proto", 0, "ihl", 0)
	}
	return out
}

const (
	partRandom = 1 << iota // (c) every length 0..1600
	partPrefix             // (b) every prefix of shape-enumerated and random structured frames
	partRapid              // (a)+(d): rapid-generated structured frames, mutations, boundary cuts
	partAll    = partRandom | partPrefix | partRapid
)

func runProgram(t *testing.T, name string, parts int) {
	pd := progByName(name)
	shortAreaListed = vstat.IsListed("C07/dhcp_fastpath_prog/pass-modified/through-payload240")
	c := startRunner(t)
	rng := &prng{s: seedFor(name)}
	do := func(tc *tcase) {
		o := checkCase(t, c, tc)
		record(tc, o)
	}
	stateFor := func(s src, f *built) state {
		if chance(s, "emptystate", 1, 4) {
			return state{Tailroom: -1, Class: "empty", Clock: 1_000_000_000}
		}
		return pd.genState(s, f)
	}

	// (c) random bytes of every length 0..1600, each length at least once per run and once more with the
	// first parser stage satisfied; lengths near header boundaries get extra repetitions.
	reps := vstat.Scale(1, 20)
	for n := 0; n <= 1600 && parts&partRandom != 0; n++ {
		k := reps
		if n <= 130 || (n >= 270 && n <= 420) {
			k = reps * 3
		}
		for i := 0; i < k; i++ {
			for _, fix := range []bool{false, true} {
				b := randomFrame(rng, pd, n, fix)
				gen := "random"
				if fix {
					gen = "random-l2"
				}
				do(&tcase{Prog: name, Frame: b, State: stateFor(rng, factsFromBytes(b)), Gen: gen})
			}
		}
	}

	// (b) every prefix of structured frames.  First a deterministic enumeration of frame shapes (family x
	// protocol x IHL x VLAN depth x DHCP option layout) with map state on the act path, then random ones.
	sweep := func(f *built, st state, gen string) {
		n := len(f.b)
		if n > 700 { // long payload tails add nothing new
			n = 700
		}
		for k := 0; k <= n; k++ {
			do(&tcase{Prog: name, Frame: f.b[:k], State: st, Gen: gen})
		}
	}
	shapes := shapesFor(pd)
	if parts&partPrefix == 0 {
		shapes = nil
	}
	for _, sh := range shapes {
		fs := forced{in: rng, f: sh}
		f := genFrame(fs, pd.want)
		sweep(f, pd.genState(fs, f), "prefix")
	}
	nfull := vstat.Scale(3, 300)
	if parts&partPrefix == 0 {
		nfull = 0
	}
	for i := 0; i < nfull; i++ {
		f := genFrame(rng, pd.want)
		sweep(f, pd.genState(rng, f), "prefix")
	}

	// (a)+(d)+(b'): structured frames, single-field mutations, truncations at/around header boundaries
	if parts&partRapid == 0 {
		return
	}
	vstat.Checks(2500, 150000)
	rapid.Check(t, func(rt *rapid.T) {
		s := rapidSrc{rt}
		f := genFrame(s, pd.want)
		st := stateFor(s, f)
		tc := &tcase{Prog: name, Frame: f.b, State: st, Gen: "structured"}
		switch s.intn(10, "variant") {
		case 0, 1, 2, 3: // as generated
		case 4, 5, 6:
			b, fld := mutate(s, f)
			tc.Frame, tc.Gen = b, "mutation:"+fld
		case 7, 8: // cut at a header boundary +-1
			if len(f.marks) > 0 {
				n := f.marks[s.intn(len(f.marks), "mark")] + s.intn(3, "markdelta") - 1
				if n < 0 {
					n = 0
				}
				if n > len(f.b) {
					n = len(f.b)
				}
				tc.Frame, tc.Gen = f.b[:n], "truncated"
			}
		default: // trailing bytes after the frame (Ethernet padding / trailers)
			tc.Frame = append(append([]byte{}, f.b...), fill(s, 1+s.intn(64, "trailer"), "trailerb")...)
			tc.Gen = "trailer"
		}
		if len(tc.Frame) > 1600 {
			tc.Frame = tc.Frame[:1600]
		}
		o := checkCase(rt, c, tc)
		record(tc, o)
	})
}

// One TestProp per program (the driver runs each in its own process); the DHCP fast path has by far the
// largest frames and shape space, so its prefix enumeration is a process of its own.
func TestPropDHCPFastpath(t *testing.T) { runProgram(t, "dhcp_fastpath_prog", partRandom|partRapid) }
func TestPropDHCPFastpathPrefixes(t *testing.T) {
	runProgram(t, "dhcp_fastpath_prog", partPrefix)
}
func TestPropAntispoof(t *testing.T)     { runProgram(t, "antispoof_ingress", partAll) }
func TestPropQoSEgress(t *testing.T)     { runProgram(t, "qos_egress_prog", partAll) }
func TestPropQoSIngress(t *testing.T)    { runProgram(t, "qos_ingress_prog", partAll) }
func TestPropNAT44Egress(t *testing.T)   { runProgram(t, "nat44_egress", partAll) }
func TestPropNAT44Ingress(t *testing.T)  { runProgram(t, "nat44_ingress", partAll) }
func TestPropNAT44HairpinX(t *testing.T) { runProgram(t, "nat44_hairpin_xdp", partAll) }

// TestPropProgramsCovered: every SEC("xdp")/SEC("tc") entry point in bpf/*.c has a TestProp above
// (a program added to the sources would otherwise escape the check silently).
func TestPropProgramsCovered(t *testing.T) {
	c := startRunner(t)
	for _, p := range c.Progs() {
		if progByName(p.Name) == nil {
			tc := &tcase{Prog: p.Name, Gen: "inventory"}
			report(t, tc, "C07/"+p.Name+"/unchecked-program", "entry point %s (%s, %s.c) has no C07 generator", p.Name, p.Sec, p.Src)
		}
	}
	vstat.Note("programs", len(c.Progs()))
	vstat.Note("lookup_sites", len(c.Sites()))
}

// TestReplayCases runs committed JSON cases (replays/C07/*.json, or the file given by --replay)
// through the same oracle.
func TestReplayCases(t *testing.T) {
	var files []string
	if f := os.Getenv("VERIF_REPLAY_FILE"); f != "" {
		files = []string{f}
	} else {
		files, _ = filepath.Glob(filepath.Join(os.Getenv("VERIF_REPLAYS"), "*.json"))
		sort.Strings(files)
	}
	if len(files) == 0 {
		return
	}
	c := startRunner(t)
	for _, f := range files {
		b, err := os.ReadFile(f)
		if err != nil {
			t.Fatalf("read %s: %v", f, err)
		}
		var doc struct {
			Case      tcase  `json:"case"`
			Signature string `json:"signature"`
		}
		if err := json.Unmarshal(b, &doc); err != nil {
			t.Fatalf("parse %s: %v", f, err)
		}
		if _, ok := c.Prog(doc.Case.Prog); !ok {
			t.Fatalf("%s: unknown program %q", f, doc.Case.Prog)
		}
		doc.Case.Gen = "replay:" + filepath.Base(f)
		o := checkCase(t, c, &doc.Case)
		record(&doc.Case, o)
		if doc.Signature != "" && vstat.IsListed(doc.Signature) {
			fired := false
			for _, s := range o.sigs {
				fired = fired || s == doc.Signature
			}
			if !fired {
				vstat.Note("stale:"+filepath.Base(f), "listed finding "+doc.Signature+" no longer fires")
			}
		}
	}
}

var _ = bpfnative.EndFlush
