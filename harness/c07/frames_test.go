package c07

import (
	"encoding/binary"

	"pgregory.net/rapid"
)

// ---------------------------------------------------------------------------------------------
// randomness source: the same generators run from rapid (shrinkable, replayable) and from a
// PRNG seeded by vstat.Seed() (plain enumerations: every length, every prefix)
// ---------------------------------------------------------------------------------------------

type src interface {
	intn(n int, label string) int // uniform in [0,n)
	u64(label string) uint64
}

type prng struct{ s uint64 }

func (p *prng) next() uint64 {
	p.s += 0x9e3779b97f4a7c15
	z := p.s
	z = (z ^ (z >> 30)) * 0xbf58476d1ce4e5b9
	z = (z ^ (z >> 27)) * 0x94d049bb133111eb
	return z ^ (z >> 31)
}
func (p *prng) intn(n int, _ string) int {
	if n <= 1 {
		return 0
	}
	return int(p.next() % uint64(n))
}
func (p *prng) u64(_ string) uint64 { return p.next() }

type rapidSrc struct{ t *rapid.T }

func (r rapidSrc) intn(n int, label string) int {
	if n <= 1 {
		return 0
	}
	return rapid.IntRange(0, n-1).Draw(r.t, label)
}
func (r rapidSrc) u64(label string) uint64 { return rapid.Uint64().Draw(r.t, label) }

// forced pins selected labelled draws (by index) and delegates everything else: the shape sweeps use it to
// enumerate frame shapes (family, protocol, IHL, VLAN depth, option layout, act-path state) deterministically.
type forced struct {
	in src
	f  map[string]int
}

func (x forced) intn(n int, label string) int {
	if v, ok := x.f[label]; ok {
		if v >= n {
			v = n - 1
		}
		if v < 0 {
			v = 0
		}
		return v
	}
	return x.in.intn(n, label)
}
func (x forced) u64(label string) uint64 { return x.in.u64(label) }

func fill(s src, n int, label string) []byte {
	p := prng{s: s.u64(label)}
	b := make([]byte, n)
	for i := 0; i < n; i += 8 {
		v := p.next()
		for j := 0; j < 8 && i+j < n; j++ {
			b[i+j] = byte(v >> (8 * j))
		}
	}
	return b
}

func pick[T any](s src, label string, xs ...T) T    { return xs[s.intn(len(xs), label)] }
func chance(s src, label string, num, den int) bool { return s.intn(den, label) < num }

// ---------------------------------------------------------------------------------------------
// frame model
// ---------------------------------------------------------------------------------------------

const (
	etIPv4 = 0x0800
	etIPv6 = 0x86dd
	etARP  = 0x0806
	etQ    = 0x8100
	etAD   = 0x88a8

	protoICMP = 1
	protoTCP  = 6
	protoUDP  = 17
)

type field struct {
	name string
	off  int
	n    int
}

// built is a serialised frame plus what the generator knows about it.
type built struct {
	b      []byte
	fields []field // single-field mutation targets
	marks  []int   // interesting truncation points (header boundaries)
	// facts used to derive map state for the "act" path
	srcMAC, chaddr [6]byte
	vlans          []uint16 // VIDs outermost first
	saddr, daddr   [4]byte
	proto          byte
	sport, dport   [2]byte // raw bytes as on the wire (ICMP: id in sport)
	circuitID      []byte
	optMarks       []int // option boundaries relative to the start of the DHCP options area
	isDHCP         bool
	ihl            int
	kind           string
}

func (f *built) field(name string, off, n int) { f.fields = append(f.fields, field{name, off, n}) }

func ipChecksum(h []byte) uint16 {
	var sum uint32
	for i := 0; i+1 < len(h); i += 2 {
		sum += uint32(h[i])<<8 | uint32(h[i+1])
	}
	for sum>>16 != 0 {
		sum = sum&0xffff + sum>>16
	}
	return ^uint16(sum)
}

type frameWant struct {
	prog     string
	maxVLAN  int  // VLAN stacking 0..maxVLAN
	wantDHCP bool // UDP/67 BOOTP payload
	families []string
}

func genMAC(s src, label string) (m [6]byte) {
	copy(m[:], fill(s, 6, label))
	switch s.intn(8, label+"kind") {
	case 0:
		m = [6]byte{}
	case 1:
		m = [6]byte{0xff, 0xff, 0xff, 0xff, 0xff, 0xff}
	default:
		m[0] &^= 1
	}
	return
}

func genPrivateIP(s src, label string) (ip [4]byte) {
	r := fill(s, 4, label)
	switch s.intn(6, label+"range") {
	case 0:
		ip = [4]byte{10, r[1], r[2], r[3]}
	case 1:
		ip = [4]byte{172, 16 + r[1]%16, r[2], r[3]}
	case 2:
		ip = [4]byte{192, 168, r[2], r[3]}
	case 3:
		ip = [4]byte{100, 64 + r[1]%64, r[2], r[3]}
	case 4:
		ip = [4]byte{10, 0, 0, 1 + r[3]%3}
	default: // public
		ip = [4]byte{r[0] | 1, r[1], r[2], r[3]}
		if ip[0] == 10 || ip[0] == 127 {
			ip[0] = 8
		}
	}
	return
}

// genFrame draws a structured, (mostly) valid frame of the kind prog acts on.
func genFrame(s src, w frameWant) *built {
	f := &built{}
	dst := genMAC(s, "dst")
	f.srcMAC = genMAC(s, "src")
	b := append([]byte{}, dst[:]...)
	b = append(b, f.srcMAC[:]...)
	f.field("eth.dst", 0, 6)
	f.field("eth.src", 6, 6)
	nv := 0
	if w.maxVLAN > 0 {
		nv = pick(s, "nvlan", 0, 0, 0, 1, 1, 2, 2, 3)
		if nv > w.maxVLAN {
			nv = w.maxVLAN
		}
	}
	for i := 0; i < nv; i++ {
		tpid := uint16(etQ)
		if i == 0 && nv >= 2 && chance(s, "ad", 2, 3) {
			tpid = etAD
		} else if chance(s, "ad1", 1, 6) {
			tpid = etAD
		}
		vid := uint16(pick(s, "vid", 0, 1, 100, 200, 4094, 4095, s.intn(4096, "vidr")))
		tci := vid | uint16(s.intn(16, "pcp"))<<12
		f.field("vlan.tpid", len(b), 2)
		b = binary.BigEndian.AppendUint16(b, tpid)
		f.field("vlan.tci", len(b), 2)
		b = binary.BigEndian.AppendUint16(b, tci)
		f.vlans = append(f.vlans, vid)
		f.marks = append(f.marks, len(b)-2, len(b))
	}
	fam := pick(s, "family", w.families...)
	f.kind = fam
	f.field("eth.type", len(b), 2)
	switch fam {
	case "arp":
		b = binary.BigEndian.AppendUint16(b, etARP)
		f.marks = append(f.marks, len(b))
		b = append(b, fill(s, 28+s.intn(19, "arppad"), "arp")...)
		f.b = b
		return f
	case "other":
		b = binary.BigEndian.AppendUint16(b, pick[uint16](s, "ethertype", 0x88cc, 0x8863, 0x8864, 0x0000, 0xffff, uint16(s.u64("etr"))))
		f.marks = append(f.marks, len(b))
		b = append(b, fill(s, s.intn(80, "otherlen"), "other")...)
		f.b = b
		return f
	case "ipv6":
		b = binary.BigEndian.AppendUint16(b, etIPv6)
		f.marks = append(f.marks, len(b))
		ipOff := len(b)
		plen := s.intn(64, "v6plen")
		h := make([]byte, 40)
		h[0] = 0x60
		binary.BigEndian.PutUint16(h[4:], uint16(plen))
		h[6] = pick[byte](s, "nh", 6, 17, 58, 0, 43)
		h[7] = 64
		copy(h[8:24], fill(s, 16, "v6src"))
		copy(h[24:40], fill(s, 16, "v6dst"))
		h[8], h[9] = 0x20, 0x01
		b = append(b, h...)
		f.field("ip6.ver", ipOff, 1)
		f.field("ip6.plen", ipOff+4, 2)
		f.field("ip6.nh", ipOff+6, 1)
		f.field("ip6.src", ipOff+8, 16)
		f.marks = append(f.marks, ipOff+8, ipOff+24, ipOff+40)
		b = append(b, fill(s, plen, "v6pay")...)
		f.b = b
		return f
	}
	// ---- IPv4 ----
	b = binary.BigEndian.AppendUint16(b, etIPv4)
	ipOff := len(b)
	f.marks = append(f.marks, ipOff)
	if w.wantDHCP && chance(s, "overlap", 1, 8) {
		// IHL < 5: the program finds the UDP header inside the 20 bytes of the IP header.  Build the bytes
		// so that this overlapped view is still a DHCP request to port 67 (any IP header length is in scope).
		k := s.intn(5, "overlapihl")
		f.ihl = k
		f.kind = "ipv4-overlap"
		f.proto = protoUDP
		x := make([]byte, 4*k+8)
		copy(x, fill(s, len(x), "overlaphdr"))
		x[0] = 0x40 | byte(k)
		binary.BigEndian.PutUint16(x[4*k+2:], 67)
		bootp := genBOOTP(s, f)
		x = append(x, bootp...)
		if k == 0 {
			x[9] = protoUDP // = bootp.htype, which the program does not look at
		} else {
			x[9] = protoUDP
			if 4*k+2 <= 9 && 9 < 4*k+4 { // never: dest port bytes are at 4k+2..4k+3 (6,7 / 10,11 / 14,15 / 18,19)
				x[9] = 67
			}
		}
		f.field("ip.vihl", ipOff, 1)
		f.field("ip.proto", ipOff+9, 1)
		f.field("udp.dport", ipOff+4*k+2, 2)
		po := ipOff + 4*k + 8
		f.field("bootp.op", po, 1)
		f.field("bootp.magic", po+236, 4)
		f.marks = append(f.marks, ipOff+20, po, po+240, po+240+12, po+240+63, po+240+64)
		for _, m := range f.optMarks {
			f.marks = append(f.marks, po+240+m)
		}
		f.isDHCP = true
		f.b = append(b, x...)
		return f
	}
	ihl := pick(s, "ihl", 5, 5, 5, 5, 5, 5, 6, 7, 8, 12, 15, s.intn(16, "ihlr"))
	f.ihl = ihl
	hdrLen := 20
	if ihl > 5 {
		hdrLen = ihl * 4 // real options follow
	}
	f.saddr = genPrivateIP(s, "saddr")
	f.daddr = genPrivateIP(s, "daddr")
	if chance(s, "daddrpub", 1, 2) {
		copy(f.daddr[:], fill(s, 4, "daddrp"))
	}
	proto := pick[byte](s, "proto", protoUDP, protoUDP, protoTCP, protoTCP, protoICMP, 47, 50, byte(s.intn(256, "protor")))
	if w.wantDHCP && chance(s, "dhcpudp", 9, 10) {
		proto = protoUDP
	}
	f.proto = proto
	// L4 + payload
	var l4 []byte
	var l4fields []field
	payload := []byte{}
	dhcp := w.wantDHCP && proto == protoUDP && chance(s, "isdhcp", 9, 10)
	if dhcp {
		payload = genBOOTP(s, f)
	} else {
		payload = fill(s, pick(s, "paylen", 0, 0, 1, 4, 12, 32, 64, 300, s.intn(1200, "paylenr")), "payload")
	}
	switch proto {
	case protoUDP:
		l4 = make([]byte, 8)
		sp := uint16(pick(s, "sport", 68, 67, 53, 5060, 1024, 65535, 0, s.intn(65536, "sportr")))
		dp := uint16(pick(s, "dport", 67, 53, 5060, 21, 80, 65535, 0, s.intn(65536, "dportr")))
		if dhcp {
			sp = pick[uint16](s, "dsport", 68, 68, 68, 67)
			dp = 67
			if chance(s, "dport68", 1, 12) {
				dp = 68
			}
		}
		binary.BigEndian.PutUint16(l4[0:], sp)
		binary.BigEndian.PutUint16(l4[2:], dp)
		binary.BigEndian.PutUint16(l4[4:], uint16(8+len(payload)))
		if chance(s, "udpcsum", 1, 2) {
			binary.BigEndian.PutUint16(l4[6:], uint16(s.u64("udpcsumv")))
		}
		l4fields = []field{{"udp.sport", 0, 2}, {"udp.dport", 2, 2}, {"udp.len", 4, 2}, {"udp.check", 6, 2}}
	case protoTCP:
		l4 = make([]byte, 20)
		binary.BigEndian.PutUint16(l4[0:], uint16(pick(s, "sport", 1024, 40000, 65535, 0, s.intn(65536, "sportr"))))
		binary.BigEndian.PutUint16(l4[2:], uint16(pick(s, "dport", 21, 80, 443, 5060, 0, s.intn(65536, "dportr"))))
		copy(l4[4:12], fill(s, 8, "seqack"))
		l4[12] = 5 << 4
		l4[13] = pick[byte](s, "tcpflags", 0x02, 0x12, 0x10, 0x18, 0x11, 0x04, 0x01, byte(s.intn(256, "tcpflagsr")))
		binary.BigEndian.PutUint16(l4[14:], 65535)
		binary.BigEndian.PutUint16(l4[16:], uint16(s.u64("tcpcsum")))
		l4fields = []field{{"tcp.sport", 0, 2}, {"tcp.dport", 2, 2}, {"tcp.doff", 12, 1}, {"tcp.flags", 13, 1}, {"tcp.check", 16, 2}}
	case protoICMP:
		l4 = make([]byte, 8)
		l4[0] = pick[byte](s, "icmptype", 8, 0, 3, 11)
		binary.BigEndian.PutUint16(l4[2:], uint16(s.u64("icmpcsum")))
		binary.BigEndian.PutUint16(l4[4:], uint16(pick(s, "icmpid", 1, 0, 65535, s.intn(65536, "icmpidr"))))
		binary.BigEndian.PutUint16(l4[6:], uint16(s.intn(65536, "icmpseq")))
		l4fields = []field{{"icmp.type", 0, 1}, {"icmp.check", 2, 2}, {"icmp.id", 4, 2}}
	default:
		l4 = fill(s, pick(s, "rawl4", 0, 4, 8, 20), "rawl4b")
	}
	if len(l4) >= 4 {
		copy(f.sport[:], l4[0:2])
		copy(f.dport[:], l4[2:4])
		if proto == protoICMP && len(l4) >= 6 {
			copy(f.sport[:], l4[4:6])
			f.dport = [2]byte{}
		}
	}
	h := make([]byte, hdrLen)
	h[0] = 4<<4 | byte(ihl)
	h[1] = byte(s.intn(256, "tos"))
	binary.BigEndian.PutUint16(h[2:], uint16(hdrLen+len(l4)+len(payload)))
	binary.BigEndian.PutUint16(h[4:], uint16(s.u64("ipid")))
	binary.BigEndian.PutUint16(h[6:], pick[uint16](s, "frag", 0, 0, 0x4000, 0x2000, 0x00b9))
	h[8] = pick[byte](s, "ttl", 64, 1, 255, 0)
	h[9] = proto
	copy(h[12:16], f.saddr[:])
	copy(h[16:20], f.daddr[:])
	if hdrLen > 20 {
		copy(h[20:], fill(s, hdrLen-20, "ipopts"))
	}
	if !chance(s, "badipcsum", 1, 8) {
		binary.BigEndian.PutUint16(h[10:], ipChecksum(h))
	}
	for _, x := range []field{{"ip.vihl", 0, 1}, {"ip.totlen", 2, 2}, {"ip.frag", 6, 2}, {"ip.ttl", 8, 1}, {"ip.proto", 9, 1},
		{"ip.check", 10, 2}, {"ip.saddr", 12, 4}, {"ip.daddr", 16, 4}} {
		f.field(x.name, ipOff+x.off, x.n)
	}
	f.marks = append(f.marks, ipOff+1, ipOff+10, ipOff+12, ipOff+16, ipOff+19, ipOff+20, ipOff+hdrLen)
	b = append(b, h...)
	l4Off := len(b)
	for _, x := range l4fields {
		f.field(x.name, l4Off+x.off, x.n)
	}
	b = append(b, l4...)
	payOff := len(b)
	f.marks = append(f.marks, l4Off+1, l4Off+4, payOff-1, payOff)
	b = append(b, payload...)
	if dhcp {
		f.isDHCP = true
		// BOOTP fields relative to payOff
		for _, x := range []field{{"bootp.op", 0, 1}, {"bootp.htype", 1, 1}, {"bootp.hlen", 2, 1}, {"bootp.hops", 3, 1}, {"bootp.flags", 10, 2},
			{"bootp.ciaddr", 12, 4}, {"bootp.giaddr", 24, 4}, {"bootp.chaddr", 28, 6}, {"bootp.magic", 236, 4}} {
			if x.off+x.n <= len(payload) {
				f.field(x.name, payOff+x.off, x.n)
			}
		}
		for i := 240; i < len(payload) && i < 240+24; i++ {
			f.field("bootp.opt", payOff+i, 1)
		}
		f.marks = append(f.marks, payOff+236, payOff+239, payOff+240, payOff+241, payOff+243, payOff+251, payOff+252, payOff+240+63, payOff+240+64, payOff+240+65)
		for _, m := range f.optMarks {
			f.marks = append(f.marks, payOff+240+m)
		}
	}
	f.b = b
	return f
}

// optLayouts: index table for the "optlayout" draw (layout numbers documented in genBOOTP).
var optLayouts = []int{0, 0, 1, 2, 3, 3, 4, 5, 6, 7, 8, 9, 10, 11, 12}

func layoutIndex(l int) int {
	for i, v := range optLayouts {
		if v == l {
			return i
		}
	}
	return 0
}

// shortAreaListed: KF-C07-1 is listed (set in TestMain after the registry is loaded).
var shortAreaListed bool

// genBOOTP draws a DHCP client message; option layouts follow DESIGN C03/C07.
func genBOOTP(s src, f *built) []byte {
	p := make([]byte, 240)
	p[0] = 1
	if chance(s, "bootreply", 1, 16) {
		p[0] = 2
	}
	p[1], p[2] = 1, 6
	p[3] = byte(pick(s, "hops", 0, 0, 1, 3))
	copy(p[4:8], fill(s, 4, "xid"))
	binary.BigEndian.PutUint16(p[8:], uint16(s.intn(4, "secs")))
	if chance(s, "bcast", 1, 2) {
		p[10] = 0x80
	}
	if chance(s, "ciaddr", 1, 3) {
		copy(p[12:16], f.saddr[:])
	}
	if chance(s, "giaddr", 1, 3) {
		g := genPrivateIP(s, "giaddrv")
		copy(p[24:28], g[:])
	}
	f.chaddr = f.srcMAC
	if chance(s, "chaddrdiff", 1, 6) {
		f.chaddr = genMAC(s, "chaddr")
	}
	copy(p[28:34], f.chaddr[:])
	if chance(s, "sname", 1, 3) {
		copy(p[44:108], fill(s, 64, "snamev"))
		copy(p[108:236], fill(s, 128, "filev"))
	}
	binary.BigEndian.PutUint32(p[236:], 0x63825363)
	if chance(s, "badmagic", 1, 16) {
		copy(p[236:240], fill(s, 4, "magicv"))
	}
	mt := pick[byte](s, "msgtype", 1, 1, 1, 1, 3, 3, 3, 3, 4, 7, 8, 0, 9)
	opt53 := []byte{53, 1, mt}
	var o []byte
	opt82 := func() []byte {
		n := pick(s, "cidlen", 1, 4, 8, 16, 31, 32, 33, 48, 64)
		cid := fill(s, n, "cid")
		f.circuitID = cid
		sub := append([]byte{1, byte(n)}, cid...)
		if chance(s, "remoteid", 1, 2) {
			rid := fill(s, 1+s.intn(8, "ridlen"), "rid")
			sub = append(sub, append([]byte{2, byte(len(rid))}, rid...)...)
		}
		return append([]byte{82, byte(len(sub))}, sub...)
	}
	clientID := append([]byte{61, 7, 1}, f.chaddr[:]...)
	prl := []byte{55, 4, 1, 3, 6, 15}
	reqIP := append([]byte{50, 4}, f.saddr[:]...)
	switch layout := optLayouts[s.intn(len(optLayouts), "optlayout")]; layout {
	case 0: // 53 first
		o = append(o, opt53...)
		o = append(o, prl...)
	case 1: // after one pad
		o = append(o, 0)
		o = append(o, opt53...)
	case 2: // after client-id (position 9: not at a fixed position the fast path checks)
		o = append(o, clientID...)
		o = append(o, opt53...)
	case 3: // after a 3-byte option
		o = append(o, 116, 1, 1)
		o = append(o, opt53...)
	case 4: // after four other options
		o = append(o, prl...)
		o = append(o, reqIP...)
		o = append(o, clientID...)
		o = append(o, 12, 2, 'h', 'i')
		o = append(o, opt53...)
	case 5, 6: // option 82 right after 53 (position 3)
		o = append(o, opt53...)
		o = append(o, opt82()...)
	case 7, 8: // option 82 at position 12..19
		o = append(o, opt53...)
		fillLen := 12 + s.intn(8, "opt82pos") - 3 - 2
		o = append(o, 55, byte(fillLen))
		o = append(o, fill(s, fillLen, "prlfill")...)
		o = append(o, opt82()...)
	case 9: // option 82 elsewhere
		o = append(o, opt53...)
		o = append(o, clientID...)
		o = append(o, reqIP...)
		o = append(o, prl...)
		o = append(o, opt82()...)
	case 10: // 53 at position 4
		o = append(o, 57, 2, 2, 64)
		o = append(o, opt53...)
	case 11: // 53 at position 5
		o = append(o, 0, 57, 2, 2, 64)
		o = append(o, opt53...)
	default: // 53 at position 6
		o = append(o, 116, 1, 1, 23, 1, 64)
		o = append(o, opt53...)
	}
	// truncation points: every option boundary (code, length, first value byte, end) in the first 48 bytes
	for i := 0; i < len(o) && i < 48; {
		f.optMarks = append(f.optMarks, i, i+1, i+2)
		if o[i] == 0 || o[i] == 255 || i+1 >= len(o) {
			i++
			continue
		}
		i += 2 + int(o[i+1])
		f.optMarks = append(f.optMarks, i-1, i)
	}
	if chance(s, "noend", 1, 10) {
		// no END option
	} else {
		o = append(o, 255)
	}
	// options area length: 4..312, weighted to the 60-byte minimum area and the 64-byte threshold
	area := pick(s, "optarea", 60, 60, 63, 64, 64, 65, 100, 100, 312, len(o), len(o), 4+s.intn(309, "optarear"))
	if area < 64 && shortAreaListed && chance(s, "steer", 2, 3) {
		// a listed known finding ends every cached request with < 64 option bytes: steer most cases past it
		area = pick(s, "optarea2", 64, 64, 70, 100, 312)
	}
	if area < len(o) {
		if chance(s, "cutopts", 1, 3) {
			o = o[:area]
		} else {
			area = len(o)
		}
	}
	for len(o) < area {
		o = append(o, 0)
	}
	return append(p, o...)
}

// mutate overwrites one field with a boundary or random value.
func mutate(s src, f *built) (out []byte, name string) {
	out = append([]byte{}, f.b...)
	if len(f.fields) == 0 {
		return out, "none"
	}
	fd := f.fields[s.intn(len(f.fields), "mutfield")]
	if fd.off+fd.n > len(out) {
		return out, "none"
	}
	v := fill(s, fd.n, "mutval")
	switch s.intn(6, "mutkind") {
	case 0:
		for i := range v {
			v[i] = 0
		}
	case 1:
		for i := range v {
			v[i] = 0xff
		}
	case 2: // small
		for i := range v {
			v[i] = 0
		}
		v[len(v)-1] = byte(1 + s.intn(8, "mutsmall"))
	case 3: // +-1
		copy(v, out[fd.off:fd.off+fd.n])
		if chance(s, "mutinc", 1, 2) {
			v[len(v)-1]++
		} else {
			v[len(v)-1]--
		}
	case 4: // flip one bit
		copy(v, out[fd.off:fd.off+fd.n])
		v[s.intn(len(v), "mutbyte")] ^= 1 << uint(s.intn(8, "mutbit"))
	}
	if fd.name == "ip.vihl" && chance(s, "mutihl", 2, 3) {
		v[0] = 0x40 | byte(s.intn(16, "mutihlv")) // IHL 0..15 on an unchanged header
	}
	copy(out[fd.off:], v)
	return out, fd.name
}

// ---------------------------------------------------------------------------------------------
// independent parser used by the oracle (act-on predicates, modified-region labels, NT rule)
// ---------------------------------------------------------------------------------------------

func be16(b []byte, off int) (uint16, bool) {
	if off < 0 || off+2 > len(b) {
		return 0, false
	}
	return binary.BigEndian.Uint16(b[off:]), true
}

// l4Complete reports whether an untagged IPv4 frame carries a complete TCP/UDP/ICMP header at
// 14 + IHL*4 (the only place a NAT could find ports), and returns that offset and the protocol.
func l4Complete(fr []byte) (l4off int, proto byte, ok bool) {
	et, has := be16(fr, 12)
	if !has || et != etIPv4 || len(fr) < 34 {
		return 0, 0, false
	}
	proto = fr[23]
	l4off = 14 + int(fr[14]&0x0f)*4
	need := 0
	switch proto {
	case protoTCP:
		need = 20
	case protoUDP, protoICMP:
		need = 8
	default:
		return 0, proto, false
	}
	return l4off, proto, l4off+need <= len(fr)
}

// regionsTouched names the deepest protocol region of the input frame in which the output differs
// (eth < ip < l4 < payload240 < rest; "+length" if the length changed).  Regions are laid out the way the
// frame describes itself: VLAN tags skipped, IP header = IHL*4 bytes, L4 header 20 (TCP) or 8 bytes,
// then the first 240 bytes of payload (the fixed BOOTP part) and the rest (DHCP options, data).
func regionsTouched(in, out []byte) string {
	off := 12
	for i := 0; i < 4; i++ {
		et, ok := be16(in, off)
		if !ok || (et != etQ && et != etAD) {
			break
		}
		off += 4
	}
	l2 := off + 2
	ipEnd, l4End, bootpEnd := len(in), len(in), len(in)
	if et, ok := be16(in, off); ok && et == etIPv4 && len(in) > l2 {
		ipEnd = l2 + int(in[l2]&0x0f)*4
		l4End = ipEnd + 8
		if len(in) > l2+9 && in[l2+9] == protoTCP {
			l4End = ipEnd + 20
		}
		bootpEnd = l4End + 240
	}
	deepest := -1
	n := len(in)
	if len(out) < n {
		n = len(out)
	}
	for i := 0; i < n; i++ {
		if in[i] == out[i] {
			continue
		}
		r := 4
		switch {
		case i < l2:
			r = 0
		case i < ipEnd:
			r = 1
		case i < l4End:
			r = 2
		case i < bootpEnd:
			r = 3
		}
		if r > deepest {
			deepest = r
		}
	}
	s := "none"
	if deepest >= 0 {
		s = "through-" + []string{"eth", "ip", "l4", "payload240", "rest"}[deepest]
	}
	if len(in) != len(out) {
		s += "+length"
	}
	return s
}
