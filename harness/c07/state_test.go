package c07

import (
	"encoding/binary"
)

// mapEntry is one raw entry loaded into the runner before a case runs.
type mapEntry struct {
	Map   string `json:"map"`
	Key   hexb   `json:"key"`
	Value hexb   `json:"value"`
}

type state struct {
	Entries  []mapEntry `json:"entries,omitempty"`
	Clock    uint64     `json:"clock"`
	Tailroom int32      `json:"tailroom"` // -1 = kernel page model; 0 = bpf_xdp_adjust_tail cannot grow
	Class    string     `json:"class"`
}

func (st *state) put(m string, k, v []byte) {
	st.Entries = append(st.Entries, mapEntry{m, append([]byte{}, k...), append([]byte{}, v...)})
}

func (st *state) has(m string, key []byte) bool {
	for _, e := range st.Entries {
		if e.Map == m && string(e.Key) == string(key) {
			return true
		}
	}
	return false
}

func (st *state) get(m string, key []byte) []byte { // entries are loaded in order: the last one wins
	var v []byte
	for _, e := range st.Entries {
		if e.Map == m && string(e.Key) == string(key) {
			v = e.Value
		}
	}
	return v
}

func (st *state) any(m string) bool {
	for _, e := range st.Entries {
		if e.Map == m {
			return true
		}
	}
	return false
}

func le32(v uint32) []byte { return binary.LittleEndian.AppendUint32(nil, v) }
func le64(v uint64) []byte { return binary.LittleEndian.AppendUint64(nil, v) }

// macKey is the u64 map key both C programs derive from a MAC (mac[0] is the most significant of 48 bits).
func macKey(m [6]byte) []byte {
	var v uint64
	for _, b := range m {
		v = v<<8 | uint64(b)
	}
	return le64(v)
}

// ---- dhcp_fastpath -----------------------------------------------------------------------------

func poolAssignment(poolID uint32, ip [4]byte, expiry uint64) []byte {
	v := make([]byte, 25)
	binary.LittleEndian.PutUint32(v[0:], poolID)
	copy(v[4:8], ip[:])
	v[12] = 1
	binary.LittleEndian.PutUint64(v[13:], expiry)
	return v
}

func genDHCPState(s src, f *built) state {
	st := state{Tailroom: -1, Clock: uint64(pick(s, "uptime_s", 1, 100, 86400, 1<<31)) * 1_000_000_000}
	class := pick(s, "dhcpstate", "empty", "hit", "hit", "hit", "hit", "hit", "nopool", "expired")
	st.Class = class
	if chance(s, "tailroom0", 1, 8) {
		st.Tailroom = 0
	}
	// server config (array slot always exists; zero = unset)
	if chance(s, "servercfg", 3, 4) {
		cfg := make([]byte, 16)
		copy(cfg[0:6], []byte{0x02, 0xaa, 0xbb, 0xcc, 0xdd, 0x01})
		if chance(s, "serverip", 2, 3) {
			copy(cfg[8:12], []byte{10, 0, 0, 1})
		}
		binary.LittleEndian.PutUint32(cfg[12:], 2)
		st.put("server_config", le32(0), cfg)
	}
	if class == "empty" {
		return st
	}
	now := st.Clock / 1_000_000_000
	expiry := now + uint64(1+s.intn(86400, "lease_left"))
	if class == "expired" {
		expiry = now - uint64(1+s.intn(int(now), "expired_by"))
	}
	poolID := uint32(pick(s, "poolid", 0, 1, 7, 9999))
	asg := poolAssignment(poolID, [4]byte{10, 0, byte(s.intn(256, "ip2")), byte(1 + s.intn(254, "ip3"))}, expiry)
	how := pick(s, "keyby", "mac", "mac", "mac", "vlan", "cid")
	if how == "vlan" && len(f.vlans) == 0 {
		how = "mac"
	}
	if how == "cid" && len(f.circuitID) == 0 {
		how = "mac"
	}
	st.Class += "/" + how
	switch how {
	case "mac":
		st.put("subscriber_pools", macKey(f.chaddr), asg)
	case "vlan":
		k := make([]byte, 4)
		binary.LittleEndian.PutUint16(k[0:], f.vlans[0])
		if len(f.vlans) > 1 {
			binary.LittleEndian.PutUint16(k[2:], f.vlans[1])
		}
		st.put("vlan_subscriber_pools", k, asg)
	case "cid":
		k := make([]byte, 32)
		copy(k, f.circuitID)
		st.put("circuit_id_subscribers", k, asg)
	}
	if class != "nopool" {
		p := make([]byte, 28)
		copy(p[0:4], []byte{10, 0, 0, 0})
		p[4] = byte(pick(s, "prefix", 0, 8, 16, 24, 30, 32, 33, 255))
		copy(p[8:12], []byte{10, 0, 0, 1})
		if chance(s, "dns1", 2, 3) {
			copy(p[12:16], []byte{8, 8, 8, 8})
			if chance(s, "dns2", 1, 2) {
				copy(p[16:20], []byte{8, 8, 4, 4})
			}
		}
		binary.LittleEndian.PutUint32(p[20:], uint32(pick(s, "leasetime", 60, 3600, 86400, 0, 1<<32-1)))
		st.put("ip_pools", le32(poolID), p)
	}
	return st
}

// ---- antispoof ---------------------------------------------------------------------------------

func genAntispoofState(s src, f *built) state {
	st := state{Tailroom: -1, Clock: s.u64("clock") >> uint(s.intn(40, "clockshift"))}
	class := pick(s, "asstate", "empty", "cfgonly", "bound", "bound", "bound", "bound")
	st.Class = class
	if class == "empty" {
		return st
	}
	cfg := make([]byte, 8)
	cfg[0] = pick[byte](s, "defmode", 0, 1, 2, 2, 2, 3, 4, 255)
	cfg[1] = byte(s.intn(2, "logv"))
	st.put("antispoof_config", le32(0), cfg)
	if chance(s, "ranges", 1, 2) {
		k := make([]byte, 8)
		pl := pick(s, "rangelen", 0, 8, 16, 24, 32)
		binary.LittleEndian.PutUint32(k, uint32(pl))
		copy(k[4:], f.saddr[:])
		if chance(s, "rangeother", 1, 3) {
			k[4] ^= 0x80
		}
		st.put("allowed_ranges_v4", k, []byte{1})
	}
	if class == "cfgonly" {
		return st
	}
	b := make([]byte, 24)
	copy(b[0:4], f.saddr[:])
	if chance(s, "wrongip", 1, 3) {
		b[3] ^= 1
	}
	if f.kind == "ipv6" {
		// IPv6 source address sits 8 bytes into the IPv6 header; locate it from the end of L2
		l2 := 14 + 4*len(f.vlans)
		if l2+24 <= len(f.b) {
			copy(b[4:20], f.b[l2+8:l2+24])
		}
		if chance(s, "wrongip6", 1, 3) {
			b[19] ^= 1
		}
	}
	b[20] = byte(s.intn(2, "v4valid"))
	b[21] = byte(s.intn(2, "v6valid"))
	b[22] = pick[byte](s, "mode", 0, 1, 1, 2, 3, 4, 255)
	st.put("subscriber_bindings", macKey(f.srcMAC), b)
	return st
}

// ---- qos ---------------------------------------------------------------------------------------

func genQoSState(s src, f *built, mapName string, addr [4]byte) state {
	st := state{Tailroom: -1, Clock: s.u64("clock") >> uint(s.intn(50, "clockshift"))}
	class := pick(s, "qosstate", "empty", "bucket", "bucket", "bucket", "otherbucket")
	st.Class = class
	if class == "empty" {
		return st
	}
	tb := make([]byte, 32)
	burst := uint32(pick(s, "burst", 0, 1, 64, 1500, 15000, 1<<32-1))
	tokens := uint64(pick(s, "tokens", 0, 1, 63, 1500, 1<<20))
	if chance(s, "tokenshuge", 1, 10) {
		tokens = s.u64("tokensv")
	}
	last := st.Clock - uint64(pick(s, "elapsed", 0, 1, 1000, 1_000_000, 1_000_000_000, 1<<40))
	if chance(s, "lastfuture", 1, 10) {
		last = st.Clock + 12345
	}
	rate := uint64(pick(s, "rate", 0, 1, 7, 8, 8000, 1_000_000, 100_000_000_000))
	if chance(s, "ratehuge", 1, 10) {
		rate = s.u64("ratev")
	}
	binary.LittleEndian.PutUint64(tb[0:], tokens)
	binary.LittleEndian.PutUint64(tb[8:], last)
	binary.LittleEndian.PutUint64(tb[16:], rate)
	binary.LittleEndian.PutUint32(tb[24:], burst)
	tb[28] = byte(s.intn(8, "prio"))
	key := addr
	if class == "otherbucket" {
		key[3] ^= 0x55
	}
	st.put(mapName, key[:], tb)
	return st
}

// ---- nat44 -------------------------------------------------------------------------------------

const (
	natFlagEIM     = 0x01
	natFlagHairpin = 0x04
	natFlagALGFTP  = 0x08
	natFlagALGSIP  = 0x10
	natFlagParity  = 0x20
)

func natKey(src, dst [4]byte, sport, dport [2]byte, proto byte) []byte {
	k := make([]byte, 16)
	copy(k[0:4], src[:])
	copy(k[4:8], dst[:])
	copy(k[8:10], sport[:])
	copy(k[10:12], dport[:])
	k[12] = proto
	return k
}

func natSession(natIP [4]byte, natPort, origPort [2]byte, origIP, destIP [4]byte, destPort [2]byte, proto, st byte) []byte {
	v := make([]byte, 80)
	copy(v[0:4], natIP[:])
	copy(v[4:6], natPort[:])
	copy(v[6:8], origPort[:])
	copy(v[8:12], origIP[:])
	copy(v[12:16], destIP[:])
	copy(v[16:18], destPort[:])
	v[72] = st
	v[73] = proto
	return v
}

func genNATConfig(s src, st *state, hairpinLikely bool) {
	if chance(s, "natcfg", 4, 5) || hairpinLikely {
		cfg := make([]byte, 16)
		fl := uint32(s.intn(128, "natflags"))
		if hairpinLikely && chance(s, "hairpinon", 3, 4) {
			fl |= natFlagHairpin
		}
		binary.LittleEndian.PutUint32(cfg[0:], fl)
		binary.LittleEndian.PutUint16(cfg[4:], 1024)
		binary.LittleEndian.PutUint16(cfg[6:], 65535)
		binary.LittleEndian.PutUint32(cfg[8:], 1024)
		st.put("nat_config_map", le32(0), cfg)
	}
}

func genNATEgressState(s src, f *built) state {
	st := state{Tailroom: -1, Clock: s.u64("clock") >> uint(s.intn(40, "clockshift"))}
	class := pick(s, "natstate", "empty", "block", "block", "block", "block+session", "block+session", "block+eim")
	st.Class = class
	genNATConfig(s, &st, false)
	if chance(s, "hairpinip", 1, 3) {
		st.put("hairpin_ips", f.daddr[:], []byte{1})
	}
	if chance(s, "alg", 1, 4) {
		port := uint32(binary.BigEndian.Uint16(f.dport[:]))
		st.put("alg_ports", le32(port<<16|uint32(f.proto)), []byte{byte(port), byte(port >> 8), f.proto, 1, 0, 0, 0, 0})
	}
	if class == "empty" {
		return st
	}
	sub := make([]byte, 64)
	pub := [4]byte{203, 0, 113, byte(1 + s.intn(200, "pub"))}
	copy(sub[0:4], pub[:])
	start := uint16(pick(s, "pstart", 1024, 2048, 0, 65535, 40000))
	end := uint16(pick(s, "pend", int(start)+1023, int(start)+63, int(start), int(start)-1, 65535, 0))
	next := uint32(pick(s, "pnext", int(start), int(end), int(start)+5, 0, 65535, 65536, 1<<32-1))
	binary.LittleEndian.PutUint16(sub[4:], start)
	binary.LittleEndian.PutUint16(sub[6:], end)
	binary.LittleEndian.PutUint32(sub[8:], next)
	binary.LittleEndian.PutUint32(sub[24:], 42)
	sub[28] = 10
	st.put("subscriber_nat", f.saddr[:], sub)
	natPort := [2]byte{0x9c, 0x40}
	switch class {
	case "block+session":
		k := natKey(f.saddr, f.daddr, f.sport, f.dport, f.proto)
		st.put("nat_sessions", k, natSession(pub, natPort, f.sport, f.saddr, f.daddr, f.dport, f.proto, byte(s.intn(5, "sstate"))))
	case "block+eim":
		k := make([]byte, 8)
		copy(k[0:4], f.saddr[:])
		copy(k[4:6], f.sport[:])
		k[6] = f.proto
		v := make([]byte, 32)
		copy(v[0:4], pub[:])
		binary.LittleEndian.PutUint16(v[4:], 5000)
		binary.LittleEndian.PutUint32(v[24:], 1)
		st.put("eim_table", k, v)
	}
	return st
}

func genNATIngressState(s src, f *built) state {
	st := state{Tailroom: -1, Clock: s.u64("clock") >> uint(s.intn(40, "clockshift"))}
	class := pick(s, "natstate", "empty", "reverse+session", "reverse+session", "reverse+session", "reverse-only", "session-only")
	st.Class = class
	genNATConfig(s, &st, false)
	if class == "empty" {
		return st
	}
	// the frame comes from the internet: src = remote, dst = our public ip:port
	sport, dport := f.sport, f.dport
	if f.proto == protoICMP {
		sport, dport = [2]byte{}, f.sport // ICMP: id is the "destination port"
	}
	rev := natKey(f.saddr, f.daddr, sport, dport, f.proto)
	priv := [4]byte{10, 1, byte(s.intn(256, "priv2")), byte(1 + s.intn(254, "priv3"))}
	origPort := [2]byte{byte(s.intn(256, "op0")), byte(s.intn(256, "op1"))}
	orig := natKey(priv, f.saddr, origPort, sport, f.proto)
	if class != "session-only" {
		st.put("nat_reverse", rev, orig)
	}
	if class != "reverse-only" {
		st.put("nat_sessions", orig, natSession(f.daddr, dport, origPort, priv, f.saddr, sport, f.proto, byte(s.intn(5, "sstate"))))
	}
	return st
}

func genHairpinState(s src, f *built) state {
	st := state{Tailroom: -1, Clock: 1}
	class := pick(s, "hpstate", "empty", "cfg", "cfg+target", "cfg+target")
	st.Class = class
	if class == "empty" {
		return st
	}
	genNATConfig(s, &st, true)
	if class == "cfg+target" {
		st.put("hairpin_ips", f.daddr[:], []byte{1})
	}
	return st
}
