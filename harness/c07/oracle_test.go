package c07

import (
	"bytes"
	"encoding/hex"
	"encoding/json"
	"fmt"
	"os"
	"path/filepath"
	"regexp"
	"strings"
	"testing"

	"bngverif/internal/bpfnative"
	"bngverif/internal/vstat"
)

type hexb []byte

func (h hexb) MarshalJSON() ([]byte, error) { return json.Marshal(hex.EncodeToString(h)) }
func (h *hexb) UnmarshalJSON(b []byte) error {
	var s string
	if err := json.Unmarshal(b, &s); err != nil {
		return err
	}
	v, err := hex.DecodeString(s)
	*h = v
	return err
}

// tcase is one fully determined case: program, frame, map state, clock, tail room.
type tcase struct {
	Prog  string `json:"prog"`
	Frame hexb   `json:"frame"`
	State state  `json:"state"`
	Gen   string `json:"gen"`            // generator class: structured | prefix | mutation:<field> | random | random-l2 | ...
	Note  string `json:"note,omitempty"` // free text for committed replays
}

type progDef struct {
	name     string
	tag      string
	want     frameWant
	genState func(s src, f *built) state
	// actOn: is this frame, with this map state, one the program is specified to act on (statement of C07)?
	// nil = the program never has a licence to modify a frame it passes.
	actOn func(fr []byte, st *state) bool
	// mayNotPass: may the program, by the statement, answer this frame in this map state with anything but
	// its pass verdict?  Only frames it is specified to act on (a DHCP request answerable from the cache, a
	// packet that anti-spoofing is enforced on, a packet of a rate-limited subscriber, a flow of a NAT
	// subscriber) - everything else, in particular every frame that cannot be parsed far enough to decide
	// (runt, truncated, not IP), is "other traffic" and must get XDP_PASS / TC_ACT_OK.
	// nil = same predicate as actOn (and with actOn nil too: the program must pass everything).
	mayNotPass func(fr []byte, st *state) bool
	looks      []uint16 // ethertypes the program examines (NT rule)
}

var programs = []progDef{
	{
		name:     "dhcp_fastpath_prog",
		tag:      "dhcp",
		want:     frameWant{maxVLAN: 3, wantDHCP: true, families: []string{"ipv4", "ipv4", "ipv4", "ipv4", "ipv4", "ipv4", "ipv4", "ipv4", "ipv6", "arp"}},
		genState: genDHCPState,
		// "a DHCP request answered from the cache" is a frame that leaves with XDP_TX; a frame handed to
		// the stack with XDP_PASS was by definition not answered, so PASS never licenses a modification.
		actOn: nil,
		// ... and it can only be answered (TX, or dropped half-built) if it is at least a complete
		// Ethernet/IPv4/UDP/BOOTP frame (14+20+8+240 bytes) behind an IPv4 or VLAN ethertype and some cache
		// map holds an entry; the harness does not re-implement the option parser to narrow this further.
		mayNotPass: func(fr []byte, st *state) bool {
			et, ok := be16(fr, 12)
			if !ok || (et != etIPv4 && et != etQ && et != etAD) || len(fr) < 14+20+8+240 {
				return false
			}
			return st.any("subscriber_pools") || st.any("vlan_subscriber_pools") || st.any("circuit_id_subscribers")
		},
		looks: []uint16{etIPv4, etQ, etAD},
	},
	{
		name:     "antispoof_ingress",
		tag:      "antispoof",
		want:     frameWant{maxVLAN: 1, families: []string{"ipv4", "ipv4", "ipv4", "ipv6", "ipv6", "arp", "other"}},
		genState: genAntispoofState,
		actOn: func(fr []byte, st *state) bool { // a packet of a bound subscriber
			if len(fr) < 14 {
				return false
			}
			var m [6]byte
			copy(m[:], fr[6:12])
			return st.has("subscriber_bindings", macKey(m))
		},
		// Enforcement (drop) applies to IPv4/IPv6 packets with a complete IP header whose effective mode -
		// the binding's, or the configured default for a MAC without binding (default-deny deployments) -
		// is neither "disabled" (0) nor "log only" (3).
		mayNotPass: func(fr []byte, st *state) bool {
			et, ok := be16(fr, 12)
			switch {
			case !ok:
				return false
			case et == etIPv4 && len(fr) >= 14+20:
			case et == etIPv6 && len(fr) >= 14+40:
			default:
				return false
			}
			var m [6]byte
			copy(m[:], fr[6:12])
			mode := byte(0)
			if cfg := st.get("antispoof_config", le32(0)); len(cfg) > 0 {
				mode = cfg[0]
			}
			if b := st.get("subscriber_bindings", macKey(m)); len(b) > 22 {
				mode = b[22]
			}
			return mode != 0 && mode != 3
		},
		looks: []uint16{etIPv4, etIPv6},
	},
	{
		name:     "qos_egress_prog",
		tag:      "qos-eg",
		want:     frameWant{maxVLAN: 1, families: []string{"ipv4", "ipv4", "ipv4", "ipv4", "ipv4", "ipv6", "arp"}},
		genState: func(s src, f *built) state { return genQoSState(s, f, "qos_egress", f.daddr) },
		actOn: func(fr []byte, st *state) bool { // IPv4 frame whose destination has a bucket
			et, ok := be16(fr, 12)
			return ok && et == etIPv4 && len(fr) >= 34 && st.has("qos_egress", fr[30:34])
		},
		looks: []uint16{etIPv4},
	},
	{
		name:     "qos_ingress_prog",
		tag:      "qos-in",
		want:     frameWant{maxVLAN: 1, families: []string{"ipv4", "ipv4", "ipv4", "ipv4", "ipv4", "ipv6", "arp"}},
		genState: func(s src, f *built) state { return genQoSState(s, f, "qos_ingress", f.saddr) },
		actOn: func(fr []byte, st *state) bool {
			et, ok := be16(fr, 12)
			return ok && et == etIPv4 && len(fr) >= 34 && st.has("qos_ingress", fr[26:30])
		},
		looks: []uint16{etIPv4},
	},
	{
		name:     "nat44_egress",
		tag:      "nat-eg",
		want:     frameWant{maxVLAN: 1, families: []string{"ipv4", "ipv4", "ipv4", "ipv4", "ipv4", "ipv4", "ipv6", "arp"}},
		genState: genNATEgressState,
		actOn: func(fr []byte, st *state) bool { // TCP/UDP/ICMP flow of a subscriber with a NAT block
			_, _, ok := l4Complete(fr)
			return ok && st.has("subscriber_nat", fr[26:30])
		},
		looks: []uint16{etIPv4},
	},
	{
		name:     "nat44_ingress",
		tag:      "nat-in",
		want:     frameWant{maxVLAN: 1, families: []string{"ipv4", "ipv4", "ipv4", "ipv4", "ipv4", "ipv4", "ipv6", "arp"}},
		genState: genNATIngressState,
		actOn: func(fr []byte, st *state) bool { // flow matching a reverse session
			l4, proto, ok := l4Complete(fr)
			if !ok {
				return false
			}
			var sa, da [4]byte
			var sp, dp [2]byte
			copy(sa[:], fr[26:30])
			copy(da[:], fr[30:34])
			if proto == protoICMP {
				copy(dp[:], fr[l4+4:l4+6])
			} else {
				copy(sp[:], fr[l4:l4+2])
				copy(dp[:], fr[l4+2:l4+4])
			}
			return st.has("nat_reverse", natKey(sa, da, sp, dp, proto))
		},
		looks: []uint16{etIPv4},
	},
	{
		name:     "nat44_hairpin_xdp",
		tag:      "hairpin",
		want:     frameWant{maxVLAN: 1, families: []string{"ipv4", "ipv4", "ipv4", "ipv4", "ipv4", "ipv6", "arp"}},
		genState: genHairpinState,
		actOn:    nil, // detection only: it always passes and must never touch the frame
		looks:    []uint16{etIPv4},
	},
}

func (pd *progDef) canRefuse(fr []byte, st *state) bool {
	if pd.mayNotPass != nil {
		return pd.mayNotPass(fr, st)
	}
	return pd.actOn != nil && pd.actOn(fr, st)
}

// frameShape names how far the frame can be parsed at all (independent of program and map state).
func frameShape(fr []byte) string {
	if len(fr) < 14 {
		return "runt-eth"
	}
	off, tags := 12, ""
	for i := 0; i < 3; i++ {
		et, ok := be16(fr, off)
		if !ok || (et != etQ && et != etAD) {
			break
		}
		off, tags = off+4, "vlan-"
	}
	et, ok := be16(fr, off)
	l3 := off + 2
	switch {
	case !ok:
		return tags + "runt-tag"
	case et == etIPv4 && len(fr) < l3+20:
		return tags + "runt-ipv4"
	case et == etIPv4:
		if _, _, c := l4Complete(fr[off-12:]); c {
			return tags + "ipv4-l4"
		}
		return tags + "ipv4"
	case et == etIPv6 && len(fr) < l3+40:
		return tags + "runt-ipv6"
	case et == etIPv6:
		return tags + "ipv6"
	}
	return tags + "non-ip"
}

func progByName(n string) *progDef {
	for i := range programs {
		if programs[i].name == n {
			return &programs[i]
		}
	}
	return nil
}

// inconclusive ends the process with exit code 3 (no FAIL line, no VIOLATION marker): the driver maps
// that to exit 2.  Used for runner deaths without a reproducible culprit and for harness/runner mismatches.
func inconclusive(format string, args ...any) {
	fmt.Fprintf(os.Stderr, "INCONCLUSIVE: "+format+"\n", args...)
	vstat.Flush()
	os.Exit(3)
}

func startRunner(t testing.TB) *bpfnative.Client {
	c, err := bpfnative.Start()
	if err != nil {
		inconclusive("cannot start the native runner: %v", err)
	}
	t.Cleanup(func() { c.Close() })
	return c
}

var ubsanLoc = regexp.MustCompile(`([A-Za-z0-9_.\-]+\.[ch]):(\d+)(?::\d+)?: runtime error: ([a-z\- ]+)`)

func faultSig(prog string, f bpfnative.Fault) string {
	switch f.Kind {
	case bpfnative.FaultSEGV, bpfnative.FaultBUS:
		w := map[int]string{bpfnative.WhereBefore: "before-start", bpfnative.WhereAfter: "past-end", bpfnative.WhereStale: "stale-pointer",
			bpfnative.WhereNull: "null", bpfnative.WhereWild: "wild"}[f.Where]
		return "C07/" + prog + "/oob/" + w
	case bpfnative.FaultCanary:
		if f.Rel < 0 {
			return "C07/" + prog + "/oob-write/before-start"
		}
		return "C07/" + prog + "/oob-write/past-end"
	case bpfnative.FaultTimeout:
		return "C07/" + prog + "/timeout"
	case bpfnative.FaultUBSan:
		if m := ubsanLoc.FindStringSubmatch(f.Msg); m != nil {
			return "C07/" + prog + "/ubsan/" + m[1] + ":" + m[2]
		}
		return "C07/" + prog + "/ubsan"
	case bpfnative.FaultFPE:
		return "C07/" + prog + "/sigfpe"
	case bpfnative.FaultILL:
		return "C07/" + prog + "/sigill"
	}
	return "C07/" + prog + "/fault"
}

func verdictDefined(kind int, v int32) bool {
	if kind == bpfnative.KindXDP {
		return v >= 0 && v <= 4
	}
	return v >= -1 && v <= 8 // TC_ACT_UNSPEC .. TC_ACT_TRAP
}

func verdictName(kind int, v int32) string {
	if kind == bpfnative.KindXDP {
		if v >= 0 && v <= 4 {
			return []string{"ABORTED", "DROP", "PASS", "TX", "REDIRECT"}[v]
		}
	} else {
		switch v {
		case 0:
			return "OK"
		case 2:
			return "SHOT"
		case -1:
			return "UNSPEC"
		case 7:
			return "REDIRECT"
		}
	}
	return fmt.Sprintf("v%d", v)
}

var violSeq int

// report routes a violation through the known-finding registry; unlisted ones are saved as a replayable JSON case first.
func report(t vstat.Fataler, tc *tcase, sig, format string, args ...any) bool {
	t.Helper()
	if !vstat.IsListed(sig) {
		if dir := os.Getenv("VERIF_OUT"); dir != "" {
			_ = os.MkdirAll(filepath.Join(dir, "violations"), 0o755)
			b, _ := json.MarshalIndent(map[string]any{"case": tc, "signature": sig, "detail": fmt.Sprintf(format, args...)}, "", " ")
			violSeq++
			name := fmt.Sprintf("TestReplayCases__%s_%03d.json", strings.NewReplacer("/", "_", ":", "_").Replace(sig), violSeq)
			_ = os.WriteFile(filepath.Join(dir, "violations", name), b, 0o644)
		}
	}
	return vstat.Fail(t, sig, format+"\n  case: prog=%s gen=%s state=%s len=%d frame=%s", append(args, tc.Prog, tc.Gen, tc.State.Class, len(tc.Frame), hex.EncodeToString(tc.Frame))...)
}

type outcome struct {
	nontrivial bool
	classes    []string
	abandoned  bool // a listed known finding fired
	sigs       []string
}

func runOnce(t vstat.Fataler, c *bpfnative.Client, tc *tcase, pl bpfnative.Placement) bpfnative.Result {
	load := func() {
		if err := c.ClearMaps(); err != nil {
			inconclusive("runner: %v", err)
		}
		for _, e := range tc.State.Entries {
			if err := c.LoadMap(e.Map, e.Key, e.Value); err != nil {
				inconclusive("harness state does not fit the C declaration: %v", err)
			}
		}
		if err := c.SetClock(tc.State.Clock); err != nil {
			inconclusive("runner: %v", err)
		}
	}
	o := bpfnative.DefaultOpts()
	o.Placement = pl
	o.Tailroom = tc.State.Tailroom
	o.Ifindex = 2
	load()
	res, err := c.Run(tc.Prog, tc.Frame, o)
	if err != nil {
		inconclusive("runner: %v", err)
	}
	if res.Fault.Kind == bpfnative.FaultTimeout {
		// "does not terminate" must be reproducible to count (the client has restarted the runner)
		load()
		again, err := c.Run(tc.Prog, tc.Frame, o)
		if err != nil {
			inconclusive("runner: %v", err)
		}
		if again.Fault.Kind != bpfnative.FaultTimeout {
			vstat.Class("transient-timeout", 1)
			res = again
		}
	}
	if res.Fault.Kind == bpfnative.FaultDied {
		// the runner died: only a reproducible death with this very case is attributable
		first := res.Fault.Msg
		load()
		res, err = c.Run(tc.Prog, tc.Frame, o)
		if err != nil || res.Fault.Kind != bpfnative.FaultDied {
			inconclusive("native runner died without a reproducible culprit: %s", first)
		}
	}
	return res
}

// checkCase runs one case in both placements and applies the C07 oracle.
func checkCase(t vstat.Fataler, c *bpfnative.Client, tc *tcase) outcome {
	t.Helper()
	pd := progByName(tc.Prog)
	pi, ok := c.Prog(tc.Prog)
	if pd == nil || !ok {
		inconclusive("program %s is not built into the runner", tc.Prog)
	}
	var out outcome
	fail := func(sig, format string, args ...any) {
		out.sigs = append(out.sigs, sig)
		if report(t, tc, sig, format, args...) {
			out.abandoned = true
		}
	}
	var results [2]bpfnative.Result
	cov := map[string]bool{}
	for i, pl := range []bpfnative.Placement{bpfnative.EndFlush, bpfnative.StartFlush} {
		res := runOnce(t, c, tc, pl)
		results[i] = res
		if res.Fault.Kind == bpfnative.FaultDied {
			fail("C07/"+tc.Prog+"/runner-died", "%s: the runner process dies on this case every time: %s", pl, res.Fault.Msg)
			return out
		}
		if res.Fault.Faulted() {
			fail(faultSig(tc.Prog, res.Fault), "%s placement: %s", pl, res.Fault)
			continue
		}
		if !verdictDefined(pi.Kind, res.Verdict) {
			fail("C07/"+tc.Prog+"/undefined-verdict", "%s placement: verdict %d is not a defined one", pl, res.Verdict)
		}
		if res.RingbufLeak != 0 {
			fail("C07/"+tc.Prog+"/ringbuf-leak", "%s placement: %d ring buffer reservation(s) neither submitted nor discarded", pl, res.RingbufLeak)
		}
		pass := (pi.Kind == bpfnative.KindXDP && res.Verdict == bpfnative.XDPPass) || (pi.Kind == bpfnative.KindTC && res.Verdict == bpfnative.TCActOK)
		if pass && !bytes.Equal(res.Out, tc.Frame) {
			if pd.actOn == nil || !pd.actOn(tc.Frame, &tc.State) {
				fail("C07/"+tc.Prog+"/pass-modified/"+regionsTouched(tc.Frame, res.Out),
					"%s placement: verdict %s but the frame was modified (it is not one the program is specified to act on): out len %d\n  out=%s",
					pl, verdictName(pi.Kind, res.Verdict), len(res.Out), hex.EncodeToString(res.Out))
			}
		}
		if !pass && verdictDefined(pi.Kind, res.Verdict) && !pd.canRefuse(tc.Frame, &tc.State) {
			fail("C07/"+tc.Prog+"/not-passed/"+frameShape(tc.Frame),
				"%s placement: verdict %s (%d) for a frame the program is not specified to act on (must be %s); frame returned modified: %v",
				pl, verdictName(pi.Kind, res.Verdict), res.Verdict, map[int]string{bpfnative.KindXDP: "XDP_PASS", bpfnative.KindTC: "TC_ACT_OK"}[pi.Kind],
				!bytes.Equal(res.Out, tc.Frame))
		}
		for i, s := range c.Sites() {
			if res.SiteHit(i) {
				cov[s.Map] = true
			}
		}
	}
	a, b := results[0], results[1]
	if !a.Fault.Faulted() && !b.Fault.Faulted() && (a.Verdict != b.Verdict || !bytes.Equal(a.Out, b.Out)) {
		fail("C07/"+tc.Prog+"/placement-divergence", "same frame and state, different outcome: end-flush verdict %d out %x / start-flush verdict %d out %x (the result depends on bytes outside the packet)",
			a.Verdict, a.Out, b.Verdict, b.Out)
	}
	// classes / NT rule
	et, has := be16(tc.Frame, 12)
	looked := false
	for _, x := range pd.looks {
		if has && x == et {
			looked = true
		}
	}
	out.nontrivial = len(tc.Frame) >= 14 && looked
	g := tc.Gen
	if i := strings.IndexByte(g, ':'); i >= 0 {
		g = g[:i]
	}
	out.classes = append(out.classes, "gen:"+g, "state:"+tc.State.Class)
	if !a.Fault.Faulted() {
		out.classes = append(out.classes, "verdict:"+verdictName(pi.Kind, a.Verdict))
		if !bytes.Equal(a.Out, tc.Frame) {
			out.classes = append(out.classes, "frame-modified")
		}
	}
	if out.nontrivial {
		out.classes = append(out.classes, "reached-l3")
	}
	if pd.actOn != nil && pd.actOn(tc.Frame, &tc.State) {
		out.classes = append(out.classes, "act-on")
	}
	for m := range cov {
		out.classes = append(out.classes, "cov:"+m)
	}
	if tc.State.Tailroom == 0 {
		out.classes = append(out.classes, "no-tailroom")
	}
	if pd.canRefuse(tc.Frame, &tc.State) {
		out.classes = append(out.classes, "may-refuse")
	} else {
		out.classes = append(out.classes, "must-pass", "must-pass:"+frameShape(tc.Frame))
	}
	if cfg := tc.State.get("nat_config_map", le32(0)); len(cfg) >= 4 && cfg[0]&natFlagHairpin != 0 {
		out.classes = append(out.classes, "hairpin-enabled")
	}
	// per-program class names ("prog:<tag>" is the denominator), plus the global generator mix
	tag := pd.tag
	for i, cl := range out.classes {
		out.classes[i] = tag + "/" + cl
	}
	out.classes = append(out.classes, "prog:"+tag, "gen:"+g)
	if out.nontrivial {
		out.classes = append(out.classes, "reached-l3")
	}
	return out
}

func fingerprint(tc *tcase) uint64 {
	parts := []any{tc.Prog, []byte(tc.Frame), tc.State.Clock, tc.State.Tailroom}
	for _, e := range tc.State.Entries {
		parts = append(parts, e.Map, []byte(e.Key), []byte(e.Value))
	}
	return vstat.Hash(parts...)
}

func record(tc *tcase, o outcome) {
	vstat.Case(o.nontrivial, fingerprint(tc), func() any {
		fr := hex.EncodeToString(tc.Frame)
		if len(fr) > 160 {
			fr = fr[:160] + "..."
		}
		return map[string]any{"prog": tc.Prog, "gen": tc.Gen, "state": tc.State.Class, "len": len(tc.Frame), "frame": fr, "entries": len(tc.State.Entries)}
	}, o.classes...)
}
