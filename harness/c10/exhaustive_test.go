package c10

import (
	"fmt"
	"testing"
	"testing/synctest"
	"time"

	"bngverif/internal/vstat"
)

// TestPropExhaustive: the quantifier's bounded-exhaustive part.  Every sequence of exactly `depth`
// operations from {allocate(s), deallocate(s) | s in 4 subscribers} (quick: depth 5, thorough: depth 8, depth 7 for the two size-rotating logger configurations;
// all shorter sequences are prefixes, and every oracle runs after every step), up to renaming of
// subscribers (a subscriber's first mention uses the lowest unused index — the manager treats private
// addresses symmetrically), on four small configurations.  A listed known finding ends the sequence
// at that step and is counted; enumeration continues.
func TestPropExhaustive(t *testing.T) {
	depth := vstat.Scale(5, 8)
	if depth > 8 {
		depth = 8
	}
	const subs = 4
	cfgs := []natCfg{
		{RS: 1024, RE: 5023, PPS: 1000, NIPs: 1, Bulk: true, BufSize: 10, Class: "exh:1ip-cap4"},
		{RS: 65532, RE: 65535, PPS: 2, NIPs: 2, Bulk: false, BufSize: 10, Class: "exh:2ip-cap2-edge65535"},
		{RS: 1, RE: 10, PPS: 3, NIPs: 1, Bulk: true, BufSize: 20, Class: "exh:1ip-cap3-nondividing"},
		{RS: 61440, RE: 65535, PPS: 4096, NIPs: 3, Bulk: true, BufSize: 1, Class: "exh:3ip-cap1-edge65535"},
		// size-rotated logs (run in a bubble, one second of virtual time per operation): two to three records per file
		{RS: 1024, RE: 4023, PPS: 1000, NIPs: 1, Bulk: true, BufSize: 10, MaxFileSize: 400, Class: "exh:1ip-cap3-rotate400"},
		{RS: 65530, RE: 65535, PPS: 3, NIPs: 2, Bulk: false, BufSize: 10, MaxFileSize: 250, Compress: true, Class: "exh:2ip-cap2-rotate250-gz"},
	}
	shard, shards := vstat.Shard()
	dir := t.TempDir()
	lenient := vstat.IsListed(sigLogNoExtent)
	type op struct {
		alloc bool
		sub   int
	}
	seq := make([]op, depth)
	var idx, ran int64
	fullDepth := depth
	for ci, cfg := range cfgs {
		// the two rotating configurations cost a bubble, a directory and several files per sequence: depth 7 at most
		depth := fullDepth
		if cfg.MaxFileSize > 0 && depth > 7 {
			depth = 7
		}
		seq := seq[:depth]
		var rec func(pos, used int)
		rec = func(pos, used int) {
			if pos == depth {
				idx++
				if int(idx%int64(shards)) != shard {
					return
				}
				ran++
				var m *model
				var rot []string
				run := func(bubble bool) {
					e := newEnv(t, dir, cfg, nil)
					e.inBubble = bubble
					m = newModel(cfg, e.pubs, cfg.Bulk || !lenient)
					for _, o := range seq {
						if bubble {
							time.Sleep(time.Second)
						}
						m.step(t, e, o.alloc, o.sub, false)
						if m.dead {
							break
						}
					}
					if bubble {
						time.Sleep(time.Second)
					}
					m.finish(t, e)
					rot = e.rotClasses()
					e.close()
				}
				if cfg.MaxFileSize > 0 {
					synctest.Test(t, func(*testing.T) { run(true) })
				} else {
					run(false)
				}
				m.report(t)
				m.record(fmt.Sprintf("exhaustive-%d", ci), rot...)
				return
			}
			maxSub := used
			if maxSub >= subs {
				maxSub = subs - 1
			}
			for s := 0; s <= maxSub; s++ {
				nu := used
				if s == used {
					nu = used + 1
				}
				for _, a := range []bool{true, false} {
					seq[pos] = op{a, s}
					rec(pos+1, nu)
				}
			}
		}
		rec(0, 0)
	}
	vstat.Note("exhaustive_depth", depth)
	vstat.Note("exhaustive_depth_rotating_configurations", min(depth, 7))
	vstat.Note("exhaustive_subscribers", subs)
	vstat.Note("exhaustive_sequences_total", idx)
	vstat.Exhaustive(true)
	_ = ran
}
