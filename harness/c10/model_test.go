package c10

// C10 — CGNAT port blocks never overlap and are always attributable.
//
// Everything here is written from the property statement:
//
//   - interval model: per public address the live blocks [PortStart,PortEnd] are
//     pairwise disjoint, inside the configured port range, have the configured
//     size, and a subscriber keeps its block until it is released
//     (AllocateNAT re-ask and GetAllocation must agree with what was handed out);
//   - log model: the file written by a real nat.Logger is read back after every
//     step and replayed into its own interval table; every port of every live
//     block must be attributed by that table to exactly the holding subscriber,
//     and the table must not attribute ports to anybody who does not hold them.
//
// The model is updated only from OBSERVED return values of nat.Manager.

import (
	"bufio"
	"bytes"
	"compress/gzip"
	"encoding/json"
	"fmt"
	"io"
	"net"
	"os"
	"path/filepath"
	"sort"
	"strconv"
	"strings"
	"sync/atomic"
	"syscall"
	"testing"
	"testing/synctest"
	"time"

	"github.com/codelaboratoryltd/bng/pkg/nat"
	"go.uber.org/zap"
	"pgregory.net/rapid"

	"bngverif/internal/vstat"
)

func TestMain(m *testing.M) { vstat.Main(m, "C10") }

type fataler = vstat.Fataler

// Violation signatures.  The three marked KF are listed known findings on the pinned tree.
const (
	sigOverlapCount   = "C10/seq/overlap/count-derived-start-after-middle-release" // KF-C10-1
	sigOverlapOther   = "C10/seq/overlap/other"
	sigOutOfRange     = "C10/seq/out-of-range"
	sigSize           = "C10/seq/block-size"
	sigChanged        = "C10/seq/block-changed-on-reask"
	sigReaskFailed    = "C10/seq/reask-failed"
	sigSpurious       = "C10/seq/spurious-exhaustion"
	sigGetAlloc       = "C10/seq/getallocation-mismatch"
	sigBadAlloc       = "C10/seq/malformed-allocation"
	sigDeallocErr     = "C10/seq/deallocate-error"
	sigSubIDShared    = "C10/seq/subscriber-id-shared"
	sigLogNoExtent    = "C10/log/allocate-record-without-block-extent/non-bulk" // KF-C10-3
	sigLogMissing     = "C10/log/missing-record"                                // + /allocate | /deallocate
	sigLogNotAttr     = "C10/log/block-not-attributed"
	sigLogMisattr     = "C10/log/misattributed"
	sigLogStale       = "C10/log/stale-attribution"
	sigLogRelease     = "C10/log/release-without-assign"
	sigLogSubID       = "C10/log/subscriber-id-mismatch"
	sigLogTimestamp   = "C10/log/no-timestamp"
	sigLogUnparsable  = "C10/log/unparsable-record"
	sigLogDup         = "C10/log/duplicate-record" // + /allocate | /deallocate
	// rotation (LoggerConfig.MaxFileSize > 0)
	sigRotSameSecond  = "C10/log/rotation/records-lost/two-rotations-within-one-second" // KF-C10-4: rotated names have 1 s resolution
	sigRotOverwritten = "C10/log/rotation/rotated-file-overwritten"
	sigRotRemoved     = "C10/log/rotation/rotated-file-removed"
	// age-based retention (LoggerConfig.MaxAge > 0: an hourly pass removes rotated files whose mtime is older than MaxAge)
	sigRetLiveFile = "C10/log/retention/live-file-removed"
	sigRetYoung    = "C10/log/retention/young-record-removed"
	sigRetAgedLive = "C10/log/retention/live-block-record-aged-out" // KF-C10-5: the assign record of a block that is still held ages out
	sigLiveMissing = "C10/log/live-file-missing"
	sigConcDup        = "C10/concurrent/duplicate-allocate/two-blocks" // KF-C10-2
	sigConcOverlapDea = "C10/concurrent/overlap/with-deallocations"    // KF-C10-1 seen under concurrent callers
	sigConcOverlap    = "C10/concurrent/overlap/allocate-only"
	sigConcFinal      = "C10/concurrent/final-table-mismatch"
	sigConcLog        = "C10/concurrent/log-mismatch"
)

// ---------------------------------------------------------------------------
// configuration

type natCfg struct {
	RS, RE, PPS int // as given to nat.ManagerConfig (0 = documented default 1024 / 65535 / 1024)
	NIPs        int
	Bulk        bool
	BufSize     int
	Class       string

	// logger: size-based rotation (nat.LoggerConfig.MaxFileSize / Compress), background flusher, flush cadence
	MaxFileSize int64 // 0 = no rotation (the only value cmd/bng configures)
	Compress    bool  // gzip rotated files (a goroutine per rotation)
	Started     bool  // Logger.Start(): 5 s flush ticker + flush-on-full-buffer goroutine, as cmd/bng does
	FlushEvery  int   // the harness flushes (and reads the log back) after every FlushEvery-th operation; 0 = 1
	Prone       bool  // the case may put two rotations into one clock second (see sigRotSameSecond)
	MaxAge      time.Duration // age-based retention of rotated files (0 = keep everything); needs Started (the hourly pass is a goroutine of Start)
}

func (c natCfg) eff() (rs, re, pps int) {
	rs, re, pps = c.RS, c.RE, c.PPS
	if rs == 0 {
		rs = 1024
	}
	if re == 0 {
		re = 65535
	}
	if pps == 0 {
		pps = 1024
	}
	return
}

func (c natCfg) flushEvery() int {
	if c.FlushEvery <= 0 {
		return 1
	}
	return c.FlushEvery
}

// capPerIP is the number of blocks of the configured size that fit into the configured range.
func (c natCfg) capPerIP() int {
	rs, re, pps := c.eff()
	return (re - rs + 1) / pps
}

func (c natCfg) String() string {
	s := fmt.Sprintf("range=%d-%d pps=%d ips=%d bulk=%v buf=%d", c.RS, c.RE, c.PPS, c.NIPs, c.Bulk, c.BufSize)
	if c.MaxFileSize != 0 || c.Started || c.flushEvery() != 1 {
		s += fmt.Sprintf(" maxFileSize=%d compress=%v started=%v flushEvery=%d prone=%v", c.MaxFileSize, c.Compress, c.Started, c.flushEvery(), c.Prone)
	}
	if c.MaxAge != 0 {
		s += fmt.Sprintf(" maxAge=%s", c.MaxAge)
	}
	return s
}

// recMax bounds the size of one JSON log record of either shape (measured: <= 215 bytes).
const recMax = 300

var maxFileSizes = []int64{100, 250, 400, 400, 700, 700, 1000, 1000, 1500, 1500, 2500, 5000}

// genLogOpts draws the logger options that matter to rotation.  maxPerFlush(flushEvery) bounds the number of
// records one flush can write in the calling test.
//
// Rotated files are named <path>.<YYYYMMDD-HHMMSS>; on the pinned tree two rotations within one clock second
// therefore overwrite each other (KF-C10-4).  A case is "prone" when it may contain such a pair (clock not
// advanced between flushes, or MaxFileSize so small that one flush rotates twice).  While the finding is listed
// one case in four is prone; otherwise half of them are.
func genLogOpts(t *rapid.T, c *natCfg, maxPerFlush func(flushEvery int) int) {
	c.FlushEvery = rapid.SampledFrom([]int{1, 1, 1, 2, 3, 4}).Draw(t, "flushEvery")
	c.Started = rapid.IntRange(0, 2).Draw(t, "started") == 0
	if rapid.IntRange(0, 3).Draw(t, "retention?") == 0 {
		// the retention pass runs hourly in a goroutine of Start(); the flush loop that Start() also runs re-allocates the
		// whole entry buffer at each of its 5 s ticks, so keep the buffer small in histories that span hours
		// (every 5 s tick of the flush loop is a scheduler round trip in the bubble: short MaxAge values keep the quiet
		// periods, which must reach the next hourly retention pass, at 1-2 h)
		c.MaxAge = rapid.SampledFrom([]time.Duration{5 * time.Minute, 5 * time.Minute, 20 * time.Minute, 20 * time.Minute, time.Hour}).Draw(t, "maxAge")
		c.Started = true
		if c.BufSize == 0 || c.BufSize > 10 {
			c.BufSize = 10
		}
	}
	if rapid.IntRange(0, 4).Draw(t, "rotate?") == 0 && (c.MaxAge == 0 || rapid.IntRange(0, 3).Draw(t, "retentionWithoutRotation") == 0) {
		return // (retention only ever removes rotated files: most retention cases rotate)
	}
	c.MaxFileSize = rapid.SampledFrom(maxFileSizes).Draw(t, "maxFileSize")
	// every rotation of a compressing logger allocates a gzip writer (~1 MB): fewer, larger files there
	if c.Compress = rapid.IntRange(0, 3).Draw(t, "compress") == 0; c.Compress && c.MaxFileSize < 700 {
		c.MaxFileSize = rapid.SampledFrom([]int64{700, 1000, 1500}).Draw(t, "maxFileSizeGz")
	}
	proneOdds := 1
	if vstat.IsListed(sigRotSameSecond) {
		proneOdds = 3
	}
	c.Prone = rapid.IntRange(0, proneOdds).Draw(t, "prone") == 0
	if !c.Prone {
		// a flush of k records rotates at most once when the k-1 records after the first do not fill a file
		if min := int64((maxPerFlush(c.FlushEvery)-1)*recMax + 1); c.MaxFileSize < min {
			c.MaxFileSize = min
		}
	}
}

var ppsChoices = []int{1, 2, 3, 7, 64, 100, 1000, 1024, 1500, 4096}

// genCfg constructs (never filters) a port configuration.  Capacity per public IP is kept
// small (1..5) in most classes so that exhaustion, spill-over to the next public IP and
// re-use after release all happen with <= 6 subscribers.
func genCfg(bulk *bool) *rapid.Generator[natCfg] {
	return rapid.Custom(func(t *rapid.T) natCfg {
		c := natCfg{}
		c.NIPs = rapid.IntRange(1, 3).Draw(t, "nIPs")
		if bulk != nil {
			c.Bulk = *bulk
		} else {
			c.Bulk = rapid.Bool().Draw(t, "bulk")
		}
		c.BufSize = rapid.SampledFrom([]int{1, 5, 10, 20, 30, 50, 1, 5, 10, 20, 30, 100, 0}).Draw(t, "bufSize") // 0 = default 1000 (the only value cmd/bng uses)
		switch cls := rapid.SampledFrom([]string{"edge65535", "edge65535", "dividing", "nondividing", "nondividing", "low", "defaults", "roomy"}).Draw(t, "cfgClass"); cls {
		case "defaults":
			// what cmd/bng passes: only ports-per-subscriber (or nothing)
			c.PPS = rapid.SampledFrom([]int{0, 1024, 4096, 16384, 30000}).Draw(t, "pps")
			c.Class = "defaults"
		case "roomy":
			// many blocks per IP: nothing is ever exhausted
			c.PPS = rapid.SampledFrom(ppsChoices).Draw(t, "pps")
			c.RS = rapid.SampledFrom([]int{1, 1024, 32768}).Draw(t, "rs")
			c.RE = rapid.SampledFrom([]int{49151, 65534, 65535}).Draw(t, "re")
			c.Class = "roomy"
		default:
			pps := rapid.SampledFrom(ppsChoices).Draw(t, "pps")
			capacity := rapid.IntRange(1, 5).Draw(t, "capacity")
			rem := 0
			if cls == "nondividing" || (cls != "dividing" && rapid.Bool().Draw(t, "rem?")) {
				if pps > 1 {
					rem = rapid.SampledFrom([]int{1, pps / 2, pps - 1}).Draw(t, "rem")
					if rem == 0 {
						rem = 1
					}
				}
			}
			total := capacity*pps + rem
			c.PPS = pps
			switch cls {
			case "edge65535":
				c.RE = 65535
				c.RS = c.RE - total + 1
			case "low":
				c.RS = 1
				c.RE = c.RS + total - 1
			default:
				c.RS = rapid.SampledFrom([]int{1, 1024, 32768, 60000 - total, 65534 - total}).Draw(t, "rs")
				c.RE = c.RS + total - 1
			}
			c.Class = cls
			if rem != 0 && cls != "nondividing" {
				c.Class = cls + "+rem"
			}
		}
		return c
	})
}

// ---------------------------------------------------------------------------
// environment: a real nat.Manager (no eBPF maps loaded: every map field is nil and
// guarded by nil checks in manager.go, exactly as in the repository's unit tests)
// plus a real nat.Logger in JSON format writing to a file the harness reads back.

const nSubs = 6

var pubAddrs = []string{"203.0.113.1", "203.0.113.2", "203.0.113.3"}

func privIP(i int, form16 bool) net.IP {
	ip := net.IPv4(100, 64, 0, byte(i+1))
	if form16 {
		return ip // 16-byte form, as net.ParseIP returns
	}
	return ip.To4()
}

func privStr(i int) string { return fmt.Sprintf("100.64.0.%d", i+1) }

func subOfPriv(s string) int {
	for i := 0; i < nSubs; i++ {
		if privStr(i) == s {
			return i
		}
	}
	return -1
}

var fileCtr atomic.Int64

const logBase = "nat.log"

type env struct {
	cfg      natCfg
	m        *nat.Manager
	lg       *nat.Logger
	dir      string // a directory of its own: the log file plus everything rotation leaves next to it
	path     string
	pubs     []string
	inBubble bool // running inside a testing/synctest bubble: the clock is virtual, settle() joins compressors

	prevRot     map[string]string // rotated files seen at the last read: logical name -> content
	rotations   int               // number of rotated files that appeared so far
	trigAssign  bool              // some rotated set's next file begins with an assign record (the record that triggered the rotation)
	trigRelease bool
	multiFlush  bool // a rotation happened during a flush that wrote more than one record
	gzRead      bool // a compressed rotated file was read back
	sawRotated  bool // a rotated file was seen in the directory at some read
	prevLive    string // content of the live file at the last read of the whole set
	cache       map[string]cachedFile // rotated files already read, keyed by name; valid while size, mtime and inode are unchanged

	// without rotation (MaxFileSize == 0) the set is the one file: it is read incrementally through one handle
	rf   *os.File
	tail []byte   // bytes of an incomplete last line
	acc  []logRec // every record read so far
}

type cachedFile struct {
	size    int64
	mtime   time.Time
	ino     uint64
	content string
}

func newEnv(t fataler, dir string, cfg natCfg, zl *zap.Logger) *env {
	if zl == nil {
		zl = zap.NewNop()
	}
	m, err := nat.NewManager(nat.ManagerConfig{
		Interface:          "verif0",
		PortsPerSubscriber: cfg.PPS,
		PortRangeStart:     cfg.RS,
		PortRangeEnd:       cfg.RE,
		EnableLogging:      true,
		BulkLoggingEnabled: cfg.Bulk,
	}, zl)
	if err != nil {
		t.Fatalf("harness: NewManager rejected %v: %v", cfg, err)
		return nil
	}
	e := &env{cfg: cfg, m: m, prevRot: map[string]string{}, cache: map[string]cachedFile{}}
	if cfg.MaxFileSize > 0 || cfg.MaxAge > 0 {
		e.dir = filepath.Join(dir, fmt.Sprintf("natlog-%d", fileCtr.Add(1)))
		if err := os.Mkdir(e.dir, 0o755); err != nil {
			t.Fatalf("harness: mkdir: %v", err)
			return nil
		}
		e.path = filepath.Join(e.dir, logBase)
	} else {
		e.path = filepath.Join(dir, fmt.Sprintf("natlog-%d.json", fileCtr.Add(1)))
	}
	lg, err := nat.NewLogger(nat.LoggerConfig{Enabled: true, FilePath: e.path, Format: nat.LogFormatJSON,
		BufferSize: cfg.BufSize, BulkLogging: cfg.Bulk, MaxFileSize: cfg.MaxFileSize, Compress: cfg.Compress, MaxAge: cfg.MaxAge}, zap.NewNop())
	if err != nil {
		t.Fatalf("harness: NewLogger: %v", err)
		return nil
	}
	e.lg = lg
	m.SetLogger(lg)
	if e.dir == "" {
		if e.rf, err = os.Open(e.path); err != nil {
			t.Fatalf("harness: open log for reading: %v", err)
			return nil
		}
	}
	for i := 0; i < cfg.NIPs; i++ {
		if err := m.AddPublicIP(net.ParseIP(pubAddrs[i])); err != nil {
			t.Fatalf("harness: AddPublicIP: %v", err)
			return nil
		}
		e.pubs = append(e.pubs, pubAddrs[i])
	}
	return e
}

// start runs the logger's background flusher (only inside a bubble: its ticker must not outlive the case).
func (e *env) start() {
	if e.cfg.Started && e.inBubble {
		e.lg.Start()
	}
}

// stampMtimes gives every file the logger has written since the last call the mtime a real system would show: the
// current (virtual) time.  Inside a bubble the logger compares file mtimes with a virtual clock that starts in the year
// 2000, while the file system stamps writes with the real clock; without this no file would ever look old.  A rotated
// file keeps the stamp of its last write across the rename, as on a real system.
func (e *env) stampMtimes() {
	if e.cfg.MaxAge == 0 || !e.inBubble || e.dir == "" {
		return
	}
	ents, err := os.ReadDir(e.dir)
	if err != nil {
		return
	}
	now := time.Now()
	for _, en := range ents {
		if fi, err := en.Info(); err == nil && fi.ModTime().Year() >= 2020 {
			p := filepath.Join(e.dir, en.Name())
			_ = os.Chtimes(p, now, now)
		}
		// remember every rotated file as soon as it exists: a retention pass may remove it before the next read of the
		// whole set, and the model has to know which records went with it
		n := en.Name()
		if !strings.HasPrefix(n, logBase+".") {
			continue
		}
		logical := strings.TrimSuffix(n, ".gz")
		if _, ok := e.prevRot[logical]; ok {
			continue
		}
		b, err := os.ReadFile(filepath.Join(e.dir, n))
		if err != nil {
			continue
		}
		if strings.HasSuffix(n, ".gz") {
			zr, err := gzip.NewReader(bytes.NewReader(b))
			if err != nil {
				continue
			}
			if b, err = io.ReadAll(zr); err != nil {
				continue
			}
		}
		e.prevRot[logical] = string(b)
		e.rotations++
		e.sawRotated = true
	}
}

// advance lets d of virtual time pass.  A long advance is split: whatever the 5 s flush tick writes gets its mtime
// before the hours pass.
func (e *env) advance(d time.Duration) {
	if d <= 0 {
		return
	}
	// An hourly retention pass lies inside this sleep: write out what is buffered first (as the 5 s tick would), so that
	// every rotation happens where the harness sees the rotated file before a retention pass can remove it.  (Otherwise
	// a flush tick inside the sleep could rotate the live file and the pass inside the same sleep remove the rotated
	// file - legitimately, its last write being older than MaxAge - without the harness ever having seen it.)
	if since := time.Since(seqBase); e.cfg.MaxAge > 0 && e.inBubble && (since+d)/time.Hour > since/time.Hour {
		e.flush(true)
	}
	if e.cfg.MaxAge > 0 && d > 10*time.Second {
		time.Sleep(6 * time.Second)
		e.settle()
		e.stampMtimes()
		d -= 6 * time.Second
	}
	time.Sleep(d)
	e.settle()
	e.stampMtimes()
}

// settle waits until every goroutine of the case (flush loop, compressors) is idle.
func (e *env) settle() {
	if e.inBubble {
		synctest.Wait()
	}
}

// close stops the logger (flushes, closes the file, ends the flush loop) and removes the directory.
func (e *env) close() {
	if e.lg != nil {
		e.lg.Stop()
		e.lg = nil
	}
	e.settle()
	if e.rf != nil {
		e.rf.Close()
	}
	if e.dir != "" {
		os.RemoveAll(e.dir)
	} else {
		os.Remove(e.path)
	}
}

// logRec is one line of the NAT log, normalised over the two JSON shapes the logger writes.
type logRec struct {
	Kind   string // "assign" | "release" | "" (other record types)
	Priv   string
	Pub    string
	Start  int
	End    int
	HasEnd bool
	SubID  uint32
	TS     time.Time
	Raw    string
	File   string
}

type rawRec struct {
	Timestamp    *time.Time `json:"timestamp"`
	EventType    string     `json:"event_type"`
	SubscriberID uint32     `json:"subscriber_id"`
	PrivateIP    string     `json:"private_ip"`
	PublicIP     string     `json:"public_ip"`
	PortStart    *int       `json:"port_start"`
	PortEnd      *int       `json:"port_end"`
	PublicPort   *int       `json:"public_port"`
}

func parseRec(line []byte) (logRec, error) {
	var r rawRec
	if err := json.Unmarshal(line, &r); err != nil {
		return logRec{}, err
	}
	out := logRec{Priv: r.PrivateIP, Pub: r.PublicIP, SubID: r.SubscriberID, Raw: string(line)}
	if r.Timestamp != nil {
		out.TS = *r.Timestamp
	}
	switch r.EventType {
	case "port_block_assign", "allocate":
		out.Kind = "assign"
	case "port_block_release", "deallocate":
		out.Kind = "release"
	default:
		return out, nil
	}
	switch {
	case r.PortStart != nil:
		out.Start = *r.PortStart
	case r.PublicPort != nil:
		out.Start = *r.PublicPort
	default:
		out.Start = -1
	}
	if r.PortEnd != nil {
		out.End, out.HasEnd = *r.PortEnd, true
	}
	return out, nil
}

// logFile is one member of the rotated set.
type logFile struct {
	name    string // file name in the directory
	logical string // name without ".gz"
	stamp   string // the YYYYMMDD-HHMMSS part of a rotated file's name ("" for the current file / unknown names)
	seq     int    // numeric suffix after the stamp, if any
	current bool
	content string
}

// logState is what one read of the whole rotated set shows.
type logState struct {
	recs        []logRec
	files       []logFile
	overwritten string // a rotated file seen before whose content is now different
	removed     string // a rotated file seen before that is gone
	removedAll  map[string]string // every rotated file seen before that is gone -> the content it had
	liveMissing bool              // the live file (the configured path) does not exist
	nowStamped  bool   // a rotated file stamped with the current clock second exists
	rotated     bool   // the rotated set changed since the last read
}

// flush empties the logger's buffers as its ticker does.  Per step only the buffer of the configured mode is flushed
// (Logger.Flush re-allocates its whole BufferSize-entry buffer on every call, 200 KB at the default size); all=true
// flushes both, as the logger's own ticker and Stop do.
func (e *env) flush(all bool) {
	if all || !e.cfg.Bulk {
		e.lg.Flush()
	}
	if all || e.cfg.Bulk {
		e.lg.FlushPortBlocks()
	}
	e.settle()
	e.stampMtimes()
}

// readAll flushes the logger and reads back EVERY file of the rotated set: rotated files oldest first (by the
// time stamp in the name, then by a numeric suffix if there is one), compressed ones through gzip, the current
// file last.  pending is the number of records this flush is expected to write (classification only).
func (e *env) readAll(all bool, pending int) (*logState, error) {
	e.flush(all)
	if e.rf != nil {
		return e.readAppended()
	}
	ents, err := os.ReadDir(e.dir)
	if err != nil {
		return nil, fmt.Errorf("harness: read log directory: %w", err)
	}
	st := &logState{removedAll: map[string]string{}}
	have := map[string]bool{}
	for _, en := range ents {
		have[en.Name()] = true
	}
	st.liveMissing = !have[logBase]
	for _, en := range ents {
		n := en.Name()
		f := logFile{name: n, logical: n}
		switch {
		case n == logBase:
			f.current = true
		case strings.HasPrefix(n, logBase+"."):
			e.sawRotated = true
			suffix := n[len(logBase)+1:]
			if strings.HasSuffix(suffix, ".gz") {
				suffix = strings.TrimSuffix(suffix, ".gz")
				f.logical = strings.TrimSuffix(n, ".gz")
			}
			parts := strings.SplitN(suffix, ".", 2)
			if _, perr := time.Parse("20060102-150405", parts[0]); perr == nil {
				f.stamp = parts[0]
				if len(parts) == 2 {
					if k, cerr := strconv.Atoi(parts[1]); cerr == nil {
						f.seq = k
					} else {
						f.stamp = ""
					}
				}
			}
		default:
			continue
		}
		// a rotated file is immutable: it is read again only when size, mtime or inode changed (a rename onto it does that)
		var key cachedFile
		if !f.current {
			if fi, ierr := en.Info(); ierr == nil {
				key = cachedFile{size: fi.Size(), mtime: fi.ModTime()}
				if sys, ok := fi.Sys().(*syscall.Stat_t); ok {
					key.ino = sys.Ino
				}
				if c, ok := e.cache[n]; ok && c.size == key.size && c.mtime.Equal(key.mtime) && c.ino == key.ino && key.ino != 0 {
					if strings.HasSuffix(n, ".gz") {
						e.gzRead = true
					}
					f.content = c.content
					st.files = append(st.files, f)
					continue
				}
			}
		}
		b, err := os.ReadFile(filepath.Join(e.dir, n))
		if err != nil {
			return nil, fmt.Errorf("harness: read %s: %w", n, err)
		}
		if strings.HasSuffix(n, ".gz") {
			zr, err := gzip.NewReader(bytes.NewReader(b))
			if err != nil {
				return st, fmt.Errorf("unparsable: compressed log file %s: %v", n, err)
			}
			if b, err = io.ReadAll(zr); err != nil {
				return st, fmt.Errorf("unparsable: compressed log file %s: %v", n, err)
			}
			e.gzRead = true
		}
		if !f.current && key.ino != 0 {
			key.content = string(b)
			e.cache[n] = key
		}
		f.content = string(b)
		st.files = append(st.files, f)
	}
	sort.SliceStable(st.files, func(i, j int) bool {
		a, b := st.files[i], st.files[j]
		if a.current != b.current {
			return b.current
		}
		if (a.stamp == "") != (b.stamp == "") {
			return a.stamp == "" // names the harness cannot date come first, in name order
		}
		if a.stamp != b.stamp {
			return a.stamp < b.stamp
		}
		if a.seq != b.seq {
			return a.seq < b.seq
		}
		return a.name > b.name // X.gz before X (both exist only while / after a failed compression)
	})
	now := time.Now().Format("20060102-150405")
	nowRot := map[string]string{}
	for fi, f := range st.files {
		if !f.current {
			if old, ok := nowRot[f.logical]; ok {
				nowRot[f.logical] = old + f.content
			} else {
				nowRot[f.logical] = f.content
			}
			if f.stamp == now {
				st.nowStamped = true
			}
		}
		sc := bufio.NewReader(strings.NewReader(f.content))
		first := true
		for {
			line, err := sc.ReadBytes('\n')
			line = bytes.TrimSpace(line)
			if len(line) > 0 {
				if err != nil {
					return st, fmt.Errorf("unparsable: %s ends in an incomplete line %q", f.name, line)
				}
				r, perr := parseRec(line)
				if perr != nil {
					return st, fmt.Errorf("unparsable: %s: %q: %v", f.name, line, perr)
				}
				r.File = f.name
				st.recs = append(st.recs, r)
				if first && fi > 0 {
					// the record that pushed the previous file over the limit is the first one of the next file
					switch r.Kind {
					case "assign":
						e.trigAssign = true
					case "release":
						e.trigRelease = true
					}
				}
				first = false
			}
			if err != nil {
				break
			}
		}
	}
	for name, old := range e.prevRot {
		cur, ok := nowRot[name]
		switch {
		case !ok:
			st.removed = name
			st.removedAll[name] = old
		case cur != old:
			st.overwritten = name
		}
	}
	// The live file as it was last seen may have been rotated away AND removed (retention) since: a flush tick inside
	// a long sleep rotates it, the hourly pass inside the same sleep finds its last write older than MaxAge.  Its
	// content is then in no file any more and must be accounted for like any other removed rotated file.
	curLive := ""
	for _, f := range st.files {
		if f.current {
			curLive = f.content
		}
	}
	if e.prevLive != "" && !strings.HasPrefix(curLive, e.prevLive) {
		found := false
		for _, c := range nowRot {
			if strings.HasPrefix(c, e.prevLive) {
				found = true
			}
		}
		for _, c := range st.removedAll {
			if strings.HasPrefix(c, e.prevLive) {
				found = true
			}
		}
		if !found {
			st.removed = "<the live file as last seen, rotated since>"
			st.removedAll[st.removed] = e.prevLive
		}
	}
	e.prevLive = curLive
	for name := range nowRot {
		if _, ok := e.prevRot[name]; !ok {
			st.rotated = true
			e.rotations++
		}
	}
	if st.overwritten != "" {
		st.rotated = true
	}
	if st.rotated {
		if pending > 1 {
			e.multiFlush = true
		}
	}
	e.prevRot = nowRot
	return st, nil
}

// ---------------------------------------------------------------------------
// the model

type block struct {
	Pub        string
	Start, End int
	SubID      uint32
	seq        int // allocation sequence number (for the "most recent on its public IP" rule)
}

func (b block) String() string { return fmt.Sprintf("%s:%d-%d", b.Pub, b.Start, b.End) }

type logIv struct {
	block
	Priv   int
	HasEnd bool
}

type model struct {
	cfg          natCfg
	rs, re, pps  int
	pubs         []string
	live         map[int]block // subscriber -> block it was handed and has not released
	subID        map[int]uint32
	logTab       []logIv // replayed log: open attributions
	strictLog    bool    // interpret records literally (no out-of-band knowledge of the block size)
	ops          []string
	seq          int
	midRelease   bool // a subscriber that was not the most recent one on its public IP was deallocated
	nt           bool // ... and an allocation of a new block followed
	reuse        bool // a new block re-used ports released earlier
	exhausted    bool
	spill        bool // a block was handed out on a public IP other than the first
	everReleased map[string]bool
	dead         bool
	hitSig       string
	violSig      string // first violation (reported outside the bubble through vstat.Fail by report)
	violMsg      string
	wantA, wantR map[int]int // blocks handed out / released per subscriber = records the log must hold
	pending      int         // records produced since the last flush
	forgotA      map[int]int // records that aged out with a rotated file older than MaxAge (what retention documents)
	forgotR      map[int]int
	forgotAssign map[string]int // "sub/pub/start" of aged-out assign records
	forgotLeft   map[string]int // per replay: aged-out assign records not yet matched by a release record
	agedLive     map[int]bool   // holders whose assign record aged out while they hold the block (KF-C10-5, listed)
	retRemoved   bool           // a retention pass removed an aged rotated file
	retQuiet     bool           // the clock was advanced by more than MaxAge in one go
	retNear      bool           // operations were placed just before an hourly retention pass
	sinceFlush   int         // operations since the last flush
}

func newModel(cfg natCfg, pubs []string, strictLog bool) *model {
	m := &model{cfg: cfg, pubs: pubs, live: map[int]block{}, subID: map[int]uint32{}, strictLog: strictLog, everReleased: map[string]bool{},
		wantA: map[int]int{}, wantR: map[int]int{}, forgotA: map[int]int{}, forgotR: map[int]int{}, forgotAssign: map[string]int{}, agedLive: map[int]bool{}}
	m.rs, m.re, m.pps = cfg.eff()
	return m
}

func (m *model) logf(f string, a ...any) { m.ops = append(m.ops, fmt.Sprintf(f, a...)) }

// fail records the first violation and ends the case.  Nothing is reported from here: histories run inside a
// testing/synctest bubble, where rapid's Fatalf must not be called; report() hands the verdict to vstat.Fail
// afterwards (which counts a listed known finding and fails the test on anything else).
func (m *model) fail(t fataler, sig, f string, a ...any) {
	if m.dead {
		return
	}
	m.dead = true
	m.hitSig = sig
	m.violSig = sig
	m.violMsg = fmt.Sprintf("%s\nconfig: %v\nhistory: %s", fmt.Sprintf(f, a...), m.cfg, strings.Join(m.ops, "; "))
}

// report must be called once per case, outside the bubble.
func (m *model) report(t fataler) {
	t.Helper()
	if m.violSig != "" {
		vstat.Fail(t, m.violSig, "%s", m.violMsg)
	}
}

func (m *model) liveOn(pub string) []block {
	var out []block
	for _, b := range m.live {
		if b.Pub == pub {
			out = append(out, b)
		}
	}
	sort.Slice(out, func(i, j int) bool { return out[i].Start < out[j].Start })
	return out
}

// hasHole: the live blocks on pub do not form a contiguous run from the start of the range,
// i.e. some block below a live block has been released and not re-used.
func (m *model) hasHole(pub string) bool {
	for i, b := range m.liveOn(pub) {
		if b.Start != m.rs+i*m.pps {
			return true
		}
	}
	return false
}

func (m *model) hasCapacity() bool {
	c := m.cfg.capPerIP()
	for _, p := range m.pubs {
		if len(m.liveOn(p)) < c {
			return true
		}
	}
	return false
}

// firstFitPub predicts (for generator steering only, never for the oracle) the public IP a new block will come from.
func (m *model) firstFitPub() string {
	c := m.cfg.capPerIP()
	for _, p := range m.pubs {
		if len(m.liveOn(p)) < c {
			return p
		}
	}
	return ""
}

func overlaps(a, b block) bool { return a.Pub == b.Pub && a.Start <= b.End && b.Start <= a.End }

// checkNewBlock applies the statement's clauses to a block handed to a subscriber that held none.
func (m *model) checkNewBlock(t fataler, sub int, b block) {
	t.Helper()
	known := false
	for _, p := range m.pubs {
		if p == b.Pub {
			known = true
		}
	}
	if !known {
		m.fail(t, sigBadAlloc, "alloc(s%d) -> %v: public address is not in the configured pool %v", sub, b, m.pubs)
		return
	}
	if b.End-b.Start+1 != m.pps {
		m.fail(t, sigSize, "alloc(s%d) -> %v: %d ports, configured ports-per-subscriber %d", sub, b, b.End-b.Start+1, m.pps)
		return
	}
	if b.Start < m.rs || b.End > m.re {
		m.fail(t, sigOutOfRange, "alloc(s%d) -> %v outside the configured port range %d-%d", sub, b, m.rs, m.re)
		return
	}
	n := len(m.liveOn(b.Pub))
	hole := m.hasHole(b.Pub)
	for o, ob := range m.live {
		if o != sub && overlaps(b, ob) {
			sig := sigOverlapOther
			if hole && b.Start == m.rs+n*m.pps {
				// shape of the listed defect: start = rangeStart + (current number of blocks)*size
				// after a block below a live one was released
				sig = sigOverlapCount
			}
			m.fail(t, sig, "alloc(s%d) -> %v overlaps the live block %v of s%d", sub, b, ob, o)
			return
		}
	}
	for o, id := range m.subID {
		if o != sub && id == b.SubID {
			m.fail(t, sigSubIDShared, "alloc(s%d) carries subscriber id %d which identifies s%d", sub, id, o)
			return
		}
	}
}

func toBlock(a *nat.Allocation) block {
	pub := "<nil>"
	if a.PublicIP != nil {
		pub = a.PublicIP.String()
	}
	return block{Pub: pub, Start: int(a.PortStart), End: int(a.PortEnd), SubID: a.SubscriberID}
}

// onAllocResult feeds the result of AllocateNAT(sub) to the model.  It returns true when a new block was handed out.
func (m *model) onAllocResult(t fataler, sub int, a *nat.Allocation, err error) bool {
	t.Helper()
	held, holds := m.live[sub]
	if err != nil {
		m.logf("alloc(s%d)=err", sub)
		if holds {
			m.fail(t, sigReaskFailed, "alloc(s%d) failed (%v) although it holds %v", sub, err, held)
			return false
		}
		m.exhausted = true
		if m.hasCapacity() {
			m.fail(t, sigSpurious, "alloc(s%d) failed (%v) although a public address has fewer than %d live blocks: %v", sub, err, m.cfg.capPerIP(), m.live)
		}
		return false
	}
	if a == nil || a.PublicIP == nil || a.PrivateIP == nil {
		m.logf("alloc(s%d)=malformed", sub)
		m.fail(t, sigBadAlloc, "alloc(s%d) succeeded with a nil allocation / address: %+v", sub, a)
		return false
	}
	b := toBlock(a)
	m.logf("alloc(s%d)=%v", sub, b)
	if a.PrivateIP.String() != privStr(sub) {
		m.fail(t, sigBadAlloc, "alloc(s%d) returned an allocation for private address %v", sub, a.PrivateIP)
		return false
	}
	if holds {
		if b.Pub != held.Pub || b.Start != held.Start || b.End != held.End || b.SubID != held.SubID {
			m.fail(t, sigChanged, "alloc(s%d) while holding %v (id %d) returned %v (id %d)", sub, held, held.SubID, b, b.SubID)
		}
		return false
	}
	if m.midRelease {
		m.nt = true
	}
	m.checkNewBlock(t, sub, b)
	if m.dead {
		return false
	}
	if b.Pub != m.pubs[0] {
		m.spill = true
	}
	if m.everReleased[fmt.Sprintf("%s/%d", b.Pub, b.Start)] {
		m.reuse = true
	}
	m.seq++
	b.seq = m.seq
	m.live[sub] = b
	m.subID[sub] = b.SubID
	m.wantA[sub]++
	m.pending++
	return true
}

// onDealloc feeds DeallocateNAT(sub) to the model; returns true when a block was released.
func (m *model) onDealloc(t fataler, sub int, err error) bool {
	t.Helper()
	m.logf("dealloc(s%d)", sub)
	if err != nil {
		m.fail(t, sigDeallocErr, "dealloc(s%d) returned %v", sub, err)
		return false
	}
	b, ok := m.live[sub]
	if !ok {
		return false
	}
	for _, ob := range m.liveOn(b.Pub) {
		if ob.seq > b.seq {
			m.midRelease = true
		}
	}
	m.everReleased[fmt.Sprintf("%s/%d", b.Pub, b.Start)] = true
	delete(m.live, sub)
	delete(m.agedLive, sub)
	m.wantR[sub]++
	m.pending++
	return true
}

// checkTable: GetAllocation / GetAllocationCount must agree with what subscribers were handed.
func (m *model) checkTable(t fataler, mgr *nat.Manager) {
	t.Helper()
	if m.dead {
		return
	}
	for s := 0; s < nSubs; s++ {
		got := mgr.GetAllocation(privIP(s, s%2 == 0))
		want, holds := m.live[s]
		switch {
		case !holds && got != nil:
			m.fail(t, sigGetAlloc, "GetAllocation(s%d) = %v although the subscriber holds nothing", s, toBlock(got))
			return
		case holds && got == nil:
			m.fail(t, sigGetAlloc, "GetAllocation(s%d) = nil although the subscriber was handed %v and never released it", s, want)
			return
		case holds:
			g := toBlock(got)
			if g.Pub != want.Pub || g.Start != want.Start || g.End != want.End || g.SubID != want.SubID {
				m.fail(t, sigGetAlloc, "GetAllocation(s%d) = %v (id %d), the subscriber was handed %v (id %d)", s, g, g.SubID, want, want.SubID)
				return
			}
		}
	}
	if n := mgr.GetAllocationCount(); n != len(m.live) {
		m.fail(t, sigGetAlloc, "GetAllocationCount() = %d, %d subscribers hold a block", n, len(m.live))
	}
}

// applyLog replays new log records into the attribution table.
func (m *model) applyLog(t fataler, recs []logRec) {
	t.Helper()
	for _, r := range recs {
		if m.dead {
			return
		}
		if r.Kind == "" {
			continue
		}
		if r.TS.IsZero() || r.TS.Year() < 2000 {
			m.fail(t, sigLogTimestamp, "log record without a usable timestamp: %s", r.Raw)
			return
		}
		sub := subOfPriv(r.Priv)
		if sub < 0 || r.Start < 0 || r.Pub == "" {
			m.fail(t, sigLogUnparsable, "log record does not name subscriber / public address / port: %s", r.Raw)
			return
		}
		switch r.Kind {
		case "assign":
			iv := logIv{block: block{Pub: r.Pub, Start: r.Start, End: r.End, SubID: r.SubID}, Priv: sub, HasEnd: r.HasEnd}
			if !r.HasEnd {
				if m.strictLog {
					iv.End = r.Start // the record names one port; the extent of the block is not in the log
				} else {
					iv.End = r.Start + m.pps - 1 // out-of-band knowledge of the configured block size
				}
			}
			m.logTab = append(m.logTab, iv)
		case "release":
			idx := -1
			for i, iv := range m.logTab {
				if iv.Pub == r.Pub && iv.Start == r.Start {
					if idx < 0 || iv.Priv == sub {
						idx = i
					}
				}
			}
			if k := fmt.Sprintf("%d/%s/%d", sub, r.Pub, r.Start); idx < 0 && m.forgotLeft[k] > 0 {
				m.forgotLeft[k]-- // the assign record of this release aged out with its file (retention)
				continue
			}
			if idx < 0 {
				m.fail(t, sigLogRelease, "release record for a block the log never assigned: %s", r.Raw)
				return
			}
			if m.logTab[idx].Priv != sub {
				m.fail(t, sigLogMisattr, "release record %s names s%d but the log assigned that block to s%d", r.Raw, sub, m.logTab[idx].Priv)
				return
			}
			m.logTab = append(m.logTab[:idx], m.logTab[idx+1:]...)
		}
	}
}

// checkLog: every port of every live block is attributed by the replayed log to exactly its holder, and
// the replayed log attributes nothing to a subscriber that holds nothing.
func (m *model) checkLog(t fataler) {
	t.Helper()
	if m.dead {
		return
	}
	for s := 0; s < nSubs; s++ {
		b, holds := m.live[s]
		if !holds {
			continue
		}
		var cover []logIv
		for _, iv := range m.logTab {
			if iv.Pub == b.Pub && iv.Start <= b.End && b.Start <= iv.End {
				cover = append(cover, iv)
			}
		}
		if len(cover) == 0 && m.forgotAssign[fmt.Sprintf("%d/%s/%d", s, b.Pub, b.Start)] > 0 {
			// Retention removed the rotated file that held the assign record of a block that is STILL held: from now on
			// no port of it can be attributed.  Listed (KF-C10-5): counted once per holder, the holder is left out.
			if !vstat.IsListed(sigRetAgedLive) {
				m.fail(t, sigRetAgedLive, "retention (MaxAge=%s) removed the only record that attributes %v to s%d, which still holds it", m.cfg.MaxAge, b, s)
				return
			}
			if !m.agedLive[s] {
				m.agedLive[s] = true
				vstat.Known(sigRetAgedLive)
			}
			continue
		}
		if len(cover) == 0 {
			m.fail(t, sigLogNotAttr, "no log record attributes %v (held by s%d) to anybody", b, s)
			return
		}
		for _, iv := range cover {
			if iv.Priv != s {
				m.fail(t, sigLogMisattr, "the log attributes %s:%d-%d to s%d while s%d holds %v", iv.Pub, iv.Start, iv.End, iv.Priv, s, b)
				return
			}
		}
		if len(cover) > 1 {
			m.fail(t, sigLogMisattr, "the log holds %d open records for %v of s%d", len(cover), b, s)
			return
		}
		iv := cover[0]
		if iv.Start > b.Start || iv.End < b.End {
			if !iv.HasEnd && iv.Start == b.Start {
				m.fail(t, sigLogNoExtent, "the allocate record of s%d names only port %d of %v: ports %d-%d cannot be attributed from the log", s, iv.Start, b, b.Start+1, b.End)
				return
			}
			m.fail(t, sigLogNotAttr, "the log attributes only %d-%d of %v to s%d", iv.Start, iv.End, b, s)
			return
		}
		if iv.Start != b.Start || iv.End != b.End {
			m.fail(t, sigLogMisattr, "the log attributes %s:%d-%d to s%d which holds only %v", iv.Pub, iv.Start, iv.End, s, b)
			return
		}
		if iv.SubID != b.SubID {
			m.fail(t, sigLogSubID, "assign record of s%d carries subscriber id %d, the allocation carries %d", s, iv.SubID, b.SubID)
			return
		}
	}
	for _, iv := range m.logTab {
		b, holds := m.live[iv.Priv]
		if !holds || b.Pub != iv.Pub || b.Start != iv.Start {
			m.fail(t, sigLogStale, "the log still attributes %s:%d-%d to s%d which does not hold it (live: %v)", iv.Pub, iv.Start, iv.End, iv.Priv, m.live)
			return
		}
	}
}

// step runs one operation against the real manager and applies every oracle.  The log is flushed and read back
// after every cfg.FlushEvery-th operation (default: every operation).
func (m *model) step(t fataler, e *env, alloc bool, sub int, form16 bool) {
	t.Helper()
	if m.dead {
		return
	}
	if alloc {
		a, err := e.m.AllocateNAT(privIP(sub, form16))
		m.onAllocResult(t, sub, a, err)
	} else {
		err := e.m.DeallocateNAT(privIP(sub, form16))
		m.onDealloc(t, sub, err)
	}
	e.settle()
	e.stampMtimes()
	if m.dead {
		return
	}
	m.checkTable(t, e.m)
	if m.dead {
		return
	}
	m.sinceFlush++
	if m.sinceFlush >= m.cfg.flushEvery() {
		m.syncLog(t, e, false)
	}
}

// syncLog flushes the logger, reads the WHOLE rotated set back and judges it:
//   - every block handed out and every block released so far has produced exactly one record;
//   - replayed in file order, the records attribute every port of every live block to its holder and nothing else.
func (m *model) syncLog(t fataler, e *env, all bool) {
	t.Helper()
	pending := m.pending
	m.pending, m.sinceFlush = 0, 0
	st, err := e.readAll(all, pending)
	// A case that may put two rotations into one clock second (cfg.Prone) and did rotate: lost or mangled records
	// are the name collision of KF-C10-4 (the second rename replaces the first rotated file, or races its compressor,
	// in a different way on every run).  Every other case is built so that no two rotations share a second.
	proneRot := m.cfg.Prone && e.sawRotated && vstat.IsListed(sigRotSameSecond) // KF-C10-4 is repaired: the label is used only while it is listed
	if err != nil {
		if proneRot {
			m.fail(t, sigRotSameSecond, "%v (rotations within one clock second are possible in this case)", err)
			return
		}
		m.fail(t, sigLogUnparsable, "%v", err)
		return
	}
	if st.liveMissing && e.dir != "" {
		if m.cfg.MaxAge > 0 {
			m.fail(t, sigRetLiveFile, "the live log file %s does not exist any more (retention with MaxAge=%s is running; the logger keeps writing to its descriptor)", logBase, m.cfg.MaxAge)
		} else {
			m.fail(t, sigLiveMissing, "the live log file %s does not exist", logBase)
		}
		return
	}
	if m.cfg.MaxAge > 0 && e.inBubble && len(st.removedAll) > 0 {
		// Retention may remove rotated files whose last write is older than MaxAge - and nothing younger.  The records of
		// such a file are forgotten by the model (and only those).
		now := time.Now()
		names := make([]string, 0, len(st.removedAll))
		for n := range st.removedAll {
			names = append(names, n)
		}
		sort.Strings(names)
		for _, n := range names {
			var recs []logRec
			for _, line := range strings.Split(st.removedAll[n], "\n") {
				if line = strings.TrimSpace(line); line != "" {
					if r, err := parseRec([]byte(line)); err == nil && r.Kind != "" {
						recs = append(recs, r)
					}
				}
			}
			for _, r := range recs {
				if r.TS.After(now.Add(-m.cfg.MaxAge)) {
					m.fail(t, sigRetYoung, "rotated file %s is gone although it held a record only %s old (MaxAge=%s): %s", n, now.Sub(r.TS), m.cfg.MaxAge, r.Raw)
					return
				}
			}
			for _, r := range recs {
				sub := subOfPriv(r.Priv)
				if sub < 0 {
					continue
				}
				if r.Kind == "assign" {
					m.forgotA[sub]++
					m.forgotAssign[fmt.Sprintf("%d/%s/%d", sub, r.Pub, r.Start)]++
				} else {
					m.forgotR[sub]++
				}
			}
			m.retRemoved = true
		}
		st.removed = ""
	}
	nA, nR := map[int]int{}, map[int]int{}
	for _, r := range st.recs {
		if sub := subOfPriv(r.Priv); sub >= 0 {
			switch r.Kind {
			case "assign":
				nA[sub]++
			case "release":
				nR[sub]++
			}
		}
	}
	files := func() string {
		var sb strings.Builder
		for _, f := range st.files {
			fmt.Fprintf(&sb, "\n  %s (%d bytes, %d lines)", f.name, len(f.content), strings.Count(f.content, "\n"))
		}
		return sb.String()
	}
	for s := 0; s < nSubs; s++ {
		for _, k := range []struct {
			kind      string
			got, want int
		}{{"allocate", nA[s], m.wantA[s] - m.forgotA[s]}, {"deallocate", nR[s], m.wantR[s] - m.forgotR[s]}} {
			switch {
			case k.got < k.want:
				sig := sigLogMissing + "/" + k.kind
				why := ""
				switch {
				case proneRot:
					sig = sigRotSameSecond
					why = " (rotations within one clock second are possible in this case)"
				case st.overwritten != "":
					sig = sigRotOverwritten
					why = fmt.Sprintf(" (the content of rotated file %s was replaced)", st.overwritten)
				case st.removed != "":
					sig = sigRotRemoved
					why = fmt.Sprintf(" (rotated file %s has disappeared)", st.removed)
				}
				m.fail(t, sig, "s%d: %d block(s) %sd so far, the log files hold %d such record(s)%s; files:%s", s, k.want, k.kind, k.got, why, files())
				return
			case k.got > k.want:
				m.fail(t, sigLogDup+"/"+k.kind, "s%d: %d block(s) %sd so far, the log files hold %d such records; files:%s", s, k.want, k.kind, k.got, files())
				return
			}
		}
	}
	m.logTab = nil
	m.forgotLeft = map[string]int{}
	for k, v := range m.forgotAssign {
		m.forgotLeft[k] = v
	}
	m.applyLog(t, st.recs)
	m.checkLog(t)
}

// finish flushes everything the logger still buffers (both buffers) and re-checks the whole log.
func (m *model) finish(t fataler, e *env) {
	t.Helper()
	if m.dead {
		return
	}
	m.syncLog(t, e, true)
}

func (m *model) classes() []string {
	cls := []string{"cfg:" + m.cfg.Class, fmt.Sprintf("ips:%d", m.cfg.NIPs)}
	if m.cfg.Bulk {
		cls = append(cls, "log:bulk")
	} else if m.strictLog {
		cls = append(cls, "log:per-allocation/literal")
	} else {
		cls = append(cls, "log:per-allocation/size-known")
	}
	if m.midRelease {
		cls = append(cls, "middle-release")
	}
	if m.nt {
		cls = append(cls, "nt:middle-release-then-allocate")
	}
	if m.reuse {
		cls = append(cls, "ports-reused")
	}
	if m.exhausted {
		cls = append(cls, "exhausted")
	}
	if m.spill {
		cls = append(cls, "spill-to-next-ip")
	}
	if m.re == 65535 {
		cls = append(cls, "edge:65535")
	}
	if (m.re-m.rs+1)%m.pps != 0 {
		cls = append(cls, "non-dividing")
	}
	if m.retQuiet {
		cls = append(cls, "retention:quiet-period>MaxAge")
	}
	if m.retRemoved {
		cls = append(cls, "retention:aged-rotated-file-removed")
	}
	if m.retNear {
		cls = append(cls, "retention:writes-just-before-a-pass")
	}
	if len(m.agedLive) > 0 {
		cls = append(cls, "kf:"+sigRetAgedLive)
	}
	if m.dead {
		cls = append(cls, "kf:"+m.hitSig)
	}
	return cls
}

// readAppended: the non-rotating logger's whole set is one append-only file.
func (e *env) readAppended() (*logState, error) {
	b, err := io.ReadAll(e.rf)
	if err != nil {
		return nil, fmt.Errorf("harness: read log: %w", err)
	}
	b = append(e.tail, b...)
	e.tail = nil
	for len(b) > 0 {
		i := bytes.IndexByte(b, '\n')
		if i < 0 {
			e.tail = append([]byte{}, b...)
			break
		}
		line := bytes.TrimSpace(b[:i])
		b = b[i+1:]
		if len(line) == 0 {
			continue
		}
		r, perr := parseRec(line)
		if perr != nil {
			return &logState{recs: e.acc}, fmt.Errorf("unparsable: %q: %v", line, perr)
		}
		r.File = filepath.Base(e.path)
		e.acc = append(e.acc, r)
	}
	return &logState{recs: e.acc}, nil
}

// rotClasses describes what the logger's rotation did in this case (measured from the files, not predicted).
func (e *env) rotClasses() []string {
	var cls []string
	switch {
	case e.cfg.MaxFileSize == 0:
		cls = append(cls, "rot:off")
	case e.rotations == 0:
		cls = append(cls, "rot:on/0-rotations")
	case e.rotations == 1:
		cls = append(cls, "rot:on/1-rotation")
	default:
		cls = append(cls, "rot:on/2+rotations")
	}
	if e.trigAssign {
		cls = append(cls, "rot-trigger:allocate-record")
	}
	if e.trigRelease {
		cls = append(cls, "rot-trigger:release-record")
	}
	if e.multiFlush {
		cls = append(cls, "rot-in-multi-record-flush")
	}
	if e.gzRead {
		cls = append(cls, "rot:compressed-file-read")
	}
	if e.cfg.Started && e.inBubble {
		cls = append(cls, "logger:started")
	}
	if e.cfg.flushEvery() > 1 {
		cls = append(cls, "flush:every-k-ops")
	}
	if e.cfg.MaxFileSize != 0 && e.cfg.Prone {
		cls = append(cls, "rot:same-second-prone")
	}
	if e.cfg.MaxAge != 0 && e.inBubble {
		cls = append(cls, "retention:on")
	}
	return cls
}

func (m *model) record(prefix string, extra ...string) {
	ops := m.ops
	cfg := m.cfg
	cls := append(m.classes(), extra...)
	vstat.Case(m.nt, vstat.Hash(prefix, cfg.String(), m.strictLog, strings.Join(ops, ";")), func() any {
		return map[string]any{"test": prefix, "config": cfg.String(), "ops": ops}
	}, cls...)
}
