package c10

import (
	"testing"

	"pgregory.net/rapid"

	"bngverif/internal/vstat"
)

// runSeq draws one history over <= 6 subscribers and runs it step by step against the model.
//
// Steering: while the count-derived-start overlap (KF-C10-1) is listed, three quarters of the
// cases avoid asking for a new block when the public address that will serve it has a released
// block below a live one (so histories reach depth); one quarter ("exercise") is unconstrained.
// While the missing block extent of the per-allocation record (KF-C10-3) is listed, per-allocation
// logs are replayed with the configured block size known out of band except in a "literal" class.
func runSeq(t *testing.T, rt *rapid.T, dir string, name string, bulk bool) {
	cfg := genCfg(&bulk).Draw(rt, "cfg")
	exercise := rapid.IntRange(0, 3).Draw(rt, "exerciseKF1") == 0
	avoid := vstat.IsListed(sigOverlapCount) && !exercise
	strict := true
	if !bulk && vstat.IsListed(sigLogNoExtent) {
		strict = rapid.IntRange(0, 4).Draw(rt, "literalLog") == 0
	}
	e := newEnv(rt, dir, cfg, nil)
	defer e.close()
	m := newModel(cfg, e.pubs, strict)
	n := rapid.IntRange(1, 40).Draw(rt, "nOps")
	for i := 0; i < n && !m.dead; i++ {
		var liveSubs, freeSubs []int
		for s := 0; s < nSubs; s++ {
			if _, ok := m.live[s]; ok {
				liveSubs = append(liveSubs, s)
			} else {
				freeSubs = append(freeSubs, s)
			}
		}
		kinds := []string{"dealloc", "any"}
		if len(freeSubs) > 0 {
			blocked := false
			if avoid {
				if p := m.firstFitPub(); p != "" && m.hasHole(p) {
					blocked = true
				}
			}
			if !blocked {
				kinds = append(kinds, "new", "new", "new")
			}
		}
		if len(liveSubs) > 0 {
			kinds = append(kinds, "reask", "dealloc")
		}
		form16 := rapid.Bool().Draw(rt, "form16")
		switch rapid.SampledFrom(kinds).Draw(rt, "op") {
		case "new":
			m.step(rt, e, true, rapid.SampledFrom(freeSubs).Draw(rt, "sub"), form16)
		case "reask":
			m.step(rt, e, true, rapid.SampledFrom(liveSubs).Draw(rt, "sub"), form16)
		case "dealloc":
			if len(liveSubs) > 0 {
				m.step(rt, e, false, rapid.SampledFrom(liveSubs).Draw(rt, "sub"), form16)
			} else {
				m.step(rt, e, false, rapid.IntRange(0, nSubs-1).Draw(rt, "sub"), form16)
			}
		default: // deallocate of anybody (a no-op when nothing is held: DHCP RELEASE without NAT state)
			m.step(rt, e, false, rapid.IntRange(0, nSubs-1).Draw(rt, "sub"), form16)
		}
	}
	m.finish(rt, e)
	extra := []string{}
	if avoid {
		extra = append(extra, "steer:avoid-KF1")
	}
	m.record(name, extra...)
}

// TestPropSeqBulk: random histories, RFC 6908 bulk (port-block) log records.
func TestPropSeqBulk(t *testing.T) {
	vstat.Checks(2000, 60000)
	dir := t.TempDir()
	rapid.Check(t, func(rt *rapid.T) { runSeq(t, rt, dir, "seq-bulk", true) })
}

// TestPropSeqPerAllocation: random histories, per-allocation ("allocate"/"deallocate") log records.
func TestPropSeqPerAllocation(t *testing.T) {
	vstat.Checks(2000, 60000)
	dir := t.TempDir()
	rapid.Check(t, func(rt *rapid.T) { runSeq(t, rt, dir, "seq-per-allocation", false) })
}
