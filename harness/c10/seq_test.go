package c10

import (
	"fmt"
	"testing"
	"testing/synctest"
	"time"

	"pgregory.net/rapid"

	"bngverif/internal/vstat"
)

// seqOp is one pre-drawn step: everything is generated outside the bubble; inside, the raw numbers are
// interpreted against the model's state (kind = Kind mod #admissible kinds, subscriber = Sub mod #candidates).
type seqOp struct {
	Kind, Sub int
	Form16    bool
	DT        int // seconds of virtual time before the operation
	Age       int // retention cases: 1 = half of MaxAge passes first, 2 = a quiet period longer than MaxAge that reaches past the next hourly retention pass (at most twice per history), 3 = up to a minute or so before the next hourly pass (at most twice)
}

var seqBase = time.Date(2000, 1, 1, 0, 0, 0, 0, time.UTC) // a bubble's clock starts here

// runSeq draws one history over <= 6 subscribers and runs it step by step against the model, inside a
// testing/synctest bubble (the logger stamps rotated files with the clock; its flusher and its compressors
// are goroutines the case must join).
//
// Steering: while the count-derived-start overlap (KF-C10-1) is listed, three quarters of the
// cases avoid asking for a new block when the public address that will serve it has a released
// block below a live one (so histories reach depth); one quarter ("exercise") is unconstrained.
// While the missing block extent of the per-allocation record (KF-C10-3) is listed, per-allocation
// logs are replayed with the configured block size known out of band except in a "literal" class.
// Cases that are not "prone" (natCfg.Prone) advance the clock by >= 1 s before every operation, keep
// away from the seconds in which the logger's own 5 s ticker flushes, and use a MaxFileSize that one flush
// cannot cross twice: no two rotations share a clock second there.
func runSeq(t *testing.T, rt *rapid.T, dir string, name string, bulk bool) {
	cfg := genCfg(&bulk).Draw(rt, "cfg")
	genLogOpts(rt, &cfg, func(flushEvery int) int { return flushEvery })
	exercise := rapid.IntRange(0, 3).Draw(rt, "exerciseKF1") == 0
	avoid := vstat.IsListed(sigOverlapCount) && !exercise
	strict := true
	if !bulk && vstat.IsListed(sigLogNoExtent) {
		strict = rapid.IntRange(0, 4).Draw(rt, "literalLog") == 0
	}
	n := rapid.IntRange(1, 40).Draw(rt, "nOps")
	ops := make([]seqOp, n)
	for i := range ops {
		ops[i] = seqOp{
			Kind:   rapid.IntRange(0, 59).Draw(rt, "op"),
			Sub:    rapid.IntRange(0, 59).Draw(rt, "sub"),
			Form16: rapid.Bool().Draw(rt, "form16"),
			DT:     rapid.SampledFrom([]int{0, 0, 1, 1, 1, 2, 4, 5, 61}).Draw(rt, "dt"),
			Age:    rapid.SampledFrom([]int{0, 0, 0, 0, 0, 0, 0, 0, 0, 0, 1, 2, 2, 3}).Draw(rt, "age"),
		}
	}
	var m *model
	var rot []string
	synctest.Test(t, func(*testing.T) {
		m, rot = execSeq(dir, cfg, strict, avoid, ops)
	})
	m.report(rt)
	extra := rot
	if avoid {
		extra = append(extra, "steer:avoid-KF1")
	}
	m.record(name, extra...)
}

// execSeq runs inside the bubble.  Violations are kept in the model (m.report).
func execSeq(dir string, cfg natCfg, strict, avoid bool, ops []seqOp) (*model, []string) {
	var ht harnessT
	e := newEnv(&ht, dir, cfg, nil)
	if e == nil {
		m := newModel(cfg, nil, strict)
		m.fail(&ht, "C10/harness", "%s", ht.msg)
		return m, nil
	}
	e.inBubble = true
	defer e.close()
	m := newModel(cfg, e.pubs, strict)
	e.start()
	quiet, nearTick := 0, 0
	for _, op := range ops {
		if m.dead {
			break
		}
		if cfg.MaxAge > 0 {
			switch {
			case op.Age == 1:
				e.advance(cfg.MaxAge / 2)
			case op.Age == 3 && nearTick < 2:
				// up to just before the next hourly retention pass: what is written now is young when the pass runs
				nearTick++
				m.retNear = true
				since := time.Since(seqBase)
				until := (since/time.Hour+1)*time.Hour - time.Duration(1+op.Sub%90)*time.Second
				e.advance(until - since)
			case op.Age == 2 && quiet < 2:
				quiet++
				m.retQuiet = true
				// nothing is written for more than MaxAge, and the quiet period reaches past the next hourly retention pass
				since := time.Since(seqBase)
				until := ((since+cfg.MaxAge)/time.Hour+1)*time.Hour + time.Duration(1+op.Sub%30)*time.Second
				e.advance(until - since)
			}
		}
		dt := op.DT
		if !cfg.Prone {
			if dt == 0 {
				dt = 1
			}
			// the flush loop's ticker fires at multiples of 5 s after Start: stay out of those seconds
			if at := int(time.Since(seqBase)/time.Second) + dt; cfg.Started && at%5 == 0 {
				dt++
			}
		}
		e.advance(time.Duration(dt) * time.Second)
		var liveSubs, freeSubs []int
		for s := 0; s < nSubs; s++ {
			if _, ok := m.live[s]; ok {
				liveSubs = append(liveSubs, s)
			} else {
				freeSubs = append(freeSubs, s)
			}
		}
		kinds := []string{"dealloc", "any"}
		if len(freeSubs) > 0 {
			blocked := false
			if avoid {
				if p := m.firstFitPub(); p != "" && m.hasHole(p) {
					blocked = true
				}
			}
			if !blocked {
				kinds = append(kinds, "new", "new", "new")
			}
		}
		if len(liveSubs) > 0 {
			kinds = append(kinds, "reask", "dealloc")
		}
		pick := func(l []int) int { return l[op.Sub%len(l)] }
		switch kinds[op.Kind%len(kinds)] {
		case "new":
			m.step(&ht, e, true, pick(freeSubs), op.Form16)
		case "reask":
			m.step(&ht, e, true, pick(liveSubs), op.Form16)
		case "dealloc":
			if len(liveSubs) > 0 {
				m.step(&ht, e, false, pick(liveSubs), op.Form16)
			} else {
				m.step(&ht, e, false, op.Sub%nSubs, op.Form16)
			}
		default: // deallocate of anybody (a no-op when nothing is held: DHCP RELEASE without NAT state)
			m.step(&ht, e, false, op.Sub%nSubs, op.Form16)
		}
	}
	if !cfg.Prone {
		d := time.Second
		if at := int(time.Since(seqBase)/time.Second) + 1; cfg.Started && at%5 == 0 {
			d += time.Second
		}
		e.advance(d)
	}
	m.finish(&ht, e)
	return m, e.rotClasses()
}

// harnessT collects harness-level failures (constructors rejecting a generated configuration) inside a bubble.
type harnessT struct{ msg string }

func (h *harnessT) Helper() {}
func (h *harnessT) Fatalf(f string, a ...any) {
	if h.msg == "" {
		h.msg = fmt.Sprintf(f, a...)
	}
}

// TestPropSeqBulk: random histories, RFC 6908 bulk (port-block) log records.
func TestPropSeqBulk(t *testing.T) {
	vstat.Checks(1000, 15000)
	dir := t.TempDir()
	rapid.Check(t, func(rt *rapid.T) { runSeq(t, rt, dir, "seq-bulk", true) })
}

// TestPropSeqPerAllocation: random histories, per-allocation ("allocate"/"deallocate") log records.
func TestPropSeqPerAllocation(t *testing.T) {
	vstat.Checks(1000, 15000)
	dir := t.TempDir()
	rapid.Check(t, func(rt *rapid.T) { runSeq(t, rt, dir, "seq-per-allocation", false) })
}
