package c10

// Large-capacity family.  The other tests keep the capacity of a public address at 1-5 blocks so that
// exhaustion and re-use happen with six subscribers; here a public address holds hundreds to tens of
// thousands of blocks and hundreds to thousands of subscribers hold one at the same time, so that the
// free-block search crosses every word / power-of-two boundary (63/64/65, 127/128/129, 255/256/257,
// 1023/1024/1025, 4095/4096/4097, ...) with fill-up, release-from-the-middle and refill shapes.
//
// Model (from the statement only): per public address an owner table over the 65536 ports.  Every new
// block is checked against it port by port (disjoint from every live block, inside the range, configured
// size), a subscriber keeps its block until it releases it (re-asks, GetAllocation on a sample), and a
// full sweep (sort + adjacent-pair check + GetAllocation of every holder + GetAllocationCount) runs at
// every checkpoint and at the end.  With the logger attached (bulk or per-allocation, no rotation) the log
// file is read back at the checkpoints only (sampled, not after every step): assign records minus release
// records, matched on subscriber + public address + first port, must leave exactly the live blocks, with
// the right last port and subscriber id, and every block handed out / released has exactly one record.

import (
	"bufio"
	"bytes"
	"fmt"
	"net"
	"os"
	"path/filepath"
	"sort"
	"strings"
	"testing"

	"github.com/codelaboratoryltd/bng/pkg/nat"
	"go.uber.org/zap"
	"pgregory.net/rapid"

	"bngverif/internal/vstat"
)

const sigOverlapLarge = "C10/seq/overlap/large-pool"

func bigPriv(i int) net.IP { return net.IPv4(100, byte(64+(i>>16)&0x3f), byte(i>>8), byte(i)).To4() }

type largeCfg struct {
	RS, RE, PPS, NIPs int
	Logger            string // "none" | "bulk" | "per-allocation"
	Boundary          int    // the number of simultaneously held blocks the history is built around
	Delta             int
}

func (c largeCfg) capPerIP() int { return (c.RE - c.RS + 1) / c.PPS }
func (c largeCfg) String() string {
	return fmt.Sprintf("range=%d-%d pps=%d ips=%d cap/ip=%d logger=%s boundary=%d%+d", c.RS, c.RE, c.PPS, c.NIPs, c.capPerIP(), c.Logger, c.Boundary, c.Delta)
}

type lOp struct {
	Alloc bool
	Sub   int
}

// genLarge constructs configuration and history together.
//
//	fill      allocate Boundary+Delta subscribers (Delta in -1..+2) so that the number of live blocks on the first public
//	          address crosses Boundary (a power of two >= 64, or the capacity of the address itself)
//	holes     release a drawn set of holders: some from the first 64 blocks, some around every lower boundary, some random
//	refill    allocate new subscribers for every hole, plus a few more (spill to the next address / exhaustion)
//	churn     a random tail of allocate / re-ask / release operations over everybody seen so far
func genLarge(rt *rapid.T) (largeCfg, []lOp, []int) {
	c := largeCfg{}
	c.PPS = rapid.SampledFrom([]int{1, 2, 16, 64, 100, 255, 256, 256, 512, 1000}).Draw(rt, "pps")
	switch rapid.IntRange(0, 3).Draw(rt, "range") {
	case 0:
		c.RS, c.RE = 1, 65535
	case 1:
		c.RS, c.RE = 1024, 65535
	case 2:
		c.RS, c.RE = 0, 0 // cmd/bng: only ports-per-subscriber is given (1024-65535)
	default:
		c.RS, c.RE = 32768, 65535
	}
	rs, re := c.RS, c.RE
	if rs == 0 {
		rs, re = 1024, 65535
	}
	full := (re - rs + 1) / c.PPS
	bmax := 4096
	if vstat.Thorough() {
		bmax = 65536
	}
	var bs []int
	for b := 64; b <= bmax; b *= 2 {
		if b+2 <= full {
			bs = append(bs, b)
			if b <= 256 {
				bs = append(bs, b) // the cheap ones more often
			}
		}
	}
	capMode := "full"
	if len(bs) > 0 {
		capMode = rapid.SampledFrom([]string{"full", "full", "tight", "exact"}).Draw(rt, "capMode")
	}
	if len(bs) == 0 {
		// fewer than 66 blocks fit (pps 1000 over a half range): the boundary is the capacity itself
		c.Boundary = full
	} else {
		c.Boundary = rapid.SampledFrom(bs).Draw(rt, "boundary")
	}
	switch capMode {
	case "tight": // the address ends a few blocks above the boundary, with a remainder that fits no block
		capacity := c.Boundary + rapid.IntRange(1, 3).Draw(rt, "above")
		rem := 0
		if c.PPS > 1 {
			rem = rapid.IntRange(0, c.PPS-1).Draw(rt, "rem")
		}
		c.RS = rs
		c.RE = rs + capacity*c.PPS + rem - 1
		if c.RE > 65535 {
			c.RE = 65535
			c.RS = c.RE - capacity*c.PPS - rem + 1
		}
	case "exact": // capacity == boundary: the block after the boundary must come from the next address (or fail)
		c.RE = 65535
		c.RS = c.RE - c.Boundary*c.PPS + 1
	}
	if c.RS == 0 && c.RE != 0 {
		c.RS = 1
	}
	c.NIPs = rapid.SampledFrom([]int{1, 1, 2, 3}).Draw(rt, "nIPs")
	c.Logger = rapid.SampledFrom([]string{"none", "bulk", "per-allocation"}).Draw(rt, "logger")
	c.Delta = rapid.SampledFrom([]int{-1, 0, 1, 1, 2, 2}).Draw(rt, "delta")

	var ops []lOp
	var checkpoints []int
	n := c.Boundary + c.Delta
	for s := 0; s < n; s++ {
		ops = append(ops, lOp{true, s})
	}
	checkpoints = append(checkpoints, len(ops))
	next := n
	// holes
	holes := map[int]bool{}
	nh := rapid.IntRange(1, 12).Draw(rt, "nHoles")
	for i := 0; i < nh; i++ {
		var s int
		switch rapid.IntRange(0, 3).Draw(rt, "holeKind") {
		case 0:
			s = rapid.IntRange(0, 63).Draw(rt, "low")
		case 1:
			b := 64 << rapid.IntRange(0, 10).Draw(rt, "bexp")
			s = b + rapid.IntRange(-2, 1).Draw(rt, "off")
		case 2:
			s = n - 1 - rapid.IntRange(0, 3).Draw(rt, "top")
		default:
			s = rapid.IntRange(0, n-1).Draw(rt, "any")
		}
		if s >= 0 && s < n && !holes[s] {
			holes[s] = true
			ops = append(ops, lOp{false, s})
		}
	}
	checkpoints = append(checkpoints, len(ops))
	// refill
	extra := rapid.IntRange(0, 4).Draw(rt, "extra")
	for i := 0; i < len(holes)+extra; i++ {
		ops = append(ops, lOp{true, next})
		next++
	}
	checkpoints = append(checkpoints, len(ops))
	// churn
	nc := rapid.IntRange(0, 120).Draw(rt, "nChurn")
	for i := 0; i < nc; i++ {
		switch rapid.IntRange(0, 5).Draw(rt, "churn") {
		case 0, 1: // release somebody (holder or not)
			ops = append(ops, lOp{false, rapid.IntRange(0, next-1).Draw(rt, "sub")})
		case 2: // release around a boundary
			b := 64 << rapid.IntRange(0, 6).Draw(rt, "bexp")
			ops = append(ops, lOp{false, (b + rapid.IntRange(-2, 1).Draw(rt, "off")) % next})
		case 3: // re-ask / re-allocate somebody seen before
			ops = append(ops, lOp{true, rapid.IntRange(0, next-1).Draw(rt, "sub")})
		default: // a new subscriber
			ops = append(ops, lOp{true, next})
			next++
		}
	}
	return c, ops, checkpoints
}

type largeModel struct {
	cfg         largeCfg
	rs, re, pps int
	pubs        []string
	owner       map[string][]int32 // public address -> port -> subscriber+1
	live        map[int]block
	subID       map[int]uint32
	idOwner     map[uint32]int
	perPub      map[string]int
	maxHeld     int // largest number of blocks held at once on one public address
	wantA       map[int]int
	wantR       map[int]int
	midRelease  bool
	nt          bool
	exhausted   bool
	spill       bool
	step        int
}

func (m *largeModel) totalCap() int { return m.cfg.capPerIP() * len(m.pubs) }

func TestPropSeqLargePool(t *testing.T) {
	vstat.Checks(500, 4000)
	dir := t.TempDir()
	rapid.Check(t, func(rt *rapid.T) {
		cfg, ops, cps := genLarge(rt)
		mgr, err := nat.NewManager(nat.ManagerConfig{Interface: "verif0", PortsPerSubscriber: cfg.PPS, PortRangeStart: cfg.RS, PortRangeEnd: cfg.RE,
			EnableLogging: cfg.Logger != "none", BulkLoggingEnabled: cfg.Logger == "bulk"}, zap.NewNop())
		if err != nil {
			rt.Fatalf("harness: NewManager rejected %v: %v", cfg, err)
		}
		var lg *nat.Logger
		var path string
		if cfg.Logger != "none" {
			path = filepath.Join(dir, fmt.Sprintf("large-%d.json", fileCtr.Add(1)))
			lg, err = nat.NewLogger(nat.LoggerConfig{Enabled: true, FilePath: path, Format: nat.LogFormatJSON, BulkLogging: cfg.Logger == "bulk",
				BufferSize: rapid.SampledFrom([]int{0, 10, 100, 640}).Draw(rt, "bufSize")}, zap.NewNop())
			if err != nil {
				rt.Fatalf("harness: NewLogger: %v", err)
			}
			mgr.SetLogger(lg)
			defer func() { lg.Stop(); os.Remove(path) }()
		}
		m := &largeModel{cfg: cfg, owner: map[string][]int32{}, live: map[int]block{}, subID: map[int]uint32{}, idOwner: map[uint32]int{},
			perPub: map[string]int{}, wantA: map[int]int{}, wantR: map[int]int{}}
		m.rs, m.re, m.pps = natCfg{RS: cfg.RS, RE: cfg.RE, PPS: cfg.PPS}.eff()
		for i := 0; i < cfg.NIPs; i++ {
			if err := mgr.AddPublicIP(net.ParseIP(pubAddrs[i])); err != nil {
				rt.Fatalf("harness: AddPublicIP: %v", err)
			}
			m.pubs = append(m.pubs, pubAddrs[i])
			m.owner[pubAddrs[i]] = make([]int32, 65536)
		}
		var hist []string
		note := func(f string, a ...any) {
			if len(hist) < 4000 {
				hist = append(hist, fmt.Sprintf(f, a...))
			}
		}
		ctx := func() string {
			h := hist
			if len(h) > 60 {
				h = append(append([]string{}, h[:8]...), append([]string{fmt.Sprintf("... %d operations ...", len(h)-48)}, h[len(h)-40:]...)...)
			}
			return fmt.Sprintf("config: %v\nlive blocks: %d (max on one address so far: %d)\nhistory: %s", cfg, len(m.live), m.maxHeld, strings.Join(h, "; "))
		}
		dead := false
		fail := func(sig, f string, a ...any) {
			dead = true
			vstat.Fail(rt, sig, "%s\n%s", fmt.Sprintf(f, a...), ctx())
		}
		cpAt := map[int]bool{}
		for _, c := range cps {
			cpAt[c] = true
		}
		for i, op := range ops {
			if dead {
				break
			}
			m.step = i
			if op.Alloc {
				a, err := mgr.AllocateNAT(bigPriv(op.Sub))
				held, holds := m.live[op.Sub]
				switch {
				case err != nil:
					note("alloc(s%d)=err", op.Sub)
					if holds {
						fail(sigReaskFailed, "alloc(s%d) failed (%v) although it holds %v", op.Sub, err, held)
					} else if len(m.live) < m.totalCap() {
						fail(sigSpurious, "alloc(s%d) failed (%v) although %d of %d blocks are held", op.Sub, err, len(m.live), m.totalCap())
					}
					m.exhausted = true
				case a == nil || a.PublicIP == nil || a.PrivateIP == nil:
					fail(sigBadAlloc, "alloc(s%d) succeeded with a nil allocation / address", op.Sub)
				default:
					b := toBlock(a)
					if holds {
						if b.Pub != held.Pub || b.Start != held.Start || b.End != held.End || b.SubID != held.SubID {
							note("alloc(s%d)=%v", op.Sub, b)
							fail(sigChanged, "alloc(s%d) while holding %v (id %d) returned %v (id %d)", op.Sub, held, held.SubID, b, b.SubID)
						}
						break
					}
					note("alloc(s%d)=%v", op.Sub, b)
					if !a.PrivateIP.Equal(bigPriv(op.Sub)) {
						fail(sigBadAlloc, "alloc(s%d) returned an allocation for private address %v", op.Sub, a.PrivateIP)
						break
					}
					own, known := m.owner[b.Pub]
					if !known {
						fail(sigBadAlloc, "alloc(s%d) -> %v: public address is not in the configured pool %v", op.Sub, b, m.pubs)
						break
					}
					if b.End-b.Start+1 != m.pps {
						fail(sigSize, "alloc(s%d) -> %v: %d ports, configured ports-per-subscriber %d", op.Sub, b, b.End-b.Start+1, m.pps)
						break
					}
					if b.Start < m.rs || b.End > m.re {
						fail(sigOutOfRange, "alloc(s%d) -> %v outside the configured port range %d-%d", op.Sub, b, m.rs, m.re)
						break
					}
					for p := b.Start; p <= b.End; p++ {
						if o := own[p]; o != 0 {
							fail(sigOverlapLarge, "alloc(s%d) -> %v overlaps the live block %v of s%d (port %d); %d blocks are held on %s", op.Sub, b, m.live[int(o-1)], o-1, p, m.perPub[b.Pub], b.Pub)
							break
						}
					}
					if dead {
						break
					}
					if o, dup := m.idOwner[b.SubID]; dup && o != op.Sub {
						fail(sigSubIDShared, "alloc(s%d) carries subscriber id %d which identifies s%d", op.Sub, b.SubID, o)
						break
					}
					for p := b.Start; p <= b.End; p++ {
						own[p] = int32(op.Sub + 1)
					}
					m.live[op.Sub], m.subID[op.Sub], m.idOwner[b.SubID] = b, b.SubID, op.Sub
					m.perPub[b.Pub]++
					if m.perPub[b.Pub] > m.maxHeld {
						m.maxHeld = m.perPub[b.Pub]
					}
					if b.Pub != m.pubs[0] {
						m.spill = true
					}
					if m.midRelease {
						m.nt = true
					}
					m.wantA[op.Sub]++
					if got := mgr.GetAllocation(bigPriv(op.Sub)); got == nil || toBlock(got) != b {
						fail(sigGetAlloc, "GetAllocation(s%d) right after alloc -> %v: %v", op.Sub, b, got)
					}
				}
			} else {
				err := mgr.DeallocateNAT(bigPriv(op.Sub))
				note("dealloc(s%d)", op.Sub)
				if err != nil {
					fail(sigDeallocErr, "dealloc(s%d) returned %v", op.Sub, err)
					break
				}
				if b, ok := m.live[op.Sub]; ok {
					own := m.owner[b.Pub]
					for p := b.Start; p <= b.End; p++ {
						own[p] = 0
					}
					delete(m.live, op.Sub)
					m.perPub[b.Pub]--
					m.wantR[op.Sub]++
					if m.perPub[b.Pub] > 0 {
						m.midRelease = true // other blocks stay held on that address (a hole, unless it was the topmost block)
					}
					if got := mgr.GetAllocation(bigPriv(op.Sub)); got != nil {
						fail(sigGetAlloc, "GetAllocation(s%d) = %v after its release", op.Sub, toBlock(got))
					}
				}
			}
			if !dead && (cpAt[i+1] || i == len(ops)-1) {
				if sig, msg := m.sweep(mgr); sig != "" {
					fail(sig, "%s", msg)
				} else if lg != nil {
					if sig, msg := m.logCheckpoint(lg, path); sig != "" {
						fail(sig, "%s", msg)
					}
				}
			}
		}
		cls := []string{"large-pool", "large:logger-" + cfg.Logger, fmt.Sprintf("large:pps-%d", cfg.PPS)}
		for _, b := range []int{64, 128, 256, 1024, 4096, 16384} {
			if m.maxHeld > b {
				cls = append(cls, fmt.Sprintf("large:held>%d-on-one-address", b))
			}
		}
		if m.maxHeld == cfg.capPerIP() {
			cls = append(cls, "large:address-filled-completely")
		}
		if m.midRelease {
			cls = append(cls, "large:release-below-a-live-block")
		}
		if m.nt {
			cls = append(cls, "large:nt/held>64-release-then-allocate")
		}
		if m.exhausted {
			cls = append(cls, "large:exhausted")
		}
		if m.spill {
			cls = append(cls, "large:spill-to-next-ip")
		}
		if dead {
			cls = append(cls, "kf-hit")
		}
		nt := m.nt && m.maxHeld > 64
		var sb strings.Builder
		for _, o := range ops {
			if o.Alloc {
				fmt.Fprintf(&sb, "a%d,", o.Sub)
			} else {
				fmt.Fprintf(&sb, "d%d,", o.Sub)
			}
		}
		vstat.Case(nt, vstat.Hash("large", cfg.String(), sb.String()), func() any {
			return map[string]any{"test": "large-pool", "config": cfg.String(), "operations": len(ops), "max_held_on_one_address": m.maxHeld, "first_ops": hist[:min(len(hist), 6)]}
		}, cls...)
	})
}

// sweep: the full pairwise check, done as a sort plus adjacent pairs, and the manager's table against the model's.
func (m *largeModel) sweep(mgr *nat.Manager) (string, string) {
	type lb struct {
		sub int
		b   block
	}
	all := make([]lb, 0, len(m.live))
	for s, b := range m.live {
		all = append(all, lb{s, b})
	}
	sort.Slice(all, func(i, j int) bool {
		if all[i].b.Pub != all[j].b.Pub {
			return all[i].b.Pub < all[j].b.Pub
		}
		if all[i].b.Start != all[j].b.Start {
			return all[i].b.Start < all[j].b.Start
		}
		return all[i].sub < all[j].sub
	})
	for i := 1; i < len(all); i++ {
		a, b := all[i-1], all[i]
		if a.b.Pub == b.b.Pub && b.b.Start <= a.b.End {
			return sigOverlapLarge, fmt.Sprintf("sweep: s%d holds %v and s%d holds %v", a.sub, a.b, b.sub, b.b)
		}
	}
	for _, x := range all {
		got := mgr.GetAllocation(bigPriv(x.sub))
		if got == nil {
			return sigGetAlloc, fmt.Sprintf("sweep: GetAllocation(s%d) = nil although the subscriber was handed %v and never released it", x.sub, x.b)
		}
		if g := toBlock(got); g != x.b {
			return sigGetAlloc, fmt.Sprintf("sweep: GetAllocation(s%d) = %v (id %d), the subscriber was handed %v (id %d)", x.sub, g, g.SubID, x.b, x.b.SubID)
		}
	}
	if n := mgr.GetAllocationCount(); n != len(m.live) {
		return sigGetAlloc, fmt.Sprintf("sweep: GetAllocationCount() = %d, %d subscribers hold a block", n, len(m.live))
	}
	return "", ""
}

func bigSubOf(priv string) int {
	ip := net.ParseIP(priv).To4()
	if ip == nil || ip[0] != 100 || ip[1] < 64 || ip[1] > 127 {
		return -1
	}
	return int(ip[1]-64)<<16 | int(ip[2])<<8 | int(ip[3])
}

// logCheckpoint: the sampled log check (whole file, order-free).
func (m *largeModel) logCheckpoint(lg *nat.Logger, path string) (string, string) {
	lg.Flush()
	lg.FlushPortBlocks()
	data, err := os.ReadFile(path)
	if err != nil {
		return sigLogUnparsable, fmt.Sprintf("harness: read log: %v", err)
	}
	type key struct {
		sub   int
		pub   string
		start int
	}
	open := map[key]int{}
	info := map[key]logRec{}
	nA, nR := map[int]int{}, map[int]int{}
	sc := bufio.NewScanner(bytes.NewReader(data))
	sc.Buffer(make([]byte, 0, 4096), 1<<20)
	for sc.Scan() {
		line := bytes.TrimSpace(sc.Bytes())
		if len(line) == 0 {
			continue
		}
		r, perr := parseRec(line)
		if perr != nil {
			return sigLogUnparsable, fmt.Sprintf("unparsable: %q: %v", line, perr)
		}
		if r.Kind == "" {
			continue
		}
		if r.TS.IsZero() || r.TS.Year() < 2000 {
			return sigLogTimestamp, "log record without a usable timestamp: " + r.Raw
		}
		s := bigSubOf(r.Priv)
		if s < 0 || r.Start < 0 || r.Pub == "" {
			return sigLogUnparsable, "log record does not name subscriber / public address / port: " + r.Raw
		}
		k := key{s, r.Pub, r.Start}
		if r.Kind == "assign" {
			open[k]++
			info[k] = r
			nA[s]++
		} else {
			open[k]--
			nR[s]++
		}
	}
	for s, w := range m.wantA {
		if nA[s] < w {
			return sigLogMissing + "/allocate", fmt.Sprintf("s%d: %d block(s) allocated so far, the log holds %d such record(s)", s, w, nA[s])
		}
		if nA[s] > w {
			return sigLogDup + "/allocate", fmt.Sprintf("s%d: %d block(s) allocated so far, the log holds %d such records", s, w, nA[s])
		}
	}
	for s, w := range m.wantR {
		if nR[s] < w {
			return sigLogMissing + "/deallocate", fmt.Sprintf("s%d: %d block(s) released so far, the log holds %d such record(s)", s, w, nR[s])
		}
		if nR[s] > w {
			return sigLogDup + "/deallocate", fmt.Sprintf("s%d: %d block(s) released so far, the log holds %d such records", s, w, nR[s])
		}
	}
	ks := make([]key, 0, len(open))
	for k, n := range open {
		if n != 0 {
			ks = append(ks, k)
		}
	}
	sort.Slice(ks, func(i, j int) bool {
		if ks[i].sub != ks[j].sub {
			return ks[i].sub < ks[j].sub
		}
		if ks[i].pub != ks[j].pub {
			return ks[i].pub < ks[j].pub
		}
		return ks[i].start < ks[j].start
	})
	seen := map[int]bool{}
	for _, k := range ks {
		b, holds := m.live[k.sub]
		if open[k] < 0 {
			return sigLogRelease, fmt.Sprintf("the log releases %s:%d of s%d more often than it assigns it", k.pub, k.start, k.sub)
		}
		if open[k] != 1 || !holds || b.Pub != k.pub || b.Start != k.start {
			return sigLogStale, fmt.Sprintf("the log leaves %d open record(s) %s:%d for s%d, which holds %v", open[k], k.pub, k.start, k.sub, m.live[k.sub])
		}
		r := info[k]
		if !r.HasEnd {
			return sigLogNoExtent, fmt.Sprintf("the allocate record of s%d names only port %d of %v", k.sub, k.start, b)
		}
		if r.End != b.End {
			return sigLogMisattr, fmt.Sprintf("the log attributes %s:%d-%d to s%d which holds %v", k.pub, k.start, r.End, k.sub, b)
		}
		if r.SubID != b.SubID {
			return sigLogSubID, fmt.Sprintf("assign record of s%d carries subscriber id %d, the allocation carries %d", k.sub, r.SubID, b.SubID)
		}
		seen[k.sub] = true
	}
	for s, b := range m.live {
		if !seen[s] {
			return sigLogNotAttr, fmt.Sprintf("no open log record attributes %v (held by s%d) to anybody", b, s)
		}
	}
	return "", ""
}
