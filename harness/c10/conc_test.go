package c10

// Concurrent phases.  nat.Manager is meant to be called concurrently: it guards its tables with
// mutexes and its only production caller, dhcp.Server.handleRequest/handleRelease, runs in one
// goroutine per packet (server4.Serve does `go s.Handler(...)`); a retransmitted DHCPREQUEST gives
// two concurrent AllocateNAT calls for one private address.
//
// Correctness is never inferred from timing: goroutines stamp every call with a shared atomic
// counter before and after, and an overlap is reported only between two blocks whose holders
// both *definitely* held them at one instant of that counter.  Sleeps are used only to make an
// interesting schedule likely (parking one caller inside a zap core the harness owns).

import (
	"fmt"
	"sort"
	"strings"
	"sync"
	"sync/atomic"
	"testing"
	"testing/synctest"
	"time"

	"github.com/codelaboratoryltd/bng/pkg/nat"
	"go.uber.org/zap"
	"go.uber.org/zap/zapcore"
	"pgregory.net/rapid"

	"bngverif/internal/vstat"
)

// gateCore is a zap core that parks the first caller logging msg while armed.
// AllocateNAT logs "Allocated NAT for subscriber" as its last statement, still holding the pool lock.
type gateCore struct {
	msg     string
	armed   atomic.Bool
	reached chan struct{}
	release chan struct{}
}

func newGate(msg string) *gateCore {
	return &gateCore{msg: msg, reached: make(chan struct{}, 1), release: make(chan struct{})}
}
func (c *gateCore) Enabled(zapcore.Level) bool        { return true }
func (c *gateCore) With([]zapcore.Field) zapcore.Core { return c }
func (c *gateCore) Check(e zapcore.Entry, ce *zapcore.CheckedEntry) *zapcore.CheckedEntry {
	return ce.AddCore(e, c)
}
func (c *gateCore) Sync() error { return nil }
func (c *gateCore) Write(e zapcore.Entry, _ []zapcore.Field) error {
	if e.Message == c.msg && c.armed.CompareAndSwap(true, false) {
		c.reached <- struct{}{}
		<-c.release
	}
	return nil
}

const allocatedMsg = "Allocated NAT for subscriber"

type callRes struct {
	b   block
	err error
	nil bool
}

func (r callRes) String() string {
	if r.err != nil {
		return "err"
	}
	if r.nil {
		return "nil"
	}
	return r.b.String()
}

// dupRound makes k goroutines call AllocateNAT(sub) at the same time.  With parked=true another caller
// (allocating helper) is first parked at the end of its own AllocateNAT, so that all k callers have
// passed the "already allocated?" look-up before any of them can proceed.
func dupRound(e *env, gate *gateCore, sub, k int, parked bool, helper int, settle time.Duration) (res []callRes, helperRes *callRes) {
	res = make([]callRes, k)
	var wg sync.WaitGroup
	start := make(chan struct{})
	call := func(s int) callRes {
		a, err := e.m.AllocateNAT(privIP(s, false))
		if err != nil {
			return callRes{err: err}
		}
		if a == nil || a.PublicIP == nil {
			return callRes{nil: true}
		}
		return callRes{b: toBlock(a)}
	}
	holderDone := make(chan callRes, 1)
	isParked := false
	if parked && gate != nil && helper >= 0 {
		gate.armed.Store(true)
		go func() { holderDone <- call(helper) }()
		select {
		case <-gate.reached:
			isParked = true
		case r := <-holderDone: // the helper's call ended without reaching the gate (error / already allocated)
			gate.armed.Store(false)
			helperRes = &r
		case <-time.After(5 * time.Second):
			gate.armed.Store(false)
		}
	}
	for i := 0; i < k; i++ {
		wg.Add(1)
		go func(i int) {
			defer wg.Done()
			<-start
			res[i] = call(sub)
		}(i)
	}
	close(start)
	if isParked {
		time.Sleep(settle) // let the k callers run up to the pool lock
		gate.release <- struct{}{}
		r := <-holderDone
		helperRes = &r
	}
	wg.Wait()
	return res, helperRes
}

// checkLive: final table through GetAllocation: pairwise disjoint, in range, configured size.
func checkLiveTable(t fataler, cfg natCfg, mgr *nat.Manager, hist func() string, overlapSig string) (map[int]block, bool) {
	rs, re, pps := cfg.eff()
	live := map[int]block{}
	for s := 0; s < nSubs; s++ {
		if a := mgr.GetAllocation(privIP(s, false)); a != nil {
			live[s] = toBlock(a)
		}
	}
	for s, b := range live {
		if b.End-b.Start+1 != pps {
			return live, vstat.Fail(t, sigSize, "s%d holds %v: %d ports, configured %d\nconfig: %v\n%s", s, b, b.End-b.Start+1, pps, cfg, hist())
		}
		if b.Start < rs || b.End > re {
			return live, vstat.Fail(t, sigOutOfRange, "s%d holds %v outside %d-%d\nconfig: %v\n%s", s, b, rs, re, cfg, hist())
		}
		for o, ob := range live {
			if o < s && overlaps(b, ob) {
				return live, vstat.Fail(t, overlapSig, "s%d holds %v and s%d holds %v\nconfig: %v\n%s", s, b, o, ob, cfg, hist())
			}
		}
	}
	return live, false
}

// checkLogMultiset: order-free log check at quiescence.  For every subscriber the assign records minus the
// release records (matched on public address + first port) must leave exactly the block it holds now.
func checkLogMultiset(t fataler, cfg natCfg, recs []logRec, live map[int]block, wantAssign, wantRelease map[int]int, hist func() string) bool {
	type key struct {
		sub   int
		pub   string
		start int
	}
	open := map[key]int{}
	ends := map[key]int{}
	nA, nR := map[int]int{}, map[int]int{}
	for _, r := range recs {
		if r.Kind == "" {
			continue
		}
		s := subOfPriv(r.Priv)
		if s < 0 {
			return vstat.Fail(t, sigLogUnparsable, "record does not name a subscriber: %s\n%s", r.Raw, hist())
		}
		k := key{s, r.Pub, r.Start}
		if r.Kind == "assign" {
			open[k]++
			nA[s]++
			if r.HasEnd {
				ends[k] = r.End
			} else {
				ends[k] = -1
			}
		} else {
			open[k]--
			nR[s]++
		}
	}
	for s := 0; s < nSubs; s++ {
		if wantAssign != nil && (nA[s] != wantAssign[s] || nR[s] != wantRelease[s]) {
			return vstat.Fail(t, sigConcLog, "s%d: %d new blocks handed out and %d released, log has %d assign and %d release records\nconfig: %v\n%s",
				s, wantAssign[s], wantRelease[s], nA[s], nR[s], cfg, hist())
		}
	}
	var ks []key
	for k := range open {
		ks = append(ks, k)
	}
	sort.Slice(ks, func(i, j int) bool {
		if ks[i].sub != ks[j].sub {
			return ks[i].sub < ks[j].sub
		}
		if ks[i].pub != ks[j].pub {
			return ks[i].pub < ks[j].pub
		}
		return ks[i].start < ks[j].start
	})
	seen := map[int]bool{}
	for _, k := range ks {
		n := open[k]
		if n == 0 {
			continue
		}
		b, holds := live[k.sub]
		if n != 1 || !holds || b.Pub != k.pub || b.Start != k.start || (ends[k] >= 0 && ends[k] != b.End) {
			return vstat.Fail(t, sigConcLog, "log leaves %d open record(s) %s:%d(-%d) for s%d, which holds %v (live %v)\nconfig: %v\n%s", n, k.pub, k.start, ends[k], k.sub, live[k.sub], live, cfg, hist())
		}
		seen[k.sub] = true
	}
	for s := range live {
		if !seen[s] {
			return vstat.Fail(t, sigConcLog, "s%d holds %v but the log has no open record for it\nconfig: %v\n%s", s, live[s], cfg, hist())
		}
	}
	return false
}

// genRoomyCfg: total capacity >= 6 blocks, so that with <= 6 subscribers exhaustion is never legitimate.
func genRoomyCfg() *rapid.Generator[natCfg] {
	return rapid.Custom(func(t *rapid.T) natCfg {
		c := natCfg{Bulk: rapid.Bool().Draw(t, "bulk")}
		c.NIPs = rapid.IntRange(1, 3).Draw(t, "nIPs")
		c.BufSize = rapid.SampledFrom([]int{1, 10, 20, 30, 50}).Draw(t, "bufSize")
		minCap := (nSubs + c.NIPs - 1) / c.NIPs
		capacity := rapid.IntRange(minCap, minCap+3).Draw(t, "capacity")
		pps := rapid.SampledFrom(ppsChoices).Draw(t, "pps")
		rem := 0
		if pps > 1 && rapid.Bool().Draw(t, "rem?") {
			rem = rapid.IntRange(1, pps-1).Draw(t, "rem")
		}
		total := capacity*pps + rem
		c.PPS = pps
		if rapid.Bool().Draw(t, "edge") {
			c.RE = 65535
			c.RS = c.RE - total + 1
			c.Class = "edge65535"
		} else {
			c.RS = rapid.SampledFrom([]int{1, 1024, 20000}).Draw(t, "rs")
			c.RE = c.RS + total - 1
			c.Class = "inner"
		}
		return c
	})
}

// TestPropConcurrentDup: k goroutines ask for a block for ONE subscriber at the same time
// (a retransmitted DHCPREQUEST).  All of them must be answered with the same block.
func TestPropConcurrentDup(t *testing.T) {
	vstat.Checks(400, 6000)
	dir := t.TempDir()
	rapid.Check(t, func(rt *rapid.T) {
		cfg := genRoomyCfg().Draw(rt, "cfg")
		// Size rotation under the real clock (this test parks callers on a mutex and cannot run in a bubble; no
		// compression: its goroutine could not be joined).  A history writes <= 12 records within one clock
		// second: while two rotations in one second lose a file (KF-C10-4) MaxFileSize is kept above half of
		// that, so that at most one rotation happens.
		if rapid.IntRange(0, 2).Draw(rt, "rotate?") > 0 {
			if vstat.IsListed(sigRotSameSecond) {
				cfg.MaxFileSize = rapid.SampledFrom([]int64{1900, 2100, 2500}).Draw(rt, "maxFileSize")
			} else {
				cfg.MaxFileSize = rapid.SampledFrom([]int64{100, 250, 400, 700, 1000, 1900, 2500}).Draw(rt, "maxFileSize")
			}
		}
		gate := newGate(allocatedMsg)
		e := newEnv(rt, dir, cfg, zap.New(gate))
		defer e.close()
		exercise := rapid.IntRange(0, 3).Draw(rt, "exerciseKF2") == 0
		avoid := vstat.IsListed(sigConcDup) && !exercise
		var ops []string
		hist := func() string { return "history: " + strings.Join(ops, "; ") }
		held := map[int]block{}
		wantA, wantR := map[int]int{}, map[int]int{}
		nRounds := rapid.IntRange(1, 6).Draw(rt, "rounds")
		dupNew, dead := false, false
		for r := 0; r < nRounds && !dead; r++ {
			var liveSubs, freeSubs []int
			for s := 0; s < nSubs; s++ {
				if _, ok := held[s]; ok {
					liveSubs = append(liveSubs, s)
				} else {
					freeSubs = append(freeSubs, s)
				}
			}
			kinds := []string{}
			if len(freeSubs) > 0 {
				kinds = append(kinds, "single-new")
				if !avoid {
					kinds = append(kinds, "dup-new", "dup-new", "dup-new")
				}
			}
			if len(liveSubs) > 0 {
				kinds = append(kinds, "dup-held", "release")
			}
			switch kind := rapid.SampledFrom(kinds).Draw(rt, "round"); kind {
			case "release":
				s := rapid.SampledFrom(liveSubs).Draw(rt, "sub")
				// only the most recent block of its address while KF-C10-1 is listed (no hole below a live block)
				if vstat.IsListed(sigOverlapCount) {
					for _, o := range liveSubs {
						if held[o].Pub > held[s].Pub || (held[o].Pub == held[s].Pub && held[o].Start > held[s].Start) {
							s = o
						}
					}
				}
				if err := e.m.DeallocateNAT(privIP(s, false)); err != nil {
					dead = vstat.Fail(rt, sigDeallocErr, "dealloc(s%d): %v", s, err)
				}
				ops = append(ops, fmt.Sprintf("dealloc(s%d)", s))
				delete(held, s)
				wantR[s]++
			default:
				var s, k int
				isNew := kind != "dup-held"
				if isNew {
					s = rapid.SampledFrom(freeSubs).Draw(rt, "sub")
				} else {
					s = rapid.SampledFrom(liveSubs).Draw(rt, "sub")
				}
				k = rapid.IntRange(2, 6).Draw(rt, "k")
				if kind == "single-new" {
					k = 1
				}
				parked := rapid.Bool().Draw(rt, "parked")
				helper := -1
				if parked && isNew && len(freeSubs) > 1 {
					for _, f := range freeSubs {
						if f != s {
							helper = f
							break
						}
					}
				}
				res, hres := dupRound(e, gate, s, k, parked && helper >= 0, helper, 300*time.Microsecond)
				strs := make([]string, len(res))
				for i, x := range res {
					strs[i] = x.String()
				}
				ops = append(ops, fmt.Sprintf("%dx alloc(s%d) concurrently (parked=%v helper=s%d) = %s", k, s, parked && helper >= 0, helper, strings.Join(strs, ",")))
				if k > 1 && isNew {
					dupNew = true
				}
				if hres != nil {
					if hres.err != nil || hres.nil {
						dead = vstat.Fail(rt, sigSpurious, "alloc(s%d) failed with total capacity >= 6: %v\nconfig: %v\n%s", helper, hres, cfg, hist())
						break
					}
					held[helper] = hres.b
					wantA[helper]++
				}
				for i, x := range res {
					if x.err != nil || x.nil || x.b != res[0].b {
						sig := sigConcDup
						if !isNew {
							sig = sigChanged
						}
						_ = i
						dead = vstat.Fail(rt, sig, "concurrent AllocateNAT(s%d) calls were answered differently: %s\nconfig: %v\n%s", s, strings.Join(strs, ","), cfg, hist())
						break
					}
				}
				if dead {
					break
				}
				if !isNew && res[0].b != held[s] {
					dead = vstat.Fail(rt, sigChanged, "alloc(s%d) while holding %v returned %v\n%s", s, held[s], res[0].b, hist())
					break
				}
				if isNew {
					wantA[s]++
				}
				held[s] = res[0].b
			}
			if dead {
				break
			}
			live, d := checkLiveTable(rt, cfg, e.m, hist, sigConcOverlap)
			if d {
				dead = true
				break
			}
			if len(live) != len(held) {
				dead = vstat.Fail(rt, sigConcFinal, "table %v, handed out %v\nconfig: %v\n%s", live, held, cfg, hist())
				break
			}
			for s, b := range held {
				if live[s] != b {
					dead = vstat.Fail(rt, sigConcFinal, "GetAllocation(s%d)=%v, callers were handed %v\nconfig: %v\n%s", s, live[s], b, cfg, hist())
					break
				}
			}
		}
		if !dead {
			st, err := e.readAll(true, 0)
			if err != nil {
				dead = vstat.Fail(rt, sigLogUnparsable, "%v", err)
			} else {
				dead = checkLogMultiset(rt, cfg, st.recs, held, wantA, wantR, hist)
			}
		}
		cls := append([]string{"conc:dup", "cfg:" + cfg.Class}, e.rotClasses()...)
		if dupNew {
			cls = append(cls, "dup:new-subscriber")
		}
		if avoid {
			cls = append(cls, "steer:avoid-KF2")
		}
		if dead {
			cls = append(cls, "kf-hit")
		}
		o := ops
		// ops contain observed results of a real race: fingerprint the schedule shape only
		shape := make([]string, len(o))
		for i, x := range o {
			shape[i] = strings.SplitN(x, " = ", 2)[0]
		}
		vstat.Case(dupNew, vstat.Hash("conc-dup", cfg.String(), strings.Join(shape, ";")), func() any {
			return map[string]any{"test": "conc-dup", "config": cfg.String(), "ops": o}
		}, cls...)
	})
}

type cOp struct {
	Alloc bool
	Sub   int
}

type holdIv struct {
	sub      int
	b        block
	from, to int64 // definitely held from `from` (AllocateNAT returned) to `to` (DeallocateNAT called / end)
}

// TestPropConcurrentDisjoint: 2-3 goroutines, each owning its own subscribers, run generated
// allocate/deallocate lists against one manager in parallel.
//
// The case runs inside a testing/synctest bubble (generated outside): every goroutine sleeps one virtual second
// before each of its operations, so all of them wake at the same instant and their calls overlap for real, while
// the logger (size rotation, compression goroutines, optionally its own flush loop) sees a clock the harness owns.
func TestPropConcurrentDisjoint(t *testing.T) {
	vstat.Checks(1500, 30000)
	dir := t.TempDir()
	rapid.Check(t, func(rt *rapid.T) {
		cfg := genRoomyCfg().Draw(rt, "cfg")
		g := rapid.IntRange(2, 3).Draw(rt, "goroutines")
		exercise := rapid.IntRange(0, 3).Draw(rt, "exerciseKF1") == 0
		allocOnly := vstat.IsListed(sigOverlapCount) && !exercise
		lists := make([][]cOp, g)
		anyDealloc := false
		total := 0
		for i := 0; i < g; i++ {
			var own []int
			for s := i; s < nSubs; s += g {
				own = append(own, s)
			}
			n := rapid.IntRange(1, 14).Draw(rt, "n")
			total += n
			for j := 0; j < n; j++ {
				op := cOp{Alloc: true, Sub: rapid.SampledFrom(own).Draw(rt, "sub")}
				if !allocOnly && rapid.IntRange(0, 2).Draw(rt, "dealloc?") == 0 {
					op.Alloc = false
					anyDealloc = true
				}
				lists[i] = append(lists[i], op)
			}
		}
		// records one clock second can see: the g operations of a tick plus whatever a flush finds buffered
		// (bulk: the port-block buffer holds BufSize/10 records; per-allocation: BufSize records when the flush
		// loop runs, otherwise everything is written by the final flush)
		// burst: the goroutines run their lists back to back (the whole phase lies within one clock second; this is
		// what makes calls overlap for real); otherwise every goroutine sleeps one virtual second before each operation
		burst := rapid.IntRange(0, 4).Draw(rt, "burst") < 3
		bulk, buf := cfg.Bulk, cfg.BufSize
		genLogOpts(rt, &cfg, func(int) int {
			switch {
			case burst:
				return total + 1
			case bulk:
				return buf/10 + g + 1
			case cfg.Started:
				return buf + g + 1
			}
			return total
		})
		cfg.FlushEvery = 1
		var r disjointResult
		synctest.Test(t, func(*testing.T) { r = execDisjoint(dir, cfg, g, lists, anyDealloc, burst) })
		if r.sig != "" {
			vstat.Fail(rt, r.sig, "%s", r.msg)
		}
		cls := append([]string{"conc:disjoint", fmt.Sprintf("goroutines:%d", g), "cfg:" + cfg.Class}, r.rot...)
		if anyDealloc {
			cls = append(cls, "with-deallocations")
		} else {
			cls = append(cls, "allocate-only")
		}
		if burst {
			cls = append(cls, "pace:burst")
		} else {
			cls = append(cls, "pace:one-tick-per-second")
		}
		if r.simultaneous {
			cls = append(cls, "blocks-held-simultaneously")
		}
		if r.sig != "" {
			cls = append(cls, "kf-hit")
		}
		parts := []any{"conc-disjoint", cfg.String(), burst}
		for _, l := range lists {
			parts = append(parts, fmt.Sprint(l))
		}
		ls := lists
		vstat.Case(true, vstat.Hash(parts...), func() any {
			return map[string]any{"test": "conc-disjoint", "config": cfg.String(), "lists": fmt.Sprint(ls)}
		}, cls...)
	})
}

type disjointResult struct {
	sig, msg     string
	simultaneous bool
	rot          []string
}

// execDisjoint runs inside the bubble; the first violation is returned as a value.
func execDisjoint(dir string, cfg natCfg, g int, lists [][]cOp, anyDealloc, burst bool) (res disjointResult) {
	fail := func(sig, f string, a ...any) bool {
		if res.sig == "" {
			res.sig, res.msg = sig, fmt.Sprintf(f, a...)
		}
		return true
	}
	var ht harnessT
	e := newEnv(&ht, dir, cfg, nil)
	if e == nil {
		fail("C10/harness", "%s", ht.msg)
		return
	}
	e.inBubble = true
	defer e.close()
	e.start()
	{
		rs, re, pps := cfg.eff()
		var clock atomic.Int64
		type gres struct {
			ivs     []holdIv
			sig     string
			msg     string
			held    map[int]block
			nA, nR  map[int]int
			history []string
		}
		out := make([]gres, g)
		var wg sync.WaitGroup
		start := make(chan struct{})
		for i := 0; i < g; i++ {
			wg.Add(1)
			go func(i int) {
				defer wg.Done()
				r := &out[i]
				r.held, r.nA, r.nR = map[int]block{}, map[int]int{}, map[int]int{}
				since := map[int]int64{}
				<-start
				for _, op := range lists[i] {
					if !burst {
						// everybody wakes at the same virtual instant; seconds 0 mod 5 belong to the flush loop's ticker
						time.Sleep(time.Second)
						if !cfg.Prone && cfg.Started && int(time.Since(seqBase)/time.Second)%5 == 0 {
							time.Sleep(time.Second)
						}
					}
					if op.Alloc {
						a, err := e.m.AllocateNAT(privIP(op.Sub, false))
						now := clock.Add(1)
						if err != nil || a == nil || a.PublicIP == nil {
							r.history = append(r.history, fmt.Sprintf("alloc(s%d)=err", op.Sub))
							r.sig, r.msg = sigSpurious, fmt.Sprintf("alloc(s%d) failed (%v) although total capacity >= number of subscribers", op.Sub, err)
							if _, ok := r.held[op.Sub]; ok {
								r.sig = sigReaskFailed
							}
							return
						}
						b := toBlock(a)
						r.history = append(r.history, fmt.Sprintf("alloc(s%d)=%v", op.Sub, b))
						if h, ok := r.held[op.Sub]; ok {
							if h != b {
								r.sig, r.msg = sigChanged, fmt.Sprintf("alloc(s%d) while holding %v returned %v", op.Sub, h, b)
								return
							}
							continue
						}
						if b.End-b.Start+1 != pps {
							r.sig, r.msg = sigSize, fmt.Sprintf("alloc(s%d) -> %v, configured size %d", op.Sub, b, pps)
							return
						}
						if b.Start < rs || b.End > re {
							r.sig, r.msg = sigOutOfRange, fmt.Sprintf("alloc(s%d) -> %v outside %d-%d", op.Sub, b, rs, re)
							return
						}
						r.held[op.Sub] = b
						since[op.Sub] = now
						r.nA[op.Sub]++
						if got := e.m.GetAllocation(privIP(op.Sub, true)); got == nil || toBlock(got) != b {
							r.sig, r.msg = sigGetAlloc, fmt.Sprintf("GetAllocation(s%d) right after alloc -> %v: %v", op.Sub, b, got)
							return
						}
					} else {
						before := clock.Add(1)
						err := e.m.DeallocateNAT(privIP(op.Sub, false))
						r.history = append(r.history, fmt.Sprintf("dealloc(s%d)", op.Sub))
						if err != nil {
							r.sig, r.msg = sigDeallocErr, fmt.Sprintf("dealloc(s%d): %v", op.Sub, err)
							return
						}
						if b, ok := r.held[op.Sub]; ok {
							r.ivs = append(r.ivs, holdIv{op.Sub, b, since[op.Sub], before})
							delete(r.held, op.Sub)
							r.nR[op.Sub]++
						}
					}
				}
				end := int64(1) << 62
				for s, b := range r.held {
					r.ivs = append(r.ivs, holdIv{s, b, since[s], end})
				}
			}(i)
		}
		close(start)
		wg.Wait()
		e.settle()
		hist := func() string {
			var sb strings.Builder
			for i := range out {
				fmt.Fprintf(&sb, "goroutine %d: %s\n", i, strings.Join(out[i].history, "; "))
			}
			return sb.String()
		}
		dead := false
		overlapSig := sigConcOverlap
		if anyDealloc {
			overlapSig = sigConcOverlapDea
		}
		var all []holdIv
		held := map[int]block{}
		wantA, wantR := map[int]int{}, map[int]int{}
		for i := range out {
			if out[i].sig != "" && !dead {
				dead = fail(out[i].sig, "%s\nconfig: %v\n%s", out[i].msg, cfg, hist())
			}
			all = append(all, out[i].ivs...)
			for s, b := range out[i].held {
				held[s] = b
			}
			for s, n := range out[i].nA {
				wantA[s] += n
			}
			for s, n := range out[i].nR {
				wantR[s] += n
			}
		}
		sort.Slice(all, func(i, j int) bool {
			if all[i].from != all[j].from {
				return all[i].from < all[j].from
			}
			return all[i].sub < all[j].sub
		})
		for i := 0; i < len(all) && !dead; i++ {
			for j := i + 1; j < len(all) && !dead; j++ {
				a, b := all[i], all[j]
				if a.sub == b.sub || a.from >= b.to || b.from >= a.to {
					continue
				}
				res.simultaneous = true
				if overlaps(a.b, b.b) {
					dead = fail(overlapSig, "s%d held %v and s%d held %v at the same time\nconfig: %v\n%s", a.sub, a.b, b.sub, b.b, cfg, hist())
				}
			}
		}
		failedEarly := false
		for i := range out {
			if out[i].sig != "" {
				failedEarly = true
			}
		}
		ct := &capT{fail: fail}
		if !dead && !failedEarly {
			live, d := checkLiveTable(ct, cfg, e.m, hist, overlapSig)
			dead = d || res.sig != ""
			if !dead {
				if len(live) != len(held) {
					dead = fail(sigConcFinal, "final table %v, subscribers hold %v\nconfig: %v\n%s", live, held, cfg, hist())
				}
				for s, b := range held {
					if !dead && live[s] != b {
						dead = fail(sigConcFinal, "GetAllocation(s%d)=%v, the subscriber holds %v\nconfig: %v\n%s", s, live[s], b, cfg, hist())
					}
				}
			}
			if !dead {
				// the final flush gets a clock second of its own
				time.Sleep(time.Second)
				if !cfg.Prone && cfg.Started && int(time.Since(seqBase)/time.Second)%5 == 0 {
					time.Sleep(time.Second)
				}
				e.settle()
				st, err := e.readAll(true, 2)
				if err != nil {
					if cfg.Prone && e.sawRotated && vstat.IsListed(sigRotSameSecond) {
						dead = fail(sigRotSameSecond, "%v\nconfig: %v\n%s", err, cfg, hist())
					} else {
						dead = fail(sigLogUnparsable, "%v\nconfig: %v\n%s", err, cfg, hist())
					}
				} else {
					dead = checkLogMultiset(ct, cfg, st.recs, held, wantA, wantR, hist) || res.sig != ""
					if cfg.Prone && e.sawRotated && vstat.IsListed(sigRotSameSecond) && res.sig == sigConcLog {
						// several rotations shared a clock second in this case: the loss is the listed finding
						res.sig = sigRotSameSecond
					}
				}
			}
		}
		res.rot = e.rotClasses()
	}
	return
}

// capT adapts the value-returning failure recorder of a bubble to the helpers that report through vstat.Fail.
type capT struct {
	fail func(sig, f string, a ...any) bool
}

func (c *capT) Helper() {}
func (c *capT) Fatalf(f string, a ...any) {
	msg := fmt.Sprintf(f, a...)
	sig := "C10/unclassified"
	if strings.HasPrefix(msg, "VIOLATION sig=") {
		rest := strings.TrimPrefix(msg, "VIOLATION sig=")
		if i := strings.Index(rest, ":"); i > 0 {
			sig, msg = rest[:i], strings.TrimSpace(rest[i+1:])
		}
	}
	c.fail(sig, "%s", msg)
}
