package c10

import (
	"encoding/json"
	"fmt"
	"os"
	"path/filepath"
	"sort"
	"strings"
	"testing"
	"testing/synctest"
	"time"

	"go.uber.org/zap"

	"bngverif/internal/vstat"
)

// replayCase is the JSON shape of the committed regression inputs in /verif/replays/C10/*.json.
//
//	kind "seq": ops "a<i>" = AllocateNAT(subscriber i), "d<i>" = DeallocateNAT(subscriber i), "T<s>" = s seconds of quiet (virtual time), run through the full model
//	kind "dup": k concurrent AllocateNAT(sub) while AllocateNAT(helper) is parked at its last statement
type replayCase struct {
	Kind       string   `json:"kind"`
	Name       string   `json:"name"`
	Config     natCfg   `json:"config"`
	LiteralLog bool     `json:"literal_log"`
	Ops        []string `json:"ops"`
	K          int      `json:"k"`
	Sub        int      `json:"sub"`
	Helper     int      `json:"helper"`
	SettleMS   int      `json:"settle_ms"`
}

func replayFiles(t *testing.T) []string {
	if f := os.Getenv("VERIF_REPLAY_FILE"); f != "" {
		return []string{f}
	}
	dir := os.Getenv("VERIF_REPLAYS")
	if dir == "" {
		dir = "../../replays/C10"
	}
	fs, _ := filepath.Glob(filepath.Join(dir, "*.json"))
	sort.Strings(fs)
	return fs
}

// TestReplayCases runs every committed JSON case.  Cases that reproduce a listed known finding report
// through the same signature as the generated tier, so they are silent while the finding is listed and
// fail again if an applied fix is reverted.
func TestReplayCases(t *testing.T) {
	dir := t.TempDir()
	for _, f := range replayFiles(t) {
		b, err := os.ReadFile(f)
		if err != nil {
			t.Fatalf("INCONCLUSIVE: %v", err)
		}
		var c replayCase
		if err := json.Unmarshal(b, &c); err != nil {
			t.Fatalf("INCONCLUSIVE: %s: %v", f, err)
		}
		switch c.Kind {
		case "seq":
			// rotation configurations run in a bubble: not "Prone" = one virtual second per operation
			var m *model
			run := func(bubble bool) {
				e := newEnv(t, dir, c.Config, nil)
				e.inBubble = bubble
				e.start()
				m = newModel(c.Config, e.pubs, c.LiteralLog)
				for _, o := range c.Ops {
					var sub int
					if o[0] == 'T' { // "T<seconds>": a quiet period (bubble only)
						var sec int
						if _, err := fmt.Sscanf(o[1:], "%d", &sec); err == nil && bubble {
							e.advance(time.Duration(sec) * time.Second)
						}
						continue
					}
					if _, err := fmt.Sscanf(o[1:], "%d", &sub); err != nil || sub < 0 || sub >= nSubs || (o[0] != 'a' && o[0] != 'd') {
						m.fail(t, "C10/harness", "INCONCLUSIVE: %s: bad op %q", f, o)
						break
					}
					if bubble && !c.Config.Prone {
						time.Sleep(time.Second)
						e.settle()
						e.stampMtimes()
					}
					m.step(t, e, o[0] == 'a', sub, false)
				}
				if bubble && !c.Config.Prone {
					time.Sleep(time.Second)
				}
				m.finish(t, e)
				e.close()
			}
			if c.Config.MaxFileSize > 0 || c.Config.Started || c.Config.MaxAge > 0 {
				synctest.Test(t, func(*testing.T) { run(true) })
			} else {
				run(false)
			}
			m.report(t)
			m.record("replay:" + filepath.Base(f))
		case "dup":
			gate := newGate(allocatedMsg)
			e := newEnv(t, dir, c.Config, zap.New(gate))
			res, _ := dupRound(e, gate, c.Sub, c.K, true, c.Helper, time.Duration(c.SettleMS)*time.Millisecond)
			strs := make([]string, len(res))
			same := true
			for i, x := range res {
				strs[i] = x.String()
				if x.err != nil || x.nil || x.b != res[0].b {
					same = false
				}
			}
			if !same {
				vstat.Fail(t, sigConcDup, "%d concurrent AllocateNAT(s%d) calls were answered differently: %s (config %v)", c.K, c.Sub, strings.Join(strs, ","), c.Config)
			}
			e.close()
			vstat.Case(true, vstat.Hash("replay", f), nil, "replay:"+filepath.Base(f))
		default:
			t.Fatalf("INCONCLUSIVE: %s: unknown kind %q", f, c.Kind)
		}
	}
}
