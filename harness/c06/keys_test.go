package c06

// Derived keys: MAC -> 64 bit and circuit-id -> fixed 32-byte key, Go derivation against the C
// derivation executed natively (static inline helpers called through the engine's CALL thunks), and
// the bytes the Go side stores in a real kernel map against the bytes the C side passes to
// bpf_map_lookup_elem (the helper's result in native byte order).

import (
	"bytes"
	"encoding/binary"
	"fmt"
	"net"
	"testing"

	"go.uber.org/zap"
	"pgregory.net/rapid"

	"github.com/codelaboratoryltd/bng/pkg/antispoof"
	bngebpf "github.com/codelaboratoryltd/bng/pkg/ebpf"
	"github.com/codelaboratoryltd/bng/pkg/walledgarden"

	"bngverif/internal/bpfnative"
	"bngverif/internal/vstat"
)

func genMAC(rt *rapid.T, label string) (mac6, string) {
	var m mac6
	switch rapid.IntRange(0, 9).Draw(rt, label+".cls") {
	case 0:
		return mac6{}, "mac:zero"
	case 1:
		return mac6{0xff, 0xff, 0xff, 0xff, 0xff, 0xff}, "mac:broadcast"
	case 2:
		i := rapid.IntRange(0, 47).Draw(rt, label+".bit")
		m[i/8] = 1 << uint(i%8)
		return m, "mac:single-bit"
	case 3:
		// one byte set, the rest zero: position errors show
		m[rapid.IntRange(0, 5).Draw(rt, label+".pos")] = rapid.Byte().Draw(rt, label+".b")
		return m, "mac:one-byte"
	default:
		s := rapid.IntRange(0, 254).Draw(rt, label+".s")
		d := rapid.IntRange(1, 40).Draw(rt, label+".d")
		for i := range m {
			m[i] = byte((s+i*d)%255 + 1)
		}
		return m, "mac:distinct-bytes"
	}
}

func genIP(rt *rapid.T, label string) (ip4, string) {
	switch rapid.IntRange(0, 9).Draw(rt, label+".cls") {
	case 0:
		return ip4{10, 0, 0, 1}, "ip:10.0.0.1"
	case 1:
		i := rapid.IntRange(0, 31).Draw(rt, label+".bit")
		var a ip4
		a[i/8] = 1 << uint(i%8)
		return a, "ip:single-bit"
	case 2:
		b := rapid.SampledFrom([]ip4{{255, 255, 255, 254}, {0, 0, 0, 1}, {127, 255, 255, 255}, {128, 0, 0, 0}, {192, 168, 0, 255}, {100, 64, 0, 1}, {172, 16, 31, 254}}).Draw(rt, label+".bnd")
		return b, "ip:boundary"
	case 3:
		// palindromic addresses look the same in both byte orders
		x, y := rapid.Byte().Draw(rt, label+".x"), rapid.Byte().Draw(rt, label+".y")
		return ip4{x, y, y, x}, "ip:palindrome"
	default:
		s := rapid.IntRange(0, 254).Draw(rt, label+".s")
		d := rapid.IntRange(1, 60).Draw(rt, label+".d")
		var a ip4
		for i := range a {
			a[i] = byte((s+i*d)%255 + 1)
		}
		return a, "ip:distinct-bytes"
	}
}

func le64(u uint64) []byte { return binary.LittleEndian.AppendUint64(nil, u) }

func callOK(t fataler, c *bpfnative.Client, helper string, args [4]uint64, in []byte) bpfnative.CallResult {
	t.Helper()
	r, err := c.Call(helper, args, in, nil, bpfnative.EndFlush)
	if err != nil {
		t.Fatalf("INCONCLUSIVE: CALL %s: %v", helper, err)
	}
	if r.Fault.Faulted() {
		t.Fatalf("INCONCLUSIVE: CALL %s faulted: %s", helper, r.Fault)
	}
	return r
}

// TestPropKeysMAC: every Go MAC->uint64 derivation against the C ones, on the same six bytes.
func TestPropKeysMAC(t *testing.T) {
	c := engine(t)
	subPools := kernelMap(t, c, "subscriber_pools")
	bindings := kernelMap(t, c, "subscriber_bindings")
	defer subPools.Close()
	defer bindings.Close()
	loader, err := bngebpf.NewLoader("lo", zap.NewNop())
	if err != nil {
		t.Fatalf("INCONCLUSIVE: %v", err)
	}
	loader.VerifC06SetMaps(map[string]*ebpfMap{"subscriber_pools": subPools})
	asm, err := antispoof.NewManager(antispoof.ManagerConfig{Interface: "lo"}, zap.NewNop())
	if err != nil {
		t.Fatalf("INCONCLUSIVE: %v", err)
	}
	asm.VerifC06SetMaps(map[string]*ebpfMap{"subscriber_bindings": bindings})
	// pkg/walledgarden has no C counterpart under bpf/; its subscriber map is keyed by MAC like the others
	wgMap := hashMap(t, "wg_subscribers", 8, binary.Size(walledgarden.WalledGardenEntry{}))
	defer wgMap.Close()
	wg := walledgarden.NewManager(walledgarden.DefaultConfig(), zap.NewNop())
	wg.SetEBPFMaps(wgMap, nil, nil)

	vstat.Checks(4000, 60000)
	rapid.Check(t, func(rt *rapid.T) {
		mac, cls := genMAC(rt, "mac")
		hw := net.HardwareAddr(mac[:])
		cDhcp := callOK(rt, c, "dhcp_fastpath.mac_to_u64", [4]uint64{}, mac[:]).Ret
		cAnti := callOK(rt, c, "antispoof.mac_to_u64", [4]uint64{}, mac[:]).Ret

		if g := bngebpf.MACToUint64(hw); g != cDhcp {
			if vstat.Fail(rt, sig("ebpf.MACToUint64~dhcp_fastpath.mac_to_u64", "value"), "MAC %s: Go %#x, C %#x", hw, g, cDhcp) {
				return
			}
		}
		if back := bngebpf.Uint64ToMAC(cDhcp); !bytes.Equal(back, mac[:]) {
			if vstat.Fail(rt, sig("ebpf.Uint64ToMAC~dhcp_fastpath.mac_to_u64", "value"), "C key %#x of MAC %s converts back to %s", cDhcp, hw, back) {
				return
			}
		}
		// the key bytes the DHCP slow path stores (server.go: AddSubscriber(MACToUint64(mac), ...))
		clearMap(subPools)
		if err := loader.AddSubscriber(bngebpf.MACToUint64(hw), &bngebpf.PoolAssignment{PoolID: 1}); err != nil {
			if vstat.Fail(rt, sig("ebpf.Loader.AddSubscriber~subscriber_pools", "put-refused"), "AddSubscriber: %v", err) {
				return
			}
		} else if ents := dumpKernel(rt, subPools); len(ents) != 1 || !bytes.Equal(ents[0].Key, le64(cDhcp)) {
			if vstat.Fail(rt, sig("ebpf.MACToUint64~subscriber_pools.key", "key-bytes"), "MAC %s: stored key %x, C looks up %x", hw, keysOf(ents), le64(cDhcp)) {
				return
			}
		}
		// antispoof.macToUint64 through AddBinding
		clearMap(bindings)
		if err := asm.AddBinding(hw, net.IPv4(10, 1, 2, 3)); err != nil {
			if vstat.Fail(rt, sig("antispoof.Manager.AddBinding~subscriber_bindings", "put-refused"), "AddBinding: %v", err) {
				return
			}
		} else if ents := dumpKernel(rt, bindings); len(ents) != 1 || !bytes.Equal(ents[0].Key, le64(cAnti)) {
			if vstat.Fail(rt, sig("antispoof.macToUint64~subscriber_bindings.key", "key-bytes"), "MAC %s: stored key %x, C looks up %x", hw, keysOf(ents), le64(cAnti)) {
				return
			}
		}
		// walledgarden.macToUint64 through AddToWalledGarden
		clearMap(wgMap)
		if err := wg.AddToWalledGarden(hw, 100); err != nil {
			if vstat.Fail(rt, sig("walledgarden.Manager.AddToWalledGarden", "put-refused"), "AddToWalledGarden: %v", err) {
				return
			}
		} else if ents := dumpKernel(rt, wgMap); len(ents) != 1 || !bytes.Equal(ents[0].Key, le64(cDhcp)) {
			if vstat.Fail(rt, sig("walledgarden.macToUint64~mac_to_u64", "key-bytes"), "MAC %s: stored key %x, the C programs derive %x", hw, keysOf(ents), le64(cDhcp)) {
				return
			}
		}
		vstat.Case(nonTrivialField([]uint64{uint64(mac[0]), uint64(mac[1]), uint64(mac[2]), uint64(mac[3]), uint64(mac[4]), uint64(mac[5])}, 1),
			vstat.Hash("mac", mac[:]), func() any { return map[string]any{"mac": hw.String(), "c": fmt.Sprintf("%#x", cDhcp)} }, cls)
	})
}

func keysOf(ents []rawEntry) []string {
	var out []string
	for _, e := range ents {
		out = append(out, hexs(e.Key))
	}
	return out
}

// circuitIDCase is one generated circuit-id and the request that carries it.
type circuitIDCase struct {
	cid    []byte
	remote []byte
	pos    int
	cls    string
}

func genCircuitID(rt *rapid.T) circuitIDCase {
	var cc circuitIDCase
	var n int
	switch rapid.IntRange(0, 9).Draw(rt, "lencls") {
	case 0:
		n, cc.cls = 32, "cid:len=32"
	case 1:
		n, cc.cls = rapid.IntRange(1, 2).Draw(rt, "len"), "cid:len=1-2"
	case 2, 3:
		n, cc.cls = rapid.IntRange(33, 64).Draw(rt, "len"), "cid:len>32"
	case 4:
		n, cc.cls = 0, "cid:len=0"
	default:
		n, cc.cls = rapid.IntRange(3, 31).Draw(rt, "len"), "cid:len=3-31"
	}
	cc.cid = rapid.SliceOfN(rapid.Byte(), n, n).Draw(rt, "cid")
	if n > 0 {
		switch rapid.IntRange(0, 5).Draw(rt, "tail") {
		case 0: // trailing zero bytes: padding must not be confused with content
			z := rapid.IntRange(1, n).Draw(rt, "zeros")
			for i := n - z; i < n; i++ {
				cc.cid[i] = 0
			}
		case 1:
			for i := range cc.cid {
				cc.cid[i] = 0xff
			}
		}
	}
	if n < 2 || rapid.Bool().Draw(rt, "withRemote") {
		// RFC 3046 relay agents normally add a remote-id; with a circuit-id shorter than two bytes it
		// is what makes the option long enough for the program's fixed-position parser
		cc.remote = rapid.SliceOfN(rapid.Byte(), 2, 8).Draw(rt, "remote")
	}
	cc.pos = rapid.SampledFrom([]int{3, 3, 12, 13, 14, 15, 16, 17, 18, 19}).Draw(rt, "pos")
	return cc
}

// TestPropKeysCircuitID: the key AddCircuitIDSubscriber stores for a circuit-id against the key
// extract_circuit_id_fixed builds from a request carrying that circuit-id.
func TestPropKeysCircuitID(t *testing.T) {
	c := engine(t)
	cidSubs := kernelMap(t, c, "circuit_id_subscribers")
	defer cidSubs.Close()
	loader, err := bngebpf.NewLoader("lo", zap.NewNop())
	if err != nil {
		t.Fatalf("INCONCLUSIVE: %v", err)
	}
	loader.VerifC06SetMaps(map[string]*ebpfMap{"circuit_id_subscribers": cidSubs})
	// HashCircuitID: is there anything on the C side to compare with?
	uses := 0
	for _, s := range c.Sites() {
		if s.Map == "circuit_id_map" {
			uses++
		}
	}
	if uses == 0 {
		note("HashCircuitID", "bpf/ declares circuit_id_map but no program looks it up and no FNV-1a implementation exists in C: nothing to compare ebpf.HashCircuitID with")
	} else {
		t.Fatalf("VIOLATION sig=%s: bpf/ now looks up circuit_id_map at %d call sites; this check has no comparison for the C hash yet", sig("ebpf.HashCircuitID", "unchecked-c-implementation"), uses)
	}

	vstat.Checks(4000, 60000)
	rapid.Check(t, func(rt *rapid.T) { circuitIDProperty(rt, c, loader, cidSubs, genCircuitID(rt)) })
}

func circuitIDProperty(rt fataler, c *bpfnative.Client, loader *bngebpf.Loader, cidSubs *ebpfMap, cc circuitIDCase) {
	bootp := bootpRequest(1, 0x11223344, mac6{2, 0, 0, 0, 0, 1}, opt82{present: true, circuitID: cc.cid, remoteID: cc.remote, pos: cc.pos})
	r := callOK(rt, c, "dhcp_fastpath.extract_circuit_id_fixed", [4]uint64{}, bootp)
	cFound, cKey := r.Ret != 0, r.Out
	sample := func() any {
		return map[string]any{"circuit_id": hexs(cc.cid), "pos": cc.pos, "c_found": cFound, "c_key": hexs(cKey)}
	}
	fp := vstat.Hash("cid", cc.cid, cc.remote, cc.pos)
	nt := len(cc.cid) >= 2

	if len(cc.cid) == 0 {
		// the slow path never stores an empty circuit-id (server.go guards len > 0); the C side must not
		// invent a key either
		if cFound && !vstat.Fail(rt, sig("extract_circuit_id_fixed", "key-for-empty-circuit-id"), "C derives key %x from an empty circuit-id sub-option", cKey) {
			return
		}
		vstat.Case(false, fp, sample, cc.cls)
		return
	}
	clearMap(cidSubs)
	err := loader.AddCircuitIDSubscriber(cc.cid, &bngebpf.PoolAssignment{PoolID: 7})
	if err != nil {
		if len(cc.cid) <= bngebpf.CircuitIDKeyLen {
			if vstat.Fail(rt, sig("ebpf.Loader.AddCircuitIDSubscriber~circuit_id_subscribers", "put-refused"), "AddCircuitIDSubscriber(%x): %v", cc.cid, err) {
				return
			}
		}
		// the Go side declines to derive a key: nothing stored, nothing to disagree about
		vstat.Case(nt, fp, sample, cc.cls, "cid:go-declined")
		return
	}
	ents := dumpKernel(rt, cidSubs)
	if len(ents) != 1 {
		rt.Fatalf("INCONCLUSIVE: %d entries after one AddCircuitIDSubscriber", len(ents))
	}
	goKey := ents[0].Key
	if mk := bngebpf.MakeCircuitIDKey(cc.cid); !bytes.Equal(mk[:], goKey) {
		if vstat.Fail(rt, sig("ebpf.CircuitIDKey~circuit_id_key", "key-bytes"), "MakeCircuitIDKey = %x but the map holds key %x", mk[:], goKey) {
			return
		}
	}
	switch {
	case len(cc.cid) > bngebpf.CircuitIDKeyLen:
		if !cFound {
			if vstat.Fail(rt, sig("ebpf.MakeCircuitIDKey~extract_circuit_id_fixed", "over-32-bytes"),
				"circuit-id of %d bytes: Go stores the entry under the truncated key %x, the C side derives no key for it (cid_len > CIRCUIT_ID_KEY_LEN is rejected)", len(cc.cid), goKey) {
				return
			}
		} else if !bytes.Equal(cKey, goKey) {
			if vstat.Fail(rt, sig("ebpf.MakeCircuitIDKey~extract_circuit_id_fixed", "key-mismatch"), "circuit-id %x: Go key %x, C key %x", cc.cid, goKey, cKey) {
				return
			}
		}
	case !cFound:
		if vstat.Fail(rt, sig("ebpf.MakeCircuitIDKey~extract_circuit_id_fixed", "c-derives-no-key"),
			"circuit-id %x (%d bytes) at options offset %d: C derives no key, Go stored %x", cc.cid, len(cc.cid), cc.pos, goKey) {
			return
		}
	case !bytes.Equal(cKey, goKey):
		if vstat.Fail(rt, sig("ebpf.MakeCircuitIDKey~extract_circuit_id_fixed", "key-mismatch"), "circuit-id %x: Go key %x, C key %x", cc.cid, goKey, cKey) {
			return
		}
	}
	vstat.Case(nt, fp, sample, cc.cls, fmt.Sprintf("cid:pos=%d", min(cc.pos, 12)))
}
