package c06

// Derived keys: MAC -> 64 bit and circuit-id -> fixed 32-byte key, Go derivation against the C
// derivation executed natively (static inline helpers called through the engine's CALL thunks), and
// the bytes the Go side stores in a real kernel map against the bytes the C side passes to
// bpf_map_lookup_elem (the helper's result in native byte order).

import (
	"bytes"
	"encoding/binary"
	"fmt"
	"net"
	"testing"

	"go.uber.org/zap"
	"pgregory.net/rapid"

	"github.com/codelaboratoryltd/bng/pkg/antispoof"
	bngebpf "github.com/codelaboratoryltd/bng/pkg/ebpf"
	"github.com/codelaboratoryltd/bng/pkg/walledgarden"

	"bngverif/internal/bpfnative"
	"bngverif/internal/vstat"
)

func genMAC(rt *rapid.T, label string) (mac6, string) {
	var m mac6
	switch rapid.IntRange(0, 9).Draw(rt, label+".cls") {
	case 0:
		return mac6{}, "mac:zero"
	case 1:
		return mac6{0xff, 0xff, 0xff, 0xff, 0xff, 0xff}, "mac:broadcast"
	case 2:
		i := rapid.IntRange(0, 47).Draw(rt, label+".bit")
		m[i/8] = 1 << uint(i%8)
		return m, "mac:single-bit"
	case 3:
		// one byte set, the rest zero: position errors show
		m[rapid.IntRange(0, 5).Draw(rt, label+".pos")] = rapid.Byte().Draw(rt, label+".b")
		return m, "mac:one-byte"
	default:
		s := rapid.IntRange(0, 254).Draw(rt, label+".s")
		d := rapid.IntRange(1, 40).Draw(rt, label+".d")
		for i := range m {
			m[i] = byte((s+i*d)%255 + 1)
		}
		return m, "mac:distinct-bytes"
	}
}

func genIP(rt *rapid.T, label string) (ip4, string) {
	switch rapid.IntRange(0, 9).Draw(rt, label+".cls") {
	case 0:
		return ip4{10, 0, 0, 1}, "ip:10.0.0.1"
	case 1:
		i := rapid.IntRange(0, 31).Draw(rt, label+".bit")
		var a ip4
		a[i/8] = 1 << uint(i%8)
		return a, "ip:single-bit"
	case 2:
		b := rapid.SampledFrom([]ip4{{255, 255, 255, 254}, {0, 0, 0, 1}, {127, 255, 255, 255}, {128, 0, 0, 0}, {192, 168, 0, 255}, {100, 64, 0, 1}, {172, 16, 31, 254}}).Draw(rt, label+".bnd")
		return b, "ip:boundary"
	case 3:
		// palindromic addresses look the same in both byte orders
		x, y := rapid.Byte().Draw(rt, label+".x"), rapid.Byte().Draw(rt, label+".y")
		return ip4{x, y, y, x}, "ip:palindrome"
	default:
		s := rapid.IntRange(0, 254).Draw(rt, label+".s")
		d := rapid.IntRange(1, 60).Draw(rt, label+".d")
		var a ip4
		for i := range a {
			a[i] = byte((s+i*d)%255 + 1)
		}
		return a, "ip:distinct-bytes"
	}
}

func le64(u uint64) []byte { return binary.LittleEndian.AppendUint64(nil, u) }

func callOK(t fataler, c *bpfnative.Client, helper string, args [4]uint64, in []byte) bpfnative.CallResult {
	t.Helper()
	r, err := c.Call(helper, args, in, nil, bpfnative.EndFlush)
	if err != nil {
		t.Fatalf("INCONCLUSIVE: CALL %s: %v", helper, err)
	}
	if r.Fault.Faulted() {
		t.Fatalf("INCONCLUSIVE: CALL %s faulted: %s", helper, r.Fault)
	}
	return r
}

// TestPropKeysMAC: every Go MAC->uint64 derivation against the C ones, on the same six bytes.
func TestPropKeysMAC(t *testing.T) {
	c := engine(t)
	subPools := kernelMap(t, c, "subscriber_pools")
	bindings := kernelMap(t, c, "subscriber_bindings")
	defer subPools.Close()
	defer bindings.Close()
	loader, err := bngebpf.NewLoader("lo", zap.NewNop())
	if err != nil {
		t.Fatalf("INCONCLUSIVE: %v", err)
	}
	loader.VerifC06SetMaps(map[string]*ebpfMap{"subscriber_pools": subPools})
	asm, err := antispoof.NewManager(antispoof.ManagerConfig{Interface: "lo"}, zap.NewNop())
	if err != nil {
		t.Fatalf("INCONCLUSIVE: %v", err)
	}
	asm.VerifC06SetMaps(map[string]*ebpfMap{"subscriber_bindings": bindings})
	// pkg/walledgarden has no C counterpart under bpf/; its subscriber map is keyed by MAC like the others
	wgMap := hashMap(t, "wg_subscribers", 8, binary.Size(walledgarden.WalledGardenEntry{}))
	defer wgMap.Close()
	wg := walledgarden.NewManager(walledgarden.DefaultConfig(), zap.NewNop())
	wg.SetEBPFMaps(wgMap, nil, nil)

	vstat.Checks(4000, 60000)
	rapid.Check(t, func(rt *rapid.T) {
		mac, cls := genMAC(rt, "mac")
		hw := net.HardwareAddr(mac[:])
		cDhcp := callOK(rt, c, "dhcp_fastpath.mac_to_u64", [4]uint64{}, mac[:]).Ret
		cAnti := callOK(rt, c, "antispoof.mac_to_u64", [4]uint64{}, mac[:]).Ret

		if g := bngebpf.MACToUint64(hw); g != cDhcp {
			if vstat.Fail(rt, sig("ebpf.MACToUint64~dhcp_fastpath.mac_to_u64", "value"), "MAC %s: Go %#x, C %#x", hw, g, cDhcp) {
				return
			}
		}
		if back := bngebpf.Uint64ToMAC(cDhcp); !bytes.Equal(back, mac[:]) {
			if vstat.Fail(rt, sig("ebpf.Uint64ToMAC~dhcp_fastpath.mac_to_u64", "value"), "C key %#x of MAC %s converts back to %s", cDhcp, hw, back) {
				return
			}
		}
		// the key bytes the DHCP slow path stores (server.go: AddSubscriber(MACToUint64(mac), ...))
		clearMap(subPools)
		if err := loader.AddSubscriber(bngebpf.MACToUint64(hw), &bngebpf.PoolAssignment{PoolID: 1}); err != nil {
			if vstat.Fail(rt, sig("ebpf.Loader.AddSubscriber~subscriber_pools", "put-refused"), "AddSubscriber: %v", err) {
				return
			}
		} else if ents := dumpKernel(rt, subPools); len(ents) != 1 || !bytes.Equal(ents[0].Key, le64(cDhcp)) {
			if vstat.Fail(rt, sig("ebpf.MACToUint64~subscriber_pools.key", "key-bytes"), "MAC %s: stored key %x, C looks up %x", hw, keysOf(ents), le64(cDhcp)) {
				return
			}
		}
		// antispoof.macToUint64 through AddBinding
		clearMap(bindings)
		if err := asm.AddBinding(hw, net.IPv4(10, 1, 2, 3)); err != nil {
			if vstat.Fail(rt, sig("antispoof.Manager.AddBinding~subscriber_bindings", "put-refused"), "AddBinding: %v", err) {
				return
			}
		} else if ents := dumpKernel(rt, bindings); len(ents) != 1 || !bytes.Equal(ents[0].Key, le64(cAnti)) {
			if vstat.Fail(rt, sig("antispoof.macToUint64~subscriber_bindings.key", "key-bytes"), "MAC %s: stored key %x, C looks up %x", hw, keysOf(ents), le64(cAnti)) {
				return
			}
		}
		// walledgarden.macToUint64 through AddToWalledGarden
		clearMap(wgMap)
		if err := wg.AddToWalledGarden(hw, 100); err != nil {
			if vstat.Fail(rt, sig("walledgarden.Manager.AddToWalledGarden", "put-refused"), "AddToWalledGarden: %v", err) {
				return
			}
		} else if ents := dumpKernel(rt, wgMap); len(ents) != 1 || !bytes.Equal(ents[0].Key, le64(cDhcp)) {
			if vstat.Fail(rt, sig("walledgarden.macToUint64~mac_to_u64", "key-bytes"), "MAC %s: stored key %x, the C programs derive %x", hw, keysOf(ents), le64(cDhcp)) {
				return
			}
		}
		vstat.Case(nonTrivialField([]uint64{uint64(mac[0]), uint64(mac[1]), uint64(mac[2]), uint64(mac[3]), uint64(mac[4]), uint64(mac[5])}, 1),
			vstat.Hash("mac", mac[:]), func() any { return map[string]any{"mac": hw.String(), "c": fmt.Sprintf("%#x", cDhcp)} }, cls)
	})
}

func keysOf(ents []rawEntry) []string {
	var out []string
	for _, e := range ents {
		out = append(out, hexs(e.Key))
	}
	return out
}
