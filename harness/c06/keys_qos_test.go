package c06

// pkg/qos  <->  bpf/qos_ratelimit.c, decided on packets: qos.Manager.SetSubscriberQoS writes the two
// token buckets of a subscriber into real kernel maps with the C-declared geometry; the maps are
// copied byte for byte into the natively compiled TC programs, which are run on a packet to / from
// that subscriber's address.  The bucket must be found under the key the program derives from the
// packet (ip->daddr / ip->saddr), and the rates / burst / priority the program then works with must
// be the configured ones.  GetStats must return what the program counted.

import (
	"encoding/binary"
	"fmt"
	"testing"

	"go.uber.org/zap"
	"pgregory.net/rapid"

	"github.com/codelaboratoryltd/bng/pkg/qos"

	"bngverif/internal/bpfnative"
	"bngverif/internal/vstat"
)

type qosEnv struct {
	c               *bpfnative.Client
	egress, ingress *ebpfMap
	stats           *ebpfMap
	tb, st          *cStruct
}

func newQosEnv(t fataler) *qosEnv {
	e := &qosEnv{c: engine(t)}
	e.egress = kernelMap(t, e.c, "qos_egress")
	e.ingress = kernelMap(t, e.c, "qos_ingress")
	e.stats = kernelMap(t, e.c, "qos_stats_map")
	e.tb = mustLayout(t, "qos_ratelimit", "token_bucket")
	e.st = mustLayout(t, "qos_ratelimit", "qos_stats")
	return e
}

func (e *qosEnv) close() { e.egress.Close(); e.ingress.Close(); e.stats.Close() }

type qosCase struct {
	ip       ip4
	peer     ip4
	down, up uint64
	burst    uint32
	prio     uint8
	classes  []string
}

func genQos(rt *rapid.T) qosCase {
	var c qosCase
	var cls string
	c.ip, cls = genIP(rt, "ip")
	c.classes = append(c.classes, cls)
	c.peer, _ = genIP(rt, "peer")
	if c.peer == c.ip || c.peer == c.ip.reversed() {
		c.peer = ip4{c.ip[0] ^ 0x55, c.ip[1], c.ip[2], c.ip[3] ^ 0x33}
	}
	rate := func(l string) uint64 {
		switch rapid.IntRange(0, 4).Draw(rt, l+".cls") {
		case 0:
			return rapid.SampledFrom([]uint64{1_000_000, 100_000_000, 1_000_000_000, 10_000_000_000, 0x0102030405060708}).Draw(rt, l+".bnd")
		default:
			return drawElem(rt, 8, clsDistinct, l)
		}
	}
	c.down, c.up = rate("down"), rate("up")
	switch rapid.IntRange(0, 3).Draw(rt, "burst.cls") {
	case 0:
		c.burst = 0 // derived from the rate by SetSubscriberQoS
		c.classes = append(c.classes, "burst:derived")
	default:
		c.burst = uint32(drawElem(rt, 4, clsDistinct, "burst")) | 0x00010000 // >= 64 KiB: the first packet passes
		c.classes = append(c.classes, "burst:explicit")
	}
	c.prio = uint8(rapid.IntRange(0, 255).Draw(rt, "prio"))
	return c
}

// statsTotal returns packets_passed + packets_dropped of the runner's qos_stats_map.
func (e *qosEnv) statsRaw(t fataler) []byte {
	v, err := e.c.LookupValue("qos_stats_map", []byte{0, 0, 0, 0})
	if err != nil || v == nil {
		t.Fatalf("INCONCLUSIVE: qos_stats_map slot 0 in the runner: %v", err)
	}
	return v
}

func cMember(t fataler, cs *cStruct, path string, raw []byte) uint64 {
	for _, f := range cs.Fields {
		if f.Path == path {
			v, ok := decodeLE(raw, f.Off, f.Elem, f.Count)
			if !ok {
				t.Fatalf("INCONCLUSIVE: member %s.%s outside %d bytes", cs.Name, path, len(raw))
			}
			return v[0]
		}
	}
	t.Fatalf("INCONCLUSIVE: struct %s has no member %s any more; the harness has to be taught the new name", cs.Name, path)
	return 0
}

// qosDirection runs one direction.  Returns false if the case has to be abandoned.
func (e *qosEnv) direction(t fataler, c qosCase, dir string, wantRate uint64, wantBurst uint32) bool {
	prog, cmap, kmap := "qos_egress_prog", "qos_egress", e.egress
	if dir == "ingress" {
		prog, cmap, kmap = "qos_ingress_prog", "qos_ingress", e.ingress
	}
	frameFor := func(sub ip4) []byte {
		if dir == "egress" {
			return ipFrame(mac6{2, 0, 0, 0, 0, 1}, mac6{2, 0, 0, 0, 0, 2}, c.peer, sub, 17, 4000, 5000)
		}
		return ipFrame(mac6{2, 0, 0, 0, 0, 2}, mac6{2, 0, 0, 0, 0, 1}, sub, c.peer, 17, 4000, 5000)
	}
	run := func(sub ip4, copyMaps bool) (bpfnative.Result, bool, []byte) {
		if copyMaps {
			if _, err := e.c.CopyKernelMap(kmap, cmap); err != nil {
				t.Fatalf("INCONCLUSIVE: copying %s into the runner: %v", cmap, err)
			}
		}
		if err := e.c.ClearMaps("qos_stats_map"); err != nil {
			t.Fatalf("INCONCLUSIVE: %v", err)
		}
		_ = e.c.SetClock(1_000_000_000)
		opts := bpfnative.DefaultOpts()
		opts.Priority = 0xdead
		res, err := e.c.Run(prog, frameFor(sub), opts)
		if err != nil {
			t.Fatalf("INCONCLUSIVE: RUN %s: %v", prog, err)
		}
		if res.Fault.Faulted() {
			t.Fatalf("INCONCLUSIVE: %s faulted (%s) — that is C07's business", prog, res.Fault)
		}
		st := e.statsRaw(t)
		found := cMember(t, e.st, "packets_passed", st)+cMember(t, e.st, "packets_dropped", st) == 1
		return res, found, st
	}
	res, found, _ := run(c.ip, true)
	if !found {
		kind := "not-found-by-c"
		if _, f2, _ := run(c.ip.reversed(), true); f2 {
			kind = "byte-order"
		}
		ents := dumpKernel(t, kmap)
		vstat.Fail(t, sig("qos.ipToKey~"+cmap+".key", kind), "SetSubscriberQoS(%s) stored the %s bucket under key bytes %v; %s looks it up with the packet's address bytes %x and finds nothing",
			ipOf(c.ip), dir, keysOf(ents), prog, c.ip[:])
		// listed: go on with the value under the key the program uses, so that the value flow is still decided
		if err := e.c.ClearMaps(cmap); err != nil {
			t.Fatalf("INCONCLUSIVE: %v", err)
		}
		if err := e.c.LoadMap(cmap, c.ip[:], ents[0].Value); err != nil {
			t.Fatalf("INCONCLUSIVE: %v", err)
		}
		if res, found, _ = run(c.ip, false); !found {
			t.Fatalf("INCONCLUSIVE: bucket loaded under the packet's address bytes is not found either")
		}
	}
	// the bucket the program worked with
	key := c.ip[:]
	raw, err := e.c.LookupValue(cmap, key)
	if err != nil || raw == nil {
		t.Fatalf("INCONCLUSIVE: bucket vanished from the runner's %s: %v", cmap, err)
	}
	if got := cMember(t, e.tb, "rate_bps", raw); got != wantRate {
		if !vstat.Fail(t, sig("qos.TokenBucket.RateBPS", "value-mismatch", dir), "configured %d bit/s, the program's bucket has rate_bps %d", wantRate, got) {
			return false
		}
	}
	if got := cMember(t, e.tb, "burst_bytes", raw); wantBurst != 0 && got != uint64(wantBurst) {
		if !vstat.Fail(t, sig("qos.TokenBucket.BurstBytes", "value-mismatch", dir), "configured burst %d, the program's bucket has burst_bytes %d", wantBurst, got) {
			return false
		}
	}
	if got := cMember(t, e.tb, "priority", raw); got != uint64(c.prio) {
		if !vstat.Fail(t, sig("qos.TokenBucket.Priority", "value-mismatch", dir), "configured priority %d, the program's bucket has %d", c.prio, got) {
			return false
		}
	}
	if dir == "egress" && res.Verdict == tcOK && res.Priority != uint32(c.prio) {
		if !vstat.Fail(t, sig("qos.TokenBucket.Priority", "skb-priority"), "configured priority %d, skb->priority after the run is %#x", c.prio, res.Priority) {
			return false
		}
	}
	// the neighbour address (last bit flipped) has no bucket: its packets must not be accounted to this one
	if nb := (ip4{c.ip[0], c.ip[1], c.ip[2], c.ip[3] ^ 1}); nb != c.peer {
		if _, hit, _ := run(nb, false); hit {
			if !vstat.Fail(t, sig("qos.ipToKey~"+cmap+".key", "hit-by-neighbour-address"), "only %s has a %s bucket: a packet of %s is rate-limited by it", ipOf(c.ip), dir, ipOf(nb)) {
				return false
			}
		}
	}
	return true
}

func runQos(t fataler, e *qosEnv, c qosCase) {
	clearMap(e.egress)
	clearMap(e.ingress)
	mgr, err := qos.NewManager(qos.ManagerConfig{Interface: "lo"}, nil, zap.NewNop())
	if err != nil {
		t.Fatalf("INCONCLUSIVE: %v", err)
	}
	mgr.VerifC06SetMaps(map[string]*ebpfMap{"qos_egress": e.egress, "qos_ingress": e.ingress, "qos_stats_map": e.stats})
	if err := mgr.SetSubscriberQoS(&qos.SubscriberQoS{IP: ipOf(c.ip), DownloadBPS: c.down, UploadBPS: c.up, BurstBytes: c.burst, Priority: c.prio}); err != nil {
		vstat.Fail(t, sig("qos.Manager.SetSubscriberQoS", "put-refused"), "SetSubscriberQoS(%s): %v", ipOf(c.ip), err)
		return
	}
	if ne, ni := len(dumpKernel(t, e.egress)), len(dumpKernel(t, e.ingress)); ne != 1 || ni != 1 {
		t.Fatalf("INCONCLUSIVE: %d / %d entries after one SetSubscriberQoS", ne, ni)
	}
	e.direction(t, c, "egress", c.down, c.burst)
	e.direction(t, c, "ingress", c.up, 0)

	// read back: what the program counted is what GetStats reports
	{
		st := make([]byte, e.st.Size)
		want := map[string]uint64{"packets_passed": 0x0102030405060708, "packets_dropped": 0x1112131415161718, "bytes_passed": 0x2122232425262728, "bytes_dropped": 0x3132333435363738}
		for _, f := range e.st.Fields {
			encodeLE(st, f.Off, f.Elem, []uint64{want[f.Path]})
		}
		var k uint32
		if err := e.stats.Put(&k, [][]byte{st}); err != nil {
			t.Fatalf("INCONCLUSIVE: raw per-CPU Put into qos_stats_map: %v", err)
		}
		got, err := mgr.GetStats()
		if err != nil {
			vstat.Fail(t, sig("qos.Manager.GetStats~qos_stats_map", "percpu-lookup-refused"), "GetStats on the per-CPU array the C source declares: %v", err)
		} else if got.PacketsPassed != want["packets_passed"] || got.PacketsDropped != want["packets_dropped"] || got.BytesPassed != want["bytes_passed"] || got.BytesDropped != want["bytes_dropped"] {
			vstat.Fail(t, sig("qos.Manager.GetStats~qos_stats_map", "value-mismatch"), "program counted %v, GetStats returns %+v", want, *got)
		}
	}

	// removal addresses the same entries
	if err := mgr.RemoveSubscriberQoS(ipOf(c.ip)); err != nil {
		t.Fatalf("INCONCLUSIVE: RemoveSubscriberQoS: %v", err)
	}
	if ne, ni := len(dumpKernel(t, e.egress)), len(dumpKernel(t, e.ingress)); ne != 0 || ni != 0 {
		vstat.Fail(t, sig("qos.Manager.RemoveSubscriberQoS", "entry-left"), "%d / %d entries left after RemoveSubscriberQoS(%s)", ne, ni, ipOf(c.ip))
	}
}

func (c qosCase) nonTrivial() bool {
	return nonTrivialField([]uint64{uint64(binary.BigEndian.Uint32(c.ip[:]))}, 4) && c.ip != c.ip.reversed()
}

// TestPropQosEncoding decides the IPv4 key encoding and the token-bucket value flow of pkg/qos against the TC programs.
func TestPropQosEncoding(t *testing.T) {
	e := newQosEnv(t)
	defer e.close()
	vstat.Checks(2000, 30000)
	rapid.Check(t, func(rt *rapid.T) {
		c := genQos(rt)
		runQos(rt, e, c)
		vstat.Case(c.nonTrivial(), vstat.Hash("qos", fmt.Sprintf("%+v", c)), func() any {
			return map[string]any{"ip": ipOf(c.ip).String(), "down": c.down, "up": c.up, "burst": c.burst, "prio": c.prio}
		}, append(c.classes, "qos")...)
	})
}
