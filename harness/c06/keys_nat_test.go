package c06

// pkg/nat  <->  bpf/nat44.c, decided on packets.  Go -> C: nat.Manager (AddPublicIP, AllocateNAT,
// ConfigureALG, the configuration step of Start) writes real kernel maps with the C-declared geometry;
// the entries are handed byte for byte to the natively compiled TC program, which is run on a packet
// of that subscriber: the allocation must be found under the key the program derives from the packet
// (ip->saddr), the translated packet must carry the allocated public address and a port of the
// allocated block, the hairpin / ALG tables must be hit by the packets they were configured for.
// C -> Go: the session / EIM entries the program created are copied raw into kernel maps and must be
// found by LookupSession / GetEIMMapping called with the same 5-tuple (this compares LookupSession's
// function-local natKey with struct nat_key); the ring-buffer record the program emitted is decoded
// the way the sources describe (binary.Read, little endian, into BPFLogEntry); GetStats must return
// what the program counted.
//
// Where a listed finding makes a step impossible (the value is refused by the map; the key is not the
// one the program uses) the step is repeated with that one disagreement bridged — the value re-laid
// member by member by name, the entry loaded under the packet's key — so that the members behind it
// are still decided.  Each bridge is taken only after the finding it bridges was raised.

import (
	"bytes"
	"encoding/binary"
	"encoding/json"
	"errors"
	"fmt"
	"os"
	"testing"

	"github.com/cilium/ebpf"
	"go.uber.org/zap"
	"pgregory.net/rapid"

	"github.com/codelaboratoryltd/bng/pkg/nat"

	"bngverif/internal/bpfnative"
	"bngverif/internal/vstat"
)

var natMapNames = []string{"subscriber_nat", "hairpin_ips", "alg_ports", "nat_config_map", "nat_sessions", "eim_table", "nat_stats_map"}

type natEnv struct {
	c       *bpfnative.Client
	maps    map[string]*ebpfMap
	altSub  *ebpfMap // subscriber_nat with the value size the Go type encodes to (nil if that is the C size)
	sub     *pairCtx
	ses     *pairCtx
	natLog  *nat.Logger // the real consumer of decoded ring-buffer records (JSON lines into logPath)
	logPath string
	st      *cStruct
	logRec  *cStruct
}

func newNatEnv(t fataler) *natEnv {
	e := &natEnv{c: engine(t), maps: map[string]*ebpfMap{}}
	for _, n := range natMapNames {
		e.maps[n] = kernelMap(t, e.c, n)
	}
	for _, d := range pairTable {
		if d.Go == "nat.SubscriberNAT" {
			e.sub = ctxFor(t, d)
		}
		if d.Go == "nat.NATSession" {
			e.ses = ctxFor(t, d)
		}
	}
	if e.sub == nil || e.ses == nil {
		t.Fatalf("INCONCLUSIVE: nat.SubscriberNAT / nat.NATSession is not in the pair table")
	}
	if e.sub.goSize != e.sub.cs.Size {
		e.altSub = hashMap(t, "c06_subnat_go", 4, e.sub.goSize)
	}
	f, err := os.CreateTemp("", "c06-natlog-*.json")
	if err != nil {
		t.Fatalf("INCONCLUSIVE: %v", err)
	}
	f.Close()
	e.logPath = f.Name()
	if e.natLog, err = nat.NewLogger(nat.LoggerConfig{Enabled: true, FilePath: e.logPath, Format: nat.LogFormatJSON}, zap.NewNop()); err != nil {
		t.Fatalf("INCONCLUSIVE: nat.NewLogger: %v", err)
	}
	e.st = mustLayout(t, "nat44", "nat_stats")
	e.logRec = mustLayout(t, "nat44", "nat_log_entry")
	return e
}

func (e *natEnv) close() {
	os.Remove(e.logPath)
	for _, m := range e.maps {
		m.Close()
	}
	if e.altSub != nil {
		e.altSub.Close()
	}
}

type natCase struct {
	priv, pub, dst ip4
	proto          byte
	sport, dport   uint16
	portsPerSub    int
	rangeStart     int
	eim, sip       bool
	parity         bool
	algPort        uint16
	classes        []string
}

func genPort(rt *rapid.T, l string) uint16 {
	switch rapid.IntRange(0, 3).Draw(rt, l+".cls") {
	case 0:
		return rapid.SampledFrom([]uint16{80, 443, 0x0100, 0x00ff, 0xff00, 1024, 65535, 0x0102}).Draw(rt, l+".bnd")
	default:
		return uint16(drawElem(rt, 2, clsDistinct, l))
	}
}

func genNat(rt *rapid.T) natCase {
	var c natCase
	b := func(l string) byte { return byte(rapid.IntRange(1, 254).Draw(rt, l)) }
	switch rapid.IntRange(0, 3).Draw(rt, "priv.net") {
	case 0:
		c.priv = ip4{10, b("p1"), b("p2"), b("p3")}
		c.classes = append(c.classes, "priv:10/8")
	case 1:
		c.priv = ip4{172, byte(rapid.IntRange(16, 31).Draw(rt, "p1")), b("p2"), b("p3")}
		c.classes = append(c.classes, "priv:172.16/12")
	case 2:
		c.priv = ip4{192, 168, b("p2"), b("p3")}
		c.classes = append(c.classes, "priv:192.168/16")
	default:
		c.priv = ip4{100, byte(rapid.IntRange(64, 127).Draw(rt, "p1")), b("p2"), b("p3")}
		c.classes = append(c.classes, "priv:100.64/10")
	}
	pubFirst := []byte{198, 203, 8, 45, 1, 223}
	switch rapid.IntRange(0, 4).Draw(rt, "pub.cls") {
	case 0:
		x := rapid.SampledFrom(pubFirst).Draw(rt, "pub.x")
		y := b("pub.y")
		c.pub = ip4{x, y, y, x}
		c.classes = append(c.classes, "pub:palindrome")
	default:
		c.pub = ip4{rapid.SampledFrom(pubFirst).Draw(rt, "pub.0"), b("pub.1"), b("pub.2"), b("pub.3")}
		if c.pub == c.pub.reversed() {
			c.pub[3] ^= 0x40
		}
		c.classes = append(c.classes, "pub:distinct")
	}
	c.dst = ip4{rapid.SampledFrom([]byte{9, 52, 93, 151, 185, 216}).Draw(rt, "dst.0"), b("dst.1"), b("dst.2"), b("dst.3")}
	if c.dst == c.pub || c.dst == c.pub.reversed() {
		c.dst[1] ^= 0x10
	}
	c.proto = rapid.SampledFrom([]byte{6, 17}).Draw(rt, "proto")
	c.classes = append(c.classes, fmt.Sprintf("proto:%d", c.proto))
	c.sport, c.dport = genPort(rt, "sport"), genPort(rt, "dport")
	// the 5-tuple components are kept non-palindromic: a palindrome reads the same in both byte orders, which would
	// make the classification of a lookup miss (address order / port order / both) depend on the drawn value
	if c.sport == bswap16(c.sport) {
		c.sport ^= 0x0100
	}
	if c.dport == bswap16(c.dport) {
		c.dport ^= 0x0100
	}
	if c.priv == c.priv.reversed() {
		c.priv[3] ^= 1
		if c.priv[3] == 0 {
			c.priv[3] = 2
		}
	}
	if c.dst == c.dst.reversed() {
		c.dst[3] ^= 2
	}
	c.portsPerSub = rapid.SampledFrom([]int{64, 256, 1024, 2048}).Draw(rt, "pps")
	c.rangeStart = rapid.SampledFrom([]int{1024, 1029, 4096, 0x1234, 32768}).Draw(rt, "rstart")
	c.eim = rapid.Bool().Draw(rt, "eim")
	c.sip = rapid.Bool().Draw(rt, "sip")
	c.parity = rapid.Bool().Draw(rt, "parity")
	c.classes = append(c.classes, fmt.Sprintf("eim:%v", c.eim))
	c.algPort = uint16(drawElem(rt, 2, clsDistinct, "algport"))
	// keep the data packets clear of the ALG ports
	for _, p := range []uint16{21, 5060, c.algPort} {
		if c.dport == p {
			c.dport ^= 0x4000
		}
	}
	if c.dport == bswap16(c.dport) {
		c.dport ^= 0x0200
	}
	return c
}

// transcodeByName re-lays the bytes the Go side encoded (Go offsets / widths) into the C layout, member by member by name.
func transcodeByName(p *pairCtx, goRaw []byte) []byte {
	out := make([]byte, p.cs.Size)
	for _, pr := range p.pairs {
		v, ok := decodeLE(goRaw, pr.G.Off, pr.G.Elem, pr.G.Count)
		if !ok {
			continue
		}
		n := pr.C.Count
		if len(v) < n {
			n = len(v)
		}
		encodeLE(out, pr.C.Off, pr.C.Elem, v[:n])
	}
	return out
}

func (e *natEnv) natStat(t fataler, member string) uint64 {
	v, err := e.c.LookupValue("nat_stats_map", []byte{0, 0, 0, 0})
	if err != nil || v == nil {
		t.Fatalf("INCONCLUSIVE: nat_stats_map slot 0 in the runner: %v", err)
	}
	return cMember(t, e.st, member, v)
}

func natFrame(c natCase, src, dst ip4, sport, dport uint16) []byte {
	return ipFrame(mac6{2, 0, 0, 0, 0, 0xfe}, mac6{2, 0, 0, 0, 0, 1}, src, dst, c.proto, sport, dport)
}

func (e *natEnv) egress(t fataler, frame []byte) bpfnative.Result {
	res, err := e.c.Run("nat44_egress", frame, bpfnative.DefaultOpts())
	if err != nil {
		t.Fatalf("INCONCLUSIVE: RUN nat44_egress: %v", err)
	}
	if res.Fault.Faulted() {
		t.Fatalf("INCONCLUSIVE: nat44_egress faulted (%s) — that is C07's business", res.Fault)
	}
	return res
}

func (e *natEnv) resetDynamic(t fataler) {
	if err := e.c.ClearMaps("nat_sessions", "nat_reverse", "eim_table", "nat_stats_map", "nat_log_rb"); err != nil {
		t.Fatalf("INCONCLUSIVE: %v", err)
	}
}

// tupleKind classifies which byte-order bridge makes a lookup succeed.
func tupleKind(try func(revIP, swapPort bool) bool) string {
	switch {
	case try(true, false):
		return "byte-order/ip"
	case try(false, true):
		return "byte-order/port"
	case try(true, true):
		return "byte-order/ip+port"
	}
	return "not-found-by-go"
}

func bswap16(p uint16) uint16 { return p<<8 | p>>8 }

func runNat(t fataler, e *natEnv, c natCase) {
	for n, m := range e.maps {
		if n != "nat_config_map" && n != "nat_stats_map" {
			clearMap(m)
		}
	}
	if e.altSub != nil {
		clearMap(e.altSub)
	}
	mgr, err := nat.NewManager(nat.ManagerConfig{Interface: "lo", PortsPerSubscriber: c.portsPerSub, PortRangeStart: c.rangeStart, PortRangeEnd: 65535,
		EnableEIM: c.eim, EnableHairpin: true, EnableFTPALG: true, EnableSIPALG: c.sip, EnablePortParity: c.parity}, zap.NewNop())
	if err != nil {
		t.Fatalf("INCONCLUSIVE: %v", err)
	}
	mgr.VerifC06SetMaps(e.maps)

	// ---- control plane writes
	if err := mgr.VerifC06StartConfig(); err != nil {
		if vstat.Fail(t, sig("nat.NATConfig~nat_config", "put-refused"), "Start's configuration write: %v", err) {
			return
		}
	}
	if err := mgr.ConfigureALG(c.algPort, 6, nat.ALGTypeFTP, true); err != nil {
		if vstat.Fail(t, sig("nat.ALGConfig~alg_config", "put-refused"), "ConfigureALG(%d): %v", c.algPort, err) {
			return
		}
	}
	if err := mgr.AddPublicIP(ipOf(c.pub)); err != nil {
		t.Fatalf("INCONCLUSIVE: AddPublicIP(%s): %v", ipOf(c.pub), err)
	}
	subMap := e.maps["subscriber_nat"]
	alloc, err := mgr.AllocateNAT(ipOf(c.priv))
	if err != nil {
		if e.altSub == nil {
			vstat.Fail(t, sig("nat.Manager.AllocateNAT~subscriber_nat", "put-refused"), "AllocateNAT(%s): %v", ipOf(c.priv), err)
			return
		}
		if !vstat.Fail(t, sig("nat.SubscriberNAT~subscriber_nat", "put-refused"), "AllocateNAT(%s) on a map with the C-declared value size (%d bytes; nat.SubscriberNAT encodes to %d): %v",
			ipOf(c.priv), e.sub.cs.Size, e.sub.goSize, err) {
			return
		}
		// bridge: a map that takes what the Go side encodes
		subMap = e.altSub
		mgr.VerifC06SetMaps(map[string]*ebpfMap{"subscriber_nat": subMap})
		if alloc, err = mgr.AllocateNAT(ipOf(c.priv)); err != nil {
			t.Fatalf("INCONCLUSIVE: AllocateNAT(%s) on a map with the Go-encoded value size: %v", ipOf(c.priv), err)
		}
	}
	if !alloc.PublicIP.Equal(ipOf(c.pub)) || int(alloc.PortStart) != c.rangeStart || int(alloc.PortEnd) != c.rangeStart+c.portsPerSub-1 {
		t.Fatalf("INCONCLUSIVE: first allocation is %s %d-%d, expected %s %d-%d", alloc.PublicIP, alloc.PortStart, alloc.PortEnd, ipOf(c.pub), c.rangeStart, c.rangeStart+c.portsPerSub-1)
	}
	ents := dumpKernel(t, subMap)
	if len(ents) != 1 {
		t.Fatalf("INCONCLUSIVE: %d entries in subscriber_nat after one AllocateNAT", len(ents))
	}
	subKey, subVal := ents[0].Key, ents[0].Value
	if !bytes.Equal(subKey, c.priv[:]) {
		kind := "key-bytes"
		if r := c.priv.reversed(); bytes.Equal(subKey, r[:]) {
			kind = "byte-order"
		}
		if !vstat.Fail(t, sig("nat.ipToKey~subscriber_nat.key", kind), "AllocateNAT(%s) stores the allocation under key bytes %x; nat44_egress looks it up with ip->saddr, the packet's bytes %x",
			ipOf(c.priv), subKey, c.priv[:]) {
			return
		}
		subKey = c.priv[:] // bridge
	}
	if len(subVal) != e.sub.cs.Size {
		subVal = transcodeByName(e.sub, subVal) // bridge (the put-refused finding was raised above)
	}

	// ---- hand the maps to the program
	if err := e.c.ClearMaps(); err != nil {
		t.Fatalf("INCONCLUSIVE: %v", err)
	}
	for _, n := range []string{"hairpin_ips", "alg_ports", "nat_config_map"} {
		if _, err := e.c.CopyKernelMap(e.maps[n], n); err != nil {
			t.Fatalf("INCONCLUSIVE: copying %s into the runner: %v", n, err)
		}
	}
	if err := e.c.LoadMap("subscriber_nat", subKey, subVal); err != nil {
		t.Fatalf("INCONCLUSIVE: %v", err)
	}
	_ = e.c.SetClock(5_000_000_000)

	// ---- 1. SNAT of the subscriber's packet
	frame := natFrame(c, c.priv, c.dst, c.sport, c.dport)
	res := e.egress(t, frame)
	l3, l4 := 14, 34
	if e.natStat(t, "packets_snat") != 1 {
		if vstat.Fail(t, sig("nat.SubscriberNAT~subscriber_nat", "not-found-by-c"), "packet from %s is not translated (verdict %d, packets_passed %d) although its allocation is loaded under the packet's key",
			ipOf(c.priv), res.Verdict, e.natStat(t, "packets_passed")) {
			return
		}
	} else {
		wireAddr(t, "nat.PortBlock.PublicIP", "translated source address", c.pub, res.Out[l3+12:l3+16])
		if p := binary.BigEndian.Uint16(res.Out[l4:]); p < alloc.PortStart || p > alloc.PortEnd {
			kind := "wire-mismatch"
			if q := bswap16(p); q >= alloc.PortStart && q <= alloc.PortEnd {
				kind = "byte-order"
			}
			vstat.Fail(t, sig("nat.PortBlock.PortStart", kind), "translated source port %d is outside the allocated block %d-%d", p, alloc.PortStart, alloc.PortEnd)
		}
	}

	// ---- 1b. the SESSION_CREATE record of that packet, through the reader the sources describe and the real consumer
	if evs, err := e.c.DumpEvents("nat_log_rb"); err != nil {
		t.Fatalf("INCONCLUSIVE: %v", err)
	} else if len(evs) == 1 && e.natStat(t, "packets_snat") == 1 {
		e.logRecord(t, c, evs[0], binary.BigEndian.Uint16(res.Out[l4:]))
	}

	// ---- 2. the session the program created, looked up from Go with the packet's 5-tuple
	if sess, err := e.c.DumpMap("nat_sessions"); err != nil {
		t.Fatalf("INCONCLUSIVE: %v", err)
	} else if len(sess) == 1 {
		clearMap(e.maps["nat_sessions"])
		if err := e.maps["nat_sessions"].Put(sess[0].Key, sess[0].Value); err != nil {
			t.Fatalf("INCONCLUSIVE: raw Put into nat_sessions: %v", err)
		}
		var refused error
		try := func(revIP, swapPort bool) bool {
			s, d, sp, dp := c.priv, c.dst, c.sport, c.dport
			if revIP {
				s, d = s.reversed(), d.reversed()
			}
			if swapPort {
				sp, dp = bswap16(sp), bswap16(dp)
			}
			_, err := mgr.LookupSession(ipOf(s), ipOf(d), sp, dp, c.proto)
			if err != nil && !errors.Is(err, ebpf.ErrKeyNotExist) {
				refused = err // the key addressed the entry; the library refuses to decode the value
				return true
			}
			return err == nil
		}
		ok := try(false, false)
		if !ok {
			vstat.Fail(t, sig("nat.Manager.LookupSession.natKey~nat_key", tupleKind(try)),
				"session created by nat44_egress for %s:%d -> %s:%d proto %d (key bytes %x) is not found by LookupSession called with that 5-tuple",
				ipOf(c.priv), c.sport, ipOf(c.dst), c.dport, c.proto, sess[0].Key)
		}
		if refused != nil {
			vstat.Fail(t, sig("nat.NATSession~nat_session", "lookup-refused"), "LookupSession on a map with the C-declared value size (%d bytes; nat.NATSession decodes %d): %v",
				e.ses.cs.Size, e.ses.goSize, refused)
		}
	}

	// ---- 3. the EIM mapping the program created
	if c.eim {
		em, err := e.c.DumpMap("eim_table")
		if err != nil {
			t.Fatalf("INCONCLUSIVE: %v", err)
		}
		if len(em) == 1 {
			clearMap(e.maps["eim_table"])
			if err := e.maps["eim_table"].Put(em[0].Key, em[0].Value); err != nil {
				t.Fatalf("INCONCLUSIVE: raw Put into eim_table: %v", err)
			}
			var found *nat.EIMMapping
			try := func(revIP, swapPort bool) bool {
				s, sp := c.priv, c.sport
				if revIP {
					s = s.reversed()
				}
				if swapPort {
					sp = bswap16(sp)
				}
				got, err := mgr.GetEIMMapping(ipOf(s), sp, c.proto)
				if err == nil && got != nil {
					found = got
					return true
				}
				return false
			}
			if !try(false, false) {
				vstat.Fail(t, sig("nat.Manager.GetEIMMapping.EIMKey~eim_key", tupleKind(try)),
					"EIM mapping created by nat44_egress for %s:%d proto %d (key bytes %x) is not found by GetEIMMapping called with that endpoint", ipOf(c.priv), c.sport, c.proto, em[0].Key)
			}
			if found != nil && (found.ExternalPort < alloc.PortStart || found.ExternalPort > alloc.PortEnd) {
				vstat.Fail(t, sig("nat.EIMMapping.ExternalPort", "value-mismatch"), "EIM mapping read back with external port %d, allocated block is %d-%d", found.ExternalPort, alloc.PortStart, alloc.PortEnd)
			}
		}
	}

	// ---- 4. hairpin table: a packet to our own public address
	e.resetDynamic(t)
	e.egress(t, natFrame(c, c.priv, c.pub, c.sport, c.dport))
	if e.natStat(t, "packets_hairpin") != 1 {
		kind := "not-found-by-c"
		if c.pub != c.pub.reversed() {
			e.resetDynamic(t)
			e.egress(t, natFrame(c, c.priv, c.pub.reversed(), c.sport, c.dport))
			if e.natStat(t, "packets_hairpin") == 1 {
				kind = "byte-order"
			}
		}
		vstat.Fail(t, sig("nat.ipToKey~hairpin_ips.key", kind), "AddPublicIP(%s) stored hairpin key bytes %v; a packet to that address (ip->daddr bytes %x) is not recognised as a hairpin target",
			ipOf(c.pub), keysOf(dumpKernel(t, e.maps["hairpin_ips"])), c.pub[:])
	}

	// ---- 5. ALG table: Start's default (FTP, TCP/21) and the configured port; the record the program emits
	for _, ap := range []uint16{21, c.algPort} {
		e.resetDynamic(t)
		tc := c
		tc.proto = 6
		in := natFrame(tc, c.priv, c.dst, c.sport, ap)
		res := e.egress(t, in)
		if e.natStat(t, "alg_triggers") != 1 {
			vstat.Fail(t, sig("nat.Manager.ConfigureALG~alg_ports.key", "not-found-by-c"), "ConfigureALG(%d, TCP) stored keys %v; a TCP packet to port %d does not trigger the ALG (verdict %d)",
				ap, keysOf(dumpKernel(t, e.maps["alg_ports"])), ap, res.Verdict)
			continue
		}
		evs, err := e.c.DumpEvents("nat_log_rb")
		if err != nil || len(evs) != 1 {
			t.Fatalf("INCONCLUSIVE: %d ring-buffer records after one ALG trigger (%v)", len(evs), err)
		}
		var rec nat.BPFLogEntry
		if err := binary.Read(bytes.NewReader(evs[0]), binary.LittleEndian, &rec); err != nil {
			vstat.Fail(t, sig("nat.BPFLogEntry~nat_log_entry", "record-unreadable"), "binary.Read of the %d-byte record into BPFLogEntry: %v", len(evs[0]), err)
			continue
		}
		wantTS := cMember(t, e.logRec, "timestamp", evs[0])
		if rec.EventType != nat.NATLogALGTrigger || rec.Flags != nat.ALGTypeFTP || rec.Protocol != 6 || rec.Timestamp != wantTS || rec.SubscriberID != alloc.SubscriberID {
			vstat.Fail(t, sig("nat.BPFLogEntry~nat_log_entry", "record-mismatch"), "ALG trigger record %x decodes to %+v (expected event %d, flags %d, protocol 6, subscriber %d)",
				evs[0], rec, nat.NATLogALGTrigger, nat.ALGTypeFTP, alloc.SubscriberID)
		}
	}

	// ---- 5b. inputs the control plane installed nothing for must not hit the entries of their neighbours
	{
		e.resetDynamic(t)
		uc := c
		uc.proto = 17
		e.egress(t, natFrame(uc, c.priv, c.dst, c.sport, c.algPort))
		if n := e.natStat(t, "alg_triggers"); n != 0 {
			vstat.Fail(t, sig("nat.Manager.ConfigureALG~alg_ports.key", "hit-by-other-protocol"), "ConfigureALG(%d, TCP) only: a UDP packet to port %d triggers the ALG (keys %v)",
				c.algPort, c.algPort, keysOf(dumpKernel(t, e.maps["alg_ports"])))
		}
		if q := bswap16(c.algPort); q != c.algPort && q != 21 && q != 5060 {
			e.resetDynamic(t)
			tc := c
			tc.proto = 6
			e.egress(t, natFrame(tc, c.priv, c.dst, c.sport, q))
			if n := e.natStat(t, "alg_triggers"); n != 0 {
				vstat.Fail(t, sig("nat.Manager.ConfigureALG~alg_ports.key", "hit-by-other-port"), "ConfigureALG(%d, TCP) only: a TCP packet to port %d triggers the ALG (keys %v)",
					c.algPort, q, keysOf(dumpKernel(t, e.maps["alg_ports"])))
			}
		}
		// the neighbour address (last bit flipped: still private) has no allocation
		nb := c.priv
		nb[3] ^= 1
		e.resetDynamic(t)
		e.egress(t, natFrame(c, nb, c.dst, c.sport, c.dport))
		if n := e.natStat(t, "packets_snat"); n != 0 {
			vstat.Fail(t, sig("nat.ipToKey~subscriber_nat.key", "hit-by-neighbour-address"), "only %s has an allocation: a packet from %s is translated", ipOf(c.priv), ipOf(nb))
		}
		// an address that is no public address of ours is no hairpin target
		if np := (ip4{c.pub[0], c.pub[1], c.pub[2], c.pub[3] ^ 1}); true {
			e.resetDynamic(t)
			e.egress(t, natFrame(c, c.priv, np, c.sport, c.dport))
			if n := e.natStat(t, "packets_hairpin"); n != 0 {
				vstat.Fail(t, sig("nat.ipToKey~hairpin_ips.key", "hit-by-neighbour-address"), "AddPublicIP(%s) only: a packet to %s is treated as a hairpin target", ipOf(c.pub), ipOf(np))
			}
		}
	}

	// ---- 6. read back: what the program counted is what GetStats reports
	st := make([]byte, e.st.Size)
	want := make([]uint64, len(e.st.Fields))
	for i, f := range e.st.Fields {
		want[i] = 0x0102030405060708 + uint64(i)*0x0101010101010101
		encodeLE(st, f.Off, f.Elem, want[i:i+1])
	}
	var k uint32
	if err := e.maps["nat_stats_map"].Put(&k, [][]byte{st}); err != nil {
		t.Fatalf("INCONCLUSIVE: raw per-CPU Put into nat_stats_map: %v", err)
	}
	if got, err := mgr.GetStats(); err != nil {
		vstat.Fail(t, sig("nat.Manager.GetStats~nat_stats_map", "percpu-lookup-refused"), "GetStats on the per-CPU array the C source declares: %v", err)
	} else {
		g := []uint64{got.PacketsSNAT, got.PacketsDNAT, got.PacketsHairpin, got.PacketsDropped, got.PacketsPassed, got.SessionsCreated, got.SessionsExpired,
			got.PortExhaustion, got.EIMHits, got.EIMMisses, got.ALGTriggers, got.ConntrackLookups, got.ConntrackHits}
		if !equalVals(g, want) {
			vstat.Fail(t, sig("nat.Manager.GetStats~nat_stats_map", "value-mismatch"), "program counted %#x, GetStats returns %#x", want, g)
		}
	}

	// ---- 7. removal addresses the same entry
	if err := mgr.DeallocateNAT(ipOf(c.priv)); err != nil {
		t.Fatalf("INCONCLUSIVE: DeallocateNAT: %v", err)
	}
	if n := len(dumpKernel(t, subMap)); n != 0 {
		vstat.Fail(t, sig("nat.Manager.DeallocateNAT", "entry-left"), "%d entries left in subscriber_nat after DeallocateNAT(%s)", n, ipOf(c.priv))
	}
}

// logRecord decodes one ring-buffer record the way readLogRingBuffer's comment prescribes and hands it to
// Logger.LogFromBPF; the JSON line the logger writes must describe the packet the program translated.
func (e *natEnv) logRecord(t fataler, c natCase, raw []byte, wirePort uint16) {
	var rec nat.BPFLogEntry
	if err := binary.Read(bytes.NewReader(raw), binary.LittleEndian, &rec); err != nil {
		vstat.Fail(t, sig("nat.BPFLogEntry~nat_log_entry", "record-unreadable"), "binary.Read of the %d-byte record into BPFLogEntry: %v", len(raw), err)
		return
	}
	if err := os.Truncate(e.logPath, 0); err != nil {
		t.Fatalf("INCONCLUSIVE: %v", err)
	}
	e.natLog.LogFromBPF(&rec)
	e.natLog.Flush()
	b, err := os.ReadFile(e.logPath)
	if err != nil {
		t.Fatalf("INCONCLUSIVE: %v", err)
	}
	var line struct {
		EventType   string `json:"event_type"`
		PrivateIP   string `json:"private_ip"`
		PrivatePort uint16 `json:"private_port"`
		PublicIP    string `json:"public_ip"`
		PublicPort  uint16 `json:"public_port"`
		DestIP      string `json:"dest_ip"`
		DestPort    uint16 `json:"dest_port"`
		Protocol    string `json:"protocol"`
	}
	if err := json.Unmarshal(bytes.TrimSpace(b), &line); err != nil {
		t.Fatalf("INCONCLUSIVE: NAT logger wrote %q: %v", b, err)
	}
	addr := func(field string, want ip4, got string) {
		if got == ipOf(want).String() {
			return
		}
		kind := "value-mismatch"
		if got == ipOf(want.reversed()).String() {
			kind = "byte-order"
		}
		vstat.Fail(t, sig("nat.BPFLogEntry."+field, kind, "LogFromBPF"), "record %x of the session %s:%d -> %s:%d via %s:%d is logged with %s %s", raw, ipOf(c.priv), c.sport, ipOf(c.dst), c.dport, ipOf(c.pub), wirePort, field, got)
	}
	port := func(field string, want, got uint16) {
		if got == want {
			return
		}
		kind := "value-mismatch"
		if got == bswap16(want) {
			kind = "byte-order"
		}
		vstat.Fail(t, sig("nat.BPFLogEntry."+field, kind, "LogFromBPF"), "record %x of the session %s:%d -> %s:%d via %s:%d is logged with %s %d", raw, ipOf(c.priv), c.sport, ipOf(c.dst), c.dport, ipOf(c.pub), wirePort, field, got)
	}
	addr("PrivateIP", c.priv, line.PrivateIP)
	addr("PublicIP", c.pub, line.PublicIP)
	addr("DestIP", c.dst, line.DestIP)
	port("PrivatePort", c.sport, line.PrivatePort)
	port("PublicPort", wirePort, line.PublicPort)
	port("DestPort", c.dport, line.DestPort)
	wantProto := map[byte]string{6: "tcp", 17: "udp"}[c.proto]
	if line.EventType != "session_create" || line.Protocol != wantProto {
		vstat.Fail(t, sig("nat.BPFLogEntry.EventType", "value-mismatch", "LogFromBPF"), "record %x is logged as event %q protocol %q (expected session_create / %s)", raw, line.EventType, line.Protocol, wantProto)
	}
}

func (c natCase) nonTrivial() bool {
	two := func(a ip4) bool {
		return nonTrivialField([]uint64{uint64(binary.BigEndian.Uint32(a[:]))}, 4) && a != a.reversed()
	}
	return two(c.priv) && two(c.pub) && two(c.dst) && c.sport != bswap16(c.sport)
}

// TestPropNatEncoding decides the IPv4 / port / ALG key encodings and the value flow of pkg/nat against the TC program.
func TestPropNatEncoding(t *testing.T) {
	e := newNatEnv(t)
	defer e.close()
	vstat.Checks(1500, 24000)
	rapid.Check(t, func(rt *rapid.T) {
		c := genNat(rt)
		runNat(rt, e, c)
		vstat.Case(c.nonTrivial(), vstat.Hash("nat", fmt.Sprintf("%+v", c)), func() any {
			return map[string]any{"private": ipOf(c.priv).String(), "public": ipOf(c.pub).String(), "dst": ipOf(c.dst).String(), "proto": c.proto, "sport": c.sport, "dport": c.dport,
				"ports_per_sub": c.portsPerSub, "range_start": c.rangeStart, "eim": c.eim, "alg_port": c.algPort}
		}, c.classes...)
	})
}
