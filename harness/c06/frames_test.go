package c06

// Minimal frame builders: what a NIC would hand to the programs.  Addresses are put on the wire in
// network order (RFC 791 / RFC 2131), ports big endian — that is the fixed point both sides are
// compared against.

import "encoding/binary"

const (
	etIPv4 = 0x0800
	etQ    = 0x8100
	etAD   = 0x88a8

	xdpDrop, xdpPass, xdpTX = 1, 2, 3
	tcOK, tcShot            = 0, 2
)

type mac6 [6]byte
type ip4 [4]byte

func (a ip4) reversed() ip4 { return ip4{a[3], a[2], a[1], a[0]} }

func ethHeader(dst, src mac6, tags []uint16, outerAD bool, et uint16) []byte {
	b := append([]byte{}, dst[:]...)
	b = append(b, src[:]...)
	for i, tag := range tags {
		tp := uint16(etQ)
		if i == 0 && len(tags) == 2 && outerAD {
			tp = etAD
		}
		b = binary.BigEndian.AppendUint16(b, tp)
		b = binary.BigEndian.AppendUint16(b, tag)
	}
	return binary.BigEndian.AppendUint16(b, et)
}

func ipChecksum(h []byte) uint16 {
	var sum uint32
	for i := 0; i+1 < len(h); i += 2 {
		sum += uint32(h[i])<<8 | uint32(h[i+1])
	}
	for sum>>16 != 0 {
		sum = sum&0xffff + sum>>16
	}
	return ^uint16(sum)
}

func ipv4Header(proto byte, src, dst ip4, payloadLen int) []byte {
	h := make([]byte, 20)
	h[0] = 0x45
	binary.BigEndian.PutUint16(h[2:], uint16(20+payloadLen))
	h[8] = 64
	h[9] = proto
	copy(h[12:], src[:])
	copy(h[16:], dst[:])
	binary.BigEndian.PutUint16(h[10:], ipChecksum(h))
	return h
}

func udpHeader(sport, dport uint16, payloadLen int) []byte {
	h := make([]byte, 8)
	binary.BigEndian.PutUint16(h[0:], sport)
	binary.BigEndian.PutUint16(h[2:], dport)
	binary.BigEndian.PutUint16(h[4:], uint16(8+payloadLen))
	return h
}

func tcpHeader(sport, dport uint16) []byte {
	h := make([]byte, 20)
	binary.BigEndian.PutUint16(h[0:], sport)
	binary.BigEndian.PutUint16(h[2:], dport)
	h[12] = 5 << 4
	h[13] = 0x02 // SYN
	binary.BigEndian.PutUint16(h[14:], 65535)
	return h
}

// ipFrame: Ethernet / IPv4 / {UDP|TCP} with a small payload.
func ipFrame(dstMAC, srcMAC mac6, src, dst ip4, proto byte, sport, dport uint16) []byte {
	payload := []byte("c06-payload-0123456789")
	var l4 []byte
	switch proto {
	case 6:
		l4 = append(tcpHeader(sport, dport), payload...)
	default:
		l4 = append(udpHeader(sport, dport, len(payload)), payload...)
	}
	f := ethHeader(dstMAC, srcMAC, nil, false, etIPv4)
	f = append(f, ipv4Header(proto, src, dst, len(l4))...)
	return append(f, l4...)
}

// opt82 is the relay agent information option carried by a DHCP request.
type opt82 struct {
	present   bool
	circuitID []byte
	remoteID  []byte // appended as sub-option 2 when non-nil
	pos       int    // 3 (right after option 53) or 12..19 (after a client-id option and pad bytes)
}

// bootpRequest builds the BOOTP message (from `op`) of a DISCOVER/REQUEST.  The options area is at
// least 64 bytes (the fast path needs that much room for its reply).
func bootpRequest(msgType byte, xid uint32, chaddr mac6, o82 opt82) []byte {
	b := make([]byte, 240)
	b[0], b[1], b[2] = 1, 1, 6
	binary.BigEndian.PutUint32(b[4:], xid)
	copy(b[28:], chaddr[:])
	binary.BigEndian.PutUint32(b[236:], 0x63825363)
	opts := []byte{53, 1, msgType}
	if o82.present {
		if o82.pos >= 12 {
			// option 61 (client identifier: type 1 + MAC) brings the cursor to 12; pad bytes to pos
			opts = append(opts, 61, 7, 1)
			opts = append(opts, chaddr[:]...)
			for len(opts) < o82.pos {
				opts = append(opts, 0)
			}
		}
		sub := append([]byte{1, byte(len(o82.circuitID))}, o82.circuitID...)
		if o82.remoteID != nil {
			sub = append(sub, 2, byte(len(o82.remoteID)))
			sub = append(sub, o82.remoteID...)
		}
		opts = append(opts, 82, byte(len(sub)))
		opts = append(opts, sub...)
	}
	opts = append(opts, 255)
	for len(opts) < 72 {
		opts = append(opts, 0)
	}
	return append(b, opts...)
}

// dhcpFrame wraps a BOOTP request into Ethernet[/VLAN tags]/IPv4/UDP from 0.0.0.0:68 to broadcast:67.
func dhcpFrame(srcMAC mac6, tags []uint16, outerAD bool, bootp []byte) []byte {
	f := ethHeader(mac6{0xff, 0xff, 0xff, 0xff, 0xff, 0xff}, srcMAC, tags, outerAD, etIPv4)
	l4 := append(udpHeader(68, 67, len(bootp)), bootp...)
	f = append(f, ipv4Header(17, ip4{0, 0, 0, 0}, ip4{255, 255, 255, 255}, len(l4))...)
	return append(f, l4...)
}

// dhcpReply is what the harness reads out of a transmitted reply (offsets of a 20-byte IP header).
type dhcpReply struct {
	ok                     bool
	srcMAC                 mac6
	ipSrc, yiaddr, siaddr  ip4
	msgType                byte
	serverID, mask, router []byte
	dns                    []byte
	lease                  []byte
	chaddr                 mac6
	op                     byte
}

func parseDHCPReply(f []byte) dhcpReply {
	var r dhcpReply
	off := 12
	for off+2 <= len(f) {
		et := binary.BigEndian.Uint16(f[off:])
		if et == etQ || et == etAD {
			off += 4
			continue
		}
		break
	}
	l3 := off + 2
	if l3+20+8+240 > len(f) {
		return r
	}
	copy(r.srcMAC[:], f[6:12])
	copy(r.ipSrc[:], f[l3+12:])
	bp := l3 + 20 + 8
	r.op = f[bp]
	copy(r.yiaddr[:], f[bp+16:])
	copy(r.siaddr[:], f[bp+20:])
	copy(r.chaddr[:], f[bp+28:])
	o := f[bp+240:]
	for i := 0; i < len(o); {
		code := o[i]
		if code == 255 {
			break
		}
		if code == 0 {
			i++
			continue
		}
		if i+1 >= len(o) || i+2+int(o[i+1]) > len(o) {
			break
		}
		v := o[i+2 : i+2+int(o[i+1])]
		switch code {
		case 53:
			if len(v) == 1 {
				r.msgType = v[0]
			}
		case 54:
			r.serverID = v
		case 1:
			r.mask = v
		case 3:
			r.router = v
		case 6:
			r.dns = v
		case 51:
			r.lease = v
		}
		i += 2 + int(o[i+1])
	}
	r.ok = true
	return r
}
