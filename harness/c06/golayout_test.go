package c06

// Go side of the comparison: the leaves of a mirrored Go type in declaration order, with the offsets
// they have in the encoding the control plane uses at run time (cilium/ebpf marshals with
// encoding/binary rules: no alignment padding, blank fields written as zeroes).  These offsets are
// used for diagnosis (which field is to blame); the verdict itself comes from the bytes the real
// library puts into a real kernel map.

import (
	"fmt"
	"reflect"
	"strings"
	"unicode"
)

type gField struct {
	Path  string
	Name  string
	Off   int
	Size  int
	Count int
	Elem  int
	Blank bool
	Index []int // reflect index path from the root value
	Kind  reflect.Kind
}

func goLeaves(t reflect.Type) ([]gField, int, error) {
	var out []gField
	off := 0
	var walk func(t reflect.Type, path string, idx []int, blank bool) error
	walk = func(t reflect.Type, path string, idx []int, blank bool) error {
		switch t.Kind() {
		case reflect.Struct:
			for i := 0; i < t.NumField(); i++ {
				f := t.Field(i)
				p := f.Name
				if path != "" {
					p = path + "." + f.Name
				}
				if !f.IsExported() && f.Name != "_" {
					return fmt.Errorf("%s: unexported field %s cannot be marshalled", t, f.Name)
				}
				if err := walk(f.Type, p, append(append([]int{}, idx...), i), blank || f.Name == "_"); err != nil {
					return err
				}
			}
			return nil
		case reflect.Array:
			e := t.Elem()
			if e.Kind() == reflect.Struct || e.Kind() == reflect.Array {
				return fmt.Errorf("%s: arrays of aggregates are not supported by this harness", path)
			}
			es := int(e.Size())
			name := path
			if i := strings.LastIndex(path, "."); i >= 0 {
				name = path[i+1:]
			}
			out = append(out, gField{Path: path, Name: name, Off: off, Size: es * t.Len(), Count: t.Len(), Elem: es, Blank: blank, Index: idx, Kind: e.Kind()})
			off += es * t.Len()
			return nil
		case reflect.Uint8, reflect.Uint16, reflect.Uint32, reflect.Uint64, reflect.Int8, reflect.Int16, reflect.Int32, reflect.Int64, reflect.Bool:
			name := path
			if i := strings.LastIndex(path, "."); i >= 0 {
				name = path[i+1:]
			}
			s := int(t.Size())
			out = append(out, gField{Path: path, Name: name, Off: off, Size: s, Count: 1, Elem: s, Blank: blank, Index: idx, Kind: t.Kind()})
			off += s
			return nil
		default:
			return fmt.Errorf("%s: kind %s has no fixed binary encoding", path, t.Kind())
		}
	}
	if err := walk(t, "", nil, false); err != nil {
		return nil, 0, err
	}
	return out, off, nil
}

// norm maps Go and C spellings of one member name onto each other: PortsInUse / ports_in_use,
// DNSPrimary / dns_primary, IPv4Addr / ipv4_addr, block.public_ip / Block.PublicIP.
func norm(path string) string {
	var b strings.Builder
	for _, r := range path {
		if r == '_' {
			continue
		}
		b.WriteRune(unicode.ToLower(r))
	}
	return b.String()
}

// fieldValue reads leaf f of v as element values (unsigned, zero-extended).
func fieldValue(v reflect.Value, f gField) []uint64 {
	x := v
	if len(f.Index) > 0 {
		x = v.FieldByIndex(f.Index)
	}
	get := func(e reflect.Value) uint64 {
		switch e.Kind() {
		case reflect.Bool:
			if e.Bool() {
				return 1
			}
			return 0
		case reflect.Int8, reflect.Int16, reflect.Int32, reflect.Int64:
			return uint64(e.Int()) & mask(f.Elem)
		default:
			return e.Uint()
		}
	}
	if x.Kind() == reflect.Array {
		out := make([]uint64, x.Len())
		for i := range out {
			out[i] = get(x.Index(i))
		}
		return out
	}
	return []uint64{get(x)}
}

// setField writes element values into leaf f of the addressable value v.
func setField(v reflect.Value, f gField, vals []uint64) {
	x := v
	if len(f.Index) > 0 {
		x = v.FieldByIndex(f.Index)
	}
	set := func(e reflect.Value, u uint64) {
		switch e.Kind() {
		case reflect.Bool:
			e.SetBool(u != 0)
		case reflect.Int8, reflect.Int16, reflect.Int32, reflect.Int64:
			sh := uint(64 - 8*f.Elem)
			e.SetInt(int64(u<<sh) >> sh)
		default:
			e.SetUint(u)
		}
	}
	if x.Kind() == reflect.Array {
		for i := 0; i < x.Len(); i++ {
			set(x.Index(i), vals[i])
		}
		return
	}
	set(x, vals[0])
}

func mask(width int) uint64 {
	if width >= 8 {
		return ^uint64(0)
	}
	return uint64(1)<<(8*uint(width)) - 1
}

// decodeLE reads count little-endian elements of elem bytes at off.
func decodeLE(b []byte, off, elem, count int) ([]uint64, bool) {
	if off < 0 || off+elem*count > len(b) {
		return nil, false
	}
	out := make([]uint64, count)
	for i := 0; i < count; i++ {
		var u uint64
		for j := elem - 1; j >= 0; j-- {
			u = u<<8 | uint64(b[off+i*elem+j])
		}
		out[i] = u
	}
	return out, true
}

func encodeLE(b []byte, off, elem int, vals []uint64) {
	for i, u := range vals {
		for j := 0; j < elem; j++ {
			b[off+i*elem+j] = byte(u >> (8 * uint(j)))
		}
	}
}

func bswap(u uint64, width int) uint64 {
	var r uint64
	for i := 0; i < width; i++ {
		r = r<<8 | (u>>(8*uint(i)))&0xff
	}
	return r
}

func equalVals(a, b []uint64) bool {
	if len(a) != len(b) {
		return false
	}
	for i := range a {
		if a[i] != b[i] {
			return false
		}
	}
	return true
}
