package c06

// VLAN pair -> vlan_key and client hardware address -> 64-bit key of bpf/dhcp_fastpath.c, decided on the
// whole input domain of the frame, with co-resident neighbour entries.
//
// VLAN: the input is the tag stack of the frame — 0, 1 or 2 tags, TPID 0x8100 / 0x88a8, the full 16-bit
// TCI with priority (PCP) and drop-eligible (DEI) bits.  The subscriber is identified by the VLAN IDs
// (TCI & 0x0fff, IEEE 802.1Q); the control plane's key for (s, c) is what Loader.AddVLANSubscriber
// stores.  Every case installs the subscriber (s, c) TOGETHER with its neighbours — (c, s), (s, 0),
// (s, c^bit), (s^bit, c), (s, x) — each with its own address, runs one DISCOVER per installed pair
// (random PCP/DEI bits in every tag) and requires the answer to carry THAT pair's address; DISCOVERs
// with a tag stack the control plane has nothing installed for (priority tag VID 0, VID 4095, a
// neighbour that is not installed, no tag at all) must be passed to the slow path.
//
// Hardware address: the input is (htype, hlen, chaddr[16]) of the BOOTP header.  The control plane's key
// is whatever the REAL slow path stores: the request is parsed with dhcpv4.FromBytes and taken through
// DISCOVER/OFFER/REQUEST/ACK of a real dhcp.Server whose Loader writes into real kernel maps
// (updateFastPathCache -> MACToUint64(req.ClientHWAddr) -> AddSubscriber).  The key bytes it stored must
// be the bytes mac_to_u64(chaddr) yields in the program, the client's next DISCOVER must be answered
// from its own entry, never from the entry of a co-resident neighbour (byte-reversed address, one bit
// changed, same first hlen bytes), and a client the slow path installed nothing for must not be answered.

import (
	"bytes"
	"encoding/binary"
	"fmt"
	"net"
	"testing"
	"time"

	"github.com/insomniacslk/dhcp/dhcpv4"
	"go.uber.org/zap"
	"pgregory.net/rapid"

	"github.com/codelaboratoryltd/bng/pkg/dhcp"
	bngebpf "github.com/codelaboratoryltd/bng/pkg/ebpf"

	"bngverif/internal/bpfnative"
	"bngverif/internal/vstat"
)

// tagged is one 802.1Q / 802.1ad tag as it appears on the wire.
type tagged struct{ tpid, tci uint16 }

func l2Frame(src mac6, tags []tagged, bootp []byte) []byte {
	f := append([]byte{0xff, 0xff, 0xff, 0xff, 0xff, 0xff}, src[:]...)
	for _, tg := range tags {
		f = binary.BigEndian.AppendUint16(f, tg.tpid)
		f = binary.BigEndian.AppendUint16(f, tg.tci)
	}
	f = binary.BigEndian.AppendUint16(f, etIPv4)
	l4 := append(udpHeader(68, 67, len(bootp)), bootp...)
	f = append(f, ipv4Header(17, ip4{0, 0, 0, 0}, ip4{255, 255, 255, 255}, len(l4))...)
	return append(f, l4...)
}

// bootpHW builds a BOOTP request with full control over the hardware-address fields.
func bootpHW(msgType byte, xid uint32, htype, hlen byte, chaddr [16]byte, ciaddr ip4, extra []byte) []byte {
	b := make([]byte, 240)
	b[0], b[1], b[2] = 1, htype, hlen
	binary.BigEndian.PutUint32(b[4:], xid)
	copy(b[12:16], ciaddr[:])
	copy(b[28:44], chaddr[:])
	binary.BigEndian.PutUint32(b[236:], 0x63825363)
	opts := append([]byte{53, 1, msgType}, extra...)
	opts = append(opts, 255)
	for len(opts) < 72 {
		opts = append(opts, 0)
	}
	return append(b, opts...)
}

type capConn struct{ out [][]byte }

func (c *capConn) WriteTo(b []byte, _ net.Addr) (int, error) {
	c.out = append(c.out, append([]byte(nil), b...))
	return len(b), nil
}
func (c *capConn) ReadFrom([]byte) (int, net.Addr, error) { return 0, nil, net.ErrClosed }
func (c *capConn) Close() error                           { return nil }
func (c *capConn) LocalAddr() net.Addr                    { return &net.UDPAddr{IP: net.IPv4zero, Port: 67} }
func (c *capConn) SetDeadline(time.Time) error            { return nil }
func (c *capConn) SetReadDeadline(time.Time) error        { return nil }
func (c *capConn) SetWriteDeadline(time.Time) error       { return nil }

// ---- generated case ------------------------------------------------------------------------------

type vlanPair struct{ s, c uint16 }

type l2Case struct {
	mode string // vlan | mac
	// vlan
	pairs   []vlanPair // pairs[0] is the subscriber, the rest its co-resident neighbours
	pcp     [][2]uint16
	outerAD []bool
	ghosts  []l2Ghost // tag stacks nothing is installed for
	// mac
	macs   []mac6 // macs[0] is the subscriber, the rest co-resident neighbours (all hlen 6)
	tails  [][10]byte
	odd    *oddClient
	absent mac6
	labels []string
}

type l2Ghost struct {
	kind string
	tags []tagged
}

type oddClient struct {
	htype, hlen byte
	chaddr      [16]byte
	cls         string
}

func genVID(rt *rapid.T, l string) uint16 {
	if rapid.IntRange(0, 5).Draw(rt, l+".cls") == 0 {
		return rapid.SampledFrom([]uint16{1, 2, 255, 256, 4094, 0x0f0, 0x100, 0xff, 0x7ff, 0x800, 0xffe}).Draw(rt, l+".bnd")
	}
	return uint16(rapid.IntRange(1, 4094).Draw(rt, l))
}

func validVID(v uint16) bool { return v >= 1 && v <= 4094 }

func genL2(rt *rapid.T) l2Case {
	var c l2Case
	c.mode = rapid.SampledFrom([]string{"vlan", "vlan", "vlan", "mac", "mac"}).Draw(rt, "mode")
	c.labels = append(c.labels, "mode:"+c.mode)
	if c.mode == "vlan" {
		s, ct := genVID(rt, "s"), uint16(0)
		if rapid.IntRange(0, 2).Draw(rt, "qinq") > 0 {
			ct = genVID(rt, "c")
			c.labels = append(c.labels, "sub:qinq")
		} else {
			c.labels = append(c.labels, "sub:single-tag")
		}
		seen := map[vlanPair]bool{}
		add := func(p vlanPair) {
			if validVID(p.s) && (p.c == 0 || validVID(p.c)) && !seen[p] {
				seen[p] = true
				c.pairs = append(c.pairs, p)
			}
		}
		add(vlanPair{s, ct})
		sb, cb := uint16(1)<<uint(rapid.IntRange(0, 11).Draw(rt, "sbit")), uint16(1)<<uint(rapid.IntRange(0, 11).Draw(rt, "cbit"))
		add(vlanPair{s ^ sb, ct})
		if ct != 0 {
			add(vlanPair{ct, s})
			add(vlanPair{s, 0})
			add(vlanPair{s, ct ^ cb})
			add(vlanPair{ct, 0})
		} else {
			add(vlanPair{s, genVID(rt, "x")})
		}
		add(vlanPair{genVID(rt, "o.s"), genVID(rt, "o.c")})
		for i := range c.pairs {
			c.pcp = append(c.pcp, [2]uint16{uint16(rapid.IntRange(0, 15).Draw(rt, fmt.Sprintf("pcp%d.0", i))) << 12, uint16(rapid.IntRange(0, 15).Draw(rt, fmt.Sprintf("pcp%d.1", i))) << 12})
			c.outerAD = append(c.outerAD, rapid.Bool().Draw(rt, fmt.Sprintf("ad%d", i)))
		}
		// tag stacks the control plane has nothing installed for
		tp := func(l string) uint16 { return rapid.SampledFrom([]uint16{etQ, etAD}).Draw(rt, l) }
		pc := func(l string) uint16 { return uint16(rapid.IntRange(0, 15).Draw(rt, l)) << 12 }
		gb := uint16(1) << uint(rapid.IntRange(0, 11).Draw(rt, "gbit"))
		cands := []l2Ghost{
			{"priority-tag-vid0", []tagged{{tp("g0.tp"), pc("g0.pcp")}}},
			{"untagged", nil},
		}
		if ct != 0 {
			cands = append(cands,
				l2Ghost{"outer-vid0", []tagged{{tp("g1.tp"), pc("g1.pcp")}, {etQ, ct | pc("g1.pcp2")}}},
				l2Ghost{"outer-vid4095", []tagged{{tp("g2.tp"), 4095 | pc("g2.pcp")}, {etQ, ct}}},
				l2Ghost{"inner-vid4095", []tagged{{tp("g3.tp"), s}, {etQ, 4095 | pc("g3.pcp")}}})
			if p := (vlanPair{s, ct ^ gb}); !seen[p] {
				cands = append(cands, l2Ghost{"uninstalled-neighbour", []tagged{{tp("g4.tp"), s | pc("g4.pcp")}, {etQ, p.c}}})
			}
		} else {
			cands = append(cands, l2Ghost{"vid4095", []tagged{{tp("g2.tp"), 4095 | pc("g2.pcp")}}})
			if p := (vlanPair{s ^ gb, 0}); !seen[p] {
				cands = append(cands, l2Ghost{"uninstalled-neighbour", []tagged{{tp("g4.tp"), p.s | pc("g4.pcp")}}})
			}
		}
		c.ghosts = cands
		return c
	}
	// mac
	m0, cls := genMAC(rt, "mac")
	c.labels = append(c.labels, cls)
	seen := map[mac6]bool{}
	add := func(m mac6) {
		if !seen[m] {
			seen[m] = true
			c.macs = append(c.macs, m)
			var tail [10]byte
			if rapid.Bool().Draw(rt, fmt.Sprintf("tail%d", len(c.macs))) {
				copy(tail[:], rapid.SliceOfN(rapid.Byte(), 10, 10).Draw(rt, fmt.Sprintf("tail%d.b", len(c.macs))))
			}
			c.tails = append(c.tails, tail)
		}
	}
	add(m0)
	add(mac6{m0[5], m0[4], m0[3], m0[2], m0[1], m0[0]})
	fl := m0
	bit := rapid.IntRange(0, 47).Draw(rt, "flip")
	fl[bit/8] ^= 1 << uint(bit%8)
	add(fl)
	c.absent = m0
	c.absent[rapid.IntRange(0, 5).Draw(rt, "absent.pos")] ^= byte(rapid.IntRange(1, 255).Draw(rt, "absent.x"))
	for seen[c.absent] {
		c.absent[5]++
	}
	if rapid.IntRange(0, 3).Draw(rt, "odd") > 0 {
		o := &oddClient{htype: 1}
		switch rapid.IntRange(0, 5).Draw(rt, "odd.cls") {
		case 0, 1, 2:
			o.hlen, o.cls = byte(rapid.IntRange(0, 5).Draw(rt, "odd.hlen")), "hlen:0-5"
		case 3:
			o.hlen, o.cls = byte(rapid.IntRange(7, 16).Draw(rt, "odd.hlen")), "hlen:7-16"
		case 4:
			o.hlen, o.cls = byte(rapid.IntRange(17, 255).Draw(rt, "odd.hlen")), "hlen:17-255"
		default:
			o.hlen, o.cls = 6, "hlen:6/htype!=1"
			o.htype = rapid.SampledFrom([]byte{0, 6, 7, 15, 32, 255}).Draw(rt, "odd.htype")
		}
		// the first six bytes are related to the subscriber's: the same (a shorter / longer address that starts
		// like it), or anything
		switch rapid.IntRange(0, 2).Draw(rt, "odd.rel") {
		case 0:
			copy(o.chaddr[:6], m0[:])
			copy(o.chaddr[6:], rapid.SliceOfN(rapid.Byte(), 10, 10).Draw(rt, "odd.tail"))
			o.cls += "/starts-like-subscriber"
		case 1:
			copy(o.chaddr[:], m0[:min(int(o.hlen), 6)])
			o.cls += "/zero-padded"
		default:
			copy(o.chaddr[:], rapid.SliceOfN(rapid.Byte(), 16, 16).Draw(rt, "odd.chaddr"))
			o.cls += "/random"
		}
		c.odd = o
		c.labels = append(c.labels, "odd:"+o.cls[:bytes.IndexByte([]byte(o.cls), '/')], "odd-rel:"+o.cls[bytes.IndexByte([]byte(o.cls), '/')+1:])
	} else {
		c.labels = append(c.labels, "odd:none")
	}
	return c
}

// ---- execution -----------------------------------------------------------------------------------

func newL2Env(t fataler) *cidEnv {
	e := newCidEnv(t)
	e.dynamic = []string{"vlan_subscriber_pools", "subscriber_pools", "circuit_id_subscribers", "circuit_id_map"}
	return e
}

const (
	sigVLAN = "ebpf.VLANKey~vlan_key"
	sigMAC  = "ebpf.MACToUint64~dhcp_fastpath.mac_to_u64"
)

func runL2VLAN(t fataler, e *cidEnv, c l2Case) (knownSig string) {
	t.Helper()
	fail := func(sg, format string, args ...any) bool {
		t.Helper()
		if vstat.Fail(t, sg, format, args...) {
			knownSig = sg
			return true
		}
		return false
	}
	for _, n := range e.dynamic {
		clearMap(e.maps[n])
	}
	ipOfPair := func(i int) ip4 { return ip4{10, 99, 1, byte(10 + i)} }
	for i, p := range c.pairs {
		if err := e.loader.AddVLANSubscriber(p.s, p.c, cidAssignment(ipOfPair(i))); err != nil {
			if fail(sig("ebpf.Loader/vlan", "put-refused"), "AddVLANSubscriber(%d, %d): %v", p.s, p.c, err) {
				return
			}
		}
	}
	if n := len(dumpKernel(t, e.maps["vlan_subscriber_pools"])); n != len(c.pairs) {
		// the control plane itself stores two distinct pairs under one key: C20's business, nothing to compare here
		return "go-side-collision"
	}
	e.push(t)
	probe := mac6{2, 0xaa, 0xbb, 0, 0, 7}
	var ch [16]byte
	copy(ch[:], probe[:])
	bootp := bootpHW(1, 0x0badcafe, 1, 6, ch, ip4{}, nil)
	who := func(y ip4) string {
		for i, p := range c.pairs {
			if ipOfPair(i) == y {
				return fmt.Sprintf("the subscriber installed for (s=%d, c=%d)", p.s, p.c)
			}
		}
		return "an unknown entry"
	}
	for i, p := range c.pairs {
		tags := []tagged{{etQ, p.s | c.pcp[i][0]}}
		if p.c != 0 {
			tags = append(tags, tagged{etQ, p.c | c.pcp[i][1]})
		}
		if c.outerAD[i] {
			tags[0].tpid = etAD
		}
		hit, y, verdict := e.runDiscoverMustAnswer(t, l2Frame(probe, tags, bootp))
		switch {
		case !hit:
			if fail(sig(sigVLAN, "not-found-by-c"), "verdict %d: the entry written by AddVLANSubscriber(%d, %d) is not found for a frame tagged %v (installed: %v)", verdict, p.s, p.c, tags, c.pairs) {
				return
			}
		case y != ipOfPair(i):
			if fail(sig(sigVLAN, "answers-from-neighbour-entry"), "a frame tagged %v (s=%d, c=%d, own entry offers %s) is answered with %s, the address of %s", tags, p.s, p.c, ipOf(ipOfPair(i)), ipOf(y), who(y)) {
				return
			}
		}
	}
	for _, g := range c.ghosts {
		if hit, y, _ := e.runDiscover(t, l2Frame(probe, g.tags, bootp)); hit {
			if fail(sig(sigVLAN, "answers-without-entry", g.kind), "nothing is installed for a frame tagged %v (%s), yet it is answered with %s, the address of %s (installed: %v)", g.tags, g.kind, ipOf(y), who(y), c.pairs) {
				return
			}
		}
	}
	return ""
}

// slowPath is a real dhcp.Server on the environment's kernel maps.
type slowPath struct {
	srv  *dhcp.Server
	conn *capConn
}

func newSlowPath(t fataler, e *cidEnv) *slowPath {
	logger := zap.NewNop()
	pm := dhcp.NewPoolManager(e.loader, logger)
	pool, err := dhcp.NewPool(dhcp.PoolConfig{ID: cidEnvPoolID, Name: "p", Network: "10.99.0.0/22", Gateway: "10.99.0.1", LeaseTime: time.Hour})
	if err != nil {
		t.Fatalf("INCONCLUSIVE: dhcp.NewPool: %v", err)
	}
	if err := pm.AddPool(pool); err != nil {
		t.Fatalf("INCONCLUSIVE: PoolManager.AddPool: %v", err)
	}
	srv, err := dhcp.NewServer(dhcp.ServerConfig{Interface: "lo", ServerIP: net.IPv4(10, 99, 0, 1)}, e.loader, pm, logger)
	if err != nil {
		t.Fatalf("INCONCLUSIVE: dhcp.NewServer: %v", err)
	}
	return &slowPath{srv: srv, conn: &capConn{}}
}

// exchange hands one raw BOOTP request to the slow path and returns its reply (nil = none / not parseable).
func (s *slowPath) exchange(raw []byte) *dhcpv4.DHCPv4 {
	req, err := dhcpv4.FromBytes(raw)
	if err != nil {
		return nil // server4 drops what does not parse
	}
	s.conn.out = nil
	s.srv.VerifHandle(s.conn, &net.UDPAddr{IP: net.IPv4bcast, Port: 68}, req)
	if len(s.conn.out) == 0 {
		return nil
	}
	rep, err := dhcpv4.FromBytes(s.conn.out[len(s.conn.out)-1])
	if err != nil {
		return nil
	}
	return rep
}

// dora takes a client through DISCOVER/OFFER/REQUEST/ACK.  ok = false: the slow path gave it no lease.
func (s *slowPath) dora(htype, hlen byte, chaddr [16]byte, xid uint32) (ip ip4, ok bool) {
	off := s.exchange(bootpHW(1, xid, htype, hlen, chaddr, ip4{}, nil))
	if off == nil || off.MessageType() != dhcpv4.MessageTypeOffer || off.YourIPAddr.To4() == nil {
		return ip, false
	}
	y := off.YourIPAddr.To4()
	extra := append([]byte{50, 4}, y...)
	if sid := off.ServerIdentifier().To4(); sid != nil {
		extra = append(append(extra, 54, 4), sid...)
	}
	ack := s.exchange(bootpHW(3, xid, htype, hlen, chaddr, ip4{}, extra))
	if ack == nil || ack.MessageType() != dhcpv4.MessageTypeAck || !ack.YourIPAddr.To4().Equal(y) {
		return ip, false
	}
	copy(ip[:], y)
	return ip, true
}

func runL2MAC(t fataler, e *cidEnv, c l2Case) (knownSig string) {
	t.Helper()
	fail := func(sg, format string, args ...any) bool {
		t.Helper()
		if vstat.Fail(t, sg, format, args...) {
			knownSig = sg
			return true
		}
		return false
	}
	for _, n := range e.dynamic {
		clearMap(e.maps[n])
	}
	subPools := e.maps["subscriber_pools"]
	sp := newSlowPath(t, e)
	type client struct {
		htype, hlen byte
		chaddr      [16]byte
		ip          ip4
		leased      bool
		goKeys      []string // keys the slow path added to subscriber_pools for this client
		what        string
	}
	var clients []*client
	for i, m := range c.macs {
		cl := &client{htype: 1, hlen: 6, what: fmt.Sprintf("the subscriber %x", m)}
		copy(cl.chaddr[:], m[:])
		copy(cl.chaddr[6:], c.tails[i][:])
		clients = append(clients, cl)
	}
	if c.odd != nil {
		clients = append(clients, &client{htype: c.odd.htype, hlen: c.odd.hlen, chaddr: c.odd.chaddr,
			what: fmt.Sprintf("the client with htype %d hlen %d chaddr %x", c.odd.htype, c.odd.hlen, c.odd.chaddr)})
	}
	owner := map[string]*client{} // key bytes -> the client whose DORA wrote the entry last
	snapshot := func() map[string]string {
		out := map[string]string{}
		for _, en := range dumpKernel(t, subPools) {
			out[string(en.Key)] = string(en.Value)
		}
		return out
	}
	for i, cl := range clients {
		before := snapshot()
		cl.ip, cl.leased = sp.dora(cl.htype, cl.hlen, cl.chaddr, 0x1000+uint32(i))
		for k, v := range snapshot() {
			if old, had := before[k]; !had || old != v {
				cl.goKeys = append(cl.goKeys, k)
				owner[k] = cl
			}
		}
		if len(cl.goKeys) > 1 {
			t.Fatalf("INCONCLUSIVE: one DORA of %s changed %d subscriber_pools entries", cl.what, len(cl.goKeys))
		}
	}
	e.push(t)
	who := func(y ip4) string {
		for _, cl := range clients {
			if cl.leased && cl.ip == y {
				return cl.what
			}
		}
		return "an unknown entry"
	}
	for i, cl := range clients {
		kind := "key-bytes"
		switch {
		case cl.hlen < 6:
			kind = "hlen-under-6"
		case cl.hlen > 6:
			kind = "hlen-over-6"
		case cl.htype != 1:
			kind = "htype-not-ethernet"
		}
		cKey := le64(callOK(t, e.c, "dhcp_fastpath.mac_to_u64", [4]uint64{}, cl.chaddr[:6]).Ret)
		frame := l2Frame(mac6(cl.chaddr[:6]), nil, bootpHW(1, 0x2000+uint32(i), cl.htype, cl.hlen, cl.chaddr, ip4{}, nil))
		if len(cl.goKeys) == 0 {
			// (b) the slow path installed no key for this client (no lease, or a lease it does not cache): the program
			// must not answer it from an entry installed for another client (an answer with the very address the slow
			// path leased to it means the control plane identifies it with an existing client: no disagreement)
			if hit, y, _ := e.runDiscover(t, frame); hit && (!cl.leased || y != cl.ip) {
				if fail(sig(sigMAC, kind, "answers-without-entry"), "the slow path installed no subscriber_pools entry for %s (leased: %v), the program answers it with %s, the address of %s", cl.what, cl.leased, ipOf(y), who(y)) {
					return
				}
			}
			continue
		}
		// (a) the key the slow path stored is the key the program derives from the same header
		if goKey := []byte(cl.goKeys[0]); !bytes.Equal(goKey, cKey) {
			consequence := "its next DISCOVER goes to the slow path"
			if hit, y, _ := e.runDiscover(t, frame); hit {
				consequence = fmt.Sprintf("its next DISCOVER is answered with %s, the address of %s", ipOf(y), who(y))
			}
			if fail(sig(sigMAC, kind), "%s (leased %s): the slow path stored its entry under key bytes %x, the program derives %x from chaddr; %s", cl.what, ipOf(cl.ip), goKey, cKey, consequence) {
				return
			}
		}
		// end to end: answered from the entry that the control plane keeps under this client's key (if a later
		// client's DORA wrote the same key, the control plane itself identifies the two: C20's business)
		want := owner[cl.goKeys[0]]
		hit, y, verdict := e.runDiscoverMustAnswer(t, frame)
		switch {
		case !hit:
			if fail(sig(sigMAC, kind, "not-found-by-c"), "verdict %d: %s holds %s, its DISCOVER is not answered from the entry the slow path wrote (key %x)", verdict, cl.what, ipOf(cl.ip), cl.goKeys[0]) {
				return
			}
		case y != want.ip:
			if fail(sig(sigMAC, kind, "answers-from-neighbour-entry"), "%s: the entry under its key %x offers %s, its DISCOVER is answered with %s, the address of %s", cl.what, cl.goKeys[0], ipOf(want.ip), ipOf(y), who(y)) {
				return
			}
		}
	}
	// a hardware address nobody holds
	var ch [16]byte
	copy(ch[:], c.absent[:])
	if hit, y, _ := e.runDiscover(t, l2Frame(c.absent, nil, bootpHW(1, 0x3000, 1, 6, ch, ip4{}, nil))); hit {
		sg := sig(sigMAC, "answers-without-entry")
		for _, cl := range clients {
			if cl.leased && cl.ip == y && cl.hlen < 6 {
				// the entry that answers was stored for a client with a short hardware address (under key 0)
				sg = sig(sigMAC, "hlen-under-6", "answers-other-address")
			}
		}
		if fail(sg, "no lease exists for %x, yet its DISCOVER is answered with %s, the address of %s", c.absent, ipOf(y), who(y)) {
			return
		}
	}
	return ""
}

func runL2(t fataler, e *cidEnv, c l2Case) string {
	if c.mode == "vlan" {
		return runL2VLAN(t, e, c)
	}
	return runL2MAC(t, e, c)
}

func (c l2Case) nonTrivial() bool {
	if c.mode == "vlan" {
		p := c.pairs[0]
		return nonTrivialField([]uint64{uint64(p.s)}, 2) || nonTrivialField([]uint64{uint64(p.c)}, 2)
	}
	m := c.macs[0]
	return nonTrivialField([]uint64{uint64(m[0]), uint64(m[1]), uint64(m[2]), uint64(m[3]), uint64(m[4]), uint64(m[5])}, 1)
}

// TestPropKeysL2Domain: see the file comment.
func TestPropKeysL2Domain(t *testing.T) {
	e := newL2Env(t)
	defer e.close()
	vstat.Checks(1000, 15000)
	rapid.Check(t, func(rt *rapid.T) {
		c := genL2(rt)
		labels := c.labels
		if c.mode == "vlan" {
			for i := range c.pairs {
				if c.pcp[i][0]&0x1000 != 0 || c.pcp[i][1]&0x1000 != 0 {
					labels = append(labels, "tci:dei-set")
					break
				}
			}
			for i := range c.pairs {
				if c.pcp[i][0]&0xe000 != 0 || c.pcp[i][1]&0xe000 != 0 {
					labels = append(labels, "tci:pcp-set")
					break
				}
			}
			for _, g := range c.ghosts {
				labels = append(labels, "ghost:"+g.kind)
			}
			labels = append(labels, fmt.Sprintf("co-resident-pairs:%d", min(len(c.pairs), 4)))
		}
		if k := runL2(rt, e, c); k != "" {
			labels = append(labels, "known")
		}
		vstat.Case(c.nonTrivial(), vstat.Hash("l2", fmt.Sprintf("%+v %+v", c, c.odd)), func() any {
			return map[string]any{"mode": c.mode, "pairs": fmt.Sprint(c.pairs), "macs": fmt.Sprintf("%x", c.macs), "odd": fmt.Sprintf("%+v", c.odd), "labels": labels}
		}, labels...)
	})
}

var _ = bngebpf.CircuitIDKeyLen
var _ = bpfnative.EndFlush
