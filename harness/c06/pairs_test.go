package c06

// The table of (Go type, C struct, map) pairs and the generic layout round trip.
//
// Go -> C: a Go value with a generated value in EVERY field is written with ebpf.Map.Put — the call
// the production code uses — into a real kernel map that has the C-declared key/value sizes, read
// back as raw bytes and decoded member by member at the C offsets / widths in the byte order the
// kernel program reads (native little endian).  C -> Go: bytes laid out per the C declaration are
// inserted raw and read with Map.Lookup into the Go type.  Size, offset, width and byte order are
// thereby decided by the real library, the real kernel map and clang's layout of the real sources.

import (
	"bytes"
	"encoding/binary"
	"fmt"
	"reflect"
	"sort"
	"strings"

	"github.com/cilium/ebpf"
	"pgregory.net/rapid"

	"github.com/codelaboratoryltd/bng/pkg/antispoof"
	bngebpf "github.com/codelaboratoryltd/bng/pkg/ebpf"
	"github.com/codelaboratoryltd/bng/pkg/nat"
	"github.com/codelaboratoryltd/bng/pkg/qos"

	"bngverif/internal/vstat"
)

type pairDef struct {
	Go    string // qualified Go type
	Proto any    // zero value of the Go type
	Src   string // stem of the C source that declares the struct
	C     string // struct tag
	Map   string // C map the pair is used with ("" = no map of its own)
	Role  string // value | key | record (perf/ringbuf sample) | nested
	// Alias: normalised Go leaf path -> normalised C member path, where the spellings differ.
	Alias map[string]string
}

func (p pairDef) id() string { return p.Go + "~" + p.C }

// The pair table.  Sources: the "mirrors the eBPF struct" / "must match" comments on the Go types,
// and the SEC(".maps") declarations (key/value types) in bpf/maps.h, nat44.c, qos_ratelimit.c,
// antispoof.c.  Function-local Go key types (nat.LookupSession's natKey, antispoof.AddAllowedRange's
// lpmKey) cannot be named from here; they are exercised through their functions in the
// manager-level tests.
var pairTable = []pairDef{
	// pkg/ebpf  <->  bpf/maps.h (dhcp_fastpath.c)
	{Go: "ebpf.PoolAssignment", Proto: bngebpf.PoolAssignment{}, Src: "dhcp_fastpath", C: "pool_assignment", Map: "subscriber_pools", Role: "value"},
	{Go: "ebpf.PoolAssignment", Proto: bngebpf.PoolAssignment{}, Src: "dhcp_fastpath", C: "pool_assignment", Map: "vlan_subscriber_pools", Role: "value"},
	{Go: "ebpf.PoolAssignment", Proto: bngebpf.PoolAssignment{}, Src: "dhcp_fastpath", C: "pool_assignment", Map: "circuit_id_subscribers", Role: "value"},
	{Go: "ebpf.VLANKey", Proto: bngebpf.VLANKey{}, Src: "dhcp_fastpath", C: "vlan_key", Map: "vlan_subscriber_pools", Role: "key"},
	{Go: "ebpf.IPPool", Proto: bngebpf.IPPool{}, Src: "dhcp_fastpath", C: "ip_pool", Map: "ip_pools", Role: "value"},
	{Go: "ebpf.ServerConfig", Proto: bngebpf.ServerConfig{}, Src: "dhcp_fastpath", C: "dhcp_server_config", Map: "server_config", Role: "value"},
	{Go: "ebpf.DHCPStats", Proto: bngebpf.DHCPStats{}, Src: "dhcp_fastpath", C: "dhcp_stats", Map: "stats_map", Role: "value"},
	{Go: "ebpf.CircuitIDKey", Proto: bngebpf.CircuitIDKey{}, Src: "dhcp_fastpath", C: "circuit_id_key", Map: "circuit_id_subscribers", Role: "key",
		Alias: map[string]string{"": "data"}},
	// pkg/nat  <->  bpf/nat44.c
	{Go: "nat.PortBlock", Proto: nat.PortBlock{}, Src: "nat44", C: "port_block", Role: "nested"},
	{Go: "nat.SubscriberNAT", Proto: nat.SubscriberNAT{}, Src: "nat44", C: "subscriber_nat", Map: "subscriber_nat", Role: "value"},
	{Go: "nat.NATSession", Proto: nat.NATSession{}, Src: "nat44", C: "nat_session", Map: "nat_sessions", Role: "value"},
	{Go: "nat.EIMKey", Proto: nat.EIMKey{}, Src: "nat44", C: "eim_key", Map: "eim_table", Role: "key"},
	{Go: "nat.EIMMapping", Proto: nat.EIMMapping{}, Src: "nat44", C: "eim_mapping", Map: "eim_table", Role: "value"},
	{Go: "nat.NATStats", Proto: nat.NATStats{}, Src: "nat44", C: "nat_stats", Map: "nat_stats_map", Role: "value"},
	{Go: "nat.NATConfig", Proto: nat.NATConfig{}, Src: "nat44", C: "nat_config", Map: "nat_config_map", Role: "value"},
	{Go: "nat.BPFLogEntry", Proto: nat.BPFLogEntry{}, Src: "nat44", C: "nat_log_entry", Map: "nat_log_rb", Role: "record"},
	{Go: "nat.ALGConfig", Proto: nat.ALGConfig{}, Src: "nat44", C: "alg_config", Map: "alg_ports", Role: "value"},
	// pkg/qos  <->  bpf/qos_ratelimit.c
	{Go: "qos.TokenBucket", Proto: qos.TokenBucket{}, Src: "qos_ratelimit", C: "token_bucket", Map: "qos_egress", Role: "value"},
	{Go: "qos.TokenBucket", Proto: qos.TokenBucket{}, Src: "qos_ratelimit", C: "token_bucket", Map: "qos_ingress", Role: "value"},
	{Go: "qos.QoSStats", Proto: qos.QoSStats{}, Src: "qos_ratelimit", C: "qos_stats", Map: "qos_stats_map", Role: "value"},
	// pkg/antispoof  <->  bpf/antispoof.c
	{Go: "antispoof.SubscriberBinding", Proto: antispoof.SubscriberBinding{}, Src: "antispoof", C: "subscriber_binding", Map: "subscriber_bindings", Role: "value"},
	{Go: "antispoof.Config", Proto: antispoof.Config{}, Src: "antispoof", C: "antispoof_config", Map: "antispoof_config", Role: "value"},
	{Go: "antispoof.Stats", Proto: antispoof.Stats{}, Src: "antispoof", C: "antispoof_stats", Map: "antispoof_stats", Role: "value"},
	{Go: "antispoof.SpoofEvent", Proto: antispoof.SpoofEvent{}, Src: "antispoof", C: "spoof_event", Map: "spoof_events", Role: "record"},
}

// Scalar keys/values the Go side writes as plain integers (Put(&uint64, ...), Put(&uint32, ...)).
type scalarUse struct {
	Map, Role, Go string
	Proto         any
}

var scalarTable = []scalarUse{
	{"subscriber_pools", "key", "uint64 (ebpf.MACToUint64)", uint64(0)},
	{"ip_pools", "key", "uint32 (pool id)", uint32(0)},
	{"server_config", "key", "uint32 (0)", uint32(0)},
	{"stats_map", "key", "uint32 (0)", uint32(0)},
	{"circuit_id_map", "key", "uint64 (ebpf.HashCircuitID)", uint64(0)},
	{"circuit_id_map", "value", "uint64 (ebpf.MACToUint64)", uint64(0)},
	{"subscriber_nat", "key", "uint32 (nat.ipToKey)", uint32(0)},
	{"hairpin_ips", "key", "uint32 (nat.ipToKey)", uint32(0)},
	{"hairpin_ips", "value", "uint8", uint8(0)},
	{"alg_ports", "key", "uint32 (port<<16|proto)", uint32(0)},
	{"nat_config_map", "key", "uint32 (0)", uint32(0)},
	{"nat_stats_map", "key", "uint32 (0)", uint32(0)},
	{"qos_egress", "key", "uint32 (qos.ipToKey)", uint32(0)},
	{"qos_ingress", "key", "uint32 (qos.ipToKey)", uint32(0)},
	{"qos_stats_map", "key", "uint32 (0)", uint32(0)},
	{"subscriber_bindings", "key", "uint64 (antispoof.macToUint64)", uint64(0)},
	{"antispoof_config", "key", "uint32 (0)", uint32(0)},
	{"antispoof_stats", "key", "uint32 (0)", uint32(0)},
	{"allowed_ranges_v4", "value", "uint8", uint8(0)},
}

// corr is the member correspondence of one pair.
type corr struct {
	G gField
	C cField
}

type pairCtx struct {
	def     pairDef
	goType  reflect.Type
	gLeaves []gField
	goSize  int
	cs      *cStruct
	pairs   []corr // non-padding members in C declaration order
	cutoff  int    // number of leading members whose offset and width agree (the rest shifted)
	keySize int    // C-declared key size of def.Map (4 if none)
	valSize int    // C-declared value size of def.Map
	// static findings: signature -> message
	static []staticFinding
}

type staticFinding struct{ Sig, Msg string }

func goTypeLeafName(def pairDef, g gField) string {
	if g.Path == "" {
		return def.Go
	}
	return def.Go + "." + g.Path
}

// newPairCtx derives the member correspondence and the static layout differences of a pair.
func newPairCtx(t fataler, def pairDef) *pairCtx {
	t.Helper()
	p := &pairCtx{def: def, goType: reflect.TypeOf(def.Proto)}
	var err error
	p.gLeaves, p.goSize, err = goLeaves(p.goType)
	if err != nil {
		t.Fatalf("INCONCLUSIVE: Go type %s: %v", def.Go, err)
	}
	p.cs = mustLayout(t, def.Src, def.C)
	p.keySize, p.valSize = 4, p.cs.Size
	if def.Map != "" && (def.Role == "value" || def.Role == "key") {
		mi, ok := engine(t).Map(def.Map)
		if !ok {
			t.Fatalf("INCONCLUSIVE: map %s is not declared in bpf/ (pair %s)", def.Map, def.id())
		}
		p.keySize, p.valSize = int(mi.KeySize), int(mi.ValueSize)
		want := p.valSize
		if def.Role == "key" {
			want = p.keySize
		}
		if want != p.cs.Size {
			t.Fatalf("INCONCLUSIVE: engine self-check: map %s declares a %s of %d bytes, clang lays struct %s out in %d", def.Map, def.Role, want, def.C, p.cs.Size)
		}
	}

	// correspondence by normalised name
	cByName := map[string]int{}
	for i, cf := range p.cs.Fields {
		cByName[norm(cf.Path)] = i
	}
	usedC := map[int]bool{}
	type cand struct {
		g  gField
		ci int
	}
	var cands []cand
	for _, g := range p.gLeaves {
		if g.Blank {
			continue
		}
		n := norm(g.Path)
		if a, ok := def.Alias[n]; ok {
			n = a
		}
		ci, ok := cByName[n]
		if !ok {
			p.static = append(p.static, staticFinding{sig(goTypeLeafName(def, g), "no-c-member"),
				fmt.Sprintf("Go field %s has no member of the same name in struct %s", g.Path, def.C)})
			continue
		}
		usedC[ci] = true
		cands = append(cands, cand{g, ci})
	}
	for i, cf := range p.cs.Fields {
		if !usedC[i] && !cf.pad() {
			p.static = append(p.static, staticFinding{sig(def.Go+"~"+def.C+"."+cf.Path, "no-go-field"),
				fmt.Sprintf("member %s of struct %s (offset %d, %d bytes) has no field in %s", cf.Path, def.C, cf.Off, cf.Size, def.Go)})
		}
	}
	// Go declaration order must be the C declaration order
	for i := 1; i < len(cands); i++ {
		if cands[i].ci < cands[i-1].ci {
			p.static = append(p.static, staticFinding{sig(goTypeLeafName(def, cands[i].g), "order"),
				fmt.Sprintf("Go declares %s after %s, struct %s declares %s before %s", cands[i].g.Path, cands[i-1].g.Path, def.C,
					p.cs.Fields[cands[i].ci].Path, p.cs.Fields[cands[i-1].ci].Path)})
		}
	}
	sort.SliceStable(cands, func(i, j int) bool { return cands[i].ci < cands[j].ci })
	for _, c := range cands {
		p.pairs = append(p.pairs, corr{G: c.g, C: p.cs.Fields[c.ci]})
	}
	// static offset / width differences; a width difference shifts everything behind it, which is
	// accounted for so that only causes are reported, not their consequences
	shift := 0
	p.cutoff = len(p.pairs)
	for i, pr := range p.pairs {
		bad := false
		if pr.G.Elem != pr.C.Elem || pr.G.Count != pr.C.Count {
			p.static = append(p.static, staticFinding{sig(goTypeLeafName(def, pr.G), "width"),
				fmt.Sprintf("Go %s is %d x %d bytes, C %s.%s (%s) is %d x %d bytes", pr.G.Path, pr.G.Count, pr.G.Elem, def.C, pr.C.Path, pr.C.Type, pr.C.Count, pr.C.Elem)})
			bad = true
		}
		if pr.G.Off+shift != pr.C.Off {
			p.static = append(p.static, staticFinding{sig(goTypeLeafName(def, pr.G), "offset"),
				fmt.Sprintf("Go %s is encoded at offset %d, C %s.%s is at offset %d", pr.G.Path, pr.G.Off, def.C, pr.C.Path, pr.C.Off)})
			bad = true
		}
		if (bad || pr.G.Off != pr.C.Off) && p.cutoff == len(p.pairs) {
			p.cutoff = i
		}
		shift = pr.C.Off + pr.C.Size - (pr.G.Off + pr.G.Size)
	}
	return p
}

// reportStatic raises the static findings; true = at least one is a listed finding.
func (p *pairCtx) reportStatic(t fataler) {
	t.Helper()
	for _, f := range p.static {
		vstat.Fail(t, f.Sig, "%s", f.Msg)
	}
}

// pairCase is one generated case: a value for every Go leaf and every C leaf.
type pairCase struct {
	goVals map[string][]uint64 // Go leaf path -> elements (non-blank leaves)
	cVals  map[string][]uint64 // C member path -> elements (all leaves, padding included)
	cFill  byte                // filler for implicit C padding
	keyRaw []byte              // raw key for value-role pairs
	nt     bool
	seen   [nCls]bool
}

func drawPairCase(rt *rapid.T, p *pairCtx) pairCase {
	pc := pairCase{goVals: map[string][]uint64{}, cVals: map[string][]uint64{}}
	pc.nt = rapid.IntRange(0, 9).Draw(rt, "mode") < 6
	for _, g := range p.gLeaves {
		if g.Blank {
			continue
		}
		pc.goVals[g.Path] = drawField(rt, g.Elem, g.Count, pc.nt, "go."+g.Path, &pc.seen)
	}
	for _, c := range p.cs.Fields {
		pc.cVals[c.Path] = drawField(rt, c.Elem, c.Count, pc.nt, "c."+c.Path, &pc.seen)
	}
	pc.cFill = rapid.Byte().Draw(rt, "cfill")
	pc.keyRaw = rapid.SliceOfN(rapid.Byte(), p.keySize, p.keySize).Draw(rt, "key")
	return pc
}

func (pc pairCase) nonTrivial(p *pairCtx) bool {
	for _, pr := range p.pairs {
		if pr.G.Size >= 2 && !nonTrivialField(pc.goVals[pr.G.Path], pr.G.Elem) {
			return false
		}
		if pr.C.Size >= 2 && !nonTrivialField(pc.cVals[pr.C.Path], pr.C.Elem) {
			return false
		}
	}
	return true
}

func (pc pairCase) fingerprint(p *pairCtx) uint64 {
	var parts []any
	parts = append(parts, p.def.id(), p.def.Map)
	for _, g := range p.gLeaves {
		if !g.Blank {
			parts = append(parts, fmt.Sprint(pc.goVals[g.Path]))
		}
	}
	for _, c := range p.cs.Fields {
		parts = append(parts, fmt.Sprint(pc.cVals[c.Path]))
	}
	return vstat.Hash(parts...)
}

// goValue builds an addressable Go value of the pair's type from the case.
func (p *pairCtx) goValue(vals map[string][]uint64) reflect.Value {
	v := reflect.New(p.goType).Elem()
	for _, g := range p.gLeaves {
		if g.Blank {
			continue
		}
		setField(v, g, vals[g.Path])
	}
	return v
}

// cBytes lays member values out per the C declaration; bytes that belong to no member get fill.
func (p *pairCtx) cBytes(vals map[string][]uint64, fill byte, zeroPad bool) []byte {
	b := make([]byte, p.cs.Size)
	for i := range b {
		b[i] = fill
	}
	for _, c := range p.cs.Fields {
		v := vals[c.Path]
		if c.pad() && zeroPad {
			v = make([]uint64, c.Count)
		}
		encodeLE(b, c.Off, c.Elem, v)
	}
	return b
}

// compareField decides one member: `got` was decoded from the bytes the other side produced.
func (p *pairCtx) compareField(t fataler, pr corr, dir string, want, got []uint64, ctx string) bool {
	t.Helper()
	if equalVals(want, got) {
		return true
	}
	kind := "value-mismatch"
	if pr.C.Elem > 1 {
		sw := make([]uint64, len(got))
		for i := range got {
			sw[i] = bswap(got[i], pr.C.Elem)
		}
		if equalVals(want, sw) {
			kind = "byte-order"
		}
	}
	vstat.Fail(t, sig(goTypeLeafName(p.def, pr.G), kind, dir),
		"%s: Go %s = %#x, C %s.%s (offset %d, %d x %d bytes) = %#x  [%s]", p.def.id(), pr.G.Path, want, p.def.C, pr.C.Path, pr.C.Off, pr.C.Count, pr.C.Elem, got, ctx)
	return false
}

// run executes one case in both directions.  It returns false if the case was abandoned at a
// listed finding.
func (p *pairCtx) run(t fataler, pc pairCase) {
	t.Helper()
	p.reportStatic(t) // listed findings return; anything else is fatal

	// members that can be compared dynamically: all if the layouts agree statically, otherwise the
	// leading ones in front of the first difference (the rest is shifted by a cause already reported)
	pairs := p.pairs[:p.cutoff]
	sameSize := p.goSize == p.cs.Size
	encSize := p.cs.Size
	if !sameSize {
		encSize = p.goSize
	}

	var m *ebpf.Map
	keyRole := p.def.Role == "key"
	switch {
	case keyRole && sameSize:
		m = hashMap(t, p.def.Map, p.keySize, 8)
	case keyRole:
		m = hashMap(t, p.def.Map, encSize, 8)
	case sameSize:
		m = hashMap(t, "c06_"+p.def.C, p.keySize, p.valSize)
	default:
		m = hashMap(t, "c06_"+p.def.C, p.keySize, encSize)
	}
	defer m.Close()

	gv := p.goValue(pc.goVals)
	gptr := gv.Addr().Interface()
	sentinel := []byte{0xc0, 0x6c, 0x06, 0xc0, 0x6c, 0x06, 0xc0, 0x6c}

	// the real library against a map of the C-declared size
	if !sameSize {
		probe := hashMap(t, "c06_probe", func() int {
			if keyRole {
				return p.cs.Size
			}
			return p.keySize
		}(), func() int {
			if keyRole {
				return 8
			}
			return p.cs.Size
		}())
		var err error
		if keyRole {
			err = probe.Put(gptr, sentinel)
		} else {
			err = probe.Put(pc.keyRaw, gptr)
		}
		probe.Close()
		if err == nil {
			t.Fatalf("INCONCLUSIVE: %s encodes to %d bytes by reflection but cilium/ebpf stored it in a %d-byte slot", p.def.Go, p.goSize, p.cs.Size)
		}
		if !vstat.Fail(t, sig(p.def.id(), "size-mismatch"), "%s encodes to %d bytes, sizeof(struct %s) is %d; Map.Put into a map with the C-declared %s size: %v",
			p.def.Go, p.goSize, p.def.C, p.cs.Size, p.def.Role, err) {
			return
		}
	}

	// ---- Go -> C
	var raw []byte
	if keyRole {
		if err := m.Put(gptr, sentinel); err != nil {
			vstat.Fail(t, sig(p.def.id(), "put-refused"), "Map.Put with key %s (%d-byte key, struct %s): %v", p.def.Go, encSize, p.def.C, err)
			return
		}
		k, err := m.NextKeyBytes(nil)
		if err != nil || k == nil {
			t.Fatalf("INCONCLUSIVE: key just written is not in the kernel map: %v", err)
		}
		raw = k
	} else {
		if err := m.Put(pc.keyRaw, gptr); err != nil {
			vstat.Fail(t, sig(p.def.id(), "put-refused"), "Map.Put of %s (%d-byte value, struct %s): %v", p.def.Go, encSize, p.def.C, err)
			return
		}
		v, err := m.LookupBytes(pc.keyRaw)
		if err != nil || v == nil {
			t.Fatalf("INCONCLUSIVE: value just written is not in the kernel map: %v", err)
		}
		raw = v
	}
	for _, pr := range pairs {
		got, ok := decodeLE(raw, pr.C.Off, pr.C.Elem, pr.C.Count)
		if !ok {
			break // member lies beyond what the Go side wrote (size finding already raised)
		}
		if !p.compareField(t, pr, "go-to-c", pc.goVals[pr.G.Path], got, "stored bytes "+hexs(raw)) {
			return
		}
	}
	if keyRole && sameSize {
		// a hash key is compared byte by byte: what C leaves zero (explicit padding) must be zero
		for _, cf := range p.cs.Fields {
			if !cf.pad() {
				continue
			}
			for _, b := range raw[cf.Off : cf.Off+cf.Size] {
				if b != 0 {
					vstat.Fail(t, sig(p.def.id(), "key-padding-nonzero"), "key %s stored as %x: padding member %s is not zero", p.def.Go, raw, cf.Path)
					return
				}
			}
		}
	}
	if !sameSize {
		if p.def.Role == "record" {
			// samples of a perf / ring buffer are not read with Map.Lookup; the reader the sources
			// describe is binary.Read(sample, LittleEndian, &entry), which consumes the leading bytes
			cb := p.cBytes(pc.cVals, pc.cFill, false)
			out := reflect.New(p.goType)
			n := p.goSize
			if n > len(cb) {
				n = len(cb)
			}
			if err := binary.Read(bytes.NewReader(cb[:n]), binary.LittleEndian, out.Interface()); err == nil {
				for _, pr := range pairs {
					if pr.C.Off+pr.C.Size > n {
						break
					}
					if !p.compareField(t, pr, "c-to-go", fieldValue(out.Elem(), pr.G), pc.cVals[pr.C.Path], "C bytes "+hexs(cb)) {
						return
					}
				}
			}
		}
		return // Lookup into the Go type is refused for the same reason Put is
	}

	// ---- C -> Go
	clearMap(m)
	if keyRole {
		ck := p.cBytes(pc.cVals, 0, true)
		if err := m.Put(ck, sentinel); err != nil {
			t.Fatalf("INCONCLUSIVE: raw Put: %v", err)
		}
		// the Go key built from the same member values must address the entry
		vals := map[string][]uint64{}
		for _, pr := range p.pairs {
			vals[pr.G.Path] = pc.cVals[pr.C.Path]
		}
		gk := p.goValue(vals)
		out := make([]byte, 8)
		if err := m.Lookup(gk.Addr().Interface(), &out); err != nil {
			vstat.Fail(t, sig(p.def.id(), "key-not-found", "c-to-go"),
				"entry stored under C key bytes %x is not found with Go key %+v: %v", ck, gk.Interface(), err)
			return
		}
		return
	}
	cb := p.cBytes(pc.cVals, pc.cFill, false)
	if err := m.Put(pc.keyRaw, cb); err != nil {
		t.Fatalf("INCONCLUSIVE: raw Put: %v", err)
	}
	out := reflect.New(p.goType)
	if err := m.Lookup(pc.keyRaw, out.Interface()); err != nil {
		vstat.Fail(t, sig(p.def.id(), "lookup-refused"), "Map.Lookup into %s of a %d-byte value: %v", p.def.Go, len(cb), err)
		return
	}
	for _, pr := range pairs {
		got := fieldValue(out.Elem(), pr.G)
		if !p.compareField(t, pr, "c-to-go", got, pc.cVals[pr.C.Path], "C bytes "+hexs(cb)) {
			return
		}
	}
}

// pairsOf returns the table rows whose Go type lives in package pkg.
func pairsOf(pkg string) []pairDef {
	var out []pairDef
	for _, d := range pairTable {
		if strings.HasPrefix(d.Go, pkg+".") {
			out = append(out, d)
		}
	}
	return out
}

var pairCtxCache = map[string]*pairCtx{}

func ctxFor(t fataler, d pairDef) *pairCtx {
	k := d.id() + "@" + d.Map
	if c, ok := pairCtxCache[k]; ok {
		return c
	}
	c := newPairCtx(t, d)
	pairCtxCache[k] = c
	return c
}

// layoutProperty is the rapid property shared by the per-package TestPropLayout* functions.
func layoutProperty(t fataler, pkg string) func(rt *rapid.T) {
	defs := pairsOf(pkg)
	for _, d := range defs {
		ctxFor(t, d) // environment problems surface here, outside rapid (INCONCLUSIVE, not a counterexample)
	}
	return func(rt *rapid.T) {
		d := defs[rapid.IntRange(0, len(defs)-1).Draw(rt, "pair")]
		p := ctxFor(rt, d)
		pc := drawPairCase(rt, p)
		p.run(rt, pc)
		labels := append(classLabels(pc.seen, pc.nt), "pair:"+d.id(), "role:"+d.Role)
		vstat.Case(pc.nonTrivial(p), pc.fingerprint(p), func() any {
			return map[string]any{"pair": d.id(), "map": d.Map, "go": fmt.Sprintf("%+v", p.goValue(pc.goVals).Interface()), "c": hexs(p.cBytes(pc.cVals, pc.cFill, false))}
		}, labels...)
	}
}
