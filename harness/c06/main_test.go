package c06

// C06 — userspace and eBPF programs agree on every map layout and key encoding.
//
// Shared plumbing: the native engine client (one runner per test process), kernel maps with the
// C-declared geometry, value generators with the all-ones / single-bit / boundary / distinct-bytes
// classes, and the reporting helpers.

import (
	"fmt"
	"os"
	"strings"
	"sync"
	"testing"

	"github.com/cilium/ebpf"
	"github.com/cilium/ebpf/rlimit"
	"pgregory.net/rapid"

	"bngverif/internal/bpfnative"
	"bngverif/internal/vstat"
)

func TestMain(m *testing.M) {
	_ = rlimit.RemoveMemlock()
	vstat.Main(m, "C06")
}

type ebpfMap = ebpf.Map

// fataler is what checks report through (*testing.T and *rapid.T).
type fataler interface {
	Fatalf(format string, args ...any)
	Helper()
}

var (
	clientOnce sync.Once
	clientVal  *bpfnative.Client
	clientErr  error
)

// engine returns the process-wide native runner client (tests of one process run sequentially).
func engine(t fataler) *bpfnative.Client {
	t.Helper()
	clientOnce.Do(func() { clientVal, clientErr = bpfnative.Start() })
	if clientErr != nil {
		t.Fatalf("INCONCLUSIVE: native engine not available (%v); run through ./check C06 or set VERIF_BUILD", clientErr)
	}
	return clientVal
}

func mustLayout(t fataler, stem, tag string) *cStruct {
	t.Helper()
	cs, err := cLayout(stem, tag)
	if err != nil {
		t.Fatalf("INCONCLUSIVE: C layout of struct %s (bpf/%s.c): %v", tag, stem, err)
	}
	return cs
}

// hashMap creates a plain kernel hash map with the given geometry (layout round trips only need the
// C-declared key/value sizes; the declared map type matters in the manager-level tests, which use
// bpfnative.NewKernelMap).
func hashMap(t fataler, name string, keySize, valueSize int) *ebpf.Map {
	t.Helper()
	if len(name) > 15 {
		name = name[:15]
	}
	m, err := ebpf.NewMap(&ebpf.MapSpec{Name: name, Type: ebpf.Hash, KeySize: uint32(keySize), ValueSize: uint32(valueSize), MaxEntries: 64})
	if err != nil {
		t.Fatalf("INCONCLUSIVE: cannot create kernel map %s (%d/%d): %v", name, keySize, valueSize, err)
	}
	return m
}

func kernelMap(t fataler, c *bpfnative.Client, name string) *ebpf.Map {
	t.Helper()
	m, err := c.NewKernelMap(name, 256)
	if err != nil {
		t.Fatalf("INCONCLUSIVE: cannot create kernel map %s: %v", name, err)
	}
	return m
}

// clearMap deletes every entry of a kernel hash map (array slots are overwritten by the next Put).
func clearMap(m *ebpf.Map) {
	if m.Type() == ebpf.Array || m.Type() == ebpf.PerCPUArray {
		return
	}
	for i := 0; i < 100000; i++ {
		k, err := m.NextKeyBytes(nil)
		if err != nil || k == nil {
			return
		}
		_ = m.Delete(k)
	}
}

type rawEntry struct{ Key, Value []byte }

// dumpKernel iterates a kernel map as raw bytes.
func dumpKernel(t fataler, m *ebpf.Map) []rawEntry {
	t.Helper()
	var out []rawEntry
	var cur []byte
	for i := 0; i < 100000; i++ {
		var next []byte
		var err error
		if cur == nil {
			next, err = m.NextKeyBytes(nil)
		} else {
			next, err = m.NextKeyBytes(cur)
		}
		if err != nil {
			t.Fatalf("INCONCLUSIVE: iterate kernel map: %v", err)
		}
		if next == nil {
			break
		}
		cur = next
		v, err := m.LookupBytes(cur)
		if err != nil {
			t.Fatalf("INCONCLUSIVE: lookup in kernel map: %v", err)
		}
		if v != nil {
			out = append(out, rawEntry{Key: append([]byte{}, cur...), Value: v})
		}
	}
	return out
}

// ---- value classes -------------------------------------------------------------------------------

const (
	clsOnes = iota
	clsBit
	clsBoundary
	clsDistinct
	clsRandom
	nCls
)

var clsName = [nCls]string{"ones", "bit", "boundary", "distinct", "random"}

// drawElem draws one element of `width` bytes of the given class.
func drawElem(rt *rapid.T, width, cls int, label string) uint64 {
	m := mask(width)
	switch cls {
	case clsOnes:
		return m
	case clsBit:
		return uint64(1) << uint(rapid.IntRange(0, 8*width-1).Draw(rt, label+".bit"))
	case clsBoundary:
		top := uint64(1) << uint(8*width-1)
		c := []uint64{0, 1, m - 1, top, top - 1, 0xff, 0x100 & m, m &^ 0xff, 0x0102030405060708 & m, 0x0100 & m}
		return c[rapid.IntRange(0, len(c)-1).Draw(rt, label+".bnd")]
	case clsDistinct:
		// every byte non-zero and different from its neighbours' values: byte i = start + i*step (mod 255) + 1
		start := rapid.IntRange(0, 254).Draw(rt, label+".s")
		step := rapid.IntRange(1, 31).Draw(rt, label+".d")
		var u uint64
		for i := 0; i < width; i++ {
			u |= uint64((start+i*step)%255+1) << (8 * uint(i))
		}
		return u
	default:
		return rapid.Uint64().Draw(rt, label+".r") & m
	}
}

// drawField draws all elements of a leaf of `count` elements of `width` bytes.  In NT mode the
// field gets at least two distinct non-zero bytes (the rule under which byte order is exercised).
func drawField(rt *rapid.T, width, count int, nt bool, label string, seen *[nCls]bool) []uint64 {
	out := make([]uint64, count)
	if nt {
		seen[clsDistinct] = true
		if width > 1 {
			for i := range out {
				out[i] = drawElem(rt, width, clsDistinct, label)
			}
			return out
		}
		start := rapid.IntRange(0, 254).Draw(rt, label+".s")
		for i := range out {
			out[i] = uint64((start+i*7)%255 + 1)
		}
		return out
	}
	cls := rapid.SampledFrom([]int{clsOnes, clsBit, clsBit, clsBoundary, clsBoundary, clsDistinct, clsRandom}).Draw(rt, label+".cls")
	seen[cls] = true
	for i := range out {
		out[i] = drawElem(rt, width, cls, label)
	}
	return out
}

// nonTrivialField reports whether a (multi-byte) field value has two distinct non-zero bytes.
func nonTrivialField(vals []uint64, width int) bool {
	if width*len(vals) < 2 {
		return true
	}
	first := -1
	for _, u := range vals {
		for j := 0; j < width; j++ {
			b := int(u >> (8 * uint(j)) & 0xff)
			if b == 0 {
				continue
			}
			if first < 0 {
				first = b
			} else if b != first {
				return true
			}
		}
	}
	return false
}

func classLabels(seen [nCls]bool, nt bool) []string {
	var out []string
	if nt {
		out = append(out, "mode:all-fields-distinct-bytes")
	} else {
		out = append(out, "mode:mixed-classes")
	}
	for i, s := range seen {
		if s && !nt {
			out = append(out, "has:"+clsName[i])
		}
	}
	return out
}

// sig builds a violation signature.
func sig(parts ...string) string { return "C06/" + strings.Join(parts, "/") }

func hexs(b []byte) string { return fmt.Sprintf("%x", b) }

func note(k string, v any) { vstat.Note(k, v) }

func fileExists(p string) bool { _, err := os.Stat(p); return err == nil }
