package c06

// C side of the comparison: struct layouts and map declarations are obtained from the C sources of
// $VERIF_REPO/bpf at check time with clang (never from a table in this harness):
//
//  1. `clang -fsyntax-only -Xclang -fdump-record-layouts` of a TU that #includes the source gives the
//     member names / nesting of every struct the source defines;
//  2. a generated TU with a constant table {sizeof, _Alignof, offsetof(member), sizeof(member)...} is
//     compiled to LLVM IR (front end only, nothing is linked or run) once for the native target and
//     once for `-target bpf`; the numbers are read back from the IR.  The native numbers are what the
//     natively compiled programs of native/ use; the bpf numbers are what the kernel program uses.
//
// Results are cached under $VERIF_BUILD/c06-layout/<hash of every file under bpf/ and native/shim>/ so
// that the parallel test processes of one run share the work; any edit of a C source changes the hash.

import (
	"bytes"
	"crypto/sha256"
	"encoding/hex"
	"encoding/json"
	"fmt"
	"os"
	"os/exec"
	"path/filepath"
	"regexp"
	"sort"
	"strconv"
	"strings"
	"sync"
	"syscall"
)

type cField struct {
	Path  string `json:"path"` // member designator, e.g. "block.public_ip"
	Name  string `json:"name"` // last component
	Type  string `json:"type"` // as printed by clang, e.g. "__u8[3]"
	Off   int    `json:"off"`
	Size  int    `json:"size"`
	Count int    `json:"count"` // array length (1 for scalars)
	Elem  int    `json:"elem"`  // element width in bytes
}

func (f cField) pad() bool { return strings.HasPrefix(f.Name, "_") }

type cStruct struct {
	Name   string   `json:"name"`
	Size   int      `json:"size"`
	Align  int      `json:"align"`
	Fields []cField `json:"fields"` // leaves in declaration order
}

type cMap struct {
	Name  string `json:"name"`
	Src   string `json:"src"` // stem of the .c file that sees the declaration
	Type  string `json:"type"`
	Key   string `json:"key"`   // C type text, "" for sinks
	Value string `json:"value"` // C type text
}

type cSource struct {
	Stem    string   `json:"stem"`
	Files   []string `json:"files"`   // the .c file and its local #include "..." headers
	Structs []string `json:"structs"` // struct tags defined in those files
	Maps    []cMap   `json:"maps"`
}

func repoDir() string {
	if v := os.Getenv("VERIF_REPO"); v != "" {
		return v
	}
	return "/repo"
}

func verifRoot() string {
	if v := os.Getenv("VERIF_ROOT"); v != "" {
		return v
	}
	return "/verif"
}

func buildDir() string {
	if v := os.Getenv("VERIF_BUILD"); v != "" {
		return v
	}
	return filepath.Join(verifRoot(), ".build", "C06")
}

var (
	reInclude = regexp.MustCompile(`(?m)^\s*#\s*include\s+"([^"]+)"`)
	reStruct  = regexp.MustCompile(`(?m)^\s*struct\s+([A-Za-z_]\w*)\s*\{`)
	reMapDecl = regexp.MustCompile(`(?s)struct\s*\{([^{}]*)\}\s*([A-Za-z_]\w*)\s+SEC\("\.maps"\)\s*;`)
	reMapType = regexp.MustCompile(`__uint\(\s*type\s*,\s*(\w+)\s*\)`)
	reMapKey  = regexp.MustCompile(`__type\(\s*key\s*,\s*([^)]+?)\s*\)`)
	reMapVal  = regexp.MustCompile(`__type\(\s*value\s*,\s*([^)]+?)\s*\)`)
	reComment = regexp.MustCompile(`(?s)/\*.*?\*/|//[^\n]*`)
)

// scanSources reads bpf/*.c (and their local headers) for struct definitions and map declarations.
func scanSources() ([]cSource, error) {
	dir := filepath.Join(repoDir(), "bpf")
	cs, err := filepath.Glob(filepath.Join(dir, "*.c"))
	if err != nil || len(cs) == 0 {
		return nil, fmt.Errorf("no C sources under %s", dir)
	}
	sort.Strings(cs)
	var out []cSource
	for _, c := range cs {
		src := cSource{Stem: strings.TrimSuffix(filepath.Base(c), ".c")}
		seen := map[string]bool{}
		var visit func(p string) error
		visit = func(p string) error {
			if seen[p] {
				return nil
			}
			seen[p] = true
			b, err := os.ReadFile(p)
			if err != nil {
				return err
			}
			src.Files = append(src.Files, p)
			text := reComment.ReplaceAllString(string(b), " ")
			for _, m := range reInclude.FindAllStringSubmatch(text, -1) {
				q := filepath.Join(filepath.Dir(p), m[1])
				if _, err := os.Stat(q); err == nil {
					if err := visit(q); err != nil {
						return err
					}
				}
			}
			for _, m := range reStruct.FindAllStringSubmatch(text, -1) {
				src.Structs = append(src.Structs, m[1])
			}
			for _, m := range reMapDecl.FindAllStringSubmatch(text, -1) {
				cm := cMap{Name: m[2], Src: src.Stem}
				if t := reMapType.FindStringSubmatch(m[1]); t != nil {
					cm.Type = t[1]
				}
				if t := reMapKey.FindStringSubmatch(m[1]); t != nil {
					cm.Key = strings.Join(strings.Fields(t[1]), " ")
				}
				if t := reMapVal.FindStringSubmatch(m[1]); t != nil {
					cm.Value = strings.Join(strings.Fields(t[1]), " ")
				}
				src.Maps = append(src.Maps, cm)
			}
			return nil
		}
		if err := visit(c); err != nil {
			return nil, err
		}
		sort.Strings(src.Structs)
		out = append(out, src)
	}
	return out, nil
}

func sourcesHash() (string, error) {
	h := sha256.New()
	var files []string
	for _, d := range []string{filepath.Join(repoDir(), "bpf"), filepath.Join(verifRoot(), "native", "shim")} {
		_ = filepath.Walk(d, func(p string, info os.FileInfo, err error) error {
			if err == nil && !info.IsDir() {
				files = append(files, p)
			}
			return nil
		})
	}
	sort.Strings(files)
	for _, f := range files {
		b, err := os.ReadFile(f)
		if err != nil {
			return "", err
		}
		fmt.Fprintf(h, "%s %d\n", f, len(b))
		h.Write(b)
	}
	fmt.Fprintf(h, "layout-cache-v3")
	return hex.EncodeToString(h.Sum(nil))[:20], nil
}

func clangArgs(target string) []string {
	a := []string{"-w", "-O0", "-I", filepath.Join(verifRoot(), "native", "shim"), "-I", filepath.Join(repoDir(), "bpf")}
	if target == "bpf" {
		// what bpf/Makefile does (-target bpf, the multiarch include dir); __x86_64__ only selects gnu/stubs-64.h
		a = append([]string{"-target", "bpf", "-D__x86_64__"}, a...)
		a = append(a, "-I", "/usr/include/x86_64-linux-gnu")
	}
	return a
}

func clangBin() string {
	if v := os.Getenv("CLANG"); v != "" {
		return v
	}
	return "clang"
}

// dumpMembers runs -fdump-record-layouts and returns, per struct tag, the member designators of its leaves.
func dumpMembers(dir string, src cSource) (map[string][]cField, error) {
	tu := filepath.Join(dir, "dump_"+src.Stem+".c")
	var b strings.Builder
	fmt.Fprintf(&b, "#include \"%s.c\"\n", src.Stem)
	for i, s := range src.Structs {
		fmt.Fprintf(&b, "static const unsigned long c06_force_%d = sizeof(struct %s);\n", i, s)
	}
	if err := os.WriteFile(tu, []byte(b.String()), 0o644); err != nil {
		return nil, err
	}
	args := append(clangArgs("native"), "-fsyntax-only", "-Xclang", "-fdump-record-layouts", tu)
	cmd := exec.Command(clangBin(), args...)
	var stderr bytes.Buffer
	cmd.Stderr = &stderr
	out, err := cmd.Output()
	if err != nil {
		return nil, fmt.Errorf("clang -fdump-record-layouts %s: %v\n%s", src.Stem, err, stderr.String())
	}
	return parseDump(string(out), src.Structs), nil
}

var reDumpLine = regexp.MustCompile(`^\s*(\d+)(?::(\d+)-(\d+))?\s*\|(\s+)(.*)$`)

// parseDump extracts the leaves of the wanted structs from clang's record layout dump.
func parseDump(out string, want []string) map[string][]cField {
	wanted := map[string]bool{}
	for _, w := range want {
		wanted[w] = true
	}
	res := map[string][]cField{}
	blocks := strings.Split(out, "*** Dumping AST Record Layout")
	for _, blk := range blocks {
		lines := strings.Split(blk, "\n")
		type ent struct {
			indent    int
			typ, name string
			bitfield  bool
		}
		var ents []ent
		head := ""
		for _, ln := range lines {
			m := reDumpLine.FindStringSubmatch(ln)
			if m == nil {
				continue
			}
			indent := len(m[4])
			txt := strings.TrimSpace(m[5])
			if head == "" {
				head = txt
				continue
			}
			// "<type> <name>" — the name is the last space-separated token unless the entry is an
			// anonymous record ("struct x::(anonymous at ...)") or a base class (not in C).
			typ, name := txt, ""
			if !strings.HasSuffix(txt, ")") {
				if i := strings.LastIndex(txt, " "); i > 0 {
					typ, name = strings.TrimSpace(txt[:i]), txt[i+1:]
				}
			}
			ents = append(ents, ent{indent: indent, typ: typ, name: name, bitfield: m[2] != ""})
		}
		if !strings.HasPrefix(head, "struct ") {
			continue
		}
		tag := strings.TrimPrefix(head, "struct ")
		if !wanted[tag] {
			continue
		}
		if _, dup := res[tag]; dup {
			continue
		}
		// leaves: entries that are not followed by a deeper entry
		var fields []cField
		var stack []ent
		for i, e := range ents {
			for len(stack) > 0 && stack[len(stack)-1].indent >= e.indent {
				stack = stack[:len(stack)-1]
			}
			container := i+1 < len(ents) && ents[i+1].indent > e.indent
			if container {
				stack = append(stack, e)
				continue
			}
			var parts []string
			for _, s := range stack {
				if s.name != "" {
					parts = append(parts, s.name)
				}
			}
			if e.name == "" || e.bitfield || strings.HasSuffix(e.typ, "[]") {
				continue // anonymous member, bit-field, flexible array member (no size)
			}
			parts = append(parts, e.name)
			fields = append(fields, cField{Path: strings.Join(parts, "."), Name: e.name, Type: e.typ})
		}
		res[tag] = fields
	}
	return res
}

var reArr = regexp.MustCompile(`\[(\d+)\]`)

// measure compiles the constant table for one target and fills Off/Size of every leaf.
func measure(dir string, src cSource, members map[string][]cField, target string) (map[string]*cStruct, error) {
	tags := make([]string, 0, len(members))
	for t := range members {
		tags = append(tags, t)
	}
	sort.Strings(tags)
	tu := filepath.Join(dir, "table_"+src.Stem+"_"+target+".c")
	var b strings.Builder
	fmt.Fprintf(&b, "#include \"%s.c\"\n", src.Stem)
	b.WriteString("const unsigned long long c06_tab[] __attribute__((used)) = {\n")
	n := 0
	for _, t := range tags {
		fmt.Fprintf(&b, " sizeof(struct %s), _Alignof(struct %s),\n", t, t)
		n += 2
		for _, f := range members[t] {
			fmt.Fprintf(&b, "  __builtin_offsetof(struct %s, %s), sizeof(((struct %s *)0)->%s),\n", t, f.Path, t, f.Path)
			n += 2
		}
	}
	b.WriteString(" 0xC06C06C06ULL };\n")
	n++
	if err := os.WriteFile(tu, []byte(b.String()), 0o644); err != nil {
		return nil, err
	}
	ir := filepath.Join(dir, "table_"+src.Stem+"_"+target+".ll")
	args := append(clangArgs(target), "-S", "-emit-llvm", "-Xclang", "-disable-llvm-passes", "-o", ir, tu)
	cmd := exec.Command(clangBin(), args...)
	if out, err := cmd.CombinedOutput(); err != nil {
		return nil, fmt.Errorf("clang (%s) %s: %v\n%s", target, src.Stem, err, out)
	}
	text, err := os.ReadFile(ir)
	if err != nil {
		return nil, err
	}
	var nums []int
	for _, ln := range strings.Split(string(text), "\n") {
		if !strings.HasPrefix(ln, "@c06_tab ") {
			continue
		}
		i := strings.Index(ln, "] [")
		if i < 0 {
			return nil, fmt.Errorf("%s: unexpected IR for c06_tab: %.200s", ir, ln)
		}
		for _, m := range regexp.MustCompile(`i64 (-?\d+)`).FindAllStringSubmatch(ln[i:], -1) {
			v, _ := strconv.ParseInt(m[1], 10, 64)
			nums = append(nums, int(v))
		}
	}
	if len(nums) != n || nums[n-1] != 0xC06C06C06 {
		return nil, fmt.Errorf("%s: c06_tab has %d entries, want %d", ir, len(nums), n)
	}
	res := map[string]*cStruct{}
	k := 0
	for _, t := range tags {
		cs := &cStruct{Name: t, Size: nums[k], Align: nums[k+1]}
		k += 2
		for _, f := range members[t] {
			f.Off, f.Size = nums[k], nums[k+1]
			k += 2
			f.Count = 1
			for _, m := range reArr.FindAllStringSubmatch(f.Type, -1) {
				c, _ := strconv.Atoi(m[1])
				f.Count *= c
			}
			if f.Count <= 0 || f.Size%f.Count != 0 {
				return nil, fmt.Errorf("struct %s member %s: size %d not a multiple of array length %d (%s)", t, f.Path, f.Size, f.Count, f.Type)
			}
			f.Elem = f.Size / f.Count
			cs.Fields = append(cs.Fields, f)
		}
		res[t] = cs
	}
	return res, nil
}

type layoutSet struct {
	Source  cSource             `json:"source"`
	Native  map[string]*cStruct `json:"native"`
	BPF     map[string]*cStruct `json:"bpf"`
	BPFErr  string              `json:"bpf_err"`
	Scalars map[string]int      `json:"scalars"` // sizeof of non-struct key/value types of the maps
}

var (
	layoutMu    sync.Mutex
	layoutCache = map[string]*layoutSet{}
	sourcesOnce sync.Once
	sourcesList []cSource
	sourcesErr  error
)

func sources() ([]cSource, error) {
	sourcesOnce.Do(func() { sourcesList, sourcesErr = scanSources() })
	return sourcesList, sourcesErr
}

func sourceByStem(stem string) (cSource, error) {
	ss, err := sources()
	if err != nil {
		return cSource{}, err
	}
	for _, s := range ss {
		if s.Stem == stem {
			return s, nil
		}
	}
	return cSource{}, fmt.Errorf("no source bpf/%s.c", stem)
}

// layouts returns the (cached) layouts of every struct visible from bpf/<stem>.c.
func layouts(stem string) (*layoutSet, error) {
	layoutMu.Lock()
	defer layoutMu.Unlock()
	if ls, ok := layoutCache[stem]; ok {
		return ls, nil
	}
	src, err := sourceByStem(stem)
	if err != nil {
		return nil, err
	}
	hash, err := sourcesHash()
	if err != nil {
		return nil, err
	}
	dir := filepath.Join(buildDir(), "c06-layout", hash)
	if err := os.MkdirAll(dir, 0o755); err != nil {
		return nil, err
	}
	// one generator per source across the parallel test processes
	lock, err := os.OpenFile(filepath.Join(dir, stem+".lock"), os.O_CREATE|os.O_RDWR, 0o644)
	if err != nil {
		return nil, err
	}
	defer lock.Close()
	if err := syscall.Flock(int(lock.Fd()), syscall.LOCK_EX); err != nil {
		return nil, err
	}
	defer syscall.Flock(int(lock.Fd()), syscall.LOCK_UN)
	cachePath := filepath.Join(dir, stem+".json")
	if b, err := os.ReadFile(cachePath); err == nil {
		var ls layoutSet
		if json.Unmarshal(b, &ls) == nil && ls.Native != nil {
			layoutCache[stem] = &ls
			return &ls, nil
		}
	}
	members, err := dumpMembers(dir, src)
	if err != nil {
		return nil, err
	}
	for _, s := range src.Structs {
		if _, ok := members[s]; !ok {
			return nil, fmt.Errorf("struct %s of bpf/%s.c not found in clang's record layout dump", s, stem)
		}
	}
	ls := &layoutSet{Source: src}
	var wg sync.WaitGroup
	var nerr, berr error
	wg.Add(2)
	go func() { defer wg.Done(); ls.Native, nerr = measure(dir, src, members, "native") }()
	go func() { defer wg.Done(); ls.BPF, berr = measure(dir, src, members, "bpf") }()
	wg.Wait()
	if nerr != nil {
		return nil, nerr
	}
	if berr != nil {
		ls.BPF, ls.BPFErr = nil, berr.Error()
	}
	b, _ := json.Marshal(ls)
	tmp := cachePath + ".tmp"
	if err := os.WriteFile(tmp, b, 0o644); err == nil {
		_ = os.Rename(tmp, cachePath)
	}
	layoutCache[stem] = ls
	// old cache generations are of no use to anybody
	if ents, err := os.ReadDir(filepath.Dir(dir)); err == nil {
		for _, e := range ents {
			if e.Name() != hash {
				_ = os.RemoveAll(filepath.Join(filepath.Dir(dir), e.Name()))
			}
		}
	}
	return ls, nil
}

// cLayout returns the native layout of struct tag as seen from bpf/<stem>.c.
func cLayout(stem, tag string) (*cStruct, error) {
	ls, err := layouts(stem)
	if err != nil {
		return nil, err
	}
	cs, ok := ls.Native[tag]
	if !ok {
		return nil, fmt.Errorf("struct %s is not defined by bpf/%s.c", tag, stem)
	}
	return cs, nil
}
