package c06

// pkg/ebpf + pkg/dhcp  <->  bpf/dhcp_fastpath.c, decided on the wire: the control plane writes a
// subscriber, its pool and the server configuration into real kernel maps with the calls the DHCP
// slow path uses (ebpf.IPToUint32 / MACToUint64 / AddVLANSubscriber / AddCircuitIDSubscriber,
// dhcp.PoolManager.AddPool, Loader.SetServerConfig); the maps are copied byte for byte into the
// natively compiled XDP program, which is run on that subscriber's DISCOVER.  Whatever the Go side
// meant must be what the C side reads: the entry is found under the key the program derives from
// the frame (MAC, VLAN pair, circuit-id) and the reply carries the configured addresses.

import (
	"bytes"
	"encoding/binary"
	"fmt"
	"net"
	"testing"
	"time"

	"go.uber.org/zap"
	"pgregory.net/rapid"

	"github.com/codelaboratoryltd/bng/pkg/dhcp"
	bngebpf "github.com/codelaboratoryltd/bng/pkg/ebpf"

	"bngverif/internal/bpfnative"
	"bngverif/internal/vstat"
)

type dhcpWireCase struct {
	mac       mac6
	lease     ip4
	path      string // mac | vlan1 | qinq | circuit
	outerAD   bool
	sTag      uint16
	cTag      uint16
	pcp       [2]uint16 // priority/DEI bits of the two tags
	cid       []byte
	cidPos    int
	poolID    uint32
	prefix    int
	network   ip4
	gateway   ip4
	dns       []ip4
	leaseSecs uint32
	serverMAC mac6
	serverIP  ip4 // 0.0.0.0 = not configured (program falls back to the pool gateway)
	ifindex   int
	request   bool
	classes   []string
}

func genDhcpWire(rt *rapid.T) dhcpWireCase {
	var c dhcpWireCase
	var cls string
	c.mac, cls = genMAC(rt, "mac")
	if c.mac == (mac6{}) {
		c.mac = mac6{2, 0, 0, 0, 0, 9}
	}
	c.classes = append(c.classes, cls)
	c.lease, cls = genIP(rt, "lease")
	c.classes = append(c.classes, "lease-"+cls)
	c.path = rapid.SampledFrom([]string{"mac", "mac", "vlan1", "qinq", "qinq", "circuit", "circuit"}).Draw(rt, "path")
	c.classes = append(c.classes, "path:"+c.path)
	vid := func(l string) uint16 {
		switch rapid.IntRange(0, 5).Draw(rt, l+".cls") {
		case 0:
			return rapid.SampledFrom([]uint16{1, 255, 256, 4094, 0x0f0, 0x100, 0xff}).Draw(rt, l+".bnd")
		default:
			return uint16(rapid.IntRange(1, 4094).Draw(rt, l))
		}
	}
	switch c.path {
	case "vlan1":
		c.sTag = vid("stag")
	case "qinq":
		c.sTag, c.cTag = vid("stag"), vid("ctag")
		c.outerAD = rapid.Bool().Draw(rt, "outer88a8")
	case "circuit":
		n := rapid.IntRange(2, 32).Draw(rt, "cidlen")
		c.cid = rapid.SliceOfN(rapid.Byte(), n, n).Draw(rt, "cid")
		c.cidPos = rapid.SampledFrom([]int{3, 12, 15, 19}).Draw(rt, "cidpos")
	}
	c.pcp[0] = uint16(rapid.IntRange(0, 15).Draw(rt, "pcp0")) << 12
	c.pcp[1] = uint16(rapid.IntRange(0, 15).Draw(rt, "pcp1")) << 12
	c.poolID = rapid.SampledFrom([]uint32{1, 2, 0x01020304, 0xffffffff, 256, 0x80000000}).Draw(rt, "poolid")
	c.prefix = rapid.IntRange(22, 30).Draw(rt, "prefix")
	c.network, _ = genIP(rt, "net")
	// network address of that prefix
	n := binary.BigEndian.Uint32(c.network[:]) &^ (uint32(1)<<uint(32-c.prefix) - 1)
	binary.BigEndian.PutUint32(c.network[:], n)
	c.gateway, cls = genIP(rt, "gw")
	c.classes = append(c.classes, "gw-"+cls)
	nd := rapid.IntRange(0, 2).Draw(rt, "ndns")
	for i := 0; i < nd; i++ {
		d, _ := genIP(rt, fmt.Sprintf("dns%d", i))
		if d == (ip4{}) {
			d = ip4{9, 9, 9, 9}
		}
		c.dns = append(c.dns, d)
	}
	c.classes = append(c.classes, fmt.Sprintf("dns:%d", nd))
	c.leaseSecs = rapid.SampledFrom([]uint32{60, 3600, 86400, 0x01020304, 1, 0x00ff00ff}).Draw(rt, "leasesecs")
	c.serverMAC, _ = genMAC(rt, "smac")
	if rapid.IntRange(0, 4).Draw(rt, "hasServerIP") > 0 {
		c.serverIP, cls = genIP(rt, "sip")
		c.classes = append(c.classes, "server-"+cls)
	} else {
		c.classes = append(c.classes, "server-ip:unset")
	}
	c.ifindex = rapid.SampledFrom([]int{1, 2, 0x0102, 0x01020304}).Draw(rt, "ifindex")
	c.request = rapid.Bool().Draw(rt, "request")
	return c
}

type dhcpWireEnv struct {
	c    *bpfnative.Client
	maps map[string]*ebpfMap
}

var dhcpMapNames = []string{"subscriber_pools", "vlan_subscriber_pools", "circuit_id_subscribers", "ip_pools", "server_config", "stats_map", "circuit_id_map"}

func newDhcpWireEnv(t fataler) *dhcpWireEnv {
	e := &dhcpWireEnv{c: engine(t), maps: map[string]*ebpfMap{}}
	for _, n := range dhcpMapNames {
		e.maps[n] = kernelMap(t, e.c, n)
	}
	return e
}

func (e *dhcpWireEnv) close() {
	for _, m := range e.maps {
		m.Close()
	}
}

func ipOf(a ip4) net.IP { return net.IPv4(a[0], a[1], a[2], a[3]) }

// wireAddr raises the per-field finding when an address on the wire is not the configured one.
// Returns true when the check passed.
func wireAddr(t fataler, field, what string, want ip4, got []byte) bool {
	t.Helper()
	if bytes.Equal(got, want[:]) {
		return true
	}
	kind := "wire-mismatch"
	r := want.reversed()
	if bytes.Equal(got, r[:]) {
		kind = "byte-order"
	}
	vstat.Fail(t, sig(field, kind), "%s: configured %s, the program put %v on the wire", what, ipOf(want), net.IP(got))
	return false
}

func runDhcpWire(t fataler, e *dhcpWireEnv, c dhcpWireCase) {
	t.Helper()
	for _, m := range e.maps {
		clearMap(m)
	}
	loader, err := bngebpf.NewLoader("lo", zap.NewNop())
	if err != nil {
		t.Fatalf("INCONCLUSIVE: %v", err)
	}
	loader.VerifC06SetMaps(e.maps)

	// pool, as cmd/bng does: dhcp.NewPool + PoolManager.AddPool (which fills ebpf.IPPool with IPToUint32)
	cfg := dhcp.PoolConfig{ID: c.poolID, Name: "p", Network: fmt.Sprintf("%s/%d", ipOf(c.network), c.prefix), Gateway: ipOf(c.gateway).String(),
		LeaseTime: time.Duration(c.leaseSecs) * time.Second}
	for _, d := range c.dns {
		cfg.DNSServers = append(cfg.DNSServers, ipOf(d).String())
	}
	pool, err := dhcp.NewPool(cfg)
	if err != nil {
		t.Fatalf("INCONCLUSIVE: dhcp.NewPool(%+v): %v", cfg, err)
	}
	pm := dhcp.NewPoolManager(loader, nil)
	if err := pm.AddPool(pool); err != nil {
		t.Fatalf("INCONCLUSIVE: PoolManager.AddPool: %v", err)
	}
	if ents := dumpKernel(t, e.maps["ip_pools"]); len(ents) != 1 {
		if vstat.Fail(t, sig("ebpf.Loader.AddPool~ip_pools", "put-refused"), "PoolManager.AddPool stored %d entries in ip_pools", len(ents)) {
			return
		}
	}
	// server configuration, as dhcp.Server.Start does
	if err := loader.SetServerConfig(net.HardwareAddr(c.serverMAC[:]), ipOf(c.serverIP), c.ifindex); err != nil {
		if vstat.Fail(t, sig("ebpf.Loader.SetServerConfig~server_config", "put-refused"), "SetServerConfig: %v", err) {
			return
		}
	}
	// the subscriber, as dhcp.Server.updateFastPathCache / handleRequest do
	asg := &bngebpf.PoolAssignment{PoolID: c.poolID, AllocatedIP: bngebpf.IPToUint32(ipOf(c.lease)), VlanID: 0, ClientClass: 1,
		LeaseExpiry: uint64(time.Date(2030, 1, 1, 0, 0, 0, 0, time.UTC).Unix())}
	var tags []uint16
	o82 := opt82{}
	switch c.path {
	case "mac":
		err = loader.AddSubscriber(bngebpf.MACToUint64(net.HardwareAddr(c.mac[:])), asg)
	case "vlan1":
		err = loader.AddVLANSubscriber(c.sTag, 0, asg)
		tags = []uint16{c.pcp[0] | c.sTag}
	case "qinq":
		err = loader.AddVLANSubscriber(c.sTag, c.cTag, asg)
		tags = []uint16{c.pcp[0] | c.sTag, c.pcp[1] | c.cTag}
	case "circuit":
		err = loader.AddCircuitIDSubscriber(c.cid, asg)
		o82 = opt82{present: true, circuitID: c.cid, pos: c.cidPos}
	}
	if err != nil {
		if vstat.Fail(t, sig("ebpf.Loader/"+c.path, "put-refused"), "adding the subscriber (%s): %v", c.path, err) {
			return
		}
	}

	if err := e.c.ClearMaps(); err != nil {
		t.Fatalf("INCONCLUSIVE: %v", err)
	}
	for _, n := range dhcpMapNames {
		if _, err := e.c.CopyKernelMap(e.maps[n], n); err != nil {
			t.Fatalf("INCONCLUSIVE: copying %s into the runner: %v", n, err)
		}
	}
	_ = e.c.SetClock(0)
	mt := byte(1)
	if c.request {
		mt = 3
	}
	payload := bootpRequest(mt, 0xa1b2c3d4, c.mac, o82)
	if c.request {
		// a RENEWING client: ciaddr carries the address it holds (the fast path leaves every other REQUEST to
		// userspace, which would make "entry not found" and "not a renewal" indistinguishable here)
		copy(payload[12:16], c.lease[:])
	}
	frame := dhcpFrame(c.mac, tags, c.outerAD, payload)
	res, err := e.c.Run("dhcp_fastpath_prog", frame, bpfnative.DefaultOpts())
	if err != nil {
		t.Fatalf("INCONCLUSIVE: RUN: %v", err)
	}
	if res.Fault.Faulted() {
		t.Fatalf("INCONCLUSIVE: dhcp_fastpath_prog faulted (%s) — that is C07's business", res.Fault)
	}
	if res.Verdict != xdpTX {
		// which lookup failed?  (call-site coverage of the run)
		looked := map[string]bool{}
		for i, s := range e.c.Sites() {
			if res.SiteHit(i) {
				looked[s.Map] = true
			}
		}
		what, field := "", ""
		switch {
		case !looked["ip_pools"]:
			what = fmt.Sprintf("the entry written for the subscriber (%s) is not found under the key the program derives from its request", c.path)
			field = map[string]string{"mac": "ebpf.MACToUint64~subscriber_pools.key", "vlan1": "ebpf.VLANKey~vlan_key", "qinq": "ebpf.VLANKey~vlan_key", "circuit": "ebpf.CircuitIDKey~circuit_id_key"}[c.path]
		case !looked["server_config"]:
			what, field = fmt.Sprintf("pool %#x written by AddPool is not found under the subscriber's pool_id", c.poolID), "ebpf.PoolAssignment.PoolID~ip_pools.key"
		default:
			what, field = "server_config entry not usable", "ebpf.ServerConfig~server_config"
		}
		vstat.Fail(t, sig(field, "not-found-by-c"), "verdict %d: %s (frame %x)", res.Verdict, what, frame[:min(len(frame), 64)])
		return
	}
	r := parseDHCPReply(res.Out)
	if !r.ok || r.op != 2 {
		t.Fatalf("INCONCLUSIVE: XDP_TX output is not a BOOTREPLY (%d bytes)", len(res.Out))
	}
	// every check below is an independent observation of the one reply
	wireAddr(t, "ebpf.PoolAssignment.AllocatedIP", "yiaddr", c.lease, r.yiaddr[:])
	sip, sfield := c.serverIP, "ebpf.ServerConfig.ServerIP"
	if c.serverIP == (ip4{}) {
		sip, sfield = c.gateway, "ebpf.IPPool.Gateway"
	}
	wireAddr(t, sfield, "siaddr", sip, r.siaddr[:])
	wireAddr(t, sfield, "IP source address", sip, r.ipSrc[:])
	wireAddr(t, sfield, "option 54 (server identifier)", sip, r.serverID)
	wireAddr(t, "ebpf.IPPool.Gateway", "option 3 (router)", c.gateway, r.router)
	if len(c.dns) > 0 {
		if len(r.dns) != 4*len(c.dns) {
			vstat.Fail(t, sig("ebpf.IPPool.DNSPrimary", "wire-mismatch"), "option 6 has %d bytes for %d configured servers", len(r.dns), len(c.dns))
		} else {
			wireAddr(t, "ebpf.IPPool.DNSPrimary", "option 6 first server", c.dns[0], r.dns[:4])
			if len(c.dns) > 1 {
				wireAddr(t, "ebpf.IPPool.DNSSecondary", "option 6 second server", c.dns[1], r.dns[4:8])
			}
		}
	} else if r.dns != nil {
		vstat.Fail(t, sig("ebpf.IPPool.DNSPrimary", "wire-mismatch"), "option 6 = %v although no DNS server is configured", r.dns)
	}
	var mask ip4
	binary.BigEndian.PutUint32(mask[:], ^uint32(0)<<uint(32-c.prefix))
	if !bytes.Equal(r.mask, mask[:]) {
		vstat.Fail(t, sig("ebpf.IPPool.PrefixLen", "wire-mismatch"), "option 1 = %v for a /%d pool", r.mask, c.prefix)
	}
	if want := binary.BigEndian.AppendUint32(nil, c.leaseSecs); !bytes.Equal(r.lease, want) {
		kind := "wire-mismatch"
		if len(r.lease) == 4 && binary.LittleEndian.Uint32(r.lease) == c.leaseSecs {
			kind = "byte-order"
		}
		vstat.Fail(t, sig("ebpf.IPPool.LeaseTime", kind), "option 51 = %x for a lease of %d s", r.lease, c.leaseSecs)
	}
	if r.srcMAC != c.serverMAC {
		vstat.Fail(t, sig("ebpf.ServerConfig.ServerMAC", "wire-mismatch"), "reply source MAC %x, configured %x", r.srcMAC, c.serverMAC)
	}
	wantType := byte(2)
	if c.request {
		wantType = 5
	}
	if r.msgType != wantType || r.chaddr != c.mac {
		t.Fatalf("INCONCLUSIVE: reply type %d chaddr %x for request type %d from %x — that is C03's business", r.msgType, r.chaddr, mt, c.mac)
	}
}

func (c dhcpWireCase) nonTrivial() bool {
	return nonTrivialField([]uint64{binary.BigEndian.Uint64(append(append([]byte{}, c.lease[:]...), 0, 0, 0, 0))}, 8)
}

func (c dhcpWireCase) sample() any {
	return map[string]any{"mac": net.HardwareAddr(c.mac[:]).String(), "lease": ipOf(c.lease).String(), "path": c.path, "s_tag": c.sTag, "c_tag": c.cTag,
		"circuit_id": hexs(c.cid), "pool": fmt.Sprintf("%#x %s/%d gw %s dns %v lease %ds", c.poolID, ipOf(c.network), c.prefix, ipOf(c.gateway), c.dns, c.leaseSecs),
		"server": fmt.Sprintf("%x %s if %d", c.serverMAC, ipOf(c.serverIP), c.ifindex)}
}

// TestPropDhcpWire decides the IPv4 / VLAN / circuit-id / MAC encodings of pkg/ebpf against the XDP program.
func TestPropDhcpWire(t *testing.T) {
	e := newDhcpWireEnv(t)
	defer e.close()
	vstat.Checks(3000, 45000)
	rapid.Check(t, func(rt *rapid.T) {
		c := genDhcpWire(rt)
		runDhcpWire(rt, e, c)
		vstat.Case(c.nonTrivial(), vstat.Hash("dhcpwire", fmt.Sprintf("%+v", c)), c.sample, c.classes...)
	})
}
