package c06

import (
	"fmt"
	"go/ast"
	"go/parser"
	"go/token"
	"os"
	"path/filepath"
	"reflect"
	"sort"
	"strings"
	"testing"

	"pgregory.net/rapid"

	"bngverif/internal/vstat"
)

// ---- per-package layout round trips (each runs in its own process under ./check) ------------------

func TestPropLayoutEbpf(t *testing.T) {
	vstat.Checks(4000, 60000)
	rapid.Check(t, layoutProperty(t, "ebpf"))
}

func TestPropLayoutNat(t *testing.T) {
	vstat.Checks(5000, 75000)
	rapid.Check(t, layoutProperty(t, "nat"))
}

func TestPropLayoutQos(t *testing.T) {
	vstat.Checks(2000, 30000)
	rapid.Check(t, layoutProperty(t, "qos"))
}

func TestPropLayoutAntispoof(t *testing.T) {
	vstat.Checks(2500, 40000)
	rapid.Check(t, layoutProperty(t, "antispoof"))
}

// ---- scalar keys / values --------------------------------------------------------------------------

// TestPropScalars: every integer the Go side passes to Put/Lookup/Delete as a key or value has the
// width the C declaration gives that key/value, and is stored in native byte order.
func TestPropScalars(t *testing.T) {
	c := engine(t)
	vals := []uint64{0, 1, 0x0102030405060708, 0x8000000000000000, ^uint64(0), 0x00000000ffffffff, 0x1122334455667788}
	for _, su := range scalarTable {
		mi, ok := c.Map(su.Map)
		if !ok {
			t.Fatalf("INCONCLUSIVE: map %s not declared in bpf/", su.Map)
		}
		w := int(reflect.TypeOf(su.Proto).Size())
		declared := int(mi.KeySize)
		if su.Role == "value" {
			declared = int(mi.ValueSize)
		}
		for _, u := range vals {
			u &= mask(w)
			ok := true
			if w != declared {
				ok = false
				vstat.Fail(t, sig(su.Map, su.Role, "scalar-width"), "Go passes %s (%d bytes) as %s of map %s, the C declaration has %d bytes", su.Go, w, su.Role, su.Map, declared)
			} else {
				// real library, real map
				ks, vs := declared, 8
				if su.Role == "value" {
					ks, vs = 4, declared
				}
				m := hashMap(t, su.Map, ks, vs)
				gv := reflect.New(reflect.TypeOf(su.Proto))
				gv.Elem().SetUint(u)
				var raw []byte
				var err error
				if su.Role == "key" {
					err = m.Put(gv.Interface(), make([]byte, 8))
					if err == nil {
						raw, _ = m.NextKeyBytes(nil)
					}
				} else {
					err = m.Put([]byte{1, 2, 3, 4}, gv.Interface())
					if err == nil {
						raw, _ = m.LookupBytes([]byte{1, 2, 3, 4})
					}
				}
				m.Close()
				if err != nil {
					ok = false
					vstat.Fail(t, sig(su.Map, su.Role, "scalar-width"), "Put of %s as %s of %s refused: %v", su.Go, su.Role, su.Map, err)
				} else if got, _ := decodeLE(raw, 0, w, 1); got == nil || got[0] != u {
					ok = false
					vstat.Fail(t, sig(su.Map, su.Role, "scalar-bytes"), "%s %#x stored as %x in %s", su.Go, u, raw, su.Map)
				}
			}
			_ = ok
			vstat.Case(w > 1 && nonTrivialField([]uint64{u}, w), vstat.Hash("scalar", su.Map, su.Role, u), func() any {
				return map[string]any{"map": su.Map, "role": su.Role, "go": su.Go, "value": fmt.Sprintf("%#x", u)}
			}, "scalar:"+su.Role)
		}
	}
	vstat.Exhaustive(true)
}

// ---- trusted-base self check: -target bpf layouts == native layouts --------------------------------

// TestPropTargetLayouts compares, for every struct defined under bpf/, the layout clang computes for
// the BPF target (what the kernel program reads) with the layout of the native target (what the
// natively compiled programs of native/ and the kernel-map sizes of this harness use).
func TestPropTargetLayouts(t *testing.T) {
	srcs, err := sources()
	if err != nil {
		t.Fatalf("INCONCLUSIVE: %v", err)
	}
	compared := map[string]string{}
	for _, s := range srcs {
		ls, err := layouts(s.Stem)
		if err != nil {
			t.Fatalf("INCONCLUSIVE: %v", err)
		}
		if ls.BPF == nil {
			note("bpf-target-layout/"+s.Stem, "unavailable: "+firstLine(ls.BPFErr))
			continue
		}
		var tags []string
		for tag := range ls.Native {
			tags = append(tags, tag)
		}
		sort.Strings(tags)
		for _, tag := range tags {
			n, b := ls.Native[tag], ls.BPF[tag]
			same := b != nil && n.Size == b.Size && n.Align == b.Align && len(n.Fields) == len(b.Fields)
			if same {
				for i := range n.Fields {
					if n.Fields[i].Off != b.Fields[i].Off || n.Fields[i].Size != b.Fields[i].Size {
						same = false
					}
				}
			}
			if !same {
				t.Fatalf("INCONCLUSIVE: trusted base: struct %s (bpf/%s.c) is laid out differently for -target bpf (%+v) and natively (%+v); native execution cannot stand in for the kernel program", tag, s.Stem, b, n)
			}
			compared[tag] = fmt.Sprintf("sizeof=%d align=%d members=%d", n.Size, n.Align, len(n.Fields))
			vstat.Case(len(n.Fields) > 1, vstat.Hash("target", s.Stem, tag), func() any {
				return map[string]any{"struct": tag, "src": s.Stem, "sizeof": n.Size, "align": n.Align, "members": len(n.Fields)}
			}, "target-layout:identical")
		}
		// the engine's map geometry (sizeof evaluated in the natively compiled program) against clang's table
		for _, m := range s.Maps {
			mi, ok := engine(t).Map(m.Name)
			if !ok {
				t.Fatalf("INCONCLUSIVE: map %s of bpf/%s.c unknown to the native engine", m.Name, s.Stem)
			}
			for _, kv := range [][2]any{{m.Key, int(mi.KeySize)}, {m.Value, int(mi.ValueSize)}} {
				typ := kv[0].(string)
				if strings.HasPrefix(typ, "struct ") {
					if cs := ls.Native[strings.TrimPrefix(typ, "struct ")]; cs != nil && cs.Size != kv[1].(int) {
						t.Fatalf("INCONCLUSIVE: trusted base: engine says map %s has %d bytes of %s, clang says sizeof is %d", m.Name, kv[1], typ, cs.Size)
					}
				}
			}
		}
	}
	note("bpf-vs-native-layouts", compared)
	vstat.Exhaustive(true)
}

func firstLine(s string) string {
	if i := strings.IndexByte(s, '\n'); i >= 0 {
		return s[:i]
	}
	return s
}

// ---- completeness scan ------------------------------------------------------------------------------

// goMapUse is one Put/Lookup/Update/Delete/Next call on an *ebpf.Map found in the Go sources.
type goMapUse struct {
	Pkg, Func, Field, Op string
	KeyType, ValueType   string
}

// scanGoMapUses parses pkg/<pkg>/*.go (no tests, no verif hooks) and lists the static types of the
// arguments of every map operation, resolved from the declarations in the enclosing function.
func scanGoMapUses(pkg string) ([]goMapUse, map[string]string, error) {
	dir := filepath.Join(repoDir(), "pkg", pkg)
	fset := token.NewFileSet()
	files, err := filepath.Glob(filepath.Join(dir, "*.go"))
	if err != nil {
		return nil, nil, err
	}
	var uses []goMapUse
	fieldToMap := map[string]string{} // struct field -> C map name (from coll.Maps["name"])
	ops := map[string]bool{"Put": true, "Update": true, "Lookup": true, "Delete": true, "LookupAndDelete": true, "Next": true}
	for _, f := range files {
		base := filepath.Base(f)
		if strings.HasSuffix(base, "_test.go") || strings.HasPrefix(base, "verif_") {
			continue
		}
		af, err := parser.ParseFile(fset, f, nil, 0)
		if err != nil {
			return nil, nil, err
		}
		// which receiver fields are *ebpf.Map
		mapFields := map[string]bool{}
		ast.Inspect(af, func(n ast.Node) bool {
			st, ok := n.(*ast.StructType)
			if !ok {
				return true
			}
			for _, fl := range st.Fields.List {
				if se, ok := fl.Type.(*ast.StarExpr); ok {
					if sel, ok := se.X.(*ast.SelectorExpr); ok && sel.Sel.Name == "Map" {
						for _, nm := range fl.Names {
							mapFields[nm.Name] = true
						}
					}
				}
			}
			return true
		})
		for _, d := range af.Decls {
			fd, ok := d.(*ast.FuncDecl)
			if !ok || fd.Body == nil {
				continue
			}
			types := map[string]string{}
			if fd.Type.Params != nil {
				for _, p := range fd.Type.Params.List {
					for _, nm := range p.Names {
						types[nm.Name] = exprString(p.Type)
					}
				}
			}
			ast.Inspect(fd.Body, func(n ast.Node) bool {
				switch x := n.(type) {
				case *ast.DeclStmt:
					if gd, ok := x.Decl.(*ast.GenDecl); ok {
						for _, sp := range gd.Specs {
							if vs, ok := sp.(*ast.ValueSpec); ok {
								for i, nm := range vs.Names {
									if vs.Type != nil {
										types[nm.Name] = exprString(vs.Type)
									} else if i < len(vs.Values) {
										types[nm.Name] = literalType(vs.Values[i], types)
									}
								}
							}
						}
					}
				case *ast.AssignStmt:
					if x.Tok == token.DEFINE {
						for i, l := range x.Lhs {
							if id, ok := l.(*ast.Ident); ok && i < len(x.Rhs) && len(x.Lhs) == len(x.Rhs) {
								if ty := literalType(x.Rhs[i], types); ty != "" {
									types[id.Name] = ty
								}
							}
						}
					}
					// m.field = coll.Maps["name"]
					if len(x.Lhs) == 1 && len(x.Rhs) == 1 {
						if sel, ok := x.Lhs[0].(*ast.SelectorExpr); ok {
							if ix, ok := x.Rhs[0].(*ast.IndexExpr); ok {
								if s2, ok := ix.X.(*ast.SelectorExpr); ok && s2.Sel.Name == "Maps" {
									if bl, ok := ix.Index.(*ast.BasicLit); ok {
										fieldToMap[sel.Sel.Name] = strings.Trim(bl.Value, `"`)
									}
								}
							}
						}
					}
				case *ast.CallExpr:
					sel, ok := x.Fun.(*ast.SelectorExpr)
					if !ok || !ops[sel.Sel.Name] {
						return true
					}
					recv, ok := sel.X.(*ast.SelectorExpr)
					field := ""
					if ok && mapFields[recv.Sel.Name] {
						field = recv.Sel.Name
					} else if id, ok2 := sel.X.(*ast.Ident); ok2 && sel.Sel.Name == "Next" && strings.HasPrefix(types[id.Name], "iter:") {
						field = strings.TrimPrefix(types[id.Name], "iter:")
					} else {
						return true
					}
					u := goMapUse{Pkg: pkg, Func: fd.Name.Name, Field: field, Op: sel.Sel.Name}
					if len(x.Args) > 0 {
						u.KeyType = argType(x.Args[0], types)
					}
					if len(x.Args) > 1 {
						u.ValueType = argType(x.Args[1], types)
					}
					uses = append(uses, u)
				}
				return true
			})
		}
	}
	return uses, fieldToMap, nil
}

func exprString(e ast.Expr) string {
	switch x := e.(type) {
	case *ast.Ident:
		return x.Name
	case *ast.StarExpr:
		return "*" + exprString(x.X)
	case *ast.SelectorExpr:
		return exprString(x.X) + "." + x.Sel.Name
	case *ast.ArrayType:
		return "[]" + exprString(x.Elt)
	}
	return ""
}

func literalType(e ast.Expr, types map[string]string) string {
	switch x := e.(type) {
	case *ast.CompositeLit:
		return exprString(x.Type)
	case *ast.UnaryExpr:
		if x.Op == token.AND {
			if t := literalType(x.X, types); t != "" {
				return "*" + t
			}
		}
	case *ast.CallExpr:
		if id, ok := x.Fun.(*ast.Ident); ok {
			switch id.Name {
			case "uint8", "uint16", "uint32", "uint64":
				return id.Name
			case "ipToKey", "ipToUint32":
				return "uint32"
			case "macToUint64", "HashCircuitID":
				return "uint64"
			case "MakeCircuitIDKey":
				return "CircuitIDKey"
			}
		}
		if sel, ok := x.Fun.(*ast.SelectorExpr); ok {
			if sel.Sel.Name == "Iterate" {
				if r, ok := sel.X.(*ast.SelectorExpr); ok {
					return "iter:" + r.Sel.Name
				}
			}
			if sel.Sel.Name == "allowedDestKey" {
				return "uint64"
			}
		}
	case *ast.BinaryExpr:
		return literalType(x.X, types)
	case *ast.ParenExpr:
		return literalType(x.X, types)
	}
	return ""
}

func argType(e ast.Expr, types map[string]string) string {
	if u, ok := e.(*ast.UnaryExpr); ok && u.Op == token.AND {
		if id, ok := u.X.(*ast.Ident); ok {
			return strings.TrimPrefix(types[id.Name], "*")
		}
	}
	if id, ok := e.(*ast.Ident); ok {
		return strings.TrimPrefix(types[id.Name], "*")
	}
	return ""
}

// TestPropCompleteness lists every struct used as key or value of a map in bpf/*.c and every Go type
// passed to a map operation in pkg/{ebpf,nat,qos,antispoof,walledgarden}; everything that has a
// counterpart must be in the pair table (checked), what has none is reported in evidence.
func TestPropCompleteness(t *testing.T) {
	srcs, err := sources()
	if err != nil {
		t.Fatalf("INCONCLUSIVE: %v", err)
	}
	tabled := map[string]bool{}  // "map/role" -> in pair or scalar table
	tabledC := map[string]bool{} // C struct tag in the pair table
	tabledGo := map[string]bool{}
	for _, d := range pairTable {
		tabled[d.Map+"/"+d.Role] = true
		tabledC[d.C] = true
		tabledGo[d.Go] = true
	}
	for _, s := range scalarTable {
		tabled[s.Map+"/"+s.Role] = true
	}
	// function-local Go mirrors, exercised through their functions (see keys_*_test.go)
	viaFunction := map[string]string{
		"nat_sessions/key":      "nat.LookupSession's local natKey ~ struct nat_key (TestPropNatEncoding)",
		"allowed_ranges_v4/key": "antispoof.AddAllowedRange's local lpmKey ~ struct lpm_key_v4 (TestPropAntispoofEncoding)",
	}
	cUnpaired := map[string]string{}
	cMaps := map[string]string{}
	seenMap := map[string]bool{}
	for _, s := range srcs {
		for _, m := range s.Maps {
			if seenMap[m.Name] {
				continue
			}
			seenMap[m.Name] = true
			cMaps[m.Name] = fmt.Sprintf("%s key=%q value=%q (bpf/%s.c)", m.Type, m.Key, m.Value, s.Stem)
			for _, kv := range [][2]string{{"key", m.Key}, {"value", m.Value}} {
				if kv[1] == "" {
					continue
				}
				id := m.Name + "/" + kv[0]
				ok := tabled[id]
				if _, via := viaFunction[id]; via {
					ok = true
				}
				vstat.Case(true, vstat.Hash("c-map", id), func() any { return map[string]any{"map": m.Name, "role": kv[0], "type": kv[1], "paired": ok} }, "c-map-member")
				if !ok {
					cUnpaired[id] = kv[1] + ": no Go code reads or writes this " + kv[0]
				}
			}
		}
	}
	// sinks carry records
	for _, d := range pairTable {
		if d.Role == "record" {
			delete(cUnpaired, d.Map+"/value")
		}
	}
	note("c-maps", cMaps)
	note("c-map-members-without-go-counterpart", cUnpaired)
	note("go-mirrors-exercised-through-functions", viaFunction)

	goUnpaired := map[string]string{}
	goUses := map[string]string{}
	for _, pkg := range []string{"ebpf", "nat", "qos", "antispoof", "walledgarden"} {
		uses, f2m, err := scanGoMapUses(pkg)
		if err != nil {
			t.Fatalf("INCONCLUSIVE: scanning pkg/%s: %v", pkg, err)
		}
		for _, u := range uses {
			cmap := f2m[u.Field]
			id := fmt.Sprintf("%s.%s:%s.%s", pkg, u.Func, u.Field, u.Op)
			goUses[id] = fmt.Sprintf("map=%s key=%s value=%s", cmap, u.KeyType, u.ValueType)
			for _, ty := range []string{u.KeyType, u.ValueType} {
				if ty == "" || ty == "uint8" || ty == "uint16" || ty == "uint32" || ty == "uint64" {
					continue
				}
				q := pkg + "." + ty
				paired := tabledGo[q] || ty == "natKey" || ty == "lpmKey"
				vstat.Case(true, vstat.Hash("go-use", id, ty), func() any { return map[string]any{"use": id, "type": q, "paired": paired} }, "go-map-operand")
				if !paired {
					goUnpaired[q] = "used by " + id + "; no C declaration under bpf/ has this map"
				}
			}
			if (u.KeyType == "" && u.Op != "Next") || (u.ValueType == "" && (u.Op == "Put" || u.Op == "Lookup" || u.Op == "Update")) {
				goUnpaired["unresolved:"+id] = "operand type not resolved by the scan"
			}
		}
	}
	if _, err := os.Stat(filepath.Join(repoDir(), "bpf", "walledgarden.c")); err != nil {
		note("walledgarden", "pkg/walledgarden writes WalledGardenEntry / AllowedDestination into maps handed to SetEBPFMaps, but no program or map declaration for them exists under bpf/ (nothing to compare; not a violation). Its MAC key derivation is compared with the C mac_to_u64 in TestPropKeysMAC.")
	}
	note("go-map-operations", goUses)
	note("go-map-operands-without-c-counterpart", goUnpaired)
	// every struct named by a "mirrors" comment is in the table: a tabled Go type must exist (compile-time) and a
	// C struct used by a map with a Go counterpart in the same package must be tabled
	for _, s := range srcs {
		for _, m := range s.Maps {
			for _, kv := range []string{m.Key, m.Value} {
				if strings.HasPrefix(kv, "struct ") {
					tag := strings.TrimPrefix(kv, "struct ")
					if !tabledC[tag] {
						if _, ok := map[string]bool{"nat_key": true, "lpm_key_v4": true, "lpm_key": true, "nat_pool_entry": true}[tag]; !ok {
							vstat.Fail(t, sig("completeness", tag, "untabled-c-struct"), "struct %s is a key/value of map %s but is in no pair of the table and not on the reviewed no-counterpart list", tag, m.Name)
						}
					}
				}
			}
		}
	}
	vstat.Exhaustive(true)
}
