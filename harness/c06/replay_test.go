package c06

// Minimal fixed reproductions of the listed findings.  Each runs the same code as the generated
// properties on one hand-written case and reports through the same signatures: silent while the
// finding is listed (or repaired), failing again if a listed entry is dropped while the defect is
// still there, or if an applied repair is reverted.

import (
	"testing"

	"go.uber.org/zap"

	"bngverif/internal/vstat"

	"github.com/codelaboratoryltd/bng/pkg/antispoof"
	bngebpf "github.com/codelaboratoryltd/bng/pkg/ebpf"
)

func newLoaderWith(t fataler, maps map[string]*ebpfMap) *bngebpf.Loader {
	loader, err := bngebpf.NewLoader("lo", zap.NewNop())
	if err != nil {
		t.Fatalf("INCONCLUSIVE: %v", err)
	}
	loader.VerifC06SetMaps(maps)
	return loader
}

// fixedPairCase gives every Go leaf and every C member a value whose bytes are all distinct and non-zero.
func fixedPairCase(p *pairCtx) pairCase {
	pc := pairCase{goVals: map[string][]uint64{}, cVals: map[string][]uint64{}, nt: true, cFill: 0xa5}
	next := byte(1)
	fill := func(elem, count int) []uint64 {
		out := make([]uint64, count)
		for i := range out {
			for j := 0; j < elem; j++ {
				out[i] |= uint64(next) << (8 * uint(j))
				next++
				if next == 0 {
					next = 1
				}
			}
		}
		return out
	}
	for _, g := range p.gLeaves {
		if !g.Blank {
			pc.goVals[g.Path] = fill(g.Elem, g.Count)
		}
	}
	for _, c := range p.cs.Fields {
		pc.cVals[c.Path] = fill(c.Elem, c.Count)
	}
	pc.keyRaw = make([]byte, p.keySize)
	for i := range pc.keyRaw {
		pc.keyRaw[i] = byte(0x11 * (i + 1))
	}
	return pc
}

// TestReplayNatLayouts: nat.PortBlock (NextPort / PortsInUse are uint16, C has __u32: 28 vs 32 bytes), nat.SubscriberNAT (60 vs
// 64), nat.NATSession (no padding in front of LastSeen and at the end: 72 vs 80), nat.BPFLogEntry (no tail padding: 36 vs 40).
func TestReplayNatLayouts(t *testing.T) {
	for _, d := range pairTable {
		switch d.Go {
		case "nat.PortBlock", "nat.SubscriberNAT", "nat.NATSession", "nat.BPFLogEntry":
			p := ctxFor(t, d)
			p.run(t, fixedPairCase(p))
		}
	}
}

// TestReplayEveryPairOnce: one all-distinct value through every pair of the table (the pairs without a finding must stay silent).
func TestReplayEveryPairOnce(t *testing.T) {
	for _, d := range pairTable {
		p := ctxFor(t, d)
		p.run(t, fixedPairCase(p))
	}
}

// TestReplayDhcpAddressByteOrder: subscriber 10.20.30.1 in pool 10.20.30.0/24 gw 10.20.30.254 dns 9.8.7.6, 1.2.3.4, server
// 192.0.2.53: the OFFER carries every one of these addresses byte-reversed (Go stores BigEndian.Uint32 marshalled natively,
// bpf/dhcp_fastpath.c copies the __u32 into the packet).
func TestReplayDhcpAddressByteOrder(t *testing.T) {
	e := newDhcpWireEnv(t)
	defer e.close()
	base := dhcpWireCase{mac: mac6{2, 0x11, 0x22, 0x33, 0x44, 0x55}, lease: ip4{10, 20, 30, 1}, path: "mac", poolID: 7, prefix: 24, network: ip4{10, 20, 30, 0},
		gateway: ip4{10, 20, 30, 254}, dns: []ip4{{9, 8, 7, 6}, {1, 2, 3, 4}}, leaseSecs: 3600, serverMAC: mac6{2, 0, 0, 0, 0, 0xfe}, serverIP: ip4{192, 0, 2, 53}, ifindex: 2}
	runDhcpWire(t, e, base)
	noServerIP := base
	noServerIP.serverIP = ip4{}
	runDhcpWire(t, e, noServerIP)
	// the other key derivations with the same pool (silent: they agree)
	for _, path := range []string{"vlan1", "qinq", "circuit"} {
		c := base
		c.path, c.sTag, c.cTag, c.cid, c.cidPos = path, 0x123, 0x0456, []byte("olt-7/1/3:1029"), 12
		if path == "vlan1" {
			c.cTag = 0
		}
		runDhcpWire(t, e, c)
	}
}

// TestReplayQosKeyByteOrder: SetSubscriberQoS(10.20.30.1) stores both buckets under key bytes 01 1e 14 0a; the TC programs look
// them up with the packet's 0a 14 1e 01.  GetStats decodes the per-CPU array value into a single struct and is refused.
func TestReplayQosKeyByteOrder(t *testing.T) {
	e := newQosEnv(t)
	defer e.close()
	runQos(t, e, qosCase{ip: ip4{10, 20, 30, 1}, peer: ip4{198, 51, 100, 7}, down: 100_000_000, up: 20_000_000, burst: 0x00123456, prio: 5})
}

// TestReplayNatEncoding: AllocateNAT(10.20.30.1) with public 203.0.113.9, packet 10.20.30.1:4660 -> 93.184.216.34:443/TCP.
func TestReplayNatEncoding(t *testing.T) {
	e := newNatEnv(t)
	defer e.close()
	c := natCase{priv: ip4{10, 20, 30, 1}, pub: ip4{203, 0, 113, 9}, dst: ip4{93, 184, 216, 34}, proto: 6, sport: 0x1234, dport: 443,
		portsPerSub: 1024, rangeStart: 1024, eim: true, algPort: 0x0815}
	runNat(t, e, c)
	c.eim, c.proto, c.parity, c.sip = false, 17, true, true
	runNat(t, e, c)
}

// TestReplayAntispoofEncoding: strict binding and loose range of 10.20.30.1 (silent since 8be68c3), GetStats on the per-CPU array.
func TestReplayAntispoofEncoding(t *testing.T) {
	e := newAntispoofEnv(t)
	defer e.close()
	c := antispoofCase{mac: mac6{2, 0x11, 0x22, 0x33, 0x44, 0x55}, ip: ip4{10, 20, 30, 1}, withV6: true, mode: antispoof.ModeStrict}
	copy(c.v6[:], []byte{0x20, 0x01, 0x0d, 0xb8, 1, 2, 3, 4, 5, 6, 7, 8, 9, 10, 11, 12})
	runAntispoof(t, e, c)
	c.mode, c.prefix = antispoof.ModeLoose, 24
	runAntispoof(t, e, c)
}

// TestReplayCircuitIDOver32: a 40-byte circuit-id is declined by the control plane since bf9eea5 (it used to be stored under a
// truncated key the fast path never derives) and the program derives no key for it either, even with the subscriber whose
// circuit-id is exactly its first 32 bytes cached; a 32-byte one is stored under the key the fast path derives.
func TestReplayCircuitIDOver32(t *testing.T) {
	e := newCidEnv(t)
	defer e.close()
	long := make([]byte, 40)
	for i := range long {
		long[i] = byte('a' + i%26)
	}
	circuitWireProperty(t, e, wfWire(long, nil, 3))
	circuitWireProperty(t, e, wfWire(long, []byte{9, 9}, 12))
	circuitWireProperty(t, e, wfWire(long[:32], nil, 12))
	circuitWireProperty(t, e, wfWire(long[:5], []byte{1, 2, 3}, 17))
}

// replayCidFinding runs one fixed options area through the circuit-id property.  While wantSig is listed the case must end
// at exactly that signature (otherwise the listed finding is STALE); once it is no longer listed the same call fails the check
// if the defect is (still / again) there and is silent if it is repaired.
func replayCidFinding(t *testing.T, e *cidEnv, w o82Wire, wantSig string) {
	t.Helper()
	for len(w.opts) < 72 {
		w.opts = append(w.opts, 0)
	}
	_, _, got := circuitWireProperty(t, e, w)
	if vstat.IsListed(wantSig) && got != wantSig {
		t.Errorf("STALE known finding: options %x no longer produce %s (case ended at %q)", w.opts, wantSig, got)
	}
}

// TestReplayCircuitIDMalformedOption82 (KF-C06-32, KF-C06-33): the circuit-id sub-option runs past option 82 / option 82 runs
// past the packet.  The slow path derives no key for either request, extract_circuit_id_fixed derives one.
func TestReplayCircuitIDMalformedOption82(t *testing.T) {
	e := newCidEnv(t)
	defer e.close()
	// 53 01 01 | 82 04 01 0a 'a' 'b' | 12 08 "hostname" | 255: sub-option 1 declares 10 bytes, option 82 holds 2
	sub := append([]byte{53, 1, 1, 82, 4, 1, 10, 'a', 'b', 12, 8}, []byte("hostname")...)
	sub = append(sub, 255)
	replayCidFinding(t, e, o82Wire{shape: "sub-overrun", pos: 3, cid: []byte("ab"), declared: 10, opts: sub}, sig(cidSigBase, "suboption-overruns-option82"))
	// the same behind a client identifier (options offset 12)
	sub12 := append([]byte{53, 1, 1, 61, 7, 1, 2, 0, 0, 0, 0, 1, 82, 4, 1, 10, 'a', 'b', 12, 8}, []byte("hostname")...)
	sub12 = append(sub12, 255)
	replayCidFinding(t, e, o82Wire{shape: "sub-overrun", pos: 12, cid: []byte("ab"), declared: 10, opts: sub12}, sig(cidSigBase, "suboption-overruns-option82"))
	// 53 01 01 | 61 07 01 <mac> | 82 f0 01 04 "olt1" and the packet ends after 72 bytes of options: option 82 declares 240 bytes
	over := append([]byte{53, 1, 1, 61, 7, 1, 2, 0, 0, 0, 0, 1, 82, 0xf0, 1, 4}, []byte("olt1")...)
	replayCidFinding(t, e, o82Wire{shape: "opt-overrun", pos: 12, cid: []byte("olt1"), declared: 4, opts: over}, sig(cidSigBase, "unparseable-options"))
}

// TestReplayCircuitIDPatternInPayload (KF-C06-34): no option 82 at all; the host name "aaaaaaaR\x06\x01\x04olt1" puts the bytes
// 52 06 01 04 'o' 'l' 't' '1' at options offset 12.  The program looks the request up under the circuit-id key "olt1".
func TestReplayCircuitIDPatternInPayload(t *testing.T) {
	e := newCidEnv(t)
	defer e.close()
	host := append([]byte("aaaaaaaR"), 6, 1, 4, 'o', 'l', 't', '1')
	opts := append([]byte{53, 1, 1, 12, byte(len(host))}, host...)
	opts = append(opts, 255)
	replayCidFinding(t, e, o82Wire{shape: "pseudo", pos: 12, cid: []byte("olt1"), declared: 4, opts: opts}, sig(cidSigBase, "option82-pattern-in-option-payload"))
	// the relay's genuine option 82 ("port7") behind it, beyond the scanned offsets: two different keys for one request
	opts = append(opts[:len(opts)-1], 82, 7, 1, 5, 'p', 'o', 'r', 't', '7', 255)
	replayCidFinding(t, e, o82Wire{shape: "pseudo", pos: 12, cid: []byte("olt1"), declared: 4, decoy: []byte("port7"), opts: opts}, sig(cidSigBase, "option82-pattern-in-option-payload"))
}

// TestReplayShortHardwareAddress (KF-C06-35): subscriber 02:11:22:33:44:55 and a client whose header says htype 1, hlen 4,
// chaddr 02 11 22 33 44 55 ..: the real slow path leases the client its own address and caches it under MACToUint64 = 0; the
// program looks it up under the six chaddr bytes.  Also silent cases: a VLAN subscriber with its neighbours, hlen 8, htype 6.
func TestReplayShortHardwareAddress(t *testing.T) {
	e := newL2Env(t)
	defer e.close()
	m := mac6{2, 0x11, 0x22, 0x33, 0x44, 0x55}
	odd := &oddClient{htype: 1, hlen: 4}
	copy(odd.chaddr[:], m[:])
	want := sig(sigMAC, "hlen-under-6")
	c := l2Case{mode: "mac", macs: []mac6{m, {0x55, 0x44, 0x33, 0x22, 0x11, 2}}, tails: make([][10]byte, 2), odd: odd, absent: mac6{2, 0x11, 0x22, 0x33, 0x44, 0x56}}
	if got := runL2(t, e, c); vstat.IsListed(want) && got != want {
		t.Errorf("STALE known finding: the hlen 4 client no longer produces %s (case ended at %q)", want, got)
	}
	// KF-C06-36: the same defect seen from the all-zero address: a client with hlen 0 is cached under key 0, which is the key
	// the program derives for 00:00:00:00:00:00 - a client nobody leased anything to
	want = sig(sigMAC, "hlen-under-6", "answers-other-address")
	z := l2Case{mode: "mac", macs: []mac6{m}, tails: make([][10]byte, 1), odd: &oddClient{htype: 1, hlen: 0}, absent: mac6{}}
	if got := runL2(t, e, z); vstat.IsListed(want) && got != want {
		t.Errorf("STALE known finding: the hlen 0 client no longer produces %s (case ended at %q)", want, got)
	}
	for _, o := range []oddClient{{htype: 1, hlen: 8}, {htype: 6, hlen: 6}, {htype: 1, hlen: 200}} {
		o := o
		copy(o.chaddr[:], []byte{2, 0x11, 0x22, 0x33, 0x44, 0x77, 9, 9})
		c.odd = &o
		runL2(t, e, c)
	}
	v := l2Case{mode: "vlan", pairs: []vlanPair{{0x123, 0x456}, {0x456, 0x123}, {0x123, 0}, {0x123, 0x457}, {0x122, 0x456}},
		pcp: [][2]uint16{{0xf000, 0x1000}, {0, 0xe000}, {0x1000, 0}, {0x3000, 0x5000}, {0, 0}}, outerAD: []bool{true, false, true, false, false},
		ghosts: []l2Ghost{{"priority-tag-vid0", []tagged{{etQ, 0xe000}}}, {"untagged", nil}, {"outer-vid4095", []tagged{{etAD, 0xfff}, {etQ, 0x456}}},
			{"uninstalled-neighbour", []tagged{{etQ, 0x123}, {etQ, 0x476}}}}}
	runL2(t, e, v)
}
