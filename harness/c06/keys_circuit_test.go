package c06

// Circuit-id -> fixed 32-byte key, decided on the WHOLE input domain the XDP program can meet on the
// wire, with a three-valued agreement relation.
//
// The input of the derivation is the options area of a BOOTP request.  The control plane derives its
// key the way the DHCP slow path does: dhcpv4.FromBytes -> parseOption82 (RFC 3046 TLV walk) ->
// Loader.AddCircuitIDSubscriber (checkCircuitIDKeyLen + MakeCircuitIDKey) -> key bytes in the real
// kernel map.  The kernel program derives its key with extract_circuit_id_fixed (executed natively
// on the same bytes).  For every generated options area:
//
//	(a) Go derives key K             =>  C derives exactly K, whenever the request has one of the shapes
//	                                     the program documents (option 82 at options offset 3 or 12..19,
//	                                     circuit-id as first sub-option, option length >= 4); for any
//	                                     other shape C derives K or nothing (a cache miss is harmless)
//	(b) Go derives no key            =>  C derives NO key: the slow path installs nothing for this
//	    (no option 82, no circuit-id,    request, so whatever the fast path looked up would be an entry
//	    circuit-id refused as > 32       that was installed for a DIFFERENT request
//	    bytes, unparseable options)
//	(c) distinct keys on the Go side =>  never one key on the C side (follows from (a)+(b) per input; it
//	                                     is additionally decided end to end, see below)
//
// End to end (dhcp_fastpath_prog on the DISCOVER carrying the options): the circuit_id_subscribers map
// is filled through Loader.AddCircuitIDSubscriber with ADVERSARIAL co-resident subscribers built from
// the case — the subscriber whose circuit-id is exactly the first 32 bytes of a longer one, the
// subscriber whose circuit-id is what a fixed-position reader would see at each scanned offset
// (bytes running past option 82, bytes inside another option's payload), and neighbours of an
// accepted circuit-id (last byte changed, one byte shorter, one byte longer, first byte changed) —
// but NOT with the request's own key.  The request must be passed to the slow path.  Then the
// request's own entry is added and (for the documented shapes) the request must be answered with
// that entry's address, not a neighbour's.
//
// Not asserted (listed elsewhere): circuit-ids that differ only in trailing zero bytes share a key
// by design of zero padding (C20, KF-C20-6) — a neighbour is installed only if the control plane
// itself gives it a different key.

import (
	"bytes"
	"fmt"
	"net"
	"testing"
	"time"

	"github.com/insomniacslk/dhcp/dhcpv4"
	"pgregory.net/rapid"

	"github.com/codelaboratoryltd/bng/pkg/dhcp"
	bngebpf "github.com/codelaboratoryltd/bng/pkg/ebpf"

	"bngverif/internal/bpfnative"
	"bngverif/internal/vstat"
)

const cidSigBase = "ebpf.MakeCircuitIDKey~extract_circuit_id_fixed"

// cidScanned: the options offsets bpf/dhcp_fastpath.c documents for option 82.
var cidScanned = []int{3, 12, 13, 14, 15, 16, 17, 18, 19}

func isScanned(p int) bool {
	for _, s := range cidScanned {
		if s == p {
			return true
		}
	}
	return false
}

// o82Wire is one generated options area.
type o82Wire struct {
	shape    string // wf | remote-first | sub-overrun | opt-overrun | pseudo | none
	pos      int    // options offset of the (pseudo) option code 82; -1 for shape none
	cid      []byte // bytes of sub-option 1 present on the wire
	declared int    // declared length of sub-option 1
	remote   []byte
	decoy    []byte // circuit-id of a genuine option 82 behind a pseudo one
	opts     []byte // the assembled options area
}

func genCidBytes(rt *rapid.T, n int, label string) []byte {
	b := rapid.SliceOfN(rapid.Byte(), n, n).Draw(rt, label)
	if n == 0 {
		return b
	}
	switch rapid.IntRange(0, 7).Draw(rt, label+".style") {
	case 0: // trailing zero bytes: padding must not be confused with content
		z := rapid.IntRange(1, n).Draw(rt, label+".zeros")
		for i := n - z; i < n; i++ {
			b[i] = 0
		}
	case 1:
		for i := range b {
			b[i] = 0xff
		}
	case 2: // printable, like "eth 0/1/1:100.200" ('R' = 82 included)
		for i := range b {
			b[i] = 0x20 + b[i]%0x5f
		}
	case 3: // every byte distinct and non-zero
		for i := range b {
			b[i] = byte((int(b[0])+i*7)%255 + 1)
		}
	}
	return b
}

func genFiller(rt *rapid.T, n int) []byte {
	// n bytes of well-formed options in front of option 82: one option with an arbitrary payload and pad bytes
	if n <= 0 {
		return nil
	}
	if n == 1 {
		return []byte{0}
	}
	pads := rapid.IntRange(0, min(n-2, 3)).Draw(rt, "filler.pads")
	plen := n - 2 - pads
	out := []byte{rapid.SampledFrom([]byte{61, 12, 60, 55}).Draw(rt, "filler.code"), byte(plen)}
	out = append(out, rapid.SliceOfN(rapid.Byte(), plen, plen).Draw(rt, "filler.payload")...)
	for i := 0; i < pads; i++ {
		out = append(out, 0)
	}
	return out
}

func genO82Wire(rt *rapid.T) o82Wire {
	var w o82Wire
	w.shape = rapid.SampledFrom([]string{"wf", "wf", "wf", "wf", "wf", "wf", "wf", "wf", "remote-first", "remote-first",
		"sub-overrun", "sub-overrun", "opt-overrun", "opt-overrun", "pseudo", "pseudo", "none"}).Draw(rt, "shape")
	cidLen := func() int {
		switch rapid.IntRange(0, 15).Draw(rt, "lencls") {
		case 0:
			return 0
		case 1:
			return 1
		case 2, 3:
			return 32
		case 4, 5, 6, 7, 8:
			return rapid.IntRange(33, 64).Draw(rt, "len")
		case 9:
			return rapid.IntRange(65, 120).Draw(rt, "len")
		default:
			return rapid.IntRange(2, 31).Draw(rt, "len")
		}
	}
	genPos := func() int {
		switch rapid.IntRange(0, 7).Draw(rt, "poscls") {
		case 0, 1:
			return 3
		case 2:
			return rapid.SampledFrom([]int{4, 5, 6, 7, 8, 9, 10, 11, 20, 21, 22, 23, 24, 25, 26}).Draw(rt, "pos")
		default:
			return rapid.IntRange(12, 19).Draw(rt, "pos")
		}
	}
	opts := []byte{53, 1, 1}
	minLen := 72
	trailer := func(force bool) {
		if force || rapid.Bool().Draw(rt, "trailer") {
			n := rapid.IntRange(3, 40).Draw(rt, "trailer.len")
			opts = append(opts, rapid.SampledFrom([]byte{12, 55, 60}).Draw(rt, "trailer.code"), byte(n))
			opts = append(opts, rapid.SliceOfN(rapid.Byte(), n, n).Draw(rt, "trailer.payload")...)
		}
	}
	switch w.shape {
	case "wf", "remote-first":
		n := cidLen()
		if w.shape == "remote-first" && n == 0 {
			n = 3
		}
		w.cid, w.declared = genCidBytes(rt, n, "cid"), n
		w.pos = genPos()
		opts = append(opts, genFiller(rt, w.pos-3)...)
		if w.shape == "remote-first" || n < 2 || rapid.Bool().Draw(rt, "withRemote") {
			// RFC 3046 relay agents normally add a remote-id; with a circuit-id shorter than two bytes it is
			// what makes the option long enough (>= 4) for the program's fixed-position reader
			w.remote = rapid.SliceOfN(rapid.Byte(), 2, 8).Draw(rt, "remote")
		}
		sub := append([]byte{1, byte(n)}, w.cid...)
		if w.remote != nil {
			r := append([]byte{2, byte(len(w.remote))}, w.remote...)
			if w.shape == "remote-first" {
				sub = append(r, sub...)
			} else {
				sub = append(sub, r...)
			}
		}
		opts = append(opts, 82, byte(len(sub)))
		opts = append(opts, sub...)
		trailer(false)
		opts = append(opts, 255)
	case "sub-overrun":
		// sub-option 1 declares more bytes than option 82 holds; the bytes behind option 82 are further options
		k := rapid.IntRange(0, 20).Draw(rt, "present")
		w.cid = genCidBytes(rt, k, "cid")
		w.declared = k + rapid.IntRange(1, 24).Draw(rt, "excess")
		w.pos = genPos()
		opts = append(opts, genFiller(rt, w.pos-3)...)
		opts = append(opts, 82, byte(2+k), 1, byte(w.declared))
		opts = append(opts, w.cid...)
		trailer(true)
		opts = append(opts, 255)
		minLen = max(minLen, w.pos+4+w.declared+1)
	case "opt-overrun":
		// option 82 declares more bytes than the packet holds
		n := rapid.IntRange(1, 40).Draw(rt, "len")
		w.cid, w.declared = genCidBytes(rt, n, "cid"), n
		w.pos = genPos()
		opts = append(opts, genFiller(rt, w.pos-3)...)
		at := len(opts)
		opts = append(opts, 82, 0, 1, byte(n))
		opts = append(opts, w.cid...)
		trailer(false)
		for len(opts) < 72 {
			opts = append(opts, 0)
		}
		opts[at+1] = byte(min(255, len(opts)-(at+2)+1+rapid.IntRange(0, 30).Draw(rt, "excess")))
	case "pseudo":
		// the byte pattern of an option 82 inside the payload of another option, at a scanned offset
		n := rapid.SampledFrom([]int{1, 2, 4, 8, 16, 31, 32, 32, 33, 40}).Draw(rt, "len")
		w.cid, w.declared = genCidBytes(rt, n, "cid"), n
		w.pos = rapid.IntRange(12, 19).Draw(rt, "pos")
		l := n + 2
		if rapid.Bool().Draw(rt, "odd-len") {
			l = rapid.IntRange(4, 90).Draw(rt, "l")
		}
		payload := rapid.SliceOfN(rapid.Byte(), w.pos-5, w.pos-5).Draw(rt, "pre")
		payload = append(payload, 82, byte(l), 1, byte(n))
		payload = append(payload, w.cid...)
		payload = append(payload, rapid.SliceOfN(rapid.Byte(), 0, 6).Draw(rt, "post")...)
		opts = append(opts, rapid.SampledFrom([]byte{61, 12, 60, 77}).Draw(rt, "host.code"), byte(len(payload)))
		opts = append(opts, payload...)
		if rapid.Bool().Draw(rt, "decoy") {
			// a genuine option 82 with another circuit-id follows
			m := rapid.IntRange(2, 32).Draw(rt, "decoy.len")
			w.decoy = genCidBytes(rt, m, "decoy")
			opts = append(opts, 82, byte(m+2), 1, byte(m))
			opts = append(opts, w.decoy...)
		}
		opts = append(opts, 255)
	default: // none
		w.pos = -1
		opts = append(opts, genFiller(rt, rapid.IntRange(0, 20).Draw(rt, "filler"))...)
		trailer(false)
		opts = append(opts, 255)
	}
	for len(opts) < minLen {
		opts = append(opts, 0)
	}
	w.opts = opts
	return w
}

// wfWire builds the well-formed request of the replay tests: option 82 at `pos` behind a client identifier.
func wfWire(cid, remote []byte, pos int) o82Wire {
	w := o82Wire{shape: "wf", pos: pos, cid: cid, declared: len(cid), remote: remote}
	b := bootpRequest(1, 0, mac6{2, 0, 0, 0, 0, 1}, opt82{present: true, circuitID: cid, remoteID: remote, pos: pos})
	w.opts = b[240:]
	return w
}

func bootpRaw(xid uint32, chaddr mac6, opts []byte) []byte {
	b := bootpRequest(1, xid, chaddr, opt82{})[:240]
	return append(append([]byte{}, b...), opts...)
}

// tlv is one option found by a plain RFC 2132 walk of the options area.
type tlv struct{ off, code, length int }

// walkOpts walks the options area; ok = false when an option runs past the end or there is no End option.
func walkOpts(o []byte) (out []tlv, ok bool) {
	for i := 0; i < len(o); {
		switch o[i] {
		case 0:
			i++
			continue
		case 255:
			return out, true
		}
		if i+1 >= len(o) || i+2+int(o[i+1]) > len(o) {
			return out, false
		}
		out = append(out, tlv{i, int(o[i]), int(o[i+1])})
		i += 2 + int(o[i+1])
	}
	return out, false
}

// cidFacts: what the harness reads off the options area itself (not off the generator's intent).
type cidFacts struct {
	walkOK     bool
	genuine    []tlv // option-82 TLVs
	documented bool  // exactly one option 82, at a scanned offset, length >= 4, sub-option 1 first, non-empty and inside the option
	subOverrun bool  // an option 82 at a scanned offset whose first sub-option (code 1) runs past the option
	pseudo     bool  // the byte 82 at a scanned offset that is not an option code
	windows    [][]byte
	pseudoWin  [][]byte // the windows among them that start at such a pseudo option 82
}

// keyFromPseudo: is cKey the zero-padded key of the bytes a fixed-position reader takes at a pseudo option 82?
// KF-C06-34 records exactly that derivation; a disagreement on a request that merely CONTAINS the pattern, with the
// program's key coming from somewhere else, has another cause and keeps the unlisted fallback signature.
func (f cidFacts) keyFromPseudo(cKey []byte) bool {
	for _, w := range f.pseudoWin {
		var k [bngebpf.CircuitIDKeyLen]byte
		copy(k[:], w)
		if bytes.Equal(k[:], cKey) {
			return true
		}
	}
	return false
}

func readFacts(o []byte) cidFacts {
	var f cidFacts
	all, ok := walkOpts(o)
	f.walkOK = ok
	isOpt := map[int]bool{}
	for _, t := range all {
		if t.code == 82 {
			f.genuine = append(f.genuine, t)
			isOpt[t.off] = true
		}
	}
	for _, p := range cidScanned {
		if p+4 > len(o) || o[p] != 82 {
			continue
		}
		if !isOpt[p] {
			f.pseudo = true
		}
		// what a fixed-position reader would take for the circuit-id here
		if d := int(o[p+3]); o[p+2] == 1 && d >= 1 && p+4+d <= len(o) {
			f.windows = append(f.windows, append([]byte{}, o[p+4:p+4+min(d, bngebpf.CircuitIDKeyLen)]...))
			if !isOpt[p] {
				f.pseudoWin = append(f.pseudoWin, f.windows[len(f.windows)-1])
			}
		}
		if isOpt[p] && o[p+2] == 1 && int(o[p+3])+2 > int(o[p+1]) {
			f.subOverrun = true
		}
	}
	if ok && len(f.genuine) == 1 {
		t := f.genuine[0]
		if isScanned(t.off) && t.length >= 4 && o[t.off+2] == 1 {
			d := int(o[t.off+3])
			f.documented = d >= 1 && d+2 <= t.length
		}
	}
	return f
}

// classify names a disagreement after what the input is, so that different causes keep different signatures.
func (f cidFacts) classify(goParsed bool, goCid, cKey []byte, fallback string) string {
	switch {
	case len(goCid) > bngebpf.CircuitIDKeyLen && bytes.Equal(cKey, goCid[:bngebpf.CircuitIDKeyLen]):
		return "truncates-over-32-bytes"
	case f.walkOK && f.subOverrun:
		return "suboption-overruns-option82"
	case !goParsed || !f.walkOK:
		return "unparseable-options"
	case f.pseudo && f.keyFromPseudo(cKey):
		return "option82-pattern-in-option-payload"
	}
	return fallback
}

type cidEnv struct {
	c       *bpfnative.Client
	maps    map[string]*ebpfMap
	loader  *bngebpf.Loader
	dynamic []string // maps that change with every case
	synced  bool
	runs    int
}

var cidEnvPoolID = uint32(7)

func newCidEnv(t fataler) *cidEnv {
	e := &cidEnv{c: engine(t), maps: map[string]*ebpfMap{}, dynamic: []string{"circuit_id_subscribers"}}
	for _, n := range dhcpMapNames {
		e.maps[n] = kernelMap(t, e.c, n)
	}
	e.loader = newLoaderWith(t, e.maps)
	pool, err := dhcp.NewPool(dhcp.PoolConfig{ID: cidEnvPoolID, Name: "p", Network: "10.99.0.0/22", Gateway: "10.99.0.1", LeaseTime: time.Hour})
	if err != nil {
		t.Fatalf("INCONCLUSIVE: dhcp.NewPool: %v", err)
	}
	if err := dhcp.NewPoolManager(e.loader, nil).AddPool(pool); err != nil {
		t.Fatalf("INCONCLUSIVE: PoolManager.AddPool: %v", err)
	}
	if err := e.loader.SetServerConfig(net.HardwareAddr{2, 0, 0, 0, 0, 0xfe}, net.IPv4(10, 99, 0, 1), 2); err != nil {
		t.Fatalf("INCONCLUSIVE: SetServerConfig: %v", err)
	}
	return e
}

func (e *cidEnv) close() {
	for _, m := range e.maps {
		m.Close()
	}
}

func cidAssignment(ip ip4) *bngebpf.PoolAssignment {
	return &bngebpf.PoolAssignment{PoolID: cidEnvPoolID, AllocatedIP: bngebpf.IPToUint32(ipOf(ip)), ClientClass: 1,
		LeaseExpiry: uint64(time.Date(2030, 1, 1, 0, 0, 0, 0, time.UTC).Unix())}
}

// syncStatic (re)loads the maps that do not change between cases into the runner.
func (e *cidEnv) syncStatic(t fataler) {
	t.Helper()
	if err := e.c.ClearMaps(); err != nil {
		t.Fatalf("INCONCLUSIVE: %v", err)
	}
	for _, n := range []string{"ip_pools", "server_config"} {
		if _, err := e.c.CopyKernelMap(e.maps[n], n); err != nil {
			t.Fatalf("INCONCLUSIVE: copying %s into the runner: %v", n, err)
		}
	}
	_ = e.c.SetClock(0)
	e.runs = 0
}

// push copies the control plane's subscriber maps (as they are now) into the natively compiled program.
func (e *cidEnv) push(t fataler) {
	t.Helper()
	if e.runs++; e.runs > 400 || !e.synced {
		// a full reload every few hundred cases keeps the client's replay log (runner restart) short
		e.syncStatic(t)
		e.synced = true
	}
	for _, n := range e.dynamic {
		if _, err := e.c.CopyKernelMap(e.maps[n], n); err != nil {
			t.Fatalf("INCONCLUSIVE: copying %s into the runner: %v", n, err)
		}
	}
}

// runDiscover runs the program on the DISCOVER against the maps of the last push.  Returns whether the
// program answered, and the address it offered.
func (e *cidEnv) runDiscover(t fataler, frame []byte) (answered bool, yiaddr ip4, verdict int32) {
	t.Helper()
	res, err := e.c.Run("dhcp_fastpath_prog", frame, bpfnative.DefaultOpts())
	if err != nil {
		t.Fatalf("INCONCLUSIVE: RUN: %v", err)
	}
	if res.Fault.Faulted() {
		t.Fatalf("INCONCLUSIVE: dhcp_fastpath_prog faulted (%s) — that is C07's business", res.Fault)
	}
	if res.Verdict == xdpPass {
		return false, ip4{}, res.Verdict
	}
	r := parseDHCPReply(res.Out)
	if res.Verdict != xdpTX || !r.ok || r.op != 2 {
		t.Fatalf("INCONCLUSIVE: verdict %d with a %d-byte frame that is no BOOTREPLY — that is C03/C07's business", res.Verdict, len(res.Out))
	}
	return true, r.yiaddr, res.Verdict
}

// runDiscoverMustAnswer is runDiscover for a request that has to be answered: a miss is confirmed once
// after a full reload of the runner's maps (a restarted runner must not read as a disagreement).
func (e *cidEnv) runDiscoverMustAnswer(t fataler, frame []byte) (answered bool, yiaddr ip4, verdict int32) {
	t.Helper()
	answered, yiaddr, verdict = e.runDiscover(t, frame)
	if !answered {
		e.synced = false
		e.push(t)
		answered, yiaddr, verdict = e.runDiscover(t, frame)
	}
	return
}

type cidAdversary struct {
	kind string
	cid  []byte
	ip   ip4
}

// circuitWireProperty decides one options area.  Returns the class labels and whether the case is non-trivial;
// done = false when the case ended at a listed finding.
func circuitWireProperty(t fataler, e *cidEnv, w o82Wire) (classes []string, nt bool, knownSig string) {
	t.Helper()
	// fail reports through vstat.Fail; true = the signature is a listed finding (remembered in knownSig), abandon the case
	fail := func(sg, format string, args ...any) bool {
		t.Helper()
		if vstat.Fail(t, sg, format, args...) {
			knownSig = sg
			return true
		}
		return false
	}
	cidSubs := e.maps["circuit_id_subscribers"]
	chaddr := mac6{2, 0xc1, 0xd0, 0, 0, 1}
	bootp := bootpRaw(0x11223344, chaddr, w.opts)
	facts := readFacts(w.opts)
	classes = append(classes, "shape:"+w.shape)
	switch {
	case w.pos < 0:
	case w.pos == 3:
		classes = append(classes, "pos:3")
	case isScanned(w.pos):
		classes = append(classes, "pos:12-19")
	default:
		classes = append(classes, "pos:unscanned")
	}
	if w.shape != "none" {
		switch n := w.declared; {
		case n == 0:
			classes = append(classes, "cidlen:0")
		case n == 1:
			classes = append(classes, "cidlen:1")
		case n < 32:
			classes = append(classes, "cidlen:2-31")
		case n == 32:
			classes = append(classes, "cidlen:32")
		case n <= 64:
			classes = append(classes, "cidlen:33-64")
		default:
			classes = append(classes, "cidlen:65+")
		}
	}

	// ---- C side
	r := callOK(t, e.c, "dhcp_fastpath.extract_circuit_id_fixed", [4]uint64{}, bootp)
	cFound, cKey := r.Ret != 0, r.Out
	if cFound {
		classes = append(classes, "c:key")
	} else {
		classes = append(classes, "c:none")
	}

	// ---- Go side: the slow path's view of the same bytes
	clearMap(cidSubs)
	var goCid, goKey []byte
	goState := ""
	msg, perr := dhcpv4.FromBytes(bootp)
	switch {
	case perr != nil:
		goState = "unparseable"
	case msg.Options.Get(dhcpv4.OptionRelayAgentInformation) == nil:
		goState = "no-option82"
	default:
		if info := dhcp.VerifC09ParseOption82(msg); info != nil {
			goCid = info.CircuitID
		}
		if len(goCid) == 0 {
			goState = "no-circuit-id" // server.go stores nothing for an empty circuit-id (len > 0 guards)
		}
	}
	selfIP := ip4{10, 99, 1, 1}
	if goState == "" {
		if err := e.loader.AddCircuitIDSubscriber(goCid, cidAssignment(selfIP)); err != nil {
			if len(goCid) <= bngebpf.CircuitIDKeyLen {
				fail(sig("ebpf.Loader.AddCircuitIDSubscriber~circuit_id_subscribers", "put-refused"), "AddCircuitIDSubscriber(%x): %v", goCid, err)
				return append(classes, "known"), false, knownSig
			}
			goState = "refused-over-32"
			if n := len(dumpKernel(t, cidSubs)); n != 0 {
				fail(sig("ebpf.Loader.AddCircuitIDSubscriber~circuit_id_subscribers", "refused-but-stored"), "AddCircuitIDSubscriber(%d bytes) failed (%v) and left %d entries", len(goCid), err, n)
				return append(classes, "known"), false, knownSig
			}
		} else {
			ents := dumpKernel(t, cidSubs)
			if len(ents) != 1 {
				t.Fatalf("INCONCLUSIVE: %d entries after one AddCircuitIDSubscriber", len(ents))
			}
			goKey, goState = ents[0].Key, "key"
			if mk := bngebpf.MakeCircuitIDKey(goCid); !bytes.Equal(mk[:], goKey) {
				if fail(sig("ebpf.CircuitIDKey~circuit_id_key", "key-bytes"), "MakeCircuitIDKey = %x but the map holds key %x", mk[:], goKey) {
					return append(classes, "known"), false, knownSig
				}
			}
		}
	}
	classes = append(classes, "go:"+goState)
	nt = len(goCid) >= 2 || (w.shape != "none" && len(w.cid) >= 2)
	desc := func() string {
		return fmt.Sprintf("options %x (shape %s, option 82 at +%d); control plane: %s circuit-id %x key %x; program: found=%v key %x",
			w.opts[:min(len(w.opts), 96)], w.shape, w.pos, goState, goCid, goKey, cFound, cKey)
	}

	// ---- the relation on the derived keys
	switch {
	case goState == "key" && cFound && !bytes.Equal(cKey, goKey):
		if fail(sig(cidSigBase, facts.classify(true, goCid, cKey, "key-mismatch")), "different keys for one request: %s", desc()) {
			return append(classes, "known"), nt, knownSig
		}
	case goState == "key" && !cFound && facts.documented:
		if fail(sig(cidSigBase, "c-derives-no-key"), "the program derives no key for a request of a shape it documents: %s", desc()) {
			return append(classes, "known"), nt, knownSig
		}
	case goState != "key" && cFound:
		if fail(sig(cidSigBase, facts.classify(perr == nil, goCid, cKey, "key-where-go-has-none/"+goState)),
			"the control plane installs no key for this request (%s) but the program derives one and looks it up: %s", goState, desc()) {
			return append(classes, "known"), nt, knownSig
		}
	}

	// ---- end to end with adversarial co-resident subscribers
	var cand []cidAdversary
	if len(goCid) > bngebpf.CircuitIDKeyLen {
		cand = append(cand, cidAdversary{kind: "first-32-bytes", cid: goCid[:bngebpf.CircuitIDKeyLen]})
	}
	for _, win := range facts.windows {
		cand = append(cand, cidAdversary{kind: "fixed-position-window", cid: win})
	}
	if goState == "key" {
		n := len(goCid)
		flipLast := append([]byte{}, goCid...)
		flipLast[n-1] ^= 0x01
		flipFirst := append([]byte{}, goCid...)
		flipFirst[0] ^= 0x80
		cand = append(cand, cidAdversary{kind: "last-byte-changed", cid: flipLast}, cidAdversary{kind: "first-byte-changed", cid: flipFirst})
		if n >= 2 {
			cand = append(cand, cidAdversary{kind: "one-byte-shorter", cid: goCid[:n-1]})
		}
		if n < bngebpf.CircuitIDKeyLen {
			cand = append(cand, cidAdversary{kind: "one-byte-longer", cid: append(append([]byte{}, goCid...), 0x2f)})
		}
	} else if len(w.cid) > 0 && len(w.cid) <= bngebpf.CircuitIDKeyLen {
		cand = append(cand, cidAdversary{kind: "bytes-on-the-wire", cid: w.cid})
	}
	clearMap(cidSubs)
	var adv []cidAdversary
	seen := map[string]bool{}
	if goState == "key" {
		seen[string(goKey)] = true // the request's own key (and everything zero padding identifies with it) is not an adversary
	}
	for _, a := range cand {
		k := bngebpf.MakeCircuitIDKey(a.cid)
		if len(a.cid) == 0 || len(a.cid) > bngebpf.CircuitIDKeyLen || seen[string(k[:])] {
			continue
		}
		seen[string(k[:])] = true
		a.ip = ip4{10, 99, 2, byte(10 + len(adv))}
		if err := e.loader.AddCircuitIDSubscriber(a.cid, cidAssignment(a.ip)); err != nil {
			t.Fatalf("INCONCLUSIVE: AddCircuitIDSubscriber(%x): %v", a.cid, err)
		}
		adv = append(adv, a)
		classes = append(classes, "adv:"+a.kind)
	}
	who := func(y ip4) string {
		for _, a := range adv {
			if a.ip == y {
				return fmt.Sprintf("the subscriber with circuit-id %x (%s)", a.cid, a.kind)
			}
		}
		return "an unknown entry"
	}
	frame := dhcpFrame(chaddr, nil, false, bootp)
	if len(adv) > 0 {
		e.push(t)
		if hit, y, _ := e.runDiscover(t, frame); hit {
			kind := "answers-from-foreign-entry"
			for _, a := range adv {
				if a.ip == y {
					kind += "/" + a.kind
				}
			}
			if fail(sig(cidSigBase, kind), "only other subscribers are cached, yet the DISCOVER is answered with %s, the address of %s: %s", ipOf(y), who(y), desc()) {
				return append(classes, "known"), nt, knownSig
			}
		}
	}
	if goState == "key" && facts.documented {
		if err := e.loader.AddCircuitIDSubscriber(goCid, cidAssignment(selfIP)); err != nil {
			t.Fatalf("INCONCLUSIVE: AddCircuitIDSubscriber(%x): %v", goCid, err)
		}
		e.push(t)
		hit, y, verdict := e.runDiscoverMustAnswer(t, frame)
		switch {
		case !hit:
			if fail(sig("ebpf.CircuitIDKey~circuit_id_key", "not-found-by-c"), "verdict %d: the entry written for the subscriber is not found under the key the program derives: %s", verdict, desc()) {
				return append(classes, "known"), nt, knownSig
			}
		case y != selfIP:
			if fail(sig(cidSigBase, "answers-from-neighbour-entry"), "the subscriber's own entry offers %s, the DISCOVER is answered with %s, the address of %s: %s", ipOf(selfIP), ipOf(y), who(y), desc()) {
				return append(classes, "known"), nt, knownSig
			}
		}
		classes = append(classes, "e2e:own-entry-answers")
	}
	return classes, nt, ""
}

// TestPropKeysCircuitID: see the file comment.
func TestPropKeysCircuitID(t *testing.T) {
	e := newCidEnv(t)
	defer e.close()
	// HashCircuitID: is there anything on the C side to compare with?
	uses := 0
	for _, s := range e.c.Sites() {
		if s.Map == "circuit_id_map" {
			uses++
		}
	}
	if uses == 0 {
		note("HashCircuitID", "bpf/ declares circuit_id_map but no program looks it up and no FNV-1a implementation exists in C: nothing to compare ebpf.HashCircuitID with")
	} else {
		t.Fatalf("VIOLATION sig=%s: bpf/ now looks up circuit_id_map at %d call sites; this check has no comparison for the C hash yet", sig("ebpf.HashCircuitID", "unchecked-c-implementation"), uses)
	}

	vstat.Checks(3000, 45000)
	rapid.Check(t, func(rt *rapid.T) {
		w := genO82Wire(rt)
		classes, nt, _ := circuitWireProperty(rt, e, w)
		vstat.Case(nt, vstat.Hash("cidwire", w.opts), func() any {
			return map[string]any{"shape": w.shape, "pos": w.pos, "options": hexs(w.opts[:min(len(w.opts), 80)]), "classes": classes}
		}, classes...)
	})
}
