package c06

// pkg/antispoof  <->  bpf/antispoof.c, decided on packets: AddBinding / AddBindingV6 / AddAllowedRange /
// SetMode write real kernel maps with the C-declared geometry; the maps are copied byte for byte into
// the natively compiled TC program, which is run on a frame from the bound MAC.  What the Go side
// meant (this MAC may send from this address / this range is allowed / this is the mode) must be what
// the C side reads: the subscriber's own source is forwarded and its byte-reversed twin is not.
// AddAllowedRange's function-local lpmKey is thereby compared with struct lpm_key_v4.

import (
	"encoding/binary"
	"fmt"
	"net"
	"testing"

	"go.uber.org/zap"
	"pgregory.net/rapid"

	"github.com/codelaboratoryltd/bng/pkg/antispoof"

	"bngverif/internal/bpfnative"
	"bngverif/internal/vstat"
)

var antispoofMapNames = []string{"subscriber_bindings", "antispoof_config", "antispoof_stats", "allowed_ranges_v4"}

type antispoofEnv struct {
	c    *bpfnative.Client
	maps map[string]*ebpfMap
	st   *cStruct
}

func newAntispoofEnv(t fataler) *antispoofEnv {
	e := &antispoofEnv{c: engine(t), maps: map[string]*ebpfMap{}}
	for _, n := range antispoofMapNames {
		e.maps[n] = kernelMap(t, e.c, n)
	}
	e.st = mustLayout(t, "antispoof", "antispoof_stats")
	return e
}

func (e *antispoofEnv) close() {
	for _, m := range e.maps {
		m.Close()
	}
}

type antispoofCase struct {
	mac     mac6
	ip      ip4
	v6      [16]byte
	withV6  bool
	mode    antispoof.Mode // strict or loose
	prefix  int            // allowed range = ip/prefix (loose)
	classes []string
}

func genAntispoof(rt *rapid.T) antispoofCase {
	var c antispoofCase
	var cls string
	c.mac, cls = genMAC(rt, "mac")
	c.classes = append(c.classes, cls)
	c.ip, cls = genIP(rt, "ip")
	c.classes = append(c.classes, cls)
	c.withV6 = rapid.Bool().Draw(rt, "v6")
	if c.withV6 {
		s := rapid.IntRange(0, 254).Draw(rt, "v6.s")
		for i := range c.v6 {
			c.v6[i] = byte((s+i*9)%255 + 1)
		}
		c.v6[0] = 0x20
	}
	if rapid.Bool().Draw(rt, "loose") {
		c.mode = antispoof.ModeLoose
		c.prefix = rapid.SampledFrom([]int{8, 9, 12, 16, 17, 20, 24, 25, 31, 32}).Draw(rt, "prefix")
		c.classes = append(c.classes, "mode:loose")
	} else {
		c.mode = antispoof.ModeStrict
		c.classes = append(c.classes, "mode:strict")
	}
	return c
}

func ip6Frame(dst, src mac6, saddr [16]byte) []byte {
	f := ethHeader(dst, src, nil, false, 0x86dd)
	h := make([]byte, 40)
	h[0] = 0x60
	binary.BigEndian.PutUint16(h[4:], 8)
	h[6], h[7] = 17, 64
	copy(h[8:], saddr[:])
	h[24], h[39] = 0x20, 1
	f = append(f, h...)
	return append(f, udpHeader(1000, 2000, 0)...)
}

func (e *antispoofEnv) run(t fataler, frame []byte) int32 {
	res, err := e.c.Run("antispoof_ingress", frame, bpfnative.DefaultOpts())
	if err != nil {
		t.Fatalf("INCONCLUSIVE: RUN antispoof_ingress: %v", err)
	}
	if res.Fault.Faulted() {
		t.Fatalf("INCONCLUSIVE: antispoof_ingress faulted (%s) — that is C07's business", res.Fault)
	}
	return res.Verdict
}

func runAntispoof(t fataler, e *antispoofEnv, c antispoofCase) {
	for _, m := range e.maps {
		clearMap(m)
	}
	mgr, err := antispoof.NewManager(antispoof.ManagerConfig{Interface: "lo", DefaultMode: c.mode}, zap.NewNop())
	if err != nil {
		t.Fatalf("INCONCLUSIVE: %v", err)
	}
	mgr.VerifC06SetMaps(e.maps)
	hw := net.HardwareAddr(c.mac[:])
	if err := mgr.SetMode(c.mode); err != nil {
		if vstat.Fail(t, sig("antispoof.Manager.SetMode~antispoof_config", "put-refused"), "SetMode: %v", err) {
			return
		}
	}
	if err := mgr.AddBinding(hw, ipOf(c.ip)); err != nil {
		if vstat.Fail(t, sig("antispoof.Manager.AddBinding~subscriber_bindings", "put-refused"), "AddBinding: %v", err) {
			return
		}
	}
	if c.withV6 {
		if err := mgr.AddBindingV6(hw, net.IP(c.v6[:])); err != nil {
			if vstat.Fail(t, sig("antispoof.Manager.AddBindingV6~subscriber_bindings", "put-refused"), "AddBindingV6: %v", err) {
				return
			}
		}
	}
	var rangeNet *net.IPNet
	if c.mode == antispoof.ModeLoose {
		mask := net.CIDRMask(c.prefix, 32)
		rangeNet = &net.IPNet{IP: ipOf(c.ip).Mask(mask), Mask: mask}
		if err := mgr.AddAllowedRange(rangeNet); err != nil {
			if vstat.Fail(t, sig("antispoof.Manager.AddAllowedRange~allowed_ranges_v4", "put-refused"), "AddAllowedRange(%s): %v", rangeNet, err) {
				return
			}
		}
	}
	if err := e.c.ClearMaps(); err != nil {
		t.Fatalf("INCONCLUSIVE: %v", err)
	}
	for _, n := range antispoofMapNames {
		if _, err := e.c.CopyKernelMap(e.maps[n], n); err != nil {
			t.Fatalf("INCONCLUSIVE: copying %s into the runner: %v", n, err)
		}
	}
	gw := mac6{2, 0, 0, 0, 0, 0xfe}
	own := e.run(t, ipFrame(gw, c.mac, c.ip, ip4{198, 51, 100, 7}, 17, 1000, 2000))
	if own != tcOK {
		// which part is to blame: does the byte-reversed source pass instead?
		kind := "own-address-dropped"
		if c.ip != c.ip.reversed() && e.run(t, ipFrame(gw, c.mac, c.ip.reversed(), ip4{198, 51, 100, 7}, 17, 1000, 2000)) == tcOK {
			kind = "byte-order"
		}
		field := "antispoof.SubscriberBinding.IPv4Addr"
		if c.mode == antispoof.ModeLoose {
			field = "antispoof.AddAllowedRange.lpmKey~lpm_key_v4"
		}
		if vstat.Fail(t, sig(field, kind), "mode %d, MAC %s bound to %s (range %v): a frame from that MAC and address is dropped (bindings %v, ranges %v)",
			c.mode, hw, ipOf(c.ip), rangeNet, dumpHex(dumpKernel(t, e.maps["subscriber_bindings"])), dumpHex(dumpKernel(t, e.maps["allowed_ranges_v4"]))) {
			return
		}
	}
	// the mode reached the program: a foreign source is dropped (strict: anything but the bound address; loose: outside the range)
	foreign := ip4{c.ip[0] ^ 0x80, c.ip[1], c.ip[2], c.ip[3] ^ 1}
	if v := e.run(t, ipFrame(gw, c.mac, foreign, ip4{198, 51, 100, 7}, 17, 1000, 2000)); v != tcShot {
		if vstat.Fail(t, sig("antispoof.SubscriberBinding.Mode", "foreign-source-forwarded"), "mode %d, MAC %s bound to %s (range %v): a frame from %s is forwarded (verdict %d)",
			c.mode, hw, ipOf(c.ip), rangeNet, ipOf(foreign), v) {
			return
		}
	}
	if c.withV6 {
		if v := e.run(t, ip6Frame(gw, c.mac, c.v6)); v != tcOK {
			if vstat.Fail(t, sig("antispoof.SubscriberBinding.IPv6Addr", "own-address-dropped"), "MAC %s bound to %s: an IPv6 frame from that address is dropped", hw, net.IP(c.v6[:])) {
				return
			}
		}
		other := c.v6
		other[15] ^= 1
		if v := e.run(t, ip6Frame(gw, c.mac, other)); v != tcShot && c.mode == antispoof.ModeStrict {
			if vstat.Fail(t, sig("antispoof.SubscriberBinding.IPv6Addr", "foreign-source-forwarded"), "MAC %s bound to %s: an IPv6 frame from %s is forwarded", hw, net.IP(c.v6[:]), net.IP(other[:])) {
				return
			}
		}
	}
	// read back: what the program counted is what GetStats reports
	st := make([]byte, e.st.Size)
	want := map[string]uint64{}
	for i, f := range e.st.Fields {
		want[f.Path] = 0x0102030405060708 + uint64(i)*0x1010101010101010
		encodeLE(st, f.Off, f.Elem, []uint64{want[f.Path]})
	}
	var k uint32
	if err := e.maps["antispoof_stats"].Put(&k, [][]byte{st}); err != nil {
		t.Fatalf("INCONCLUSIVE: raw per-CPU Put into antispoof_stats: %v", err)
	}
	got, err := mgr.GetStats()
	if err != nil {
		vstat.Fail(t, sig("antispoof.Manager.GetStats~antispoof_stats", "percpu-lookup-refused"), "GetStats on the per-CPU array the C source declares: %v", err)
	} else if got.PacketsAllowed != want["packets_allowed"] || got.PacketsDropped != want["packets_dropped"] || got.PacketsLogged != want["packets_logged"] ||
		got.IPv4Violations != want["ipv4_violations"] || got.IPv6Violations != want["ipv6_violations"] || got.UnknownMAC != want["unknown_mac"] {
		vstat.Fail(t, sig("antispoof.Manager.GetStats~antispoof_stats", "value-mismatch"), "program counted %v, GetStats returns %+v", want, *got)
	}
	// removal addresses the same entry
	if err := mgr.RemoveBinding(hw); err != nil {
		t.Fatalf("INCONCLUSIVE: RemoveBinding: %v", err)
	}
	if n := len(dumpKernel(t, e.maps["subscriber_bindings"])); n != 0 {
		vstat.Fail(t, sig("antispoof.Manager.RemoveBinding", "entry-left"), "%d entries left after RemoveBinding(%s)", n, hw)
	}
}

func dumpHex(ents []rawEntry) []string {
	var out []string
	for _, e := range ents {
		out = append(out, hexs(e.Key)+"="+hexs(e.Value))
	}
	return out
}

func (c antispoofCase) nonTrivial() bool {
	return nonTrivialField([]uint64{uint64(binary.BigEndian.Uint32(c.ip[:]))}, 4) && c.ip != c.ip.reversed()
}

// TestPropAntispoofEncoding decides the MAC key, IPv4 / IPv6 value and LPM key encodings of pkg/antispoof against the TC program.
func TestPropAntispoofEncoding(t *testing.T) {
	e := newAntispoofEnv(t)
	defer e.close()
	vstat.Checks(2000, 30000)
	rapid.Check(t, func(rt *rapid.T) {
		c := genAntispoof(rt)
		runAntispoof(rt, e, c)
		vstat.Case(c.nonTrivial(), vstat.Hash("antispoof", fmt.Sprintf("%+v", c)), func() any {
			return map[string]any{"mac": net.HardwareAddr(c.mac[:]).String(), "ip": ipOf(c.ip).String(), "mode": int(c.mode), "prefix": c.prefix, "v6": c.withV6}
		}, append(c.classes, fmt.Sprintf("v6:%v", c.withV6))...)
	})
}
