package c05

// Minimal reproductions of the listed known findings of C05, asserted through the same signatures as the
// generated search: silent while listed (or fixed), failing if a finding reappears unlisted.

import (
	"testing"
	"testing/synctest"

	"bngverif/internal/pools"
)

func op(k pools.Kind, s, v int, p uint64) pools.Op { return pools.Op{K: k, S: s, V: v, P: p} }

var (
	alloc   = func(s int) pools.Op { return op(pools.OpAlloc, s, 0, 1) }
	release = func(s int) pools.Op { return op(pools.OpRelease, s, 0, 1) } // V%4==0: exactly subscriber s
	advance = op(pools.OpAdvance, 0, 0, 1)
)

// KF-C05-1: IPAllocator.SetAllocation of an identical record counts the allocation twice.
func TestReplaySetAllocationRepeat(t *testing.T) {
	f := pools.BitmapFactory("10.0.0.0/24", 32, "replay")
	runHistory(t, f, []pools.Op{alloc(0), op(pools.OpSetAlloc, 0, 0, 0)}, runOpt{checkStats: true})
}

// KF-C05-2: a pool with >= 2^64 units (a /64 handing out /128 addresses) reports exhausted at once.
func TestReplayHugePool(t *testing.T) {
	f := pools.BitmapFactory("2001:db8::/64", 128, "replay")
	runHistory(t, f, []pools.Op{alloc(0)}, runOpt{checkStats: true})
}

// KF-C05-3/4: 2-bit generations wrap: two epoch advances turn every never-used (and every long-lapsed) slot
// "active" again - counted by Stats, refused to new subscribers.
func TestReplayEpochGhostSlots(t *testing.T) {
	f := pools.EpochFactory("10.0.0.0/29", 1, "replay")
	runHistory(t, f, []pools.Op{advance, advance}, runOpt{checkStats: true})
	runHistory(t, f, []pools.Op{advance, advance, alloc(0)}, runOpt{checkStats: false})
	// a lapsed lease: allocated at epoch 2, lapsed at 4, "active" again at 6 with no subscriber
	runHistory(t, f, []pools.Op{alloc(0), advance, advance, advance, advance}, runOpt{checkStats: true})
}

// KF-C05-5: GracePeriod >= 2 cannot be represented: a fresh allocator has every slot busy (grace 2: until the
// next advance and Release never frees; grace >= 3: forever).
func TestReplayEpochGrace(t *testing.T) {
	for _, g := range []uint64{2, 3} {
		if !pools.EpochConfigOK("10.0.0.0/29", g) {
			continue
		}
		runHistory(t, pools.EpochFactory("10.0.0.0/29", g, "replay"), []pools.Op{alloc(0)}, runOpt{checkStats: true})
	}
}

// KF-C05-6: Stats of a /32 pool reports total 2^64-1 (uint underflow), of a /31 pool utilisation NaN.
func TestReplayEpochTinyPoolStats(t *testing.T) {
	runHistory(t, pools.EpochFactory("10.0.0.7/32", 1, "replay"), nil, runOpt{checkStats: true})
	runHistory(t, pools.EpochFactory("10.0.0.6/31", 1, "replay"), nil, runOpt{checkStats: true})
}

// KF-C05-7: the same ghost slots through DistributedAllocator lease mode (real epoch loop, virtual time).
func TestReplayDistLeaseGhostSlots(t *testing.T) {
	msg := inBubble(t, func(ft fataler) {
		f := pools.DistFactory("10.0.0.0/29", 32, true, 1, false, "replay", synctest.Wait)
		runHistory(ft, f, []pools.Op{advance, advance}, runOpt{checkStats: true})
	})
	if msg != "" {
		t.Fatalf("%s", msg)
	}
}

// KF-C05-8: pppoe.IPPool.Allocate for a session that holds an address orphans the first address.
func TestReplayPPPoEReaskLeak(t *testing.T) {
	f := pools.PPPoEFactory("10.0.0.0/29", "10.0.0.1", "replay")
	runHistory(t, f, []pools.Op{alloc(0), alloc(0)}, runOpt{checkStats: true})
}

// KF-C05-9/10/11: re-ask + store failure: the rollback releases the allocation that pre-existed the call.
func TestReplayReaskRollback(t *testing.T) {
	ops := []pools.Op{alloc(0), alloc(0)}
	runHistory(t, pools.DistFactory("10.0.0.0/24", 32, false, 0, false, "replay", nil), ops, runOpt{checkStats: true, failAt: 2})
	runHistory(t, pools.PoolAllocFactory("10.0.0.0/24", 32, "replay", true), ops, runOpt{checkStats: true, failAt: 2})
	msg := inBubble(t, func(ft fataler) {
		f := pools.DistFactory("10.0.0.0/29", 32, true, 1, false, "replay", synctest.Wait)
		runHistory(ft, f, ops, runOpt{checkStats: true, failAt: 2})
	})
	if msg != "" {
		t.Fatalf("%s", msg)
	}
}

// KF-C05-12: PoolAllocator.Release frees the bitmap before the store: when RemoveAllocation fails the address is
// free in memory but owned in the store, so every later allocation of it fails with a conflict (leak).
func TestReplayPoolAllocFailedRemove(t *testing.T) {
	f := pools.PoolAllocFactory("10.0.0.0/24", 32, "replay", true)
	runHistory(t, f, []pools.Op{alloc(0), release(0), alloc(1)}, runOpt{checkStats: true, failAt: 2})
}

// KF-C05-13: DistributedAllocator.Release frees locally before the store: a failed Delete leaves a stale record;
// the address is re-allocated, and on restart the stale record can win the conflict: a live subscriber loses its address.
func TestReplayDistSessionStaleRecord(t *testing.T) {
	// the store's enumeration order at restart decides which of the two records for the address wins
	for k := uint64(1); k <= 8; k++ {
		f := pools.DistFactory("10.0.0.0/24", 32, false, 0, false, "replay", nil)
		runHistory(t, f, []pools.Op{alloc(0), release(0), alloc(2), alloc(1), op(pools.OpReload, 0, 0, k*0x9e3779b97f4a7c15)}, runOpt{checkStats: true, failAt: 2})
	}
}
