package c05

// Minimal reproductions of the listed known findings of C05, asserted through the same signatures as the
// generated search: silent while listed (or fixed), failing if a finding reappears unlisted.

import (
	"testing"
	"testing/synctest"

	"bngverif/internal/pools"
)

func op(k pools.Kind, s, v int, p uint64) pools.Op { return pools.Op{K: k, S: s, V: v, P: p} }

var (
	alloc   = func(s int) pools.Op { return op(pools.OpAlloc, s, 0, 1) }
	release = func(s int) pools.Op { return op(pools.OpRelease, s, 0, 1) } // V%4==0: exactly subscriber s
	advance = op(pools.OpAdvance, 0, 0, 1)
)

// KF-C05-1: IPAllocator.SetAllocation of an identical record counts the allocation twice.
func TestReplaySetAllocationRepeat(t *testing.T) {
	f := pools.BitmapFactory("10.0.0.0/24", 32, "replay")
	runHistory(t, f, []pools.Op{alloc(0), op(pools.OpSetAlloc, 0, 0, 0)}, runOpt{checkStats: true})
}

// KF-C05-2: a pool with >= 2^64 units (a /64 handing out /128 addresses) reports exhausted at once.
func TestReplayHugePool(t *testing.T) {
	f := pools.BitmapFactory("2001:db8::/64", 128, "replay")
	runHistory(t, f, []pools.Op{alloc(0)}, runOpt{checkStats: true})
}

// KF-C05-3/4: 2-bit generations wrap: two epoch advances turn every never-used (and every long-lapsed) slot
// "active" again - counted by Stats, refused to new subscribers.
func TestReplayEpochGhostSlots(t *testing.T) {
	f := pools.EpochFactory("10.0.0.0/29", 1, "replay")
	runHistory(t, f, []pools.Op{advance, advance}, runOpt{checkStats: true})
	runHistory(t, f, []pools.Op{advance, advance, alloc(0)}, runOpt{checkStats: false})
	// a lapsed lease: allocated at epoch 2, lapsed at 4, "active" again at 6 with no subscriber
	runHistory(t, f, []pools.Op{alloc(0), advance, advance, advance, advance}, runOpt{checkStats: true})
}

// KF-C05-5: GracePeriod >= 2 cannot be represented: a fresh allocator has every slot busy (grace 2: until the
// next advance and Release never frees; grace >= 3: forever).
func TestReplayEpochGrace(t *testing.T) {
	for _, g := range []uint64{2, 3} {
		if !pools.EpochConfigOK("10.0.0.0/29", g) {
			continue
		}
		runHistory(t, pools.EpochFactory("10.0.0.0/29", g, "replay"), []pools.Op{alloc(0)}, runOpt{checkStats: true})
	}
}

// KF-C05-6: Stats of a /32 pool reports total 2^64-1 (uint underflow), of a /31 pool utilisation NaN.
func TestReplayEpochTinyPoolStats(t *testing.T) {
	runHistory(t, pools.EpochFactory("10.0.0.7/32", 1, "replay"), nil, runOpt{checkStats: true})
	runHistory(t, pools.EpochFactory("10.0.0.6/31", 1, "replay"), nil, runOpt{checkStats: true})
}

// KF-C05-7: the same ghost slots through DistributedAllocator lease mode (real epoch loop, virtual time).
func TestReplayDistLeaseGhostSlots(t *testing.T) {
	msg := inBubble(t, func(ft fataler) {
		f := pools.DistFactory("10.0.0.0/29", 32, true, 1, false, "replay", synctest.Wait)
		runHistory(ft, f, []pools.Op{advance, advance}, runOpt{checkStats: true})
	})
	if msg != "" {
		t.Fatalf("%s", msg)
	}
}

// KF-C05-8: pppoe.IPPool.Allocate for a session that holds an address orphans the first address.
func TestReplayPPPoEReaskLeak(t *testing.T) {
	f := pools.PPPoEFactory("10.0.0.0/29", "10.0.0.1", "replay")
	runHistory(t, f, []pools.Op{alloc(0), alloc(0)}, runOpt{checkStats: true})
}

// KF-C05-9/10/11: re-ask + store failure: the rollback releases the allocation that pre-existed the call.
func TestReplayReaskRollback(t *testing.T) {
	ops := []pools.Op{alloc(0), alloc(0)}
	runHistory(t, pools.DistFactory("10.0.0.0/24", 32, false, 0, false, "replay", nil), ops, runOpt{checkStats: true, failAt: 2})
	runHistory(t, pools.PoolAllocFactory("10.0.0.0/24", 32, "replay", true), ops, runOpt{checkStats: true, failAt: 2})
	msg := inBubble(t, func(ft fataler) {
		f := pools.DistFactory("10.0.0.0/29", 32, true, 1, false, "replay", synctest.Wait)
		runHistory(ft, f, ops, runOpt{checkStats: true, failAt: 2})
	})
	if msg != "" {
		t.Fatalf("%s", msg)
	}
}

// KF-C05-12: PoolAllocator.Release frees the bitmap before the store: when RemoveAllocation fails the address is
// free in memory but owned in the store, so every later allocation of it fails with a conflict (leak).
func TestReplayPoolAllocFailedRemove(t *testing.T) {
	f := pools.PoolAllocFactory("10.0.0.0/24", 32, "replay", true)
	runHistory(t, f, []pools.Op{alloc(0), release(0), alloc(1)}, runOpt{checkStats: true, failAt: 2})
}

// KF-C05-13: DistributedAllocator.Release frees locally before the store: a failed Delete leaves a stale record;
// the address is re-allocated, and on restart the stale record can win the conflict: a live subscriber loses its address.
func TestReplayDistSessionStaleRecord(t *testing.T) {
	// the store's enumeration order at restart decides which of the two records for the address wins
	for k := uint64(1); k <= 8; k++ {
		f := pools.DistFactory("10.0.0.0/24", 32, false, 0, false, "replay", nil)
		runHistory(t, f, []pools.Op{alloc(0), release(0), alloc(2), alloc(1), op(pools.OpReload, 0, 0, k*0x9e3779b97f4a7c15)}, runOpt{checkStats: true, failAt: 2})
	}
}

// Secondary mutators, one minimal history each (regressions of the leak/miscount shapes the generated search is
// meant to find: they fail with the same signatures if such a defect appears).
func TestReplayDHCP4ServerSecondary(t *testing.T) {
	cfg := pools.DHCP4Cfg{V4Net: pools.V4Net{CIDR: "10.66.0.0/29", Gateway: "10.66.0.1", Class: "replay"}}
	d := func(k pools.D4Kind, s, tt, c, v int) pools.D4Op { return pools.D4Op{K: k, S: s, T: tt, C: c, V: v} }
	lease0 := []pools.D4Op{d(pools.D4Discover, 0, 0, 0, 0), d(pools.D4Request, 0, 0, 0, 0)} // s0: DISCOVER, REQUEST of its offer
	for _, ops := range [][]pools.D4Op{
		// replacement CPE s1 DISCOVERs (own offer), then takes over s0's circuit: s1's offer must go back to the pool
		append(append([]pools.D4Op{}, lease0...), d(pools.D4Reassign, 0, 0, 0, 0)),
		// replacement CPE that holds nothing
		append(append([]pools.D4Op{}, lease0...), d(pools.D4Reassign, 0, 0, 0, 1)),
		// DECLINE of the lease, then of an offer; the declined addresses stay out of service
		append(append([]pools.D4Op{}, lease0...), d(pools.D4Decline, 0, 0, 0, 0), d(pools.D4Discover, 1, 0, 0, 0), d(pools.D4Decline, 0, 0, 1, 0)),
		// an offer given up, twice
		{d(pools.D4Discover, 2, 0, 0, 0), d(pools.D4GiveUpOffer, 2, 0, 0, 0), d(pools.D4GiveUpOffer, 2, 0, 0, 0)},
		// REQUEST for a free address by a client that holds a different offer (refused: nothing may change), then for
		// somebody else's address, then for the network address
		{d(pools.D4Discover, 0, 0, 0, 0), d(pools.D4Request, 0, 0, 9, 4), d(pools.D4Discover, 1, 0, 0, 0), d(pools.D4Request, 0, 1, 5, 1), d(pools.D4Request, 0, 0, 7, 0)},
		// lease released, address claimed back by index by another client (INIT-REBOOT)
		append(append([]pools.D4Op{}, lease0...), d(pools.D4Release, 0, 0, 0, 0), d(pools.D4Request, 1, 0, 9, 1)),
	} {
		_, res, _ := d4History(t, cfg, ops)
		t.Log(res.ops)
	}
}

// DHCPv6 Decline (address quarantined), the peer pool's HTTP API, and the second allocation entry points.
func TestReplayOtherSecondary(t *testing.T) {
	decline := func(s int) pools.Op { return op(pools.OpDecline, s, 0, 1) }
	allocAlt := func(s int) pools.Op { return op(pools.OpAllocAlt, s, 0, 1) }
	releaseAlt := func(s int) pools.Op { return op(pools.OpReleaseAlt, s, 0, 1) }
	runHistory(t, pools.V6AddrFactory("2001:db8::/125", "replay"), []pools.Op{alloc(0), alloc(1), decline(0), alloc(0), decline(2), release(1)}, runOpt{checkStats: true})
	runHistory(t, pools.PeerFactory("10.0.0.0/29", "10.0.0.1", "replay"), []pools.Op{allocAlt(0), alloc(0), alloc(1), releaseAlt(1), releaseAlt(1), release(0), allocAlt(2)}, runOpt{checkStats: true})
	runHistory(t, pools.DistFactory("10.0.0.0/30", 32, false, 0, true, "replay", nil), []pools.Op{allocAlt(0), alloc(0), release(0), allocAlt(1)}, runOpt{checkStats: true})
	runHistory(t, pools.PoolAllocFactory("2001:db8::/62", 64, "replay", false), []pools.Op{allocAlt(0), alloc(0), allocAlt(1), release(0), allocAlt(0)}, runOpt{checkStats: true})
	runHistory(t, pools.LocalFactory("10.0.0.0/30", 32, "replay"), []pools.Op{allocAlt(0), alloc(0), release(0), allocAlt(1)}, runOpt{checkStats: true})
	// the rollback of each second entry point after a failed save
	for _, f := range []pools.Factory{pools.DistFactory("10.0.0.0/24", 32, false, 0, false, "replay", nil), pools.PoolAllocFactory("10.0.0.0/24", 32, "replay", true)} {
		runHistory(t, f, []pools.Op{allocAlt(0), alloc(1)}, runOpt{checkStats: true, failAt: 1})
		runHistory(t, f, []pools.Op{alloc(0), allocAlt(0)}, runOpt{checkStats: true, failAt: 2})
	}
}

// pmSubOwnedBy returns the index of a subscriber id (sub-0..7) whose rendezvous owner among {node-a,node-b} is owner.
func pmSubOwnedBy(t *testing.T, owner string) int {
	r := runPeerMulti(t, pools.V4Net{CIDR: "10.0.0.0/28", Gateway: "10.0.0.1", Class: "replay"}, 1, nil, false)
	for i, id := range r.ids {
		if r.local.p.VerifRanked(id)[0] == owner {
			return i
		}
	}
	t.Fatalf("no subscriber id owned by %s", owner)
	return 0
}

// KF-C05-14: allocated on the (healthy) remote owner, the owner is then marked unhealthy, Release is routed to the local
// node, which holds nothing ("already released", nil): the remote keeps the address for ever.
func TestReplayPeerMultiRemoteLeak(t *testing.T) {
	i := pmSubOwnedBy(t, "node-b")
	runPeerMulti(t, pools.V4Net{CIDR: "10.0.0.0/28", Gateway: "10.0.0.1", Class: "replay"}, 1,
		[]pmOp{{K: pmAlloc, S: i}, {K: pmMark, S: 0, On: false}, {K: pmRelease, S: i, C: 0}}, false)
}

// KF-C05-15: allocated locally as a fallback while the remote owner is marked unhealthy, the owner is marked healthy
// again, Release is forwarded to it; it holds nothing and answers 204: the local node keeps the address for ever.
func TestReplayPeerMultiLocalLeak(t *testing.T) {
	i := pmSubOwnedBy(t, "node-b")
	runPeerMulti(t, pools.V4Net{CIDR: "10.0.0.0/28", Gateway: "10.0.0.1", Class: "replay"}, 1,
		[]pmOp{{K: pmMark, S: 0, On: false}, {K: pmAlloc, S: i}, {K: pmMark, S: 0, On: true}, {K: pmRelease, S: i, C: 0}}, false)
}

// KF-C05-16: lease mode, a re-ask whose store write fails (here: caller context already cancelled) still refreshes
// the lease in memory while the stored record keeps its old epoch; two such re-asks in consecutive epochs and the
// store clean-up deletes the record of a lease that is live in memory: Renew then fails with "key not found".
func TestReplayLeaseRefreshedInMemoryOnly(t *testing.T) {
	msg := inBubble(t, func(ft fataler) {
		f := pools.DistFactory("10.0.0.0/30", 32, true, 0, false, "replay", synctest.Wait)
		ops := []pools.Op{{K: 0, S: 5}, {K: 3}, {K: 0, S: 5, P: 0x60}, {K: 3}, {K: 0, S: 5, P: 0x60}, {K: 3}, {K: 2, S: 0, V: 1}}
		runHistory(ft, f, ops, runOpt{checkStats: true, ctx: true, honourCtx: true})
	})
	if msg != "" {
		t.Fatalf("%s", msg)
	}
}
