package c05

// pool.PeerPool with REMOTE peers (the single-node machine only ever takes the local path).
//
// One case = one node under test ("node-a") plus 1..2 remote members of the hash ring. The remotes are real
// pool.PeerPool instances that only serve their peer API (POST /pool/allocate, DELETE /pool/release/{id}, GET
// /pool/status through RegisterHandlers); node-a reaches them through an in-process http.RoundTripper installed
// with VerifSetTransport (no sockets), which can also make a remote unreachable. Which members node-a BELIEVES to be
// healthy is set through VerifSetPeerHealth (what three failed / one successful probe of the health loop produce), so
// health marks and real reachability are two generated dimensions: a mark lags reality in either direction.
//
// Generated history over 8 subscriber ids (some owned by node-a, some by a remote, by rendezvous hash):
//   alloc(s), release(s) through node-a's PeerPool.Allocate / Release; mark(peer, healthy|unhealthy); reach(peer, up|down).
//
// Model, from observed return values only: a successful Allocate names the node that holds the allocation and the
// address (AllocationResponse.NodeID / IP): held[s][node] = ip. Oracle after every step, on node-a's local pool
// (copy through VerifLocalState) AND on the remotes' recorded allocations:
//   - every node's allocation table holds exactly the subscribers the model says it holds, with that address
//     (no ghost: a failed call leaves no trace; no loss);
//   - a Release that returns nil has put the address back: no node still holds an allocation for the subscriber;
//     a Release that returns an error has changed nothing;
//   - node-a's Stats: allocated = len(local table), allocated + available = total = usable (documented: hosts minus
//     gateway); the remotes' /pool/status likewise;
//   - at the end node-a marks every remote unhealthy (so every request falls back to the local pool) and a drain
//     probe runs: exactly usable - locally-held fresh subscribers obtain an address.
// Signatures carry the shape that tells root causes apart: whether the node holding the allocation is the node the
// documented routing (first healthy member in rendezvous order, the local node always healthy) selects NOW.

import (
	"context"
	"fmt"
	"net/http"
	"net/http/httptest"
	"sort"
	"strings"
	"testing"
	"time"

	"github.com/codelaboratoryltd/bng/pkg/pool"
	"pgregory.net/rapid"

	"bngverif/internal/pools"
	"bngverif/internal/vstat"
)

type pmNode struct {
	id  string
	p   *pool.PeerPool
	mux *http.ServeMux
	up  bool
}

type pmTransport struct{ nodes map[string]*pmNode }

func (t *pmTransport) RoundTrip(req *http.Request) (*http.Response, error) {
	if err := req.Context().Err(); err != nil {
		return nil, err
	}
	n, ok := t.nodes[req.URL.Host]
	if !ok {
		return nil, fmt.Errorf("dial %s: no such host", req.URL.Host)
	}
	if !n.up {
		return nil, fmt.Errorf("dial %s: connection refused", req.URL.Host)
	}
	rec := httptest.NewRecorder()
	n.mux.ServeHTTP(rec, req)
	return rec.Result(), nil
}

type pmKind int

const (
	pmAlloc pmKind = iota
	pmRelease
	pmMark
	pmReach
)

type pmOp struct {
	K  pmKind
	S  int  // subscriber / peer selector
	On bool // mark healthy / make reachable
	C  int  // context class (see ctxFor)
}

func genPmOps() *rapid.Generator[[]pmOp] {
	bag := []pmKind{pmAlloc, pmAlloc, pmAlloc, pmAlloc, pmAlloc, pmRelease, pmRelease, pmRelease, pmRelease, pmMark, pmMark, pmMark, pmReach}
	one := rapid.Custom(func(t *rapid.T) pmOp {
		return pmOp{K: rapid.SampledFrom(bag).Draw(t, "kind"), S: rapid.IntRange(0, 7).Draw(t, "sel"),
			On: rapid.IntRange(0, 2).Draw(t, "on") == 0, C: rapid.IntRange(0, 9).Draw(t, "ctx")}
	})
	return rapid.SliceOfN(one, 2, 40)
}

type pmRun struct {
	ft      fataler
	local   *pmNode
	remotes []*pmNode
	nodes   map[string]*pmNode
	usable  int
	ids     []string
	held    map[string]map[string]string // subscriber -> node -> address (from Allocate's answers)
	marked  map[string]bool              // what node-a believes: peer -> healthy
	ops     []string
	dead    bool
	cls     map[string]bool
	desc    string
}

func (r *pmRun) logf(f string, a ...any) { r.ops = append(r.ops, fmt.Sprintf(f, a...)) }

func (r *pmRun) fail(kind, f string, a ...any) {
	if vstat.Fail(r.ft, "C05/peer-multi/"+kind, "%s\npool: %s\nhistory: %s", fmt.Sprintf(f, a...), r.desc, strings.Join(r.ops, "; ")) {
		r.dead = true
	}
}

// route is the documented routing: the first member in rendezvous order that node-a believes healthy; itself always.
func (r *pmRun) route(id string) string {
	for _, n := range r.local.p.VerifRanked(id) {
		if n == r.local.id || r.marked[n] {
			return n
		}
	}
	return r.local.id
}

func (r *pmRun) table(n *pmNode) map[string]string {
	a, _, _ := n.p.VerifLocalState()
	return a
}

// check compares every node's table and counters with the model.
func (r *pmRun) check(after string) {
	if r.dead {
		return
	}
	for _, id := range append([]string{r.local.id}, r.remoteIDs()...) {
		n := r.nodes[id]
		tab := r.table(n)
		want := 0
		for _, s := range r.ids {
			ip, has := r.held[s][id]
			got := tab[s]
			switch {
			case has && got != ip:
				r.fail("allocation-lost/after-"+after, "%s holds %q for %s, the subscriber was answered %s by that node and it was never released", id, got, s, ip)
				return
			case !has && got != "":
				r.fail("ghost-allocation/after-"+after, "%s holds %s for %s although no successful request put it there (or it was released)", id, got, s)
				return
			}
			if has {
				want++
			}
		}
		if len(tab) != want {
			r.fail("ghost-allocation/after-"+after, "%s holds %d allocations, %d subscribers were answered by it", id, len(tab), want)
			return
		}
		st := n.p.Stats()
		if st.Allocated != want || st.Allocated+st.Available != st.Total || st.Total != r.usable {
			r.fail("stats-mismatch/after-"+after, "%s reports allocated %d available %d total %d, it holds %d of %d usable", id, st.Allocated, st.Available, st.Total, want, r.usable)
			return
		}
	}
}

func (r *pmRun) remoteIDs() []string {
	var out []string
	for _, n := range r.remotes {
		out = append(out, n.id)
	}
	return out
}

// The two listed design findings (a Release routed by CURRENT health reaches a node that does not hold the
// allocation, which answers "already released") end most histories with health flips early; avoid=true skips a
// release whose holder is not the node the routing selects now, so that histories reach depth. One case in four
// runs without it.
var pmListed = []string{
	"C05/peer-multi/released-still-held/held-remotely/holder-is-not-the-current-route",
	"C05/peer-multi/released-still-held/held-locally/holder-is-not-the-current-route",
}

func runPeerMulti(ft fataler, cfg pools.V4Net, nRemote int, ops []pmOp, avoid bool) *pmRun {
	r := &pmRun{ft: ft, nodes: map[string]*pmNode{}, held: map[string]map[string]string{}, marked: map[string]bool{}, cls: map[string]bool{}}
	all := []string{"node-a", "node-b", "node-c"}[:nRemote+1]
	tr := &pmTransport{nodes: r.nodes}
	for i, id := range all {
		p, err := pool.NewPeerPool(pool.PeerPoolConfig{NodeID: id, Peers: all, Network: cfg.CIDR, Gateway: cfg.Gateway, LeaseTime: time.Hour})
		if err != nil {
			ft.Fatalf("constructor: %v", err)
		}
		n := &pmNode{id: id, p: p, mux: http.NewServeMux(), up: true}
		p.RegisterHandlers(n.mux)
		p.VerifSetTransport(tr)
		r.nodes[id] = n
		if i == 0 {
			r.local = n
		} else {
			r.remotes = append(r.remotes, n)
			r.marked[id] = true // NewPeerPool: all peers start healthy
		}
	}
	r.usable = int(pools.PeerFactory(cfg.CIDR, cfg.Gateway, cfg.Class).Usable) // documented: hosts minus the gateway
	for i := 0; i < 8; i++ {
		r.ids = append(r.ids, fmt.Sprintf("sub-%d", i))
	}
	r.desc = fmt.Sprintf("pool.PeerPool node-a of %v (%s,gw=%s)", all, cfg.CIDR, cfg.Gateway)
	r.logf("new")
	r.check("new")
	for _, op := range ops {
		if r.dead {
			break
		}
		switch op.K {
		case pmAlloc:
			s := r.ids[op.S%len(r.ids)]
			route := r.route(s)
			ctx, cname, done := ctxFor(op.C)
			resp, err := r.local.p.Allocate(ctx, s, pools.MacOf(fmt.Sprintf("s%d", op.S%8)))
			done()
			if err != nil {
				r.logf("alloc(%s)[%s]=err", s, cname)
				r.cls["alloc-failed"] = true
				r.check("failed-alloc")
				continue
			}
			r.logf("alloc(%s)[%s]=%s@%s", s, cname, resp.IP, resp.NodeID)
			if _, ok := r.nodes[resp.NodeID]; !ok {
				r.fail("answer-from-nobody", "alloc(%s) answered by %q, which is no member", s, resp.NodeID)
				continue
			}
			if prev, ok := r.held[s][resp.NodeID]; ok && prev != resp.IP {
				r.fail("reask-changed", "alloc(%s) answered %s by %s, which answered %s before", s, resp.IP, resp.NodeID, prev)
				continue
			}
			if r.held[s] == nil {
				r.held[s] = map[string]string{}
			}
			r.held[s][resp.NodeID] = resp.IP
			owner := r.local.p.VerifRanked(s)[0]
			switch {
			case resp.NodeID == r.local.id && owner != r.local.id:
				r.cls["alloc:local-fallback"] = true
			case resp.NodeID == r.local.id:
				r.cls["alloc:local-owner"] = true
			default:
				r.cls["alloc:forwarded"] = true
			}
			if resp.NodeID != route {
				// documented: "Unhealthy peers are skipped - the next healthy peer in hash order is tried"; an allocation
				// made elsewhere is one the matching Release (routed the same way) will not find
				r.fail("alloc-misrouted", "alloc(%s) was served by %s, the documented route (first member in rendezvous order that node-a believes healthy) is %s", s, resp.NodeID, route)
				continue
			}
			if len(r.held[s]) > 1 {
				r.cls["subscriber-on-two-nodes"] = true
			}
			r.check("alloc")
		case pmRelease:
			// three of four releases are for a subscriber that holds something
			s := r.ids[op.S%len(r.ids)]
			if op.C%4 != 0 {
				var hs []string
				for _, x := range r.ids {
					if len(r.held[x]) > 0 {
						hs = append(hs, x)
					}
				}
				if len(hs) > 0 {
					s = hs[op.S%len(hs)]
				}
			}
			route := r.route(s)
			if avoid {
				skip := false
				for n := range r.held[s] {
					skip = skip || n != route
				}
				if skip {
					continue
				}
			}
			ctx, cname, done := ctxFor(op.C)
			err := r.local.p.Release(ctx, s)
			done()
			r.logf("release(%s)[%s]=%s", s, cname, okerr(err))
			if err != nil {
				r.cls["release-failed"] = true
				r.check("failed-release") // an error changes nothing
				continue
			}
			holders := make([]string, 0, len(r.held[s]))
			for n := range r.held[s] {
				holders = append(holders, n)
			}
			sort.Strings(holders)
			for _, n := range holders {
				if got := r.table(r.nodes[n])[s]; got != "" {
					shape := "/holder-is-not-the-current-route"
					if n == route {
						shape = "/holder-is-the-current-route"
					}
					where := "/held-remotely"
					if n == r.local.id {
						where = "/held-locally"
					}
					r.fail("released-still-held"+where+shape, "release(%s) returned nil but %s still holds %s for it (documented route now: %s): the address never returns to circulation", s, n, got, route)
					break
				}
				if n == r.local.id && r.local.p.VerifRanked(s)[0] != r.local.id {
					r.cls["release:of-local-fallback"] = true
				}
				if n != r.local.id {
					r.cls["release:forwarded"] = true
				}
			}
			if r.dead {
				break
			}
			delete(r.held, s)
			r.check("release")
		case pmMark:
			if len(r.remotes) == 0 {
				continue
			}
			n := r.remotes[op.S%len(r.remotes)]
			r.local.p.VerifSetPeerHealth(n.id, op.On)
			if r.marked[n.id] != op.On {
				r.cls["health-flip"] = true
			}
			r.marked[n.id] = op.On
			r.logf("mark(%s,healthy=%v)", n.id, op.On)
		case pmReach:
			if len(r.remotes) == 0 {
				continue
			}
			n := r.remotes[op.S%len(r.remotes)]
			n.up = op.On
			if !op.On {
				r.cls["unreachable"] = true
			}
			r.logf("reach(%s,up=%v)", n.id, op.On)
		}
	}
	if r.dead {
		return r
	}
	// drain probe on node-a: with every remote marked unhealthy all requests fall back to the local pool
	for _, n := range r.remotes {
		r.local.p.VerifSetPeerHealth(n.id, false)
		r.marked[n.id] = false
	}
	localHeld := 0
	for _, s := range r.ids {
		if _, ok := r.held[s][r.local.id]; ok {
			localHeld++
		}
	}
	got := map[string]bool{}
	n := 0
	for ; n <= r.usable+1; n++ {
		resp, err := r.local.p.Allocate(context.Background(), fmt.Sprintf("fresh-%d", n), nil)
		if err != nil {
			break
		}
		if resp.NodeID != r.local.id || got[resp.IP] {
			r.fail("drain-duplicate", "drain probe: fresh-%d answered %s@%s (second time or by a remote although all are marked unhealthy)", n, resp.IP, resp.NodeID)
			return r
		}
		for _, s := range r.ids {
			if r.held[s][r.local.id] == resp.IP {
				r.fail("drain-duplicate", "drain probe: fresh-%d obtained %s which %s holds", n, resp.IP, s)
				return r
			}
		}
		got[resp.IP] = true
	}
	r.logf("drain=%d", n)
	if n != r.usable-localHeld {
		r.fail("drain-count", "drain probe: %d fresh subscribers obtained an address, usable=%d held locally=%d", n, r.usable, localHeld)
	}
	return r
}

func TestPropPeerMulti(t *testing.T) {
	vstat.Checks(2500, 40000)
	rapid.Check(t, func(rt *rapid.T) {
		n := pools.GenV4Net().Draw(rt, "net")
		nRemote := rapid.IntRange(1, 2).Draw(rt, "remotes")
		ops := genPmOps().Draw(rt, "ops")
		// what node-a believes when the history starts: each remote already marked unhealthy in half of the cases
		var init []pmOp
		for i := 0; i < nRemote; i++ {
			if rapid.Bool().Draw(rt, "startsUnhealthy") {
				init = append(init, pmOp{K: pmMark, S: i, On: false})
			}
		}
		ops = append(init, ops...)
		avoid := false
		for _, sig := range pmListed {
			avoid = avoid || vstat.IsListed(sig)
		}
		if avoid {
			avoid = rapid.IntRange(0, 3).Draw(rt, "exercise-listed") != 0
		}
		r := runPeerMulti(rt, n, nRemote, ops, avoid)
		cls := []string{"impl:peer-multi", "geom:" + n.Class, fmt.Sprintf("remotes:%d", nRemote)}
		for _, c := range []string{"alloc:local-fallback", "alloc:local-owner", "alloc:forwarded", "alloc:not-by-documented-route", "subscriber-on-two-nodes",
			"release:of-local-fallback", "release:forwarded", "health-flip", "unreachable", "alloc-failed", "release-failed", "ctx:cancelled", "ctx:expired"} {
			if r.cls[c] || ctxSeen(r.ops, c) {
				cls = append(cls, "pm:"+c)
			}
		}
		nt := r.cls["release:of-local-fallback"] || r.cls["release:forwarded"]
		ops2 := r.ops
		vstat.Case(nt, vstat.Hash("peer-multi", r.desc, strings.Join(ops2, ";")), func() any {
			return map[string]any{"impl": "peer-multi", "pool": r.desc, "ops": ops2}
		}, cls...)
	})
}

// ctxFor maps a generated class to the context a caller passes: Background (6 of 10), already cancelled, deadline
// already passed. done releases the context's resources.
func ctxFor(c int) (context.Context, string, func()) {
	switch c {
	case 8:
		ctx, cancel := context.WithCancel(context.Background())
		cancel()
		return ctx, "cancelled", func() {}
	case 9:
		ctx, cancel := context.WithDeadline(context.Background(), time.Unix(1, 0))
		return ctx, "expired", cancel
	default:
		return context.Background(), "bg", func() {}
	}
}

func ctxSeen(ops []string, c string) bool {
	if !strings.HasPrefix(c, "ctx:") {
		return false
	}
	for _, o := range ops {
		if strings.Contains(o, "["+strings.TrimPrefix(c, "ctx:")+"]") {
			return true
		}
	}
	return false
}
