package c05

import (
	"testing"
	"testing/synctest"

	"pgregory.net/rapid"

	"bngverif/internal/pools"
	"bngverif/internal/vstat"
)

var baseKinds = []pools.Kind{pools.OpAlloc, pools.OpRelease}

// altKinds adds the implementation's second allocation entry point (pools.AltEntry); altRelKinds also its second
// release entry point (only pool.PeerPool has one).
var (
	altKinds    = []pools.Kind{pools.OpAlloc, pools.OpRelease, pools.OpAllocAlt}
	altRelKinds = []pools.Kind{pools.OpAlloc, pools.OpRelease, pools.OpAllocAlt, pools.OpReleaseAlt}
)

// statsChecked: Stats are compared after every step, except that — while a listed finding makes the first
// Stats comparison after the 2nd epoch advance fail on every history — three quarters of the epoch cases run without
// the Stats comparison so that exhaustion / renewal / drain are still explored beyond that point.
func statsChecked(rt *rapid.T, listedSig string) bool {
	if vstat.IsListed(listedSig) {
		return rapid.IntRange(0, 3).Draw(rt, "checkStats") == 0
	}
	return true
}

func TestPropBitmap(t *testing.T) {
	vstat.Checks(2500, 50000)
	kinds := []pools.Kind{pools.OpAlloc, pools.OpRelease, pools.OpReleaseValue, pools.OpAllocSpecific, pools.OpSetAlloc, pools.OpReload}
	rapid.Check(t, func(rt *rapid.T) {
		g := pools.GenGeom(true, true).Draw(rt, "geometry")
		f := pools.BitmapFactory(g.CIDR, g.Unit, g.Class)
		w := []int{8, 4, 1, 2, 3, 2}
		if vstat.IsListed("C05/bitmap/stats-mismatch/after-setAlloc") && rapid.Bool().Draw(rt, "avoid-setAlloc") {
			w[4] = 0
		}
		ops := pools.GenOps(kinds, w, len(subs), 1, 40).Draw(rt, "ops")
		record(f, runHistory(rt, f, ops, runOpt{checkStats: true}))
	})
}

func TestPropEpoch(t *testing.T) {
	vstat.Checks(5000, 80000)
	// OpSetAlloc = EpochBitmapAllocator.SetAllocation called directly (what loadAllocations / handleRemoteChange do with
	// a record): re-applied, moving, and conflicting records
	kinds := []pools.Kind{pools.OpAlloc, pools.OpRelease, pools.OpRenew, pools.OpAdvance, pools.OpSetAlloc}
	rapid.Check(t, func(rt *rapid.T) {
		cidr := pools.GenEpochNet(true).Draw(rt, "net")
		grace := uint64(rapid.SampledFrom([]int{0, 1, 1, 1, 1, 1, 1, 1, 1, 1, 2, 3}).Draw(rt, "grace"))
		f := pools.EpochFactory(cidr, grace, "epoch")
		if !pools.EpochConfigOK(cidr, grace) {
			// the constructor rejects this grace period: outside the input domain, nothing to decide
			vstat.Case(false, 0, nil, "impl:epoch", "cfg:rejected-by-constructor")
			return
		}
		// up to 12 advances per history (the 2-bit generation wraps after 4)
		ops := pools.GenOps(kinds, []int{4, 2, 5, 7, 3}, len(subs), 8, 40).Draw(rt, "ops")
		cs := true
		if f.Usable > 0 && f.Grace <= 1 {
			cs = statsChecked(rt, "C05/epoch/stats-mismatch/after-advance")
		}
		record(f, runHistory(rt, f, ops, runOpt{checkStats: cs}))
	})
}

func TestPropDistSession(t *testing.T) {
	vstat.Checks(1500, 30000)
	// OpAllocAlt = AllocateWithMAC (the DHCP path: its own copy of allocate + persist + rollback)
	kinds := []pools.Kind{pools.OpAlloc, pools.OpRelease, pools.OpReload, pools.OpRemoteSet, pools.OpRemoteDel, pools.OpAllocAlt}
	rapid.Check(t, func(rt *rapid.T) {
		g := pools.GenGeom(true, false).Draw(rt, "geometry")
		echo := rapid.Bool().Draw(rt, "echo")
		f := pools.DistFactory(g.CIDR, g.Unit, false, 0, echo, g.Class, nil)
		ops := pools.GenOps(kinds, []int{5, 4, 2, 5, 1, 4}, len(subs), 1, 40).Draw(rt, "ops")
		honour := rapid.Bool().Draw(rt, "storeHonoursContext")
		record(f, runHistory(rt, f, ops, runOpt{checkStats: true, ctx: true, honourCtx: honour}))
	})
}

func TestPropDistLease(t *testing.T) {
	vstat.Checks(2000, 40000)
	// OpAllocAlt = AllocateWithMAC; OpRemoteSet/OpRemoteDel = a peer's write reaching EpochBitmapAllocator.SetAllocation /
	// Release through the store watch
	kinds := []pools.Kind{pools.OpAlloc, pools.OpRelease, pools.OpRenew, pools.OpAdvance, pools.OpAllocAlt, pools.OpRemoteSet, pools.OpRemoteDel}
	rapid.Check(t, func(rt *rapid.T) {
		cidr := pools.GenEpochNet(false).Draw(rt, "net")
		grace := rapid.SampledFrom([]int{0, 1, 1}).Draw(rt, "grace")
		echo := rapid.Bool().Draw(rt, "echo")
		ops := pools.GenOps(kinds, []int{4, 2, 5, 5, 3, 4, 1}, len(subs), 1, 40).Draw(rt, "ops")
		cs := true
		honour := rapid.Bool().Draw(rt, "storeHonoursContext")
		var res result
		var f pools.Factory
		msg := inBubble(t, func(ft fataler) {
			f = pools.DistFactory(cidr, 32, true, grace, echo, "lease", synctest.Wait)
			res = runHistory(ft, f, ops, runOpt{checkStats: cs, ctx: true, honourCtx: honour})
		})
		if msg != "" {
			rt.Fatalf("%s", msg)
		}
		record(f, res)
	})
}

func TestPropLocalAlloc(t *testing.T) {
	vstat.Checks(1500, 30000)
	rapid.Check(t, func(rt *rapid.T) {
		g := pools.GenGeom(true, false).Draw(rt, "geometry")
		f := pools.LocalFactory(g.CIDR, g.Unit, g.Class)
		if rapid.Bool().Draw(rt, "direct") {
			f = pools.PoolAllocFactory(g.CIDR, g.Unit, g.Class, false)
		}
		// OpAllocAlt: LocalAllocator.Allocate (no MAC) / PoolAllocator.AllocateWithOptions with DUID+IAID (DHCPv6 server)
		ops := pools.GenOps(altKinds, []int{3, 3, 3}, len(subs), 1, 40).Draw(rt, "ops")
		record(f, runHistory(rt, f, ops, runOpt{checkStats: true, ctx: true}))
	})
}

func TestPropDHCP4(t *testing.T) {
	vstat.Checks(2000, 40000)
	rapid.Check(t, func(rt *rapid.T) {
		n := pools.GenDHCP4().Draw(rt, "cfg")
		f := pools.DHCP4Factory(n.CIDR, n.Gateway, n.ReservedStart, n.ReservedEnd, n.Class)
		ops := pools.GenOps(baseKinds, []int{2, 1}, len(subs), 1, 40).Draw(rt, "ops")
		record(f, runHistory(rt, f, ops, runOpt{checkStats: true}))
	})
}

func TestPropDHCP6(t *testing.T) {
	vstat.Checks(1500, 30000)
	rapid.Check(t, func(rt *rapid.T) {
		var f pools.Factory
		kinds, weights := baseKinds, []int{2, 1}
		if rapid.IntRange(0, 2).Draw(rt, "pd") == 0 {
			g := pools.GenV6PD().Draw(rt, "pd-geometry")
			f = pools.V6PrefixFactory(g.CIDR, g.Unit, g.Class)
		} else {
			g := pools.GenV6Addr().Draw(rt, "addr-geometry")
			f = pools.V6AddrFactory(g.CIDR, g.Class)
			// the address pool also has Decline (DHCPv6 Decline: the binding ends, the address is taken out of service)
			kinds, weights = []pools.Kind{pools.OpAlloc, pools.OpRelease, pools.OpDecline}, []int{5, 2, 2}
		}
		ops := pools.GenOps(kinds, weights, len(subs), 1, 40).Draw(rt, "ops")
		record(f, runHistory(rt, f, ops, runOpt{checkStats: true}))
	})
}

func TestPropPPPoEPool(t *testing.T) {
	vstat.Checks(2000, 40000)
	rapid.Check(t, func(rt *rapid.T) {
		n := pools.GenV4Net().Draw(rt, "net")
		f := pools.PPPoEFactory(n.CIDR, n.Gateway, n.Class)
		ops := pools.GenOps(baseKinds, []int{2, 1}, len(subs), 1, 40).Draw(rt, "ops")
		record(f, runHistory(rt, f, ops, runOpt{checkStats: true}))
	})
}

func TestPropPeerLocal(t *testing.T) {
	vstat.Checks(2000, 40000)
	rapid.Check(t, func(rt *rapid.T) {
		n := pools.GenV4Net().Draw(rt, "net")
		f := pools.PeerFactory(n.CIDR, n.Gateway, n.Class)
		// OpAllocAlt/OpReleaseAlt: the requests a peer node forwards (POST /pool/allocate, DELETE /pool/release/{id})
		ops := pools.GenOps(altRelKinds, []int{3, 2, 3, 2}, len(subs), 1, 40).Draw(rt, "ops")
		record(f, runHistory(rt, f, ops, runOpt{checkStats: true}))
	})
}
