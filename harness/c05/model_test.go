package c05

// C05 — "pools neither leak nor miscount".
//
// Reference model: the set of LIVE subscribers (handed a value, not released, lease within grace) and the
// number of USABLE units of the pool, the latter derived from each implementation's documented behaviour
// in harness/internal/pools (never read back from the implementation).  After every step:
//   * a live subscriber still holds its value (renewed-within-grace is never reclaimed),
//   * Stats()/GetPoolUtilization == (live, usable, utilisation in the implementation's documented unit),
//   * an allocation may fail for a new subscriber only when live == usable,
// and at the end a drain probe: fresh subscribers allocate until the pool refuses and must obtain exactly
// usable-live distinct values nobody live holds.  With an injected store failure: the failed new allocation
// leaves no live subscriber behind, a failed re-ask leaves the existing assignment alone, and everything
// above keeps holding afterwards.

import (
	"errors"
	"fmt"
	"math"
	"strings"
	"testing"
	"testing/synctest"

	"bngverif/internal/pools"
	"bngverif/internal/vstat"
)

func TestMain(m *testing.M) { vstat.Main(m, "C05") }

var subs = []string{"s0", "s1", "s2", "s3", "s4", "s5"}

type fataler = vstat.Fataler

// capture carries a verdict out of a synctest bubble as a value.
type capture struct{ msg string }

func (c *capture) Fatalf(f string, a ...any) { c.msg = fmt.Sprintf(f, a...); panic(c) }
func (c *capture) Helper()                   {}

func inBubble(t *testing.T, body func(ft fataler)) (msg string) {
	synctest.Test(t, func(*testing.T) {
		c := &capture{}
		defer func() {
			if r := recover(); r != nil {
				if r == any(c) {
					msg = c.msg
					return
				}
				panic(r)
			}
		}()
		body(c)
	})
	return msg
}

type runOpt struct {
	failAt     int  // store call to fail (0 = none)
	checkStats bool // compare Stats after every step
	noDrain    bool
}

type result struct {
	ops        []string
	classes    []string
	nt         bool
	dead       bool
	storeCalls int
	failedCall string // kind of the store call that was failed ("" = the fault was never reached)
	advances   int
}

type run struct {
	f         pools.Factory
	p         pools.Pool
	ft        fataler
	opt       runOpt
	has       map[string]string
	holder    map[string]string
	touched   map[string]uint64
	ambig     map[string]string // release whose persistence failed: subscriber -> value it had
	maybe     map[string]uint64 // renewal whose persistence failed: took effect or not, resolved by observation
	ops       []string
	dead      bool
	advances  int
	advSince  map[string]int // advances since the subscriber's current assignment began
	faulted   bool
	reasked   bool
	reapplied bool
	orphans   []string // values a subscriber was moved away from by a re-ask: must be obtainable again
	cls       map[string]bool
}

func (r *run) logf(f string, a ...any) { r.ops = append(r.ops, fmt.Sprintf(f, a...)) }

// shape is the configuration/history class that is part of a signature for violations that cannot be
// attributed to the op that just ran.
func (r *run) shape() string {
	s := ""
	if r.f.Huge {
		s += "/units>=2^64"
	}
	if r.f.Epochal {
		switch {
		case r.f.Usable == 0:
			s += "/tiny-pool"
		case r.f.Grace >= 2:
			s += "/grace>=2"
		case r.advances >= 2:
			s += "/advances>=2"
		}
	}
	if r.f.Impl == "pppoe" && r.reasked {
		s += "/reask"
	}
	if r.faulted {
		s += "/store-fail"
	}
	return s
}

func (r *run) fail(kind, f string, a ...any) {
	r.ft.Helper()
	sig := "C05/" + r.f.Impl + "/" + kind
	if vstat.Fail(r.ft, sig, "%s\npool: %s\nhistory: %s", fmt.Sprintf(f, a...), r.f.Desc, strings.Join(r.ops, "; ")) {
		r.dead = true
	}
}

func (r *run) live() uint64 { return uint64(len(r.has)) }

func (r *run) free(s string) {
	if v, ok := r.has[s]; ok {
		delete(r.has, s)
		delete(r.holder, v)
	}
	delete(r.touched, s)
	delete(r.maybe, s)
	delete(r.advSince, s)
}

func (r *run) epoch() uint64 {
	if ep, ok := r.p.(pools.Epocher); ok {
		return ep.Epoch()
	}
	return 0
}

func (r *run) lookup(s string) (string, bool) { return r.p.Lookup(s) }

// handed records that the pool handed val to s.
func (r *run) handed(s, val, how string) {
	if val == "" {
		r.fail("empty-value", "%s(%s) succeeded with an empty value", how, s)
		return
	}
	if err := pools.RangeCheck(r.f.Net, r.f.Unit, val); err != nil {
		r.fail("out-of-range", "%s(%s) -> %s: %v", how, s, val, err)
		return
	}
	if prev, ok := r.has[s]; ok && prev != val {
		// C01 owns "same value on re-ask"; for C05 the old value must not leak: keep counting with the new one
		r.reasked = true
		delete(r.holder, prev)
		r.orphans = append(r.orphans, prev)
	}
	if o, ok := r.holder[val]; ok && o != s {
		r.fail("held-twice", "%s(%s) -> %s which live subscriber %s holds (usable address held by two)", how, s, val, o)
		return
	}
	if _, ok := r.has[s]; !ok {
		r.advSince[s] = 0
	}
	r.has[s] = val
	r.holder[val] = s
	r.touched[s] = r.epoch()
	delete(r.maybe, s)
}

// afterStep runs the per-step oracle; after is the name of the op that just ran ("new" right after construction).
func (r *run) afterStep(after string) {
	if r.dead {
		return
	}
	// live subscribers keep their values
	for _, s := range subs {
		want, ok := r.has[s]
		if !ok {
			continue
		}
		if got, sup := r.lookup(s); sup && got != want {
			kind := "live-lost"
			if r.advSince[s] > 0 {
				kind = "renewed-lost" // it survived at least one epoch advance by renewing, and is still within grace
			}
			r.fail(kind+r.shape(), "lookup(%s)=%q but it holds %q (not released, lease within grace)", s, got, want)
			return
		}
	}
	if !r.opt.checkStats {
		return
	}
	cfg := ""
	if r.f.Epochal && r.f.Usable == 0 {
		cfg = "/tiny-pool"
	} else if r.f.Epochal && r.f.Grace >= 2 {
		cfg = "/grace>=2"
	}
	if st, ok := r.p.(pools.Statser); ok {
		a, t, u, hasU := st.Stats()
		bad := a != r.live()
		if !r.f.Huge && t != r.f.Usable {
			bad = true
		}
		if hasU && r.f.UtilOf != nil && !r.f.Huge {
			want := r.f.UtilOf(r.live(), r.f.Usable)
			if math.IsNaN(u) || math.IsInf(u, 0) || math.Abs(u-want) > 1e-9 {
				bad = true
			}
		}
		if bad {
			r.fail("stats-mismatch/after-"+after+cfg, "Stats()=(allocated %d, total %d, utilisation %v) but live=%d usable=%d", a, t, u, r.live(), r.f.Usable)
			return
		}
	}
	if sc, ok := r.p.(pools.StoreCounter); ok {
		if n := sc.StoreCount(); uint64(n) != r.live() {
			r.fail("store-count-mismatch/after-"+after+cfg, "allocation store lists %d allocations, live=%d", n, r.live())
			return
		}
	}
	if su, ok := r.p.(pools.StoreUtiler); ok && !r.faulted {
		a, t, totalKnown := su.StoreUtil()
		if uint64(a) != r.live() || (totalKnown && !r.f.Huge && r.f.Usable < 1<<31 && uint64(t) != r.f.Usable) {
			r.fail("store-util-mismatch/after-"+after+cfg, "GetPoolUtilization=(%d,%d) but live=%d usable=%d", a, t, r.live(), r.f.Usable)
			return
		}
	}
}

func injected(err error) bool { return err != nil && errors.Is(err, pools.ErrInjected) }

// Pools of up to drainFull usable units are drained completely; on larger pools the probe is capped at
// drainCap allocations, all of which must succeed.
const (
	drainFull = 1100
	drainCap  = 150
)

func (r *run) drain() {
	if r.dead || r.opt.noDrain {
		return
	}
	max := r.f.UsableMax
	if max == 0 {
		max = r.f.Usable
	}
	want := r.f.Usable - r.live()
	if r.live() > r.f.Usable {
		want = 0
	}
	limit := max - r.live() + 2
	if r.live() > max {
		limit = 2
	}
	capped := false
	if r.f.Huge || limit > drainFull {
		limit, capped = drainCap, true
	}
	got := map[string]string{}
	var n uint64
	short := "exhausted-early"
	for ; n < limit; n++ {
		s := fmt.Sprintf("f%d", n)
		v, err := r.p.Alloc(s)
		if err != nil {
			if !pools.IsExhausted(err) {
				short = "alloc-error" // refused for another reason than "no free unit"
			}
			break
		}
		if err := pools.RangeCheck(r.f.Net, r.f.Unit, v); err != nil {
			r.fail("out-of-range", "drain alloc(%s) -> %s: %v", s, v, err)
			return
		}
		if o, ok := r.holder[v]; ok {
			r.fail("drain-duplicate"+r.shape(), "drain probe: fresh subscriber %s obtained %s which live subscriber %s holds", s, v, o)
			return
		}
		if o, ok := got[v]; ok {
			r.fail("drain-duplicate"+r.shape(), "drain probe: fresh subscribers %s and %s both obtained %s", o, s, v)
			return
		}
		got[v] = s
	}
	r.logf("drain=%d", n)
	if !capped || n < limit {
		for _, o := range r.orphans {
			if _, held := r.holder[o]; held {
				continue
			}
			if _, ok := got[o]; !ok {
				r.fail("exhausted-early"+r.shape(), "drain probe: %s, which no live subscriber holds (its holder was moved to another value by a re-ask), was not obtainable by any of %d fresh subscribers", o, n)
				return
			}
		}
	}
	if capped {
		if n < limit {
			r.fail(short+r.shape(), "drain probe: only %d fresh subscribers obtained a value, usable=%d live=%d (at least %d more must be obtainable)", n, r.f.Usable, r.live(), limit)
		}
		return
	}
	if n < want {
		r.fail(short+r.shape(), "drain probe: %d fresh subscribers obtained a value, usable=%d live=%d: %d usable addresses are neither held nor obtainable", n, r.f.Usable, r.live(), want-n)
		return
	}
	if n > max-r.live() && r.live() <= max {
		r.fail("drain-long"+r.shape(), "drain probe: %d fresh subscribers obtained a value but only %d-%d=%d units exist", n, max, r.live(), max-r.live())
	}
}

// runHistory executes ops on a fresh instance of f.
func runHistory(ft fataler, f pools.Factory, ops []pools.Op, opt runOpt) result {
	r := &run{f: f, ft: ft, opt: opt, has: map[string]string{}, holder: map[string]string{}, touched: map[string]uint64{},
		maybe: map[string]uint64{}, ambig: map[string]string{}, advSince: map[string]int{}, cls: map[string]bool{}}
	r.p = f.New(opt.failAt)
	defer r.p.Close()
	r.logf("new %s", f.Desc)
	r.afterStep("new")
	ep, _ := r.p.(pools.Epocher)
	maxAdvSinceAlloc := 0 // epoch advances that followed the first successful allocation
	allocated := false
	for _, op := range ops {
		if r.dead {
			break
		}
		s := subs[op.S%len(subs)]
		if (op.K == pools.OpRelease || op.K == pools.OpRenew) && op.V%4 != 0 {
			var holders []string
			for _, x := range subs {
				if _, ok := r.has[x]; ok {
					holders = append(holders, x)
				}
			}
			if len(holders) > 0 {
				s = holders[op.S%len(holders)]
			}
		}
		name := op.K.String()
		switch op.K {
		case pools.OpAlloc:
			held, holds := r.has[s]
			if holds && f.Impl == "pppoe" && vstat.IsListed("C05/pppoe/drain-short/reask") && op.V%8 != 0 {
				continue // steer around the listed re-ask leak in 7 of 8 re-asks
			}
			v, err := r.p.Alloc(s)
			r.logf("alloc(%s)=%s,%s", s, v, okerr(err))
			if err != nil {
				if injected(err) {
					r.faulted = true
					if holds {
						if got, sup := r.lookup(s); sup && got != held {
							r.fail("reask-lost/store-fail", "alloc(%s) re-ask failed to persist and the pre-existing assignment %s was taken away (lookup=%q) although it was never released", s, held, got)
						}
						r.maybe[s] = r.epoch() // a re-ask renews the lease; whether this one did is resolved by observation
					} else if got, sup := r.lookup(s); sup && got != "" {
						r.fail("failed-alloc-live/store-fail", "alloc(%s) failed to persist but the pool still reports %q for it", s, got)
					}
					break
				}
				if holds {
					// a refused re-ask on a FULL pool is C01's concern (same value on re-ask), not a leak or miscount
					if !(pools.IsExhausted(err) && r.live() >= f.Usable) {
						r.fail("reask-failed"+r.shape(), "alloc(%s) failed (%v) although it holds %s and live=%d < usable=%d", s, err, held, r.live(), f.Usable)
					}
				} else if r.live() < f.Usable {
					kind := "exhausted-early"
					if !pools.IsExhausted(err) {
						kind = "alloc-error"
					}
					r.fail(kind+r.shape(), "alloc(%s) failed (%v) with live=%d < usable=%d: a usable address is neither held nor obtainable", s, err, r.live(), f.Usable)
				}
				break
			}
			if holds {
				r.cls["reask"] = true
			}
			allocated = true
			r.handed(s, v, "alloc")
		case pools.OpRelease:
			held, holds := r.has[s]
			err := r.p.Release(s)
			r.logf("release(%s)=%s", s, okerr(err))
			if err != nil {
				if injected(err) {
					r.faulted = true
					if holds {
						if got, sup := r.lookup(s); sup && got == held {
							break // the release did not happen: still live
						}
						// released in memory, but the store may still record it: either outcome is acceptable,
						// the pool just has to stay consistent; a restart from the store may bring it back
						r.ambig[s] = held
						r.free(s)
					}
					break
				}
				if holds {
					r.fail("release-failed"+r.shape(), "release(%s) failed (%v) although it holds %s", s, err, held)
				}
				break
			}
			r.free(s)
		case pools.OpRenew:
			rn, ok := r.p.(pools.Renewer)
			if !ok {
				continue
			}
			err := rn.Renew(s)
			r.logf("renew(%s)=%s", s, okerr(err))
			if _, holds := r.has[s]; holds {
				if err != nil {
					if injected(err) {
						r.faulted = true
						r.maybe[s] = r.epoch()
						break
					}
					r.fail("renew-failed"+r.shape(), "renew(%s) failed (%v) although it is live within grace", s, err)
					break
				}
				r.touched[s] = r.epoch()
				delete(r.maybe, s)
			}
		case pools.OpAdvance:
			if ep == nil {
				continue
			}
			e := ep.Advance()
			r.advances++
			r.logf("advance->%d", e)
			if allocated {
				maxAdvSinceAlloc++
			}
			for _, x := range subs {
				at, ok := r.touched[x]
				if !ok {
					continue
				}
				r.advSince[x]++
				if e-at > f.Grace {
					if mb, amb := r.maybe[x]; amb && e-mb <= f.Grace {
						if got, sup := r.lookup(x); sup && got == r.has[x] {
							r.touched[x] = mb // the renewal whose persistence failed did take effect
							delete(r.maybe, x)
							continue
						}
					}
					r.free(x) // lease lapsed without renewal
				}
			}
		case pools.OpReload:
			rl, ok := r.p.(pools.Reloader)
			if !ok {
				continue
			}
			if err := rl.Reload(op.P); err != nil {
				r.logf("reload=err")
				continue
			}
			r.logf("reload(perm=%x)", op.P)
			r.cls["reload"] = true
			for _, x := range subs {
				if v, amb := r.ambig[x]; amb {
					if _, holds := r.has[x]; holds {
						delete(r.ambig, x) // it asked again since: a fresh record replaced the stale one
						continue
					}
					if _, taken := r.holder[v]; taken {
						continue // the stale record lost against the live holder's record; it is still in the store
					}
					if got, sup := r.lookup(x); sup && got == v {
						delete(r.ambig, x)
						r.handed(x, v, "reload-restored") // the release never reached the store: the record still stands
					}
				}
			}
		case pools.OpReleaseValue:
			vr, ok := r.p.(pools.ValueReleaser)
			if !ok {
				continue
			}
			v := r.pickVal(op)
			err := vr.ReleaseValue(v)
			r.logf("releaseValue(%s)=%s", v, okerr(err))
			if err == nil {
				if o, held := r.holder[v]; held {
					r.free(o)
				}
			} else if o, held := r.holder[v]; held {
				r.fail("release-failed", "releaseValue(%s) failed (%v) although %s holds it", v, err, o)
			}
		case pools.OpAllocSpecific:
			sp, ok := r.p.(pools.Specific)
			if !ok {
				continue
			}
			v := r.pickVal(op)
			err := sp.AllocSpecific(s, v)
			r.logf("allocSpecific(%s,%s)=%s", s, v, okerr(err))
			if err == nil {
				r.handed(s, v, "allocSpecific")
			}
		case pools.OpSetAlloc, pools.OpRemoteSet:
			v := r.pickVal(op)
			if op.P%2 == 0 {
				// half of the record ops re-apply the identical record of a current holder (by construction)
				for i := range subs {
					x := subs[(op.S+i)%len(subs)]
					if hv, ok := r.has[x]; ok {
						s, v = x, hv
						break
					}
				}
			}
			if o, held := r.holder[v]; held && o != s {
				s = o // a record for a held value can only be its holder's record: re-applied identical record
			}
			identical := r.has[s] == v
			if op.K == pools.OpSetAlloc {
				sa, ok := r.p.(pools.SetAllocer)
				if !ok {
					continue
				}
				err := sa.SetAllocation(s, v)
				r.logf("setAllocation(%s,%s)=%s", s, v, okerr(err))
				if err != nil {
					r.fail("set-allocation-failed", "SetAllocation(%s,%s) failed (%v) although nobody else holds the value", s, v, err)
					break
				}
			} else {
				rm, ok := r.p.(pools.Remote)
				if !ok {
					continue
				}
				rm.RemoteSet(s, v)
				r.logf("remoteSet(%s,%s)", s, v)
			}
			if identical {
				r.reapplied = true
				r.cls["reapplied-identical"] = true
				break // same record again: nothing changes
			}
			if old, had := r.has[s]; had {
				delete(r.holder, old) // the authoritative record moved s
				delete(r.has, s)
			}
			r.handed(s, v, name)
		case pools.OpRemoteDel:
			rm, ok := r.p.(pools.Remote)
			if !ok {
				continue
			}
			rm.RemoteDelete(s)
			r.logf("remoteDel(%s)", s)
			r.free(s)
		default:
			continue
		}
		r.afterStep(name)
		if len(r.orphans) > 0 {
			break // a re-ask changed the value (C01's finding): decide its C05 consequence (leak) by the drain now
		}
	}
	res := result{advances: r.advances}
	if fp, ok := r.p.(pools.Faulty); ok {
		res.storeCalls = fp.StoreCalls() // store calls made by the history itself (the drain probe comes after)
		res.failedCall = fp.LastFailedCall()
	}
	r.drain()
	res.ops, res.dead = r.ops, r.dead
	cls := []string{"impl:" + f.Impl, "geom:" + f.Class}
	if f.Epochal {
		cls = append(cls, fmt.Sprintf("grace:%d", f.Grace))
	}
	if maxAdvSinceAlloc >= 3 {
		cls = append(cls, "nt:advances>=3-after-alloc")
		res.nt = true
	}
	if r.reapplied {
		cls = append(cls, "nt:reapplied-record")
		res.nt = true
	}
	if r.advances >= 5 {
		cls = append(cls, "advances>=5(beyond-2bit-wrap)")
	}
	for _, c := range []string{"reask", "reload"} {
		if r.cls[c] {
			cls = append(cls, "has:"+c)
		}
	}
	if opt.checkStats {
		cls = append(cls, "stats:checked")
	} else {
		cls = append(cls, "stats:unchecked")
	}
	res.classes = cls
	return res
}

// pickVal selects a value for value-targeted ops: small unit indices of the pool.
func (r *run) pickVal(op pools.Op) string {
	ix := r.p.(pools.Indexer)
	lo, span := 0, uint64(10)
	if r.f.Epochal {
		lo = 1
	}
	if r.f.Usable < span {
		span = r.f.Usable
	}
	if span == 0 {
		span = 1
	}
	return ix.ValueAt(lo + op.V%int(span))
}

func okerr(err error) string {
	if err == nil {
		return "ok"
	}
	if injected(err) {
		return "injected-err"
	}
	return "err"
}

func record(f pools.Factory, res result, extra ...string) {
	ops := res.ops
	vstat.Case(res.nt, vstat.Hash(f.Impl, strings.Join(ops, ";")), func() any {
		return map[string]any{"impl": f.Impl, "ops": ops}
	}, append(res.classes, extra...)...)
}
