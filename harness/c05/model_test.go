package c05

// C05 — "pools neither leak nor miscount".
//
// Reference model: the set of LIVE subscribers (handed a value, not released, lease within grace) and the
// number of USABLE units of the pool, the latter derived from each implementation's documented behaviour
// in harness/internal/pools (never read back from the implementation).  After every step:
//   * a live subscriber still holds its value (renewed-within-grace is never reclaimed),
//   * Stats()/GetPoolUtilization == (live, usable, utilisation in the implementation's documented unit),
//   * an allocation may fail for a new subscriber only when live == usable,
// and at the end a drain probe: fresh subscribers allocate until the pool refuses and must obtain exactly
// usable-live distinct values nobody live holds.  With an injected store failure: the failed new allocation
// leaves no live subscriber behind, a failed re-ask leaves the existing assignment alone, and everything
// above keeps holding afterwards.
//
// Secondary mutators (everything real callers use besides the primary allocate/release pair: the second entry point
// of an implementation, DHCP Decline, and - in dhcp4srv_test.go - Claim/Reassign/Decline/ReleaseClient of dhcp.Pool
// under the DHCPv4 server's call discipline) are part of the histories.  A declined value is QUARANTINED (documented
// as taken out of service): it is neither live nor obtainable, so everywhere above "usable" reads
// "usable - quarantined".  For the free-list pools the pool's own tables (verif accessors, copies) must in addition
// conserve the address set after every step: allocated + free + quarantined is exactly the set the pool started with,
// each address once, and the allocated table holds exactly the model's live subscribers.

import (
	"context"
	"errors"
	"fmt"
	"math"
	"sort"
	"strings"
	"testing"
	"testing/synctest"
	"time"

	"bngverif/internal/pools"
	"bngverif/internal/vstat"
)

func TestMain(m *testing.M) { vstat.Main(m, "C05") }

var subs = []string{"s0", "s1", "s2", "s3", "s4", "s5"}

type fataler = vstat.Fataler

// capture carries a verdict out of a synctest bubble as a value.
type capture struct{ msg string }

func (c *capture) Fatalf(f string, a ...any) { c.msg = fmt.Sprintf(f, a...); panic(c) }
func (c *capture) Helper()                   {}

func inBubble(t *testing.T, body func(ft fataler)) (msg string) {
	synctest.Test(t, func(*testing.T) {
		c := &capture{}
		defer func() {
			if r := recover(); r != nil {
				if r == any(c) {
					msg = c.msg
					return
				}
				panic(r)
			}
		}()
		body(c)
	})
	return msg
}

type runOpt struct {
	failAt     int  // store call to fail (0 = none)
	checkStats bool // compare Stats after every step
	noDrain    bool
	ctx        bool // generate the caller's context per op (Background / cancelled / expired / cancelled during the store write)
	honourCtx  bool // the harness store refuses calls whose context is done (else it ignores contexts)
}

type result struct {
	ops        []string
	classes    []string
	nt         bool
	dead       bool
	storeCalls int
	failedCall string // kind of the store call that was failed ("" = the fault was never reached)
	advances   int
}

type run struct {
	f          pools.Factory
	p          pools.Pool
	ft         fataler
	opt        runOpt
	has        map[string]string
	holder     map[string]string
	touched    map[string]uint64
	ambig      map[string]string // release whose persistence failed: subscriber -> value it had
	maybe      map[string]uint64 // renewal whose persistence failed: took effect or not, resolved by observation
	ops        []string
	dead       bool
	advances   int
	advSince   map[string]int // advances since the subscriber's current assignment began
	faulted    bool
	ctxFault   bool            // a call failed with its context's error
	cs         pools.CtxSetter // non-nil: the caller's context is a generated dimension
	ctxTag     string          // context class of the call being made (for the history)
	reasked    bool
	reapplied  bool
	orphans    []string // values a subscriber was moved away from by a re-ask: must be obtainable again
	cls        map[string]bool
	quar       map[string]bool // values taken out of service by a Decline (documented: not returned to the free list)
	quarLog    []string        // the same in order of quarantine
	base       map[string]bool // free-list pools: the address set the pool started with (from its own free list)
	secondary  bool            // a secondary mutator changed the state of a live holder
	conflicted bool            // a peer's conflicting record sits in the shared store (restart outcome is C12's concern)
}

func (r *run) logf(f string, a ...any) { r.ops = append(r.ops, fmt.Sprintf(f, a...)) }

// shape is the configuration/history class that is part of a signature for violations that cannot be
// attributed to the op that just ran.
func (r *run) shape() string {
	s := ""
	if r.f.Huge {
		s += "/units>=2^64"
	}
	if r.f.Epochal {
		switch {
		case r.f.Usable == 0:
			s += "/tiny-pool"
		case r.f.Grace >= 2:
			s += "/grace>=2"
		case r.advances >= 2:
			s += "/advances>=2"
		}
	}
	if r.f.Impl == "pppoe" && r.reasked {
		s += "/reask"
	}
	if r.faulted {
		s += "/store-fail"
	}
	if r.ctxFault {
		s += "/ctx-done"
	}
	return s
}

func (r *run) fail(kind, f string, a ...any) {
	r.ft.Helper()
	sig := "C05/" + r.f.Impl + "/" + kind
	if vstat.Fail(r.ft, sig, "%s\npool: %s\nhistory: %s", fmt.Sprintf(f, a...), r.f.Desc, strings.Join(r.ops, "; ")) {
		r.dead = true
	}
}

func (r *run) live() uint64 { return uint64(len(r.has)) }

// out is the number of units that are neither free nor obtainable without being a leak: live + quarantined.
func (r *run) out() uint64 { return uint64(len(r.has) + len(r.quar)) }

// quarantine records that val was declined: taken out of service.
func (r *run) quarantine(val string) {
	if val == "" || r.quar[val] {
		return
	}
	r.quar[val] = true
	r.quarLog = append(r.quarLog, val)
}

func (r *run) free(s string) {
	if v, ok := r.has[s]; ok {
		delete(r.has, s)
		delete(r.holder, v)
	}
	delete(r.touched, s)
	delete(r.maybe, s)
	delete(r.advSince, s)
}

func (r *run) epoch() uint64 {
	if ep, ok := r.p.(pools.Epocher); ok {
		return ep.Epoch()
	}
	return 0
}

func (r *run) lookup(s string) (string, bool) { return r.p.Lookup(s) }

// handed records that the pool handed val to s.
func (r *run) handed(s, val, how string) {
	if val == "" {
		r.fail("empty-value", "%s(%s) succeeded with an empty value", how, s)
		return
	}
	if err := pools.RangeCheck(r.f.Net, r.f.Unit, val); err != nil {
		r.fail("out-of-range", "%s(%s) -> %s: %v", how, s, val, err)
		return
	}
	if r.quar[val] {
		r.fail("declined-reissued/after-"+how, "%s(%s) -> %s, which was declined earlier (documented: taken out of service, not handed out again)", how, s, val)
		return
	}
	if prev, ok := r.has[s]; ok && prev != val {
		// C01 owns "same value on re-ask"; for C05 the old value must not leak: keep counting with the new one
		r.reasked = true
		delete(r.holder, prev)
		r.orphans = append(r.orphans, prev)
	}
	if o, ok := r.holder[val]; ok && o != s {
		r.fail("held-twice", "%s(%s) -> %s which live subscriber %s holds (usable address held by two)", how, s, val, o)
		return
	}
	if _, ok := r.has[s]; !ok {
		r.advSince[s] = 0
	}
	r.has[s] = val
	r.holder[val] = s
	r.touched[s] = r.epoch()
	delete(r.maybe, s)
}

// afterStep runs the per-step oracle; after is the name of the op that just ran ("new" right after construction).
func (r *run) afterStep(after string) {
	if r.dead {
		return
	}
	// live subscribers keep their values
	for _, s := range subs {
		want, ok := r.has[s]
		if !ok {
			continue
		}
		if got, sup := r.lookup(s); sup && got != want {
			kind := "live-lost"
			if r.advSince[s] > 0 {
				kind = "renewed-lost" // it survived at least one epoch advance by renewing, and is still within grace
			}
			r.fail(kind+r.shape(), "lookup(%s)=%q but it holds %q (not released, lease within grace)", s, got, want)
			return
		}
	}
	r.stateCheck(after)
	if r.dead || !r.opt.checkStats {
		return
	}
	cfg := ""
	if r.f.Epochal && r.f.Usable == 0 {
		cfg = "/tiny-pool"
	} else if r.f.Epochal && r.f.Grace >= 2 {
		cfg = "/grace>=2"
	}
	if st, ok := r.p.(pools.Statser); ok {
		a, t, u, hasU := st.Stats()
		bad := a != r.live()
		// a total is documented as allocated + free: quarantined units are in neither (only dhcp.Pool has both
		// statistics and a quarantine: Total = len(available) + len(allocated))
		wantTotal := r.f.Usable - uint64(len(r.quar))
		if !r.f.Huge && t != wantTotal {
			bad = true
		}
		if hasU && r.f.UtilOf != nil && !r.f.Huge {
			want := r.f.UtilOf(r.live(), r.f.Usable)
			if math.IsNaN(u) || math.IsInf(u, 0) || math.Abs(u-want) > 1e-9 {
				bad = true
			}
		}
		if bad {
			r.fail("stats-mismatch/after-"+after+cfg, "Stats()=(allocated %d, total %d, utilisation %v) but live=%d usable=%d quarantined=%d", a, t, u, r.live(), r.f.Usable, len(r.quar))
			return
		}
		if sx, ok := r.p.(pools.StatsExter); ok && !r.f.Huge {
			av, un, hasUn := sx.StatsExt()
			if av != wantTotal-r.live() || (hasUn && un != uint64(len(r.quar))) {
				r.fail("stats-mismatch/after-"+after+cfg, "Stats()=(available %d, unavailable %d) but usable=%d live=%d quarantined=%d: %d are free", av, un, r.f.Usable, r.live(), len(r.quar), wantTotal-r.live())
				return
			}
		}
		if as, ok := r.p.(pools.AltStatser); ok {
			a2, t2, av2, err := as.AltStats()
			if err != nil || a2 != r.live() || t2 != wantTotal || av2 != wantTotal-r.live() {
				r.fail("alt-stats-mismatch/after-"+after+cfg, "status through the second entry point = (allocated %d, total %d, available %d, err %v) but live=%d usable=%d", a2, t2, av2, err, r.live(), r.f.Usable)
				return
			}
		}
	}
	if sc, ok := r.p.(pools.StoreCounter); ok {
		if n := sc.StoreCount(); uint64(n) != r.live() {
			r.fail("store-count-mismatch/after-"+after+cfg, "allocation store lists %d allocations, live=%d", n, r.live())
			return
		}
	}
	if su, ok := r.p.(pools.StoreUtiler); ok && !r.faulted {
		a, t, totalKnown := su.StoreUtil()
		if uint64(a) != r.live() || (totalKnown && !r.f.Huge && r.f.Usable < 1<<31 && uint64(t) != r.f.Usable) {
			r.fail("store-util-mismatch/after-"+after+cfg, "GetPoolUtilization=(%d,%d) but live=%d usable=%d", a, t, r.live(), r.f.Usable)
			return
		}
	}
}

// stateCheck is conservation on a free-list pool's own tables (copies through the verif accessors): the addresses in
// the allocated table, the free list and quarantine are exactly the set the pool started with, each once; the allocated
// table holds exactly the model's live subscribers with the values they were handed.
func (r *run) stateCheck(after string) {
	sn, ok := r.p.(pools.Snapshotter)
	if !ok || r.dead {
		return
	}
	st := sn.Snapshot()
	if r.base == nil {
		// right after construction: the free list IS the pool's address set; its size is the documented usable count
		r.base = make(map[string]bool, len(st.Available))
		for _, v := range st.Available {
			if r.base[v] {
				r.fail("state-duplicate/after-"+after, "a fresh pool has %s in its free list twice", v)
				return
			}
			r.base[v] = true
		}
		max := r.f.UsableMax
		if max == 0 {
			max = r.f.Usable
		}
		if n := uint64(len(r.base)); n < r.f.Usable || n > max || len(st.Allocated) != 0 {
			r.fail("state-size/after-"+after, "a fresh pool has %d free and %d allocated addresses, documented usable=%d", n, len(st.Allocated), r.f.Usable)
		}
		return
	}
	// the allocated table: exactly the live subscribers
	known := map[string]string{}
	for _, s := range subs {
		k := sn.Key(s)
		known[k] = s
		got, want := st.Allocated[k], r.has[s]
		switch {
		case want != "" && got != want:
			r.fail("table-mismatch/after-"+after, "the pool's table has %q for %s, which was handed %q and never gave it up", got, s, want)
			return
		case want == "" && got != "":
			r.fail("ghost-allocation/after-"+after, "the pool's table still has %s -> %s although that binding ended (counted as allocated, held by nobody)", s, got)
			return
		}
	}
	if len(st.Allocated) != len(r.has) {
		keys := make([]string, 0, len(st.Allocated))
		for k := range st.Allocated {
			if _, ok := known[k]; !ok {
				keys = append(keys, k)
			}
		}
		sort.Strings(keys)
		r.fail("ghost-allocation/after-"+after, "the pool's table has %d entries, %d subscribers are live; entries of nobody: %v", len(st.Allocated), len(r.has), keys)
		return
	}
	// conservation of the address set
	seen := make(map[string]string, len(r.base))
	place := func(v, where string) bool {
		if !r.base[v] {
			r.fail("state-foreign/after-"+after, "%s is %s but was not in the pool when it was created", v, where)
			return false
		}
		if w, dup := seen[v]; dup {
			if w == where {
				where = "there a second time"
			}
			r.fail("state-duplicate/after-"+after, "%s is %s and %s (counted twice)", v, w, where)
			return false
		}
		seen[v] = where
		return true
	}
	for _, s := range subs {
		if v := st.Allocated[sn.Key(s)]; v != "" && !place(v, "allocated to "+s) {
			return
		}
	}
	for _, v := range st.Available {
		if !place(v, "in the free list") {
			return
		}
	}
	for _, v := range r.quarLog {
		if !place(v, "quarantined (declined)") {
			return
		}
	}
	if len(seen) != len(r.base) {
		var lost []string
		for v := range r.base {
			if _, ok := seen[v]; !ok {
				lost = append(lost, v)
			}
		}
		sort.Strings(lost)
		r.fail("leak/after-"+after, "%v: in neither the allocated table nor the free list nor declined: held by nobody and obtainable by nobody (allocated %d + free %d + quarantined %d = %d, pool started with %d)",
			lost, len(st.Allocated), len(st.Available), len(r.quar), len(seen), len(r.base))
		return
	}
	// the implementation's own record of what was taken out of service
	if _, records := r.p.(pools.QuarantineRecorder); records {
		if len(st.Quarantine) != len(r.quar) {
			r.fail("quarantine-mismatch/after-"+after, "the pool records %v as unavailable, declined were %v", st.Quarantine, r.quarLog)
			return
		}
		for _, v := range st.Quarantine {
			if !r.quar[v] {
				r.fail("quarantine-mismatch/after-"+after, "the pool records %s as unavailable, nobody declined it (declined: %v)", v, r.quarLog)
				return
			}
		}
	}
}

// injected: the call failed because the harness made it fail - a refused store call, or the caller's context was done.
func injected(err error) bool {
	return err != nil && (errors.Is(err, pools.ErrInjected) || ctxDone(err))
}

func ctxDone(err error) bool {
	return err != nil && (errors.Is(err, context.Canceled) || errors.Is(err, context.DeadlineExceeded))
}

// fault notes which kind of harness-made failure a history has seen and returns the signature tag for it.
func (r *run) fault(err error) string {
	if ctxDone(err) {
		r.ctxFault = true
		return "/ctx-done"
	}
	r.faulted = true
	return "/store-fail"
}

// callCtx makes one call under the caller's context that op selects (a pure function of the generated op):
// Background (6 of 10), already cancelled, deadline already passed, or cancelled WHILE the call's store write is in
// flight (the write is held back at a gate of the harness store, the context is cancelled, then the write is
// abandoned by a context-honouring store or let through by one that ignores contexts).
func (r *run) callCtx(op pools.Op, s string, call func()) {
	r.ctxTag = ""
	if r.cs == nil {
		call()
		return
	}
	cls := int((op.P >> 4) % 10)
	st, hasStore := r.p.(interface{ Store() *pools.MemStore })
	switch {
	case cls <= 5:
		call()
	case cls == 6 || (cls >= 8 && !hasStore):
		ctx, cancel := context.WithCancel(context.Background())
		cancel()
		r.cs.SetContext(ctx)
		r.ctxTag = "[ctx cancelled]"
		call()
		r.cs.SetContext(nil)
		r.cls["ctx:cancelled"] = true
	case cls == 7:
		ctx, cancel := context.WithDeadline(context.Background(), time.Unix(1, 0))
		r.cs.SetContext(ctx)
		r.ctxTag = "[ctx expired]"
		call()
		r.cs.SetContext(nil)
		cancel()
		r.cls["ctx:expired"] = true
	default:
		g := st.Store().Park("", s, 1)
		ctx, cancel := context.WithCancel(context.Background())
		r.cs.SetContext(ctx)
		r.ctxTag = "[ctx cancelled during the store write]"
		done := make(chan struct{})
		go func() { defer close(done); call() }()
		select {
		case <-g.Arrived():
			cancel()
			if !r.opt.honourCtx {
				g.Open(false) // a store that ignores contexts completes the write
			}
			<-done
			r.cls["ctx:cancelled-during-write"] = true
		case <-done: // the call never reached the store
			cancel()
		}
		g.Disarm()
		r.cs.SetContext(nil)
	}
}

// Pools of up to drainFull usable units are drained completely; on larger pools the probe is capped at
// drainCap allocations, all of which must succeed.
const (
	drainFull = 1100
	drainCap  = 150
)

func (r *run) drain() {
	if r.dead || r.opt.noDrain {
		return
	}
	max := r.f.UsableMax
	if max == 0 {
		max = r.f.Usable
	}
	// quarantined (declined) units are documented as out of service: neither live nor obtainable
	out := r.out()
	want := r.f.Usable - out
	if out > r.f.Usable {
		want = 0
	}
	limit := max - out + 2
	if out > max {
		limit = 2
	}
	capped := false
	if r.f.Huge || limit > drainFull {
		limit, capped = drainCap, true
	}
	got := map[string]string{}
	var n uint64
	short := "exhausted-early"
	for ; n < limit; n++ {
		s := fmt.Sprintf("f%d", n)
		v, err := r.p.Alloc(s)
		if err != nil {
			if !pools.IsExhausted(err) {
				short = "alloc-error" // refused for another reason than "no free unit"
			}
			break
		}
		if err := pools.RangeCheck(r.f.Net, r.f.Unit, v); err != nil {
			r.fail("out-of-range", "drain alloc(%s) -> %s: %v", s, v, err)
			return
		}
		if o, ok := r.holder[v]; ok {
			r.fail("drain-duplicate"+r.shape(), "drain probe: fresh subscriber %s obtained %s which live subscriber %s holds", s, v, o)
			return
		}
		if r.quar[v] {
			r.fail("declined-reissued/drain", "drain probe: fresh subscriber %s obtained %s, which was declined earlier (documented: taken out of service, not handed out again)", s, v)
			return
		}
		if o, ok := got[v]; ok {
			r.fail("drain-duplicate"+r.shape(), "drain probe: fresh subscribers %s and %s both obtained %s", o, s, v)
			return
		}
		got[v] = s
	}
	r.logf("drain=%d", n)
	if !capped || n < limit {
		for _, o := range r.orphans {
			if _, held := r.holder[o]; held {
				continue
			}
			if _, ok := got[o]; !ok {
				r.fail("exhausted-early"+r.shape(), "drain probe: %s, which no live subscriber holds (its holder was moved to another value by a re-ask), was not obtainable by any of %d fresh subscribers", o, n)
				return
			}
		}
	}
	if capped {
		if n < limit {
			r.fail(short+r.shape(), "drain probe: only %d fresh subscribers obtained a value, usable=%d live=%d (at least %d more must be obtainable)", n, r.f.Usable, r.live(), limit)
		}
		return
	}
	if n < want {
		r.fail(short+r.shape(), "drain probe: %d fresh subscribers obtained a value, usable=%d live=%d quarantined=%d: %d usable addresses are neither held nor obtainable", n, r.f.Usable, r.live(), len(r.quar), want-n)
		return
	}
	if n > max-out && out <= max {
		r.fail("drain-long"+r.shape(), "drain probe: %d fresh subscribers obtained a value but only %d-%d-%d=%d units exist that are neither held nor declined", n, max, r.live(), len(r.quar), max-out)
	}
}

// runHistory executes ops on a fresh instance of f.
func newRun(ft fataler, f pools.Factory, opt runOpt) *run {
	r := &run{f: f, ft: ft, opt: opt, has: map[string]string{}, holder: map[string]string{}, touched: map[string]uint64{},
		maybe: map[string]uint64{}, ambig: map[string]string{}, advSince: map[string]int{}, cls: map[string]bool{}, quar: map[string]bool{}}
	r.p = f.New(opt.failAt)
	r.logf("new %s", f.Desc)
	r.afterStep("new")
	return r
}

func runHistory(ft fataler, f pools.Factory, ops []pools.Op, opt runOpt) result {
	r := newRun(ft, f, opt)
	defer r.p.Close()
	if opt.ctx {
		r.cs, _ = r.p.(pools.CtxSetter)
		if st, ok := r.p.(interface{ Store() *pools.MemStore }); ok {
			st.Store().HonourContext(opt.honourCtx)
		}
	}
	ep, _ := r.p.(pools.Epocher)
	alt, _ := r.p.(pools.AltEntry)
	maxAdvSinceAlloc := 0 // epoch advances that followed the first successful allocation
	allocated := false
	for _, op := range ops {
		if r.dead {
			break
		}
		s := subs[op.S%len(subs)]
		if (op.K == pools.OpRelease || op.K == pools.OpRenew || op.K == pools.OpReleaseAlt || op.K == pools.OpDecline) && op.V%4 != 0 {
			var holders []string
			for _, x := range subs {
				if _, ok := r.has[x]; ok {
					holders = append(holders, x)
				}
			}
			if len(holders) > 0 {
				s = holders[op.S%len(holders)]
			}
		}
		name := op.K.String()
		switch op.K {
		case pools.OpAlloc, pools.OpAllocAlt:
			held, holds := r.has[s]
			if holds && f.Impl == "pppoe" && vstat.IsListed("C05/pppoe/drain-short/reask") && op.V%8 != 0 {
				continue // steer around the listed re-ask leak in 7 of 8 re-asks
			}
			var v string
			var err error
			if op.K == pools.OpAllocAlt {
				// the same request through the implementation's second entry point (pools.AltEntry)
				if alt == nil {
					continue
				}
				r.callCtx(op, s, func() { v, err = alt.AllocAlt(s) })
			} else {
				r.callCtx(op, s, func() { v, err = r.p.Alloc(s) })
			}
			r.logf("%s(%s)%s=%s,%s", name, s, r.ctxTag, v, okerr(err))
			if err != nil {
				if injected(err) {
					tag := r.fault(err)
					if holds {
						if got, sup := r.lookup(s); sup && got != held {
							r.fail("reask-lost"+tag+viaAlt(op.K), "alloc(%s) re-ask failed to persist and the pre-existing assignment %s was taken away (lookup=%q) although it was never released", s, held, got)
						}
						r.maybe[s] = r.epoch() // a re-ask renews the lease; whether this one did is resolved by observation
					} else if got, sup := r.lookup(s); sup && got != "" {
						r.fail("failed-alloc-live"+tag+viaAlt(op.K), "alloc(%s) failed (%v) but the pool still reports %q for it", s, err, got)
					}
					break
				}
				if holds {
					// a refused re-ask on a FULL pool is C01's concern (same value on re-ask), not a leak or miscount
					if !(pools.IsExhausted(err) && r.out() >= f.Usable) {
						r.fail("reask-failed"+r.shape()+viaAlt(op.K), "%s(%s) failed (%v) although it holds %s and live=%d < usable=%d", name, s, err, held, r.live(), f.Usable)
					}
				} else if r.out() < f.Usable {
					kind := "exhausted-early"
					if !pools.IsExhausted(err) {
						kind = "alloc-error"
					}
					r.fail(kind+r.shape()+viaAlt(op.K), "%s(%s) failed (%v) with live=%d quarantined=%d < usable=%d: a usable address is neither held nor obtainable", name, s, err, r.live(), len(r.quar), f.Usable)
				}
				break
			}
			if holds {
				r.cls["reask"] = true
			}
			if op.K == pools.OpAllocAlt {
				r.cls["alloc-alt"] = true
				r.secondary = true
			}
			allocated = true
			r.handed(s, v, name)
		case pools.OpRelease, pools.OpReleaseAlt:
			held, holds := r.has[s]
			var err error
			if op.K == pools.OpReleaseAlt {
				if alt == nil {
					continue
				}
				r.callCtx(op, s, func() { err = alt.ReleaseAlt(s) })
				if holds {
					r.cls["release-alt"] = true
					r.secondary = true
				}
			} else {
				r.callCtx(op, s, func() { err = r.p.Release(s) })
			}
			r.logf("%s(%s)%s=%s", name, s, r.ctxTag, okerr(err))
			if err != nil {
				if injected(err) {
					r.fault(err)
					if holds {
						if got, sup := r.lookup(s); sup && got == held {
							break // the release did not happen: still live
						}
						// released in memory, but the store may still record it: either outcome is acceptable,
						// the pool just has to stay consistent; a restart from the store may bring it back
						r.ambig[s] = held
						r.free(s)
					}
					break
				}
				if holds {
					r.fail("release-failed"+r.shape()+viaAlt(op.K), "%s(%s) failed (%v) although it holds %s", name, s, err, held)
				}
				break
			}
			r.free(s)
		case pools.OpRenew:
			rn, ok := r.p.(pools.Renewer)
			if !ok {
				continue
			}
			var err error
			r.callCtx(op, s, func() { err = rn.Renew(s) })
			r.logf("renew(%s)%s=%s", s, r.ctxTag, okerr(err))
			if _, holds := r.has[s]; holds {
				if err != nil {
					if injected(err) {
						r.fault(err)
						r.maybe[s] = r.epoch()
						break
					}
					r.fail("renew-failed"+r.shape(), "renew(%s) failed (%v) although it is live within grace", s, err)
					break
				}
				r.touched[s] = r.epoch()
				delete(r.maybe, s)
			}
		case pools.OpAdvance:
			if ep == nil {
				continue
			}
			e := ep.Advance()
			r.advances++
			r.logf("advance->%d", e)
			if allocated {
				maxAdvSinceAlloc++
			}
			for _, x := range subs {
				at, ok := r.touched[x]
				if !ok {
					continue
				}
				r.advSince[x]++
				if e-at > f.Grace {
					if mb, amb := r.maybe[x]; amb && e-mb <= f.Grace {
						if got, sup := r.lookup(x); sup && got == r.has[x] {
							r.touched[x] = mb // the renewal whose persistence failed did take effect
							delete(r.maybe, x)
							continue
						}
					}
					r.free(x) // lease lapsed without renewal
				}
			}
		case pools.OpReload:
			rl, ok := r.p.(pools.Reloader)
			if !ok || r.conflicted {
				continue
			}
			if err := rl.Reload(op.P); err != nil {
				r.logf("reload=err")
				continue
			}
			r.logf("reload(perm=%x)", op.P)
			r.cls["reload"] = true
			for _, x := range subs {
				if v, amb := r.ambig[x]; amb {
					if _, holds := r.has[x]; holds {
						delete(r.ambig, x) // it asked again since: a fresh record replaced the stale one
						continue
					}
					if _, taken := r.holder[v]; taken {
						continue // the stale record lost against the live holder's record; it is still in the store
					}
					if got, sup := r.lookup(x); sup && got == v {
						delete(r.ambig, x)
						r.handed(x, v, "reload-restored") // the release never reached the store: the record still stands
					}
				}
			}
		case pools.OpReleaseValue:
			vr, ok := r.p.(pools.ValueReleaser)
			if !ok {
				continue
			}
			v := r.pickVal(op)
			err := vr.ReleaseValue(v)
			r.logf("releaseValue(%s)=%s", v, okerr(err))
			if err == nil {
				if o, held := r.holder[v]; held {
					r.free(o)
				}
			} else if o, held := r.holder[v]; held {
				r.fail("release-failed", "releaseValue(%s) failed (%v) although %s holds it", v, err, o)
			}
		case pools.OpAllocSpecific:
			sp, ok := r.p.(pools.Specific)
			if !ok {
				continue
			}
			v := r.pickVal(op)
			err := sp.AllocSpecific(s, v)
			r.logf("allocSpecific(%s,%s)=%s", s, v, okerr(err))
			if err == nil {
				r.handed(s, v, "allocSpecific")
			}
		case pools.OpSetAlloc, pools.OpRemoteSet:
			if r.f.Usable == 0 {
				continue // no allocatable value a record could name
			}
			v := r.pickVal(op)
			if op.P%2 == 0 {
				// half of the record ops re-apply the identical record of a current holder (by construction)
				for i := range subs {
					x := subs[(op.S+i)%len(subs)]
					if hv, ok := r.has[x]; ok {
						s, v = x, hv
						break
					}
				}
			}
			conflict := false
			if op.P%4 == 1 {
				// a CONFLICTING record (two partitioned nodes, a stale store entry): it names a value that a different
				// live subscriber holds. Three of four such records are for a subscriber that holds a value of its own.
				if cs, co := r.pickConflict(op); co != "" {
					s, v, conflict = cs, r.has[co], true
				}
			}
			if o, held := r.holder[v]; held && o != s && !conflict {
				s = o // otherwise a record for a held value is its holder's record: re-applied identical record
			}
			identical := r.has[s] == v
			var callErr error
			if op.K == pools.OpSetAlloc {
				sa, ok := r.p.(pools.SetAllocer)
				if !ok {
					continue
				}
				callErr = sa.SetAllocation(s, v)
				r.logf("setAllocation(%s,%s)=%s", s, v, okerr(callErr))
				if callErr != nil && !conflict {
					r.fail("set-allocation-failed", "SetAllocation(%s,%s) failed (%v) although nobody else holds the value", s, v, callErr)
					break
				}
			} else {
				rm, ok := r.p.(pools.Remote)
				if !ok {
					continue
				}
				rm.RemoteSet(s, v)
				r.logf("remoteSet(%s,%s)", s, v)
				r.cls["remote"] = true
			}
			if conflict {
				// either applied consistently (the record displaces the other holder) or refused with NO change;
				// decided by what the implementation itself reports for the two subscribers, then the ordinary
				// per-step oracle (Stats, tables, later the drain probe) runs against the outcome
				o := r.holder[v]
				prev := r.has[s]
				gs, _ := r.lookup(s)
				gotO, _ := r.lookup(o)
				r.cls["conflicting-record"] = true
				if prev != "" {
					r.cls["conflicting-record/subject-holds-other"] = true
				}
				r.secondary = true
				if op.K == pools.OpRemoteSet {
					r.conflicted = true // the shared store now holds two records for one value: what a restart makes of it is C12's concern
				}
				switch {
				case gs == prev && gotO == v:
					r.logf("(conflicting record refused)")
				case gs == v && gotO == "" && callErr == nil:
					r.logf("(conflicting record applied: %s displaced)", o)
					r.free(o)
					if prev != "" {
						r.free(s)
					}
					r.handed(s, v, name)
				default:
					r.fail("conflicting-record-half-applied/after-"+name, "record %s -> %s conflicts with live holder %s (result: %s): afterwards lookup(%s)=%q (before: %q), lookup(%s)=%q - neither refused without change nor applied consistently",
						s, v, o, okerr(callErr), s, gs, prev, o, gotO)
				}
				break
			}
			if identical {
				r.reapplied = true
				r.cls["reapplied-identical"] = true
				if op.K == pools.OpSetAlloc && r.f.Epochal {
					// EpochBitmapAllocator.SetAllocation "records that subscriberID holds ip, at the current epoch":
					// applied directly, the same record again restarts the lease (through handleRemoteChange it is
					// dropped as "already in sync" and changes nothing)
					r.touched[s] = r.epoch()
				}
				break // same record again: nothing else changes
			}
			if old, had := r.has[s]; had {
				delete(r.holder, old) // the authoritative record moved s
				delete(r.has, s)
			}
			r.handed(s, v, name)
		case pools.OpRemoteDel:
			rm, ok := r.p.(pools.Remote)
			if !ok {
				continue
			}
			rm.RemoteDelete(s)
			r.logf("remoteDel(%s)", s)
			r.cls["remote"] = true
			r.free(s)
		case pools.OpDecline:
			d, ok := r.p.(pools.Decliner)
			if !ok {
				continue
			}
			held, holds := r.has[s]
			d.Decline(s)
			r.logf("decline(%s) [%s]", s, held)
			if holds {
				// the binding ends; the value is taken out of service (documented), not handed to anybody again
				r.quarantine(held)
				r.cls["decline"] = true
				r.secondary = true
			}
			r.free(s)
		default:
			continue
		}
		r.afterStep(name)
		if len(r.orphans) > 0 {
			break // a re-ask changed the value (C01's finding): decide its C05 consequence (leak) by the drain now
		}
		if r.conflicted {
			// the shared store now carries the peer's record for the subject next to the other holder's: the node may
			// legitimately adopt it later (a renewal re-saves and echoes it once the value is free). What has to hold
			// for C05 was decided at the step itself; the history ends here and the drain probe runs.
			break
		}
	}
	return r.finish(maxAdvSinceAlloc)
}

// finish runs the drain probe and classifies the case.
func (r *run) finish(maxAdvSinceAlloc int) result {
	f, opt := r.f, r.opt
	res := result{advances: r.advances}
	if fp, ok := r.p.(pools.Faulty); ok {
		res.storeCalls = fp.StoreCalls() // store calls made by the history itself (the drain probe comes after)
		res.failedCall = fp.LastFailedCall()
	}
	r.drain()
	res.ops, res.dead = r.ops, r.dead
	cls := []string{"impl:" + f.Impl, "geom:" + f.Class}
	if f.Epochal {
		cls = append(cls, fmt.Sprintf("grace:%d", f.Grace))
	}
	if maxAdvSinceAlloc >= 3 {
		cls = append(cls, "nt:advances>=3-after-alloc")
		res.nt = true
	}
	if r.reapplied {
		cls = append(cls, "nt:reapplied-record")
		res.nt = true
	}
	if r.advances >= 5 {
		cls = append(cls, "advances>=5(beyond-2bit-wrap)")
	}
	if r.secondary {
		cls = append(cls, "nt:secondary-mutator", "nt:secondary-mutator/"+f.Impl)
		res.nt = true
	}
	if len(r.quar) > 0 {
		cls = append(cls, "has:quarantined/"+f.Impl)
	}
	for _, c := range []string{"reask", "reload"} {
		if r.cls[c] {
			cls = append(cls, "has:"+c)
		}
	}
	for _, c := range []string{"ctx:cancelled", "ctx:expired", "ctx:cancelled-during-write"} {
		if r.cls[c] {
			cls = append(cls, "has:"+c+"@"+f.Impl)
		}
	}
	if r.ctxFault {
		cls = append(cls, "has:ctx-error@"+f.Impl)
	}
	for _, c := range []string{"conflicting-record", "conflicting-record/subject-holds-other"} {
		if r.cls[c] {
			cls = append(cls, "has:"+c, "has:"+c+"@"+f.Impl)
		}
	}
	for _, c := range []string{"alloc-alt", "release-alt", "decline", "remote"} {
		if r.cls[c] {
			cls = append(cls, "has:"+c+"/"+f.Impl)
		}
	}
	if opt.checkStats {
		cls = append(cls, "stats:checked")
	} else {
		cls = append(cls, "stats:unchecked")
	}
	res.classes = cls
	return res
}

// viaAlt is the signature suffix of a violation caused by a call through the second entry point.
func viaAlt(k pools.Kind) string {
	if k == pools.OpAllocAlt || k == pools.OpReleaseAlt {
		return "/via-alt-entry"
	}
	return ""
}

// pickConflict chooses (subject, other): other is a live holder, subject a different subscriber - in three of four
// cases one that holds a value of its own. Subscribers whose state is ambiguous after an injected store failure are left alone.
func (r *run) pickConflict(op pools.Op) (subject, other string) {
	clean := func(x string) bool {
		_, a := r.ambig[x]
		_, m := r.maybe[x]
		return !a && !m
	}
	var holders []string
	for _, x := range subs {
		if _, ok := r.has[x]; ok && clean(x) {
			holders = append(holders, x)
		}
	}
	if len(holders) == 0 {
		return "", ""
	}
	other = holders[op.V%len(holders)]
	var cand []string
	for _, x := range subs {
		if x == other || !clean(x) {
			continue
		}
		if _, holds := r.has[x]; holds || (op.P>>2)%4 == 0 {
			cand = append(cand, x)
		}
	}
	if len(cand) == 0 {
		for _, x := range subs {
			if x != other && clean(x) {
				cand = append(cand, x)
			}
		}
	}
	if len(cand) == 0 {
		return "", ""
	}
	return cand[op.S%len(cand)], other
}

// pickVal selects a value for value-targeted ops: small unit indices of the pool.
func (r *run) pickVal(op pools.Op) string {
	ix := r.p.(pools.Indexer)
	lo, span := 0, uint64(10)
	if r.f.Epochal {
		lo = 1
	}
	if r.f.Usable < span {
		span = r.f.Usable
	}
	if span == 0 {
		span = 1
	}
	return ix.ValueAt(lo + op.V%int(span))
}

func okerr(err error) string {
	if err == nil {
		return "ok"
	}
	if injected(err) {
		return "injected-err"
	}
	return "err"
}

func record(f pools.Factory, res result, extra ...string) {
	ops := res.ops
	vstat.Case(res.nt, vstat.Hash(f.Impl, strings.Join(ops, ";")), func() any {
		return map[string]any{"impl": f.Impl, "ops": ops}
	}, append(res.classes, extra...)...)
}
