package c05

// Store-failure schedule (fault enumeration): every generated history is first run against a counting
// store to learn the number N of store calls it makes, then re-run N times with call k = 1..N failing.
// That is a complete enumeration of single store faults for that history.

import (
	"fmt"
	"testing"
	"testing/synctest"

	"pgregory.net/rapid"

	"bngverif/internal/pools"
	"bngverif/internal/vstat"
)

const maxFaultRuns = 40

// faultSchedule runs the dry run and the N fault runs; exec runs one history (inside a bubble if needed).
func faultSchedule(rt *rapid.T, exec func(failAt int) (pools.Factory, result, string)) {
	f, dry, msg := exec(0)
	if msg != "" {
		rt.Fatalf("%s", msg)
	}
	record(f, dry, "fault:dry-run")
	if dry.dead {
		return // a listed finding fired without any fault: nothing to enumerate on top of it
	}
	n := dry.storeCalls
	extra := []string{}
	if n > maxFaultRuns {
		n = maxFaultRuns
		extra = append(extra, "fault:truncated")
	}
	for k := 1; k <= n; k++ {
		f, res, msg := exec(k)
		if msg != "" {
			rt.Fatalf("%s", msg)
		}
		cls := append([]string{"fault:injected"}, extra...)
		if res.failedCall != "" {
			cls = append(cls, "fault:"+res.failedCall)
			switch res.failedCall {
			case "put", "delete", "save", "remove":
				res.nt = true // the failing call is a write that follows an in-memory mutation
				cls = append(cls, "nt:fault-after-mutation")
			}
		}
		res.ops = append(res.ops, fmt.Sprintf("failAt=%d", k))
		record(f, res, cls...)
	}
}

func TestPropFaultDistSession(t *testing.T) {
	vstat.Checks(200, 4000)
	kinds := []pools.Kind{pools.OpAlloc, pools.OpRelease, pools.OpReload, pools.OpAllocAlt}
	rapid.Check(t, func(rt *rapid.T) {
		g := pools.GenGeom(true, false).Draw(rt, "geometry")
		ops := pools.GenOps(kinds, []int{5, 4, 1, 4}, len(subs), 1, 14).Draw(rt, "ops")
		faultSchedule(rt, func(failAt int) (pools.Factory, result, string) {
			f := pools.DistFactory(g.CIDR, g.Unit, false, 0, false, g.Class, nil)
			return f, runHistory(rt, f, ops, runOpt{checkStats: true, failAt: failAt}), ""
		})
	})
}

func TestPropFaultDistLease(t *testing.T) {
	vstat.Checks(700, 10000)
	kinds := []pools.Kind{pools.OpAlloc, pools.OpRelease, pools.OpRenew, pools.OpAdvance, pools.OpAllocAlt}
	rapid.Check(t, func(rt *rapid.T) {
		cidr := pools.GenEpochNet(false).Draw(rt, "net")
		w := []int{5, 3, 4, 3, 4}
		if vstat.IsListed("C05/dist-lease/stats-mismatch/after-advance") {
			w[3] = 1 // every history with a 2nd advance ends at the listed ghost-slot finding
		}
		ops := pools.GenOps(kinds, w, len(subs), 1, 14).Draw(rt, "ops")
		faultSchedule(rt, func(failAt int) (pools.Factory, result, string) {
			var f pools.Factory
			var res result
			msg := inBubble(t, func(ft fataler) {
				// echo=false: the store does not call the writer's own watch back
				f = pools.DistFactory(cidr, 32, true, 1, false, "lease", synctest.Wait)
				res = runHistory(ft, f, ops, runOpt{checkStats: true, failAt: failAt})
			})
			return f, res, msg
		})
	})
}

func TestPropFaultPoolAlloc(t *testing.T) {
	vstat.Checks(300, 6000)
	rapid.Check(t, func(rt *rapid.T) {
		g := pools.GenGeom(true, false).Draw(rt, "geometry")
		ops := pools.GenOps(altKinds, []int{3, 3, 3}, len(subs), 1, 14).Draw(rt, "ops")
		faultSchedule(rt, func(failAt int) (pools.Factory, result, string) {
			f := pools.PoolAllocFactory(g.CIDR, g.Unit, g.Class, true)
			return f, runHistory(rt, f, ops, runOpt{checkStats: true, failAt: failAt}), ""
		})
	})
}
