package c05

// dhcp.Pool under the DHCPv4 server's full call discipline (pools.D4Server: Allocate / Claim / Reassign / Release /
// Decline / ReleaseClient, each under the precondition the calling handler of pkg/dhcp/server.go establishes), judged
// by C05's oracle after every step:
//   - Stats() == (Allocated = live, Available = usable-live-quarantined, Total = Allocated+Available, Unavailable = quarantined),
//   - conservation on the pool's own tables: allocated + free + unavailable is exactly the address set the pool
//     started with, each address once; the allocated table holds exactly the live clients,
//   - DISCOVER is refused for a new client only when live + quarantined == usable,
//   - at the end the drain probe obtains exactly usable - live - quarantined distinct addresses, none of them
//     live or declined.
// A client is "live" while it holds an address it was handed (offer or lease) and has not given up; a DECLINE
// quarantines the address (documented: dropped without returning it to the available list, marked unavailable).

import (
	"testing"

	"github.com/codelaboratoryltd/bng/pkg/dhcp"
	"pgregory.net/rapid"

	"bngverif/internal/pools"
	"bngverif/internal/vstat"
)

// d4Obs adapts the C05 run to pools.D4Observer.
type d4Obs struct{ r *run }

func (o d4Obs) Handed(sub, val, op string) {
	if !o.r.dead {
		o.r.handed(sub, val, op)
	}
}
func (o d4Obs) Freed(sub, op string) { o.r.free(sub) }
func (o d4Obs) Quarantined(sub, val, op string) {
	o.r.quarantine(val)
	o.r.free(sub)
	o.r.secondary = true
}
func (o d4Obs) Refused(sub string, err error, op string) {
	r := o.r
	if r.dead {
		return
	}
	if held, holds := r.has[sub]; holds {
		r.fail("reask-failed/after-"+op, "Allocate(%s) failed (%v) although it holds %s", sub, err, held)
		return
	}
	if r.out() < r.f.Usable {
		kind := "exhausted-early"
		if !pools.IsExhausted(err) {
			kind = "alloc-error"
		}
		r.fail(kind+"/after-"+op, "Allocate(%s) failed (%v) with live=%d quarantined=%d < usable=%d: a usable address is neither held nor obtainable",
			sub, err, r.live(), len(r.quar), r.f.Usable)
	}
}
func (o d4Obs) Inconsistent(kind, op, format string, args ...any) {
	if !o.r.dead {
		o.r.fail(kind+"/after-"+op, format, args...)
	}
}
func (o d4Obs) Logf(format string, args ...any) { o.r.logf(format, args...) }
func (o d4Obs) Step(op string) bool {
	o.r.afterStep(op)
	return !o.r.dead
}

// d4History runs one server-discipline history on a fresh pool of cfg.
func d4History(ft fataler, cfg pools.DHCP4Cfg, ops []pools.D4Op) (pools.Factory, result, []string) {
	f := pools.DHCP4Factory(cfg.CIDR, cfg.Gateway, cfg.ReservedStart, cfg.ReservedEnd, cfg.Class)
	f.Impl = "dhcp4" // same implementation, same signatures as the generic machine
	r := newRun(ft, f, runOpt{checkStats: true})
	defer r.p.Close()
	srv := pools.NewD4Server(r.p.(interface{ Raw() *dhcp.Pool }).Raw(), cfg, subs)
	if !r.dead {
		srv.Run(ops, d4Obs{r})
	}
	for _, c := range []string{"claim-granted", "reassign", "give-up-offer"} {
		if srv.Cls[c] {
			r.secondary = true
		}
	}
	return f, r.finish(0), srv.Classes()
}

// TestPropDHCP4Server: leaks and miscounts of dhcp.Pool through every mutator the DHCPv4 server calls.
func TestPropDHCP4Server(t *testing.T) {
	vstat.Checks(3000, 60000)
	rapid.Check(t, func(rt *rapid.T) {
		cfg := pools.GenDHCP4Server().Draw(rt, "cfg")
		ops := pools.GenD4Ops(len(subs), 3, 48).Draw(rt, "ops")
		f, res, cls := d4History(rt, cfg, ops)
		record(f, res, append(cls, "machine:dhcp4-server")...)
	})
}
