package c08

// The oracle: the five clauses of the C08 statement, decided from the
// server-side record stream, the calls the harness made, and the persistence
// directory as found at every restart.  Nothing here looks at the manager's
// internal tables.

import (
	"fmt"
	"net"
	"strings"
)

type violation struct{ sig, msg string }

func fmtMAC(m []byte) string {
	return fmt.Sprintf("%02X-%02X-%02X-%02X-%02X-%02X", m[0], m[1], m[2], m[3], m[4], m[5])
}

func evaluate(h *history, o *outcome) []violation {
	var vs []violation
	seen := map[string]bool{}
	add := func(sig, f string, a ...any) {
		if seen[sig] {
			return
		}
		seen[sig] = true
		vs = append(vs, violation{sig, fmt.Sprintf(f, a...)})
	}
	byID := map[string]int{}
	for i, s := range h.Sess {
		byID[s.ID] = i
	}
	snapFor := func(epoch int) *dirSnap {
		for i := range o.snaps {
			if o.snaps[i].Epoch == epoch {
				return &o.snaps[i]
			}
		}
		return nil
	}
	firstAckStart := map[string]int{}
	firstAckStop := map[string]rec{}
	failedStartSeen := map[string]bool{}
	earlyStop := map[string]rec{} // first accepted Stop that had no accepted Start before it
	dupDone := map[string]bool{}

	for _, e := range o.log {
		i, ok := byID[e.SID]
		if !ok {
			add("C08/record/unknown-session-id", "%v carries Acct-Session-Id %q which belongs to no session", e, e.SID)
			continue
		}
		sp, st := h.Sess[i], o.sess[i]
		// (4) the session's own identifiers, on every record
		if e.User != sp.User {
			add("C08/record/identity/user-name", "%v User-Name=%q, session has %q", e, e.User, sp.User)
		}
		if want := fmtMAC(sp.MAC); e.Calling != want {
			add("C08/record/identity/calling-station-id", "%v Calling-Station-Id=%q, session has %q", e, e.Calling, want)
		}
		if want := net.IP(sp.IP).String(); e.IP != want {
			add("C08/record/identity/framed-ip-address", "%v Framed-IP-Address=%s, session has %s", e, e.IP, want)
		}
		wantClass := "-"
		if sp.Class != nil {
			wantClass = fmt.Sprintf("%x", sp.Class)
		}
		if e.Class != wantClass {
			add("C08/record/identity/class", "%v Class=%s, session has %s", e, e.Class, wantClass)
		}
		// (5) low word + gigawords*2^32 is a value the session's 64-bit counter actually had
		if e.Type == tStop || e.Type == tInterim {
			inOK, outOK := false, false
			for _, c := range st.counters {
				if c.seq <= e.Seq {
					inOK = inOK || c.in == e.In
					outOK = outOK || c.out == e.Out
				}
			}
			if !inOK {
				add("C08/record/counter/input", "%v reports input octets %#x (low+giga<<32); the session's counter was never that (values: %s)", e, e.In, ctrs(st, true))
			}
			if !outOK {
				add("C08/record/counter/output", "%v reports output octets %#x (low+giga<<32); the session's counter was never that (values: %s)", e, e.Out, ctrs(st, false))
			}
		}
		switch e.Type {
		case tStart:
			if e.Accepted {
				if _, ok := firstAckStart[e.SID]; !ok {
					firstAckStart[e.SID] = e.Seq
				}
			} else {
				failedStartSeen[e.SID] = true
			}
		case tStop:
			// (2) absent a crash, an acknowledged Stop is never sent again
			if fa, ok := firstAckStop[e.SID]; ok && e.Crashes == 0 && !dupDone[e.SID] {
				dupDone[e.SID] = true
				// shape: who sent the later copy, and was the earlier one still in flight (latency_test.go)
				sig := "C08/dup-stop/live/" + dupShape(fa, e)
				if e.Epoch != fa.Epoch {
					// re-sent by a later incarnation after a graceful stop + restart
					left := "no-session-file"
					if sn := snapFor(st.endEpoch + 1); sn != nil && sn.SessionFiles[e.SID] {
						left = "session-file-left"
					}
					sig = "C08/dup-stop/after-graceful-restart/" + st.ended + "/" + left
				}
				add(sig, "Stop for %s was acknowledged (%v) and, without any crash, sent again (%v)", e.SID, fa, e)
			}
			if e.Accepted {
				// (1) only for started sessions, never before the Start
				if !st.startCalled || e.Seq < st.startSeq {
					add("C08/stop-unstarted", "%v accepted although start(%s) had not been called", e, e.SID)
				} else if _, ok := firstAckStart[e.SID]; !ok {
					if _, dup := earlyStop[e.SID]; !dup {
						earlyStop[e.SID] = e
					}
				}
				if _, ok := firstAckStop[e.SID]; !ok {
					firstAckStop[e.SID] = e
				}
			}
		}
	}
	// (1) a Stop was accepted although no Start of the session had been accepted before it.  The shape is
	// decided from the record stream, the sends and the per-incarnation crash counts (never from "some crash happened
	// somewhere in the run"):
	//   failed       a Start of the session was rejected / lost before the Stop, i.e. it went to the retry queue
	//   crashBetween a crash lies between the last such failed Start and the Stop (the queue of that incarnation is gone)
	//   crashAfter   a crash lies after the Stop
	// Listed shapes on the pinned tree, each kept for exactly its recorded root cause:
	//   stop-before-start/start-failed-earlier (KF-C08-4): the Stop was accepted while the failed Start was still
	//     waiting for its retry — the Start is accepted later, or a crash after the Stop took the queue with it.
	//   stop-without-start/after-crash (KF-C08-5): the failed Start lived in the volatile retry queue, a crash
	//     between it and the Stop lost it, a restarted instance sent the Stop, no Start is ever accepted.
	for _, sp := range h.Sess { // deterministic order
		e, ok := earlyStop[sp.ID]
		if !ok {
			continue
		}
		at, hasLater := firstAckStart[sp.ID]
		// crash counts are those of the sending incarnation (crashes that had happened when it started): a
		// request that reaches the server between a crash marker firing and the restart still belongs to
		// the incarnation that sent it
		failed, cF := lastFailedStart(o, sp.ID, e)
		cStop := o.crashesAtEpoch(e.Epoch)
		crashBetween := failed && cStop > cF
		crashAfter := o.crashes > cStop
		switch {
		case hasLater && !failed:
			add("C08/stop-before-start/start-not-attempted", "%v was accepted before the session's Start (first accepted at #%d); no Start had failed before it", e, at)
		case hasLater:
			add("C08/stop-before-start/start-failed-earlier", "%v was accepted before the session's Start (first accepted at #%d), which had failed earlier and was waiting for its retry", e, at)
		case !failed:
			how := "no-crash"
			if o.crashed {
				how = "start-never-attempted"
			}
			add("C08/stop-without-start/"+how, "%v was accepted but no Start for %s was ever accepted, nor had one failed before the Stop", e, sp.ID)
		case crashBetween:
			how := "after-crash"
			if sn := snapFor(e.Epoch); sn != nil && sn.PendingAny[planKey(sp.ID, tStart)] && !crashAfter {
				// the failed Start was in pending.json when the incarnation that sent the Stop started, and no
				// later crash can have lost it: it was durable and still never delivered
				how = "durable-start-never-sent"
			}
			add("C08/stop-without-start/"+how, "%v was accepted but no Start for %s was ever accepted: the Start had failed (%d crashes before), a crash followed, a restarted instance sent the Stop", e, sp.ID, cF)
		case crashAfter:
			add("C08/stop-before-start/start-failed-earlier", "%v was accepted while the session's failed Start was still waiting for its retry; a later crash then lost the queued Start, so none was ever accepted", e)
		default:
			how := "no-crash"
			if o.crashed {
				how = "queued-start-never-delivered"
			}
			add("C08/stop-without-start/"+how, "%v was accepted but no Start for %s was ever accepted although it had failed earlier (queued for retry) and no crash happened after that", e, sp.ID)
		}
	}
	// (3) every started session that was stopped, drained or orphaned has an accepted Stop
	// once the server is up and the back-off horizon has passed
	for i, sp := range h.Sess {
		st := o.sess[i]
		if !st.startCalled || st.ended == "" {
			continue
		}
		if !(st.startReturned || hasAccepted(o.log, sp.ID, tStart)) {
			continue // accounting never started: StartSession did not return and the server saw no Start
		}
		if _, ok := firstAckStop[sp.ID]; ok {
			continue
		}
		class := st.lostClass
		if class == "" {
			class = "no-crash"
			if o.crashed {
				class = "durable-at-crash-but-never-sent"
			}
		}
		add("C08/stop-lost/"+class, "session %s (%s in epoch %d) never got an accepted Stop although the server came up and %ds passed; at the end on disk: %s",
			sp.ID, st.ended, st.endEpoch, h.Cfg.horizon(), endDisk(o, sp.ID))
	}
	return vs
}

// lastFailedStart: did a Start of the session fail before Stop record `stop` arrived — it was answered "down",
// or it was lost on the way (latency >= client timeout, or the process died while it travelled: the server never
// saw it) — and how many crashes had happened when the last such attempt was made.
func lastFailedStart(o *outcome, sid string, stop rec) (found bool, crashes int) {
	note := func(c int) {
		if !found || c > crashes {
			crashes = c
		}
		found = true
	}
	for _, e := range o.log {
		if e.Seq < stop.Seq && e.SID == sid && e.Type == tStart && !e.Accepted {
			note(o.crashesAtEpoch(e.Epoch))
		}
	}
	for _, sr := range o.sends {
		// "*": the tree under test has no crash markers, the sending session is unknown — counted for every
		// session (errs towards the listed shapes, never towards a new signature)
		if (sr.SID == sid || sr.SID == "*") && sr.Site == "start" && sr.Lost && (stop.Send == nil || sr.End <= stop.Send.End) {
			note(o.crashesAtEpoch(sr.Epoch))
		}
	}
	return found, crashes
}

// crashesAtEpoch: how many crashes had happened when incarnation `epoch` of the manager started.
func (o *outcome) crashesAtEpoch(epoch int) int {
	if epoch >= 0 && epoch < len(o.epochCrashes) {
		return o.epochCrashes[epoch]
	}
	return o.crashes
}

func ctrs(st *sessState, in bool) string {
	var s []string
	for _, c := range st.counters {
		if in {
			s = append(s, fmt.Sprintf("%#x", c.in))
		} else {
			s = append(s, fmt.Sprintf("%#x", c.out))
		}
	}
	return strings.Join(s, ",")
}

func endDisk(o *outcome, sid string) string {
	if len(o.snaps) == 0 {
		return "?"
	}
	sn := o.snaps[len(o.snaps)-1]
	return fmt.Sprintf("session-file=%v pending-stop=%v", sn.SessionFiles[sid], sn.PendingStops[sid])
}

func logString(o *outcome) string {
	var b strings.Builder
	for _, e := range o.log {
		b.WriteString(e.String())
		b.WriteString(" ")
	}
	return b.String()
}
