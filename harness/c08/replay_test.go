package c08

// Minimal reproductions of the confirmed defects.  Each asserts through the
// same signature as the generated tier: silent while the finding is listed in
// known_findings.json, failing again if a fix is applied and later reverted.

import (
	"fmt"
	"net"
	"os"
	"testing"
	"time"

	"github.com/codelaboratoryltd/bng/pkg/radius"
	"go.uber.org/zap"
	lradius "layeh.com/radius"

	"bngverif/internal/vstat"
)

func baseHistory(nSess int) *history {
	h := &history{Plan: map[string][]bool{}, Cfg: cfgSpec{MaxRetries: 5, MaxDelayS: 4, Interim: false, InterimS: 60, Drain: true, DownCode: 3}}
	for i := 0; i < nSess; i++ {
		h.Sess = append(h.Sess, sessSpec{ID: fmt.Sprintf("replay-%d", i), User: fmt.Sprintf("user%d", i),
			MAC: []byte{2, 0, 0x5e, 0x10, 0, byte(i + 1)}, IP: []byte{10, 0, 0, byte(i + 1)}, Class: []byte{0xc1, byte(i)}})
	}
	return h
}

// replayCase runs one hand-written case; want is the signature it is expected to produce on the pinned tree.
func replayCase(t *testing.T, h *history, sel *crashSel, want string) {
	t.Helper()
	if sel != nil && !radius.VerifMarkersCompiledIn() {
		t.Logf("needs crash markers (%v); skipped", sel)
		return
	}
	o := execute(t, h, sel)
	got := false
	for _, v := range evaluate(h, o) {
		if v.sig == want {
			got = true
		}
	}
	if !got && vstat.IsListed(want) {
		vstat.Note("stale:"+want, "listed finding no longer reproduced by its replay")
	}
	judge(t, h, sel, o, "replay")
}

// Sus 3: a failed Start sits in the retry queue while the Stop of the same session is sent directly and accepted.
func TestReplayStopOvertakesQueuedStart(t *testing.T) {
	h := baseHistory(1)
	h.Plan[planKey("replay-0", tStart)] = []bool{true, true} // direct send and the immediate re-send fail
	h.Ops = []op{{K: "start", S: 0}, {K: "stop", S: 0, Cause: 1}, {K: "advance", D: 5}}
	replayCase(t, h, nil, "C08/stop-before-start/start-failed-earlier")
}

// The same overtaking, cut short by a crash: the Stop is accepted while the failed Start waits for its retry,
// then the process dies and the queued Start with it, so no Start is ever accepted.  Same root cause, same
// signature — and not KF-C08-5: no crash lies between the failed Start and the Stop, and the Stop was not
// sent by a restarted instance.
func TestReplayStopOvertakesQueuedStartThenCrash(t *testing.T) {
	h := baseHistory(1)
	h.Plan[planKey("replay-0", tStart)] = []bool{true, true}
	h.Ops = []op{{K: "start", S: 0}, {K: "stop", S: 0, Cause: 1}, {K: "crash", D: 1}}
	replayCase(t, h, nil, "C08/stop-before-start/start-failed-earlier")
}

// Sus 1: StopSession during an outage queues the Stop in memory only and removes the session file; a crash loses it.
func TestReplayFailedStopLostByCrash(t *testing.T) {
	h := baseHistory(1)
	h.Ops = []op{{K: "start", S: 0}, {K: "outage", On: true}, {K: "stop", S: 0, Cause: 1}, {K: "crash", D: 1}}
	replayCase(t, h, nil, "C08/stop-lost/failed-stop-only-in-memory")
}

// Sus 2: Stop() drains with Stops but leaves sessions/<id>.json, so the restarted instance sends every Stop again.
func TestReplayDrainLeavesSessionFiles(t *testing.T) {
	h := baseHistory(2)
	h.Ops = []op{{K: "start", S: 0}, {K: "start", S: 1}, {K: "advance", D: 3}, {K: "graceful", D: 1}}
	replayCase(t, h, nil, "C08/dup-stop/after-graceful-restart/drained/session-file-left")
}

// A failed Start lives only in the in-memory retry queue: after a crash the recovered session gets a Stop
// although RADIUS never saw (and never will see) its Start.
func TestReplayQueuedStartLostByCrash(t *testing.T) {
	h := baseHistory(1)
	h.Plan[planKey("replay-0", tStart)] = []bool{true, true}
	h.Ops = []op{{K: "start", S: 0}, {K: "crash", D: 1}}
	replayCase(t, h, nil, "C08/stop-without-start/after-crash")
}

// Recovery moves the orphan's Stop into the in-memory queue when the server is down and deletes the session
// file anyway: a second crash before the retry succeeds loses the Stop.
func TestReplayRecoveryStopLostBySecondCrash(t *testing.T) {
	h := baseHistory(1)
	h.Plan[planKey("replay-0", tStop)] = []bool{true, true}
	h.Ops = []op{{K: "start", S: 0}, {K: "crash", D: 1}, {K: "crash", D: 0}}
	replayCase(t, h, nil, "C08/stop-lost/recovered-stop-only-in-memory")
}

// StartSession transmits the Start before the session is persisted: a crash in between leaves RADIUS with an
// open session that no restart will ever close.  Needs the crash markers.
func TestReplayCrashBetweenStartAndPersist(t *testing.T) {
	h := baseHistory(1)
	h.Ops = []op{{K: "start", S: 0}, {K: "advance", D: 2}}
	replayCase(t, h, &crashSel{Site: "persist-session.before", SID: "replay-0", N: 0}, "C08/stop-lost/crash-in-startsession-before-persist")
}

// Sanity replay: a plain history with an outage around the stop and 64-bit counters must be clean.
func TestReplayCleanOutageAroundStop(t *testing.T) {
	h := baseHistory(2)
	h.Plan[planKey("replay-0", tStop)] = []bool{true, true, true}
	h.Ops = []op{{K: "start", S: 0}, {K: "start", S: 1}, {K: "counters", S: 0, In: 1<<64 - 1, Out: 1<<32 + 1}, {K: "counters", S: 1, In: 1 << 32, Out: 1<<32 - 1},
		{K: "stop", S: 0, Cause: 2}, {K: "stop", S: 1, Cause: 3}, {K: "advance", D: 20}}
	o := execute(t, h, nil)
	if vs := evaluate(h, o); len(vs) != 0 || len(o.log) < 7 {
		t.Fatalf("INCONCLUSIVE sanity case is expected to be clean with >= 7 records, got %d records, violations %v", len(o.log), vs)
	}
	judge(t, h, nil, o, "replay")
}

// latKey names the latency stream of a session: kind d = direct send (start, stop, drain, recovery),
// r = send from the retry queue, i = interim update.
func latKey(sid, kind string) string { return sid + "|" + kind }

// A slow RADIUS server, in virtual time: the Stop's direct send is rejected, its first queued attempt
// travels 2.0–2.999 s (longer than RetryBaseDelay plus the wait for the next 1 s tick, shorter than the 3 s
// client timeout).  The channel path and the retry ticker are only safe while they run one after the
// other on the processor goroutine: if the ticker can re-send a record whose attempt is still in flight,
// RADIUS acknowledges two Stops for one session without any crash.  Clean on the pinned tree; the case
// also checks that the latency really was applied (otherwise the replay would be vacuous).
func TestReplaySlowRetryAcrossTick(t *testing.T) {
	for _, ms := range []int{2001, 2500, 2999} {
		h := baseHistory(1)
		h.Plan[planKey("replay-0", tStop)] = []bool{true}
		h.Lat = map[string][]int{latKey("replay-0", "r"): {ms}}
		h.Ops = []op{{K: "start", S: 0}, {K: "advance", D: 2}, {K: "stop", S: 0, Cause: 1}, {K: "advance", D: 8}}
		o := execute(t, h, nil)
		if o.trouble == "" {
			slow := false
			for _, sr := range o.sends {
				slow = slow || (sr.Site == "retry" && !sr.Lost && sr.End-sr.Begin == time.Duration(ms)*time.Millisecond)
			}
			if !slow && radius.VerifMarkersCompiledIn() {
				t.Fatalf("INCONCLUSIVE the %d ms latency was not applied to the queued Stop: sends=%v", ms, fmtSends(o.sends))
			}
		}
		judge(t, h, nil, o, "replay")
	}
}

// A request lost on the way (latency >= client timeout: the client gives up after exactly 3 virtual
// seconds, the server never sees it) is a failed attempt like a rejected one: the Stop is queued, retried
// and accepted exactly once.
func TestReplayLostRequestIsRetried(t *testing.T) {
	h := baseHistory(1)
	h.Lat = map[string][]int{latKey("replay-0", "d"): {0, 3001}, latKey("replay-0", "r"): {5001, 300}}
	h.Ops = []op{{K: "start", S: 0}, {K: "advance", D: 1}, {K: "stop", S: 0, Cause: 4}, {K: "advance", D: 12}}
	o := execute(t, h, nil)
	stops := 0
	for _, e := range o.log {
		if e.Type == tStop && e.Accepted {
			stops++
		}
	}
	if vs := evaluate(h, o); o.trouble == "" && radius.VerifMarkersCompiledIn() && len(vs) == 0 && stops != 1 {
		t.Fatalf("INCONCLUSIVE sanity case expects exactly one accepted Stop, got %d; sends=%v", stops, fmtSends(o.sends))
	}
	judge(t, h, nil, o, "replay")
}

// KF-C08-7 in virtual time (the repaired defect must stay repaired): while the processor goroutine is
// busy with one slow attempt (a queued Start travelling 2–3 s), the Stops of two other sessions fail and
// are queued (map + channel).  When the slow attempt returns, ticker and channel are both ready; if the
// ticker wins, it delivers a Stop from the map and the channel then hands the very same record to
// processPendingRecord again.  Go's select chooses at random, so the case is run with several latencies
// and two queued Stops each (p(miss) ~ 0.25 per run).
func TestReplayQueuedWhileProcessorBusy(t *testing.T) {
	for _, ms := range []int{2001, 2300, 2600, 2999} {
		h := baseHistory(3)
		h.Plan[planKey("replay-0", tStart)] = []bool{true}
		h.Plan[planKey("replay-1", tStop)] = []bool{true}
		h.Plan[planKey("replay-2", tStop)] = []bool{true}
		h.Lat = map[string][]int{latKey("replay-0", "r"): {ms}}
		h.Ops = []op{{K: "start", S: 1}, {K: "start", S: 2}, {K: "advance", D: 2},
			{K: "start", S: 0}, {K: "stop", S: 1, Cause: 1}, {K: "stop", S: 2, Cause: 2}, {K: "advance", D: 10}}
		judge(t, h, nil, execute(t, h, nil), "replay")
	}
}

func fmtSends(ss []*sendRec) string {
	out := ""
	for _, s := range ss {
		out += fmt.Sprintf("[%s/%s %s %v..%v lat=%d lost=%v port=%d] ", s.Site, s.Path, s.SID, s.Begin, s.End, s.LatMs, s.Lost, s.Port)
	}
	return out
}

// Sus 4 (real time, no bubble — the virtual-time harness cannot make a send take time): a queued record is
// in pendingRecords AND in the channel.  If the processor goroutine is busy for more than RetryBaseDelay
// (a slow server), the retry ticker picks the record from the map, delivers it, and the channel then
// delivers the very same record again: an acknowledged Stop is sent twice without any crash.
// Go's select picks at random between the ready ticker and the ready channel, so the reproduction is
// attempted a few times; not reproducing is silent (timing is never used as a correctness signal).
func TestReplayRealtimeDoubleSend(t *testing.T) {
	const sig = "C08/dup-stop/live/slow-server-channel-and-ticker"
	if os.Getenv("VERIF_REPLAY_FILE") != "" {
		return // a single saved case is being replayed
	}
	attempts := 6
	for a := 0; a < attempts; a++ {
		dups, trouble := realtimeDoubleSendAttempt(t)
		if trouble != "" {
			t.Logf("attempt %d: %s", a, trouble)
			continue
		}
		if dups != "" {
			vstat.Case(true, vstat.Hash("realtime-double-send"), nil, "mode:replay-realtime", "hit-known-finding")
			vstat.Fail(t, sig, "%s", dups)
			return
		}
	}
	vstat.Case(false, 0, nil, "mode:replay-realtime", "clean")
	if vstat.IsListed(sig) {
		vstat.Note("not-reproduced:"+sig, fmt.Sprintf("random select order did not produce the double send in %d attempts (p=2^-%d) or the defect is fixed", attempts, attempts))
	}
}

func realtimeDoubleSendAttempt(t *testing.T) (dup string, trouble string) {
	dir, err := os.MkdirTemp(os.Getenv("VERIF_OUT"), "c08-rt-")
	if err != nil {
		return "", err.Error()
	}
	defer os.RemoveAll(dir)
	plan := map[string][]bool{
		planKey("rt-0", tStart): {true, true}, // direct fails; the processor's re-send is held 1.5 s by the server, then fails
		planKey("rt-1", tStop):  {true},       // direct Stop fails at once -> queued while the processor is busy
	}
	srv, err := newServer(secret, plan, 8, lradius.CodeAccessReject)
	if err != nil {
		return "", err.Error()
	}
	defer srv.close()
	srv.set(func() {
		srv.delay = func(n int, r rec) time.Duration {
			// every Start(rt-0) after the first is held (layeh's client retransmits after 1 s; that copy is held too)
			if r.SID == "rt-0" && r.Type == tStart && n >= 1 {
				return 1500 * time.Millisecond
			}
			return 0
		}
	})
	cl, err := radius.NewClient(radius.ClientConfig{Servers: []radius.ServerConfig{{Host: "127.0.0.1", Port: srv.port() - 1, Secret: secret}},
		NASID: "bng-c08", Timeout: 3 * time.Second}, zap.NewNop())
	if err != nil {
		return "", err.Error()
	}
	mgr, err := radius.NewAccountingManager(cl, radius.AccountingConfig{InterimEnabled: false, MaxRetries: 10, RetryBaseDelay: time.Second,
		RetryMaxDelay: 4 * time.Second, QueueSize: 100, PersistPath: dir, DrainOnShutdown: false}, zap.NewNop())
	if err != nil {
		return "", err.Error()
	}
	if err := mgr.Start(); err != nil {
		return "", err.Error()
	}
	defer mgr.VerifKill()
	mk := func(i int) *radius.AccountingSession {
		return &radius.AccountingSession{SessionID: fmt.Sprintf("rt-%d", i), Username: "u", MAC: net.HardwareAddr{2, 0, 0, 0, 0, byte(i)}, FramedIP: net.IPv4(10, 9, 0, byte(i))}
	}
	_ = mgr.StartSession(mk(0)) // Start rejected -> queued; processor picks it up and is held by the slow reply
	time.Sleep(100 * time.Millisecond)
	_ = mgr.StartSession(mk(1)) // accepted directly
	_ = mgr.StopSession("rt-1", 1)
	time.Sleep(2000 * time.Millisecond) // slow reply arrives at ~1.5 s; ticker and channel are then both ready
	log := srv.snapshot()
	acked := -1
	for _, e := range log {
		if e.SID == "rt-1" && e.Type == tStop {
			if acked >= 0 {
				return fmt.Sprintf("Stop for rt-1 acknowledged at #%d and sent again at #%d without any crash (processor was busy 1.5 s with another record); server saw: %s",
					acked, e.Seq, logString(&outcome{log: log})), ""
			}
			if e.Accepted {
				acked = e.Seq
			}
		}
	}
	if os.Getenv("VERIF_C08_DEBUG") != "" {
		t.Logf("realtime attempt: %s", logString(&outcome{log: log}))
	}
	if acked < 0 {
		return "", "Stop for rt-1 not delivered within the attempt window (machine too slow?)"
	}
	return "", ""
}
