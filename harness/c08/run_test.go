package c08

// Executes one generated history against a real radius.AccountingManager +
// radius.Client inside a synctest bubble (virtual time), optionally crashing
// the "process" at one crash-point marker, and returns everything the oracle
// needs: the server-side record stream, what the caller did, and snapshots of
// the persistence directory at every restart.

import (
	"encoding/json"
	"fmt"
	"net"
	"os"
	"path/filepath"
	"runtime"
	"sort"
	"strings"
	"sync"
	"testing"
	"testing/synctest"
	"time"

	"github.com/codelaboratoryltd/bng/pkg/radius"
	"go.uber.org/zap"
	lradius "layeh.com/radius"
)

const secret = "c08-shared-secret"

type sessSpec struct {
	ID    string `json:"id"`
	User  string `json:"user"`
	MAC   []byte `json:"mac"`
	IP    []byte `json:"ip"`
	Class []byte `json:"class"` // nil = no Class attribute
	In0   uint64 `json:"in0"`
	Out0  uint64 `json:"out0"`
}

type cfgSpec struct {
	MaxRetries int  `json:"max_retries"`
	MaxDelayS  int  `json:"max_delay_s"`
	Interim    bool `json:"interim"`
	InterimS   int  `json:"interim_s"`
	Drain      bool `json:"drain"`
	DownCode   int  `json:"down_code"`
}

// horizon: virtual seconds after which every record still inside its retry
// budget has been retried at least once with the server up.
func (c cfgSpec) horizon() int {
	h := 5
	for i := 1; i <= c.MaxRetries; i++ {
		d := 1 << uint(i)
		if d > c.MaxDelayS {
			d = c.MaxDelayS
		}
		h += d
	}
	return h
}

type op struct {
	K     string `json:"k"` // start stop advance counters outage graceful crash
	S     int    `json:"s,omitempty"`
	Cause uint32 `json:"cause,omitempty"`
	D     int    `json:"d,omitempty"` // seconds (advance; downtime for graceful/crash); milliseconds (slow, pause)
	In    uint64 `json:"in,omitempty"`
	Out   uint64 `json:"out,omitempty"`
	On    bool   `json:"on,omitempty"`
}

func (o op) String() string {
	switch o.K {
	case "start":
		return fmt.Sprintf("start(s%d)", o.S)
	case "stop":
		return fmt.Sprintf("stop(s%d,%d)", o.S, o.Cause)
	case "advance":
		return fmt.Sprintf("advance(%ds)", o.D)
	case "counters":
		return fmt.Sprintf("counters(s%d,%#x,%#x)", o.S, o.In, o.Out)
	case "outage":
		return fmt.Sprintf("outage(%v)", o.On)
	case "graceful":
		return fmt.Sprintf("gracefulStop+restart(%ds)", o.D)
	case "crash":
		return fmt.Sprintf("crash+restart(%ds)", o.D)
	case "slow":
		return fmt.Sprintf("slow(>=%dms)", o.D)
	case "pause":
		return fmt.Sprintf("pause(%dms)", o.D)
	}
	return o.K
}

type history struct {
	Cfg  cfgSpec           `json:"cfg"`
	Sess []sessSpec        `json:"sessions"`
	Plan map[string][]bool `json:"plan"` // "sid|type" -> per-request pattern, true = down
	// Lat: "sid|kind" -> latency in ms of the n-th send of that stream (kind d = direct send of a
	// Start/Stop incl. drain and recovery, r = send from the retry queue, i = interim); >= 3000 = lost
	Lat map[string][]int `json:"lat,omitempty"`
	Ops []op             `json:"ops"`
}

func (h *history) String() string {
	var b strings.Builder
	fmt.Fprintf(&b, "cfg=%+v sessions=[", h.Cfg)
	for i, s := range h.Sess {
		fmt.Fprintf(&b, "s%d=%s ", i, s.ID)
	}
	b.WriteString("] plan={")
	keys := make([]string, 0, len(h.Plan))
	for k := range h.Plan {
		keys = append(keys, k)
	}
	sort.Strings(keys)
	for _, k := range keys {
		if len(h.Plan[k]) > 0 {
			fmt.Fprintf(&b, "%s:%s ", k, pat(h.Plan[k]))
		}
	}
	b.WriteString("} lat={")
	keys = keys[:0]
	for k := range h.Lat {
		keys = append(keys, k)
	}
	sort.Strings(keys)
	for _, k := range keys {
		if len(h.Lat[k]) > 0 {
			fmt.Fprintf(&b, "%s:%v ", k, h.Lat[k])
		}
	}
	b.WriteString("} ops=")
	for _, o := range h.Ops {
		b.WriteString(o.String() + "; ")
	}
	return b.String()
}

func pat(p []bool) string {
	s := ""
	for _, d := range p {
		if d {
			s += "D"
		} else {
			s += "U"
		}
	}
	return s
}

// crashSel selects the crash point: the n-th time marker `site` is reached for session `sid`.
type crashSel struct {
	Site string `json:"site"`
	SID  string `json:"sid"`
	N    int    `json:"n"`
}

func (c crashSel) String() string { return fmt.Sprintf("%s[%s]#%d", c.Site, c.SID, c.N) }

type markerRec struct {
	crashSel
	Op    int
	Epoch int
}

// dirSnap is the durable state found at a restart.
type dirSnap struct {
	Epoch        int // epoch that is about to start
	AfterCrash   bool
	SessionFiles map[string]bool
	PendingStops map[string]bool // session ids with a Stop record in pending.json
	PendingAny   map[string]bool // "sid|type" of every record in pending.json
}

type sessState struct {
	startCalled   bool
	startOp       int
	startEpoch    int
	startSeq      int // server log length when start(s) was called
	startReturned bool
	stopCalled    bool
	stopEpoch     int
	stopOp        int
	ended         string // "", "stopped", "drained", "left-by-shutdown", "orphaned"
	endEpoch      int
	active        bool
	lostClass     string
	durableAtEnd  string
	counters      []ctrVal
}

type ctrVal struct {
	in, out uint64
	seq     int // server log length when the value was set
}

type outcome struct {
	log      []rec
	markers  []markerRec
	sess     []*sessState
	snaps    []dirSnap
	crashed  bool   // a crash (marker or op) happened
	fired    bool   // the selected marker crash fired
	firedOp  int    // op during which it fired
	firedNo  int    // ordinal of the crash it caused (1 = first crash of the run)
	// crashes: number of crashes in the whole run; epochCrashes[e]: crashes that had happened when epoch e began
	crashes      int
	epochCrashes []int
	trouble  string // harness-side problem => inconclusive, never a violation
	bad      []string
	stopDown bool // some Stop request was answered "down" (outage overlaps a stop)
	big      bool // some record carried a counter > 2^32
	final    []string
	sends    []*sendRec // every SendAccounting as seen at the dial hook (latency_test.go)
}

type runner struct {
	h   *history
	dir string
	srv *server
	out *outcome
	sel *crashSel

	mu      sync.Mutex
	dead    bool // process crashed: every marker ends its goroutine
	counts  map[string]int
	cur     map[string][2]uint64 // live counter table read by the CounterFetcher
	epoch   int
	opIdx   int
	crashes int

	mgr *radius.AccountingManager

	// request latency (latency_test.go)
	t0            time.Time
	deadCh        chan struct{} // closed when the process dies: travelling requests are dropped
	pendingSend   map[uint64]string
	sends         []*sendRec
	srvAddrSuffix string
}

// die marks the process as crashed.  Caller holds r.mu.
func (r *runner) die() {
	if !r.dead {
		r.dead = true
		close(r.deadCh)
	}
}

// hook runs at every crash-point marker, on the manager's goroutine.
func (r *runner) hook(site, sid string) {
	r.mu.Lock()
	if r.dead {
		r.mu.Unlock()
		runtime.Goexit()
	}
	k := site + "|" + sid
	n := r.counts[k]
	r.counts[k] = n + 1
	r.out.markers = append(r.out.markers, markerRec{crashSel{site, sid, n}, r.opIdx, r.epoch})
	if strings.HasSuffix(site, ".send.before") {
		r.noteSend(sid)
	}
	if r.sel != nil && !r.out.fired && r.sel.Site == site && r.sel.SID == sid && r.sel.N == n {
		r.die()
		r.out.fired = true
		r.out.firedOp = r.opIdx
		c := r.crashes + 1
		r.out.firedNo = c
		r.mu.Unlock()
		r.srv.set(func() { r.srv.crashes = c }) // whatever arrives from now on is "after a crash"
		runtime.Goexit()
	}
	r.mu.Unlock()
}

func (r *runner) isDead() bool {
	r.mu.Lock()
	defer r.mu.Unlock()
	return r.dead
}

// do runs f (a call into the manager) on its own goroutine so that a crash
// marker can end it, and waits until it and everything it triggered is idle.
func (r *runner) do(f func()) {
	done := make(chan struct{})
	go func() {
		defer close(done)
		f()
	}()
	<-done
	synctest.Wait()
}

func (r *runner) newManager() {
	for len(r.out.epochCrashes) <= r.epoch {
		r.out.epochCrashes = append(r.out.epochCrashes, r.crashes)
	}
	p := r.srv.port()
	cl, err := radius.NewClient(radius.ClientConfig{
		Servers:   []radius.ServerConfig{{Host: "127.0.0.1", Port: p - 1, Secret: secret}},
		NASID:     "bng-c08",
		Timeout:   3 * time.Second,
		RateLimit: radius.RateLimitConfig{RequestsPerSecond: 1e6, BurstSize: 100000},
	}, zap.NewNop())
	if err != nil {
		r.out.trouble = "NewClient: " + err.Error()
		return
	}
	c := r.h.Cfg
	mgr, err := radius.NewAccountingManager(cl, radius.AccountingConfig{
		DefaultInterimInterval: time.Duration(c.InterimS) * time.Second,
		InterimEnabled:         c.Interim,
		MaxRetries:             c.MaxRetries,
		RetryBaseDelay:         time.Second,
		RetryMaxDelay:          time.Duration(c.MaxDelayS) * time.Second,
		QueueSize:              1000,
		PersistPath:            r.dir,
		ShutdownTimeout:        30 * time.Second,
		DrainOnShutdown:        c.Drain,
	}, zap.NewNop())
	if err != nil {
		r.out.trouble = "NewAccountingManager: " + err.Error()
		return
	}
	mgr.SetCounterFetcher(func(id string) (*radius.SessionCounters, error) {
		r.mu.Lock()
		defer r.mu.Unlock()
		v, ok := r.cur[id]
		if !ok {
			return nil, fmt.Errorf("no counters for %s", id)
		}
		return &radius.SessionCounters{InputOctets: v[0], OutputOctets: v[1], InputPackets: v[0] / 1500, OutputPackets: v[1] / 1500}, nil
	})
	r.mgr = mgr
	r.do(func() {
		if err := mgr.Start(); err != nil {
			r.out.trouble = "Start: " + err.Error()
		}
	})
}

func (r *runner) snapshotDir(afterCrash bool) {
	s := dirSnap{Epoch: r.epoch + 1, AfterCrash: afterCrash, SessionFiles: map[string]bool{}, PendingStops: map[string]bool{}, PendingAny: map[string]bool{}}
	ents, _ := os.ReadDir(filepath.Join(r.dir, "sessions"))
	for _, e := range ents {
		if strings.HasSuffix(e.Name(), ".json") {
			s.SessionFiles[strings.TrimSuffix(e.Name(), ".json")] = true
		}
	}
	if b, err := os.ReadFile(filepath.Join(r.dir, "pending.json")); err == nil {
		var m map[string]struct {
			Request struct {
				SessionID  string
				StatusType uint32
			} `json:"request"`
		}
		if json.Unmarshal(b, &m) == nil {
			for _, v := range m {
				s.PendingAny[planKey(v.Request.SessionID, v.Request.StatusType)] = true
				if v.Request.StatusType == tStop {
					s.PendingStops[v.Request.SessionID] = true
				}
			}
		}
	}
	r.out.snaps = append(r.out.snaps, s)
}

// fence returns once the server has logged every datagram that was written to
// its socket before the call (a request whose sender was cancelled while
// waiting for the reply is otherwise logged at an arbitrary later moment and
// would carry the wrong epoch stamp).  Loopback UDP to one socket is FIFO.
func (r *runner) fence() {
	c, err := net.DialUDP("udp4", nil, r.srv.conn.LocalAddr().(*net.UDPAddr))
	if err != nil {
		r.out.trouble = "fence dial: " + err.Error()
		return
	}
	defer c.Close()
	if _, err := c.Write([]byte{0}); err != nil {
		r.out.trouble = "fence write: " + err.Error()
		return
	}
	var b [4]byte
	if _, err := c.Read(b[:]); err != nil {
		r.out.trouble = "fence read: " + err.Error()
	}
}

func (r *runner) stamp() {
	r.srv.set(func() { r.srv.epoch, r.srv.op, r.srv.crashes = r.epoch, r.opIdx, r.crashes })
}

// crashAndRestart: the process is gone (marker crash or crash op): stop the
// workers without drain/persist, look at what is on disk, start a new manager
// on the same directory.
func (r *runner) crashAndRestart(downtime int) {
	synctest.Wait()
	r.mu.Lock()
	r.die()
	r.mu.Unlock()
	r.mgr.VerifKill()
	synctest.Wait()
	r.fence()
	r.out.crashed = true
	r.crashes++
	r.snapshotDir(true)
	snap := r.out.snaps[len(r.out.snaps)-1]
	log := r.srv.snapshot()
	for i, st := range r.out.sess {
		id := r.h.Sess[i].ID
		if st.active {
			st.active = false
			if st.ended == "" {
				st.ended, st.endEpoch = "orphaned", r.epoch
			}
		}
		if !st.startCalled || st.lostClass != "" || hasAcceptedStop(log, id) {
			continue
		}
		if !(st.startReturned || hasAccepted(log, id, tStart)) {
			continue
		}
		if snap.SessionFiles[id] || snap.PendingStops[id] {
			continue // durable: restart must produce the Stop
		}
		r.mu.Lock()
		sends := append([]*sendRec(nil), r.sends...)
		r.mu.Unlock()
		st.lostClass = r.lostClassAtCrash(id, st, log, sends)
	}
	time.Sleep(time.Duration(downtime)*time.Second + time.Millisecond)
	r.mu.Lock()
	r.dead = false
	r.deadCh = make(chan struct{})
	r.epoch++
	r.mu.Unlock()
	r.stamp()
	r.newManager()
}

// lostClassAtCrash names the shape of a lost Stop at the moment it becomes lost: the process has just
// crashed, session `id` was started (accounting began), has no accepted Stop, and nothing on disk (neither
// sessions/<id>.json nor a Stop in pending.json) from which a restart could produce one.  Decided only from
// what the harness saw: the op history, the crash marker that fired, the directory as found at the
// previous restart, and the record stream / sends of the incarnation that just died.
//
// Two shapes are recorded defects of the pinned tree (known_findings: KF-C08-2, KF-C08-3); each listed
// class is kept for exactly the recorded root cause, every other way of losing the Stop gets its own class:
//
//	recovered-stop-only-in-memory (KF-C08-2): the session belongs to an EARLIER incarnation, its Stop was
//	  durable when THIS incarnation started (session file or pending.json), and recovery moved it into the
//	  in-memory retry queue — pending.json is deleted once loaded, a session file once its Stop has been
//	  attempted (the failed attempt of this incarnation is in the record stream / the sends).
//	crash-in-startsession-before-persist (KF-C08-3): the crash is the marker crash, it fired while
//	  StartSession of this very session was running, the Start had been accepted, and StartSession had not
//	  yet passed persist-session.after (the file was never written, as opposed to written and gone).
func (r *runner) lostClassAtCrash(id string, st *sessState, log []rec, sends []*sendRec) string {
	thisCrashIsMarker := r.out.fired && r.out.firedNo == r.crashes
	stopAttempted := func(epoch int, sites ...string) bool { // a Stop of the session was rejected, or lost on the way from one of sites; epoch < 0: any
		for _, e := range log {
			if e.SID == id && e.Type == tStop && (epoch < 0 || (e.Epoch == epoch && !e.Accepted)) {
				return true
			}
		}
		for _, sr := range sends {
			if sr.SID == id && sr.Lost && (epoch < 0 || sr.Epoch == epoch) {
				for _, s := range sites {
					if sr.Site == s {
						return true
					}
				}
			}
		}
		return false
	}
	switch {
	case st.startEpoch < r.epoch:
		var s0 *dirSnap // the directory as this incarnation found it
		for i := range r.out.snaps {
			if r.out.snaps[i].Epoch == r.epoch {
				s0 = &r.out.snaps[i]
			}
		}
		switch {
		case s0 == nil || !(s0.SessionFiles[id] || s0.PendingStops[id]):
			// already gone when this incarnation started, and the previous restart was a graceful one
			// (a crash would have classified it then): the shutdown lost it, recovery is not involved
			return "nothing-durable-at-last-restart"
		case s0.PendingStops[id]:
			return "recovered-stop-only-in-memory" // pending.json loaded into memory and deleted
		case stopAttempted(r.epoch, "recover"):
			return "recovered-stop-only-in-memory" // orphan's Stop failed, queued in memory, session file removed
		default:
			return "dropped-by-recovery-without-attempt" // session file removed although no Stop was even tried
		}
	case st.stopCalled && st.stopEpoch == r.epoch && stopAttempted(-1, "stop", "drain", "recover"):
		return "failed-stop-only-in-memory"
	case st.stopCalled && st.stopEpoch == r.epoch:
		return "crash-in-stopsession-nothing-durable"
	case !st.startReturned:
		// StartSession did not complete, yet RADIUS accepted the Start
		if !(thisCrashIsMarker && r.out.firedOp == st.startOp) {
			return "startsession-failed-after-accepted-start" // no crash interrupted it: it returned an error and left nothing durable
		}
		for _, m := range r.out.markers {
			if m.Site == "persist-session.after" && m.SID == id && m.Op == st.startOp && m.Epoch == st.startEpoch {
				return "crash-in-startsession-file-missing-after-persist"
			}
		}
		return "crash-in-startsession-before-persist"
	default:
		return "active-session-not-on-disk"
	}
}

func hasAccepted(log []rec, sid string, typ uint32) bool {
	for _, e := range log {
		if e.SID == sid && e.Type == typ && e.Accepted {
			return true
		}
	}
	return false
}

func hasAcceptedStop(log []rec, sid string) bool { return hasAccepted(log, sid, tStop) }

func (r *runner) apply(i int, o op) {
	r.mu.Lock()
	r.opIdx = i
	r.mu.Unlock()
	r.stamp()
	switch o.K {
	case "start":
		sp, st := r.h.Sess[o.S], r.out.sess[o.S]
		if st.startCalled {
			return // each session id is started at most once per history
		}
		st.startCalled, st.startOp, st.startEpoch, st.startSeq, st.active = true, i, r.epoch, r.srv.logLen(), true
		sess := &radius.AccountingSession{
			SessionID: sp.ID, Username: sp.User, MAC: net.HardwareAddr(append([]byte(nil), sp.MAC...)),
			FramedIP: net.IP(append([]byte(nil), sp.IP...)), NASPort: uint32(100 + o.S), CircuitID: "circuit-" + sp.ID, RemoteID: "remote-" + sp.ID,
		}
		if sp.Class != nil {
			sess.Class = append([]byte(nil), sp.Class...)
		}
		r.do(func() {
			if err := r.mgr.StartSession(sess); err == nil {
				st.startReturned = true
			}
		})
	case "stop":
		sp, st := r.h.Sess[o.S], r.out.sess[o.S]
		wasActive := st.active
		if wasActive {
			st.stopCalled, st.stopEpoch, st.stopOp = true, r.epoch, i
			st.active = false
			st.ended, st.endEpoch = "stopped", r.epoch
		}
		r.do(func() { _ = r.mgr.StopSession(sp.ID, o.Cause) })
	case "advance":
		for s := 0; s < o.D && !r.isDead(); s++ {
			time.Sleep(time.Second)
			synctest.Wait()
		}
	case "counters":
		sp, st := r.h.Sess[o.S], r.out.sess[o.S]
		r.mu.Lock()
		r.cur[sp.ID] = [2]uint64{o.In, o.Out}
		r.mu.Unlock()
		st.counters = append(st.counters, ctrVal{o.In, o.Out, r.srv.logLen()})
	case "outage":
		r.srv.set(func() { r.srv.outage = o.On })
	case "slow":
		r.srv.set(func() { r.srv.slowMs = o.D })
	case "pause":
		time.Sleep(time.Duration(o.D) * time.Millisecond)
		synctest.Wait()
	case "graceful":
		how := "left-by-shutdown"
		if r.h.Cfg.Drain {
			how = "drained"
		}
		for _, st := range r.out.sess {
			if st.active {
				st.active = false
				st.ended, st.endEpoch = how, r.epoch
			}
		}
		mgr := r.mgr
		r.do(func() { _ = mgr.Stop() })
		if r.isDead() {
			return // crashed inside Stop(): handled by the caller
		}
		// make sure nothing of the stopped instance is left (Stop already waited for its workers)
		synctest.Wait()
		r.fence()
		r.snapshotDir(false)
		time.Sleep(time.Duration(o.D)*time.Second + time.Millisecond)
		r.mu.Lock()
		r.epoch++
		r.mu.Unlock()
		r.stamp()
		r.newManager()
	case "crash":
		r.crashAndRestart(o.D)
		return
	}
	// distinct ops never share a virtual instant (record ids contain time.Now().UnixNano())
	time.Sleep(time.Millisecond)
	synctest.Wait()
}

// execute runs the history (crashing at sel if given).  Must be called outside a bubble.
func execute(t *testing.T, h *history, sel *crashSel) *outcome {
	out := &outcome{}
	base := os.Getenv("VERIF_OUT")
	if base == "" {
		base = os.TempDir()
	}
	_ = os.MkdirAll(base, 0o755)
	dir, err := os.MkdirTemp(base, "c08-acct-")
	if err != nil {
		out.trouble = "MkdirTemp: " + err.Error()
		return out
	}
	defer os.RemoveAll(dir)
	srv, err := newServer(secret, h.Plan, h.Cfg.MaxRetries-1, lradius.Code(h.Cfg.DownCode))
	if err != nil {
		out.trouble = "listen: " + err.Error()
		return out
	}
	defer srv.close()

	srv.set(func() { srv.lat, srv.timeoutMs = h.Lat, clientTimeoutMs })

	r := &runner{h: h, dir: dir, srv: srv, out: out, sel: sel, counts: map[string]int{}, cur: map[string][2]uint64{},
		pendingSend: map[uint64]string{}}
	for _, sp := range h.Sess {
		out.sess = append(out.sess, &sessState{counters: []ctrVal{{0, 0, 0}, {sp.In0, sp.Out0, 0}}})
		r.cur[sp.ID] = [2]uint64{sp.In0, sp.Out0}
	}
	radius.VerifSetCrashHook(r.hook)
	defer radius.VerifSetCrashHook(nil)
	r.installLatency()
	defer uninstallLatency()

	synctest.Test(t, func(t *testing.T) {
		r.t0 = time.Now()
		r.deadCh = make(chan struct{}) // made inside the bubble: a select on it must block durably
		r.stamp()
		r.newManager()
		if out.trouble != "" {
			if r.mgr != nil {
				r.mgr.VerifKill()
			}
			return
		}
		for i, o := range h.Ops {
			r.apply(i, o)
			if out.trouble != "" {
				break
			}
			if r.isDead() {
				r.crashAndRestart(1)
			}
		}
		if out.trouble == "" {
			// final phase: server up; every record still inside its retry budget gets
			// retried within the back-off horizon.  A selected crash marker that is only
			// reached here (a retry firing late) still crashes the process once; the
			// horizon then starts again for the restarted instance.
			r.mu.Lock()
			r.opIdx = -1
			r.mu.Unlock()
			r.stamp()
			srv.set(func() { srv.forceUp, srv.outage, srv.fast = true, false, true })
			for round := 0; round < 2; round++ {
				for s := 0; s < h.Cfg.horizon() && !r.isDead(); s++ {
					time.Sleep(time.Second)
					synctest.Wait()
				}
				if !r.isDead() {
					break
				}
				r.crashAndRestart(1)
				if out.trouble != "" {
					break
				}
			}
		}
		// what is durable at the very end (for diagnostics only)
		r.snapshotDir(false)
		r.mu.Lock()
		r.die() // end of case: nothing may act any more
		r.mu.Unlock()
		r.mgr.VerifKill()
		synctest.Wait()
		r.fence()
	})
	out.log = srv.snapshot()
	out.sends = r.sends
	out.crashes = r.crashes
	linkSends(out.log, out.sends)
	if len(out.log) > 0 && len(out.sends) == 0 && out.trouble == "" {
		// the client no longer sends through layeh's DefaultClient: latencies were not applied
		out.trouble = "dial hook never ran although the server received requests (transport of pkg/radius changed?)"
	}
	srv.set(func() { out.bad = append(out.bad, srv.bad...) })
	for _, e := range out.log {
		if e.Type == tStop && !e.Accepted {
			out.stopDown = true
		}
		if e.HasOct && (e.In > 0xFFFFFFFF || e.Out > 0xFFFFFFFF) {
			out.big = true
		}
	}
	return out
}
