package c08

// Scripted RADIUS accounting server: a real UDP socket on loopback, served by a
// goroutine that is started OUTSIDE the synctest bubble and answers every
// request immediately (DESIGN §1.5) — "up" = authentic Accounting-Response,
// "down" = authentic reply with a wrong code, which makes
// radius.Client.SendAccounting fail at once.  It never drops a request.
//
// The up/down decision is a function of the generated plan, keyed per
// (Acct-Session-Id, Acct-Status-Type) stream, so that it does not depend on
// the order in which concurrent goroutines of the manager reach the socket.
// Failures are capped per record key so that every pattern stays inside the
// configured retry budget (the statement quantifies only over those).

import (
	"fmt"
	"net"
	"strings"
	"sync"
	"time"

	"layeh.com/radius"
	"layeh.com/radius/rfc2865"
	"layeh.com/radius/rfc2866"
	"layeh.com/radius/rfc2869"
)

const (
	tStart   = 1
	tStop    = 2
	tInterim = 3
)

// rec is one Accounting-Request as decoded by the server.
type rec struct {
	Seq      int      `json:"seq"`
	Type     uint32   `json:"type"`
	SID      string   `json:"sid"`
	User     string   `json:"user"`
	Calling  string   `json:"calling"`
	IP       string   `json:"ip"`
	Class    string   `json:"class"` // hex; "-" when the attribute is absent
	HasOct   bool     `json:"-"`
	In       uint64   `json:"in"`  // low word + gigawords<<32 exactly as received
	Out      uint64   `json:"out"` //
	SessTime uint32   `json:"-"`
	Cause    uint32   `json:"cause"`
	Accepted bool     `json:"ok"`
	Epoch    int      `json:"epoch"`   // manager incarnation when received
	Op       int      `json:"op"`      // history op index when received (-1 = final phase)
	Crashes  int      `json:"crashes"` // crashes injected before this request arrived
	Port     int      `json:"-"`       // UDP source port (links the record to the client-side send, latency_test.go)
	Send     *sendRec `json:"-"`       // the client-side send this record came from (nil: not linked)
}

func (r rec) String() string {
	t := map[uint32]string{1: "Start", 2: "Stop", 3: "Interim"}[r.Type]
	if t == "" {
		t = fmt.Sprintf("type%d", r.Type)
	}
	a := "REJ"
	if r.Accepted {
		a = "ACK"
	}
	return fmt.Sprintf("#%d e%d op%d %s(%s)%s", r.Seq, r.Epoch, r.Op, t, r.SID, a)
}

type server struct {
	conn   *net.UDPConn
	secret []byte
	done   chan struct{}

	mu       sync.Mutex
	log      []rec
	plan     map[string][]bool // "sid|type" -> per-request pattern, true = down
	pos      map[string]int
	fails    map[string]int // budget key -> failures so far
	budget   int
	outage   bool
	forceUp  bool
	downCode radius.Code
	epoch    int
	op       int
	crashes  int
	bad      []string // requests the server could not parse (never expected)
	// delay (real-time replay only, never used with a bubble): how long to hold the reply of the n-th request
	delay func(n int, r rec) time.Duration

	// virtual-time request latency (latency_test.go): decided here so that it shares the retry budget
	lat       map[string][]int // "sid|kind" -> per-send latency in ms (kind: d=direct r=retry i=interim)
	latPos    map[string]int
	slowMs    int            // latency floor for every request (op "slow")
	fast      bool           // final phase: no latency
	timeoutMs int            // client timeout: a latency >= this loses the request
	lost      map[string]int // sid -> requests lost by latency (never reached the socket); "*" = session unknown
}

// latency decides how long the n-th send of stream (sid, kind) travels before it reaches the server
// (virtual time, slept by the client-side dial hook).  lost = it takes at least the client timeout, i.e.
// the request is silently dropped and the client gives up at its timeout.  A lost request is a failed
// attempt of some record of that session, so it is charged to the same retry budget as a "down" answer.
func (s *server) latency(sid, kind string) (ms int, lost bool) {
	s.mu.Lock()
	defer s.mu.Unlock()
	k := sid + "|" + kind
	if i := s.latPos[k]; i < len(s.lat[k]) {
		ms = s.lat[k][i]
	}
	s.latPos[k]++
	if s.slowMs > ms {
		ms = s.slowMs
	}
	if s.fast || s.timeoutMs <= 0 {
		return 0, false
	}
	if ms >= s.timeoutMs {
		mx := 0
		for bk, n := range s.fails {
			if (sid == "*" || strings.HasPrefix(bk, sid+"|")) && n > mx {
				mx = n
			}
		}
		all := s.lost["*"]
		if sid == "*" {
			all = 0
			for _, n := range s.lost {
				all += n
			}
		}
		if mx+s.lost[sid]+all >= s.budget {
			return s.timeoutMs - 1, false // stay inside the retry budget: slow, but it arrives
		}
		s.lost[sid]++
		return ms, true
	}
	return ms, false
}

func planKey(sid string, typ uint32) string { return fmt.Sprintf("%s|%d", sid, typ) }

// newServer must be called outside any synctest bubble.
func newServer(secret string, plan map[string][]bool, budget int, downCode radius.Code) (*server, error) {
	c, err := net.ListenUDP("udp4", &net.UDPAddr{IP: net.IPv4(127, 0, 0, 1)})
	if err != nil {
		return nil, err
	}
	s := &server{conn: c, secret: []byte(secret), done: make(chan struct{}), plan: plan,
		pos: map[string]int{}, fails: map[string]int{}, budget: budget, downCode: downCode,
		latPos: map[string]int{}, lost: map[string]int{}}
	go s.serve()
	return s, nil
}

func (s *server) port() int { return s.conn.LocalAddr().(*net.UDPAddr).Port }

func (s *server) close() {
	s.conn.Close()
	<-s.done
}

func (s *server) set(f func()) {
	s.mu.Lock()
	f()
	s.mu.Unlock()
}

func (s *server) snapshot() []rec {
	s.mu.Lock()
	defer s.mu.Unlock()
	return append([]rec(nil), s.log...)
}

func (s *server) logLen() int {
	s.mu.Lock()
	defer s.mu.Unlock()
	return len(s.log)
}

func (s *server) serve() {
	defer close(s.done)
	buf := make([]byte, 4096)
	for {
		n, addr, err := s.conn.ReadFromUDP(buf)
		if err != nil {
			return
		}
		if n == 1 {
			// fence from the harness: everything sent before it has been logged
			s.conn.WriteToUDP(buf[:1], addr)
			continue
		}
		pkt, err := radius.Parse(buf[:n], s.secret)
		if err != nil || pkt.Code != radius.CodeAccountingRequest {
			s.mu.Lock()
			s.bad = append(s.bad, fmt.Sprintf("unparsable/unsupported request (%v) % x", err, buf[:n]))
			s.mu.Unlock()
			// still answer so that the client never blocks in a read
			if pkt != nil {
				if b, e := pkt.Response(radius.CodeAccessReject).Encode(); e == nil {
					s.conn.WriteToUDP(b, addr)
				}
			}
			continue
		}
		var r rec
		r.Type = uint32(rfc2866.AcctStatusType_Get(pkt))
		r.SID = rfc2866.AcctSessionID_GetString(pkt)
		r.User = rfc2865.UserName_GetString(pkt)
		r.Calling = rfc2865.CallingStationID_GetString(pkt)
		if ip, err := rfc2865.FramedIPAddress_Lookup(pkt); err == nil {
			r.IP = ip.String()
		} else {
			r.IP = "-"
		}
		if cl, err := rfc2865.Class_Lookup(pkt); err == nil {
			r.Class = fmt.Sprintf("%x", cl)
		} else {
			r.Class = "-"
		}
		if lo, err := rfc2866.AcctInputOctets_Lookup(pkt); err == nil {
			r.HasOct = true
			r.In = uint64(uint32(lo))
		}
		if lo, err := rfc2866.AcctOutputOctets_Lookup(pkt); err == nil {
			r.HasOct = true
			r.Out = uint64(uint32(lo))
		}
		if g, err := rfc2869.AcctInputGigawords_Lookup(pkt); err == nil {
			r.In += uint64(uint32(g)) << 32
		}
		if g, err := rfc2869.AcctOutputGigawords_Lookup(pkt); err == nil {
			r.Out += uint64(uint32(g)) << 32
		}
		r.SessTime = uint32(rfc2866.AcctSessionTime_Get(pkt))
		r.Cause = uint32(rfc2866.AcctTerminateCause_Get(pkt))

		s.mu.Lock()
		k := planKey(r.SID, r.Type)
		bk := k
		if r.Type == tInterim {
			bk = fmt.Sprintf("%s|%d", k, r.SessTime) // every interim record has its own retry budget
		}
		down := false
		if i := s.pos[k]; i < len(s.plan[k]) {
			down = s.plan[k][i]
		}
		s.pos[k]++
		if s.outage {
			down = true
		}
		if s.forceUp {
			down = false
		}
		if down && s.fails[bk]+s.lost[r.SID]+s.lost["*"] >= s.budget {
			down = false // stay inside the retry budget of this record
		}
		if down {
			s.fails[bk]++
		}
		r.Accepted = !down
		r.Seq = len(s.log)
		r.Epoch, r.Op, r.Crashes = s.epoch, s.op, s.crashes
		r.Port = addr.Port
		s.log = append(s.log, r)
		code := radius.CodeAccountingResponse
		if down {
			code = s.downCode
		}
		var hold time.Duration
		if s.delay != nil {
			hold = s.delay(r.Seq, r)
		}
		s.mu.Unlock()

		b, err := pkt.Response(code).Encode()
		if err != nil {
			s.mu.Lock()
			s.bad = append(s.bad, "cannot encode response: "+err.Error())
			s.mu.Unlock()
			continue
		}
		if hold > 0 {
			go func(b []byte, addr *net.UDPAddr) {
				time.Sleep(hold)
				s.conn.WriteToUDP(b, addr)
			}(b, addr)
			continue
		}
		s.conn.WriteToUDP(b, addr)
	}
}
