package c08

import (
	"encoding/json"
	"fmt"
	"os"
	"path/filepath"
	"strings"
	"testing"

	"github.com/codelaboratoryltd/bng/pkg/radius"
	"pgregory.net/rapid"

	"bngverif/internal/vstat"
)

func TestMain(m *testing.M) { vstat.Main(m, "C08") }

type fataler = vstat.Fataler

var (
	survey     = os.Getenv("VERIF_C08_SURVEY") != ""
	surveySeen = map[string]int{}
)

func surveyOnce(sig, msg string) {
	surveySeen[sig]++
	if surveySeen[sig] <= 4 {
		if f, err := os.OpenFile(os.Getenv("VERIF_C08_SURVEY"), os.O_APPEND|os.O_CREATE|os.O_WRONLY, 0o644); err == nil {
			fmt.Fprintf(f, "SURVEY %s: %s\n\n", sig, msg)
			f.Close()
		}
	}
}

// betweenPersistAndTransmit: the crash point lies after a durable write and before the transmit it protects.
func betweenPersistAndTransmit(c *crashSel) bool {
	if c == nil {
		return false
	}
	switch c.Site {
	case "persist-session.after", "stop.send.before", "persist-pending.after", "recover.send.before", "retry.send.before":
		return true
	}
	return false
}

// judge runs the oracle on one executed run, reports every violation through
// its signature (listed findings are counted and skipped) and records the case.
func judge(t fataler, h *history, sel *crashSel, o *outcome, mode string) {
	t.Helper()
	if o.trouble != "" {
		t.Fatalf("INCONCLUSIVE harness trouble: %s", o.trouble)
	}
	if len(o.bad) > 0 {
		// the client produced a datagram the server could not decode as an Accounting-Request
		vstat.Fail(t, "C08/record/undecodable", "%s\nhistory: %v", strings.Join(o.bad, "; "), h)
	}
	if sel != nil && !o.fired {
		// the selected marker was not reached in this re-run (run-to-run scheduling differences inside
		// the manager): still a valid crash-free run, judged as such
		vstat.Class("crash-marker-not-reached", 1)
		if survey {
			var ms []string
			for _, m := range o.markers {
				ms = append(ms, fmt.Sprintf("op%d:%s", m.Op, m.crashSel))
			}
			surveyOnce("not-reached", fmt.Sprintf("sel=%v\nhistory: %v\nmarkers of re-run: %s\nserver saw: %s", sel, h, strings.Join(ms, " "), logString(o)))
		}
	}
	vs := evaluate(h, o)
	for _, v := range vs {
		crash := "none"
		if sel != nil {
			crash = sel.String()
		}
		if survey {
			// development aid (VERIF_C08_SURVEY=1): tally signatures instead of failing
			vstat.Class("survey:"+v.sig, 1)
			surveyOnce(v.sig, fmt.Sprintf("%s\ncrash point: %s\nhistory: %v\nserver saw: %s", v.msg, crash, h, logString(o)))
			continue
		}
		vstat.Fail(t, v.sig, "%s\ncrash point: %s\nhistory: %v\nserver saw: %s", v.msg, crash, h, logString(o))
	}
	cls := []string{"mode:" + mode}
	ntCrash := sel != nil && o.fired && betweenPersistAndTransmit(sel)
	if o.stopDown {
		cls = append(cls, "nt:outage-overlaps-stop")
	}
	if ntCrash {
		cls = append(cls, "nt:crash-between-persist-and-transmit")
	}
	if o.big {
		cls = append(cls, "nt:counter>2^32")
	}
	if sel != nil && o.fired {
		cls = append(cls, "crash-site:"+sel.Site)
	}
	hasG, hasC, hasUn := false, false, false
	for _, op := range h.Ops {
		hasG = hasG || op.K == "graceful"
		hasC = hasC || op.K == "crash"
	}
	for i, st := range o.sess {
		_ = i
		if !st.startCalled {
			hasUn = true
		}
	}
	if hasG {
		cls = append(cls, "has:graceful-restart")
	}
	if hasC {
		cls = append(cls, "has:crash-op")
	}
	if hasUn {
		cls = append(cls, "has:unstarted-session")
	}
	if len(vs) > 0 {
		cls = append(cls, "hit-known-finding")
	} else {
		cls = append(cls, "clean")
	}
	if len(h.Plan) > 0 {
		cls = append(cls, "has:outage-pattern")
	}
	nt := o.stopDown || ntCrash || o.big
	hb, _ := json.Marshal(h)
	selS := ""
	if sel != nil {
		selS = sel.String()
	}
	vstat.Case(nt, vstat.Hash(hb, selS), func() any {
		return map[string]any{"history": h.String(), "crash": selS, "records": len(o.log), "markers": len(o.markers)}
	}, cls...)
}

func uniqueMarkers(ms []markerRec) []crashSel {
	seen := map[crashSel]bool{}
	var out []crashSel
	for _, m := range ms {
		if !seen[m.crashSel] {
			seen[m.crashSel] = true
			out = append(out, m.crashSel)
		}
	}
	return out
}

// TestPropHistories: crash-free histories with outages, 64-bit counters, graceful stop + restart.
// Decides clauses (1) (2) (3, no crash) (4) (5).
func TestPropHistories(t *testing.T) {
	vstat.Checks(1000, 20000)
	rapid.Check(t, func(rt *rapid.T) {
		h := genHistory(rt, genMode{graceful: true, maxOps: 12})
		judge(rt, h, nil, execute(t, h, nil), "no-crash")
	})
}

// TestPropCounters: counter-heavy histories (interims on, values around 2^32 and 2^64-1).
func TestPropCounters(t *testing.T) {
	vstat.Checks(600, 10000)
	rapid.Check(t, func(rt *rapid.T) {
		h := genHistory(rt, genMode{graceful: true, maxOps: 10, bigCtrs: true})
		h.Cfg.Interim, h.Cfg.InterimS = true, 10
		judge(rt, h, nil, execute(t, h, nil), "counters")
	})
}

// TestPropCrashOps: a crash (kill without drain/persist) at quiescent points between operations,
// then restart on the same directory.  Needs no markers inside accounting.go.
func TestPropCrashOps(t *testing.T) {
	vstat.Checks(1000, 20000)
	rapid.Check(t, func(rt *rapid.T) {
		h := genHistory(rt, genMode{graceful: true, crashOps: true, maxOps: 12})
		judge(rt, h, nil, execute(t, h, nil), "crash-op")
	})
}

// crashEnum: dry-run the history to learn its crash-point markers, then re-run it once per marker
// with the process crashing exactly there (fault enumeration over the generated history).
func crashEnum(t *testing.T, rt *rapid.T, m genMode, mode string) {
	h := genHistory(rt, m)
	dry := execute(t, h, nil)
	judge(rt, h, nil, dry, mode+"-dry")
	ms := uniqueMarkers(dry.markers)
	vstat.Class("crash-points-enumerated", int64(len(ms)))
	for i := range ms {
		sel := ms[i]
		judge(rt, h, &sel, execute(t, h, &sel), mode)
	}
}

func markersOrSkip(t *testing.T) bool {
	if radius.VerifMarkersCompiledIn() {
		vstat.Note("crash_markers", "compiled in: crash at every persistence/transmit marker is enumerated")
		return true
	}
	vstat.Note("crash_markers", "NOT compiled in (fixes/C08-hook-markers.patch not applied to the tree under test): crash-point enumeration skipped; crashes are injected only at quiescent points between operations")
	t.Log("crash markers not compiled in; enumeration skipped")
	return false
}

// TestPropCrashEnum: crash at every marker of short histories without restarts in the history itself.
func TestPropCrashEnum(t *testing.T) {
	if !markersOrSkip(t) {
		return
	}
	vstat.Checks(80, 1500)
	rapid.Check(t, func(rt *rapid.T) {
		crashEnum(t, rt, genMode{maxOps: 8, fewAdv: true}, "crash-enum")
	})
}

// TestPropCrashEnumRestarts: the same, over histories that also contain graceful stop + restart and
// crash ops, so that markers inside Stop()/drain and inside recovery are crash points too.
func TestPropCrashEnumRestarts(t *testing.T) {
	if !markersOrSkip(t) {
		return
	}
	vstat.Checks(70, 1200)
	rapid.Check(t, func(rt *rapid.T) {
		crashEnum(t, rt, genMode{graceful: true, crashOps: true, maxOps: 7, fewAdv: true, noInterim: true, restarts: true}, "crash-enum-restarts")
	})
}

// --- replay of saved JSON cases (./check C08 --replay <file.json>) ---------------------------------

type savedCase struct {
	History *history  `json:"history"`
	Crash   *crashSel `json:"crash,omitempty"`
}

func TestReplayFile(t *testing.T) {
	p := os.Getenv("VERIF_REPLAY_FILE")
	var files []string
	if p != "" {
		files = []string{p}
	} else if d := os.Getenv("VERIF_REPLAYS"); d != "" {
		files, _ = filepath.Glob(filepath.Join(d, "*.json"))
	}
	for _, f := range files {
		b, err := os.ReadFile(f)
		if err != nil {
			t.Fatalf("INCONCLUSIVE cannot read %s: %v", f, err)
		}
		var c savedCase
		if err := json.Unmarshal(b, &c); err != nil || c.History == nil {
			t.Fatalf("INCONCLUSIVE %s is not a C08 case: %v", f, err)
		}
		if c.Crash != nil && !radius.VerifMarkersCompiledIn() {
			t.Logf("%s needs crash markers; skipped", f)
			continue
		}
		judge(t, c.History, c.Crash, execute(t, c.History, c.Crash), "replay-file")
	}
	_ = fmt.Sprint
}
